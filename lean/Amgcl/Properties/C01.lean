import Amgcl.Proofs.SolverCG
import Amgcl.Proofs.SolverBiCGStab
import Amgcl.Proofs.SolverRichardson
import Amgcl.Model.SolverPreonly
import Amgcl.Proofs.SolverGMRES
import Amgcl.Proofs.SolverFGMRES
import Amgcl.Proofs.SolverLGMRES
import Amgcl.Proofs.SolverIDRsTruth
import Amgcl.Proofs.SolverBiCGStabLTruth
import Mathlib.Algebra.Order.Field.Rat
/-!
# C01 — a reported convergence is truthful: residual, iteration count, solution  (CG, BiCGStab, Richardson, preonly)

Only property theorems live here (helper lemmas: `Amgcl/Proofs/Solver*.lean`).  The models
(`Amgcl/Model/Solver*.lean`) mirror `operator()(A, P, rhs, x)` of `amgcl/solver/{cg,bicgstab,richardson,preonly}.hpp`
statement by statement and are tied to the real templates by exact-rational differential execution
(`harness/h_solvers.cpp`).

All theorems hold for **every field `K`**, every well-formed CRS matrix `A` (any shape), every inner-product
functor `ip`, every function `sqrt`, every parameter record, every initial content of the work vectors, every
`f`, `x₀`, and

* right preconditioning / CG / Richardson: **every function `P`** returning vectors of length `ncols`
  (no linearity, no symmetry, no breakdown hypothesis: the invariant `r = f − A x` is preserved by the paired
  updates for ANY coefficient — `paired_update_inv`);
* BiCGStab with LEFT preconditioning: every **linear** `P` and square `A` (`SideOK`).  For a non-linear `P` the
  left-preconditioned recurrence `s = r − α·P(A p)` is not `P(f − A(x + α p))`, so the claim is false there; every
  explicit matrix preconditioner is linear (`PLin_spmv`).

`reported pl a` is the exact form in which the code computes the returned number: `a / norm_rhs`, with
`norm_rhs = ‖f‖` (or `1` after `ns_search` replaced a tiny `‖f‖`); on the early return (`‖f‖ < eps(1)`) the
code returns `‖f‖` itself, which is the ABSOLUTE residual of the returned `x = 0` (`early_return_is_abs_residual`).

The `check_after` corner of BiCGStab (a call with `check_after = true` that makes zero passes — `maxiter = 0`, or
`eps ≤ 0`) used to return the placeholder `2·eps/norm_rhs`; since /repo 13b78b9 (known_findings F08) the code
recomputes `res = norm(*r)` after the loop in that case, the model follows it, and `bicgstab_truthful` holds
without any side condition (`bicgstab_check_after_zero_iter` states the corner explicitly).

Not proved here (see tools/checks/C01.json): the empirical convergence of all coarsening × relaxation × solver
combinations in `double` (a statement about floating-point runs); IEEE rounding; GMRES/FGMRES/LGMRES/IDR(s)/
BiCGStab(L) (second work package).  preonly reports the constant `(0, 0)` and is outside the truthfulness claim
(`preonly_reports_zero` states what it does).
-/
namespace Amgcl.C01
open Amgcl Amgcl.Solver
set_option linter.unusedSectionVars false

section anyField
variable {K : Type} [Field K] [DecidableEq K] [LT K] [DecidableLT K]

/-- **CG reports the true residual of the `x` it returns**: `res = ‖f − A x‖ / norm_rhs`, for every function `P`. -/
theorem cg_truthful (prm : CG.Params K) (ip : Vec K → Vec K → K) (sqrt : K → K) (eps : K) (A : CRS K)
    (hA : A.WF) (P : Vec K → Vec K) (hP : ∀ v, (P v).size = A.ncols) (ws : CG.Work K) (f x0 : Vec K)
    (it : Nat) (res : K) (x : Vec K) (w : CG.Work K)
    (h : CG.solve prm ip sqrt eps A P ws f x0 = .ok (it, res, x, w)) :
    res = reported (prologue prm.nsSearch ip sqrt eps f) (nrm ip sqrt (residual f A x)) := by
  rw [CG.solve, Run.toExcept_ok] at h
  cases hp : prologue prm.nsSearch ip sqrt eps f with
  | trivial n =>
    rw [CG.run_trivial _ _ _ _ _ _ _ _ _ n hp] at h
    simp only [Prod.mk.injEq, Except.ok.injEq] at h
    simp [reported, h.1.2]
  | go nf =>
    rw [CG.run_go _ _ _ _ _ _ _ _ _ nf hp] at h
    simp only [Prod.mk.injEq, Except.ok.injEq] at h
    obtain ⟨⟨_, h2⟩, h3, _⟩ := h
    obtain ⟨i1, i2⟩ := CG.final_inv prm ip sqrt A hA P hP ws f x0 nf
    simp only [reported]
    rw [← h2, ← h3, i2, i1]

/-- **Richardson reports the true residual of the `x` it returns** (it recomputes `f − A x` in every pass:
no hypothesis on `A` or `P` at all). -/
theorem richardson_truthful (prm : Richardson.Params K) (ip : Vec K → Vec K → K) (sqrt : K → K) (eps : K)
    (A : CRS K) (P : Vec K → Vec K) (ws : Richardson.Work K) (f x0 : Vec K)
    (it : Nat) (res : K) (x : Vec K) (w : Richardson.Work K)
    (h : Richardson.solve prm ip sqrt eps A P ws f x0 = .ok (it, res, x, w)) :
    res = reported (prologue prm.nsSearch ip sqrt eps f) (nrm ip sqrt (residual f A x)) := by
  rw [Richardson.solve, Run.toExcept_ok] at h
  cases hp : prologue prm.nsSearch ip sqrt eps f with
  | trivial n =>
    rw [Richardson.run_trivial _ _ _ _ _ _ _ _ _ n hp] at h
    simp only [Prod.mk.injEq, Except.ok.injEq] at h
    simp [reported, h.1.2]
  | go nf =>
    rw [Richardson.run_go _ _ _ _ _ _ _ _ _ nf hp] at h
    simp only [Prod.mk.injEq, Except.ok.injEq] at h
    obtain ⟨⟨_, h2⟩, h3, _⟩ := h
    obtain ⟨i1, i2, _⟩ := Richardson.final_inv prm ip sqrt A P ws f x0 nf
    simp only [reported]
    rw [← h2, ← h3, i2, i1]

/-- **BiCGStab reports the true (preconditioned) residual of the `x` it returns**, through both exits of a pass:
`res = ‖f − A x‖/norm_rhs` (right) resp. `‖P(f − A x)‖/norm_rhs` (left), whenever the call returns normally
(including the `check_after` zero-pass corner, see the next theorem). -/
theorem bicgstab_truthful (prm : BiCGStab.Params K) (ip : Vec K → Vec K → K) (sqrt : K → K) (eps : K)
    (A : CRS K) (P : Vec K → Vec K) (ok : BiCGStab.SideOK prm.pside A P) (ws : BiCGStab.Work K) (f x0 : Vec K)
    (it : Nat) (res : K) (x : Vec K) (w : BiCGStab.Work K)
    (h : BiCGStab.solve prm ip sqrt eps A P ws f x0 = .ok (it, res, x, w)) :
    res = reported (prologue prm.nsSearch ip sqrt eps f) (nrm ip sqrt (BiCGStab.Rf prm.pside P f A x)) := by
  rw [BiCGStab.solve, Run.toExcept_ok] at h
  cases hp : prologue prm.nsSearch ip sqrt eps f with
  | trivial n =>
    rw [BiCGStab.run_trivial _ _ _ _ _ _ _ _ _ n hp] at h
    simp only [Prod.mk.injEq, Except.ok.injEq] at h
    simp [reported, h.1.2]
  | go nf =>
    rw [BiCGStab.run_go _ _ _ _ _ _ _ _ _ nf hp] at h
    cases hfin : BiCGStab.final prm ip sqrt A P ws f x0 nf with
    | mk oe st =>
      rw [hfin] at h
      cases oe with
      | some e => simp at h
      | none =>
        simp only [Prod.mk.injEq, Except.ok.injEq] at h
        obtain ⟨⟨h1, h2⟩, h3, _⟩ := h
        obtain ⟨⟨_, i2⟩, _, _, i4⟩ := BiCGStab.final_ok prm ip sqrt A P ok ws f x0 nf st hfin
        simp only [reported]
        rw [← h2, ← h3]
        by_cases h0 : st.iter = 0
        · obtain ⟨j1, j2, j3⟩ := i4 h0
          cases hc : prm.checkAfter with
          | true => rw [BiCGStab.repRes_ca_zero prm ip sqrt st hc h0, j3, j2]
          | false =>
            rw [BiCGStab.repRes_of_not_ca prm ip sqrt st hc, j1, j2,
              ← BiCGStab.init_r prm ip sqrt A P ws f x0 (BiCGStab.epsTol prm nf)]
            simp [BiCGStab.init, hc]
        · rw [BiCGStab.repRes_of_iter_ne prm ip sqrt st h0, i2 h0]

/-- **The `check_after` corner** (code as of /repo 13b78b9): a call with `check_after = true` that makes zero passes
(`maxiter = 0`, or `eps ≤ 0` so that the placeholder `2·eps` does not exceed `eps`) returns `x₀` unchanged, zero
iterations, and reports the TRUE (preconditioned) residual of `x₀` — for every matrix and every function `P`. -/
theorem bicgstab_check_after_zero_iter (prm : BiCGStab.Params K) (ip : Vec K → Vec K → K) (sqrt : K → K)
    (eps : K) (A : CRS K) (P : Vec K → Vec K) (ws : BiCGStab.Work K) (f x0 : Vec K) (nf : K)
    (hp : prologue prm.nsSearch ip sqrt eps f = .go nf) (hca : prm.checkAfter = true)
    (hzero : prm.maxiter = 0 ∨ ¬ BiCGStab.epsTol prm nf < two * BiCGStab.epsTol prm nf) :
    (BiCGStab.run prm ip sqrt eps A P ws f x0).obs
      = (.ok (0, nrm ip sqrt (BiCGStab.Rf prm.pside P f A x0) / nf), x0) := by
  rw [BiCGStab.run_go _ _ _ _ _ _ _ _ _ nf hp]
  have hfin : BiCGStab.final prm ip sqrt A P ws f x0 nf
      = (none, BiCGStab.init prm ip sqrt A P ws f x0 (BiCGStab.epsTol prm nf)) := by
    unfold BiCGStab.final BiCGStab.loop
    rcases hzero with hz | hz
    · rw [hz]; rfl
    · apply loopE_of_not_cond
      simp only [BiCGStab.cond, BiCGStab.init, hca, if_true]
      simpa using hz
  rw [hfin]
  simp only [Run.obs]
  rw [BiCGStab.repRes_ca_zero prm ip sqrt _ hca rfl, BiCGStab.init_r]
  rfl

/-- On the early return (`‖f‖ < eps(1)`, `ns_search` off — the same prologue in all solvers) the reported number
`‖f‖` is the absolute residual `‖f − A·0‖` of the returned zero vector. -/
theorem early_return_is_abs_residual (ns : Bool) (ip : Vec K → Vec K → K) (sqrt : K → K) (eps : K) (A : CRS K)
    (f : Vec K) (hf : f.size = A.nrows) (m : Nat) (n : K) (hp : prologue ns ip sqrt eps f = .trivial n) :
    reported (prologue ns ip sqrt eps f) (0 : K) = nrm ip sqrt (residual f A (vclear m)) := by
  rw [hp, residual_vclear f A m hf]
  exact ((prologue_trivial ns ip sqrt eps f n).mp hp).2.2

/-- the iteration count never exceeds the configured maximum -/
theorem cg_iter_le_maxiter (prm : CG.Params K) (ip : Vec K → Vec K → K) (sqrt : K → K) (eps : K) (A : CRS K)
    (P : Vec K → Vec K) (ws : CG.Work K) (f x0 : Vec K) (it : Nat) (res : K) (x : Vec K) (w : CG.Work K)
    (h : CG.solve prm ip sqrt eps A P ws f x0 = .ok (it, res, x, w)) : it ≤ prm.maxiter := by
  rw [CG.solve, Run.toExcept_ok] at h
  cases hp : prologue prm.nsSearch ip sqrt eps f with
  | trivial n =>
    rw [CG.run_trivial _ _ _ _ _ _ _ _ _ n hp] at h
    simp only [Prod.mk.injEq, Except.ok.injEq] at h
    omega
  | go nf =>
    rw [CG.run_go _ _ _ _ _ _ _ _ _ nf hp] at h
    simp only [Prod.mk.injEq, Except.ok.injEq] at h
    rw [← h.1.1]
    exact (CG.final_exit prm ip sqrt A P ws f x0 nf).1

theorem richardson_iter_le_maxiter (prm : Richardson.Params K) (ip : Vec K → Vec K → K) (sqrt : K → K) (eps : K)
    (A : CRS K) (P : Vec K → Vec K) (ws : Richardson.Work K) (f x0 : Vec K) (it : Nat) (res : K) (x : Vec K)
    (w : Richardson.Work K) (h : Richardson.solve prm ip sqrt eps A P ws f x0 = .ok (it, res, x, w)) :
    it ≤ prm.maxiter := by
  rw [Richardson.solve, Run.toExcept_ok] at h
  cases hp : prologue prm.nsSearch ip sqrt eps f with
  | trivial n =>
    rw [Richardson.run_trivial _ _ _ _ _ _ _ _ _ n hp] at h
    simp only [Prod.mk.injEq, Except.ok.injEq] at h
    omega
  | go nf =>
    rw [Richardson.run_go _ _ _ _ _ _ _ _ _ nf hp] at h
    simp only [Prod.mk.injEq, Except.ok.injEq] at h
    rw [← h.1.1]
    exact (Richardson.final_exit prm ip sqrt A P ws f x0 nf).1

/-- (no hypothesis on `A`, `P`: the bound is control flow — the fuel of the recursion is `maxiter`) -/
theorem bicgstab_iter_le_maxiter (prm : BiCGStab.Params K) (ip : Vec K → Vec K → K) (sqrt : K → K) (eps : K)
    (A : CRS K) (P : Vec K → Vec K) (ws : BiCGStab.Work K) (f x0 : Vec K) (it : Nat) (res : K) (x : Vec K)
    (w : BiCGStab.Work K) (h : BiCGStab.solve prm ip sqrt eps A P ws f x0 = .ok (it, res, x, w)) :
    it ≤ prm.maxiter := by
  rw [BiCGStab.solve, Run.toExcept_ok] at h
  cases hp : prologue prm.nsSearch ip sqrt eps f with
  | trivial n =>
    rw [BiCGStab.run_trivial _ _ _ _ _ _ _ _ _ n hp] at h
    simp only [Prod.mk.injEq, Except.ok.injEq] at h
    omega
  | go nf =>
    rw [BiCGStab.run_go _ _ _ _ _ _ _ _ _ nf hp] at h
    cases hfin : BiCGStab.final prm ip sqrt A P ws f x0 nf with
    | mk oe st =>
      rw [hfin] at h
      cases oe with
      | some e => simp at h
      | none =>
        simp only [Prod.mk.injEq, Except.ok.injEq] at h
        rw [← h.1.1]
        unfold BiCGStab.final BiCGStab.loop at hfin
        have := (loopE_exit _ _ BiCGStab.St.iter
          (fun s s' hb => BiCGStab.body_iter prm.pside ip sqrt A P _ s s' hb) _ _ _ hfin).1
        simpa [BiCGStab.init] using this

/-- preonly: what the code does — one preconditioner application, constant report `(0, 0)`. -/
theorem preonly_reports_zero (ip : Vec K → Vec K → K) (sqrt : K → K) (eps : K) (A : CRS K) (P : Vec K → Vec K)
    (f x0 : Vec K) : Preonly.solve ip sqrt eps A P () f x0 = .ok (0, 0, P f, ()) := rfl

end anyField

section ordered
variable {K : Type} [Field K] [LinearOrder K] [IsStrictOrderedRing K]

/-- **A reported value below the tolerance really means the system is solved to that tolerance.**  Generic form:
whenever the reported number is `‖R‖ / norm_rhs` (which the `*_truthful` theorems establish, `R = f − A x` or
`P(f − A x)`), `eps(1) > 0`, and the call did not return early, `res < tol` implies `‖R‖ < tol · norm_rhs`. -/
theorem below_tol_means_solved (ns : Bool) (ip : Vec K → Vec K → K) (sqrt : K → K) (eps : K) (heps : 0 < eps)
    (f R : Vec K) (nf tol res : K) (hp : prologue ns ip sqrt eps f = .go nf)
    (htruth : res = reported (prologue ns ip sqrt eps f) (nrm ip sqrt R)) (hlt : res < tol) :
    nrm ip sqrt R < tol * nf := by
  rw [hp] at htruth
  simp only [reported] at htruth
  exact below_tol_of_div _ _ _ (prologue_go_pos ns ip sqrt eps heps f nf hp) (htruth ▸ hlt)

/-- instance for CG (the other two are identical one-liners from their `*_truthful`) -/
theorem cg_below_tol_means_solved (prm : CG.Params K) (ip : Vec K → Vec K → K) (sqrt : K → K) (eps : K)
    (heps : 0 < eps) (A : CRS K) (hA : A.WF) (P : Vec K → Vec K) (hP : ∀ v, (P v).size = A.ncols)
    (ws : CG.Work K) (f x0 : Vec K) (it : Nat) (res : K) (x : Vec K) (w : CG.Work K) (nf : K)
    (h : CG.solve prm ip sqrt eps A P ws f x0 = .ok (it, res, x, w))
    (hp : prologue prm.nsSearch ip sqrt eps f = .go nf) (hlt : res < prm.tol) :
    nrm ip sqrt (residual f A x) < prm.tol * nf :=
  below_tol_means_solved prm.nsSearch ip sqrt eps heps f _ nf prm.tol res hp
    (cg_truthful prm ip sqrt eps A hA P hP ws f x0 it res x w h) hlt

theorem bicgstab_below_tol_means_solved (prm : BiCGStab.Params K) (ip : Vec K → Vec K → K) (sqrt : K → K)
    (eps : K) (heps : 0 < eps) (A : CRS K) (P : Vec K → Vec K) (ok : BiCGStab.SideOK prm.pside A P)
    (ws : BiCGStab.Work K) (f x0 : Vec K) (it : Nat) (res : K) (x : Vec K) (w : BiCGStab.Work K) (nf : K)
    (h : BiCGStab.solve prm ip sqrt eps A P ws f x0 = .ok (it, res, x, w))
    (hp : prologue prm.nsSearch ip sqrt eps f = .go nf) (hlt : res < prm.tol) :
    nrm ip sqrt (BiCGStab.Rf prm.pside P f A x) < prm.tol * nf :=
  below_tol_means_solved prm.nsSearch ip sqrt eps heps f _ nf prm.tol res hp
    (bicgstab_truthful prm ip sqrt eps A P ok ws f x0 it res x w h) hlt

theorem richardson_below_tol_means_solved (prm : Richardson.Params K) (ip : Vec K → Vec K → K) (sqrt : K → K)
    (eps : K) (heps : 0 < eps) (A : CRS K) (P : Vec K → Vec K)
    (ws : Richardson.Work K) (f x0 : Vec K) (it : Nat) (res : K) (x : Vec K) (w : Richardson.Work K) (nf : K)
    (h : Richardson.solve prm ip sqrt eps A P ws f x0 = .ok (it, res, x, w))
    (hp : prologue prm.nsSearch ip sqrt eps f = .go nf) (hlt : res < prm.tol) :
    nrm ip sqrt (residual f A x) < prm.tol * nf :=
  below_tol_means_solved prm.nsSearch ip sqrt eps heps f _ nf prm.tol res hp
    (richardson_truthful prm ip sqrt eps A P ws f x0 it res x w h) hlt

/-- **Richardson converges at the rate of the contraction factor of its iteration map**: for ANY error measure
`En` (e.g. the energy `⟨A e, e⟩` of `e = x − A⁻¹f`; no `sqrt` involved) that the preconditioned step
`x ↦ x + ω P(f − A x)` contracts by `ρ`, the returned iterate satisfies `En x ≤ ρ^it · En x₀`. -/
theorem richardson_rate (prm : Richardson.Params K) (ip : Vec K → Vec K → K) (sqrt : K → K) (eps : K)
    (A : CRS K) (P : Vec K → Vec K) (ws : Richardson.Work K) (f x0 : Vec K) (it : Nat) (res : K) (x : Vec K)
    (w : Richardson.Work K) (nf : K)
    (h : Richardson.solve prm ip sqrt eps A P ws f x0 = .ok (it, res, x, w))
    (hp : prologue prm.nsSearch ip sqrt eps f = .go nf)
    (En : Vec K → K) (ρ : K) (hρ : 0 ≤ ρ)
    (hcontr : ∀ y, En (Richardson.step prm.damping A P f y) ≤ ρ * En y) :
    En x ≤ ρ ^ it * En x0 := by
  rw [Richardson.solve, Run.toExcept_ok, Richardson.run_go _ _ _ _ _ _ _ _ _ nf hp] at h
  simp only [Prod.mk.injEq, Except.ok.injEq] at h
  obtain ⟨⟨h1, _⟩, h3, _⟩ := h
  obtain ⟨_, _, i3⟩ := Richardson.final_inv prm ip sqrt A P ws f x0 nf
  rw [← h3, i3, h1]
  clear h1 h3 i3
  induction it with
  | zero => simp
  | succ k ih =>
    rw [Function.iterate_succ_apply', pow_succ]
    calc En (Richardson.step prm.damping A P f ((Richardson.step prm.damping A P f)^[k] x0))
        ≤ ρ * En ((Richardson.step prm.damping A P f)^[k] x0) := hcontr _
      _ ≤ ρ * (ρ ^ k * En x0) := mul_le_mul_of_nonneg_left ih hρ
      _ = ρ ^ k * ρ * En x0 := by ring

end ordered

/-! ### non-vacuity: the hypotheses are satisfiable on concrete non-trivial inputs over `ℚ`
(a non-symmetric 2×2 system, a non-identity matrix preconditioner, non-zero initial guess; the calls make two
passes; evaluated by the kernel — `decide +kernel`, no native code) -/
section nonvacuous

private def A₀ : CRS ℚ := ⟨2, #[[(0, 2), (1, -1)], [(0, -3), (1, 4)]]⟩
private def M₀ : CRS ℚ := ⟨2, #[[(0, 1/2)], [(0, 1/8), (1, 1/4)]]⟩
private def P₀ : Vec ℚ → Vec ℚ := fun v => spmv 1 M₀ v 0 #[]
private def cgPrm : CG.Params ℚ := { maxiter := 2, tol := 0, abstol := 0, nsSearch := false }
private def biPrm : BiCGStab.Params ℚ :=
  { maxiter := 3, tol := 0, abstol := 0, nsSearch := false, pside := .left, checkAfter := false }
private def riPrm : Richardson.Params ℚ :=
  { maxiter := 2, tol := 0, abstol := 0, nsSearch := false, damping := 2/3 }

example : A₀.WF := by decide
example : ∀ v, (P₀ v).size = A₀.ncols := fun v => spmv_size' 1 0 M₀ v #[]

/-- `SideOK` for LEFT preconditioning with a matrix preconditioner -/
example : BiCGStab.SideOK .left A₀ P₀ :=
  ⟨by decide, fun v => spmv_size' 1 0 M₀ v #[], fun _ => ⟨rfl, PLin_spmv M₀ (by decide) #[]⟩⟩

example : ∃ it res x w, CG.solve cgPrm stdIp id 0 A₀ P₀ (CG.Work.fresh 2) #[1, 3] #[1, 0] = .ok (it, res, x, w)
    ∧ it = 2 := by
  have h : (match CG.solve cgPrm stdIp id 0 A₀ P₀ (CG.Work.fresh 2) #[1, 3] #[1, 0] with
      | .ok (it, _, _, _) => decide (it = 2) | _ => false) = true := by decide +kernel
  split at h
  · exact ⟨_, _, _, _, ‹_›, of_decide_eq_true h⟩
  · cases h

example : ∃ it res x w, BiCGStab.solve biPrm stdIp id 0 A₀ P₀ (BiCGStab.Work.fresh 2) #[1, 3] #[1, 0]
    = .ok (it, res, x, w) ∧ it = 2 := by
  have h : (match BiCGStab.solve biPrm stdIp id 0 A₀ P₀ (BiCGStab.Work.fresh 2) #[1, 3] #[1, 0] with
      | .ok (it, _, _, _) => decide (it = 2) | _ => false) = true := by decide +kernel
  split at h
  · exact ⟨_, _, _, _, ‹_›, of_decide_eq_true h⟩
  · cases h

example : ∃ it res x w, Richardson.solve riPrm stdIp id 0 A₀ P₀ (Richardson.Work.fresh 2) #[1, 3] #[1, 0]
    = .ok (it, res, x, w) ∧ it = 2 := by
  have h : (match Richardson.solve riPrm stdIp id 0 A₀ P₀ (Richardson.Work.fresh 2) #[1, 3] #[1, 0] with
      | .ok (it, _, _, _) => decide (it = 2) | _ => false) = true := by decide +kernel
  split at h
  · exact ⟨_, _, _, _, ‹_›, of_decide_eq_true h⟩
  · cases h

/-- the `check_after` corner is inhabited: `maxiter = 0`; with `sqrt := id`, left preconditioning by `M₀`:
`r₀ = M₀(f − A₀x₀) = (−1/2, 11/8)`, `⟨r₀,r₀⟩ = 137/64`, `⟨f,f⟩ = 10`: the reported value is `137/640`, not the
placeholder `2·eps/norm_rhs = 1/5` the code returned before 13b78b9 -/
example : (BiCGStab.run { biPrm with maxiter := 0, checkAfter := true, tol := 1/10 } stdIp id 0 A₀ P₀
    (BiCGStab.Work.fresh 2) #[1, 3] #[1, 0]).obs = (.ok (0, 137/640), #[1, 0]) := by decide +kernel

end nonvacuous

/-! ## Second package: GMRES, FGMRES, LGMRES, IDR(s), BiCGStab(L)

`gmres`, `fgmres`, `lgmres`, `idrs` use the norm `|sqrt⟨x,x⟩|` (`nrmA`, prologue `prologueA`); `bicgstabl` uses
`sqrt|⟨x,x⟩|` (`nrm`, `prologue`) like the first package.

For the three GMRES variants truthfulness is pure control flow: the outer `while(true)` has ONE exit, the `break`
directly behind `r = f − A x` (left: `r = P(f − A x)`), `norm_r = norm(r)` (gmres.hpp:191-199, fgmres.hpp:177-181,
lgmres.hpp:236-245).  Hence NO hypothesis on the matrix (not even well-formedness), on `P` (any function, also
non-linear, for both sides), on the Arnoldi process, on `sqrt`, on the work arrays or — for LGMRES — on the
augmentation vectors inherited from earlier calls. -/
section gmresFamily
variable {K : Type} [Field K] [DecidableEq K] [LT K] [DecidableLT K]

/-- **GMRES reports the true (preconditioned) residual of the `x` it returns**: `res = ‖f − A x‖ / norm_rhs` (right)
resp. `‖P(f − A x)‖ / norm_rhs` (left). -/
theorem gmres_truthful (prm : GMRES.Params K) (ip : Vec K → Vec K → K) (sqrt : K → K) (eps : K) (A : CRS K)
    (P : Vec K → Vec K) (ws : GMRES.Work K) (f x0 : Vec K) (it : Nat) (res : K) (x : Vec K) (w : GMRES.Work K)
    (h : GMRES.solve prm ip sqrt eps A P ws f x0 = .ok (it, res, x, w)) :
    res = reported (prologueA prm.nsSearch ip sqrt eps f) (nrmA ip sqrt (BiCGStab.Rf prm.pside P f A x)) := by
  rw [GMRES.solve, Run.toExcept_ok] at h
  cases hp : prologueA prm.nsSearch ip sqrt eps f with
  | trivial n =>
    rw [GMRES.run_trivial _ _ _ _ _ _ _ _ _ n hp] at h
    simp only [Prod.mk.injEq, Except.ok.injEq] at h
    simp [reported, h.1.2]
  | go nf =>
    rw [GMRES.run_go _ _ _ _ _ _ _ _ _ nf hp] at h
    simp only [Prod.mk.injEq, Except.ok.injEq] at h
    obtain ⟨⟨_, h2⟩, h3, _⟩ := h
    obtain ⟨_, i2⟩ := GMRES.final_inv prm ip sqrt A P ws f x0 nf
    simp only [reported]
    rw [← h2, ← h3, i2]

/-- **FGMRES reports the true residual of the `x` it returns**: `res = ‖f − A x‖ / norm_rhs`. -/
theorem fgmres_truthful (prm : FGMRES.Params K) (ip : Vec K → Vec K → K) (sqrt : K → K) (eps : K) (A : CRS K)
    (P : Vec K → Vec K) (ws : FGMRES.Work K) (f x0 : Vec K) (it : Nat) (res : K) (x : Vec K) (w : FGMRES.Work K)
    (h : FGMRES.solve prm ip sqrt eps A P ws f x0 = .ok (it, res, x, w)) :
    res = reported (prologueA prm.nsSearch ip sqrt eps f) (nrmA ip sqrt (residual f A x)) := by
  rw [FGMRES.solve, Run.toExcept_ok] at h
  cases hp : prologueA prm.nsSearch ip sqrt eps f with
  | trivial n =>
    rw [FGMRES.run_trivial _ _ _ _ _ _ _ _ _ n hp] at h
    simp only [Prod.mk.injEq, Except.ok.injEq] at h
    simp [reported, h.1.2]
  | go nf =>
    rw [FGMRES.run_go _ _ _ _ _ _ _ _ _ nf hp] at h
    simp only [Prod.mk.injEq, Except.ok.injEq] at h
    obtain ⟨⟨_, h2⟩, h3, _⟩ := h
    obtain ⟨_, i2⟩ := FGMRES.final_inv prm ip sqrt A P ws f x0 nf
    simp only [reported]
    rw [← h2, ← h3, i2]

/-- **LGMRES reports the true (preconditioned) residual of the `x` it returns** — whatever augmentation vectors the
object carries from earlier calls (`always_reset` on or off). -/
theorem lgmres_truthful (prm : LGMRES.Params K) (ip : Vec K → Vec K → K) (sqrt : K → K) (eps : K) (A : CRS K)
    (P : Vec K → Vec K) (ws : LGMRES.Work K) (f x0 : Vec K) (it : Nat) (res : K) (x : Vec K) (w : LGMRES.Work K)
    (h : LGMRES.solve prm ip sqrt eps A P ws f x0 = .ok (it, res, x, w)) :
    res = reported (prologueA prm.nsSearch ip sqrt eps f) (nrmA ip sqrt (BiCGStab.Rf prm.pside P f A x)) := by
  rw [LGMRES.solve, Run.toExcept_ok] at h
  cases hp : prologueA prm.nsSearch ip sqrt eps f with
  | trivial n =>
    rw [LGMRES.run_trivial _ _ _ _ _ _ _ _ _ n hp] at h
    simp only [Prod.mk.injEq, Except.ok.injEq] at h
    simp [reported, h.1.2]
  | go nf =>
    rw [LGMRES.run_go _ _ _ _ _ _ _ _ _ nf hp] at h
    simp only [Prod.mk.injEq, Except.ok.injEq] at h
    obtain ⟨⟨_, h2⟩, h3, _⟩ := h
    obtain ⟨_, i2⟩ := LGMRES.final_inv prm ip sqrt A P (LGMRES.reset prm ws) f x0 nf
    simp only [reported]
    rw [← h2, ← h3, i2]

/-- the iteration count of GMRES never exceeds the configured maximum (restarts included) -/
theorem gmres_iter_le_maxiter (prm : GMRES.Params K) (ip : Vec K → Vec K → K) (sqrt : K → K) (eps : K) (A : CRS K)
    (P : Vec K → Vec K) (ws : GMRES.Work K) (f x0 : Vec K) (it : Nat) (res : K) (x : Vec K) (w : GMRES.Work K)
    (h : GMRES.solve prm ip sqrt eps A P ws f x0 = .ok (it, res, x, w)) : it ≤ prm.maxiter := by
  rw [GMRES.solve, Run.toExcept_ok] at h
  cases hp : prologueA prm.nsSearch ip sqrt eps f with
  | trivial n =>
    rw [GMRES.run_trivial _ _ _ _ _ _ _ _ _ n hp] at h
    simp only [Prod.mk.injEq, Except.ok.injEq] at h
    omega
  | go nf =>
    rw [GMRES.run_go _ _ _ _ _ _ _ _ _ nf hp] at h
    simp only [Prod.mk.injEq, Except.ok.injEq] at h
    rw [← h.1.1]
    exact GMRES.final_iter_le prm ip sqrt A P ws f x0 nf

theorem fgmres_iter_le_maxiter (prm : FGMRES.Params K) (ip : Vec K → Vec K → K) (sqrt : K → K) (eps : K)
    (A : CRS K) (P : Vec K → Vec K) (ws : FGMRES.Work K) (f x0 : Vec K) (it : Nat) (res : K) (x : Vec K)
    (w : FGMRES.Work K) (h : FGMRES.solve prm ip sqrt eps A P ws f x0 = .ok (it, res, x, w)) :
    it ≤ prm.maxiter := by
  rw [FGMRES.solve, Run.toExcept_ok] at h
  cases hp : prologueA prm.nsSearch ip sqrt eps f with
  | trivial n =>
    rw [FGMRES.run_trivial _ _ _ _ _ _ _ _ _ n hp] at h
    simp only [Prod.mk.injEq, Except.ok.injEq] at h
    omega
  | go nf =>
    rw [FGMRES.run_go _ _ _ _ _ _ _ _ _ nf hp] at h
    simp only [Prod.mk.injEq, Except.ok.injEq] at h
    rw [← h.1.1]
    exact FGMRES.final_iter_le prm ip sqrt A P ws f x0 nf

theorem lgmres_iter_le_maxiter (prm : LGMRES.Params K) (ip : Vec K → Vec K → K) (sqrt : K → K) (eps : K)
    (A : CRS K) (P : Vec K → Vec K) (ws : LGMRES.Work K) (f x0 : Vec K) (it : Nat) (res : K) (x : Vec K)
    (w : LGMRES.Work K) (h : LGMRES.solve prm ip sqrt eps A P ws f x0 = .ok (it, res, x, w)) :
    it ≤ prm.maxiter := by
  rw [LGMRES.solve, Run.toExcept_ok] at h
  cases hp : prologueA prm.nsSearch ip sqrt eps f with
  | trivial n =>
    rw [LGMRES.run_trivial _ _ _ _ _ _ _ _ _ n hp] at h
    simp only [Prod.mk.injEq, Except.ok.injEq] at h
    omega
  | go nf =>
    rw [LGMRES.run_go _ _ _ _ _ _ _ _ _ nf hp] at h
    simp only [Prod.mk.injEq, Except.ok.injEq] at h
    rw [← h.1.1]
    exact LGMRES.final_iter_le prm ip sqrt A P _ f x0 nf

/-- GMRES stops only through its stopping test: on return `norm_r < eps` or `iter ≥ maxiter` holds for the very
numbers that are reported (the fuel of the modelled loops is never the reason for the exit) -/
theorem gmres_stops_only_when_done (prm : GMRES.Params K) (ip : Vec K → Vec K → K) (sqrt : K → K) (eps : K)
    (A : CRS K) (P : Vec K → Vec K) (ws : GMRES.Work K) (f x0 : Vec K) (nf : K)
    (hp : prologueA prm.nsSearch ip sqrt eps f = .go nf)
    (it : Nat) (res : K) (x : Vec K) (w : GMRES.Work K)
    (h : GMRES.solve prm ip sqrt eps A P ws f x0 = .ok (it, res, x, w)) :
    nrmA ip sqrt (BiCGStab.Rf prm.pside P f A x) < GMRES.epsTol prm nf ∨ prm.maxiter ≤ it := by
  rw [GMRES.solve, Run.toExcept_ok, GMRES.run_go _ _ _ _ _ _ _ _ _ nf hp] at h
  simp only [Prod.mk.injEq, Except.ok.injEq] at h
  obtain ⟨⟨h1, _⟩, h3, _⟩ := h
  have hs := GMRES.outer_fuel_ok prm ip sqrt A P ws f x0 nf
  obtain ⟨_, i2⟩ := GMRES.final_inv prm ip sqrt A P ws f x0 nf
  simp only [GMRES.stop, Bool.or_eq_true, decide_eq_true_eq] at hs
  rw [i2, h1, h3] at hs
  exact hs

end gmresFamily

/-! ### IDR(s)

The residual `r` of IDR(s) is updated recursively (`r −= β·G[k]` with `x += β·U[k]`; `r −= ω·t` with `x += ω·v`,
`t = A v`) and recomputed only with `replacement`; truthfulness therefore needs the invariant `G[i] = A·U[i]` for the
stored vectors (maintained by the bi-orthogonalisation, which applies the same combination to `G[k]` and `U[k]`)
and linearity of `A` — for ARBITRARY values of all coefficients (`c`, `β`, `ω`, `α`): no breakdown hypothesis, any
shadow space `P`, any function `Prec`.  With `smoothing` the reported norm is that of the smoothed residual `r_s` and
the returned vector is `x_s`; `r_s ← r_s − γ(r_s − r)`, `x_s ← x_s − γ(x_s − x)` is again a paired update. -/
section idrs
variable {K : Type} [Field K] [DecidableEq K] [LT K] [DecidableLT K]

/-- **IDR(s) without smoothing reports the true residual of the `x` it returns** (`replacement` on or off).
(`_partial` only in the sense of the work-package plan: the smoothing case is `idrs_truthful_smoothing` below.) -/
theorem idrs_truthful_partial (prm : IDRs.Params K) (hsm : prm.smoothing = false) (ip : Vec K → Vec K → K)
    (sqrt : K → K) (eps : K) (A : CRS K) (hA : A.WF) (hsq : A.nrows = A.ncols) (Prec : Vec K → Vec K)
    (hP : ∀ v, (Prec v).size = A.ncols) (Pv : FArr (Vec K)) (ws : IDRs.Work K) (f x0 : Vec K)
    (it : Nat) (res : K) (x : Vec K) (w : IDRs.Work K)
    (h : IDRs.solve prm ip sqrt eps A Prec Pv ws f x0 = .ok (it, res, x, w)) :
    res = reported (prologueA prm.nsSearch ip sqrt eps f) (nrmA ip sqrt (residual f A x)) :=
  IDRs.solve_truthful_partial prm hsm ip sqrt eps A hA hsq Prec hP Pv ws f x0 it res x w h

/-- **IDR(s) reports the true residual of the `x` it returns, with or without smoothing** (initial guess of the
system's length). -/
theorem idrs_truthful_smoothing (prm : IDRs.Params K) (ip : Vec K → Vec K → K)
    (sqrt : K → K) (eps : K) (A : CRS K) (hA : A.WF) (hsq : A.nrows = A.ncols) (Prec : Vec K → Vec K)
    (hP : ∀ v, (Prec v).size = A.ncols) (Pv : FArr (Vec K)) (ws : IDRs.Work K) (f x0 : Vec K)
    (hx : x0.size = A.ncols) (it : Nat) (res : K) (x : Vec K) (w : IDRs.Work K)
    (h : IDRs.solve prm ip sqrt eps A Prec Pv ws f x0 = .ok (it, res, x, w)) :
    res = reported (prologueA prm.nsSearch ip sqrt eps f) (nrmA ip sqrt (residual f A x)) :=
  IDRs.solve_truthful_smoothing prm ip sqrt eps A hA hsq Prec hP Pv ws f x0 hx it res x w h

/-- the iteration count of IDR(s) never exceeds `maxiter` (no hypothesis on `A`, `Prec`, `P`, the work arrays).
Note the code does not count the step in which it converges: `if (res_norm <= eps || ++iter >= maxiter) break;` -/
theorem idrs_iter_le_maxiter (prm : IDRs.Params K) (ip : Vec K → Vec K → K) (sqrt : K → K) (eps : K) (A : CRS K)
    (Prec : Vec K → Vec K) (Pv : FArr (Vec K)) (ws : IDRs.Work K) (f x0 : Vec K) (it : Nat) (res : K) (x : Vec K)
    (w : IDRs.Work K) (h : IDRs.solve prm ip sqrt eps A Prec Pv ws f x0 = .ok (it, res, x, w)) :
    it ≤ prm.maxiter :=
  IDRs.solve_iter_le prm ip sqrt eps A Prec Pv ws f x0 it res x w h

end idrs

/-! ### BiCGStab(L)

BiCGStab(L) iterates on the correction: `B` is the (preconditioned) residual of the caller's `x`, `X` the accumulated
correction in the preconditioned space, `R[0]` the recursively updated `B − A'X` (`A' = A∘P` right, `P∘A` left);
`x += X` (left) resp. `x += P X` (right) only at the label `done` and in the accurate-update branch.  The invariant
`B = Rf(x)`, `R[0] = B − A'X`, `R[i+1] = A'R[i]`, `U[i+1] = A'U[i]` holds for ARBITRARY values of `alpha`, `beta` and of
the polynomial coefficients (nothing about `QR.solve` is used beyond its frame), through the early exit, the
`delta`-refresh and the `update_x` re-basing.  Because `P` is applied to the SUM `X` at the end, `P` must be linear
for BOTH sides (`PLin`; every explicit matrix preconditioner is, `PLin_spmv`), and `A` square. -/
section bicgstabl
variable {K : Type} [Field K] [DecidableEq K] [LT K] [DecidableLT K]

/-- **BiCGStab(L) reports the true (preconditioned) residual of the `x` it returns** — every `L`, both sides, every
`delta`/`convex`, all exits.  (Named `_partial` in the work-package plan; the statement proved is the full one, the
only restriction being linearity of `P` and a square well-formed `A`.) -/
theorem bicgstabl_truthful_partial (prm : BiCGStabL.Params K) (ip : Vec K → Vec K → K) (sqrt : K → K) (eps c07 : K)
    (A : CRS K) (P : Vec K → Vec K) (ok : BiCGStab.SideOK prm.pside A P) (hsq : A.nrows = A.ncols)
    (hlin : PLin A.nrows P) (ws : BiCGStabL.Work K) (f x0 : Vec K) (it : Nat) (res : K) (x : Vec K)
    (w : BiCGStabL.Work K) (h : BiCGStabL.solve prm ip sqrt eps c07 A P ws f x0 = .ok (it, res, x, w)) :
    res = reported (prologue prm.nsSearch ip sqrt eps f) (nrm ip sqrt (BiCGStab.Rf prm.pside P f A x)) :=
  BiCGStabL.solve_truthful prm ip sqrt eps c07 A P ok hsq hlin ws f x0 it res x w h

/-- **`it ≤ maxiter + L − 1`** for BiCGStab(L) (a pass is entered with `iter < maxiter` and adds `L`, the early exit
adds `j+1 ≤ L`); no hypothesis on `A`, `P`. -/
theorem bicgstabl_iter_le (prm : BiCGStabL.Params K) (ip : Vec K → Vec K → K) (sqrt : K → K) (eps c07 : K)
    (A : CRS K) (P : Vec K → Vec K) (ws : BiCGStabL.Work K) (f x0 : Vec K) (it : Nat) (res : K) (x : Vec K)
    (w : BiCGStabL.Work K) (h : BiCGStabL.solve prm ip sqrt eps c07 A P ws f x0 = .ok (it, res, x, w))
    (hL : 1 ≤ prm.L) : it ≤ prm.maxiter + prm.L - 1 :=
  BiCGStabL.solve_iter_le prm ip sqrt eps c07 A P ws f x0 it res x w h hL

end bicgstabl

section gmresOrdered
variable {K : Type} [Field K] [LinearOrder K] [IsStrictOrderedRing K]

/-- the `nrmA` flavour of `below_tol_means_solved` (for gmres / fgmres / lgmres / idrs) -/
theorem below_tol_means_solved_A (ns : Bool) (ip : Vec K → Vec K → K) (sqrt : K → K) (eps : K) (heps : 0 < eps)
    (f R : Vec K) (nf tol res : K) (hp : prologueA ns ip sqrt eps f = .go nf)
    (htruth : res = reported (prologueA ns ip sqrt eps f) (nrmA ip sqrt R)) (hlt : res < tol) :
    nrmA ip sqrt R < tol * nf := by
  rw [hp] at htruth
  simp only [reported] at htruth
  exact below_tol_of_div _ _ _ (prologueA_go_pos ns ip sqrt eps heps f nf hp) (htruth ▸ hlt)

theorem gmres_below_tol_means_solved (prm : GMRES.Params K) (ip : Vec K → Vec K → K) (sqrt : K → K) (eps : K)
    (heps : 0 < eps) (A : CRS K) (P : Vec K → Vec K) (ws : GMRES.Work K) (f x0 : Vec K) (it : Nat) (res : K)
    (x : Vec K) (w : GMRES.Work K) (nf : K)
    (h : GMRES.solve prm ip sqrt eps A P ws f x0 = .ok (it, res, x, w))
    (hp : prologueA prm.nsSearch ip sqrt eps f = .go nf) (hlt : res < prm.tol) :
    nrmA ip sqrt (BiCGStab.Rf prm.pside P f A x) < prm.tol * nf :=
  below_tol_means_solved_A prm.nsSearch ip sqrt eps heps f _ nf prm.tol res hp
    (gmres_truthful prm ip sqrt eps A P ws f x0 it res x w h) hlt

end gmresOrdered

/-! ### non-vacuity (second package): concrete runs over `ℚ` — a non-symmetric 2×2 system, a non-identity matrix
preconditioner applied from the LEFT, non-zero initial guess, `sqrt := id`; GMRES(2) restarts once (3 iterations),
FGMRES(1) restarts twice, LGMRES(1,1) uses an augmentation vector in its second cycle -/
section nonvacuous2

private def gmPrm : GMRES.Params ℚ :=
  { maxiter := 3, tol := 0, abstol := 0, nsSearch := false, M := 2, pside := .left }
private def fgPrm : FGMRES.Params ℚ := { maxiter := 3, tol := 0, abstol := 0, nsSearch := false, M := 1 }
private def lgPrm : LGMRES.Params ℚ :=
  { maxiter := 3, tol := 0, abstol := 0, nsSearch := false, M := 1, K' := 1, alwaysReset := true, pside := .left }

example : ∃ it res x w, GMRES.solve gmPrm stdIp id 0 A₀ P₀ (GMRES.Work.fresh 2) #[1, 3] #[1, 0]
    = .ok (it, res, x, w) ∧ it = 3 := by
  have h : (match GMRES.solve gmPrm stdIp id 0 A₀ P₀ (GMRES.Work.fresh 2) #[1, 3] #[1, 0] with
      | .ok (it, _, _, _) => decide (it = 3) | _ => false) = true := by decide +kernel
  split at h
  · exact ⟨_, _, _, _, ‹_›, of_decide_eq_true h⟩
  · cases h

example : ∃ it res x w, FGMRES.solve fgPrm stdIp id 0 A₀ P₀ (FGMRES.Work.fresh 2) #[1, 3] #[1, 0]
    = .ok (it, res, x, w) ∧ it = 3 := by
  have h : (match FGMRES.solve fgPrm stdIp id 0 A₀ P₀ (FGMRES.Work.fresh 2) #[1, 3] #[1, 0] with
      | .ok (it, _, _, _) => decide (it = 3) | _ => false) = true := by decide +kernel
  split at h
  · exact ⟨_, _, _, _, ‹_›, of_decide_eq_true h⟩
  · cases h

example : ∃ it res x w, LGMRES.solve lgPrm stdIp id 0 A₀ P₀ (LGMRES.Work.fresh 2) #[1, 3] #[1, 0]
    = .ok (it, res, x, w) ∧ it = 3 := by
  have h : (match LGMRES.solve lgPrm stdIp id 0 A₀ P₀ (LGMRES.Work.fresh 2) #[1, 3] #[1, 0] with
      | .ok (it, _, _, _) => decide (it = 3) | _ => false) = true := by decide +kernel
  split at h
  · exact ⟨_, _, _, _, ‹_›, of_decide_eq_true h⟩
  · cases h

/-- IDR(1) on a non-symmetric 3×3 system, with smoothing and residual replacement: three counted iterations -/
private def A₁ : CRS ℚ := ⟨3, #[[(0, 2), (1, -1)], [(0, -1), (1, 2), (2, -1)], [(1, -1), (2, 3)]]⟩
private def idPrm (sm rp : Bool) : IDRs.Params ℚ :=
  { maxiter := 3, tol := 0, abstol := 0, nsSearch := false, s := 1, omega := 7/10, smoothing := sm, replacement := rp }
private def Pv₁ : FArr (Vec ℚ) := IDRs.makeP stdIp id 1 ⟨fun _ => #[1, 0, 1]⟩

example : A₁.WF ∧ A₁.nrows = A₁.ncols := by decide
example : ∃ it res x w, IDRs.solve (idPrm false false) stdIp id 0 A₁ (fun v => vcopy v) Pv₁ (IDRs.Work.fresh 3)
    #[1, 0, 2] #[0, 0, 0] = .ok (it, res, x, w) ∧ it = 3 := by
  have h : (match IDRs.solve (idPrm false false) stdIp id 0 A₁ (fun v => vcopy v) Pv₁ (IDRs.Work.fresh 3)
      #[1, 0, 2] #[0, 0, 0] with
      | .ok (it, _, _, _) => decide (it = 3) | _ => false) = true := by decide +kernel
  split at h
  · exact ⟨_, _, _, _, ‹_›, of_decide_eq_true h⟩
  · cases h
example : ∃ it res x w, IDRs.solve (idPrm true true) stdIp id 0 A₁ (fun v => vcopy v) Pv₁ (IDRs.Work.fresh 3)
    #[1, 0, 2] #[0, 0, 0] = .ok (it, res, x, w) ∧ it = 3 := by
  have h : (match IDRs.solve (idPrm true true) stdIp id 0 A₁ (fun v => vcopy v) Pv₁ (IDRs.Work.fresh 3)
      #[1, 0, 2] #[0, 0, 0] with
      | .ok (it, _, _, _) => decide (it = 3) | _ => false) = true := by decide +kernel
  split at h
  · exact ⟨_, _, _, _, ‹_›, of_decide_eq_true h⟩
  · cases h

/-- BiCGStab(2) with `delta = 1/2` on a non-symmetric 3×3 system with a matrix preconditioner, both sides: the
hypotheses of `bicgstabl_truthful_partial` hold and the calls return after a full pass (polynomial step through
`qr.solve`) -/
private def A₃ : CRS ℚ := ⟨3, #[[(0, 2), (1, -1)], [(0, -3), (1, 4), (2, 1)], [(1, -1), (2, 3)]]⟩
private def M₃ : CRS ℚ := ⟨3, #[[(0, 1/2)], [(0, 1/8), (1, 1/4)], [(2, 1/3)]]⟩
private def P₃ : Vec ℚ → Vec ℚ := fun v => spmv 1 M₃ v 0 #[]
private def blPrm (side : Side) : BiCGStabL.Params ℚ :=
  { maxiter := 2, tol := 0, abstol := 0, nsSearch := false, L := 2, delta := 1/2, convex := false, pside := side }

example (side : Side) : BiCGStab.SideOK side A₃ P₃ ∧ A₃.nrows = A₃.ncols ∧ PLin A₃.nrows P₃ :=
  ⟨⟨by decide, fun v => spmv_size' 1 0 M₃ v #[], fun _ => ⟨rfl, PLin_spmv M₃ (by decide) #[]⟩⟩, rfl,
    PLin_spmv M₃ (by decide) #[]⟩

example : ∃ it res x w, BiCGStabL.solve (blPrm .right) stdIp id 0 (7/10) A₃ P₃ (BiCGStabL.Work.fresh 3)
    #[1, 3, 2] #[1, 0, 0] = .ok (it, res, x, w) ∧ it = 2 := by
  have h : (match BiCGStabL.solve (blPrm .right) stdIp id 0 (7/10) A₃ P₃ (BiCGStabL.Work.fresh 3)
      #[1, 3, 2] #[1, 0, 0] with
      | .ok (it, _, _, _) => decide (it = 2) | _ => false) = true := by decide +kernel
  split at h
  · exact ⟨_, _, _, _, ‹_›, of_decide_eq_true h⟩
  · cases h

example : ∃ it res x w, BiCGStabL.solve (blPrm .left) stdIp id 0 (7/10) A₃ P₃ (BiCGStabL.Work.fresh 3)
    #[1, 3, 2] #[1, 0, 0] = .ok (it, res, x, w) ∧ it = 2 := by
  have h : (match BiCGStabL.solve (blPrm .left) stdIp id 0 (7/10) A₃ P₃ (BiCGStabL.Work.fresh 3)
      #[1, 3, 2] #[1, 0, 0] with
      | .ok (it, _, _, _) => decide (it = 2) | _ => false) = true := by decide +kernel
  split at h
  · exact ⟨_, _, _, _, ‹_›, of_decide_eq_true h⟩
  · cases h

end nonvacuous2

end Amgcl.C01
