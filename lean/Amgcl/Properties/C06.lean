import Amgcl.Proofs.RelaxJacobi
import Amgcl.Proofs.RelaxGS
import Amgcl.Proofs.RelaxCheb
import Amgcl.Proofs.RelaxChebPoly
import Amgcl.Proofs.RelaxIlu
import Amgcl.Proofs.RelaxCheck
import Amgcl.Proofs.RelaxIlu0
import Amgcl.Model.RelaxIluk
import Amgcl.Proofs.RelaxIlukLoop
import Amgcl.Proofs.RelaxIlukLevels
import Mathlib.Algebra.Field.Rat
import Mathlib.Algebra.Order.Ring.Rat
/-!
# C06 — every relaxation sweep equals its mathematical definition

Only property theorems live here (helpers: `Amgcl/Proofs/Relax*.lean`; models: `Amgcl/Model/Relax*.lean`).
All statements are for **every field `K`** (ordered where an order is part of the statement), every matrix size and
every well-formed CRS matrix; the structural facts the code relies on are explicit decidable hypotheses:

* `A.WF`            every stored column is `< ncols`;
* `diagOnceb A`     every row stores its diagonal entry exactly once (off-diagonal duplicates are allowed);
* `A.sortedb`       strictly increasing columns (ILU(0) only).

`A.get i j` is the denoted matrix entry (duplicates add).  A "sweep" is `applyPre`/`applyPost` of the records in
`Model/Relax*.lean`, whose shape mirrors `relax->apply_pre(A, rhs, x, tmp)` of `amg.hpp`.
-/
namespace Amgcl.C06
open Amgcl Amgcl.Relax Finset

/-! ## Damped Jacobi -/
section jacobi
variable {K : Type} [Field K] [DecidableEq K]

/-- the constructor succeeds on a matrix that stores its diagonal and keeps `backend::diagonal(A, true)`:
`dia_i = 1/a_ii`, and `1` where `a_ii = 0` (the zero→identity rule) -/
theorem jacobi_setup (ω : K) (A : CRS K) (hd : diagOnceb A = true) :
    (jacobi ω).setup A = .ok (diagInv A) ∧
    ∀ i, i < A.nrows → (diagInv A).getD i 0 = if A.get i i = 0 then 1 else (A.get i i)⁻¹ := by
  refine ⟨?_, fun i hi => getD_diagInv A hd i hi⟩
  simp [jacobi, hasDiag_of_once hd]

/-- pre- and post-sweep are the same map `x ↦ x + ω D⁻¹ (f − A x)`, entry by entry, and leave `f − A x` in `tmp` -/
theorem jacobi_sweep (ω : K) (A : CRS K) (hA : A.WF) (hd : diagOnceb A = true) (f x t : Vec K)
    (i : Nat) (hi : i < A.nrows) :
    ((jacobi ω).applyPre (diagInv A) A f x t).1.getD i 0
        = x.getD i 0 + ω * (if A.get i i = 0 then 1 else (A.get i i)⁻¹)
            * (f.getD i 0 - ∑ j ∈ range A.ncols, A.get i j * x.getD j 0)
    ∧ (jacobi ω).applyPost (diagInv A) A f x t = (jacobi ω).applyPre (diagInv A) A f x t
    ∧ ((jacobi ω).applyPre (diagInv A) A f x t).2 = residual f A x := by
  refine ⟨?_, rfl, rfl⟩
  have hrow : ∀ cv ∈ A.row i, cv.1 < A.ncols := by
    intro cv hcv
    apply hA (A.row i) _ cv hcv
    unfold CRS.row CRS.nrows at *
    simp [Array.getD, hi]
  show (dsweep ω (diagInv A) A f x).getD i 0 = _
  rw [getD_dsweep _ _ _ _ _ (by simp) i hi, getD_diagInv A hd i hi, rowDot_eq_sum _ _ A.ncols hrow]
  rfl

/-- `apply` (the smoother used as a preconditioner) is `D⁻¹ f` -/
theorem jacobi_apply (ω : K) (A : CRS K) (hd : diagOnceb A = true) (f : Vec K) (i : Nat) (hi : i < A.nrows) :
    ((jacobi ω).apply (diagInv A) A f).getD i 0 = (if A.get i i = 0 then 1 else (A.get i i)⁻¹) * f.getD i 0 := by
  show (vmul 1 (diagInv A) f 0 #[]).getD i 0 = _
  rw [getD_vmul _ _ _ _ _ _ (by simpa using hi), getD_diagInv A hd i hi]; ring

/-- scratch independence, joint linearity in `(f, x)`, size, fixed point — for any stored diagonal vector of the
right length (in particular for `diagInv A`) and any damping -/
theorem jacobi_affine_scratch_indep (ω : K) (dia : Vec K) (A : CRS K) (hs : dia.size = A.nrows) :
    Smoother.Good (jacobi ω) dia A := by
  obtain ⟨h1, h2, h3, h4⟩ := dsweep_facts ω dia A hs ((jacobi ω).applyPre dia A) (fun _ _ _ => rfl)
  exact ⟨h1, h1, h2, h2, h3, h3, h4, h4⟩

/-- `A x = f` ⟹ the sweep returns `x` -/
theorem jacobi_fixed_point (ω : K) (A : CRS K) (f x t : Vec K) (hx : x.size = A.nrows) (hf : f.size = A.nrows)
    (h : ∀ i, i < A.nrows → rowDot (A.row i) x = f.getD i 0) :
    ((jacobi ω).applyPre (diagInv A) A f x t).1 = x ∧ ((jacobi ω).applyPost (diagInv A) A f x t).1 = x :=
  ⟨(jacobi_affine_scratch_indep ω (diagInv A) A (by simp)).pre_fixed f x t hx hf h,
   (jacobi_affine_scratch_indep ω (diagInv A) A (by simp)).post_fixed f x t hx hf h⟩

end jacobi

/-! ## SPAI-0 -/
section spai0
variable {K : Type} [Field K] [DecidableEq K]

/-- the stored diagonal: `M_i = a_ii / Σ_j norm(a_ij)²` over the stored entries of row `i` -/
theorem spai0_setup (norm : K → K) (A : CRS K) (i : Nat) (hi : i < A.nrows) :
    (spai0 norm).setup A = .ok (spai0Diag norm A) ∧
    (spai0Diag norm A).getD i 0 = (1 / ((A.row i).map (fun cv => norm cv.2 * norm cv.2)).sum) * A.get i i :=
  ⟨rfl, getD_spai0Diag norm A i hi⟩

/-- the sweep is `x ↦ x + M (f − A x)` -/
theorem spai0_sweep (norm : K → K) (A : CRS K) (hA : A.WF) (f x t : Vec K) (i : Nat) (hi : i < A.nrows) :
    ((spai0 norm).applyPre (spai0Diag norm A) A f x t).1.getD i 0
        = x.getD i 0 + (spai0Diag norm A).getD i 0 * (f.getD i 0 - ∑ j ∈ range A.ncols, A.get i j * x.getD j 0)
    ∧ (spai0 norm).applyPost (spai0Diag norm A) A f x t = (spai0 norm).applyPre (spai0Diag norm A) A f x t := by
  refine ⟨?_, rfl⟩
  have hrow : ∀ cv ∈ A.row i, cv.1 < A.ncols := by
    intro cv hcv
    apply hA (A.row i) _ cv hcv
    unfold CRS.row CRS.nrows at *
    simp [Array.getD, hi]
  show (dsweep 1 (spai0Diag norm A) A f x).getD i 0 = _
  rw [getD_dsweep _ _ _ _ _ (by simp) i hi, rowDot_eq_sum _ _ A.ncols hrow]
  simp only [one_mul]; rfl

theorem spai0_affine_scratch_indep (norm : K → K) (M : Vec K) (A : CRS K) (hs : M.size = A.nrows) :
    Smoother.Good (spai0 norm) M A := by
  obtain ⟨h1, h2, h3, h4⟩ := dsweep_facts 1 M A hs ((spai0 norm).applyPre M A) (fun _ _ _ => rfl)
  exact ⟨h1, h1, h2, h2, h3, h3, h4, h4⟩

theorem spai0_fixed_point (norm : K → K) (A : CRS K) (f x t : Vec K) (hx : x.size = A.nrows)
    (hf : f.size = A.nrows) (h : ∀ i, i < A.nrows → rowDot (A.row i) x = f.getD i 0) :
    ((spai0 norm).applyPre (spai0Diag norm A) A f x t).1 = x
    ∧ ((spai0 norm).applyPost (spai0Diag norm A) A f x t).1 = x :=
  ⟨(spai0_affine_scratch_indep norm _ A (by simp)).pre_fixed f x t hx hf h,
   (spai0_affine_scratch_indep norm _ A (by simp)).post_fixed f x t hx hf h⟩

end spai0

section spai0min
variable {K : Type} [Field K] [LinearOrder K] [IsStrictOrderedRing K] [DecidableEq K]

/-- SPAI-0 is the row-wise least-squares minimiser of `‖I − M A‖_F` over diagonal `M`: for a row without duplicate
columns, `m_i = a_ii / Σ_j a_ij²` minimises `Σ_j (δ_ij − m a_ij)²` over all `m` (also when the row is zero).
`norm` is any function with `norm v * norm v = v * v` (`std::abs`). -/
theorem spai0_minimises (norm : K → K) (hnorm : ∀ v, norm v * norm v = v * v) (A : CRS K) (hA : A.WF)
    (hsq : A.nrows ≤ A.ncols) (i : Nat) (hi : i < A.nrows) (hnd : ((A.row i).map (·.1)).Nodup) (m : K) :
    ∑ j ∈ range A.ncols, ((if i = j then 1 else 0) - (spai0Diag norm A).getD i 0 * A.get i j) ^ 2
      ≤ ∑ j ∈ range A.ncols, ((if i = j then 1 else 0) - m * A.get i j) ^ 2 := by
  have hrow : ∀ cv ∈ A.row i, cv.1 < A.ncols := by
    intro cv hcv
    apply hA (A.row i) _ cv hcv
    unfold CRS.row CRS.nrows at *
    simp [Array.getD, hi]
  have hic : i < A.ncols := by omega
  set S : K := ∑ j ∈ range A.ncols, A.get i j * A.get i j with hS
  have hden : ((A.row i).map (fun cv => norm cv.2 * norm cv.2)).sum = S := by
    rw [hS]; unfold CRS.get
    rw [← sum_sq_of_nodup (A.row i) A.ncols hrow hnd]
    congr 1; apply List.map_congr_left; intro cv _; exact hnorm cv.2
  have hM : (spai0Diag norm A).getD i 0 = (1 / S) * A.get i i := by rw [getD_spai0Diag norm A i hi, hden]
  -- the objective is the quadratic `1 − 2 m a_ii + m² S`
  have hobj : ∀ μ : K, ∑ j ∈ range A.ncols, ((if i = j then 1 else 0) - μ * A.get i j) ^ 2
      = 1 - 2 * μ * A.get i i + μ ^ 2 * S := by
    intro μ
    have : ∀ j ∈ range A.ncols, ((if i = j then (1 : K) else 0) - μ * A.get i j) ^ 2
        = (if i = j then 1 - 2 * μ * A.get i j else 0) + μ ^ 2 * (A.get i j * A.get i j) := by
      intro j _; split <;> ring
    rw [sum_congr rfl this, sum_add_distrib, sum_ite_eq, ← mul_sum, ← hS]
    simp [hic]
  rw [hobj, hobj, hM]
  have hS0 : 0 ≤ S := by rw [hS]; exact sum_nonneg (fun j _ => mul_self_nonneg _)
  rcases eq_or_lt_of_le hS0 with h0 | hpos
  · -- zero row: `a_ii = 0`, both sides are `1`
    have hz : ∀ j ∈ range A.ncols, A.get i j * A.get i j = 0 := by
      have := (sum_eq_zero_iff_of_nonneg (fun j _ => mul_self_nonneg (A.get i j))).mp h0.symm
      exact this
    have hii : A.get i i = 0 := by
      have := hz i (mem_range.mpr hic); exact mul_self_eq_zero.mp this
    rw [← h0, hii]; simp
  · have hne : S ≠ 0 := ne_of_gt hpos
    have : 1 - 2 * m * A.get i i + m ^ 2 * S - (1 - 2 * (1 / S * A.get i i) * A.get i i + (1 / S * A.get i i) ^ 2 * S)
        = S * (m - A.get i i / S) ^ 2 := by
      field_simp; ring
    have h2 : 0 ≤ S * (m - A.get i i / S) ^ 2 := mul_nonneg hS0 (sq_nonneg _)
    linarith

end spai0min

/-! ## Gauss–Seidel (serial sweeps) -/
section gs
variable {K : Type} [Field K]

/-- forward (pre) sweep: the result `y` solves `(D + L) y + U x = f`, row by row -/
theorem gs_forward (A : CRS K) (hA : A.WF) (hd : diagOnceb A = true) (hnz : ∀ i, i < A.nrows → A.get i i ≠ 0)
    (f x t : Vec K) (hx : x.size = A.nrows) (i : Nat) (hi : i < A.nrows) :
    let y := ((gaussSeidel : Smoother K Unit).applyPre () A f x t).1
    ∑ j ∈ range A.ncols, A.get i j * (if j ≤ i then y.getD j 0 else x.getD j 0) = f.getD i 0 := by
  intro y
  obtain ⟨l2, hsplit, _⟩ := range_split A.nrows i hi
  have hnd : (List.range i ++ i :: l2).Nodup := hsplit ▸ List.nodup_range
  have h := gsFold_equation A hA f x (List.range i) l2 i hnd hi hx (diagOnce_row hd i hi) (hnz i hi)
  rw [← hsplit] at h
  rw [← h]
  apply sum_congr rfl
  intro j _
  have : (j ∈ List.range i ∨ j = i) ↔ j ≤ i := by rw [List.mem_range]; omega
  simp only [this]
  rfl

/-- backward (post) sweep: the result `y` solves `(D + U) y + L x = f` -/
theorem gs_backward (A : CRS K) (hA : A.WF) (hd : diagOnceb A = true) (hnz : ∀ i, i < A.nrows → A.get i i ≠ 0)
    (f x t : Vec K) (hx : x.size = A.nrows) (i : Nat) (hi : i < A.nrows) :
    let y := ((gaussSeidel : Smoother K Unit).applyPost () A f x t).1
    ∑ j ∈ range A.ncols, A.get i j * (if i ≤ j ∧ j < A.nrows then y.getD j 0 else x.getD j 0) = f.getD i 0 := by
  intro y
  obtain ⟨l2, hsplit, hl2⟩ := range_split A.nrows i hi
  have hrev : (List.range A.nrows).reverse = l2.reverse ++ i :: (List.range i).reverse := by
    rw [hsplit]; simp
  have hnd : (l2.reverse ++ i :: (List.range i).reverse).Nodup := by
    rw [← hrev]; exact List.nodup_reverse.mpr List.nodup_range
  have h := gsFold_equation A hA f x l2.reverse (List.range i).reverse i hnd hi hx (diagOnce_row hd i hi) (hnz i hi)
  rw [← hrev] at h
  rw [← h]
  apply sum_congr rfl
  intro j _
  have : (j ∈ l2.reverse ∨ j = i) ↔ (i ≤ j ∧ j < A.nrows) := by rw [List.mem_reverse, hl2]; omega
  simp only [this]
  rfl

/-- `tmp` is not touched -/
theorem gs_tmp (A : CRS K) (f x t : Vec K) :
    ((gaussSeidel : Smoother K Unit).applyPre () A f x t).2 = t
    ∧ ((gaussSeidel : Smoother K Unit).applyPost () A f x t).2 = t := ⟨rfl, rfl⟩

/-- scratch independence, joint linearity (for **every** matrix, also with missing or zero diagonal entries),
size; fixed point when every row stores a non-zero diagonal once -/
theorem gs_affine_scratch_indep (A : CRS K) (hd : diagOnceb A = true) (hnz : ∀ i, i < A.nrows → A.get i i ≠ 0) :
    Smoother.Good (gaussSeidel : Smoother K Unit) () A := by
  have hlin : ∀ fw : Bool, Sweep.JointlyLinear (fun f x (t : Vec K) => (gsSweep A f x fw, t)) A.nrows := by
    intro fw a b f g x y t t₁ t₂ hf hg hx hy
    exact gsSweep_vlin A a b f g x y (by omega) (by omega) fw
  have hfix : ∀ fw : Bool, Sweep.FixedPoint (fun f x (t : Vec K) => (gsSweep A f x fw, t)) A := by
    intro fw f x t hx hf h
    show gsSweep A f x fw = x
    unfold gsSweep
    apply gsFold_fixed
    intro i hi
    have hi' : i < A.nrows := by
      cases fw <;> simp at hi <;> exact hi
    exact ⟨diagOnce_row hd i hi', hnz i hi', h i hi'⟩
  exact {
    pre_indep := fun _ _ _ _ => rfl
    post_indep := fun _ _ _ _ => rfl
    pre_linear := hlin true
    post_linear := hlin false
    pre_size := fun f x t _ hx => by show (gsSweep A f x true).size = _; simp [hx]
    post_size := fun f x t _ hx => by show (gsSweep A f x false).size = _; simp [hx]
    pre_fixed := hfix true
    post_fixed := hfix false }

/-- linearity alone needs no hypothesis on the matrix at all -/
theorem gs_linear (A : CRS K) (fw : Bool) (a b : K) (f g x y : Vec K) (hfg : f.size = g.size)
    (hxy : x.size = y.size) :
    gsSweep A (vlin a f b g) (vlin a x b y) fw = vlin a (gsSweep A f x fw) b (gsSweep A g y fw) :=
  gsSweep_vlin A a b f g x y hfg hxy fw

theorem gs_fixed_point (A : CRS K) (hd : diagOnceb A = true) (hnz : ∀ i, i < A.nrows → A.get i i ≠ 0)
    (f x t : Vec K) (hx : x.size = A.nrows) (hf : f.size = A.nrows)
    (h : ∀ i, i < A.nrows → rowDot (A.row i) x = f.getD i 0) :
    ((gaussSeidel : Smoother K Unit).applyPre () A f x t).1 = x
    ∧ ((gaussSeidel : Smoother K Unit).applyPost () A f x t).1 = x :=
  ⟨(gs_affine_scratch_indep A hd hnz).pre_fixed f x t hx hf h,
   (gs_affine_scratch_indep A hd hnz).post_fixed f x t hx hf h⟩

end gs

/-! ## Chebyshev -/
section cheb
variable {K : Type} [Field K] [DecidableEq K]

/-- the mutable members `p`, `r` are pure scratch: whatever they contain (left-overs of earlier sweeps included),
`solve` returns the same `x` — iteration `k = 0` overwrites both because `beta = 0` there -/
theorem cheb_scratch_indep (s : ChebState K) (A : CRS K) (b x p r p' r' : Vec K) :
    (chebSolve s A b x p r).1 = (chebSolve s A b x p' r').1 :=
  chebSolve_indep s A b x p r p' r'

/-- hence a second sweep on the same object equals a sweep on a freshly constructed one -/
theorem cheb_reuse (s : ChebState K) (A : CRS K) (f g x : Vec K) :
    let first := chebSolve s A f x s.p s.r
    (chebSolve s A g first.1 first.2.1 first.2.2).1 = (chebSolve s A g first.1 s.p s.r).1 :=
  chebSolve_indep s A g _ _ _ _ _

/-- the constructor keeps an inverted diagonal of the right length when `scale` is set -/
theorem cheb_setup [LT K] [DecidableLT K] (prm : ChebParams K) (A : CRS K)
    (hd : prm.scale = true → hasDiagb A = true) :
    (chebyshev prm).setup A = .ok (chebSetup prm A)
    ∧ ((chebSetup prm A).scale = true → (chebSetup prm A).M.size = A.nrows)
    ∧ (chebSetup prm A).degree = prm.degree := by
  refine ⟨?_, ?_, rfl⟩
  · cases hs : prm.scale
    · simp [chebyshev, hs]
    · simp [chebyshev, hs, hd hs]
  · intro h
    have : prm.scale = true := h
    simp [chebSetup, this]

/-- the ellipse: centre `d = (hi·higher + hi·lower)/2`, semi-axis `c = (hi·higher − hi·lower)/2`, where `hi` is the
Gershgorin bound `Amgcl.gershgorin scale A` of C08b (`gershgorin_is_max_rowsum`: the maximal absolute row sum, of
`D⁻¹A` when `scale`; `gershgorin_bound`: it bounds every eigenvalue) -/
theorem cheb_ellipse [LT K] [DecidableLT K] (prm : ChebParams K) (A : CRS K) :
    (chebSetup prm A).d
        = 1 / (1 + 1) * (Amgcl.gershgorin prm.scale A * prm.higher + Amgcl.gershgorin prm.scale A * prm.lower)
    ∧ (chebSetup prm A).c
        = 1 / (1 + 1) * (Amgcl.gershgorin prm.scale A * prm.higher - Amgcl.gershgorin prm.scale A * prm.lower) :=
  ⟨rfl, rfl⟩

/-- `cheb_affine_fixed`: for every degree, every ellipse `(c, d)` (also degenerate ones), with or without scaling,
one Chebyshev sweep is a jointly linear map of `(f, x)` that does not depend on `tmp` nor on the members `p, r`,
keeps the length, and fixes every solution of `A x = f` -/
theorem cheb_affine_fixed [LT K] [DecidableLT K] (prm : ChebParams K) (s : ChebState K)
    (A : CRS K) (hM : s.scale = true → s.M.size = A.nrows) :
    Smoother.Good (chebyshev prm) s A := by
  have hlin : Sweep.JointlyLinear (fun f x (t : Vec K) => ((chebSolve s A f x s.p s.r).1, t)) A.nrows := by
    intro a b f g x y t t₁ t₂ hf hg hx hy
    exact chebSolve_vlin s A hM a b f g x y _ _ _ _ _ _ hf hg hx hy
  have hfix : Sweep.FixedPoint (fun f x (t : Vec K) => ((chebSolve s A f x s.p s.r).1, t)) A := by
    intro f x t hx _ h
    exact chebSolve_fixed s A hM f x _ _ hx h
  have hsz : Sweep.SizeOk (fun f x (t : Vec K) => ((chebSolve s A f x s.p s.r).1, t)) A.nrows := by
    intro f x t _ hx
    exact chebSolve_size s A hM f x _ _ hx
  exact ⟨fun _ _ _ _ => rfl, fun _ _ _ _ => rfl, hlin, hlin, hsz, hsz, hfix, hfix⟩

/-- **`cheb_is_chebyshev_poly`.**  The sweep realises the degree-`k` Chebyshev residual polynomial for the ellipse
`(c, d)` (`k = degree`): with `Â = M·A` (`M` the inverted diagonal when `scale`, else `I`), `r = M(b − A x)` the scaled
residual (`chebResid`, entrywise `getD_chebResid`), and `Z = (d·I − Â)/c`,

    `T_k(d/c) · r_k = T_k(Z) r_0`      entrywise,

where `T_k` is Mathlib's Chebyshev polynomial of the first kind and `T_k(Z) r_0 = chebY … k` is generated by the
three-term recurrence `y_0 = r_0`, `y_1 = Z r_0`, `y_{k+2} = 2 Z y_{k+1} − y_k` (`chebY_recurrence`).  Hypotheses:
characteristic `≠ 2`, `c ≠ 0`, and `T_j(d/c) ≠ 0` for `1 ≤ j ≤ k` — precisely the denominators `solve` divides by
(`j = 1`: `d ≠ 0`; `j = 2`: `2d² − c² ≠ 0`; …); no symmetry, definiteness or ordering is assumed, the scratch members
`p, r` are arbitrary. -/
theorem cheb_is_chebyshev_poly (s : ChebState K) (A : CRS K) (hM : s.scale = true → s.M.size = A.nrows)
    (hc : s.c ≠ 0) (h2 : (2 : K) ≠ 0) (b x p r : Vec K) (hx : x.size = A.nrows)
    (hτ : ∀ j : Nat, 1 ≤ j → j ≤ s.degree → (Polynomial.Chebyshev.T K (j : ℤ)).eval (s.d / s.c) ≠ 0)
    (i : Nat) (hi : i < A.nrows) :
    (Polynomial.Chebyshev.T K (s.degree : ℤ)).eval (s.d / s.c)
        * (chebResid s A b (chebSolve s A b x p r).1).getD i 0
      = (chebY s A (chebResid s A b x) s.degree).getD i 0 := by
  rw [← chebT_eq_eval]
  exact chebSolve_poly s A hM hc h2 b x p r hx (fun j h1 h2' => by rw [chebT_eq_eval]; exact hτ j h1 h2') i hi

/-- what `chebY`, `chebZ`, `chebAhat`, `chebResid` are, entry by entry -/
theorem chebY_recurrence (s : ChebState K) (A : CRS K) (hM : s.scale = true → s.M.size = A.nrows) (r0 b x v : Vec K)
    (k i : Nat) (hi : i < A.nrows) :
    chebY s A r0 0 = r0 ∧ chebY s A r0 1 = chebZ s A r0
    ∧ (chebY s A r0 (k + 2)).getD i 0
        = 2 * (chebZ s A (chebY s A r0 (k + 1))).getD i 0 - (chebY s A r0 k).getD i 0
    ∧ (chebZ s A v).getD i 0 = (s.d * v.getD i 0 - (chebAhat s A v).getD i 0) / s.c
    ∧ (chebAhat s A v).getD i 0 = chebM s i * rowDot (A.row i) v
    ∧ (chebResid s A b x).getD i 0 = chebM s i * (b.getD i 0 - rowDot (A.row i) x)
    ∧ chebM s i = (if s.scale then s.M.getD i 0 else 1) :=
  ⟨rfl, rfl, getD_chebY_succ_succ s A r0 k i hi, getD_chebZ s A v i hi, getD_chebAhat s A v i hi,
   getD_chebResid s A hM b x i hi, rfl⟩

/-- the same bundle under the uniform name used for the other smoothers -/
theorem cheb_affine_scratch_indep [LT K] [DecidableLT K] (prm : ChebParams K) (A : CRS K)
    (hd : prm.scale = true → hasDiagb A = true) : Smoother.Good (chebyshev prm) (chebSetup prm A) A :=
  cheb_affine_fixed prm _ A (cheb_setup prm A hd).2.1

theorem cheb_fixed_point [LT K] [DecidableLT K] (prm : ChebParams K) (A : CRS K)
    (hd : prm.scale = true → hasDiagb A = true) (f x t : Vec K) (hx : x.size = A.nrows) (hf : f.size = A.nrows)
    (h : ∀ i, i < A.nrows → rowDot (A.row i) x = f.getD i 0) :
    ((chebyshev prm).applyPre (chebSetup prm A) A f x t).1 = x
    ∧ ((chebyshev prm).applyPost (chebSetup prm A) A f x t).1 = x :=
  ⟨(cheb_affine_fixed prm _ A (cheb_setup prm A hd).2.1).pre_fixed f x t hx hf h,
   (cheb_affine_fixed prm _ A (cheb_setup prm A hd).2.1).post_fixed f x t hx hf h⟩

end cheb

/-! ## ILU: serial triangular solve and the sweeps built on it -/
section ilu
variable {K : Type} [Field K]

/-- what `ilu_solve<builtin>::serial_solve` computes, precisely: with `L` strictly lower, `U` strictly upper and
`D` the stored (inverted) pivots, the returned `z` and the intermediate `y` of the lower phase satisfy
`y_i + Σ_j L_ij y_j = b_i` and `z_i = D_i (y_i − Σ_j U_ij z_j)` — i.e. `(I + L) y = b`, `(D⁻¹ + U) z = y`. -/
theorem ilu_solve_serial_spec (F : IluFactors K) (hL : strictLowerb F.L = true) (hU : strictUpperb F.U = true)
    (hLwf : F.L.WF) (hUwf : F.U.WF) (hLc : F.L.ncols = F.L.nrows) (hUn : F.U.nrows = F.L.nrows)
    (hUc : F.U.ncols = F.L.nrows) (b : Vec K) (hb : b.size = F.L.nrows) :
    ∃ y : Vec K,
      (∀ i, i < F.L.nrows → y.getD i 0 + ∑ j ∈ range F.L.nrows, F.L.get i j * y.getD j 0 = b.getD i 0) ∧
      (∀ i, i < F.L.nrows → (iluSolve F b).getD i 0
          = F.D.getD i 0 * (y.getD i 0 - ∑ j ∈ range F.L.nrows, F.U.get i j * (iluSolve F b).getD j 0)) := by
  refine ⟨(List.range F.L.nrows).foldl (lowStep F) b, ?_, ?_⟩
  · intro i hi
    have h := lowPhase_spec F hL b hb i hi
    rw [rowDot_eq_sum _ _ F.L.ncols (row_wf hLwf i hi), hLc] at h
    rw [h]; unfold CRS.get; ring
  · intro i hi
    have hy : ((List.range F.L.nrows).foldl (lowStep F) b).size = F.L.nrows := by
      rw [fold_size _ (lowStep_size F)]; exact hb
    have h := upPhase_spec F hU hUwf hUn hUc _ hy i hi
    rw [rowDot_eq_sum _ _ F.U.ncols (row_wf hUwf i (by omega)), hUc] at h
    rw [iluSolve_eq]; exact h

/-- with non-zero stored pivots: `((I + L)(D⁻¹ + U)) z = b`, the factors being read as in `Relax.lowEntry` /
`Relax.upEntry` (the same reading the checkers `luOnPatternb` use) -/
theorem ilu_solve_serial_inverse [DecidableEq K] (F : IluFactors K) (hL : strictLowerb F.L = true)
    (hU : strictUpperb F.U = true) (hLwf : F.L.WF) (hUwf : F.U.WF) (hLc : F.L.ncols = F.L.nrows)
    (hUn : F.U.nrows = F.L.nrows) (hUc : F.U.ncols = F.L.nrows) (hD : ∀ i, i < F.L.nrows → F.D.getD i 0 ≠ 0)
    (b : Vec K) (hb : b.size = F.L.nrows) (i : Nat) (hi : i < F.L.nrows) :
    ∑ k ∈ range F.L.nrows, lowEntry F i k * (∑ j ∈ range F.L.nrows, upEntry F k j * (iluSolve F b).getD j 0)
      = b.getD i 0 := by
  obtain ⟨y, h1, h2⟩ := ilu_solve_serial_spec F hL hU hLwf hUwf hLc hUn hUc b hb
  have hup : ∀ k ∈ range F.L.nrows, (∑ j ∈ range F.L.nrows, upEntry F k j * (iluSolve F b).getD j 0) = y.getD k 0 := by
    intro k hk
    have hk' := mem_range.mp hk
    have : ∀ j ∈ range F.L.nrows, upEntry F k j * (iluSolve F b).getD j 0
        = (if k = j then 1 / F.D.getD k 0 * (iluSolve F b).getD j 0 else 0) + F.U.get k j * (iluSolve F b).getD j 0 := by
      intro j _; unfold upEntry; split <;> ring
    rw [sum_congr rfl this, sum_add_distrib, sum_ite_eq, if_pos hk, h2 k hk']
    have := hD k hk'
    field_simp
    ring
  rw [sum_congr rfl (fun k hk => by rw [hup k hk])]
  have : ∀ k ∈ range F.L.nrows, lowEntry F i k * y.getD k 0
      = (if i = k then y.getD k 0 else 0) + F.L.get i k * y.getD k 0 := by
    intro k _; unfold lowEntry; split <;> ring
  rw [sum_congr rfl this, sum_add_distrib, sum_ite_eq, if_pos (mem_range.mpr hi)]
  exact h1 i hi

variable [DecidableEq K]

/-- the ILU sweep `x ← x + ω·solve(f − A x)` with **any** factors: scratch independent, jointly linear, length
preserving, and every solution of `A x = f` is a fixed point (the triangular solve is linear, so it maps `0` to `0`;
no hypothesis on pivots is needed once the constructor has succeeded) -/
theorem ilu0_affine_scratch_indep (ω : K) (F : IluFactors K) (A : CRS K) : Smoother.Good (ilu0 ω) F A := by
  obtain ⟨h1, h2, h3, h4⟩ := iluSweep_facts ω F A
  exact ⟨h1, h1, h2, h2, h3, h3, h4, h4⟩

theorem ilu0_fixed_point (ω : K) (A : CRS K) (F : IluFactors K) (_hsetup : (ilu0 ω).setup A = .ok F)
    (f x t : Vec K) (hx : x.size = A.nrows) (hf : f.size = A.nrows)
    (h : ∀ i, i < A.nrows → rowDot (A.row i) x = f.getD i 0) :
    ((ilu0 ω).applyPre F A f x t).1 = x ∧ ((ilu0 ω).applyPost F A f x t).1 = x :=
  ⟨(ilu0_affine_scratch_indep ω F A).pre_fixed f x t hx hf h,
   (ilu0_affine_scratch_indep ω F A).post_fixed f x t hx hf h⟩

/-- `tmp` leaves the sweep as `solve(f − A x)` and the update is `x' = ω·tmp' + x` -/
theorem ilu0_sweep (ω : K) (F : IluFactors K) (A : CRS K) (f x t : Vec K) :
    ((ilu0 ω).applyPre F A f x t).2 = iluSolve F (residual f A x)
    ∧ ((ilu0 ω).applyPre F A f x t).1 = axpby ω (iluSolve F (residual f A x)) 1 x
    ∧ (ilu0 ω).applyPost F A f x t = (ilu0 ω).applyPre F A f x t := ⟨rfl, rfl, rfl⟩

end ilu

/-! ## ILU(0): the factors reproduce `A` on the pattern of `A` -/
section ilu0pattern
variable {K : Type} [Field K] [DecidableEq K]

/-- if `(I+L)(D⁻¹+U) = A` entrywise then the serial triangular solve inverts `A`: `A · solve(b) = b` -/
theorem exact_factors_invert (A : CRS K) (F : IluFactors K)
    (hex : ∀ i j, i < A.nrows → j < A.nrows → ∑ k ∈ range A.nrows, lowEntry F i k * upEntry F k j = A.get i j)
    (hL : strictLowerb F.L = true) (hU : strictUpperb F.U = true) (hLwf : F.L.WF) (hUwf : F.U.WF)
    (hLn : F.L.nrows = A.nrows) (hLc : F.L.ncols = A.nrows) (hUn : F.U.nrows = A.nrows) (hUc : F.U.ncols = A.nrows)
    (hD : ∀ i, i < A.nrows → F.D.getD i 0 ≠ 0) (b : Vec K) (hb : b.size = A.nrows) (i : Nat) (hi : i < A.nrows) :
    ∑ j ∈ range A.nrows, A.get i j * (iluSolve F b).getD j 0 = b.getD i 0 := by
  have hinv := ilu_solve_serial_inverse F hL hU hLwf hUwf (by omega) (by omega) (by omega)
    (fun k hk => hD k (by omega)) b (by omega) i (by omega)
  rw [hLn] at hinv
  rw [← hinv]
  have : ∀ j ∈ range A.nrows, A.get i j * (iluSolve F b).getD j 0
      = ∑ k ∈ range A.nrows, lowEntry F i k * (upEntry F k j * (iluSolve F b).getD j 0) := by
    intro j hj
    rw [← hex i j hi (mem_range.mp hj), sum_mul]
    apply sum_congr rfl; intro k _; ring
  rw [sum_congr rfl this, sum_comm]
  apply sum_congr rfl; intro k _; rw [mul_sum]

/-- a successful ILU(0) constructor returns strictly triangular, well-formed factors of the right size with non-zero
stored pivots — all the hypotheses of `ilu_solve_serial_spec` / `ilu_solve_serial_inverse` -/
theorem ilu0_factors_wf (ω : K) (A : CRS K) (hA : A.WF) (hsq : A.ncols = A.nrows) (hs : A.sortedb = true)
    (F : IluFactors K) (hF : (ilu0 ω).setup A = .ok F) :
    strictLowerb F.L = true ∧ strictUpperb F.U = true ∧ F.L.WF ∧ F.U.WF ∧ F.L.nrows = A.nrows ∧ F.L.ncols = A.nrows
    ∧ F.U.nrows = A.nrows ∧ F.U.ncols = A.nrows ∧ F.D.size = A.nrows ∧ ∀ i, i < A.nrows → F.D.getD i 0 ≠ 0 :=
  ilu0Factor_wf A hA hsq hs F hF

/-- **`ilu0_on_pattern`.**  For every field, every size, every well-formed square matrix with sorted rows on which
the constructor succeeds (diagonal stored, no zero pivot — the two `precondition`s of the code):
`((I + L)(D⁻¹ + U))_ij = a_ij` for every stored position `(i, j)` of `A`.  (The zero-dropping compaction of the code
is part of the model; a dropped entry is an exact zero and does not change the product.) -/
theorem ilu0_on_pattern (ω : K) (A : CRS K) (hA : A.WF) (hsq : A.ncols = A.nrows) (hs : A.sortedb = true)
    (F : IluFactors K) (hF : (ilu0 ω).setup A = .ok F) (i : Nat) (hi : i < A.nrows) (cv : Nat × K)
    (hcv : cv ∈ A.row i) :
    ∑ k ∈ range A.nrows, lowEntry F i k * upEntry F k cv.1 = A.get i cv.1 :=
  ilu0_on_pattern_aux A hA hsq hs F hF i hi cv hcv

/-- the factors stay inside the pattern of `A` -/
theorem ilu0_factors_in_pattern (ω : K) (A : CRS K) (hA : A.WF) (hsq : A.ncols = A.nrows) (hs : A.sortedb = true)
    (F : IluFactors K) (hF : (ilu0 ω).setup A = .ok F) (i : Nat) (hi : i < A.nrows) :
    (∀ cv ∈ F.L.row i, patOf A i cv.1 = true) ∧ (∀ cv ∈ F.U.row i, patOf A i cv.1 = true) := by
  obtain ⟨inv, _, _⟩ := ilu0Factor_inv A hA hsq hs F hF
  exact ⟨fun cv hcv => (patOf_iff A i cv.1).mpr (inv.subL i hi cv hcv),
         fun cv hcv => (patOf_iff A i cv.1).mpr (inv.subU i hi cv hcv)⟩

/-- `ilu0_exact_tridiagonal`, in general form: when the pattern of `A` is closed under fill-in (`noFillb`: tridiagonal
matrices, arrow matrices, …) ILU(0) is the exact factorisation `(I + L)(D⁻¹ + U) = A` … -/
theorem ilu0_exact_of_no_fill (ω : K) (A : CRS K) (hA : A.WF) (hsq : A.ncols = A.nrows) (hs : A.sortedb = true)
    (hnf : noFillb A = true) (F : IluFactors K) (hF : (ilu0 ω).setup A = .ok F) (i j : Nat) (hi : i < A.nrows)
    (hj : j < A.nrows) :
    ∑ k ∈ range A.nrows, lowEntry F i k * upEntry F k j = A.get i j :=
  ilu0_exact_aux A hA hsq hs hnf F hF i j hi hj

/-- … and `apply` is the exact inverse: `A · apply(f) = f` -/
theorem ilu0_exact_inverse (ω : K) (A : CRS K) (hA : A.WF) (hsq : A.ncols = A.nrows) (hs : A.sortedb = true)
    (hnf : noFillb A = true) (F : IluFactors K) (hF : (ilu0 ω).setup A = .ok F) (f : Vec K)
    (hf : f.size = A.nrows) (i : Nat) (hi : i < A.nrows) :
    ∑ j ∈ range A.nrows, A.get i j * ((ilu0 ω).apply F A f).getD j 0 = f.getD i 0 := by
  obtain ⟨h1, h2, h3, h4, h5, h6, h7, h8, _, h10⟩ := ilu0_factors_wf ω A hA hsq hs F hF
  have hcopy : vcopy f = f := by
    apply Vec.ext_getD (0 : K) (by simp [vcopy])
    intro k hk
    have hk' : k < f.size := by simpa [vcopy] using hk
    simp [vcopy, getD_ofFn_lt _ _ _ hk']
  show ∑ j ∈ range A.nrows, A.get i j * (iluSolve F (vcopy f)).getD j 0 = f.getD i 0
  rw [hcopy]
  exact exact_factors_invert A F (fun i j hi hj => ilu0_exact_of_no_fill ω A hA hsq hs hnf F hF i j hi hj)
    h1 h2 h3 h4 h5 h6 h7 h8 h10 f hf i hi

/-- ILUP (`ilup.hpp`): ILU(0) of `A` padded with explicit zeros to the pattern of `A^(k+1)`; on every position of that
pattern the factors reproduce `A` -/
theorem ilup_on_pattern (k : Nat) (hk : k ≠ 0) (A : CRS K) (hsq : A.ncols = A.nrows)
    (F : IluFactors K) (hF : ilupFactor k A = .ok F) (i j : Nat) (hi : i < A.nrows) (hj : j < A.nrows)
    (hp : patPower A k i j = true) :
    ∑ k' ∈ range A.nrows, lowEntry F i k' * upEntry F k' j = A.get i j := by
  unfold ilupFactor at hF
  rw [if_neg hk] at hF
  have hmem : (j, A.get i j) ∈ (padPattern (patPower A k) A).row i :=
    (padPattern_mem _ A i hi _).mpr ⟨hj, hp, rfl⟩
  have := ilu0_on_pattern_aux (padPattern (patPower A k) A) (padPattern_wf _ A hsq)
    (by rw [padPattern_nrows]; exact hsq) (padPattern_sorted _ A) F hF i (by rw [padPattern_nrows]; exact hi) _ hmem
  rw [padPattern_nrows, padPattern_get _ A i j hi hj hp] at this
  exact this

end ilu0pattern

/-! ## ILU(k) and ILUP as written

`Model/RelaxIluk.lean` mirrors `iluk.hpp` (single pass, contributions of level `> k` to a position without a slot are
discarded) and `ilup.hpp` (ILU(0) of `A` padded to the pattern of `A^(k+1)`).  The sweeps are the ILU sweeps, so
everything the cycle needs holds for them too.

**Not a theorem — the clause "`(LU)_ij = a_ij` on the level-of-fill `≤ k` pattern" is FALSE for `iluk.hpp` as
written** (`iluk_not_on_pattern_counterexample` below, known finding `C06-iluk-dropped-contributions`).

**What is a theorem** (for every field, every size, every fill parameter, unsorted rows and duplicate entries
included): with `R` the matrix of the contributions that `sparse_vector::add` discarded during the run — recorded by
the traced run `ilukFactorT` of `Model/RelaxIlukTrace.lean`, whose first component *is* `ilukFactor`
(`iluk_trace_faithful`) —

    `(I+L)(D⁻¹+U) + R = A`     at every position          (`iluk_residual_identity`).

Consequences: a position at which nothing was discarded satisfies `(LU)_ij = a_ij` (`iluk_entry_of_not_discarded`);
if no discarded contribution went to a position that has a slot at the end of its row — the decidable run predicate
`ilukNoLateSlotb`, exactly the negation of the K01 situation — the identity holds on the whole final pattern
(`iluk_on_pattern_of_no_late_discard`), which is the a-priori level-of-fill pattern `patLevel A k` of the checker
(`iluk_slots_are_level_pattern`, `iluk_on_level_pattern`, `iluk_factors_in_level_pattern`); if nothing was discarded at all (`ilukNoDiscardb`) ILU(k) is the complete
factorisation `(I+L)(D⁻¹+U) = A` (`iluk_exact_of_no_discard`) and `apply` is the exact inverse
(`iluk_exact_inverse`); rows `i ≤ k` never discard anything (`iluk_rows_le_fill_complete`: levels in row `i` are
`≤ i`), so `n ≤ k + 1` — in particular `k ≥ n` — implies `ilukNoDiscardb` (`iluk_no_discard_of_large_fill`,
`iluk_complete_of_large_fill`).  `iluk.hpp` has no pivot check (`D[i] = inverse(val)`, total division): the only
hypothesis besides well-formedness is that the stored pivots needed are non-zero. -/
section iluk
variable {K : Type} [Field K] [DecidableEq K]

theorem iluk_affine_scratch_indep (k : Nat) (ω : K) (F : IluFactors K) (A : CRS K) :
    Smoother.Good (iluk k ω) F A := by
  obtain ⟨h1, h2, h3, h4⟩ := iluSweep_facts ω F A
  exact ⟨h1, h1, h2, h2, h3, h3, h4, h4⟩

theorem iluk_fixed_point (k : Nat) (ω : K) (A : CRS K) (F : IluFactors K) (f x t : Vec K)
    (hx : x.size = A.nrows) (hf : f.size = A.nrows) (h : ∀ i, i < A.nrows → rowDot (A.row i) x = f.getD i 0) :
    ((iluk k ω).applyPre F A f x t).1 = x ∧ ((iluk k ω).applyPost F A f x t).1 = x :=
  ⟨(iluk_affine_scratch_indep k ω F A).pre_fixed f x t hx hf h,
   (iluk_affine_scratch_indep k ω F A).post_fixed f x t hx hf h⟩

/-- the traced constructor (`Model/RelaxIlukTrace.lean`) computes the factors of the constructor: its first component
is `ilukFactor`, outcome by outcome; the second component only records what `add` discarded -/
theorem iluk_trace_faithful (k : Nat) (ω : K) (A : CRS K) :
    (iluk k ω).setup A
      = match ilukFactorT k A with
        | .ok FR => .ok FR.1
        | .precondition => .precondition
        | .undefinedInput => .undefinedInput :=
  ilukFactorT_fst k A

/-- hence a successful constructor has a (unique) record of discarded contributions, and vice versa -/
theorem iluk_trace_exists (k : Nat) (ω : K) (A : CRS K) (F : IluFactors K) :
    (iluk k ω).setup A = .ok F ↔ ∃ R, ilukFactorT k A = .ok (F, R) :=
  ⟨ilukFactorT_of_factor k A F, fun ⟨R, h⟩ => ilukFactor_of_factorT k A F R h⟩

/-- a successful ILU(k) constructor returns strictly triangular, well-formed factors of the right size (the
hypotheses of `ilu_solve_serial_spec`); the matrix of discarded contributions has the size of `A` -/
theorem iluk_factors_wf (k : Nat) (A : CRS K) (hA : A.WF) (hsq : A.ncols = A.nrows) (F : IluFactors K) (R : CRS K)
    (hF : ilukFactorT k A = .ok (F, R)) :
    strictLowerb F.L = true ∧ strictUpperb F.U = true ∧ F.L.WF ∧ F.U.WF ∧ F.L.nrows = A.nrows ∧ F.L.ncols = A.nrows
    ∧ F.U.nrows = A.nrows ∧ F.U.ncols = A.nrows ∧ F.D.size = A.nrows ∧ R.nrows = A.nrows ∧ R.ncols = A.nrows :=
  ilukFactorT_wf k A hA hsq F R hF

/-- **`iluk_residual_identity`.**  For every field, every size, every fill parameter `k` and every well-formed square
matrix (rows need not be sorted, duplicates add) on which the constructor succeeds: the factors and the matrix `R` of
discarded contributions satisfy `((I+L)(D⁻¹+U))_ij + R_ij = a_ij` at **every** position.  On and right of the diagonal
there is no further hypothesis; left of the diagonal the stored pivot `D_j` must be non-zero (the code never checks
it). -/
theorem iluk_residual_identity (k : Nat) (A : CRS K) (hA : A.WF) (hsq : A.ncols = A.nrows) (F : IluFactors K)
    (R : CRS K) (hF : ilukFactorT k A = .ok (F, R)) (i j : Nat) (hi : i < A.nrows) (hj : j < A.nrows)
    (hD : j < i → F.D.getD j 0 ≠ 0) :
    ∑ k' ∈ range A.nrows, lowEntry F i k' * upEntry F k' j + R.get i j = A.get i j :=
  ilukFactorT_identity k A hA hsq F R hF i j hi hj hD

/-- a position at which nothing was discarded is reproduced exactly -/
theorem iluk_entry_of_not_discarded (k : Nat) (A : CRS K) (hA : A.WF) (hsq : A.ncols = A.nrows) (F : IluFactors K)
    (R : CRS K) (hF : ilukFactorT k A = .ok (F, R)) (i j : Nat) (hi : i < A.nrows) (hj : j < A.nrows)
    (hD : j < i → F.D.getD j 0 ≠ 0) (hR : ∀ cv ∈ R.row i, cv.1 ≠ j) :
    ∑ k' ∈ range A.nrows, lowEntry F i k' * upEntry F k' j = A.get i j := by
  have h := ilukFactorT_identity k A hA hsq F R hF i j hi hj hD
  have h0 : R.get i j = 0 := Amgcl.rowGet_eq_zero_of_not_mem _ _ hR
  rw [h0, add_zero] at h
  exact h

/-- **on-pattern identity when the K01 situation does not occur.**  If every discarded contribution went to a column
that has no slot at the end of its row (`ilukNoLateSlotb`, decidable on the run), then `((I+L)(D⁻¹+U))_ij = a_ij` on
the whole final admitted pattern: the diagonal and every stored position of `L` and `U`. -/
theorem iluk_on_pattern_of_no_late_discard (k : Nat) (ω : K) (A : CRS K) (hA : A.WF) (hsq : A.ncols = A.nrows)
    (F : IluFactors K) (hF : (iluk k ω).setup A = .ok F) (hnl : ilukNoLateSlotb k A = true)
    (i j : Nat) (hi : i < A.nrows) (hj : j < A.nrows) (hslot : ilukSlotb F i j = true)
    (hD : j < i → F.D.getD j 0 ≠ 0) :
    ∑ k' ∈ range A.nrows, lowEntry F i k' * upEntry F k' j = A.get i j := by
  obtain ⟨R, hT⟩ := ilukFactorT_of_factor k A F hF
  apply iluk_entry_of_not_discarded k A hA hsq F R hT i j hi hj hD
  intro cv hcv heq
  unfold ilukNoLateSlotb at hnl
  rw [hT] at hnl
  simp only [] at hnl
  rw [List.all_eq_true] at hnl
  have h1 := hnl i (List.mem_range.mpr hi)
  rw [List.all_eq_true] at h1
  have h2 := h1 cv hcv
  rw [heq, hslot] at h2
  exact absurd h2 (by decide)

/-- **the pattern the run admits is the a-priori level-of-fill pattern.**  At the end of row `i` of a successful
constructor a slot exists at column `j` (diagonal, or stored in the `L` / `U` row) iff `patLevel A k i j`, the symbolic
level-of-fill pattern (`fillLevels`, amgcl's rule `lev = max(lev_ik, lev_kj) + 1 ≤ k`) that the checker
`luOnPatternb` uses as admitted pattern.  No hypothesis on the matrix. -/
theorem iluk_slots_are_level_pattern (k : Nat) (ω : K) (A : CRS K) (F : IluFactors K)
    (hF : (iluk k ω).setup A = .ok F) (i j : Nat) (hi : i < A.nrows) (hj : j < A.nrows) :
    ilukSlotb F i j = patLevel A k i j :=
  ilukSlotb_eq_patLevel k A F hF i j hi hj

/-- the factors stay inside the level-of-fill pattern (verdict of the checker `factorsInPatternb`) -/
theorem iluk_factors_in_level_pattern (k : Nat) (ω : K) (A : CRS K) (hA : A.WF) (hsq : A.ncols = A.nrows)
    (F : IluFactors K) (hF : (iluk k ω).setup A = .ok F) :
    factorsInPatternb (patLevel A k) F = true := by
  obtain ⟨R, hT⟩ := ilukFactorT_of_factor k A F hF
  obtain ⟨_, _, h3, h4, h5, h6, h7, h8, _, _, _⟩ := ilukFactorT_wf k A hA hsq F R hT
  unfold factorsInPatternb
  rw [Bool.and_eq_true, List.all_eq_true, List.all_eq_true]
  constructor
  · intro i hi
    have hi' : i < A.nrows := by rw [← h5]; exact List.mem_range.mp hi
    unfold rowInPatternb
    rw [List.all_eq_true]
    intro cv hcv
    have hc : cv.1 < A.nrows := by rw [← h6]; exact K2.row_col_lt h3 i hcv
    rw [← ilukSlotb_eq_patLevel k A F hF i cv.1 hi' hc]
    have : (F.L.row i).any (fun e => e.1 == cv.1) = true := List.any_eq_true.mpr ⟨cv, hcv, by simp⟩
    unfold ilukSlotb
    rw [this]; simp
  · intro i hi
    have hi' : i < A.nrows := by rw [← h7]; exact List.mem_range.mp hi
    unfold rowInPatternb
    rw [List.all_eq_true]
    intro cv hcv
    have hc : cv.1 < A.nrows := by rw [← h8]; exact K2.row_col_lt h4 i hcv
    rw [← ilukSlotb_eq_patLevel k A F hF i cv.1 hi' hc]
    have : (F.U.row i).any (fun e => e.1 == cv.1) = true := List.any_eq_true.mpr ⟨cv, hcv, by simp⟩
    unfold ilukSlotb
    rw [this]; simp

/-- **`iluk_on_level_pattern`: the ILU(k) clause of the property, with its exact side condition.**  If no discarded
contribution went to a finally admitted position (`ilukNoLateSlotb`; the negation of finding K01) and the stored
pivots are non-zero, then `((I+L)(D⁻¹+U))_ij = a_ij` on the level-of-fill `≤ k` pattern — the checker `luOnPatternb
(patLevel A k)` answers `true`. -/
theorem iluk_on_level_pattern (k : Nat) (ω : K) (A : CRS K) (hA : A.WF) (hsq : A.ncols = A.nrows)
    (F : IluFactors K) (hF : (iluk k ω).setup A = .ok F) (hnl : ilukNoLateSlotb k A = true)
    (hD : ∀ i, i < A.nrows → F.D.getD i 0 ≠ 0) :
    (∀ i j, i < A.nrows → j < A.nrows → patLevel A k i j = true →
        ∑ k' ∈ range A.nrows, lowEntry F i k' * upEntry F k' j = A.get i j)
    ∧ luOnPatternb (patLevel A k) A F = true := by
  have hmain : ∀ i j, i < A.nrows → j < A.nrows → patLevel A k i j = true →
      ∑ k' ∈ range A.nrows, lowEntry F i k' * upEntry F k' j = A.get i j := by
    intro i j hi hj hp
    rw [← ilukSlotb_eq_patLevel k A F hF i j hi hj] at hp
    exact iluk_on_pattern_of_no_late_discard k ω A hA hsq F hF hnl i j hi hj hp (fun hji => hD j (by omega))
  refine ⟨hmain, ?_⟩
  unfold luOnPatternb
  rw [List.all_eq_true]; intro i hi
  rw [List.all_eq_true]; intro j hj
  cases hp : patLevel A k i j with
  | false => rfl
  | true =>
    simp only [Bool.not_true, Bool.false_or, decide_eq_true_eq]
    rw [luEntry_eq_sum]
    exact hmain i j (List.mem_range.mp hi) (List.mem_range.mp hj) hp

/-- **complete LU when nothing is discarded.**  `ilukNoDiscardb k A` (no call of `add` took the discarding branch)
⟹ `(I+L)(D⁻¹+U) = A` at every position. -/
theorem iluk_exact_of_no_discard (k : Nat) (ω : K) (A : CRS K) (hA : A.WF) (hsq : A.ncols = A.nrows)
    (F : IluFactors K) (hF : (iluk k ω).setup A = .ok F) (hnd : ilukNoDiscardb k A = true)
    (i j : Nat) (hi : i < A.nrows) (hj : j < A.nrows) (hD : j < i → F.D.getD j 0 ≠ 0) :
    ∑ k' ∈ range A.nrows, lowEntry F i k' * upEntry F k' j = A.get i j := by
  obtain ⟨R, hT⟩ := ilukFactorT_of_factor k A F hF
  apply iluk_entry_of_not_discarded k A hA hsq F R hT i j hi hj hD
  intro cv hcv
  unfold ilukNoDiscardb at hnd
  rw [hT] at hnd
  simp only [] at hnd
  rw [Array.all_eq_true] at hnd
  have hRn : R.nrows = A.nrows := (ilukFactorT_wf k A hA hsq F R hT).2.2.2.2.2.2.2.2.2.1
  have hi' : i < R.rows.size := by rw [← hRn] at hi; exact hi
  have h1 := hnd i hi'
  have hrow : R.row i = R.rows[i] := by unfold CRS.row Array.getD; rw [dif_pos hi']; rfl
  rw [hrow] at hcv
  rw [List.isEmpty_iff] at h1
  rw [h1] at hcv
  cases hcv

/-- … and then `apply` is the exact inverse: `A · apply(f) = f` (all stored pivots non-zero) -/
theorem iluk_exact_inverse (k : Nat) (ω : K) (A : CRS K) (hA : A.WF) (hsq : A.ncols = A.nrows)
    (F : IluFactors K) (hF : (iluk k ω).setup A = .ok F) (hnd : ilukNoDiscardb k A = true)
    (hD : ∀ i, i < A.nrows → F.D.getD i 0 ≠ 0) (f : Vec K) (hf : f.size = A.nrows) (i : Nat) (hi : i < A.nrows) :
    ∑ j ∈ range A.nrows, A.get i j * ((iluk k ω).apply F A f).getD j 0 = f.getD i 0 := by
  obtain ⟨R, hT⟩ := ilukFactorT_of_factor k A F hF
  obtain ⟨h1, h2, h3, h4, h5, h6, h7, h8, _, _, _⟩ := ilukFactorT_wf k A hA hsq F R hT
  have hcopy : vcopy f = f := by
    apply Vec.ext_getD (0 : K) (by simp [vcopy])
    intro k hk
    have hk' : k < f.size := by simpa [vcopy] using hk
    simp [vcopy]
  show ∑ j ∈ range A.nrows, A.get i j * (iluSolve F (vcopy f)).getD j 0 = f.getD i 0
  rw [hcopy]
  exact exact_factors_invert A F
    (fun i j hi hj => iluk_exact_of_no_discard k ω A hA hsq F hF hnd i j hi hj (fun hji => hD j (by omega)))
    h1 h2 h3 h4 h5 h6 h7 h8 hD f hf i hi

/-- rows `i ≤ k` never discard anything (every level that occurs while row `i` is built is `≤ i`), so these rows of
`(I+L)(D⁻¹+U)` equal the rows of `A` -/
theorem iluk_rows_le_fill_complete (k : Nat) (A : CRS K) (hA : A.WF) (hsq : A.ncols = A.nrows) (F : IluFactors K)
    (R : CRS K) (hF : ilukFactorT k A = .ok (F, R)) (i : Nat) (hi : i < A.nrows) (hik : i ≤ k) :
    R.row i = [] ∧ ∀ j, j < A.nrows → (j < i → F.D.getD j 0 ≠ 0) →
      ∑ k' ∈ range A.nrows, lowEntry F i k' * upEntry F k' j = A.get i j := by
  obtain ⟨S, inv, _, _⟩ := ilukFactorT_inv k A hA hsq F R hF
  have h0 : R.row i = [] := inv.nodrop i hi hik
  refine ⟨h0, fun j hj hD => ?_⟩
  apply iluk_entry_of_not_discarded k A hA hsq F R hF i j hi hj hD
  intro cv hcv; rw [h0] at hcv; cases hcv

/-- **`k ≥ n − 1` (in particular `k ≥ n`) ⟹ nothing is discarded** -/
theorem iluk_no_discard_of_large_fill (k : Nat) (ω : K) (A : CRS K) (hA : A.WF) (hsq : A.ncols = A.nrows)
    (hk : A.nrows ≤ k + 1) (F : IluFactors K) (hF : (iluk k ω).setup A = .ok F) :
    ilukNoDiscardb k A = true := by
  obtain ⟨R, hT⟩ := ilukFactorT_of_factor k A F hF
  obtain ⟨S, inv, _, _⟩ := ilukFactorT_inv k A hA hsq F R hT
  unfold ilukNoDiscardb
  rw [hT]
  simp only []
  rw [Array.all_eq_true]
  intro i hi
  have hi' : i < A.nrows := by rw [← inv.sizeR]; exact hi
  have := inv.nodrop i hi' (by omega)
  have hrow : R.rows.getD i [] = R.rows[i] := by unfold Array.getD; rw [dif_pos hi]; rfl
  rw [hrow] at this
  rw [this]; rfl

/-- **`iluk_complete_of_large_fill`.**  With `k ≥ n − 1` ILU(k) as written is the complete LU factorisation and its
`apply` the exact inverse of `A`. -/
theorem iluk_complete_of_large_fill (k : Nat) (ω : K) (A : CRS K) (hA : A.WF) (hsq : A.ncols = A.nrows)
    (hk : A.nrows ≤ k + 1) (F : IluFactors K) (hF : (iluk k ω).setup A = .ok F)
    (hD : ∀ i, i < A.nrows → F.D.getD i 0 ≠ 0) :
    (∀ i j, i < A.nrows → j < A.nrows → ∑ k' ∈ range A.nrows, lowEntry F i k' * upEntry F k' j = A.get i j)
    ∧ ∀ f : Vec K, f.size = A.nrows → ∀ i, i < A.nrows →
        ∑ j ∈ range A.nrows, A.get i j * ((iluk k ω).apply F A f).getD j 0 = f.getD i 0 := by
  have hnd := iluk_no_discard_of_large_fill k ω A hA hsq hk F hF
  exact ⟨fun i j hi hj => iluk_exact_of_no_discard k ω A hA hsq F hF hnd i j hi hj (fun hji => hD j (by omega)),
         fun f hf i hi => iluk_exact_inverse k ω A hA hsq F hF hnd hD f hf i hi⟩

end iluk

/-! ## V-grade: soundness of the output checkers used for ILU(k), ILUP, ILUT and SPAI-1

These smoothers are not modelled.  The harness reads the factors (`L`, `U`, inverted `D`) resp. the matrix `M` the
real code produced and the driver evaluates the executable predicates of `Model/RelaxCheck.lean` on them; the
theorems below say what a `true` verdict means.  This is translation validation: it holds for the explored inputs. -/
section vgrade
variable {K : Type} [Field K] [DecidableEq K]

/-- `LUOnPattern`: a `true` verdict gives `((I+L)(D⁻¹+U))_ij = a_ij` on every admitted position -/
theorem lu_on_pattern_sound (adm : Nat → Nat → Bool) (A : CRS K) (F : IluFactors K)
    (h : luOnPatternb adm A F = true) (i j : Nat) (hi : i < A.nrows) (hj : j < A.nrows) (ha : adm i j = true) :
    ∑ k ∈ range A.nrows, lowEntry F i k * upEntry F k j = A.get i j :=
  luOnPattern_sound adm A F h i j hi hj ha

/-- exact-inverse clause: if the checker finds `(I+L)(D⁻¹+U) = A` entrywise (which it must on tridiagonal, arrow and
complete patterns), then the serial triangular solve inverts `A`: `A · solve(b) = b` -/
theorem lu_exact_inverse (A : CRS K) (F : IluFactors K) (h : luExactb A F = true)
    (hL : strictLowerb F.L = true) (hU : strictUpperb F.U = true) (hLwf : F.L.WF) (hUwf : F.U.WF)
    (hLn : F.L.nrows = A.nrows) (hLc : F.L.ncols = A.nrows) (hUn : F.U.nrows = A.nrows) (hUc : F.U.ncols = A.nrows)
    (hD : ∀ i, i < A.nrows → F.D.getD i 0 ≠ 0) (b : Vec K) (hb : b.size = A.nrows) (i : Nat) (hi : i < A.nrows) :
    ∑ j ∈ range A.nrows, A.get i j * (iluSolve F b).getD j 0 = b.getD i 0 :=
  exact_factors_invert A F (fun i j hi hj => luExact_sound A F h i j hi hj) hL hU hLwf hUwf hLn hLc hUn hUc hD b hb i hi

end vgrade

section vgrade_ls
variable {K : Type} [Field K] [LinearOrder K] [IsStrictOrderedRing K] [DecidableEq K]

/-- `LeastSquaresRow`: a `true` verdict (normal equations `(e_i − m A) A_kᵀ = 0` for every pattern column `k`) makes row
`i` of `M` a minimiser of `‖e_i − m A‖₂²` over all rows `m` with the same values off the pattern of row `i` of `A` —
the SPAI-1 clause of the property -/
theorem least_squares_row_sound (A M : CRS K) (h : leastSquaresRowsb A M = true) (i : Nat) (hi : i < A.nrows)
    (m : Nat → K) (hm : ∀ l, l < A.nrows → (∀ cv ∈ A.row i, cv.1 ≠ l) → m l = M.get i l) :
    ∑ j ∈ range A.nrows, ((if i = j then 1 else 0) - ∑ l ∈ range A.nrows, M.get i l * A.get l j) ^ 2
      ≤ ∑ j ∈ range A.nrows, ((if i = j then 1 else 0) - ∑ l ∈ range A.nrows, m l * A.get l j) ^ 2 := by
  have := leastSquaresRows_sound A M h i hi m hm
  simpa only [spaiResid_eq] using this

end vgrade_ls

/-! ## Non-vacuity: the hypotheses are satisfiable, the theorems instantiate on a concrete non-symmetric matrix -/
section examples

/-- a 3×3 structurally non-symmetric, diagonally dominant matrix over `ℚ` -/
def exA : CRS ℚ := ⟨3, #[[(0, 4), (1, -1)], [(0, -2), (1, 5), (2, -1)], [(1, -1), (2, 3)]]⟩
/-- the same matrix with row 1 stored out of order and an off-diagonal entry split into two duplicates -/
def exB : CRS ℚ := ⟨3, #[[(1, -1), (0, 4)], [(2, -1/2), (1, 5), (0, -2), (2, -1/2)], [(1, -1), (2, 3)]]⟩

example : exA.WF ∧ diagOnceb exA = true ∧ exA.sortedb = true := by decide
example : exB.WF ∧ diagOnceb exB = true ∧ exB.sortedb = false := by decide
theorem exA_diag : ∀ i, i < exA.nrows → exA.get i i ≠ 0 := by decide +kernel
theorem exB_diag : ∀ i, i < exB.nrows → exB.get i i ≠ 0 := by decide +kernel

-- Jacobi / SPAI-0 on the unsorted matrix with duplicates
example := jacobi_sweep (18/25 : ℚ) exB (by decide) (by decide) #[1, 2, 3] #[1/2, 0, -1] #[7, 7, 7] 1 (by decide)
example := jacobi_affine_scratch_indep (18/25 : ℚ) (diagInv exB) exB (by simp [exB, CRS.nrows])
example := spai0_sweep (Amgcl.absK : ℚ → ℚ) exB (by decide) #[1, 2, 3] #[1/2, 0, -1] #[] 2 (by decide)
example : ∀ v : ℚ, Amgcl.absK v * Amgcl.absK v = v * v := by
  intro v; unfold Amgcl.absK; split <;> ring
example := spai0_minimises (Amgcl.absK : ℚ → ℚ) (by intro v; unfold Amgcl.absK; split <;> ring) exA (by decide) (by decide) 1
  (by decide) (by decide) (7/3)
-- Gauss–Seidel
example := gs_forward exB (by decide) (by decide) exB_diag #[1, 2, 3] #[0, 0, 0] #[] rfl 1 (by decide)
example := gs_backward exA (by decide) (by decide) exA_diag #[1, 2, 3] #[0, 0, 0] #[] rfl 0 (by decide)
example := gs_affine_scratch_indep exA (by decide) exA_diag
-- a genuine fixed point: `x = (1, 1, 1)`, `f = A x = (3, 2, 2)`
theorem exA_solves : ∀ i, i < exA.nrows → rowDot (exA.row i) #[1, 1, 1] = (#[3, 2, 2] : Vec ℚ).getD i 0 := by
  decide +kernel
example := gs_fixed_point exA (by decide) exA_diag #[3, 2, 2] #[1, 1, 1] #[] rfl rfl exA_solves
example := jacobi_fixed_point (1/2 : ℚ) exA #[3, 2, 2] #[1, 1, 1] #[] rfl rfl exA_solves
-- Chebyshev with and without scaling
example := cheb_fixed_point (K := ℚ) ⟨3, 1, 1/30, true⟩ exA (by intro _; decide) #[3, 2, 2] #[1, 1, 1] #[] rfl rfl
  exA_solves
example := cheb_affine_fixed (K := ℚ) ⟨4, 11/10, 1/4, false⟩ (chebSetup ⟨4, 11/10, 1/4, false⟩ exA) exA
  (by intro h; exact absurd h (by decide))
/-- degree-2 Chebyshev smoother on `exA` with the default `lower = 1/30` -/
def exCheb : ChebState ℚ := chebSetup ⟨2, 1, 1/30, false⟩ exA
theorem exCheb_ok : exCheb.c ≠ 0 ∧ chebT (exCheb.d / exCheb.c) 1 ≠ 0 ∧ chebT (exCheb.d / exCheb.c) 2 ≠ 0 := by
  decide +kernel
example := cheb_is_chebyshev_poly exCheb exA (by intro h; exact absurd h (by decide)) exCheb_ok.1 (by norm_num)
  #[1, 2, 3] #[0, 0, 0] #[] #[] rfl
  (by
    intro j h1 h2
    rw [← chebT_eq_eval]
    have hdeg : exCheb.degree = 2 := rfl
    have : j = 1 ∨ j = 2 := by omega
    rcases this with rfl | rfl
    · exact exCheb_ok.2.1
    · exact exCheb_ok.2.2)
  0 (by decide)
-- ILU(0): the constructor succeeds on `exA`, the factors are strictly triangular with non-zero stored pivots
/-- the factors of `exA` (tridiagonal: ILU(0) is the exact LU factorisation) -/
def exF : IluFactors ℚ := ⟨⟨3, #[[], [(0, -1/2)], [(1, -2/9)]]⟩, ⟨3, #[[(1, -1)], [(2, -1)], []]⟩, #[1/4, 2/9, 9/25]⟩
local instance exDecEqCRS : DecidableEq (CRS ℚ) := fun a b =>
  decidable_of_iff (a.ncols = b.ncols ∧ a.rows = b.rows) (by cases a; cases b; simp)
local instance exDecEqIlu : DecidableEq (IluFactors ℚ) := fun a b =>
  decidable_of_iff (a.L = b.L ∧ a.U = b.U ∧ a.D = b.D) (by cases a; cases b; simp)
theorem exA_ilu0 : ilu0Factor exA = .ok exF := by decide +kernel
example : strictLowerb exF.L = true ∧ strictUpperb exF.U = true ∧ luOnPatternb (patOf exA) exA exF = true
    ∧ luExactb exA exF = true := by decide +kernel
theorem exF_D : ∀ i, i < exF.L.nrows → exF.D.getD i 0 ≠ 0 := by decide +kernel
example := ilu_solve_serial_spec exF (by decide) (by decide) (by decide) (by decide) rfl rfl rfl #[1, 2, 3] rfl
example := ilu_solve_serial_inverse exF (by decide) (by decide) (by decide) (by decide) rfl rfl rfl exF_D #[1, 2, 3] rfl
  2 (by decide)
example := lu_exact_inverse exA exF (by decide +kernel) (by decide) (by decide) (by decide) (by decide) rfl rfl rfl rfl
  exF_D #[1, 2, 3] rfl 0 (by decide)
example := ilu0_fixed_point (1 : ℚ) exA exF (by exact exA_ilu0) #[3, 2, 2] #[1, 1, 1] #[] rfl rfl exA_solves
example := ilu0_on_pattern (1 : ℚ) exA (by decide) rfl (by decide) exF (by exact exA_ilu0) 1 (by decide) (2, -1)
  (by decide +kernel)
example : noFillb exA = true := by decide
example := ilu0_exact_inverse (1 : ℚ) exA (by decide) rfl (by decide) (by decide) exF (by exact exA_ilu0) #[1, 2, 3] rfl
  0 (by decide)
theorem exA_ilup : ilupFactor 1 exA = .ok exF := by decide +kernel
example := ilup_on_pattern 1 (by decide) exA rfl exF exA_ilup 0 2 (by decide) (by decide) (by decide +kernel)
-- ILU(k) as written violates the on-pattern identity: the minimal input of finding C06-iluk-dropped-contributions
/-- rows `{0:4, 1:1} {1:4, 4:1} {2:4, 4:1} {0:1, 2:1, 3:4} {4:4}` -/
def exK : CRS ℚ := ⟨5, #[[(0, 4), (1, 1)], [(1, 4), (4, 1)], [(2, 4), (4, 1)], [(0, 1), (2, 1), (3, 4)], [(4, 4)]]⟩
/-- the ILU(1) factors `iluk.hpp` produces for `exK` -/
def exKF : IluFactors ℚ :=
  ⟨⟨5, #[[], [], [], [(0, 1/4), (1, -1/16), (2, 1/4)], []]⟩, ⟨5, #[[(1, 1)], [(4, 1)], [(4, 1)], [(4, -1/4)], []]⟩,
   #[1/4, 1/4, 1/4, 1/4, 1/4]⟩
/-- **Counterexample to the ILU(k) clause for the code as written.**  On `exK` with `k = 1`: position `(3,4)` is
admitted (level 1 through pivot 2), the model of `iluk.hpp` returns `exKF`, and `((I+L)(D⁻¹+U))_34 = −1/16 ≠ 0 = a_34`:
the level-2 contribution `−l_31·u_14` was discarded because it arrived before the slot `(3,4)` existed. -/
theorem iluk_not_on_pattern_counterexample :
    ilukFactor 1 exK = .ok exKF ∧ patLevel exK 1 3 4 = true ∧ exK.get 3 4 = 0 ∧ luEntry exKF 5 3 4 = -1/16
    ∧ luOnPatternb (patLevel exK 1) exK exKF = false := by decide +kernel
/-- with `k = 2` nothing is discarded on this matrix and the identity holds (the factorisation is exact) -/
theorem iluk_level2_example :
    (match ilukFactor 2 exK with
      | .ok F => luOnPatternb (patLevel exK 2) exK F && luExactb exK F
      | _ => false) = true := by decide +kernel
-- ILU(k): the residual identity on the counterexample — the missing `−1/16` at `(3,4)` is exactly the discarded `1/16`
/-- what `add` discarded while `iluk.hpp` factorised `exK` with `k = 1`: one contribution, `1/16` at `(3,4)` -/
def exKR : CRS ℚ := ⟨5, #[[], [], [], [(4, 1/16)], []]⟩
theorem exK_ilukT : ilukFactorT 1 exK = .ok (exKF, exKR) := by decide +kernel
example : ilukNoDiscardb 1 exK = false ∧ ilukNoLateSlotb 1 exK = false ∧ ilukNoDiscardb 2 exK = true
    ∧ ilukNoDiscardb 4 exK = true := by decide +kernel
theorem exKF_D : ∀ i, i < exK.nrows → exKF.D.getD i 0 ≠ 0 := by decide +kernel
example := iluk_residual_identity 1 exK (by decide) rfl exKF exKR exK_ilukT 3 4 (by decide) (by decide)
  (fun h => absurd h (by decide))
example := iluk_residual_identity 1 exK (by decide) rfl exKF exKR exK_ilukT 3 1 (by decide) (by decide)
  (fun _ => exKF_D 1 (by decide))
example := iluk_factors_wf 1 exK (by decide) rfl exKF exKR exK_ilukT
example := (iluk_trace_exists 1 (1 : ℚ) exK exKF).mpr ⟨exKR, exK_ilukT⟩
-- position (3,2) of `exK` received no discarded contribution, row 1 ≤ k discards nothing
example := iluk_entry_of_not_discarded 1 exK (by decide) rfl exKF exKR exK_ilukT 3 2 (by decide) (by decide)
  (fun _ => exKF_D 2 (by decide)) (by decide)
example := iluk_rows_le_fill_complete 1 exK (by decide) rfl exKF exKR exK_ilukT 1 (by decide) (by decide)
/-- a 3×3 arrow matrix pointing to the first row/column (fill at `(1,2)` and `(2,1)`), row 1 stored out of order, the
diagonal entry of row 2 split into two duplicates -/
def exFill : CRS ℚ := ⟨3, #[[(0, 4), (1, 1), (2, 1)], [(1, 4), (0, 1)], [(0, 1), (2, 2), (2, 2)]]⟩
/-- ILU(0) of `exFill` as `iluk.hpp` computes it: both fill contributions are discarded, at positions that never
get a slot -/
def exFill0 : IluFactors ℚ := ⟨⟨3, #[[], [(0, 1/4)], [(0, 1/4)]]⟩, ⟨3, #[[(1, 1), (2, 1)], [], []]⟩, #[1/4, 4/15, 4/15]⟩
/-- ILU(1) = ILU(2) of `exFill`: the complete factorisation -/
def exFill1 : IluFactors ℚ :=
  ⟨⟨3, #[[], [(0, 1/4)], [(0, 1/4), (1, -1/15)]]⟩, ⟨3, #[[(1, 1), (2, 1)], [(2, -1/4)], []]⟩, #[1/4, 4/15, 15/56]⟩
theorem exFill_iluk0 : ilukFactor 0 exFill = .ok exFill0 := by decide +kernel
theorem exFill_iluk1 : ilukFactor 1 exFill = .ok exFill1 := by decide +kernel
theorem exFill_iluk2 : ilukFactor 2 exFill = .ok exFill1 := by decide +kernel
theorem exFill_flags : ilukNoDiscardb 0 exFill = false ∧ ilukNoLateSlotb 0 exFill = true
    ∧ ilukNoDiscardb 1 exFill = true ∧ ilukSlotb exFill0 2 0 = true ∧ ilukSlotb exFill0 1 2 = false := by
  decide +kernel
theorem exFill0_D : ∀ i, i < exFill.nrows → exFill0.D.getD i 0 ≠ 0 := by decide +kernel
theorem exFill1_D : ∀ i, i < exFill.nrows → exFill1.D.getD i 0 ≠ 0 := by decide +kernel
-- k = 0: contributions are discarded, but none at a position of the final pattern: the identity holds there
example := iluk_on_pattern_of_no_late_discard 0 (1 : ℚ) exFill (by decide) rfl exFill0 (by exact exFill_iluk0)
  exFill_flags.2.1 2 0 (by decide) (by decide) exFill_flags.2.2.2.1 (fun _ => exFill0_D 0 (by decide))
example := iluk_slots_are_level_pattern 0 (1 : ℚ) exFill exFill0 (by exact exFill_iluk0) 1 2 (by decide) (by decide)
example : patLevel exFill 0 1 2 = false ∧ patLevel exFill 1 1 2 = true ∧ patLevel exK 1 3 4 = true := by decide +kernel
example := iluk_on_level_pattern 0 (1 : ℚ) exFill (by decide) rfl exFill0 (by exact exFill_iluk0) exFill_flags.2.1
  exFill0_D
example := iluk_factors_in_level_pattern 1 (1 : ℚ) exK (by decide) rfl exKF
  ((iluk_trace_exists 1 (1 : ℚ) exK exKF).mpr ⟨exKR, exK_ilukT⟩)
-- k = 1 < n − 1: nothing is discarded (run predicate), complete LU and exact inverse
example := iluk_exact_of_no_discard 1 (1 : ℚ) exFill (by decide) rfl exFill1 (by exact exFill_iluk1)
  exFill_flags.2.2.1 2 1 (by decide) (by decide) (fun _ => exFill1_D 1 (by decide))
example := iluk_exact_inverse 1 (1 : ℚ) exFill (by decide) rfl exFill1 (by exact exFill_iluk1)
  exFill_flags.2.2.1 exFill1_D #[1, 2, 3] rfl 0 (by decide)
-- k = 2 = n − 1: nothing can be discarded, whatever the matrix
example := iluk_no_discard_of_large_fill 2 (1 : ℚ) exFill (by decide) rfl (by decide) exFill1 (by exact exFill_iluk2)
example := iluk_complete_of_large_fill 2 (1 : ℚ) exFill (by decide) rfl (by decide) exFill1 (by exact exFill_iluk2)
  exFill1_D
-- SPAI-1 checker: for a diagonal matrix the exact inverse satisfies the normal equations
example : leastSquaresRowsb (⟨2, #[[(0, 2)], [(1, -4)]]⟩ : CRS ℚ) ⟨2, #[[(0, 1/2)], [(1, -1/4)]]⟩ = true := by
  decide +kernel

end examples

end Amgcl.C06
