import Amgcl.Properties.C10d
import Amgcl.Properties.C10f
import Amgcl.Properties.C10c
/-!
# C10 (continued, package alloc2) — MPI sites that are instances of the generic constructions

An `MPI_Irecv` into a range of cells (followed by `MPI_Waitall`) and a `std::copy` into a range are stores into these
cells; the received values are inputs of the rank.  Each theorem below is the generic theorem of
`Properties/C10c.lean` / `C10d.lean` / `C10f.lean` at the rows / widths of the named kernel.

* `dist_matrix_split_defined` — `distributed_matrix(comm, A, n_loc_cols)`: `A_loc`, `A_rem` (zero-filled `ptr`, one
  increment per entry inside / outside the local column range, scan, `set_nonzeros`, fill from the loaded heads).
* `graph_perm_matrix_defined` — `partition::graph_perm_matrix`: `I_loc`, `I_rem` (widths 1/0 resp. 0/1).
* `remote_rows_nbr_defined` — `remote_rows`: `B_nbr` (`ptr[0] = 0`, widths received from the neighbours, scan,
  `set_nonzeros`, rows received segment by segment).
* `solver_base_gather_defined` — `mpi::direct::solver_base::init`: the gathered matrix `A` (widths copied / received,
  scan, `set_nonzeros`, `col`/`val` copied / received contiguously) and `solver_base_local_defined` — the merged local
  matrix `a` (one pass, running head, exact size).
* `mpi_spai0_defined` — `mpi::relaxation::spai0`: `m`.
* `mpi_spectral_radius_defined` — `b0`, `b1`; `mpi_rem_col_defined` — `rem_col`.
-/
namespace Amgcl.C10g
open Amgcl Amgcl.Defined

section split
variable {K : Type}

/-- `A_loc` (`keep` = column inside `[loc_beg, loc_end)`, `out` = `(c - loc_beg, v)`) and `A_rem` (`keep` = outside,
`out` = identity) of the distributed-matrix constructor, for every local strip and column range -/
theorem dist_matrix_split_defined (rows : Array (List (Nat × K))) (locBeg locEnd : Nat) (jp jp' : Array Nat)
    (jc jc' : Nat → Array Nat) (jv jv' : Nat → Array K)
    (hp : jp.size = rows.size + 1) (hc : ∀ k, (jc k).size = k) (hv : ∀ k, (jv k).size = k)
    (hp' : jp'.size = rows.size + 1) (hc' : ∀ k, (jc' k).size = k) (hv' : ∀ k, (jv' k).size = k) :
    ((schurBlockCells rows (fun e => decide (locBeg ≤ e.1) && decide (e.1 < locEnd)) (fun e => (e.1 - locBeg, e.2)) jp jc jv).ok = true ∧
      schurBlockCells rows (fun e => decide (locBeg ≤ e.1) && decide (e.1 < locEnd)) (fun e => (e.1 - locBeg, e.2)) jp jc jv
        = schurBlockCells rows (fun e => decide (locBeg ≤ e.1) && decide (e.1 < locEnd)) (fun e => (e.1 - locBeg, e.2)) jp' jc' jv' ∧
      allWritten (schurBlockCells rows (fun e => decide (locBeg ≤ e.1) && decide (e.1 < locEnd)) (fun e => (e.1 - locBeg, e.2)) jp jc jv).col = true ∧
      allWritten (schurBlockCells rows (fun e => decide (locBeg ≤ e.1) && decide (e.1 < locEnd)) (fun e => (e.1 - locBeg, e.2)) jp jc jv).val = true) ∧
    ((schurBlockCells rows (fun e => !(decide (locBeg ≤ e.1) && decide (e.1 < locEnd))) (fun e => e) jp jc jv).ok = true ∧
      schurBlockCells rows (fun e => !(decide (locBeg ≤ e.1) && decide (e.1 < locEnd))) (fun e => e) jp jc jv
        = schurBlockCells rows (fun e => !(decide (locBeg ≤ e.1) && decide (e.1 < locEnd))) (fun e => e) jp' jc' jv' ∧
      allWritten (schurBlockCells rows (fun e => !(decide (locBeg ≤ e.1) && decide (e.1 < locEnd))) (fun e => e) jp jc jv).col = true ∧
      allWritten (schurBlockCells rows (fun e => !(decide (locBeg ≤ e.1) && decide (e.1 < locEnd))) (fun e => e) jp jc jv).val = true) := by
  obtain ⟨a1, _, a3, a4, _, a6⟩ := C10f.schur_block_defined rows (fun e : Nat × K => decide (locBeg ≤ e.1) && decide (e.1 < locEnd))
    (fun e => (e.1 - locBeg, e.2)) jp jp' jc jc' jv jv' hp hc hv hp' hc' hv'
  obtain ⟨b1, _, b3, b4, _, b6⟩ := C10f.schur_block_defined rows (fun e : Nat × K => !(decide (locBeg ≤ e.1) && decide (e.1 < locEnd)))
    (fun e => e) jp jp' jc jc' jv jv' hp hc hv hp' hc' hv'
  exact ⟨⟨a1, a6, a3, a4⟩, ⟨b1, b6, b3, b4⟩⟩

end split

example : erase (schurBlockCells (K := Nat) #[[(0, 4), (5, 7)], [(6, 8), (1, 5)]]
    (fun e => decide (0 ≤ e.1) && decide (e.1 < 2)) (fun e => (e.1 - 0, e.2)) #[9, 9, 9] (fun k => Array.replicate k 5)
    (fun k => Array.replicate k 6)).val = #[4, 5] := by decide +kernel

section perm
variable {K : Type} [One K]

/-- rows of `I_loc` / `I_rem` -/
def permRows (perm : Array Nat) (colBeg colEnd : Nat) (loc : Bool) : Array (Row K) :=
  Array.ofFn (n := perm.size) fun i =>
    let j := perm.getD i.val 0
    if (decide (colBeg ≤ j) && decide (j < colEnd)) == loc then [(if loc then j - colBeg else j, (1 : K))] else []

/-- `graph_perm_matrix`: `I_loc` (`loc = true`) and `I_rem` (`loc = false`) — the width stored into `ptr[i+1]` is the
length of the row the fill loop writes (1 or 0) -/
theorem graph_perm_matrix_defined (perm : Array Nat) (colBeg colEnd : Nat) (loc : Bool) (jp jp' : Array Nat)
    (jc jc' : Nat → Array Nat) (jv jv' : Nat → Array K)
    (hp : jp.size = perm.size + 1) (hc : ∀ k, (jc k).size = k) (hv : ∀ k, (jv k).size = k)
    (hp' : jp'.size = perm.size + 1) (hc' : ∀ k, (jc' k).size = k) (hv' : ∀ k, (jv' k).size = k) :
    (twoPass (permRows (K := K) perm colBeg colEnd loc) jp jc jv).ok = true ∧
      allWritten (twoPass (permRows (K := K) perm colBeg colEnd loc) jp jc jv).ptr = true ∧
      allWritten (twoPass (permRows (K := K) perm colBeg colEnd loc) jp jc jv).col = true ∧
      allWritten (twoPass (permRows (K := K) perm colBeg colEnd loc) jp jc jv).val = true ∧
      twoPass (permRows (K := K) perm colBeg colEnd loc) jp jc jv
        = twoPass (permRows (K := K) perm colBeg colEnd loc) jp' jc' jv' := by
  have hn : (permRows (K := K) perm colBeg colEnd loc).size = perm.size := by simp [permRows]
  obtain ⟨a, b, c, d, _, f⟩ := C10c.two_pass_defined (permRows (K := K) perm colBeg colEnd loc) jp jp' jc jc' jv jv'
    (by rw [hn]; exact hp) hc hv (by rw [hn]; exact hp') hc' hv'
  exact ⟨a, b, c, d, f⟩

end perm

example : erase (twoPass (permRows (K := Rat) #[3, 0, 1] 0 2 true) #[9, 9, 9, 9] (fun k => Array.replicate k 5)
    (fun k => Array.replicate k 7)).ptr = #[0, 0, 1, 2] := by decide +kernel

section recv
variable {K : Type}

/-- `remote_rows`: `B_nbr` — `ptr[0] = 0`, `ptr[beg+1 … end]` received from neighbour `k` (the ranges tile
`1 … recv.count()`), `scan_row_sizes`, `set_nonzeros`, `col`/`val` of the rows `[rbeg, rend)` received into
`[ptr[rbeg], ptr[rend])`: the two-pass construction at the received rows -/
theorem remote_rows_nbr_defined (rows : Array (Row K)) (jp jp' : Array Nat) (jc jc' : Nat → Array Nat)
    (jv jv' : Nat → Array K)
    (hp : jp.size = rows.size + 1) (hc : ∀ k, (jc k).size = k) (hv : ∀ k, (jv k).size = k)
    (hp' : jp'.size = rows.size + 1) (hc' : ∀ k, (jc' k).size = k) (hv' : ∀ k, (jv' k).size = k) :
    (twoPass rows jp jc jv).ok = true ∧ allWritten (twoPass rows jp jc jv).ptr = true ∧
      allWritten (twoPass rows jp jc jv).col = true ∧ allWritten (twoPass rows jp jc jv).val = true ∧
      twoPass rows jp jc jv = twoPass rows jp' jc' jv' := by
  obtain ⟨a, b, c, d, _, f⟩ := C10c.two_pass_defined rows jp jp' jc jc' jv jv' hp hc hv hp' hc' hv'
  exact ⟨a, b, c, d, f⟩

/-- `solver_base::init(comm, Astrip)`, the gathered matrix `A`: widths of the own strip copied, those of the slaves
received, `scan_row_sizes`, `set_nonzeros`, `col`/`val` copied / received contiguously in row order -/
theorem solver_base_gather_defined (rows : Array (Row K)) (jp jp' : Array Nat) (jc jc' : Nat → Array Nat)
    (jv jv' : Nat → Array K)
    (hp : jp.size = rows.size + 1) (hc : ∀ k, (jc k).size = k) (hv : ∀ k, (jv k).size = k)
    (hp' : jp'.size = rows.size + 1) (hc' : ∀ k, (jc' k).size = k) (hv' : ∀ k, (jv' k).size = k) :
    (twoPass rows jp jc jv).ok = true ∧ allWritten (twoPass rows jp jc jv).ptr = true ∧
      allWritten (twoPass rows jp jc jv).col = true ∧ allWritten (twoPass rows jp jc jv).val = true ∧
      twoPass rows jp jc jv = twoPass rows jp' jc' jv' :=
  remote_rows_nbr_defined rows jp jp' jc jc' jv jv' hp hc hv hp' hc' hv'

/-- `solver_base::init(comm, distributed_matrix)`, the merged matrix `a`: `set_size(n, m); set_nonzeros(loc.nnz +
rem.nnz); ptr[0] = 0`, running head over the local then the remote entries of every row, `ptr[i+1] = head` -/
theorem solver_base_local_defined (loc rem : Array (Row K)) (shift : Nat) (jp jc : Array Nat) (jv : Array K)
    (hsz : rem.size = loc.size)
    (hp : jp.size = loc.size + 1)
    (hc : jc.size = (flatRows (Array.ofFn (n := loc.size) fun i =>
      (loc.getD i.val []).map (fun e => (e.1 + shift, e.2)) ++ rem.getD i.val [])).length)
    (hv : jv.size = (flatRows (Array.ofFn (n := loc.size) fun i =>
      (loc.getD i.val []).map (fun e => (e.1 + shift, e.2)) ++ rem.getD i.val [])).length) :
    (onePass (Array.ofFn (n := loc.size) fun i =>
        (loc.getD i.val []).map (fun e => (e.1 + shift, e.2)) ++ rem.getD i.val []) jp jc jv).fill.ok = true ∧
      allWritten (onePass (Array.ofFn (n := loc.size) fun i =>
        (loc.getD i.val []).map (fun e => (e.1 + shift, e.2)) ++ rem.getD i.val []) jp jc jv).ptr = true ∧
      allWritten (onePass (Array.ofFn (n := loc.size) fun i =>
        (loc.getD i.val []).map (fun e => (e.1 + shift, e.2)) ++ rem.getD i.val []) jp jc jv).fill.col = true ∧
      allWritten (onePass (Array.ofFn (n := loc.size) fun i =>
        (loc.getD i.val []).map (fun e => (e.1 + shift, e.2)) ++ rem.getD i.val []) jp jc jv).fill.val = true := by
  have _ := hsz
  obtain ⟨a, b, c, d⟩ := onePass_exact (Array.ofFn (n := loc.size) fun i =>
    (loc.getD i.val []).map (fun e => (e.1 + shift, e.2)) ++ rem.getD i.val []) jp jc jv (by simpa using hp) hc hv
  obtain ⟨x, y, z, _⟩ := ofRows_allWritten (Array.ofFn (n := loc.size) fun i =>
    (loc.getD i.val []).map (fun e => (e.1 + shift, e.2)) ++ rem.getD i.val [])
  exact ⟨d, by rw [a]; exact x, by rw [b]; exact y, by rw [c]; exact z⟩

end recv

example := remote_rows_nbr_defined (#[[(0, (1 : Rat))], [], [(0, 2), (1, 3)]] : Array (Row Rat)) #[9, 9, 9, 9]
  #[0, 0, 0, 0] (fun k => Array.replicate k 5) (fun k => Array.replicate k 0) (fun k => Array.replicate k 7)
  (fun k => Array.replicate k 0) rfl (fun k => by simp) (fun k => by simp) rfl (fun k => by simp) (fun k => by simp)

example := solver_base_local_defined (#[[(0, (1 : Rat))], [(1, 2)]] : Array (Row Rat)) #[[(7, 5)], []] 2
  #[9, 9, 9] #[8, 8, 8] #[7, 7, 7] rfl rfl (by decide +kernel) (by decide +kernel)

section vec
variable {α : Type}

/-- `mpi::relaxation::spai0`: `m = numa_vector(n, false); for i < n: m[i] = …` (local and remote part of row `i`) -/
theorem mpi_spai0_defined (n : Nat) (f : Nat → α) (junk junk' : Array α) (hj : junk.size = n) (hj' : junk'.size = n) :
    allWritten (fillVec n f (alloc junk)) = true ∧ fillVec n f (alloc junk) = fillVec n f (alloc junk') := by
  obtain ⟨a, _, c⟩ := C10c.fill_vec_defined n f junk junk' hj hj'
  exact ⟨a, c⟩

/-- `mpi::spectral_radius`, power iteration: `b0`, `b1` (`rowop` includes the exchanged values `b0_recv`) -/
theorem mpi_spectral_radius_defined (n iters : Nat) (hit : 0 < iters) (init : Nat → α) (scale0 : Nat → α → α)
    (rowop : Nat → Array α → α) (renorm : Array α → Nat → α) (d : α)
    (j0 j1 j0' j1' : Array α) (h0 : j0.size = n) (h1 : j1.size = n) (h0' : j0'.size = n) (h1' : j1'.size = n) :
    (powerCells n iters init scale0 rowop renorm (fun _ => false) d j0 j1).ok = true ∧
      allWritten (powerCells n iters init scale0 rowop renorm (fun _ => false) d j0 j1).b0 = true ∧
      allWritten (powerCells n iters init scale0 rowop renorm (fun _ => false) d j0 j1).b1 = true ∧
      powerCells n iters init scale0 rowop renorm (fun _ => false) d j0 j1
        = powerCells n iters init scale0 rowop renorm (fun _ => false) d j0' j1' :=
  C10d.spectral_radius_power_defined n iters hit init scale0 rowop renorm (fun _ => false) d j0 j1 j0' j1' h0 h1 h0' h1'

/-- `mpi::spectral_radius`: `rem_col = numa_vector(A_rem.nnz, false)`, stored segment by segment
`[A_rem.ptr[i], A_rem.ptr[i+1])` for every row — every cell, for every pointer array of a CRS matrix -/
theorem mpi_rem_col_defined (n : Nat) (ptr : Nat → Nat) (f : Nat → α) (h0 : ptr 0 = 0)
    (hm : ∀ i, i < n → ptr i ≤ ptr (i + 1)) (j j' : Array α) (hj : j.size = ptr n) (hj' : j'.size = ptr n) :
    allWritten (applyStores (segStores n ptr f) (alloc j)) = true ∧
      applyStores (segStores n ptr f) (alloc j) = applyStores (segStores n ptr f) (alloc j') :=
  applyStores_covered _ (ptr n) (seg_cover n ptr f h0 hm) _ _ (by rw [alloc_size, hj]) (by rw [alloc_size, hj'])

end vec

example : erase (applyStores (segStores 3 (fun i => #[0, 2, 2, 3].getD i 0) (fun j => 10 * j)) (alloc #[7, 7, 7]))
    = #[0, 10, 20] := by decide +kernel
example := mpi_spai0_defined 3 (fun i => 2 * i) #[7, 7, 7] #[1, 2, 3] rfl rfl
example := mpi_spectral_radius_defined (α := Nat) 3 2 (by decide) (fun i => i + 1) (fun _ x => 2 * x)
  (fun i b => b.getD i 0 + b.getD (i + 1) 0) (fun b i => b.getD i 0 + 1) 0 #[9, 9, 9] #[8, 8, 8] #[0, 0, 0] #[1, 1, 1]
  rfl rfl rfl rfl

end Amgcl.C10g
