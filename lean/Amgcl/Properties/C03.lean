import Amgcl.Proofs.AmgLast
import Amgcl.Properties.C08
import Amgcl.Properties.C08b
import Amgcl.Proofs.AmgSizes
/-!
# C03 — every coarse level is the (re-scaled) Galerkin product; rebuild keeps it so

Property theorems only.  The hierarchy model is `Amgcl/Model/Amg.lean` (mirror of amgcl/amg.hpp `do_init`,
`step_down`, `create_coarse`, `rebuild`); the coarsening strategy is a parameter `pol : Policy K`
(`transfer`, `coarseOp`), the relaxation a parameter `sm`, so every statement holds for **all** coarsenings,
relaxations, parameters and matrices; `galerkin` / `scaledGalerkin` are the concrete `coarse_operator`s.

* `galerkin_get`, `scaledGalerkin_get` — the coarse operator denotes `R·A·P` (times `s`), entry by entry
  (marker-based SpGEMM, i.e. ≤ 16 threads; the row-merge variant follows from `C08b.rmerge_get`).
* `build_chain`, `build_levels_galerkin` — adjacent levels of every constructed hierarchy are related by
  `A_{l+1} = sort_rows(coarse_operator(A_l, P_l, R_l))` with `(P_l, R_l)` the (sorted) transfer operators chosen on
  level `l`.
* `build_last_level` — the decision table: direct solver iff the last matrix has `≤ coarse_enough` rows and
  `direct_coarse` is set, smoother otherwise.
* `build_sizes_decrease` — strictly decreasing sizes whenever each coarsening step reduces the size.
* `rebuild_*` — transfer operators unchanged, every coarse matrix recomputed from the new matrix, the result is THE
  hierarchy for `A'` with those operators (`rebuild_eq_assemble`), rebuilding with the original matrix restores the
  original hierarchy (`rebuild_restores`), and any finite sequence of rebuilds equals the last one alone
  (`rebuild_sequence`).
* "R is the adjoint of P": each of `aggregation`, `smoothed_aggregation`, `ruge_stuben` returns
  `transpose(*P)`; with `C08.transpose_get` that is the statement.  It is a fact about the coarsening models (C04) and
  is checked on the implementation by the harness oracle `R == Pᵀ`.
-/
namespace Amgcl.C03
open Amgcl Amgcl.Amg Finset

section galerkin
variable {K : Type} [Semiring K]

/-- the Galerkin operator computed through two marker-based SpGEMMs denotes `R·A·P` -/
theorem galerkin_get (nt : Nat) (hnt : nt ≤ 16) (A P R : CRS K) (hA : A.WF) (hP : P.WF) (hR : R.WF)
    (hRA : R.ncols = A.nrows) (i j : Nat) (hi : i < R.nrows) :
    (galerkin nt A P R).get i j
      = ∑ k ∈ range R.ncols, R.get i k * (∑ l ∈ range A.ncols, A.get k l * P.get l j) := by
  unfold galerkin
  have hnt' : ¬ nt > 16 := by omega
  simp only [C08.product_dispatch, hnt', if_false]
  have hAP := C08.saad_wf A P hP false
  rw [C08.saad_get R (spgemmSaad A P false) hR hAP.2.2 false i j hi]
  apply sum_congr rfl
  intro k hk
  have hk' : k < A.nrows := by rw [← hRA]; exact mem_range.mp hk
  rw [C08.saad_get A P hA hP false k j hk']

/-- plain aggregation divides by the over-interpolation factor: `scaled_galerkin(A,P,R,s) = (R·A·P)·s` -/
theorem scaledGalerkin_get (nt : Nat) (hnt : nt ≤ 16) (s : K) (A P R : CRS K) (hA : A.WF) (hP : P.WF) (hR : R.WF)
    (hRA : R.ncols = A.nrows) (i j : Nat) (hi : i < R.nrows) :
    (scaledGalerkin nt s A P R).get i j
      = (∑ k ∈ range R.ncols, R.get i k * (∑ l ∈ range A.ncols, A.get k l * P.get l j)) * s := by
  unfold scaledGalerkin
  rw [C08.scale_get, galerkin_get nt hnt A P R hA hP hR hRA i j hi]

/-- the coarse operator has as many rows as `R` -/
theorem galerkin_nrows (nt : Nat) (hnt : nt ≤ 16) (A P R : CRS K) (hP : P.WF) :
    (galerkin nt A P R).nrows = R.nrows := by
  unfold galerkin
  have hnt' : ¬ nt > 16 := by omega
  simp only [C08.product_dispatch, hnt', if_false]
  exact (C08.saad_wf R (spgemmSaad A P false) (C08.saad_wf A P hP false).2.2 false).1

/-- the same for **every** thread count, i.e. for both SpGEMM algorithms (`product` switches to the row-merge
algorithm above 16 threads; `C08b.product_indep_threads`) -/
theorem galerkin_get_any (nt : Nat) (A P R : CRS K) (hA : A.WF) (hP : P.WF) (hR : R.WF)
    (hRA : R.ncols = A.nrows) (i j : Nat) (hi : i < R.nrows) :
    (galerkin nt A P R).get i j
      = ∑ k ∈ range R.ncols, R.get i k * (∑ l ∈ range A.ncols, A.get k l * P.get l j) := by
  have hAPwf : (product nt A P false).WF := by
    rw [C08.product_dispatch]; split
    · exact (C08b.rmerge_wf A P hP).2.2
    · exact (C08.saad_wf A P hP false).2.2
  unfold galerkin
  rw [C08b.product_indep_threads nt 1 R (product nt A P false) hR hAPwf false false i j]
  have h1 : ¬ (1 > 16) := by omega
  simp only [C08.product_dispatch, h1, if_false]
  rw [C08.saad_get R _ hR (by simpa [C08.product_dispatch] using hAPwf) false i j hi]
  apply sum_congr rfl
  intro k hk
  have hk' : k < A.nrows := by rw [← hRA]; exact mem_range.mp hk
  have h2 : (product nt A P false).get k j = (spgemmSaad A P false).get k j := by
    have := C08b.product_indep_threads nt 1 A P hA hP false false k j
    rw [this, C08.product_dispatch, if_neg h1]
  rw [C08.product_dispatch] at h2
  rw [h2, C08.saad_get A P hA hP false k j hk']

end galerkin

section hierarchy
variable {K S : Type} [Add K] [Mul K] [Zero K] [One K]

/-- every constructed hierarchy is a Galerkin chain starting at the (row-sorted) input matrix -/
theorem build_chain (prm : Params) (pol : Policy K) (sm : Relax.Smoother K S) (directOk : CRS K → Bool)
    (A : CRS K) (ls : List (Level K S)) (h : build prm pol sm directOk A = .ok ls) :
    Chain pol sm prm.allow_rebuild 0 (sortRows A) ls :=
  doInit_chain prm pol sm directOk (sortRows A) ls h

/-- **adjacent levels**: the next level's matrix is the row-sorted coarse operator of this level's matrix and
the (row-sorted) transfer operators that the coarsening returned for this level -/
theorem build_levels_galerkin (prm : Params) (pol : Policy K) (sm : Relax.Smoother K S) (directOk : CRS K → Bool)
    (A : CRS K) (ls : List (Level K S)) (h : build prm pol sm directOk A = .ok ls)
    (k : Nat) (lv lv' : Level K S) (h1 : ls[k]? = some lv) (h2 : ls[k + 1]? = some lv') :
    ∃ Ak P R P0 R0, lv.A = some Ak ∧ lv.P = some P ∧ lv.R = some R ∧
      pol.transfer k Ak = some (P0, R0) ∧ P = sortRows P0 ∧ R = sortRows R0 ∧
      levelMatrix lv' = some (sortRows (pol.coarseOp Ak P R)) := by
  have := (build_chain prm pol sm directOk A ls h).adjacent k lv lv' h1 h2
  simpa using this

/-- the first level stands for the input matrix itself (sorted) -/
theorem build_first_level (prm : Params) (pol : Policy K) (sm : Relax.Smoother K S) (directOk : CRS K → Bool)
    (A : CRS K) (ls : List (Level K S)) (h : build prm pol sm directOk A = .ok ls) :
    ∃ lv rest, ls = lv :: rest ∧ levelMatrix lv = some (sortRows A) :=
  let ⟨lv, rest, h1, h2, _⟩ := (build_chain prm pol sm directOk A ls h).head_matrix
  ⟨lv, rest, h1, h2⟩

/-- **last level**: handled by the direct solver iff it has at most `coarse_enough` unknowns and `direct_coarse`
is set; by the smoother otherwise -/
theorem build_last_level (prm : Params) (pol : Policy K) (sm : Relax.Smoother K S) (directOk : CRS K → Bool)
    (A : CRS K) (ls : List (Level K S)) (h : build prm pol sm directOk A = .ok ls) :
    ∃ last M, ls.getLast? = some last ∧ levelMatrix last = some M ∧
      (last.solve.isSome ↔ (M.nrows ≤ prm.coarse_enough ∧ prm.direct_coarse = true)) ∧
      (last.solve = none → last.relax.isSome) ∧ (last.solve.isSome → last.relax = none ∧ directOk M = true) :=
  doInit_last prm pol sm directOk (sortRows A) ls h

/-- **level sizes strictly decrease** for every coarsening whose steps reduce the number of unknowns (for plain and
smoothed aggregation that is `C04.count_lt_n`) -/
theorem build_sizes_decrease (prm : Params) (pol : Policy K) (sm : Relax.Smoother K S) (directOk : CRS K → Bool)
    (hpol : ∀ idx A P0 R0, pol.transfer idx A = some (P0, R0) → R0.nrows < A.nrows)
    (hop : ∀ A P R : CRS K, (pol.coarseOp A P R).nrows = R.nrows)
    (A : CRS K) (ls : List (Level K S)) (h : build prm pol sm directOk A = .ok ls) :
    (ls.map (·.rows)).Pairwise (· > ·) :=
  ((build_chain prm pol sm directOk A ls h).rows_decreasing hpol hop).1

/-- **rebuild keeps the transfer operators and re-establishes the Galerkin chain for the new matrix**.
`hop` (the number of rows of the coarse operator does not depend on the values of the fine matrix) holds for
`galerkin` / `scaledGalerkin` by `galerkin_nrows`. -/
theorem rebuild_chain (prm : Params) (pol : Policy K) (sm : Relax.Smoother K S) (directOk : CRS K → Bool)
    (hop : ∀ A A' P R : CRS K, A'.nrows = A.nrows →
      (sortRows (pol.coarseOp A' P R)).nrows = (sortRows (pol.coarseOp A P R)).nrows)
    (hallow : prm.allow_rebuild = true)
    (A A' : CRS K) (ls ls' : List (Level K S)) (hb : build prm pol sm directOk A = .ok ls)
    (hn : A'.nrows = A.nrows) (hr : rebuildLevels pol sm directOk ls (sortRows A') = .ok ls') :
    RChain pol.coarseOp sm true (sortRows A') ls' ∧ List.Forall₂ SameTransfer ls ls' := by
  have hc := build_chain prm pol sm directOk A ls hb
  rw [hallow] at hc
  have hrc := hc.toRChain
  simp only [beq_self_eq_true] at hrc
  exact rebuildLevels_rchain pol sm directOk hop hrc (sortRows A') ls'
    (by rw [sortRows_nrows, sortRows_nrows]; exact hn) hr

/-- **the rebuilt hierarchy is THE hierarchy assembled from `A'` with the retained transfer operators**: any
hierarchy that is a Galerkin chain for `A'` with the same transfer operators and the same kind of last level
(in particular a freshly constructed one) is equal to it — hence acts identically. -/
theorem rebuild_eq_assemble (pol : Policy K) (sm : Relax.Smoother K S) (A' : CRS K)
    (ls ls' fresh : List (Level K S))
    (hr : RChain pol.coarseOp sm true (sortRows A') ls') (hs : List.Forall₂ SameTransfer ls ls')
    (hf : RChain pol.coarseOp sm true (sortRows A') fresh) (hsf : List.Forall₂ SameTransfer ls fresh) :
    ls' = fresh := by
  exact hr.unique hf (sameTransfers_trans (sameTransfers_symm hs) hsf)

/-- **rebuilding with the original matrix restores the original hierarchy** (after any intermediate rebuild) -/
theorem rebuild_restores (prm : Params) (pol : Policy K) (sm : Relax.Smoother K S) (directOk : CRS K → Bool)
    (hop : ∀ A A' P R : CRS K, A'.nrows = A.nrows →
      (sortRows (pol.coarseOp A' P R)).nrows = (sortRows (pol.coarseOp A P R)).nrows)
    (hallow : prm.allow_rebuild = true)
    (A A' : CRS K) (ls ls' ls'' : List (Level K S)) (hb : build prm pol sm directOk A = .ok ls)
    (hn : A'.nrows = A.nrows) (hr : rebuildLevels pol sm directOk ls (sortRows A') = .ok ls')
    (hr2 : rebuildLevels pol sm directOk ls' (sortRows A) = .ok ls'') : ls'' = ls := by
  obtain ⟨c1, s1⟩ := rebuild_chain prm pol sm directOk hop hallow A A' ls ls' hb hn hr
  obtain ⟨c2, s2⟩ := rebuildLevels_rchain pol sm directOk hop c1 (sortRows A) ls''
    (by rw [sortRows_nrows, sortRows_nrows]; exact hn.symm) hr2
  have hc := build_chain prm pol sm directOk A ls hb
  rw [hallow] at hc
  have c0 := hc.toRChain
  simp only [beq_self_eq_true] at c0
  exact c2.unique c0 (sameTransfers_symm (sameTransfers_trans s1 s2))

/-- **any finite sequence of rebuilds equals the last rebuild alone**: after `rebuild(A₁); …; rebuild(Aₙ)` the
hierarchy is the one a single `rebuild(Aₙ)` of the original hierarchy gives -/
theorem rebuild_sequence (prm : Params) (pol : Policy K) (sm : Relax.Smoother K S) (directOk : CRS K → Bool)
    (hop : ∀ A A' P R : CRS K, A'.nrows = A.nrows →
      (sortRows (pol.coarseOp A' P R)).nrows = (sortRows (pol.coarseOp A P R)).nrows)
    (hallow : prm.allow_rebuild = true)
    (A : CRS K) (ls : List (Level K S)) (hb : build prm pol sm directOk A = .ok ls)
    (As : List (CRS K)) (hAs : ∀ A' ∈ As, A'.nrows = A.nrows) (Al : CRS K) (hl : As.getLast? = some Al)
    (lsN ls1 : List (Level K S)) (hmany : rebuildMany pol sm directOk ls As = .ok lsN)
    (hone : rebuildLevels pol sm directOk ls (sortRows Al) = .ok ls1) : lsN = ls1 := by
  have hc := build_chain prm pol sm directOk A ls hb
  rw [hallow] at hc
  have c0 := hc.toRChain
  simp only [beq_self_eq_true] at c0
  obtain ⟨C, hC, cN, sN⟩ := rebuildMany_rchain pol sm directOk hop A.nrows As (sortRows A) ls lsN
    (sortRows_nrows A) hAs c0 hmany
  have hAl : Al.nrows = A.nrows := hAs Al (List.mem_of_getLast? hl)
  obtain ⟨c1, s1⟩ := rebuildLevels_rchain pol sm directOk hop c0 (sortRows Al) ls1
    (by rw [sortRows_nrows, sortRows_nrows]; exact hAl) hone
  rcases hC with ⟨_, hnil⟩ | ⟨Al', hAl', hCAl⟩
  · subst hnil; simp at hl
  · rw [hl] at hAl'; cases hAl'
    subst hCAl
    exact cN.unique c1 (sameTransfers_trans (sameTransfers_symm sN) s1)

end hierarchy

section endToEnd
variable {K S : Type} [Semiring K] [LT K] [DecidableLT K]

/-- **End to end for plain aggregation** (C04's coarsening model plugged into the hierarchy model, `block_size = 1`,
any `eps_strong`, any over-interpolation factor, either SpGEMM algorithm): for every square well-formed matrix the
constructed hierarchy has strictly decreasing level sizes — hence at most `n` levels, which is also the termination
argument of `do_init` — and every level matrix is again square and well formed. -/
theorem aggregation_sizes_decrease (prm : Params) (norm : K → K) (aprm : AggrParams K) (hb : aprm.blockSize = 1)
    (hm : aprm.minAggregate ≤ 1) (nt : Nat) (s : K) (sm : Relax.Smoother K S) (directOk : CRS K → Bool)
    (A : CRS K) (hA : A.WF) (hsq : A.ncols = A.nrows) (ls : List (Level K S))
    (h : build prm (aggregationPolicy norm aprm nt s) sm directOk A = .ok ls) :
    (ls.map (·.rows)).Pairwise (· > ·) ∧ ∀ lv ∈ ls, lv.rows ≤ A.nrows := by
  have hc := build_chain prm (aggregationPolicy norm aprm nt s) sm directOk A ls h
  have := Chain.rows_decreasing_inv (fun M : CRS K => M.WF ∧ M.ncols = M.nrows)
    (fun idx M P0 R0 hM ht => aggregation_step norm aprm hb hm nt s idx M P0 R0 hM ht)
    (fun M P R => scaledGalerkin_nrows' nt s M P R)
    hc ⟨sortRows_wf' A hA, by rw [sortRows_ncols, sortRows_nrows]; exact hsq⟩
  rw [sortRows_nrows] at this
  exact this

end endToEnd

-- non-vacuity: a two-level hierarchy built by the model on a 3x3 chain with one aggregate pair
section example_
open Amgcl.Relax
def exSm : Smoother Int Unit :=
  { setup := fun _ => .ok (), applyPre := fun _ _ _ x t => (x, t), applyPost := fun _ _ _ x t => (x, t), apply := fun _ _ f => f }
def exP : CRS Int := ⟨2, #[[(0, 1)], [(0, 1)], [(1, 1)]]⟩
def exR : CRS Int := ⟨3, #[[(0, 1), (1, 1)], [(2, 1)]]⟩
def exA : CRS Int := ⟨3, #[[(0, 2), (1, -1)], [(0, -1), (1, 2), (2, -1)], [(1, -1), (2, 2)]]⟩
def exPol : Policy Int := { transfer := fun l _ => if l = 0 then some (exP, exR) else none, coarseOp := galerkin 1 }
def exPrm : Params := { coarse_enough := 2, direct_coarse := true, max_levels := 10, npre := 1, npost := 1, ncycle := 1, pre_cycles := 1, allow_rebuild := true }
example : (match build exPrm exPol exSm (fun _ => true) exA with
    | .ok ls => ls.map (fun lv => (lv.rows, lv.solve.map (·.rows)))
    | .error _ => []) = [(3, none), (2, some #[[(0, 2), (1, -1)], [(0, -1), (1, 2)]])] := by decide +kernel
end example_

end Amgcl.C03
