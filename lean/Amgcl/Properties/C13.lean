import Amgcl.Proofs.AdaptersBlock
import Amgcl.Proofs.AdaptersComplex
/-!
# C13 — block, complex and mixed-precision formulations solve the same system

Property theorems only (helper lemmas: `Amgcl/Proofs/Adapters{Unblock,BlockIter,BlockIter2,Block,Complex}.lean`; models:
`Amgcl/Model/Adapters.lean`).

* `unblock_block_id` / `block_unblock_id` : `adapter::block_matrix` (the row iterator that merges `b` scalar rows,
  block_matrix.hpp:73-161, modelled literally with its `b` cursors) and `adapter::unblock_matrix` are mutually inverse:
  on a row-sorted, block-aligned scalar matrix the block matrix has exactly the entries of the scalar matrix
  (structurally incomplete blocks are filled with zeros), and converting an unblocked matrix back reproduces the
  stored block matrix (columns, values, explicit zero blocks).  Sizes not divisible by `b` are rejected.
* `unblock_spmv` / `block_adapter_operator` : SpMV at the block value type on scalar vectors reinterpreted as block
  vectors (builtin.hpp:1323-1342, matrix_ops.hpp:134-156; also the hybrid backend, whose `copy_matrix` IS the block
  adapter) is entry by entry the scalar SpMV — "agree to summation-order rounding" is exact equality in a ring.
  This also serves the last clause of C07.
* `complex_realification_hom`, `complex_adapter_entries`, `complex_spmv` : `a+bi ↦ [[a,−b],[b,a]]` is an injective ring
  homomorphism, `adapter::complex_matrix` is its entrywise image, and `Â ẑ = (A z)^`, hence `A z = w ⇔ Â ẑ = ŵ`.
* `same_solution_block`, `same_solution_complex` : any exact solve of the adapted system is a solve of the original one.

The sorted-rows hypothesis of the block theorems is necessary: the gather loop has no lower bound on the column and
assigns instead of accumulating (see the `example`s at the end: an unsorted row and a duplicate column give a
different operator).  Every call site in the library sorts first (`as_scalar.hpp:70-71`, the level matrices of `amg`,
`make_block_solver` since f2b3b58).

NOT a theorem (IEEE rounding is not modelled): "a single-precision preconditioner under a double-precision solver
reaches 1e-8" — run as the labelled test `t_mixed` of `harness/h_adapters_solve.cpp`.  The `relaxation::as_block` /
`coarsening::as_scalar` wrappers are compositions of `block_matrix`, `unblock_matrix`, `sort_rows` and the wrapped
class; they are exercised by full solves in the same harness.
-/
namespace Amgcl.C13
open Amgcl Amgcl.Adapters Amgcl.K2

/-! ## block adapter and `unblock_matrix` -/
section block
variable {K : Type}

/-- **`unblock_block_id`**.  For a well-formed scalar matrix with strictly sorted rows whose dimensions are divisible
by `b`: the block adapter succeeds; the result has `nrows/b × ncols/b` blocks of `b × b` entries in strictly sorted,
in-range block columns; and unblocking it gives a matrix that has the shape and EVERY ENTRY of `A` (blocks that are
structurally incomplete in `A` are completed by explicit zeros). -/
theorem unblock_block_id [AddCommMonoid K] (b : Nat) (hb : 0 < b) (A : CRS K) (hA : A.WF) (hs : A.sortedb = true)
    (hr : A.nrows % b = 0) (hc : A.ncols % b = 0) :
    ∃ B, blockMatrix b A = .ok B ∧
      B.nrows = A.nrows / b ∧ B.ncols = A.ncols / b ∧ B.WF ∧ B.sortedb = true ∧
      (∀ I, ∀ o ∈ B.row I, o.2.size = b * b) ∧
      (unblock b B).nrows = A.nrows ∧ (unblock b B).ncols = A.ncols ∧
      ∀ i j, (unblock b B).get i j = A.get i j := by
  refine ⟨blockOf b A, blockMatrix_ok b A hr hc, blockOf_nrows b A, rfl, blockOf_wf b hb A hA hs hc,
    (blockOf_sorted b hb A hs).1, (blockOf_sorted b hb A hs).2, ?_, ?_, unblock_blockOf_get b hb A hs hr⟩
  · rw [unblock_nrows, blockOf_nrows, Nat.div_mul_cancel (Nat.dvd_of_mod_eq_zero hr)]
  · show A.ncols / b * b = A.ncols
    exact Nat.div_mul_cancel (Nat.dvd_of_mod_eq_zero hc)

/-- **`block_unblock_id`**.  For a block matrix with strictly sorted block rows of `b × b` blocks: the block adapter
applied to `unblock_matrix(B)` returns `B` itself — the same stored rows. -/
theorem block_unblock_id [AddCommMonoid K] (b : Nat) (hb : 0 < b) (B : CRS (Blk K)) (hs : B.sortedb = true)
    (hz : ∀ I, ∀ o ∈ B.row I, o.2.size = b * b) : blockMatrix b (unblock b B) = .ok B := by
  rw [blockMatrix_ok b (unblock b B) (by rw [unblock_nrows]; exact Nat.mul_mod_left _ _)
    (by rw [unblock_ncols]; exact Nat.mul_mod_left _ _), blockOf_unblock b hb B hs hz]

/-- the constructor's `precondition`: a dimension that is not a multiple of the block size is rejected -/
theorem block_adapter_precondition [Zero K] (b : Nat) (A : CRS K) (h : A.nrows % b ≠ 0 ∨ A.ncols % b ≠ 0) :
    blockMatrix b A = .precondition := by
  apply blockMatrix_precondition
  rintro ⟨h1, h2⟩
  rcases h with h | h
  · exact h h1
  · exact h h2

/-- **`unblock_spmv`**: for EVERY block matrix (any order, any block contents) the block SpMV on reinterpreted scalar
vectors equals the scalar SpMV with the unblocked matrix, for all coefficients (both `beta` branches). -/
theorem unblock_spmv [CommRing K] [DecidableEq K] (b : Nat) (α β : K) (B : CRS (Blk K)) (x y : Vec K) :
    blockSpmv b α B x β y = spmv α (unblock b B) x β y :=
  blockSpmv_eq_spmv_unblock b α β B x y

/-- **the block adapter (and the hybrid backend) represent the scalar operator**: same entries, same SpMV on
reinterpreted vectors -/
theorem block_adapter_operator [CommRing K] [DecidableEq K] (b : Nat) (hb : 0 < b) (A : CRS K) (hA : A.WF)
    (hs : A.sortedb = true) (hr : A.nrows % b = 0) (hc : A.ncols % b = 0) :
    ∃ B, blockMatrix b A = .ok B ∧ B.nrows = A.nrows / b ∧ B.ncols = A.ncols / b ∧
      (∀ i j, (unblock b B).get i j = A.get i j) ∧
      ∀ (α β : K) (x y : Vec K), blockSpmv b α B x β y = spmv α A x β y :=
  ⟨blockOf b A, blockMatrix_ok b A hr hc, blockOf_nrows b A, rfl, unblock_blockOf_get b hb A hs hr,
    fun α β x y => blockSpmv_blockOf b hb A hA hs hr hc α β x y⟩

/-- **`same_solution` (block)**: a vector solves the scalar system iff, reinterpreted as a block vector, it solves the
block system — whatever produced it (any exact solve through `make_block_solver`, `as_block`, `as_scalar`, hybrid). -/
theorem same_solution_block [CommRing K] [DecidableEq K] (b : Nat) (hb : 0 < b) (A : CRS K) (hA : A.WF)
    (hs : A.sortedb = true) (hr : A.nrows % b = 0) (hc : A.ncols % b = 0) (x f y y' : Vec K) :
    ∃ B, blockMatrix b A = .ok B ∧ (blockSpmv b 1 B x 0 y = f ↔ spmv 1 A x 0 y' = f) := by
  refine ⟨blockOf b A, blockMatrix_ok b A hr hc, ?_⟩
  rw [blockSpmv_blockOf b hb A hA hs hr hc]
  have : spmv (1 : K) A x 0 y = spmv 1 A x 0 y' := by simp [spmv]
  rw [this]

end block

/-! ## complex adapter -/
section complex
variable {K : Type} [CommRing K]

/-- **`complex_realification_hom`**: `φ(a+bi) = [[a, −b], [b, a]]` preserves `+`, `·`, `0`, `1`, `−` (the operations of
libstdc++'s generic `std::complex<T>` on the left, 2×2 matrix operations on the right) and is injective. -/
theorem complex_realification_hom :
    (∀ z w : Cx K, realify (z + w) = realify z + realify w) ∧
    (∀ z w : Cx K, realify (z * w) = realify z * realify w) ∧
    realify (1 : Cx K) = 1 ∧ realify (0 : Cx K) = 0 ∧
    (∀ z : Cx K, realify (-z) = -realify z) ∧
    Function.Injective (realify : Cx K → Matrix (Fin 2) (Fin 2) K) :=
  ⟨realify_add, realify_mul, realify_one, realify_zero, realify_neg, realify_injective⟩

/-- **the complex adapter is the entrywise image of `φ`**: it has `2n × 2m` entries, `4·nnz` non-zeros, and its 2×2
block at `(i, j)` is `φ(a_ij)` for the denoted complex entry (any row order, duplicates add) -/
theorem complex_adapter_entries (A : CRS (Cx K)) :
    (complexMatrix A).nrows = 2 * A.nrows ∧ (complexMatrix A).ncols = 2 * A.ncols ∧
    (∀ i, i < A.nrows → ∀ p : Fin 2, ((complexMatrix A).row (i * 2 + p.val)).length = 2 * (A.row i).length) ∧
    ∀ i j, i < A.nrows → ∀ p q : Fin 2,
      (complexMatrix A).get (i * 2 + p.val) (j * 2 + q.val) = realify (A.get i j) p q := by
  refine ⟨complexMatrix_nrows A, rfl, ?_, fun i j hi p q => complexMatrix_get A i j hi p q⟩
  intro i hi p
  have hrow : i * 2 + p.val < 2 * A.nrows := by have := p.isLt; omega
  have e1 : (i * 2 + p.val) / 2 = i := by have := p.isLt; omega
  rw [complexMatrix_row A _ hrow, e1]
  generalize A.row i = r
  induction r with
  | nil => rfl
  | cons cv t ih =>
    rw [complexRow_cons, List.length_append, ih]
    split <;> simp [Nat.mul_succ] <;> omega

variable [DecidableEq K]

/-- **`complex_spmv`**: the real-equivalent product of the real view of `z` is the real view of the complex product,
and therefore `A z = w ⇔ Â ẑ = ŵ`. -/
theorem complex_spmv (A : CRS (Cx K)) (z w y' : Vec (Cx K)) (y : Vec K) :
    spmv 1 (complexMatrix A) (complexRange z) 0 y = complexRange (spmv 1 A z 0 y') ∧
    (spmv 1 A z 0 y' = w ↔ spmv 1 (complexMatrix A) (complexRange z) 0 y = complexRange w) := by
  refine ⟨spmv_complexMatrix A z y y', ?_⟩
  rw [spmv_complexMatrix A z y y']
  exact ⟨fun h => by rw [h], fun h => complexRange_injective h⟩

/-- **`same_solution` (complex)**: whatever real vector `x̂` of even length an exact solve of the real-equivalent
system `Â x̂ = ŵ` returns, read as complex numbers it solves `A z = w`. -/
theorem same_solution_complex (A : CRS (Cx K)) (xh y : Vec K) (w y' : Vec (Cx K)) (hx : xh.size % 2 = 0)
    (hsol : spmv 1 (complexMatrix A) xh 0 y = complexRange w) :
    spmv 1 A (complexOfRange xh) 0 y' = w := by
  rw [← complexRange_complexOfRange xh hx] at hsol
  exact ((complex_spmv A (complexOfRange xh) w y' y).2).2 hsol

end complex

-- non-vacuity ---------------------------------------------------------------------------------------------------
-- a 4 x 4 matrix with b = 2: block (0,0) complete, block (0,1) structurally incomplete, block row 1 has one entry
example : (⟨4, #[[(0, (1 : Int)), (1, 2), (3, 5)], [(0, 3), (1, 4)], [], [(2, 7)]]⟩ : CRS Int).WF ∧
    (⟨4, #[[(0, (1 : Int)), (1, 2), (3, 5)], [(0, 3), (1, 4)], [], [(2, 7)]]⟩ : CRS Int).sortedb = true := by decide
example : (blockOf 2 (⟨4, #[[(0, (1 : Int)), (1, 2), (3, 5)], [(0, 3), (1, 4)], [], [(2, 7)]]⟩ : CRS Int)).rows
    = #[[(0, #[1, 2, 3, 4]), (1, #[0, 5, 0, 0])], [(1, #[0, 0, 7, 0])]] := by decide +kernel
example : (unblock 2 (⟨2, #[[(0, #[(1 : Int), 2, 3, 4]), (1, #[0, 5, 0, 0])], [(1, #[0, 0, 7, 0])]]⟩ : CRS (Blk Int))).rows
    = #[[(0, 1), (1, 2), (2, 0), (3, 5)], [(0, 3), (1, 4), (2, 0), (3, 0)], [(2, 0), (3, 0)], [(2, 7), (3, 0)]] := by
  decide +kernel
-- the sorted-rows hypothesis is necessary: an unsorted row / a duplicate column change the operator
example : (unblock 2 (blockOf 2 (⟨4, #[[(2, (5 : Int)), (0, 1)], [(1, 7), (3, 9)]]⟩ : CRS Int))).get 0 2 = 1 ∧
    (⟨4, #[[(2, (5 : Int)), (0, 1)], [(1, 7), (3, 9)]]⟩ : CRS Int).get 0 2 = 5 := by decide +kernel
example : (unblock 2 (blockOf 2 (⟨2, #[[(0, (1 : Int)), (0, 3)], [(1, 1)]]⟩ : CRS Int))).get 0 0 = 3 ∧
    (⟨2, #[[(0, (1 : Int)), (0, 3)], [(1, 1)]]⟩ : CRS Int).get 0 0 = 4 := by decide +kernel
-- the realification of i·i = −1
example : realify ((⟨0, 1⟩ : Cx Int) * ⟨0, 1⟩) = -1 := by
  rw [realify_mul]; unfold realify; ext i j; fin_cases i <;> fin_cases j <;> simp [Matrix.mul_apply, Fin.sum_univ_two]
-- a complex 1 x 1 system and its real-equivalent form
example : (complexMatrix (⟨1, #[[(0, (⟨2, 3⟩ : Cx Int))]]⟩ : CRS (Cx Int))).rows = #[[(0, 2), (1, -3)], [(0, 3), (1, 2)]] := by
  decide +kernel

end Amgcl.C13
