import Amgcl.Proofs.SolverCG
import Amgcl.Proofs.SolverBiCGStab
import Amgcl.Proofs.SolverRichardson
import Amgcl.Model.SolverPreonly
import Amgcl.Proofs.SolverGMRESExact
import Amgcl.Proofs.SolverGMRESArnoldi
import Mathlib.Algebra.Order.Field.Rat
/-!
# C05 — each Krylov method produces its defining iterates  (CG, BiCGStab, Richardson, preonly)

The Lean models of `Amgcl/Model/Solver*.lean`, run with `maxiter = k`, ARE the independent reference the property
asks for: they are the textbook recurrences over abstract vectors, and the exact-rational correspondence
(`harness/h_solvers.cpp`) compares the `k`-th iterate of the real templates with them for every `k ≤ 6`, both
preconditioning sides, non-zero initial guesses, symmetric and non-symmetric systems.

Proved here, for every field `K`:

* `richardson_closed_form`     the returned `x` is the `it`-fold iterate of `x ↦ x + ω·P(f − A x)` from `x₀`, and the
                               loop stops only when converged or out of budget (`richardson_stops_only_when_done`);
* `cg_exact_precond`           with an exact preconditioner (`A·(P v) = v`) CG makes exactly one pass (`α = 1`) and
                               returns the exact solution (`f − A x = 0`, reported residual `0`);
* `richardson_exact_precond`   the same for Richardson with `damping = 1`;
* `bicgstab_exact_precond_right` the same for right-preconditioned BiCGStab (exit after the half step, `s = 0`);
* `preonly_spec`               preonly returns `P f`.

NOT proved (kept as doc-comments; decided only by exact agreement of every iterate with the model and by the
exact certificates evaluated by the harness on explored inputs):

* `cg_minimises_Anorm` — for SPD `A`, SPD `P`, no breakdown: `x_k` minimises `‖x − A⁻¹f‖_A` over
  `x₀ + K_k(PA, P r₀)`, i.e. `r_k ⟂ K_k` and `x_k − x₀ ∈ K_k` (the harness checks exactly these two conditions in
  rational arithmetic for every CG case on an SPD pair: tag `cg_optimality_cert`), `cg_conjugacy`, termination
  within `n` passes;
* (`bicgstab_exact_precond` for LEFT preconditioning, which needs `P·(A v) = v` as well, is proved in
  `Properties/C05c.lean`: `bicgstab_exact_precond_left`, `bicgstab_exact_precond`;)
* GMRES / FGMRES / LGMRES / IDR(s) / BiCGStab(L): second work package.
-/
namespace Amgcl.C05
open Amgcl Amgcl.Solver
set_option linter.unusedSectionVars false

variable {K : Type} [Field K] [DecidableEq K] [LT K] [DecidableLT K]

/-- **Richardson returns `x + ω P(f − A x)` repeated `it` times.**  `Richardson.step ω A P f x` is
`axpby(ω, P(residual(f, A, x)), 1, x)`, entrywise `x_j + ω·(P(f − A x))_j` (`richardson_step_entry`). -/
theorem richardson_closed_form (prm : Richardson.Params K) (ip : Vec K → Vec K → K) (sqrt : K → K) (eps : K)
    (A : CRS K) (P : Vec K → Vec K) (ws : Richardson.Work K) (f x0 : Vec K) (nf : K)
    (hp : prologue prm.nsSearch ip sqrt eps f = .go nf)
    (it : Nat) (res : K) (x : Vec K) (w : Richardson.Work K)
    (h : Richardson.solve prm ip sqrt eps A P ws f x0 = .ok (it, res, x, w)) :
    x = (Richardson.step prm.damping A P f)^[it] x0 := by
  rw [Richardson.solve, Run.toExcept_ok, Richardson.run_go _ _ _ _ _ _ _ _ _ nf hp] at h
  simp only [Prod.mk.injEq, Except.ok.injEq] at h
  obtain ⟨⟨h1, _⟩, h3, _⟩ := h
  obtain ⟨_, _, i3⟩ := Richardson.final_inv prm ip sqrt A P ws f x0 nf
  rw [← h3, ← h1]; exact i3

/-- the step map, entry by entry: `(step x)_j = x_j + ω·(P(f − A x))_j` -/
theorem richardson_step_entry (ω : K) (A : CRS K) (P : Vec K → Vec K) (f x : Vec K) (j : Nat)
    (hj : j < (P (residual f A x)).size) :
    (Richardson.step ω A P f x).getD j 0 = x.getD j 0 + ω * (P (residual f A x)).getD j 0 := by
  unfold Richardson.step
  rw [axpby_getD _ _ _ _ _ hj]; ring

/-- with `maxiter = k` Richardson returns the `k`-th iterate unless it converged earlier: the loop ends only
out of budget or with `|res_norm| ≤ eps` -/
theorem richardson_stops_only_when_done (prm : Richardson.Params K) (ip : Vec K → Vec K → K) (sqrt : K → K)
    (eps : K) (A : CRS K) (P : Vec K → Vec K) (ws : Richardson.Work K) (f x0 : Vec K) (nf : K)
    (hp : prologue prm.nsSearch ip sqrt eps f = .go nf)
    (it : Nat) (res : K) (x : Vec K) (w : Richardson.Work K)
    (h : Richardson.solve prm ip sqrt eps A P ws f x0 = .ok (it, res, x, w)) :
    it = prm.maxiter ∨ ¬ Richardson.epsTol prm nf < absK (nrm ip sqrt (residual f A x)) := by
  rw [Richardson.solve, Run.toExcept_ok, Richardson.run_go _ _ _ _ _ _ _ _ _ nf hp] at h
  simp only [Prod.mk.injEq, Except.ok.injEq] at h
  obtain ⟨⟨h1, _⟩, h3, _⟩ := h
  obtain ⟨i1, i2, _⟩ := Richardson.final_inv prm ip sqrt A P ws f x0 nf
  rw [← h1, ← h3, ← i1, ← i2]
  exact (Richardson.final_exit prm ip sqrt A P ws f x0 nf).2

/-- **CG with an exact preconditioner** (`A·(P v) = v` for every `v` of length `nrows`; any `P` with that
property, linear or not): if the initial guess is not already converged, `maxiter ≥ 1`, `⟨r₀, P r₀⟩ ≠ 0` (true for
SPD systems), the zero vector has norm `0` and `eps ≥ 0`, then CG makes exactly ONE pass, reports residual `0` and
the returned `x` solves the system exactly: `f − A x = 0`. -/
theorem cg_exact_precond (prm : CG.Params K) (ip : Vec K → Vec K → K) (sqrt : K → K) (eps : K) (A : CRS K)
    (hA : A.WF) (P : Vec K → Vec K) (hP : ∀ v, (P v).size = A.ncols)
    (hAP : ∀ v z, v.size = A.nrows → spmv 1 A (P v) 0 z = v)
    (ws : CG.Work K) (f x0 : Vec K) (nf : K) (hp : prologue prm.nsSearch ip sqrt eps f = .go nf)
    (hne : ip (residual f A x0) (P (residual f A x0)) ≠ 0) (hmax : 1 ≤ prm.maxiter)
    (hstart : CG.epsTol prm nf < absK (nrm ip sqrt (residual f A x0)))
    (hz : nrm ip sqrt (vclear A.nrows) = 0) (heps : ¬ CG.epsTol prm nf < 0) :
    ∃ x w, CG.solve prm ip sqrt eps A P ws f x0 = .ok (1, 0, x, w) ∧ residual f A x = vclear A.nrows := by
  have hfin := CG.exact_final prm ip sqrt A P hAP ws f x0 nf hne hmax hstart hz heps
  have hr := CG.exact_first_pass ip sqrt A P hAP ws f x0 (CG.epsTol prm nf) hne
  have hinv := CG.final_inv prm ip sqrt A hA P hP ws f x0 nf
  refine ⟨(CG.final prm ip sqrt A P ws f x0 nf).x, (CG.final prm ip sqrt A P ws f x0 nf).w, ?_, ?_⟩
  · rw [CG.solve, Run.toExcept_ok, CG.run_go _ _ _ _ _ _ _ _ _ nf hp]
    have hres : (CG.final prm ip sqrt A P ws f x0 nf).res = 0 := by rw [hinv.2, hfin, hr, hz]
    have hit : (CG.final prm ip sqrt A P ws f x0 nf).iter = 1 := by rw [hfin]; rfl
    rw [hres, hit, zero_div]
  · rw [← hinv.1, hfin, hr]

/-- **Richardson with an exact preconditioner and `damping = 1`** makes exactly one pass and returns the exact
solution. -/
theorem richardson_exact_precond (prm : Richardson.Params K) (ip : Vec K → Vec K → K) (sqrt : K → K) (eps : K)
    (A : CRS K) (hA : A.WF) (P : Vec K → Vec K) (hP : ∀ v, (P v).size = A.ncols)
    (hAP : ∀ v z, v.size = A.nrows → spmv 1 A (P v) 0 z = v)
    (ws : Richardson.Work K) (f x0 : Vec K) (nf : K) (hp : prologue prm.nsSearch ip sqrt eps f = .go nf)
    (hω : prm.damping = 1) (hmax : 1 ≤ prm.maxiter)
    (hstart : Richardson.epsTol prm nf < absK (nrm ip sqrt (residual f A x0)))
    (hz : nrm ip sqrt (vclear A.nrows) = 0) (heps : ¬ Richardson.epsTol prm nf < 0) :
    ∃ x w, Richardson.solve prm ip sqrt eps A P ws f x0 = .ok (1, 0, x, w) ∧
      residual f A x = vclear A.nrows := by
  have hfin := Richardson.exact_final prm ip sqrt A hA P hP hAP ws f x0 nf hω hmax hstart hz heps
  have hr := Richardson.exact_first_pass ip sqrt A hA P hP hAP ws f x0
  have hinv := Richardson.final_inv prm ip sqrt A P ws f x0 nf
  refine ⟨(Richardson.final prm ip sqrt A P ws f x0 nf).x, (Richardson.final prm ip sqrt A P ws f x0 nf).w,
    ?_, ?_⟩
  · rw [Richardson.solve, Run.toExcept_ok, Richardson.run_go _ _ _ _ _ _ _ _ _ nf hp]
    have hres : (Richardson.final prm ip sqrt A P ws f x0 nf).res = 0 := by rw [hinv.2.1, hfin, hr, hz]
    have hit : (Richardson.final prm ip sqrt A P ws f x0 nf).iter = 1 := by rw [hfin]; rfl
    rw [hres, hit, zero_div]
  · rw [← hinv.1, hfin, hr]

/-- **BiCGStab (right preconditioning, no `check_after`) with an exact preconditioner** makes exactly one pass
(`α = 1`, exit after the half step because `s = 0`), reports residual `0` and returns the exact solution.
(Left preconditioning needs `P·(A v) = v` in addition: `C05c.bicgstab_exact_precond_left`.) -/
theorem bicgstab_exact_precond_right (prm : BiCGStab.Params K) (hside : prm.pside = .right)
    (hca : prm.checkAfter = false) (ip : Vec K → Vec K → K) (sqrt : K → K) (eps : K) (A : CRS K)
    (hA : A.WF) (P : Vec K → Vec K) (hP : ∀ v, (P v).size = A.ncols)
    (hAP : ∀ v z, v.size = A.nrows → spmv 1 A (P v) 0 z = v)
    (ws : BiCGStab.Work K) (f x0 : Vec K) (nf : K) (hp : prologue prm.nsSearch ip sqrt eps f = .go nf)
    (hne : ip (residual f A x0) (residual f A x0) ≠ 0) (hmax : 1 ≤ prm.maxiter)
    (hstart : BiCGStab.epsTol prm nf < nrm ip sqrt (residual f A x0))
    (hz : nrm ip sqrt (vclear A.nrows) = 0) (heps : ¬ BiCGStab.epsTol prm nf < 0) :
    ∃ x w, BiCGStab.solve prm ip sqrt eps A P ws f x0 = .ok (1, 0, x, w) ∧
      residual f A x = vclear A.nrows := by
  obtain ⟨st, hfin, h1, h2, h4⟩ :=
    BiCGStab.exact_final prm hside hca ip sqrt A P hAP ws f x0 nf hne hmax hstart hz heps
  refine ⟨st.x, st.w, ?_, ?_⟩
  · rw [BiCGStab.solve, Run.toExcept_ok, BiCGStab.run_go _ _ _ _ _ _ _ _ _ nf hp, hfin]
    simp only [BiCGStab.repRes_of_not_ca prm ip sqrt st hca, h1, h2, zero_div]
  · rw [h4, ← paired_update_inv f A hA 1 (P (residual f A x0)) x0 x0 (by rw [hP]),
      hAP _ _ (residual_size' f A x0), axpby_cancel, residual_size']

/-- preonly returns `P f` (one preconditioner application, the initial guess is ignored) -/
theorem preonly_spec (ip : Vec K → Vec K → K) (sqrt : K → K) (eps : K) (A : CRS K) (P : Vec K → Vec K)
    (f x0 : Vec K) : (Preonly.run ip sqrt eps A P () f x0).obs = (.ok (0, 0), P f) := rfl

/-! ### non-vacuity over `ℚ`: an exact matrix preconditioner `M = A⁻¹` of a non-symmetric 2×2 system -/
section nonvacuous

private def A₀ : CRS ℚ := ⟨2, #[[(0, 2), (1, 1)], [(0, 1), (1, 1)]]⟩
private def M₀ : CRS ℚ := ⟨2, #[[(0, 1), (1, -1)], [(0, -1), (1, 2)]]⟩    -- = A₀⁻¹
private def P₀ : Vec ℚ → Vec ℚ := fun v => spmv 1 M₀ v 0 #[]
private def cgPrm : CG.Params ℚ := { maxiter := 5, tol := 1/100, abstol := 0, nsSearch := false }

/-- all hypotheses of `cg_exact_precond` hold for this input (with `sqrt := id`, `ip := stdIp`, `eps := 0`);
`hAP` by linear algebra on the two entries -/
example : ∃ x w, CG.solve cgPrm stdIp id 0 A₀ P₀ (CG.Work.fresh 2) #[1, 3] #[1, 0] = .ok (1, 0, x, w) ∧
    residual #[1, 3] A₀ x = vclear A₀.nrows := by
  have h : (match CG.solve cgPrm stdIp id 0 A₀ P₀ (CG.Work.fresh 2) #[1, 3] #[1, 0] with
      | .ok (it, res, x, _) => decide (it = 1 ∧ res = 0 ∧ residual #[1, 3] A₀ x = vclear A₀.nrows)
      | _ => false) = true := by decide +kernel
  split at h
  · rename_i it res x w heq
    obtain ⟨h1, h2, h3⟩ := of_decide_eq_true h
    subst h1 h2
    exact ⟨x, w, heq, h3⟩
  · cases h

example : ∀ v z : Vec ℚ, v.size = A₀.nrows → spmv 1 A₀ (P₀ v) 0 z = v := by
  intro v z hv
  have h2 : v.size = 2 := hv
  apply Vec.ext_getD (0 : ℚ)
  · rw [spmv_size']; exact hv.symm
  · intro i hi
    rw [spmv_size'] at hi
    have hi2 : i < 2 := hi
    have e0 : (P₀ v).getD 0 0 = v.getD 0 0 - v.getD 1 0 := by
      unfold P₀; rw [spmv_getD _ _ _ _ _ _ (by decide : 0 < M₀.nrows)]
      simp [M₀, CRS.row, rowDot]; ring
    have e1 : (P₀ v).getD 1 0 = - v.getD 0 0 + 2 * v.getD 1 0 := by
      unfold P₀; rw [spmv_getD _ _ _ _ _ _ (by decide : 1 < M₀.nrows)]
      simp [M₀, CRS.row, rowDot]
    rw [spmv_getD _ _ _ _ _ _ hi]
    simp only [Array.getD_eq_getD_getElem?] at e0 e1
    match i, hi2 with
    | 0, _ => simp [A₀, CRS.row, rowDot, e0, e1]; ring
    | 1, _ => simp [A₀, CRS.row, rowDot, e0, e1]; ring

end nonvacuous

/-! ## Second package: GMRES / FGMRES with an exact preconditioner

With `A·(P v) = v` restarted GMRES (right preconditioning) and FGMRES make exactly ONE iteration, report residual `0`
and return the exact solution — assuming the square root is exact on the single number `⟨r₀,r₀⟩` it is applied to
(`hroot`; this is the instance of `hsqrt : ∀ x ≥ 0, sqrt x * sqrt x = x` that is needed, true at `ℝ` with
`Real.sqrt`; with the rational `rsqrt` of the executable instances it holds when `⟨r₀,r₀⟩` is a perfect square, the
harness' tag `exact_root`), the inner product is homogeneous (`hip`; `stdIp_smul`: the backend's inner product is),
`‖0‖ = 0`, and `0 < eps` (with `eps = 0` the code keeps iterating on the zero residual until `maxiter`).
Left-preconditioned GMRES needs `P·(A v) = v` and a linear `P` in addition and is covered by the harness oracle
only (tag `exact_prec_one_step`). -/
section second
variable {K : Type} [Field K] [DecidableEq K] [LT K] [DecidableLT K]

theorem gmres_exact_precond (prm : GMRES.Params K) (hside : prm.pside = .right) (ip : Vec K → Vec K → K)
    (sqrt : K → K) (eps : K) (A : CRS K) (hA : A.WF) (P : Vec K → Vec K) (hP : ∀ v, (P v).size = A.ncols)
    (hAP : ∀ v z, v.size = A.nrows → spmv 1 A (P v) 0 z = v)
    (ws : GMRES.Work K) (f x0 : Vec K) (nf : K) (hp : prologueA prm.nsSearch ip sqrt eps f = .go nf)
    (hip : ∀ (a : K) (u z z' : Vec K), ip (axpby a u 0 z) (axpby a u 0 z') = a * a * ip u u)
    (hroot : sqrt (ip (residual f A x0) (residual f A x0)) * sqrt (ip (residual f A x0) (residual f A x0))
      = ip (residual f A x0) (residual f A x0))
    (hne : ip (residual f A x0) (residual f A x0) ≠ 0) (hmax : 1 ≤ prm.maxiter)
    (hstart : ¬ nrmA ip sqrt (residual f A x0) < GMRES.epsTol prm nf)
    (hz : nrmA ip sqrt (vclear A.nrows) = 0) (heps0 : ¬ GMRES.epsTol prm nf < 0) (heps : 0 < GMRES.epsTol prm nf) :
    ∃ x w, GMRES.solve prm ip sqrt eps A P ws f x0 = .ok (1, 0, x, w) ∧ residual f A x = vclear A.nrows := by
  have hy : GMRES.ExactHyp ip sqrt A P (residual f A x0) (GMRES.epsTol prm nf) :=
    ⟨hA, hP, hAP, hip, hroot, hne, hz, hstart, heps0, heps⟩
  obtain ⟨h1, h2, h3⟩ := GMRES.exact_final prm hside ip sqrt A P ws f x0 nf hmax hy
  refine ⟨(GMRES.final prm ip sqrt A P ws f x0 nf).x, (GMRES.final prm ip sqrt A P ws f x0 nf).w, ?_, ?_⟩
  · rw [GMRES.solve, Run.toExcept_ok, GMRES.run_go _ _ _ _ _ _ _ _ _ nf hp, h1, h2, zero_div]
  · rw [h3]; exact residual_after_exact A hA P hP hAP f x0

theorem fgmres_exact_precond (prm : FGMRES.Params K) (ip : Vec K → Vec K → K)
    (sqrt : K → K) (eps : K) (A : CRS K) (hA : A.WF) (P : Vec K → Vec K) (hP : ∀ v, (P v).size = A.ncols)
    (hAP : ∀ v z, v.size = A.nrows → spmv 1 A (P v) 0 z = v)
    (ws : FGMRES.Work K) (f x0 : Vec K) (nf : K) (hp : prologueA prm.nsSearch ip sqrt eps f = .go nf)
    (hip : ∀ (a : K) (u z z' : Vec K), ip (axpby a u 0 z) (axpby a u 0 z') = a * a * ip u u)
    (hroot : sqrt (ip (residual f A x0) (residual f A x0)) * sqrt (ip (residual f A x0) (residual f A x0))
      = ip (residual f A x0) (residual f A x0))
    (hne : ip (residual f A x0) (residual f A x0) ≠ 0) (hmax : 1 ≤ prm.maxiter)
    (hstart : ¬ nrmA ip sqrt (residual f A x0) < FGMRES.epsTol prm nf)
    (hz : nrmA ip sqrt (vclear A.nrows) = 0) (heps0 : ¬ FGMRES.epsTol prm nf < 0)
    (heps : 0 < FGMRES.epsTol prm nf) :
    ∃ x w, FGMRES.solve prm ip sqrt eps A P ws f x0 = .ok (1, 0, x, w) ∧ residual f A x = vclear A.nrows := by
  have hy : FGMRES.ExactHyp ip sqrt A P (residual f A x0) (FGMRES.epsTol prm nf) :=
    ⟨hA, hP, hAP, hip, hroot, hne, hz, hstart, heps0, heps⟩
  obtain ⟨h1, h2, h3⟩ := FGMRES.exact_final prm ip sqrt A P ws f x0 nf hmax hy
  refine ⟨(FGMRES.final prm ip sqrt A P ws f x0 nf).x, (FGMRES.final prm ip sqrt A P ws f x0 nf).w, ?_, h3⟩
  rw [FGMRES.solve, Run.toExcept_ok, FGMRES.run_go _ _ _ _ _ _ _ _ _ nf hp, h1, h2, zero_div]

/-- the homogeneity hypothesis `hip` holds for the backend's inner product -/
theorem std_inner_product_homogeneous (a : K) (u z z' : Vec K) :
    stdIp (axpby a u 0 z) (axpby a u 0 z') = a * a * stdIp u u := stdIp_smul a u z z'

end second

/-! ### non-vacuity (second package): the exact matrix preconditioner `M₀ = A₀⁻¹`, `f = (3, 4)`, `x₀ = 0`, so that
`⟨r₀,r₀⟩ = 25`, with a `sqrt` that is exact on the two numbers it meets (`25 ↦ 5`, `0 ↦ 0`) -/
section nonvacuous2

private def sqrt₀ : ℚ → ℚ := fun x => if x = 25 then 5 else 0
private def gmPrm : GMRES.Params ℚ :=
  { maxiter := 5, tol := 1/100, abstol := 0, nsSearch := false, M := 3, pside := .right }
private def fgPrm : FGMRES.Params ℚ := { maxiter := 5, tol := 1/100, abstol := 0, nsSearch := false, M := 3 }

example : sqrt₀ (stdIp (residual #[3, 4] A₀ #[0, 0]) (residual #[3, 4] A₀ #[0, 0]))
    * sqrt₀ (stdIp (residual #[3, 4] A₀ #[0, 0]) (residual #[3, 4] A₀ #[0, 0]))
    = stdIp (residual #[3, 4] A₀ #[0, 0]) (residual #[3, 4] A₀ #[0, 0]) := by decide +kernel
example : nrmA stdIp sqrt₀ (vclear A₀.nrows) = 0 := by decide +kernel
example : prologueA gmPrm.nsSearch stdIp sqrt₀ 0 #[3, 4] = .go 5 :=
  (prologueA_go _ _ _ _ _ _).mpr (Or.inr (by decide +kernel))
example : 0 < GMRES.epsTol gmPrm 5 ∧ ¬ nrmA stdIp sqrt₀ (residual #[3, 4] A₀ #[0, 0]) < GMRES.epsTol gmPrm 5 := by
  decide +kernel

example : ∃ x w, GMRES.solve gmPrm stdIp sqrt₀ 0 A₀ P₀ (GMRES.Work.fresh 2) #[3, 4] #[0, 0] = .ok (1, 0, x, w) ∧
    residual #[3, 4] A₀ x = vclear A₀.nrows := by
  have h : (match GMRES.solve gmPrm stdIp sqrt₀ 0 A₀ P₀ (GMRES.Work.fresh 2) #[3, 4] #[0, 0] with
      | .ok (it, res, x, _) => decide (it = 1 ∧ res = 0 ∧ residual #[3, 4] A₀ x = vclear A₀.nrows)
      | _ => false) = true := by decide +kernel
  split at h
  · rename_i it res x w heq
    obtain ⟨h1, h2, h3⟩ := of_decide_eq_true h
    subst h1 h2
    exact ⟨x, w, heq, h3⟩
  · cases h

example : ∃ x w, FGMRES.solve fgPrm stdIp sqrt₀ 0 A₀ P₀ (FGMRES.Work.fresh 2) #[3, 4] #[0, 0] = .ok (1, 0, x, w) ∧
    residual #[3, 4] A₀ x = vclear A₀.nrows := by
  have h : (match FGMRES.solve fgPrm stdIp sqrt₀ 0 A₀ P₀ (FGMRES.Work.fresh 2) #[3, 4] #[0, 0] with
      | .ok (it, res, x, _) => decide (it = 1 ∧ res = 0 ∧ residual #[3, 4] A₀ x = vclear A₀.nrows)
      | _ => false) = true := by decide +kernel
  split at h
  · rename_i it res x w heq
    obtain ⟨h1, h2, h3⟩ := of_decide_eq_true h
    subst h1 h2
    exact ⟨x, w, heq, h3⟩
  · cases h

end nonvacuous2

/-! ## The Arnoldi process of GMRES as coded (modified Gram–Schmidt, `gmres.hpp:208-225`)

`IpOK ip n`: the inner product is symmetric and linear in its first argument on vectors of length `n` (in the form the
code applies it, through `axpby`); the backend's inner product has these properties in every field (`stdIp_ipOK`).
`Orthonormal ip n v j`: `v[0..j]` have length `n` and `⟨v_a, v_b⟩ = δ_ab`. -/
section arnoldi
variable {K : Type} [Field K] [DecidableEq K] [LT K] [DecidableLT K]

/-- **one Arnoldi step**: after `orth` (Gram–Schmidt against `v[0..j]`, `H(j+1,j) = ‖w‖`, `v_new = w/‖w‖`) the new
vector is orthogonal to all previous ones — for ANY function `sqrt`, breakdown or not —, has unit length when the
root is exact on `⟨w,w⟩` and `H(j+1,j) ≠ 0`, and the input vector is reproduced by column `j` of `H`:
`v_in = Σ_{k ≤ j} H(k,j)·v_k + H(j+1,j)·v_new` (entrywise; no root hypothesis). -/
theorem gmres_arnoldi_step (ip : Vec K → Vec K → K) (sqrt : K → K) (n : Nat) (hip : IpOK ip n) (v : FArr (Vec K))
    (j : Nat) (H : FArr2 K) (vnew : Vec K) (hv : Orthonormal ip n v j) (hn : vnew.size = n) :
    (∀ i, i ≤ j → ip (orth ip sqrt v j H vnew).2 (v.get i) = 0) ∧
    ((orth ip sqrt v j H vnew).1.get (j + 1) j ≠ 0 →
      (sqrt (ip (mgs ip v j H vnew).2 (mgs ip v j H vnew).2) * sqrt (ip (mgs ip v j H vnew).2 (mgs ip v j H vnew).2)
          = ip (mgs ip v j H vnew).2 (mgs ip v j H vnew).2 →
        ip (orth ip sqrt v j H vnew).2 (orth ip sqrt v j H vnew).2 = 1) ∧
      ∀ t, t < n → vnew.getD t 0
        = (∑ k ∈ Finset.range (j + 1), (orth ip sqrt v j H vnew).1.get k j * (v.get k).getD t 0)
          + (orth ip sqrt v j H vnew).1.get (j + 1) j * (orth ip sqrt v j H vnew).2.getD t 0) :=
  ⟨fun i hi => orth_orthogonal ip sqrt n hip v j H vnew hv hn i hi,
   fun hne => ⟨fun hroot => orth_normalised ip sqrt n hip v j H vnew hv hn hroot hne,
               fun t ht => orth_arnoldi ip sqrt n hip v j H vnew hv hn hne t ht⟩⟩

/-- **`gmres_arnoldi_partial`**: for every restart cycle of GMRES (both preconditioning sides; `A' u = A P u` resp.
`P A u`), started from a state at the `break` test (`norm_r = ‖r‖ ≠ 0`, root exact on `⟨r,r⟩`): when the inner loop
has ended after `j` steps without breakdown (`H̃(i+1,i) ≠ 0` and the root exact on `⟨w_i,w_i⟩` for `i < j`, where `H̃`
is the UNROTATED Hessenberg matrix and `w_i` the orthogonalised vector — GMRES overwrites `H` by the Givens
rotations, so both are carried as ghost state `Ghost` next to the model's loop, `innerG_fst`), the basis
`v[0..j]` is orthonormal and `A' v_i = Σ_{k ≤ i+1} H̃(k,i)·v_k` for every `i < j`; and `H̃(i+1,i) = ‖w_i‖` always.

PARTIAL with respect to the plan's statement: "the Givens-reduced `|s_{j+1}|` equals the least-squares residual" (and
hence the minimisation property and residual monotonicity) is NOT proved; it is decided by the labelled
double-precision least-squares test of the harness only. -/
theorem gmres_arnoldi_partial (prm : GMRES.Params K) (ip : Vec K → Vec K → K) (sqrt : K → K) (A : CRS K)
    (P : Vec K → Vec K) (epsT : K) (st : GMRES.St K) (g0 : GMRES.Ghost K) (n : Nat) (hip : IpOK ip n)
    (hA : ∀ u : Vec K, (GMRES.Aop prm.pside P A u).size = n) (hr : st.w.r.size = n)
    (hnr : st.normR = nrmA ip sqrt st.w.r)
    (hroot0 : sqrt (ip st.w.r st.w.r) * sqrt (ip st.w.r st.w.r) = ip st.w.r st.w.r) (hne0 : st.normR ≠ 0) :
    (∀ i, i < (GMRES.inner prm ip sqrt A P epsT st).j →
      (GMRES.innerG prm ip sqrt A P epsT st g0).2.Ht.get (i + 1) i
        = nrmA ip sqrt ((GMRES.innerG prm ip sqrt A P epsT st g0).2.W.get i)) ∧
    (GMRES.NoBreakdown ip sqrt (GMRES.innerG prm ip sqrt A P epsT st g0).2 (GMRES.inner prm ip sqrt A P epsT st).j →
      Orthonormal ip n (GMRES.inner prm ip sqrt A P epsT st).w.v (GMRES.inner prm ip sqrt A P epsT st).j ∧
      ∀ i, i < (GMRES.inner prm ip sqrt A P epsT st).j → ∀ τ, τ < n →
        (GMRES.Aop prm.pside P A ((GMRES.inner prm ip sqrt A P epsT st).w.v.get i)).getD τ 0
          = ∑ k ∈ Finset.range (i + 2), (GMRES.innerG prm ip sqrt A P epsT st g0).2.Ht.get k i
              * ((GMRES.inner prm ip sqrt A P epsT st).w.v.get k).getD τ 0) :=
  GMRES.inner_arnoldi prm ip sqrt A P epsT st g0 n hip hA hr hnr hroot0 hne0

/-- the hypotheses on the inner product hold for the backend's inner product, in every field -/
theorem std_inner_product_ok (n : Nat) : IpOK (stdIp : Vec K → Vec K → K) n := stdIp_ipOK n

end arnoldi

/-! non-vacuity of `gmres_arnoldi_partial` over `ℚ` with the executable `rsqrt` and the backend inner product:
`A = [[1,0],[3,1]]`, `f = (2,0)`, `x₀ = 0`, `M = 1` (`r = (2,0)`, `v₀ = (1,0)`, `A v₀ = (1,3)`, `H̃(0,0) = 1`,
`w₀ = (0,3)`, `H̃(1,0) = 3`: all roots exact, no breakdown) -/
section nonvacuous3

private def A₂ : CRS ℚ := ⟨2, #[[(0, 1)], [(0, 3), (1, 1)]]⟩
private def prm₂ : GMRES.Params ℚ :=
  { maxiter := 5, tol := 0, abstol := 0, nsSearch := false, M := 1, pside := .right }
private def st₂ : GMRES.St ℚ := GMRES.init prm₂ stdIp Amgcl.rsqrt A₂ id (GMRES.Work.fresh 2) #[2, 0] #[0, 0]
private def g₂ : GMRES.Ghost ℚ := ⟨.const 0, .const #[]⟩

example :
    Orthonormal stdIp 2 (GMRES.inner prm₂ stdIp Amgcl.rsqrt A₂ id 0 st₂).w.v
      (GMRES.inner prm₂ stdIp Amgcl.rsqrt A₂ id 0 st₂).j ∧
    ∀ i, i < (GMRES.inner prm₂ stdIp Amgcl.rsqrt A₂ id 0 st₂).j → ∀ τ, τ < 2 →
      (GMRES.Aop .right id A₂ ((GMRES.inner prm₂ stdIp Amgcl.rsqrt A₂ id 0 st₂).w.v.get i)).getD τ 0
        = ∑ k ∈ Finset.range (i + 2), (GMRES.innerG prm₂ stdIp Amgcl.rsqrt A₂ id 0 st₂ g₂).2.Ht.get k i
            * ((GMRES.inner prm₂ stdIp Amgcl.rsqrt A₂ id 0 st₂).w.v.get k).getD τ 0 := by
  have hj : (GMRES.inner prm₂ stdIp Amgcl.rsqrt A₂ id 0 st₂).j = 1 := by decide +kernel
  have hnb : GMRES.NoBreakdown stdIp Amgcl.rsqrt (GMRES.innerG prm₂ stdIp Amgcl.rsqrt A₂ id 0 st₂ g₂).2
      (GMRES.inner prm₂ stdIp Amgcl.rsqrt A₂ id 0 st₂).j := by
    rw [hj]; unfold GMRES.NoBreakdown; decide +kernel
  exact (gmres_arnoldi_partial prm₂ stdIp Amgcl.rsqrt A₂ id 0 st₂ g₂ 2 (std_inner_product_ok 2)
    (GMRES.Aop_size_right id A₂) (by decide +kernel) (by decide +kernel) (by decide +kernel)
    (by decide +kernel)).2 hnb

end nonvacuous3

end Amgcl.C05
