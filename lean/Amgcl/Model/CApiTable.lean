import Amgcl.Model.CApi
import Amgcl.Model.CApiParams
/-!
# C20 — the entry points of `lib/amgcl.cpp` as a TABLE (core Lean only)

`tools/capi_extract.py` regenerates `Amgcl/Generated/CApiTableData.lean` (a `Table`) from `lib/amgcl.cpp` and
`lib/amgcl.h` on every run of the check.  This file fixes

* the vocabulary of the table: for every exported entry point its name (split into family / verb / `_f`), return
  type and parameter list as DEFINED in lib/amgcl.cpp and as DECLARED in lib/amgcl.h, and a `Body`: what the
  function does, in a normal form the translator computes by symbolic evaluation of the function body (locals
  substituted, pointer arithmetic collected into `base parameter + transform + offset`), so that renaming a local
  or introducing a temporary does not change the table while a changed offset, range end, cast, callee or
  argument order does;
* the SEMANTICS of a table entry in terms of the hand models `Model/CApi.lean` (iterator-range `View`, handle state
  machine `Call`) and `Model/CApiParams.lean` (`PWrite`): `TupleSpec.view`, `Entry.call`, `Entry.pwrite`;
* the decidable predicate `Table.Consistent` that the generated file discharges by `decide` and under which the
  generic theorems of `Properties/C20b.lean` hold.

Normal forms (what the translator emits):

    Iter  = pointer parameter `base` seen through a transform iterator subtracting `shift` at every dereference
            (`shift = 0`: the plain pointer), advanced by `off`
    Off   = `k` | `s + k` | `p[s] + k`   (`s` a size expression, `p[s]` read through the RAW pointer parameter `p`;
            whatever a transform iterator subtracts on the way is folded into `k`)
    Range = `make_iterator_range(b, e)`
    Tuple = `std::make_tuple(n, ptr-range, col-range, val-range)`
-/
namespace Amgcl.CApi

/-! ## vocabulary -/

/-- C types occurring in lib/amgcl.h (typedefs resolved: `amgclHandle = void*`; `const T*` and `T const*` agree) -/
inductive CType
  | void | handle | int | float | double | cstr | cintp | cdoublep | doublep | convInfo | convInfoP
  | other (spelling : String)
  deriving DecidableEq, Repr, Inhabited

structure Param where
  name : String
  type : CType
  deriving DecidableEq, Repr

/-- integer-valued size expressions -/
inductive SizeE
  /-- the `int` parameter number `i` -/
  | param (i : Nat)
  /-- `static_cast<K*>(param h)->size()` -/
  | objSize (k : Kind) (h : Nat)
  /-- `amgcl::backend::rows(static_cast<K*>(param h)->system_matrix())` -/
  | objRows (k : Kind) (h : Nat)
  deriving DecidableEq, Repr

/-- what is added to a pointer / iterator -/
inductive Off
  | const (k : Int)
  /-- `s + k` -/
  | size (s : SizeE) (k : Int)
  /-- `p[s] + k` with `p` a RAW pointer parameter -/
  | rawAt (p : Nat) (s : SizeE) (k : Int)
  deriving DecidableEq, Repr

structure Iter where
  /-- the pointer parameter the iterator walks over -/
  base  : Nat
  /-- what the transform iterator subtracts at every dereference (`0`: plain pointer) -/
  shift : Int
  off   : Off
  deriving DecidableEq, Repr

/-- `make_iterator_range(b, e)` -/
structure Range where
  b : Iter
  e : Iter
  deriving DecidableEq, Repr

/-- `std::make_tuple(n, ptr, col, val)` -/
structure TupleSpec where
  n   : SizeE
  ptr : Range
  col : Range
  val : Range
  deriving DecidableEq, Repr

/-- how the result `(iterations, residual)` of the C++ call reaches the caller -/
inductive Fill
  /-- `conv_info c; std::tie(c.f₁, c.f₂) = <call>; return c;` -/
  | tieReturn (fields : List String)
  /-- `std::tie(p->f₁, p->f₂) = <call>;` with `p` the parameter number -/
  | tieOut (p : Nat) (fields : List String)
  /-- `*p = <call of another entry point>;` -/
  | assignOut (p : Nat)
  /-- `return <call of another entry point>;` -/
  | ret
  deriving DecidableEq, Repr

/-- what an entry point does (numbers are parameter positions, 0-based) -/
inductive Body
  /-- `return static_cast<amgclHandle>(new Params());` -/
  | paramsNew
  /-- `static_cast<Params*>(h)->put(name, value);` -/
  | put (h name value : Nat)
  /-- `read_json(fname, *static_cast<Params*>(h));` -/
  | readJson (h fname : Nat)
  /-- `delete static_cast<K*>(h);` -/
  | destroy (k : Kind) (h : Nat)
  /-- `prm = some (p, kp)`, `nullGuard`: `if (p) return new K(A, *static_cast<Kp*>(p)); else return new K(A);`
      `prm = some (p, kp)`, no guard: `return new K(A, *static_cast<Kp*>(p));`   `prm = none`: `return new K(A);`
      (each wrapped in `static_cast<amgclHandle>`) -/
  | create (k : Kind) (A : TupleSpec) (prm : Option (Nat × Kind)) (nullGuard : Bool)
  /-- `static_cast<K*>(h)->apply(rhs, x);` — the ranges in C++ argument order -/
  | apply (k : Kind) (h : Nat) (rhs x : Range)
  /-- `std::cout << <what> << std::endl;` with `what = "self"` (`*static_cast<K*>(h)`) or `"precond()"` -/
  | report (k : Kind) (h : Nat) (what : String) (endl : Bool)
  /-- `(*static_cast<K*>(h))([A,] rhs, x)` — arguments in C++ argument order — and where the result goes -/
  | solve (k : Kind) (h : Nat) (A : Option TupleSpec) (rhs x : Range) (fill : Fill)
  /-- the call of another entry point with the parameters `args` (in the callee's parameter order) -/
  | forward (callee : String) (args : List Nat) (fill : Fill)
  deriving DecidableEq, Repr

structure Entry where
  name     : String
  /-- `amgcl_<family>_<verb>[_f]` -/
  family   : Kind
  verb     : String
  fortran  : Bool
  ret      : CType
  params   : List Param
  /-- return type and parameter types of the declaration inside `extern "C"` in lib/amgcl.h (`none`: not declared) -/
  declared : Option (CType × List CType)
  body     : Body
  /-- line of the definition in lib/amgcl.cpp (diagnostics only) -/
  line     : Nat
  deriving DecidableEq, Repr

structure Table where
  /-- the C++ class behind each kind of handle, typedefs resolved, as cast to / `new`ed / `delete`d anywhere -/
  classes  : List (Kind × String)
  /-- members of `struct conv_info` in order -/
  convInfo : List (String × CType)
  entries  : List Entry
  deriving Repr

def kindStr : Kind → String
  | .params => "params"
  | .precond => "precond"
  | .solver => "solver"

def Entry.types (e : Entry) : List CType := e.params.map (·.type)

/-- index base announced by the name -/
def Entry.base (e : Entry) : Int := if e.fortran then 1 else 0

def Table.find? (t : Table) (name : String) : Option Entry := t.entries.find? (·.name == name)

/-- a `forward` body is replaced by the body of its callee (one level; the callee's parameters are a prefix of the
caller's when the table is consistent) -/
def Table.resolve (t : Table) (e : Entry) : Body :=
  match e.body with
  | .forward callee _ _ => match t.find? callee with
    | some c => c.body
    | none => e.body
  | b => b

def Body.tuple? : Body → Option TupleSpec
  | .create _ A _ _ => some A
  | .solve _ _ A _ _ _ => A
  | _ => none

/-! ## semantics of an extracted tuple: the `View` it denotes -/

section view
variable {K : Type}

/-- value of an offset; `arr p` = the caller's array behind pointer parameter `p` (read bounds-checked) -/
def Off.eval (n : Nat) (arr : Nat → Option (Array Int)) : Off → Option Int
  | .const k => some k
  | .size _ k => some ((n : Int) + k)
  | .rawAt p _ k => (arr p).bind (fun a => (rd a n).map (· + k))

/-- The `View` (Model/CApi.lean) denoted by an extracted tuple when the size expression evaluates to `n` and the
caller hands `ptr`, `col`, `val` for the three base parameters: the two transform amounts are taken from the begin
iterators of the `ptr` and the `col` range SEPARATELY, the three end offsets are evaluated as extracted (the raw
`ptr[n]` dereference included).  `TupleSpec.WellShaped` states what this reading presupposes. -/
def TupleSpec.view (A : TupleSpec) (n : Nat) (ptr col : Array Int) (val : Array K) : Option (View K) := do
  let arr : Nat → Option (Array Int) := fun i =>
    if i = A.ptr.b.base then some ptr else if i = A.col.b.base then some col else none
  let pe ← A.ptr.e.off.eval n arr
  let ce ← A.col.e.off.eval n arr
  let ve ← A.val.e.off.eval n arr
  pure { n := n, pshift := A.ptr.b.shift, cshift := A.col.b.shift, ptr := ptr, col := col, val := val,
         ptrEnd := pe, colEnd := ce, valEnd := ve }

/-- what `TupleSpec.view` presupposes: every range begins AT its base parameter and ends on the same iterator
(same parameter, same transform), the values are not transformed, three distinct parameters -/
def TupleSpec.wellShaped (A : TupleSpec) : Bool :=
  A.ptr.b.off == .const 0 && A.col.b.off == .const 0 && A.val.b.off == .const 0
  && A.ptr.e.base == A.ptr.b.base && A.col.e.base == A.col.b.base && A.val.e.base == A.val.b.base
  && A.ptr.e.shift == A.ptr.b.shift && A.col.e.shift == A.col.b.shift && A.val.e.shift == A.val.b.shift
  && A.val.b.shift == 0
  && A.ptr.b.base != A.col.b.base && A.ptr.b.base != A.val.b.base && A.col.b.base != A.val.b.base

end view

/-- THE tuple of `adapter/crs_tuple.hpp` over the consecutive parameters `p, p+1, p+2` with index base `β`, size
`n`:  `(n, [ptr, ptr + n + 1), [col, col + ptr[n]), [val, val + ptr[n]))`, `ptr` and `col` seen through transform
iterators subtracting `β`, the ends of `col` / `val` formed with the RAW `ptr[n]` -/
def stdTuple (n : SizeE) (p : Nat) (β : Int) : TupleSpec :=
  { n := n,
    ptr := ⟨⟨p, β, .const 0⟩, ⟨p, β, .size n 1⟩⟩,
    col := ⟨⟨p + 1, β, .const 0⟩, ⟨p + 1, β, .rawAt p n 0⟩⟩,
    val := ⟨⟨p + 2, 0, .const 0⟩, ⟨p + 2, 0, .rawAt p n 0⟩⟩ }

/-- `make_iterator_range(p, p + n)` over the plain pointer parameter `p` -/
def stdVec (p : Nat) (n : SizeE) : Range := ⟨⟨p, 0, .const 0⟩, ⟨p, 0, .size n 0⟩⟩

/-! ## semantics of an entry: its handle footprint as a `Call` of the state machine -/

/-- positions of the handle-typed parameters -/
def Entry.handleParams (e : Entry) : List Nat :=
  (List.range e.params.length).filter (fun i => (e.types[i]?) == some CType.handle)

/-- The footprint of a body AS EXTRACTED (which parameter is cast to which kind and dereferenced, what is created /
deleted) as a call of the handle state machine; `arg i` = the handle number passed for parameter `i` (`none` =
`NULL`).  `none` = the footprint is not one of the machine's calls (a `NULL` handle dereferenced, the parameter tree
cast to something else than a tree, …). -/
def Body.call (arg : Nat → Option Nat) : Body → Option Call
  | .paramsNew => some .paramsCreate
  | .put h _ _ => (arg h).map (.use .params)
  | .readJson h _ => (arg h).map (.use .params)
  | .destroy k h => (arg h).map (.destroy k)
  | .create k _ prm guard =>
    if k = .params then none else
    match prm with
    | none => some (.objCreate (k == .solver) none)
    | some (p, kp) =>
      if kp ≠ .params then none else
      match arg p with
      | some a => some (.objCreate (k == .solver) (some a))
      | none => if guard then some (.objCreate (k == .solver) none) else none
  | .apply k h _ _ => (arg h).map (.use k)
  | .report k h _ _ => (arg h).map (.use k)
  | .solve k h _ _ _ _ => (arg h).map (.use k)
  | .forward _ _ _ => none

/-- one call of the C API as a client writes it: the name of the entry point and the handle numbers it passes for
the handle-typed parameters, in parameter order (`none` = `NULL`) -/
structure ApiCall where
  name    : String
  handles : List (Option Nat)
  deriving DecidableEq, Repr

/-- actual handle for parameter position `i` -/
def Entry.argOf (e : Entry) (handles : List (Option Nat)) (i : Nat) : Option Nat :=
  match e.handleParams.idxOf? i with
  | some j => (handles[j]?).join
  | none => none

/-- the machine call performed by an API call, read off the EXTRACTED body -/
def Table.call (t : Table) (c : ApiCall) : Option Call :=
  match t.find? c.name with
  | none => none
  | some e => if c.handles.length ≠ e.handleParams.length then none else (t.resolve e).call (e.argOf c.handles)

/-- the machine call the NAME of the entry point promises (lib/amgcl.h: `amgcl_<family>_create` returns a handle of
the family, taking the parameter list as its only handle; `amgcl_<family>_destroy` destroys one; every other
`amgcl_<family>_*` uses one handle of the family, which must not be `NULL`) -/
def declaredCall (family : Kind) (verb : String) (handles : List (Option Nat)) : Option Call :=
  if verb == "create" then
    match family, handles with
    | .params, [] => some .paramsCreate
    | .params, _ => none
    | k, [p] => some (.objCreate (k == .solver) p)
    | _, _ => none
  else if verb == "destroy" then
    match handles with
    | [some h] => some (.destroy family h)
    | _ => none
  else
    match handles with
    | [some h] => some (.use family h)
    | _ => none

def Table.declared (t : Table) (c : ApiCall) : Option Call :=
  match t.find? c.name with
  | none => none
  | some e => declaredCall e.family e.verb c.handles

/-! ## semantics of a parameter entry: the write it performs on the tree behind the handle -/

/-- the value a client passes to a typed setter, with the text Boost's stream translator stores for it
(`Model/CApiParams.lean`) -/
structure SetterArgs where
  path : List String
  text : String

/-- the `PWrite` performed by an entry point of the parameter family: a `put` body performs exactly
`put(name, value)` (`PWrite.set`), a `read_json` body replaces the tree by the file's (`PWrite.file`) -/
def Body.pwrite : Body → SetterArgs ⊕ List (List String × String) → Option PWrite
  | .put _ _ _, .inl a => some (.set a.path a.text)
  | .readJson _ _, .inr es => some (.file es)
  | _, _ => none

/-! ## the C++ call an entry point forwards to, up to index base -/

inductive Callee
  | ctor (k : Kind) | del (k : Kind) | put | readJson | apply (k : Kind) | print (k : Kind) (what : String)
  /-- `operator()(rhs, x)` -/
  | solve2 (k : Kind)
  /-- `operator()(A, rhs, x)` -/
  | solve3 (k : Kind)
  | other
  deriving DecidableEq, Repr

/-- role of a C++ argument: which C parameters it is made of -/
inductive Role
  /-- the tuple over parameters `ptr col val` with size `n` -/
  | matrix (n : SizeE) (ptr col val : Nat)
  /-- `*static_cast<K*>(p)` guarded by `if (p)` or not -/
  | tree (p : Nat) (k : Kind) (guarded : Bool)
  /-- the range `[p, p + n)` -/
  | vec (p : Nat) (e : Off)
  /-- the parameter itself -/
  | plain (p : Nat)
  deriving DecidableEq, Repr

structure CppCall where
  callee : Callee
  args   : List Role
  deriving DecidableEq, Repr

def TupleSpec.role (A : TupleSpec) : Role := .matrix A.n A.ptr.b.base A.col.b.base A.val.b.base
def Range.role (r : Range) : Role := .vec r.b.base r.e.off

/-- callee and argument roles, index base / transform amounts / result plumbing forgotten -/
def Body.cppCall : Body → CppCall
  | .paramsNew => ⟨.ctor .params, []⟩
  | .put _ nm v => ⟨.put, [.plain nm, .plain v]⟩
  | .readJson _ f => ⟨.readJson, [.plain f]⟩
  | .destroy k _ => ⟨.del k, []⟩
  | .create k A prm g => ⟨.ctor k, A.role :: (match prm with
      | some (p, kp) => [.tree p kp g]
      | none => [])⟩
  | .apply k _ r x => ⟨.apply k, [r.role, x.role]⟩
  | .report k _ w _ => ⟨.print k w, []⟩
  | .solve k _ none r x _ => ⟨.solve2 k, [r.role, x.role]⟩
  | .solve k _ (some A) r x _ => ⟨.solve3 k, [A.role, r.role, x.role]⟩
  | .forward _ _ _ => ⟨.other, []⟩

/-- what reaches the C++ library when an entry point is called with `(n, ptr, col, val)` for its matrix
parameters: the C++ callee with the roles of its arguments, and the rows it reads through the tuple (`none`
inside `matrix`: the callee takes no matrix; the whole result `none`: a read outside the caller's arrays) -/
structure Forwarded (K : Type) where
  call   : CppCall
  matrix : Option (Array (List (Int × K)))

def Table.forwarded {K : Type} (t : Table) (e : Entry) (n : Nat) (ptr col : Array Int) (val : Array K) :
    Option (Forwarded K) :=
  match (t.resolve e).tuple? with
  | none => some ⟨(t.resolve e).cppCall, none⟩
  | some A => ((A.view n ptr col val).bind View.toRows).map (fun rows => ⟨(t.resolve e).cppCall, some rows⟩)

/-- the write an API call `name(handle, …)` of the parameter family performs on the tree behind its handle -/
def Table.pwrite (t : Table) (name : String) (a : SetterArgs ⊕ List (List String × String)) : Option PWrite :=
  (t.find? name).bind (fun e => e.body.pwrite a)

/-! ## consistency -/

def convFields : List String := ["iterations", "residual"]

/-- the classes lib/amgcl.cpp is documented to wrap (whitespace-free spelling, typedefs resolved) -/
def expectedClasses : List (Kind × String) :=
  [(.params, "boost::property_tree::ptree"),
   (.precond, "amgcl::amg<amgcl::backend::builtin<double>,amgcl::runtime::coarsening::wrapper,amgcl::runtime::relaxation::wrapper>"),
   (.solver, "amgcl::make_solver<amgcl::amg<amgcl::backend::builtin<double>,amgcl::runtime::coarsening::wrapper,amgcl::runtime::relaxation::wrapper>,amgcl::runtime::solver::wrapper<amgcl::backend::builtin<double>>>")]

def Entry.nameOk (e : Entry) : Bool :=
  e.name == "amgcl_" ++ kindStr e.family ++ "_" ++ e.verb ++ (if e.fortran then "_f" else "")

/-- defined as declared in the header -/
def Entry.declOk (e : Entry) : Bool := e.declared == some (e.ret, e.types)

def Body.isForward : Body → Bool
  | .forward _ _ _ => true
  | _ => false

def Body.creates : Body → Option Kind
  | .paramsNew => some .params
  | .create k _ _ _ => some k
  | _ => none

def Body.destroys : Body → Option Kind
  | .destroy k _ => some k
  | _ => none

/-- the verbs `create` / `destroy` are reserved for the bodies that create / destroy -/
def Entry.verbOk (e : Entry) : Bool :=
  (e.verb == "create") == e.body.creates.isSome && (e.verb == "destroy") == e.body.destroys.isSome

def Entry.bodyOk (t : Table) (e : Entry) : Bool :=
  match e.body with
  | .paramsNew => e.family == .params && e.types == [] && e.ret == .handle && !e.fortran
  | .put h nm v =>
    e.family == .params && h == 0 && nm == 1 && v == 2 && e.ret == .void && !e.fortran
    && (e.types == [.handle, .cstr, .int] || e.types == [.handle, .cstr, .float] || e.types == [.handle, .cstr, .cstr])
  | .readJson h f =>
    e.family == .params && h == 0 && f == 1 && e.types == [.handle, .cstr] && e.ret == .void && !e.fortran
  | .destroy k h => k == e.family && h == 0 && e.types == [.handle] && e.ret == .void && !e.fortran
  | .create k A prm guard =>
    k == e.family && k != .params && e.types == [.int, .cintp, .cintp, .cdoublep, .handle] && e.ret == .handle
    && prm == some (4, .params) && guard && A == stdTuple (.param 0) 1 e.base
  | .apply k h rhs x =>
    k == e.family && k == .precond && h == 0 && e.types == [.handle, .cdoublep, .doublep] && e.ret == .void
    && !e.fortran && rhs == stdVec 1 (.objRows .precond 0) && x == stdVec 2 (.objRows .precond 0)
  | .report k h what endl =>
    k == e.family && k != .params && h == 0 && e.types == [.handle] && e.ret == .void && !e.fortran && endl
    && what == (if k == .precond then "self" else "precond()")
  | .solve k h A rhs x fill =>
    k == e.family && k == .solver && h == 0 &&
    (match A with
     | none =>
       e.types == [.handle, .cdoublep, .doublep] && !e.fortran && e.ret == .convInfo
       && rhs == stdVec 1 (.objSize .solver 0) && x == stdVec 2 (.objSize .solver 0) && fill == .tieReturn convFields
     | some T =>
       T == stdTuple (.objSize .solver 0) 1 e.base
       && rhs == stdVec 4 (.objSize .solver 0) && x == stdVec 5 (.objSize .solver 0)
       && (if e.fortran then
             e.types == [.handle, .cintp, .cintp, .cdoublep, .cdoublep, .doublep, .convInfoP] && e.ret == .void
             && fill == .tieOut 6 convFields
           else
             e.types == [.handle, .cintp, .cintp, .cdoublep, .cdoublep, .doublep] && e.ret == .convInfo
             && fill == .tieReturn convFields))
  | .forward callee args fill =>
    e.fortran && e.ret == .void &&
    (match t.find? callee with
     | none => false
     | some c =>
       !c.fortran && c.family == e.family && c.verb == e.verb && c.ret == .convInfo && !c.body.isForward
       && c.body.tuple?.isNone      -- the callee takes no index arrays: they would be read with the callee's base
       && args == List.range c.params.length && e.types == c.types ++ [.convInfoP]
       && fill == .assignOut c.params.length)

/-- a `_f` entry point has a twin without `_f` (same family, same verb) and reaches the same C++ call with the
same argument roles — by forwarding to the twin, or because its own body does -/
def Entry.twinOk (t : Table) (e : Entry) : Bool :=
  !e.fortran ||
  t.entries.any (fun e0 => e0.family == e.family && e0.verb == e.verb && !e0.fortran
    && (t.resolve e).cppCall == (t.resolve e0).cppCall)

def namesNodup : List String → Bool
  | [] => true
  | a :: l => !l.contains a && namesNodup l

def Table.check (t : Table) : Bool :=
  t.classes == expectedClasses
  && t.convInfo == [("iterations", .int), ("residual", .double)]
  && namesNodup (t.entries.map (·.name))
  && t.entries.all (fun e => e.nameOk && e.declOk && e.verbOk && e.bodyOk t && e.twinOk t)
  && [Kind.params, Kind.precond, Kind.solver].all (fun k =>
       t.entries.any (fun e => e.body.creates == some k) && t.entries.any (fun e => e.body.destroys == some k))

/-- what the generated file proves of the regenerated table by `decide` -/
def Table.Consistent (t : Table) : Prop := t.check = true

instance (t : Table) : Decidable t.Consistent := inferInstanceAs (Decidable (t.check = true))

end Amgcl.CApi
