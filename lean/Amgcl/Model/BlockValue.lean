import Amgcl.Model.Basic
import Amgcl.Model.Primitives
import Amgcl.Model.Kernels
import Amgcl.Model.StaticMatrix
/-!
# Block value types and the mixed scalar/block primitives (C07, C08)

* block values are `SMat K n m` of `Model/StaticMatrix.lean` (`amgcl::static_matrix<T,N,M>`, operators written the way
  the header writes them: `c * x` is `x *= c`, i.e. `buf[i] * c`; the product accumulates from zero in `k` order).
* `reinterpretAsRhs` mirrors `backend::reinterpret_as_rhs<V>(x)` (builtin.hpp:1326-1345): a scalar vector of length
  `n*b` *is* a vector of `n` blocks `static_matrix<T,b,1>` (pointer reinterpretation = chunking); a vector that
  already has the block type is unchanged, so the protocol passes every vector flat.
* `mixedSpmv` / `mixedResidual` mirror the mixed scalar/non-scalar specialisations of
  backend/detail/matrix_ops.hpp:121-168 (reinterpret, then the same-type loop of lines 47-113 at block values),
  `mixedVmul` the one of builtin.hpp:1270-1305.

Core Lean only; generic over notation classes.
-/
namespace Amgcl

namespace SMat
variable {K : Type} [Zero K] [Add K] [Sub K] [Mul K] [Neg K]
/-- square blocks multiply among themselves: what the generic kernels (`[Mul K]`) use at block values -/
instance {n : Nat} : Mul (SMat K n n) := ⟨SMat.mul⟩
/-- `math::identity<static_matrix<T,N,N>>()` -/
instance {n : Nat} [One K] : One (SMat K n n) := ⟨SMat.identity⟩
end SMat

section mixed
variable {K : Type} [Add K] [Mul K] [Sub K] [Neg K] [Zero K] [DecidableEq K]

/-- `backend::reinterpret_as_rhs<static_matrix<T,b,b>>(x)` for a scalar vector: `x.size() * sizeof(T) / sizeof(rhs)` blocks -/
def reinterpretAsRhs (b : Nat) (x : Vec K) : Vec (SMat K b 1) :=
  Array.ofFn (n := x.size / b) fun I => ⟨Array.ofFn (n := b) fun k => x.getD (I.val * b + k.val) 0⟩

/-- the scalar view of a block vector (the same memory) -/
def flattenRhs (b : Nat) (X : Vec (SMat K b 1)) : Vec K :=
  Array.ofFn (n := X.size * b) fun i => (X.getD (i.val / b) ((0 : SMat K b 1))).buf.getD (i.val % b) 0

/-- `sum = zero; for a in row: sum += a.value() * x[a.col()]` at block values -/
def blkRowDot {b : Nat} (r : Row (SMat K b b)) (X : Vec (SMat K b 1)) : SMat K b 1 :=
  r.foldl (fun s cv => s + SMat.mul cv.2 (X.getD cv.1 ((0 : SMat K b 1)))) ((0 : SMat K b 1))

/-- same-type `spmv_impl` (matrix_ops.hpp:47-85) at block values, scalar coefficients -/
def blockSpmv {b : Nat} (α : K) (A : CRS (SMat K b b)) (X : Vec (SMat K b 1)) (β : K) (Y : Vec (SMat K b 1)) : Vec (SMat K b 1) :=
  if β = 0 then Array.ofFn (n := A.nrows) fun i => SMat.smul α (blkRowDot (A.row i) X)
  else Array.ofFn (n := A.nrows) fun i => SMat.smul α (blkRowDot (A.row i) X) + SMat.smul β (Y.getD i ((0 : SMat K b 1)))

/-- same-type `residual_impl` (matrix_ops.hpp:87-113) at block values: `res[i] = rhs[i] - sum` -/
def blockResidual {b : Nat} (F : Vec (SMat K b 1)) (A : CRS (SMat K b b)) (X : Vec (SMat K b 1)) : Vec (SMat K b 1) :=
  Array.ofFn (n := A.nrows) fun i => F.getD i ((0 : SMat K b 1)) - blkRowDot (A.row i) X

/-- mixed `spmv_impl` (matrix_ops.hpp:121-141): block matrix, scalar (or block) vectors -/
def mixedSpmv {b : Nat} (α : K) (A : CRS (SMat K b b)) (x : Vec K) (β : K) (y : Vec K) : Vec K :=
  flattenRhs b (blockSpmv α A (reinterpretAsRhs b x) β (reinterpretAsRhs b y))

/-- mixed `residual_impl` (matrix_ops.hpp:143-168): `residual(F, A, X, R)` on the reinterpreted vectors -/
def mixedResidual {b : Nat} (f : Vec K) (A : CRS (SMat K b b)) (x : Vec K) : Vec K :=
  flattenRhs b (blockResidual (reinterpretAsRhs b f) A (reinterpretAsRhs b x))

/-- `vmul_impl` with a vector of blocks `x` and rhs/scalar vectors `y`, `z` (builtin.hpp:1240-1305):
`Z[i] = a * x[i] * Y[i] + b * Z[i]`, no read of `Z` when `b` is zero -/
def mixedVmul {b : Nat} (a : K) (X : Vec (SMat K b b)) (y : Vec K) (β : K) (z : Vec K) : Vec K :=
  let Y := reinterpretAsRhs b y
  let Z := reinterpretAsRhs b z
  flattenRhs b (
    if β = 0 then Array.ofFn (n := X.size) fun i => SMat.mul (SMat.smul a (X.getD i ((0 : SMat K b b)))) (Y.getD i ((0 : SMat K b 1)))
    else Array.ofFn (n := X.size) fun i =>
      SMat.mul (SMat.smul a (X.getD i ((0 : SMat K b b)))) (Y.getD i ((0 : SMat K b 1))) + SMat.smul β (Z.getD i ((0 : SMat K b 1))))

/-- the scalar matrix a block matrix stands for: block row `I` becomes the `b` scalar rows `I*b + p`, every stored
block `(J, v)` contributes the `b` entries `(J*b + q, v(p,q))` in stored order -/
def expandBlocks {b : Nat} (A : CRS (SMat K b b)) : CRS K :=
  { ncols := A.ncols * b,
    rows := Array.ofFn (n := A.nrows * b) fun i =>
      (A.row (i.val / b)).flatMap fun cv => (List.range b).map fun q => (cv.1 * b + q, cv.2.get (i.val % b) q) }

end mixed

section galerkin
variable {K : Type} [Add K] [Mul K] [Zero K] [One K]

/-- `R = transpose(P)` (what every coarsening returns next to `P`) followed by
`coarsening::detail::galerkin(A, P, R) = product(R, *product(A, P))` (coarsening/detail/galerkin.hpp:42-48) -/
def galerkinRAP (adj : K → K) (nt : Nat) (A P : CRS K) : CRS K × CRS K :=
  let R := transpose adj P
  (R, product nt R (product nt A P false) false)

end galerkin

end Amgcl
