/-!
# C14 — the property-tree semantics amgcl uses, and the shape of a `struct params`

Core Lean only (linked into the executable model driver).

## What is modelled (amgcl/util.hpp:103-186)

* `boost::property_tree::ptree` — an ordered list of `(key, subtree)` pairs plus a data string per node
  (`PTree`).  Keys may repeat; `find`/`get` return the first match; `put` replaces the first match or appends.
* `AMGCL_PARAMS_IMPORT_VALUE(p, name)`  = `name(p.get("name", params().name))`          → `PTree.get`
* `AMGCL_PARAMS_IMPORT_CHILD(p, name)`  = `name(p.get_child("name", empty_ptree()))`    → `PTree.getChild`
* `AMGCL_PARAMS_EXPORT_VALUE(p, path, name)` = `p.put(path + "name", name)`             → `PTree.putPath`
* `AMGCL_PARAMS_EXPORT_CHILD(p, path, name)` = `name.get(p, path + "name" + ".")`       → the child's exporter,
  a parameter of `exportT` (which struct the child is depends on template arguments)
* `check_params(p, names[, opt_names])` with the hooks `AMGCL_PARAM_UNKNOWN` / `AMGCL_PARAM_MISSING` → `unknownT`,
  `missingT`
* `prm.erase("type")` of the run-time wrappers                                            → `PTree.erase`
* a nested configuration (`precond.coarsening.aggr.eps_strong`): `ParamTable.exportAlong` / `exportValuesAt`, the
  child's table being supplied by the caller

A dotted path string `"precond.relax."` is represented by its list of segments: every path amgcl builds is
`path + #name + "."` with `#name` a C identifier (no `.`; `ParamTable.Consistent` checks that on the regenerated
table), so splitting at dots is exactly the segment list.

Not modelled: the typed stream translation of `get<T>`/`put<T>` (values are their canonical text; the harness
uses values whose text form is canonical — integers, `true/false`, dyadic decimals, enum names), and the fact that
`get(name, default)` silently yields the default when the text does not parse as `T`.

## What a table is

`ParamTable` is what `tools/params_extract.py` regenerates from `/repo` for every `struct params`
(`Amgcl/Generated/ParamsTableData.lean`).  `ParamTable.Consistent` is the decidable predicate the generic theorems
of `Properties/C14.lean` need; `Generated/ParamsTable.lean` re-checks it by `decide` on every run.
-/
namespace Amgcl.Params

/-! ## property tree -/

inductive PTree where
  | node (data : String) (kids : List (String × PTree))
deriving Inhabited

namespace PTree

def empty : PTree := node "" []

def data : PTree → String
  | node d _ => d

def kids : PTree → List (String × PTree)
  | node _ ks => ks

/-- top-level keys in stored order (what `for (const auto &v : p)` iterates over in `check_params`) -/
def keys (p : PTree) : List String := p.kids.map (·.1)

def lookup (k : String) : List (String × PTree) → Option PTree
  | [] => none
  | (k', c) :: rest => if k' = k then some c else lookup k rest

/-- `p.find(key)` / `get_child_optional(key)` for a single-segment key: first match -/
def child? (p : PTree) (k : String) : Option PTree := lookup k p.kids

/-- `p.count(key)` -/
def count (p : PTree) (k : String) : Nat := (p.kids.filter (·.1 = k)).length

/-- `p.get(name, default)` on the text level -/
def get (p : PTree) (k : String) (dflt : String) : String :=
  match p.child? k with
  | some c => c.data
  | none => dflt

/-- `p.get_optional<string>(name)` -/
def get? (p : PTree) (k : String) : Option String := (p.child? k).map data

/-- `p.get_child(name, empty_ptree())` -/
def getChild (p : PTree) (k : String) : PTree := (p.child? k).getD empty

/-- replace the first pair with key `k` by `(k, f old)`, or append `(k, f empty)` -/
def upsert (k : String) (f : PTree → PTree) : List (String × PTree) → List (String × PTree)
  | [] => [(k, f empty)]
  | (k', c) :: rest => if k' = k then (k', f c) :: rest else (k', c) :: upsert k f rest

/-- `p.put(path, value)`: walk / create the path, set the data of the last node (its children are kept) -/
def putPath (p : PTree) (path : List String) (v : String) : PTree :=
  match path with
  | [] => node v p.kids
  | k :: ks => node p.data (upsert k (fun c => putPath c ks v) p.kids)

/-- single-segment `put` -/
def put (p : PTree) (k : String) (v : String) : PTree := p.putPath [k] v

/-- `p.get_child_optional(path)` for a multi-segment path -/
def childPath? (p : PTree) : List String → Option PTree
  | [] => some p
  | k :: ks => match p.child? k with
    | some c => childPath? c ks
    | none => none

def getPath? (p : PTree) (path : List String) : Option String := (p.childPath? path).map data

/-- install a whole subtree at a single-segment key (`put_child`) -/
def setChild (p : PTree) (k : String) (c : PTree) : PTree := node p.data (upsert k (fun _ => c) p.kids)

/-- `p.erase(key)`: removes every child with that key, returns how many there were -/
def erase (p : PTree) (k : String) : PTree × Nat :=
  (node p.data (p.kids.filter (·.1 ≠ k)), p.count k)

end PTree

/-! ## the regenerated table of one `struct params` -/

/-- kind of a data member.
* `value`   arithmetic / bool member: must round-trip through import/export
* `enum`    a run-time enum (`preconditioner::side::type`): value member whose text form is an `EnumTable` name
* `pointer` pointer, container or `std::function` member that is filled from a raw address in the tree
            (`B`, `pmask`, `weights`, `def_vec`, `vec`): exempt from the value round trip, but there must be a way to
            set it and its key must be known to `check_params`
* `child`   a nested params struct (or a `ptree`, for the run-time wrappers) -/
inductive Kind where
  | value | enum | pointer | child
deriving DecidableEq, Repr, Inhabited

def Kind.toString : Kind → String
  | .value => "value" | .enum => "enum" | .pointer => "pointer" | .child => "child"

/-- through which macro a name is imported / exported -/
inductive Via where
  | value | child
deriving DecidableEq, Repr, Inhabited

structure Field where
  name   : String
  kind   : Kind
  ctype  : String    -- declared C++ type, informational
  origin : String    -- the struct that declares it (differs from the table's name for inherited fields)
deriving DecidableEq, Repr, Inhabited

/-- one executed `check_params(p, {allowed…}[, {optional…}])` call -/
structure Check where
  allowed  : List String
  optional : List String
  site     : String
deriving DecidableEq, Repr, Inhabited

def Check.names (c : Check) : List String := c.allowed ++ c.optional

/-- Everything the translator extracts for one `struct params`.  For a struct with a base class
(`pointwise_aggregates::params : plain_aggregates::params`, `ilup::params : ilu0::params`) the lists are the
*effective* ones: the base's entries come first iff the derived constructor / `get` really calls the base's
(`plain_aggregates::params(p)`, `BasePrm::get(p, path)`), so a forgotten base call shows up as a missing entry. -/
structure ParamTable where
  name       : String
  file       : String
  line       : Nat
  base       : Option String
  fields     : List Field            -- all data members, inherited ones first
  imports    : List (String × Via)   -- AMGCL_PARAMS_IMPORT_VALUE/CHILD in constructor order
  manualKeys : List String           -- keys read by hand-written `p.get("k", …)` / `p.count("k")` in the constructor
  checks     : List Check            -- executed check_params calls (base's first)
  exports    : List (String × Via)   -- AMGCL_PARAMS_EXPORT_VALUE/CHILD in `get` order
  exportParams : List String         -- the parameter names of `get(ptree &p, const std::string &path)`
  derivedOwn : List String           -- members declared by structs deriving from this one
  emptyLike  : Bool                  -- `detail::empty_params`: no members, every key is reported
deriving Repr, Inhabited

namespace ParamTable

def fieldNames (t : ParamTable) : List String := t.fields.map (·.name)
def importValue (t : ParamTable) : List String := (t.imports.filter (·.2 = Via.value)).map (·.1)
def importChild (t : ParamTable) : List String := (t.imports.filter (·.2 = Via.child)).map (·.1)
def exportValue (t : ParamTable) : List String := (t.exports.filter (·.2 = Via.value)).map (·.1)
def exportChild (t : ParamTable) : List String := (t.exports.filter (·.2 = Via.child)).map (·.1)
def kindOf (t : ParamTable) (n : String) : Option Kind := (t.fields.find? (·.name = n)).map (·.kind)
/-- is `n` exported by this struct's own `get` (inherited members are exported by the base's `get`, whose parameter
names are checked in the base's table) -/
def declaredHere (t : ParamTable) (n : String) : Bool :=
  match t.fields.find? (·.name = n) with
  | some f => f.origin = t.name
  | none => true

end ParamTable

/-! ### admissible irregularities (hand-written, each justified by the code it points to)

Everything the regenerated tables are allowed to deviate from "every member is imported, checked and exported
under its own name" is spelled out here, so that a *new* irregularity makes `all_tables_consistent` fail. -/

/-- **Accepted-but-foreign keys**: names in a `check_params` list that are neither members nor read by hand-written
code nor members of a derived struct.
* `mpi::cpr` accepts `active_rows` (amgcl/mpi/cpr.hpp:82): the key belongs to the serial `preconditioner::cpr`
  (cpr.hpp:85); the distributed variant treats every local row as active and whitelists the key so that one
  configuration file drives both variants.  The key is ignored, not reported. -/
def admissibleForeign : String → List String
  | "mpi::cpr" => ["active_rows"]
  | _ => []

/-- **Value members exempt from the export half of the round trip.**
* `coarsening::nullspace_params.cols` (amgcl/coarsening/tentative_prolongation.hpp:63-101): `cols` is only meaningful
  together with the raw pointer `B` (the constructor throws unless `cols > 0 ↔ B != 0`), i.e. it is the size companion
  of a pointer-valued member; `nullspace_params::get` exports nothing by design (DESIGN.md §4, non-defects). -/
def exportExempt : String → List String
  | "coarsening::nullspace_params" => ["cols"]
  | _ => []

namespace ParamTable

/-- members that must survive import → export unchanged -/
def valueFields (t : ParamTable) : List String :=
  ((t.fields.filter (fun f => f.kind = Kind.value ∨ f.kind = Kind.enum)).map (·.name)).filter
    (fun n => n ∉ exportExempt t.name)

/-- members that must be settable through the tree (exempt ones included) -/
def settableFields (t : ParamTable) : List String :=
  (t.fields.filter (fun f => f.kind = Kind.value ∨ f.kind = Kind.enum)).map (·.name)

def childFields (t : ParamTable) : List String := (t.fields.filter (·.kind = Kind.child)).map (·.name)
def pointerFields (t : ParamTable) : List String := (t.fields.filter (·.kind = Kind.pointer)).map (·.name)

/-- the keys this component understands -/
def understood (t : ParamTable) : List String :=
  t.fieldNames ++ t.manualKeys ++ t.derivedOwn ++ admissibleForeign t.name

def sameSet (a b : List String) : Bool := a.all (b.contains ·) && b.all (a.contains ·)

/-- import side well-typed: `IMPORT_VALUE` only on value/enum/pointer members (pointers travel as hex text,
util.hpp:407-420), `IMPORT_CHILD` only on child members -/
def importTyped (t : ParamTable) : Bool :=
  t.imports.all fun (n, via) => match t.kindOf n, via with
    | some Kind.child, Via.child => true
    | some Kind.child, Via.value => false
    | some _, Via.value => true
    | _, _ => false

/-- export side well-typed: `EXPORT_CHILD` calls `member.get(p, path)`, which exists only on child members;
`EXPORT_VALUE` streams the member (this is what `deflated_solver::params::get` violated); and inside `get` an
exported name must denote the member, i.e. must not be shadowed by one of `get`'s own parameters
(`ilut::params::get(ptree &p, …)` with a member called `p` expands to `p.put(path + "p", p)`, which streams the
property tree itself and does not compile).  `exportParams` are the parameter names of this struct's own `get`. -/
def exportTyped (t : ParamTable) : Bool :=
  t.exports.all fun (n, via) => !(t.declaredHere n && t.exportParams.contains n) && match t.kindOf n, via with
    | some Kind.child, Via.child => true
    | some Kind.child, Via.value => false
    | some _, Via.value => true
    | _, _ => false

def wellTyped (t : ParamTable) : Bool := t.importTyped && t.exportTyped

/-- The decidable consistency predicate.  Clause by clause:
1. identifiers: no `.` in any member / imported / exported name (paths split at dots), no duplicate members,
   no name imported or exported twice;
2. import and export are well-typed (kind of macro matches kind of member);
3. every value/enum member is imported by `IMPORT_VALUE` (an `exportExempt` one may instead be read by hand:
   `nullspace_params.cols`);
4. every non-exempt value/enum member is exported by `EXPORT_VALUE`;
5. every child member is imported and exported as a child;
6. every pointer member can be set: imported as (hex) value or read by hand under its own name;
7. every executed `check_params` call knows exactly the understood keys: members, hand-read companion keys
   (`rows`, `pmask_size`, `pmask_pattern`, `weights_size`), members of derived structs (a base constructor sees the
   derived struct's tree: `plain_aggregates` accepts `block_size`, `ilu0` accepts `k`) and `admissibleForeign`;
   there is at least one call unless the struct is `empty_params`-like (which reports every key). -/
def consistentB (t : ParamTable) : Bool :=
  -- 1
  (t.fieldNames ++ t.imports.map (·.1) ++ t.exports.map (·.1) ++ t.manualKeys).all (fun n => !n.toList.contains '.') &&
  t.fieldNames.Nodup && (t.imports.map (·.1)).Nodup && (t.exports.map (·.1)).Nodup &&
  -- 2
  t.wellTyped &&
  -- 3
  t.settableFields.all (fun n => t.importValue.contains n ||
    ((exportExempt t.name).contains n && t.manualKeys.contains n)) &&
  -- 4
  t.valueFields.all (fun n => t.exportValue.contains n) &&
  -- 5
  t.childFields.all (fun n => t.importChild.contains n && t.exportChild.contains n) &&
  -- 6
  t.pointerFields.all (fun n => t.importValue.contains n || t.manualKeys.contains n) &&
  -- 7
  (if t.emptyLike then t.understood.isEmpty && t.checks.isEmpty && t.imports.isEmpty && t.exports.isEmpty
   else !t.checks.isEmpty && t.checks.all (fun c => sameSet c.names t.understood))

def Consistent (t : ParamTable) : Prop := t.consistentB = true

instance (t : ParamTable) : Decidable t.Consistent := inferInstanceAs (Decidable (_ = true))

/-! ### executable semantics of the constructor, `check_params` and `get` -/

/-- a constructed params struct: the text of every value-imported member and the subtree handed to every child -/
structure Imported where
  values   : List (String × String)
  children : List (String × PTree)
deriving Inhabited

def Imported.value? (i : Imported) (n : String) : Option String := (i.values.find? (·.1 = n)).map (·.2)
def Imported.child? (i : Imported) (n : String) : Option PTree := (i.children.find? (·.1 = n)).map (·.2)

/-- `params(const ptree &p)`: the member initialisers, `dflt n` standing for `params().n` -/
def importT (t : ParamTable) (dflt : String → String) (p : PTree) : Imported :=
  { values := t.importValue.map fun n => (n, p.get n (dflt n)),
    children := t.importChild.map fun n => (n, p.getChild n) }

/-- keys for which `AMGCL_PARAM_UNKNOWN` fires, in firing order (a key can fire once per executed `check_params`);
an `empty_params`-like struct reports every key (util.hpp:211-215) -/
def unknownT (t : ParamTable) (p : PTree) : List String :=
  if t.emptyLike then p.keys
  else t.checks.flatMap fun c => p.keys.filter fun k => !c.names.contains k

/-- names for which `AMGCL_PARAM_MISSING` fires -/
def missingT (t : ParamTable) (p : PTree) : List String :=
  t.checks.flatMap fun c => c.names.filter fun n => p.count n = 0

/-- `void get(ptree &p, path) const` at `path = ""`: the exports in source order.  `childExp name sub acc` is
the child's own exporter writing below `name` (for a child that is a raw `ptree`: `add_child`). -/
def exportT (t : ParamTable) (childExp : String → PTree → PTree → PTree) (prm : Imported) (acc : PTree) : PTree :=
  t.exports.foldl (fun acc (n, via) =>
    match via with
    | Via.value => match prm.value? n with
        | some v => acc.put n v
        | none => acc.put n "default"       -- member never initialised from the tree: keeps `params().n`
    | Via.child => childExp n ((prm.child? n).getD PTree.empty) acc) acc

/-- `get(p, path)` of one struct for the value members only: `p.put(path + name, member)` at the dotted path
`path ++ [name]` (children are exported by `exportAlong` below) -/
def exportValuesAt (t : ParamTable) (prm : Imported) (path : List String) (acc : PTree) : PTree :=
  t.exports.foldl (fun acc (n, via) =>
    match via with
    | Via.value => acc.putPath (path ++ [n]) ((prm.value? n).getD "default")
    | Via.child => acc) acc

/-- Nested configuration along ONE chain of child members: the root struct `t` gets the tree
`{c₁: {c₂: … {f: v}}}`, every struct on the chain hands `cᵢ` to the child's constructor (`IMPORT_CHILD`) and, in
`get`, calls the child's exporter with the path extended by `cᵢ.` (`EXPORT_CHILD` = `member.get(p, path + "cᵢ" + ".")`).
`chain` pairs each child member with the table of the struct it is (template arguments decide that, so the caller
supplies it).  `none` = some table on the chain is unknown or `cᵢ` is not a child member. -/
def exportAlong (find : String → Option ParamTable) (dflt : String → String) :
    ParamTable → List (String × String) → String → String → List String → PTree → Option PTree
  | t, [], f, v, path, acc => some (t.exportValuesAt (t.importT dflt (PTree.empty.put f v)) path acc)
  | t, (c, tn) :: rest, f, v, path, acc =>
    if t.kindOf c != some Kind.child then none else
    match find tn with
    | none => none
    | some t' =>
      let acc := t.exportValuesAt (t.importT dflt PTree.empty) path acc      -- the parent's own value members
      if t.importChild.contains c && t.exportChild.contains c then exportAlong find dflt t' rest f v (path ++ [c]) acc
      else some acc      -- the child never reaches its constructor, or is never exported

/-- the simplest admissible child exporter: re-install the imported subtree (what `params_export_child`'s
`ptree` overload does for the run-time wrappers); an empty child exports nothing -/
def rawChildExp (n : String) (sub acc : PTree) : PTree :=
  if sub.kids.isEmpty then acc else acc.setChild n sub

end ParamTable

/-! ## run-time enums -/

/-- one `switch` over the enum inside a run-time wrapper -/
structure Switch where
  site      : String         -- file:line function
  cases     : List String
  mustCover : Bool           -- `default:` throws (or there is none): every enumerator needs its own case
deriving DecidableEq, Repr, Inhabited

/-- which C++ class the code of each `case` of one wrapper `switch` names (after `new`, inside `static_cast<…*>`,
as explicit template argument of a called function template, through a local typedef): the last component of the
qualified class name, template arguments dropped; `""` when the case names none; several different names joined by
`|`.  One entry per `case` label, in label order (a fall-through label carries the class of the code it falls
into). -/
structure Dispatch where
  site    : String
  classes : List (String × String)
deriving DecidableEq, Repr, Inhabited

/-- `operator<<` / `operator>>` tables and wrapper switches of one run-time enum -/
structure EnumTable where
  name     : String
  file     : String
  values   : List String               -- enumerators in declaration order
  prints   : List (String × String)    -- `case e: return os << "s"`
  parses   : List (String × String)    -- `if (val == "s") x = e`, in chain order
  parseThrows : Bool                   -- the final `else` throws
  switches : List Switch
  /-- per wrapper switch: enumerator ↦ class named by its case (same order as `switches`) -/
  dispatch : List Dispatch := []
deriving Repr, Inhabited

namespace EnumTable

def assoc (k : String) : List (String × String) → Option String
  | [] => none
  | (a, b) :: rest => if a = k then some b else assoc k rest

/-- `os << e` (`"???"` is what the `default:` branch prints) -/
def print (E : EnumTable) (e : String) : String := (assoc e E.prints).getD "???"

/-- `in >> e`: `none` = `std::invalid_argument` -/
def parse (E : EnumTable) (s : String) : Option String := assoc s E.parses

def printedNames (E : EnumTable) : List String := E.values.map E.print

def consistentB (E : EnumTable) : Bool :=
  E.parseThrows && E.values.Nodup &&
  E.values.all (fun e => E.parse (E.print e) == some e) &&
  E.parses.all (fun (s, _) => E.printedNames.contains s) &&
  E.switches.all (fun sw => !sw.mustCover || E.values.all (sw.cases.contains ·))

def Consistent (E : EnumTable) : Prop := E.consistentB = true

instance (E : EnumTable) : Decidable E.Consistent := inferInstanceAs (Decidable (_ = true))

/-- the classes the wrapper switches name for enumerator `e` (switches whose case names no class are skipped) -/
def classesOf (E : EnumTable) (e : String) : List String :=
  E.dispatch.filterMap (fun d => (assoc e d.classes).filter (· ≠ ""))

def allSame : List String → Bool
  | [] => true
  | c :: cs => cs.all (· == c)

/-- every switch of the wrapper (constructor, destructor, apply_pre / apply_post / apply, operator(), bytes, …)
maps an enumerator to the SAME class -/
def sameClassB (E : EnumTable) : Bool := E.values.all (fun e => allSame (E.classesOf e))

def SameClass (E : EnumTable) : Prop := E.sameClassB = true

instance (E : EnumTable) : Decidable E.SameClass := inferInstanceAs (Decidable (_ = true))

/-- does every must-cover switch have a case for `e`? -/
def covered (E : EnumTable) (e : String) : Bool :=
  E.switches.all fun sw => !sw.mustCover || sw.cases.contains e

end EnumTable

end Amgcl.Params
