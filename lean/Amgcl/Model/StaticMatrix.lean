/-!
# `amgcl::static_matrix<T,N,M>` (value_type/static_matrix.hpp:42-398) — core Lean only

A static matrix is its row-major buffer `buf` (`std::array<T, N*M>`), `a(i,j) = buf[i*M+j]`.
Every operation mirrors the C++ loop that implements it:

| C++ | model |
|---|---|
| `operator+=`, `operator-=` (73-85), `operator+`, `operator-` (142-152) | `add`, `sub` : element loops over `buf` |
| `operator*=(T c)` / `operator*(T a, static_matrix x)` (87-97): `buf[i] *= c` | `smul c x` : `x.buf[i] * c` (the scalar multiplies **from the right**, as written) |
| unary `operator-` (99-104) | `neg` |
| `operator*` (154-172): `c(i,j) = 0; for k: c(i,j) += a(i,k) * b(k,j)` | `mul` |
| `adjoint_impl` (241-253): `y(j,i) = adjoint(x(i,j))` | `adjoint conj` (`transpose = adjoint id`) |
| `inner_product_impl` N×1 (255-266): `sum += x(i) * adjoint(y(i))` | `innerVec conj` |
| `inner_product_impl` N×M (268-286): `p(i,j) = Σ_k x(k,i) * adjoint(y(k,j))` | `innerMat conj` |
| `norm_impl` (288-298): `sqrt(norm(Σ_i x(i) * adjoint(x(i))))` | `norm sqrt abs conj` |
| `zero_impl`, `identity_impl`, `constant_impl`, `is_zero_impl` (300-358) | `zero`, `identity`, `const`, `isZero` |
| `operator<` (106-119): compares traces | `ltTrace` |

`conj` is the scalar `math::adjoint` (the identity for real scalars), `sqrt`/`abs` are parameters of `norm`
(DESIGN.md §2.1).  `math::inverse` of a square static matrix is `detail::inverse` — see `Model/Inverse.lean`.
-/
namespace Amgcl

structure SMat (K : Type) (N M : Nat) where
  buf : Array K
deriving DecidableEq, Repr

namespace SMat
variable {K : Type}

section basic
variable [Zero K]

/-- `a(i,j) = buf[i*M + j]` -/
@[inline] def get {N M : Nat} (a : SMat K N M) (i j : Nat) : K := a.buf.getD (i * M + j) 0
/-- `a(i) = buf[i]` -/
@[inline] def get1 {N M : Nat} (a : SMat K N M) (i : Nat) : K := a.buf.getD i 0

/-- build from an entry function (row-major buffer of length `N*M`) -/
def ofFn {N M : Nat} (f : Nat → Nat → K) : SMat K N M :=
  ⟨Array.ofFn (n := N * M) (fun idx => f (idx.val / M) (idx.val % M))⟩

/-- well-formed: the buffer has exactly `N*M` entries (always true for `std::array<T,N*M>`) -/
def WF {N M : Nat} (a : SMat K N M) : Prop := a.buf.size = N * M
instance {N M : Nat} (a : SMat K N M) : Decidable a.WF := by unfold WF; infer_instance

/-- `zero_impl`: `z(i) = 0` -/
def zero {N M : Nat} : SMat K N M := ⟨Array.ofFn (n := N * M) (fun _ => (0 : K))⟩
instance {N M : Nat} : Zero (SMat K N M) := ⟨zero⟩

/-- `constant_impl`: `C(i) = c` -/
def const {N M : Nat} (c : K) : SMat K N M := ⟨Array.ofFn (n := N * M) (fun _ => c)⟩

/-- `identity_impl`: `I(i,j) = (i == j)` -/
def identity [One K] {N : Nat} : SMat K N N := ofFn (fun i j => if i = j then 1 else 0)

/-- `is_zero_impl`: all entries are zero -/
def isZero [DecidableEq K] {N M : Nat} (a : SMat K N M) : Bool :=
  (List.range (N * M)).all (fun i => decide (a.get1 i = 0))

end basic

section arith
variable [Zero K] [Add K] [Sub K] [Mul K] [Neg K]

/-- `operator+=`: `buf[i] += y.buf[i]` -/
def add {N M : Nat} (a b : SMat K N M) : SMat K N M :=
  ⟨Array.ofFn (n := N * M) (fun i => a.get1 i + b.get1 i)⟩
/-- `operator-=`: `buf[i] -= y.buf[i]` -/
def sub {N M : Nat} (a b : SMat K N M) : SMat K N M :=
  ⟨Array.ofFn (n := N * M) (fun i => a.get1 i - b.get1 i)⟩
/-- unary minus: `x.buf[i] = -x.buf[i]` -/
def neg {N M : Nat} (a : SMat K N M) : SMat K N M :=
  ⟨Array.ofFn (n := N * M) (fun i => - a.get1 i)⟩
/-- `operator*(T a, static_matrix x) { return x *= a; }`: `buf[i] *= c` -/
def smul {N M : Nat} (c : K) (a : SMat K N M) : SMat K N M :=
  ⟨Array.ofFn (n := N * M) (fun i => a.get1 i * c)⟩

/-- `operator*`: `c(i,j) = 0; for k < P: c(i,j) += a(i,k) * b(k,j)` -/
def mul {N P M : Nat} (a : SMat K N P) (b : SMat K P M) : SMat K N M :=
  ofFn (fun i j => (List.range P).foldl (fun s k => s + a.get i k * b.get k j) 0)

/-- `adjoint_impl`: `y(j,i) = adjoint(x(i,j))` -/
def adjoint {N M : Nat} (conj : K → K) (a : SMat K N M) : SMat K M N :=
  ofFn (fun j i => conj (a.get i j))
def transpose {N M : Nat} (a : SMat K N M) : SMat K M N := adjoint id a

/-- `inner_product_impl<static_matrix<T,N,1>>`: `sum += x(i) * adjoint(y(i))` -/
def innerVec {N : Nat} (conj : K → K) (x y : SMat K N 1) : K :=
  (List.range N).foldl (fun s i => s + x.get1 i * conj (y.get1 i)) 0

/-- `inner_product_impl<static_matrix<T,N,M>>`: `p(i,j) = Σ_k x(k,i) * adjoint(y(k,j))` -/
def innerMat {N M : Nat} (conj : K → K) (x y : SMat K N M) : SMat K M M :=
  ofFn (fun i j => (List.range N).foldl (fun s k => s + x.get k i * conj (y.get k j)) 0)

/-- the sum under the root of `norm_impl`: `s += x(i) * adjoint(x(i))` -/
def normSq {N M : Nat} (conj : K → K) (x : SMat K N M) : K :=
  (List.range (N * M)).foldl (fun s i => s + x.get1 i * conj (x.get1 i)) 0

/-- `norm_impl`: `sqrt(math::norm(s))` (Frobenius norm) -/
def norm {N M : Nat} (sqrt abs conj : K → K) (x : SMat K N M) : K := sqrt (abs (normSq conj x))

/-- trace over the leading `min N M` diagonal, as in `operator<` -/
def trace {N M : Nat} (a : SMat K N M) : K :=
  (List.range (min N M)).foldl (fun s i => s + a.get i i) 0
/-- `operator<`: `xtrace < ytrace` -/
def ltTrace [LT K] [DecidableLT K] {N M : Nat} (x y : SMat K N M) : Bool := decide (trace x < trace y)

instance {N M : Nat} : Add (SMat K N M) := ⟨add⟩
instance {N M : Nat} : Sub (SMat K N M) := ⟨sub⟩
instance {N M : Nat} : Neg (SMat K N M) := ⟨neg⟩
instance {N P M : Nat} : HMul (SMat K N P) (SMat K P M) (SMat K N M) := ⟨mul⟩

end arith

end SMat
end Amgcl
