import Amgcl.Model.CoarseningCommon
/-!
# `backend::pointwise_matrix(A, block_size)` (builtin.hpp:500-661), modelled as it is written

For every block row `ip` the code keeps one cursor `j[k]` per scalar row `ia+k` and repeatedly
(`while(!done)`) emits the block column `cur_col / block_size`, scanning every scalar row forward while its
columns are below `col_end = (cur_col+1)*block_size`; the block value is the maximum of `math::norm` of the
scanned values, and the smallest column `≥ col_end` met becomes the next `cur_col`.

The cursor is advanced only after the test `if (c >= col_end) { …; break; }` (the form after the /repo commit
"fix: pointwise_matrix drops the first entry of every following block column"; before it the stopping entry was
consumed and its value never entered a maximum — found by the Kronecker-lift oracle of C04).  The counting pass
(l.528-581) and the filling pass (l.591-659) traverse identically, so one traversal yields both `ptr` and
`col/val`.  Every round consumes at least the entry whose column is the current minimum, so the number of rounds
is at most the number of stored entries of the block row (the fuel).
-/
namespace Amgcl
namespace Coarsening
variable {K : Type} [Zero K] [LT K] [DecidableLT K]

/-- `std::max(a, b)` = `(a < b) ? b : a` -/
@[inline] def stdMax {α : Type} [LT α] [DecidableLT α] (a b : α) : α := if a < b then b else a
/-- `std::min(a, b)` = `(b < a) ? b : a` -/
@[inline] def stdMin {α : Type} [LT α] [DecidableLT α] (a b : α) : α := if b < a then b else a

/-- state of one `while(!done)` round while the `k` loop runs: `done`, `cur_col`, `first`, `cur_val` -/
structure PwRound (K : Type) where
  done   : Bool
  curCol : Nat
  first  : Bool
  curVal : K

/-- l.543-548 / 565-570 / 632-637: note a column for the next round -/
@[inline] def PwRound.see (s : PwRound K) (c : Nat) : PwRound K :=
  if s.done then { s with done := false, curCol := c } else { s with curCol := stdMin s.curCol c }

/-- l.643-648 -/
@[inline] def PwRound.val (s : PwRound K) (v : K) : PwRound K :=
  if s.first then { s with first := false, curVal := v } else { s with curVal := stdMax s.curVal v }

/-- the inner `while(beg < end)` of one scalar row (l.626-649): returns the state and the unread rest of the row
(the stopping entry stays unread). -/
def pwScan (norm : K → K) (colEnd : Nat) : Row K → PwRound K → PwRound K × Row K
  | [], s => (s, [])
  | (c, v) :: t, s =>
    if c ≥ colEnd then (s.see c, (c, v) :: t)
    else pwScan norm colEnd t (s.val (norm v))

/-- the `for k` loop of one round over the cursors of the block row -/
def pwRoundRows (norm : K → K) (colEnd : Nat) (rows : List (Row K)) (s : PwRound K) : PwRound K × List (Row K) :=
  rows.foldl (fun (acc : PwRound K × List (Row K)) r =>
    let res := pwScan norm colEnd r acc.1
    (res.1, acc.2 ++ [res.2])) (s, [])

/-- `while(!done)` (l.612-655) with fuel; emits `(block column, block value)` pairs -/
def pwWhile (norm : K → K) (b : Nat) : Nat → Bool → Nat → List (Row K) → Row K → Row K
  | 0, _, _, _, acc => acc
  | fuel + 1, done, curCol, rows, acc =>
    if done then acc else
      let cc := curCol / b
      let res := pwRoundRows norm ((cc + 1) * b) rows { done := true, curCol := cc, first := true, curVal := 0 }
      pwWhile norm b fuel res.1.done res.1.curCol res.2 (acc ++ [(cc, res.1.curVal)])

/-- l.596-610: the first column of every non-empty scalar row -/
def pwInit (rows : List (Row K)) : PwRound K :=
  rows.foldl (fun (s : PwRound K) r =>
    match r with
    | [] => s
    | (c, _) :: _ => s.see c) { done := true, curCol := 0, first := true, curVal := 0 }

/-- one block row `ip` -/
def pwBlockRow (norm : K → K) (b : Nat) (rows : List (Row K)) : Row K :=
  let s0 := pwInit rows
  let fuel := (rows.foldl (fun n r => n + r.length) 0) + 1
  pwWhile norm b fuel s0.done s0.curCol rows []

end Coarsening

open Coarsening in
/-- `backend::pointwise_matrix(A, block_size)`; `norm` is `math::norm` of the value type.
`block_size = 0` would divide by zero in C++ and is rejected by the driver, here it yields `precondition`. -/
def pointwiseMatrix {K : Type} [Zero K] [LT K] [DecidableLT K]
    (norm : K → K) (A : CRS K) (b : Nat) : Outcome (CRS K) :=
  if b = 0 then .precondition else
  let np := A.nrows / b
  let mp := A.ncols / b
  if np * b ≠ A.nrows then .precondition else
  .ok { ncols := mp,
        rows := Array.ofFn (n := np) fun ip =>
          pwBlockRow norm b ((List.range b).map fun k => A.row (ip.val * b + k)) }

end Amgcl
