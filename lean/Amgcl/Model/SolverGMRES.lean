import Amgcl.Model.SolverGivens
/-!
# `amgcl::solver::gmres::operator()(A, P, rhs, x)` — solver/gmres.hpp:163-267, statement by statement

Restarted GMRES(M), both preconditioning sides.  Control flow of the code:

    while (true) {                                   -- outer (restart) loop
        r = f − A x   (left: r = P(f − A x))         -- `head`: the ONLY place `norm_r` is assigned
        norm_r = norm(r);
        if (norm_r < eps || iter >= maxiter) break;  -- the ONLY exit
        v[0] = r / norm_r;  s = (norm_r, 0, …);
        do { Arnoldi step j; ++j, ++iter; } while (!(iter >= maxiter || j >= M || inner_res <= eps));
        back substitution;  x += (P) Σ s_i v_i;      -- `cycle`
    }
    return (iter, norm_r / norm_rhs);

so the reported `norm_r` is always the norm of a residual that has just been recomputed from the returned `x`.
The outer loop is `loopN` over states produced by `head` with fuel `maxiter` (every `cycle` makes at least one
iteration, so the fuel can never run out before the `break` — theorem `GMRES.outer_fuel_ok`), the inner `do … while`
is `doWhile` with fuel `M` (guard `j >= M`).
-/
namespace Amgcl.Solver.GMRES
open Amgcl Amgcl.Solver

/-- the `mutable` members `H, s, cs, sn` and the vectors `r`, `v[0..M]` (gmres.hpp:311-315) -/
structure Work (K : Type) where
  h : Hess K
  r : Vec K
  v : FArr (Vec K)

/-- a freshly constructed solver for size `n` (`Backend::create_vector` zero-fills; `multi_array`/`std::vector`
value-initialise) -/
def Work.fresh {K : Type} [Zero K] (n : Nat) : Work K :=
  ⟨Hess.fresh, Array.replicate n 0, .const (Array.replicate n 0)⟩

/-- `gmres::params`: the common fields + `M`, `pside` -/
structure Params (K : Type) extends Amgcl.Solver.Params K where
  M     : Nat
  pside : Side

/-- locals that live across passes of the outer loop, the caller's `x`, the work arrays -/
structure St (K : Type) where
  iter  : Nat
  normR : K
  x     : Vec K
  w     : Work K

/-- locals of the inner loop (`x` is not touched there) -/
structure In (K : Type) where
  j        : Nat
  iter     : Nat
  innerRes : K
  w        : Work K

variable {K : Type} [Add K] [Mul K] [Sub K] [Neg K] [Zero K] [One K] [Div K] [DecidableEq K] [LT K] [DecidableLT K]

/-- gmres.hpp:191-199: recompute the (preconditioned) residual of the current `x` and its norm -/
def head (side : Side) (ip : Vec K → Vec K → K) (sqrt : K → K) (A : CRS K) (P : Vec K → Vec K) (f : Vec K)
    (st : St K) : St K :=
  match side with
  | .left =>
    let v0 := residual f A st.x                                   -- backend::residual(rhs, A, x, *v[0]);
    let r := P v0                                                 -- P.apply(*v[0], *r);
    { st with normR := nrmA ip sqrt r,                            -- norm_r = norm(*r);
              w := { st.w with r := r, v := setF st.w.v 0 v0 } }
  | .right =>
    let r := residual f A st.x                                    -- backend::residual(rhs, A, x, *r);
    { st with normR := nrmA ip sqrt r, w := { st.w with r := r } }

/-- gmres.hpp:199: `if (norm_r < eps || iter >= prm.maxiter) break;` -/
def stop (maxiter : Nat) (epsT : K) (st : St K) : Bool :=
  decide (st.normR < epsT) || decide (maxiter ≤ st.iter)

/-- one pass of the inner loop body, gmres.hpp:208-238, including `++j, ++iter` -/
def step (side : Side) (ip : Vec K → Vec K → K) (sqrt : K → K) (A : CRS K) (P : Vec K → Vec K) (t : In K) : In K :=
  let w := t.w
  let j := t.j
  let xt := pspmv side P A (w.v j) (w.v (j + 1)) w.r     -- preconditioner::spmv(prm.pside, P, A, *v[j], v_new, *r);
  let hs := hessStep ip sqrt w.v j w.h xt.1
  { j := j + 1, iter := t.iter + 1, innerRes := hs.2.2,
    w := { h := hs.1, r := xt.2, v := setF w.v (j + 1) hs.2.1 } }

/-- negation of gmres.hpp:239: `if (iter >= prm.maxiter || j >= prm.M || inner_res <= eps) break;` -/
def cont (maxiter M : Nat) (epsT : K) (t : In K) : Bool :=
  !(decide (maxiter ≤ t.iter) || decide (M ≤ t.j) || !decide (epsT < t.innerRes))

/-- gmres.hpp:201-206: the state on entry of the inner loop -/
def cycleStart (st : St K) : In K :=
  let w := st.w
  let v0 := axpby (inv1 st.normR) w.r 0 (w.v 0)          -- backend::axpby(math::inverse(norm_r), *r, zero, *v[0]);
  { j := 0, iter := st.iter, innerRes := 0,
    w := { w with h := { w.h with s := sInit st.normR },  -- std::fill(s.begin(), s.end(), 0); s[0] = norm_r;
                  v := setF w.v 0 v0 } }

/-- gmres.hpp:207-241: the inner `while(true) { … if (…) break; }` = `do … while`, fuel `M` -/
def inner (prm : Params K) (ip : Vec K → Vec K → K) (sqrt : K → K) (A : CRS K) (P : Vec K → Vec K) (epsT : K)
    (st : St K) : In K :=
  doWhile (cont prm.maxiter prm.M epsT) (step prm.pside ip sqrt A P) prm.M (cycleStart st)

/-- gmres.hpp:243-264: back substitution and the update of `x` after the inner loop ended in state `t` -/
def update (side : Side) (P : Vec K → Vec K) (st : St K) (t : In K) : St K :=
  let s := backSubst t.j t.w.h.H t.w.h.s                  -- for (i = j; i --> 0; ) { … }
  let dx := linComb (combList t.j s.get t.w.v.get) 0 t.w.r        -- vector &dx = *r; backend::lin_comb(j, s, v, zero, dx);
  match side with
  | .left =>
    { iter := t.iter, normR := st.normR,
      x := axpby 1 dx 1 st.x,                              -- backend::axpby(one, dx, one, x);
      w := { t.w with h := { t.w.h with s := s }, r := dx } }
  | .right =>
    let tmp := P dx                                        -- vector &tmp = *v[0]; P.apply(dx, tmp);
    { iter := t.iter, normR := st.normR,
      x := axpby 1 tmp 1 st.x,                             -- backend::axpby(one, tmp, one, x);
      w := { h := { t.w.h with s := s }, r := dx, v := setF t.w.v 0 tmp } }

/-- gmres.hpp:201-264: one restart cycle (entered when the stopping test failed) -/
def cycle (prm : Params K) (ip : Vec K → Vec K → K) (sqrt : K → K) (A : CRS K) (P : Vec K → Vec K) (epsT : K)
    (st : St K) : St K :=
  update prm.pside P st (inner prm ip sqrt A P epsT st)

/-- the outer `while(true)` over the states at the `break` test, `fuel = maxiter` -/
def outer (prm : Params K) (ip : Vec K → Vec K → K) (sqrt : K → K) (A : CRS K) (P : Vec K → Vec K) (f : Vec K)
    (epsT : K) : Nat → St K → St K :=
  loopN (fun s => !stop prm.maxiter epsT s)
    (fun s => head prm.pside ip sqrt A P f (cycle prm ip sqrt A P epsT s))

/-- the state at the first `break` test (gmres.hpp:186-199) -/
def init (prm : Params K) (ip : Vec K → Vec K → K) (sqrt : K → K) (A : CRS K) (P : Vec K → Vec K)
    (ws : Work K) (f x0 : Vec K) : St K :=
  head prm.pside ip sqrt A P f { iter := 0, normR := 0, x := x0, w := ws }   -- norm_r = zero; iter = 0;

def run (prm : Params K) (ip : Vec K → Vec K → K) (sqrt : K → K) (eps : K) (A : CRS K) (P : Vec K → Vec K)
    (ws : Work K) (f x0 : Vec K) : Run K (Work K) :=
  match prologueA prm.nsSearch ip sqrt eps f with
  | .trivial n => (.ok (0, n), vclear x0.size, ws)       -- clear(x); return (0, norm_rhs);
  | .go normRhs =>
    let epsT := maxK (prm.tol * normRhs) prm.abstol       -- eps = std::max(prm.tol * norm_rhs, prm.abstol);
    let st := outer prm ip sqrt A P f epsT prm.maxiter (init prm ip sqrt A P ws f x0)
    (.ok (st.iter, st.normR / normRhs), st.x, st.w)       -- return (iter, norm_r / norm_rhs);

def solve (prm : Params K) (ip : Vec K → Vec K → K) (sqrt : K → K) (eps : K) (A : CRS K) (P : Vec K → Vec K)
    (ws : Work K) (f x0 : Vec K) : Except Err (Nat × K × Vec K × Work K) :=
  (run prm ip sqrt eps A P ws f x0).toExcept

/-- one call on a solver object in work-array state `w`: the observable result and the next state -/
def call (prm : Params K) (ip : Vec K → Vec K → K) (sqrt : K → K) (eps : K) (w : Work K) (c : Call K) :
    Obs K × Work K :=
  let r := run prm ip sqrt eps c.A c.P w c.f c.x0
  (r.obs, r.ws)

end Amgcl.Solver.GMRES
