import Amgcl.Model.Primitives
/-!
# Conventions shared by all Krylov-solver models (C01, C05, C15) — core Lean only

Every `amgcl::solver::X<Backend, InnerProduct>::operator()(A, P, rhs, x)` is modelled as

    X.run  (prm) (ip : Vec K → Vec K → K) (sqrt : K → K) (eps : K) (A : CRS K) (P : Vec K → Vec K)
           (ws : X.Work K) (f x0 : Vec K) : Run K (X.Work K)
    X.solve … : Except Err (Nat × K × Vec K × X.Work K)        -- `(X.run …).toExcept`

* `prm`   the solver's `params` record (`verbose` only prints and is not modelled),
* `ip`    the `InnerProduct` functor of the solver (serial Kahan sum `stdIp` in the driver; any function in the
          theorems — the distributed reduction of C12 is another instance),
* `sqrt`  the scalar square root (`Amgcl.rsqrt` in the driver, `vq::sqrt` in the harness),
* `eps`   the value of `amgcl::detail::eps<scalar_type>(1)` (`2·numeric_limits::epsilon()`, util.hpp:365),
* `P`     **preconditioner-as-function convention**: `P.apply(rhs, x)` is `x := P rhs`; the output never depends
          on the previous content of `x` (statefulness of the preconditioner object itself — level scratch
          vectors of `amg` — is the subject of C02/C15 for the preconditioners, not of the solver models),
* `ws`    the `mutable` work vectors of the solver object, explicit state in and out,
* `Run`   what is observable after the call **on every path**: the returned tuple or the exception kind,
          the caller's vector `x` (partially updated when an exception is thrown) and the work vectors.

The `while`/`for` loop of each solver is a structural recursion on `fuel`, started with `fuel = maxiter`: the
fuel *is* the loop guard `iter < prm.maxiter`.
-/
namespace Amgcl.Solver

/-- `amgcl::preconditioner::side::type` (solver/precond_side.hpp:43-46) -/
inductive Side where
  | left | right
  deriving DecidableEq, Repr, Inhabited

/-- which `precondition(...)` of a solver failed (`std::runtime_error`, util.hpp:90-99).  The line protocol
prints all of them as the single token `precondition` (exception texts are not compared). -/
inductive Err where
  | zeroRho      -- bicgstab.hpp:204, bicgstabl.hpp:267
  | zeroOmega    -- bicgstab.hpp:226, bicgstabl.hpp:372, idrs.hpp:379
  | zeroSigma    -- bicgstabl.hpp:279
  | zeroPivot    -- idrs.hpp:342
  | badParam     -- bicgstabl.hpp:191
  deriving DecidableEq, Repr, Inhabited

def Err.token (_ : Err) : String := "precondition"

/-- result of one call: outcome (returned `(iters, residual)` or exception), the caller's `x`, the work vectors -/
abbrev Run (K W : Type) := Except Err (Nat × K) × Vec K × W

namespace Run
variable {K W : Type}
@[inline] def out (r : Run K W) : Except Err (Nat × K) := r.1
@[inline] def x (r : Run K W) : Vec K := r.2.1
@[inline] def ws (r : Run K W) : W := r.2.2
/-- what a caller can observe of a call: outcome and solution vector -/
@[inline] def obs (r : Run K W) : Except Err (Nat × K) × Vec K := (r.1, r.2.1)
/-- the `Except`-valued form: an exception discards `x` and the work vectors -/
def toExcept (r : Run K W) : Except Err (Nat × K × Vec K × W) :=
  match r.1 with
  | .ok (it, res) => .ok (it, res, r.2.1, r.2.2)
  | .error e => .error e
end Run

/-- the fields common to every solver's `params` -/
structure Params (K : Type) where
  maxiter  : Nat
  tol      : K
  abstol   : K
  nsSearch : Bool
  deriving Repr

section ops
variable {K : Type} [Add K] [Mul K] [Sub K] [Neg K] [Zero K] [One K] [Div K] [DecidableEq K] [LT K] [DecidableLT K]

/-- `std::abs` on the scalar type (`math::norm` of a scalar, value_type/interface.hpp:101-105) -/
def absK (x : K) : K := if x < 0 then -x else x

/-- `std::max(a, b)` : `(a < b) ? b : a` -/
def maxK (a b : K) : K := if a < b then b else a

/-- the literal `2` of `2 * eps` -/
def two : K := 1 + 1

/-- the private `norm()` of every solver: `sqrt(math::norm(inner_product(x, x)))` -/
def nrm (ip : Vec K → Vec K → K) (sqrt : K → K) (v : Vec K) : K := sqrt (absK (ip v v))

/-- `detail::default_inner_product` on the builtin backend with one thread -/
def stdIp : Vec K → Vec K → K := innerProductSerial id

/-- the common prologue (cg.hpp:160-168 and verbatim in every other solver):
```
scalar_type norm_rhs = norm(rhs);
if (norm_rhs < eps(1)) { if (prm.ns_search) norm_rhs = 1; else { clear(x); return (0, norm_rhs); } }
```
`trivial n` = the early return (reports `n = ‖rhs‖`), `go n` = continue with `norm_rhs = n`. -/
inductive Prologue (K : Type) where
  | trivial (normRhs : K)
  | go (normRhs : K)

def prologue (nsSearch : Bool) (ip : Vec K → Vec K → K) (sqrt : K → K) (eps : K) (f : Vec K) : Prologue K :=
  let normRhs := nrm ip sqrt f
  if normRhs < eps then
    if nsSearch then .go 1 else .trivial normRhs
  else .go normRhs

/-- the `norm_rhs` every later statement uses (meaningful when the call does not return early) -/
def normRhs (nsSearch : Bool) (ip : Vec K → Vec K → K) (sqrt : K → K) (eps : K) (f : Vec K) : K :=
  match prologue nsSearch ip sqrt eps f with
  | .trivial n => n
  | .go n => n

/-- `preconditioner::spmv(pside, P, A, F, X, T)` (precond_side.hpp:75-92): returns the new `(X, T)`.
left: `T = A F; X = P T`; right: `T = P F; X = A T`. -/
def pspmv (side : Side) (P : Vec K → Vec K) (A : CRS K) (F X T : Vec K) : Vec K × Vec K :=
  match side with
  | .left  => let T' := spmv 1 A F 0 T; (P T', T')
  | .right => let T' := P F; (spmv 1 A T' 0 X, T')

end ops

/-- `for(; iter < maxiter && cond; ++iter) body` as structural recursion on `fuel = maxiter - iter`
(the fuel *is* the guard `iter < maxiter`; `body` includes the `++iter`). -/
def loopN {σ : Type} (cond : σ → Bool) (body : σ → σ) : Nat → σ → σ
  | 0, s => s
  | fuel + 1, s => if cond s then loopN cond body fuel (body s) else s

/-- the same loop with a body that may throw: `.error (e, s)` = exception `e` raised in program state `s`.
Result: `(none, s)` normal loop exit in state `s`, `(some e, s)` exception. -/
def loopE {σ ε : Type} (cond : σ → Bool) (body : σ → Except (ε × σ) σ) : Nat → σ → Option ε × σ
  | 0, s => (none, s)
  | fuel + 1, s =>
    if cond s then
      match body s with
      | .error (e, s') => (some e, s')
      | .ok s' => loopE cond body fuel s'
    else (none, s)

/-- the arguments of one call `S(A, P, rhs, x)` on a solver object (the matrix may differ from call to call,
as the documentation of `operator()` allows) -/
structure Call (K : Type) where
  A  : CRS K
  P  : Vec K → Vec K
  f  : Vec K
  x0 : Vec K

/-- what a caller observes of a call: outcome and the vector `x` (also after an exception) -/
abbrev Obs (K : Type) := Except Err (Nat × K) × Vec K

/-- **History semantics of a solver object** (C15): the object is its work-vector state `W`; a call `c`
maps the state to an observable result and the next state.  `history step w cs` runs the calls `cs` one after
the other on ONE object, threading the work vectors (also through calls that end in an exception). -/
def history {W C O : Type} (step : W → C → O × W) : W → List C → List O
  | _, [] => []
  | w, c :: cs => (step w c).1 :: history step (step w c).2 cs

end Amgcl.Solver
