import Amgcl.Model.Lockstep
import Amgcl.Model.SolverRichardson
/-!
# `amgcl::solver::richardson::operator()` as a program over the solver instruction set (C12) — core Lean only

The statements of solver/richardson.hpp:144-180 in the instruction set of `Model/Lockstep.lean`; the scalar state of a
rank is the record `S` of the scalar locals.  `Proofs/LockstepRichardson.lean` proves that the SERIAL semantics of
this program is the statement-by-statement model `Solver.Richardson.run` (C01/C05); its DISTRIBUTED semantics is what
`mpi::solver::richardson` executes.
-/
namespace Amgcl.Lockstep.Richardson
open Amgcl Amgcl.Solver Amgcl.Lockstep

-- vector registers
def vF : Nat := 0   -- rhs
def vX : Nat := 1   -- x
def vR : Nat := 2   -- *r
def vS : Nat := 3   -- *s

/-- the scalar locals of `operator()` -/
structure S (K : Type) where
  iter : Nat
  res  : K      -- res_norm
  nrhs : K      -- norm_rhs
  epsT : K      -- eps
  out  : K      -- the returned residual

variable {K : Type} [Add K] [Mul K] [Sub K] [Neg K] [Zero K] [One K] [Div K] [DecidableEq K] [LT K] [DecidableLT K]

/-- richardson.hpp:170-173, one pass through the loop body including `++iter` -/
def bodyProg (damping : K) (sqrt : K → K) : Prog K (S K) := seqs [
  .prim (.precond (R vR) (R vS)),                                            -- P.apply(*r, *s)
  .prim (.axpby (fun _ => damping) (R vS) (fun _ => 1) (R vX)),              -- axpby(prm.damping, *s, one, x)
  .prim (.residual (R vF) (R vX) (R vR)),                                    -- residual(rhs, A, x, *r)
  .prim (.ip (fun e v => { e with res := sqrt (Solver.absK v) }) (R vR) (R vR)),    -- res_norm = norm(*r)
  .prim (.sset (fun e => { e with iter := e.iter + 1 }))]                    -- ++iter

/-- richardson.hpp:160-180 after the prologue -/
def mainProg (prm : Solver.Richardson.Params K) (sqrt : K → K) : Prog K (S K) := seqs [
  .prim (.sset (fun e => { e with epsT := Solver.maxK (prm.tol * e.nrhs) prm.abstol })),   -- eps = max(tol * norm_rhs, abstol)
  .prim (.residual (R vF) (R vX) (R vR)),                                    -- residual(rhs, A, x, *r)
  .prim (.ip (fun e v => { e with res := sqrt (Solver.absK v) }) (R vR) (R vR)),    -- res_norm = norm(*r)
  .prim (.sset (fun e => { e with iter := 0 })),                             -- iter = 0
  .loop prm.maxiter (fun e => decide (e.epsT < Solver.absK e.res))                  -- for(; iter < maxiter && norm(res) > eps;)
    (bodyProg prm.damping sqrt),
  .prim (.sset (fun e => { e with out := e.res / e.nrhs }))]                 -- return (iter, res_norm / norm_rhs)

/-- the whole `operator()` -/
def prog (prm : Solver.Richardson.Params K) (sqrt : K → K) (eps : K) : Prog K (S K) :=
  .seq (.prim (.ip (fun e v => { e with nrhs := sqrt (Solver.absK v) }) (R vF) (R vF)))   -- norm_rhs = norm(rhs)
    (.ite (fun e => decide (e.nrhs < eps))
      (if prm.nsSearch then .seq (.prim (.sset (fun e => { e with nrhs := 1 }))) (mainProg prm sqrt)   -- norm_rhs = 1
       else seqs [.prim (.clear (R vX)),                                      -- clear(x); return (0, norm_rhs)
                  .prim (.sset (fun e => { e with iter := 0, out := e.nrhs }))])
      (mainProg prm sqrt))

/-- the program state of a call `S(A, P, rhs, x)` on a solver with work vectors `ws` -/
def initState (ws : Solver.Richardson.Work K) (f x0 : Vec K) : St K (S K) :=
  { vec := fun v => if v = vF then f else if v = vX then x0 else if v = vR then ws.r else ws.s,
    scal := ⟨0, 0, 0, 0, 0⟩ }

/-- what `operator()` returns, read off a rank's scalars -/
def outOf (e : S K) : Nat × K := (e.iter, e.out)

end Amgcl.Lockstep.Richardson
