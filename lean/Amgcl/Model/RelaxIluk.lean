import Amgcl.Model.RelaxIlu
import Amgcl.Model.RelaxCheck
/-!
# ILU(k) as written (relaxation/iluk.hpp:96-161, 209-266)

The working row `sparse_vector w` is modelled densely: `w[c] = some (val, lev)` iff column `c` has a slot
(`idx[c] >= 0`).  The priority queue `q` delivers the slots with column `< i` in increasing column order, including
slots created while the row is processed (their column is larger than the current one, because `U` is strictly
upper); a loop over `c = 0 .. i-1` that skips empty slots visits the same slots in the same order.

`add(col, val, lev)` (lines 236-246): a **new** slot is created only if `lev <= lfil` — otherwise the contribution is
discarded —, an existing slot accumulates the value and takes the minimum level.  This is the code as it is; see
`C06.iluk_not_on_pattern_counterexample` for what it implies.

No pivot check: `D[i] = inverse(val)`; with total division a zero pivot gives `D[i] = 0`.  A row whose working
vector has no diagonal slot leaves `D[i]` unwritten: outcome `undefinedInput`.
-/
namespace Amgcl
namespace Relax
variable {K : Type} [Add K] [Mul K] [Sub K] [Neg K] [Zero K] [One K] [Div K]

/-- the working row -/
abbrev IlukRow (K : Type) := Array (Option (K × Nat))

/-- `sparse_vector::add` -/
def ilukAdd (lfil : Nat) (w : IlukRow K) (col : Nat) (val : K) (lev : Nat) : IlukRow K :=
  match w.getD col none with
  | none => if lev ≤ lfil then w.setIfInBounds col (some (val, lev)) else w
  | some (v, l) => w.setIfInBounds col (some (v + val, min l lev))

/-- finished rows of `U` carry their levels (`Ucol, Uval, Ulev`) -/
abbrev IlukURow (K : Type) := List (Nat × K × Nat)

/-- one pivot step: `a.val *= D[a.col]; for j in U[a.col]: w.add(Ucol[j], -a.val*Uval[j], max(a.lev, Ulev[j]) + 1)` -/
def ilukPivot (lfil : Nat) (U : Array (IlukURow K)) (D : Vec K) (w : IlukRow K) (c : Nat) : IlukRow K :=
  match w.getD c none with
  | none => w
  | some (v, l) =>
    let a := v * D.getD c 0
    let w := w.setIfInBounds c (some (a, l))
    (U.getD c []).foldl (fun w e => ilukAdd lfil w e.1 (-a * e.2.1) (max l e.2.2 + 1)) w

/-- state of the constructor loop -/
structure IlukState (K : Type) where
  L : Array (Row K)
  U : Array (IlukURow K)
  D : Vec K

/-- row `i` of the constructor -/
def ilukRow (lfil n : Nat) (S : IlukState K) (i : Nat) (r : Row K) : SetupOutcome (IlukState K) :=
  let w0 : IlukRow K := r.foldl (fun w cv => ilukAdd lfil w cv.1 cv.2 0) (Array.replicate n none)
  let w := (List.range i).foldl (ilukPivot lfil S.U S.D) w0
  match w.getD i none with
  | none => .undefinedInput
  | some (d, _) =>
    let lrow : Row K := (List.range i).filterMap (fun c => (w.getD c none).map (fun e => (c, e.1)))
    let urow : IlukURow K := (List.range n).filterMap (fun c =>
      if i < c then (w.getD c none).map (fun e => (c, e.1, e.2)) else none)
    .ok { L := S.L.push lrow, U := S.U.push urow, D := S.D.push (1 / d) }

def ilukLoop (lfil : Nat) (A : CRS K) : List Nat → IlukState K → SetupOutcome (IlukState K)
  | [], S => .ok S
  | i :: rest, S =>
    match ilukRow lfil A.nrows S i (A.row i) with
    | .ok S' => ilukLoop lfil A rest S'
    | .precondition => .precondition
    | .undefinedInput => .undefinedInput

/-- `iluk::iluk(A, prm, bprm)` up to the construction of `ilu_solve` -/
def ilukFactor (lfil : Nat) (A : CRS K) : SetupOutcome (IluFactors K) :=
  match ilukLoop lfil A (List.range A.nrows) { L := #[], U := #[], D := #[] } with
  | .ok S => .ok { L := ⟨A.nrows, S.L⟩, U := ⟨A.nrows, S.U.map (fun r => r.map (fun e => (e.1, e.2.1)))⟩, D := S.D }
  | .precondition => .precondition
  | .undefinedInput => .undefinedInput

/-- ILU(k) with damping `ω` and the serial triangular solve (same sweeps as ILU(0)) -/
def iluk [DecidableEq K] (lfil : Nat) (ω : K) : Smoother K (IluFactors K) where
  setup A := ilukFactor lfil A
  applyPre F A f x t := iluSweep ω F A f x t
  applyPost F A f x t := iluSweep ω F A f x t
  apply F _ f := iluApply F f

/-- `ilup.hpp:140-176`: for `k ≥ 1` the matrix handed to `ilu0` is `A` stored on the (sorted) pattern of `A^(k+1)`,
the new positions holding explicit zeros; `k = 0` hands `A` itself -/
def padPattern (pat : Nat → Nat → Bool) (A : CRS K) : CRS K :=
  { ncols := A.ncols,
    rows := Array.ofFn (n := A.nrows) (fun i =>
      (List.range A.nrows).filterMap (fun j => if pat i.val j then some (j, A.get i.val j) else none)) }

def ilupFactor [DecidableEq K] (k : Nat) (A : CRS K) : SetupOutcome (IluFactors K) :=
  if k = 0 then ilu0Factor A else ilu0Factor (padPattern (patPower A k) A)

/-- the factors with explicit zeros removed (what can be observed through `apply`) -/
def IluFactors.dropZeros [DecidableEq K] (F : IluFactors K) : IluFactors K :=
  { L := { F.L with rows := F.L.rows.map (fun r => r.filter (fun cv => !(decide (cv.2 = 0)))) },
    U := { F.U with rows := F.U.rows.map (fun r => r.filter (fun cv => !(decide (cv.2 = 0)))) },
    D := F.D }

end Relax
end Amgcl
