import Amgcl.Model.RelaxCommon
/-!
# Damped Jacobi (relaxation/damped_jacobi.hpp) and SPAI-0 (relaxation/spai0.hpp)

Both keep one vector (`dia` resp. `M`) and sweep with `residual` + `vmul`.
-/
namespace Amgcl
namespace Relax
variable {K : Type} [Add K] [Mul K] [Sub K] [Zero K] [One K] [Div K] [DecidableEq K]

/-- first stored entry of row `r` in column `i` (`for(a = row_begin; a; ++a) if (a.col() == i) { …; break; }`) -/
def firstDiag (r : Row K) (i : Nat) : Option K := (r.find? (fun cv => cv.1 == i)).map (·.2)

/-- every row stores its diagonal entry (at least once) -/
def hasDiagb (A : CRS K) : Bool :=
  (List.range A.nrows).all (fun i => (A.row i).any (fun cv => cv.1 == i))

/-- `backend::diagonal(A, /*invert=*/true)` (builtin.hpp:752-773): the first stored diagonal entry of each row,
inverted, a zero entry being replaced by the identity.  A row without a diagonal entry leaves the C++ slot
uninitialised; the model writes `0` there and every user of the model demands `hasDiagb`. -/
def diagInv (A : CRS K) : Vec K :=
  Array.ofFn (n := A.nrows) (fun i =>
    match firstDiag (A.row i) i with
    | some d => if d = 0 then 1 else 1 / d
    | none => 0)

/-- `damped_jacobi::apply_pre` = `apply_post`: `tmp = rhs - A x; x = damping * dia .* tmp + 1 * x` -/
def jacobiSweep (ω : K) (dia : Vec K) (A : CRS K) (f x _tmp : Vec K) : Vec K × Vec K :=
  let tmp := residual f A x
  (vmul ω dia tmp 1 x, tmp)

/-- `damped_jacobi::apply`: `x = 1 * dia .* rhs + 0 * x` (the `beta = 0` branch of `vmul` never reads `x`) -/
def jacobiApply (dia : Vec K) (f : Vec K) : Vec K := vmul 1 dia f 0 #[]

/-- damped Jacobi with damping factor `ω`; the state is the inverted diagonal -/
def jacobi (ω : K) : Smoother K (Vec K) where
  setup A := if hasDiagb A then .ok (diagInv A) else .undefinedInput
  applyPre dia A f x t := jacobiSweep ω dia A f x t
  applyPost dia A f x t := jacobiSweep ω dia A f x t
  apply dia _ f := jacobiApply dia f

/-- the SPAI-0 diagonal (spai0.hpp:62-78): `M_i = inverse(Σ_j norm(a_ij)²) * Σ_{col = i} a_ij`; `norm` is
`math::norm` (`std::abs`, `Amgcl.absK` in the driver), a parameter so that the model makes sense over unordered fields too -/
def spai0Diag (norm : K → K) (A : CRS K) : Vec K :=
  Array.ofFn (n := A.nrows) (fun i =>
    let nd := (A.row i).foldl (fun (nd : K × K) cv =>
      let nv := norm cv.2
      (if cv.1 = i.val then nd.1 + cv.2 else nd.1, nd.2 + nv * nv)) (0, 0)
    (1 / nd.2) * nd.1)

/-- `spai0::apply_pre` = `apply_post`: `tmp = rhs - A x; x = 1 * M .* tmp + 1 * x` -/
def spai0Sweep (M : Vec K) (A : CRS K) (f x _tmp : Vec K) : Vec K × Vec K :=
  let tmp := residual f A x
  (vmul 1 M tmp 1 x, tmp)

def spai0Apply (M : Vec K) (f : Vec K) : Vec K := vmul 1 M f 0 #[]

def spai0 (norm : K → K) : Smoother K (Vec K) where
  setup A := .ok (spai0Diag norm A)
  applyPre M A f x t := spai0Sweep M A f x t
  applyPost M A f x t := spai0Sweep M A f x t
  apply M _ f := spai0Apply M f

end Relax
end Amgcl
