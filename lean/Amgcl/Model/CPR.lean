import Amgcl.Model.Primitives
import Amgcl.Model.Kernels
/-!
# CPR two-stage preconditioner (C18) — mirrors preconditioner/cpr.hpp

* `invert`          : `cpr::invert` — LU factorisation WITHOUT pivoting of a dense `B × B` matrix (row-major) and
                      the solve `A y = e_0` (:513-545); a zero pivot is the `assert` (outcome `none`)
* `firstScalarPass` : `first_scalar_pass` (:190-288) — the `B` row iterators of a block row walk the block columns
                      in lock-step (`cur_col = min` of the heads), the diagonal block is captured TRANSPOSED and
                      inverted, so that the weights are the first row of the inverse diagonal block
* `initScalar`      : `init(K, bprm, true_type)` (:291-393): pressure matrix `App`, `Fpp`, `Scatter`
* `initBlock`       : `init(K, bprm, false_type)` (:402-474) for `B × B` block-valued input
* `State.apply`     : `apply` (:132-148) `x = S f + Scatter · P (Fpp (f - A S f))`
* `partialUpdate*`  : `partial_update` (:158-176) + `update_transfer`

The two inner preconditioners are parameters: `mkS A : Vec → Vec` is `SPrecond(A).apply` (a function of the matrix
it is constructed with), `Pf : Vec → Vec` is `PPrecond(App).apply`.  Block vectors are flattened scalar vectors
(this is what `backend::reinterpret_as_rhs` does for the mixed scalar/block products with `Fpp`, `Scatter`).
-/
namespace Amgcl.CPR

section invert
variable {K : Type} [Add K] [Sub K] [Mul K] [Div K] [Zero K] [One K] [DecidableEq K]

/-- LU factorisation in place, no pivoting; `none` = `assert(!is_zero(d))` fails -/
def luNoPivot (B : Nat) (A : Array K) : Option (Array K) :=
  (List.range B).foldlM (fun (A : Array K) k =>
    let d := A.getD (k * B + k) 0
    if d = 0 then none else
    some ((List.range' (k + 1) (B - (k + 1))).foldl (fun (A : Array K) i =>
      let A := A.setIfInBounds (i * B + k) (A.getD (i * B + k) 0 / d)
      (List.range' (k + 1) (B - (k + 1))).foldl (fun (A : Array K) j =>
        A.setIfInBounds (i * B + j) (A.getD (i * B + j) 0 - A.getD (i * B + k) 0 * A.getD (k * B + j) 0)) A) A)) A

/-- forward substitution with the unit lower factor and right-hand side `e_0` -/
def lowerSolveE0 (B : Nat) (A : Array K) : Array K :=
  (List.range B).foldl (fun (y : Array K) i =>
    y.push ((List.range i).foldl (fun b j => b - A.getD (i * B + j) 0 * y.getD j 0) (if i = 0 then (1 : K) else 0))) #[]

/-- back substitution with the upper factor -/
def upperSolve (B : Nat) (A : Array K) (y : Array K) : Array K :=
  (List.range B).reverse.foldl (fun (y : Array K) i =>
    let s := (List.range' (i + 1) (B - (i + 1))).foldl (fun s j => s - A.getD (i * B + j) 0 * y.getD j 0) (y.getD i 0)
    y.setIfInBounds i (s / A.getD (i * B + i) 0)) y

/-- `invert(A, y)`: `y = A⁻¹ e_0` (the first column of the inverse) -/
def invert (B : Nat) (A : Array K) : Option (Array K) :=
  (luNoPivot B A).map (fun LU => upperSolve B LU (lowerSolveE0 B LU))

end invert

section walk
variable {K : Type}

/-- `k && k.col() < N`, then `k.col() / B` -/
def headBlk (B N : Nat) (k : Row K) : Option Nat :=
  match k with
  | [] => none
  | cv :: _ => if cv.1 < N then some (cv.1 / B) else none

/-- "get next column number": the minimum of the head block columns (`done` = `none`) -/
def curCol (B N : Nat) (ks : List (Row K)) : Option Nat :=
  ks.foldl (fun acc k =>
    match headBlk B N k, acc with
    | some c, some a => some (min a c)
    | some c, none => some c
    | none, a => a) none

/-- `while (k && k.col() < end) ++k` for all `B` iterators -/
def advance (endc : Nat) (ks : List (Row K)) : List (Row K) := ks.map (fun k => k.dropWhile (fun cv => decide (cv.1 < endc)))

/-- total number of entries still ahead of the iterators (fuel of the `while (!done)` loops) -/
def remaining (ks : List (Row K)) : Nat := (ks.map List.length).sum

end walk

section pass
variable {K : Type} [Add K] [Sub K] [Mul K] [Div K] [Zero K] [One K] [DecidableEq K]

/-- capture of the diagonal block: `v` zeroed, then `v(col % B, i) = value` for the entries below `end` of every
iterator `i` (ASSIGNMENT: a later duplicate overwrites) -/
def diagCapture (B endc : Nat) (ks : List (Row K)) : Array K :=
  ks.zipIdx.foldl (fun (v : Array K) ki =>
    (ki.1.takeWhile (fun cv => decide (cv.1 < endc))).foldl (fun (v : Array K) cv =>
      v.setIfInBounds ((cv.1 % B) * B + ki.2) cv.2) v) (Array.replicate (B * B) 0)

/-- state of the `while (!done)` loop of `first_scalar_pass` for one block row -/
structure PassState (K : Type) where
  ks : List (Row K)
  /-- `App->ptr[ip+1]` -/
  cnt : Nat
  /-- `fpp->val[ik .. ik+B)`; `none` = never written (the array is allocated uninitialised) -/
  w : Option (Array K)
  /-- a zero pivot stopped `invert` -/
  zeroPivot : Bool

def passLoop (B N ip : Nat) (getApp : Bool) : Nat → PassState K → PassState K
  | 0, s => s
  | fuel + 1, s =>
    match curCol B N s.ks with
    | none => s
    | some cur =>
      let cnt := if getApp then s.cnt + 1 else s.cnt
      let endc := (cur + 1) * B
      if cur = ip then
        match invert B (diagCapture B endc s.ks) with
        | none => { s with cnt := cnt, zeroPivot := true }
        | some y =>
          let s' : PassState K := { ks := advance endc s.ks, cnt := cnt, w := some y, zeroPivot := false }
          if getApp then passLoop B N ip getApp fuel s' else s'
      else passLoop B N ip getApp fuel { s with ks := advance endc s.ks, cnt := cnt }

/-- the `B` row iterators of block row `ip` -/
def blockRows (A : CRS K) (B ip : Nat) : List (Row K) := (List.range B).map (fun i => A.row (ip * B + i))

/-- `first_scalar_pass` for block row `ip` -/
def passRow (A : CRS K) (B N ip : Nat) (getApp : Bool) : PassState K :=
  let ks := blockRows A B ip
  passLoop B N ip getApp (remaining ks + 1) { ks := ks, cnt := 0, w := none, zeroPivot := false }

/-- the `while (!done)` loop of the second pass (`init`, :335-364): one `App` entry per visited block column -/
def appLoop (B N : Nat) (d : Array K) : Nat → List (Row K) → Row K → Row K
  | 0, _, acc => acc
  | fuel + 1, ks, acc =>
    match curCol B N ks with
    | none => acc
    | some cur =>
      let endc := (cur + 1) * B
      let app := ks.zipIdx.foldl (fun (a : K) ki =>
        (ki.1.takeWhile (fun cv => decide (cv.1 < endc))).foldl (fun (a : K) cv =>
          if cv.1 % B = 0 then a + d.getD ki.2 0 * cv.2 else a) a) 0
      appLoop B N d fuel (advance endc ks) (acc ++ [(cur, app)])

def appRow (A : CRS K) (B N ip : Nat) (d : Array K) : Row K :=
  let ks := blockRows A B ip
  appLoop B N d (remaining ks + 1) ks []

end pass

/-- members of a constructed `cpr` object: `AS` is the matrix the global preconditioner `S` was built with
(`S->system_matrix()`), `App` the matrix the pressure preconditioner was built with -/
structure State (K : Type) where
  n : Nat
  np : Nat
  Fpp : CRS K
  Scatter : CRS K
  App : CRS K
  /-- first-pass row widths of `App` (they size the arrays filled by the second pass) -/
  appWidths : List Nat
  AS : CRS K
  /-- some block row has no diagonal block: its weights are read uninitialised -/
  uninit : Bool
  /-- some diagonal block hit a zero pivot in `invert` (the `assert`) -/
  zeroPivot : Bool

section scalar
variable {K : Type} [Add K] [Sub K] [Mul K] [Div K] [Zero K] [One K] [DecidableEq K]

/-- the weights `fpp->val[ip*B .. ip*B+B)` as the code reads them (zeros where never written: `Q()`) -/
def weights (B : Nat) (s : PassState K) : Array K := s.w.getD (Array.replicate B 0)

/-- `fpp`: row `ip` is `[(ip*B + i, w_i)]_{i<B}` -/
def fppOf (B np N : Nat) (ws : Nat → Array K) : CRS K :=
  { ncols := N,
    rows := Array.ofFn (n := np) (fun ip => (List.range B).map (fun i => (ip.val * B + i, (ws ip.val).getD i 0))) }

/-- `scatter`: `nr` rows, row `ip*B` is `[(ip, 1)]`, all other rows are empty -/
def scatterOf (B nr np : Nat) : CRS K :=
  { ncols := np,
    rows := Array.ofFn (n := nr) (fun r => if r.val % B = 0 ∧ r.val / B < np then [(r.val / B, (1 : K))] else []) }

/-- `init(K, bprm, true_type)`: scalar input, run-time `block_size = B`, `N = active_rows ? active_rows : n` -/
def initScalar (A : CRS K) (B activeRows : Nat) : State K :=
  let n := A.nrows
  let N := if activeRows = 0 then n else activeRows
  let np := N / B
  let ps : Nat → PassState K := fun ip => passRow A B N ip true
  { n := n, np := np,
    Fpp := fppOf B np N (fun ip => weights B (ps ip)),
    Scatter := scatterOf B n np,
    App := { ncols := np, rows := Array.ofFn (n := np) (fun ip => appRow A B N ip.val (weights B (ps ip.val))) },
    appWidths := (List.range np).map (fun ip => (ps ip).cnt),
    AS := A,
    uninit := (List.range np).any (fun ip => (ps ip).w.isNone && !(ps ip).zeroPivot),
    zeroPivot := (List.range np).any (fun ip => (ps ip).zeroPivot) }

/-- `update_transfer(K, bprm, true_type)`: only `Fpp` is recomputed (`first_scalar_pass(K, false)`) -/
def fppScalar (A : CRS K) (n B activeRows : Nat) : CRS K × Bool × Bool :=
  let N := if activeRows = 0 then n else activeRows
  let np := N / B
  let ps : Nat → PassState K := fun ip => passRow A B N ip false
  (fppOf B np N (fun ip => weights B (ps ip)),
   (List.range np).any (fun ip => (ps ip).w.isNone && !(ps ip).zeroPivot),
   (List.range np).any (fun ip => (ps ip).zeroPivot))

/-- `partial_update(K, update_transfer_ops)` for scalar input: the rows of the copy of `K` are sorted (3c80f38), the
global preconditioner is rebuilt from it (so `S->system_matrix()` is the sorted copy), `Fpp` optionally; `App`, the
pressure preconditioner and `Scatter` stay. -/
def partialUpdateScalar (st : State K) (A0 : CRS K) (B activeRows : Nat) (upd : Bool) : State K :=
  let A := sortRows A0
  if upd then
    let f := fppScalar A st.n B activeRows
    { st with AS := A, Fpp := f.1, uninit := f.2.1, zeroPivot := f.2.2 }
  else { st with AS := A }

/-- `backend::spmv(1, A, x, 1, y)` for a vector `y` that may be LONGER than `A` has rows (block input with
`active_rows`: `Scatter` has `np*B` rows, `x` has `n*B` entries): the loop runs over the rows of `A` only, the
remaining entries of `y` stay. -/
def spmvAddInto (A : CRS K) (x y : Vec K) : Vec K :=
  Array.ofFn (n := y.size) (fun i => if i.val < A.nrows then rowDot (A.row i.val) x + y.getD i.val 0 else y.getD i.val 0)

/-- `apply(rhs, x)`: `x = S rhs; rs = rhs - A x; rp = Fpp rs; xp = P rp; x += Scatter xp` -/
def State.apply (st : State K) (mkS : CRS K → Vec K → Vec K) (Pf : Vec K → Vec K) (rhs : Vec K) : Vec K :=
  let x := mkS st.AS rhs
  let rs := residual rhs st.AS x
  let rp := spmv 1 st.Fpp rs 0 (vclear st.np)
  let xp := Pf rp
  spmvAddInto st.Scatter xp x

end scalar

section block
variable {K : Type} [Add K] [Sub K] [Mul K] [Div K] [Zero K] [One K] [DecidableEq K]

/-- a `B × B` block, row-major (`static_matrix::buf`) -/
abbrev Blk (K : Type) := Array K

/-- `math::adjoint` of a real block: the transpose -/
def blkT (B : Nat) (b : Blk K) : Blk K :=
  Array.ofFn (n := B * B) (fun q => b.getD ((q.val % B) * B + q.val / B) 0)

/-- the weights of block row `i`: `invert(adjoint(first stored diagonal block))`; `(w, uninit, zeroPivot)` -/
def blockWeights (A : CRS (Blk K)) (B i : Nat) : Array K × Bool × Bool :=
  match (A.row i).find? (fun cv => cv.1 = i) with
  | none => (Array.replicate B 0, true, false)
  | some cv =>
    match invert B (blkT B cv.2) with
    | none => (Array.replicate B 0, false, true)
    | some y => (y, false, false)

/-- the block matrix seen as a scalar matrix: block `(c, b)` of block row `i` contributes `(c*B + s, b(r,s))`,
`s < B`, to scalar row `i*B + r` — including explicit zeros, blocks in stored order -/
def expand (B : Nat) (A : CRS (Blk K)) : CRS K :=
  { ncols := A.ncols * B,
    rows := Array.ofFn (n := A.nrows * B) (fun q =>
      (A.row (q.val / B)).flatMap (fun cv => (List.range B).map (fun s => (cv.1 * B + s, cv.2.getD ((q.val % B) * B + s) 0)))) }

/-- `init(K, bprm, false_type)`: block-valued input with `n` block rows, `N = active_rows ? active_rows : n`
(in BLOCK rows); `AS` is kept in expanded scalar form (block residual = scalar residual of the expansion).
Columns outside the active range are dropped from `App` (fix 912e27f; before it the whole pattern of the active
block rows was copied, giving out-of-range columns). -/
def initBlock (A : CRS (Blk K)) (B activeRows : Nat) : State K :=
  let n := A.nrows
  let N := if activeRows = 0 then n else activeRows
  let np := N
  let bw : Nat → Array K × Bool × Bool := fun i => blockWeights A B i
  { n := n * B, np := np,
    Fpp := fppOf B np (np * B) (fun i => (bw i).1),
    Scatter := scatterOf B (np * B) np,
    App := { ncols := np,
             rows := Array.ofFn (n := np) (fun i => ((A.row i.val).filter (fun cv => decide (cv.1 < np))).map (fun cv =>
               (cv.1, (List.range B).foldl (fun a k => a + ((bw i.val).1).getD k 0 * cv.2.getD (k * B) 0) 0))) },
    appWidths := (List.range np).map (fun i => ((A.row i).filter (fun cv => decide (cv.1 < np))).length),
    AS := expand B A,
    uninit := (List.range np).any (fun i => (bw i).2.1),
    zeroPivot := (List.range np).any (fun i => (bw i).2.2) }

/-- `partial_update` for block input (the copy of `K` is row-sorted first) -/
def partialUpdateBlock (st : State K) (A0 : CRS (Blk K)) (B activeRows : Nat) (upd : Bool) : State K :=
  let A := sortRows A0
  if upd then
    let N := if activeRows = 0 then st.n / B else activeRows
    let bw : Nat → Array K × Bool × Bool := fun i => blockWeights A B i
    { st with AS := expand B A, np := N, Fpp := fppOf B N (N * B) (fun i => (bw i).1),
              uninit := (List.range N).any (fun i => (bw i).2.1),
              zeroPivot := (List.range N).any (fun i => (bw i).2.2) }
  else { st with AS := expand B A }

end block

end Amgcl.CPR
