import Amgcl.Model.SolverGivens
/-!
# `amgcl::solver::lgmres::operator()(A, P, rhs, x)` — solver/lgmres.hpp:205-373, statement by statement

"Loose" GMRES(M, K): the Krylov space of every restart cycle is augmented with (up to `K`) normalised update
vectors `dx` of previous cycles.  What makes the class different from all other solvers is that the augmentation
vectors **survive the call** when `always_reset = false` (a documented feature: "keeping the augmented vectors
between solves may speed up subsequent solves"): the result of a call then depends on the history of the object.

Pointer structure, mirrored literally:
* `outer_v_data[0..K)`   the storage of the augmentation vectors (`odata`),
* `outer_v`              a `circular_buffer<shared_ptr<vector>>` of capacity `K` holding pointers INTO `outer_v_data`
                         — modelled as the list of slot numbers (`CBuf`); note `n_outer` (which selects the slot to
                         overwrite) is a local that restarts at 0 in every call, while `outer_v` persists, so after
                         a reuse the buffer may hold the same slot twice;
* `ws[0..M)`             `shared_ptr`s to the vectors `z` of the current cycle: `ws[j]` points either to `vs[j]` or
                         to an augmentation vector (`Ptr`); they are dereferenced when `lin_comb` runs, and for
                         right preconditioning `*ws[0]` is used as scratch for `P.apply(dx, tmp)`.
Here `M = prm.M + prm.K` (the member `M` of the class), `H` is `(M+1) × M`.  `H0` is a write-only copy of the
unrotated Hessenberg matrix.

Control flow is that of `gmres`: the only exit of the outer `while(true)` is the `break` directly after the
residual has been recomputed.
-/
namespace Amgcl.Solver.LGMRES
open Amgcl Amgcl.Solver

/-- target of a `shared_ptr<vector>` stored in `ws` -/
inductive Ptr where
  | null                 -- value-initialised `shared_ptr` of a fresh object (never dereferenced)
  | vs (i : Nat)         -- `vs[i]`
  | outer (slot : Nat)   -- `outer_v_data[slot]`
  deriving DecidableEq, Repr, Inhabited

/-- `circular_buffer<T>` (util.hpp:324-359) holding slot numbers; the capacity is `prm.K` (`buf.reserve(n)`) -/
structure CBuf where
  start : Nat
  buf   : List Nat
  deriving DecidableEq, Repr, Inhabited

namespace CBuf
def empty : CBuf := ⟨0, []⟩
/-- `size()` -/
def size (b : CBuf) : Nat := b.buf.length
/-- `operator[](i)`: `buf[(start + i) % buf.capacity()]` -/
def get (cap : Nat) (b : CBuf) (i : Nat) : Nat := b.buf.getD ((b.start + i) % cap) 0
/-- `push_back(v)` -/
def push (cap : Nat) (b : CBuf) (v : Nat) : CBuf :=
  if b.buf.length < cap then ⟨b.start, b.buf ++ [v]⟩           -- buf.push_back(v);
  else ⟨(b.start + 1) % cap, b.buf.set b.start v⟩               -- buf[start] = v; start = (start + 1) % capacity;
end CBuf

/-- the `mutable` members (lgmres.hpp:433-440) -/
structure Work (K : Type) where
  h     : Hess K
  H0    : FArr2 K
  r     : Vec K
  vs    : FArr (Vec K)
  wsp   : FArr Ptr
  odata : FArr (Vec K)
  ov    : CBuf

def Work.fresh {K : Type} [Zero K] (n : Nat) : Work K :=
  { h := Hess.fresh, H0 := .const 0, r := Array.replicate n 0, vs := .const (Array.replicate n 0),
    wsp := .const .null, odata := .const (Array.replicate n 0), ov := .empty }

/-- `lgmres::params`: the common fields + `M`, `K`, `always_reset`, `pside` -/
structure Params (K : Type) extends Amgcl.Solver.Params K where
  M           : Nat
  K'          : Nat          -- the parameter `K` (number of augmentation vectors)
  alwaysReset : Bool
  pside       : Side

/-- the member `M` of the class: `prm.M + prm.K` -/
def Params.MM {K : Type} (prm : Params K) : Nat := prm.M + prm.K'

/-- `**p` -/
def deref {K : Type} (w : Work K) : Ptr → Vec K
  | .null => #[]
  | .vs i => w.vs i
  | .outer s => w.odata s

/-- `*p = val` -/
def store {K : Type} (w : Work K) (p : Ptr) (val : Vec K) : Work K :=
  match p with
  | .null => w
  | .vs i => { w with vs := setF w.vs i val }
  | .outer s => { w with odata := setF w.odata s val }

structure St (K : Type) where
  iter   : Nat
  nOuter : Nat
  normR  : K
  x      : Vec K
  w      : Work K

structure In (K : Type) where
  j        : Nat
  iter     : Nat
  innerRes : K
  w        : Work K

variable {K : Type} [Add K] [Mul K] [Sub K] [Neg K] [Zero K] [One K] [Div K] [DecidableEq K] [LT K] [DecidableLT K]

/-- lgmres.hpp:236-245 -/
def head (side : Side) (ip : Vec K → Vec K → K) (sqrt : K → K) (A : CRS K) (P : Vec K → Vec K) (f : Vec K)
    (st : St K) : St K :=
  match side with
  | .left =>
    let v0 := residual f A st.x                                   -- backend::residual(rhs, A, x, *vs[0]);
    let r := P v0                                                 -- P.apply(*vs[0], *r);
    { st with normR := nrmA ip sqrt r, w := { st.w with r := r, vs := setF st.w.vs 0 v0 } }
  | .right =>
    let r := residual f A st.x                                    -- backend::residual(rhs, A, x, *r);
    { st with normR := nrmA ip sqrt r, w := { st.w with r := r } }

/-- lgmres.hpp:245: `if (norm_r < eps || iter >= prm.maxiter) break;` -/
def stop (maxiter : Nat) (epsT : K) (st : St K) : Bool :=
  decide (st.normR < epsT) || decide (maxiter ≤ st.iter)

/-- lgmres.hpp:278-284: which vector is fed into the Arnoldi process at inner index `j` -/
def pickZ (MM cap : Nat) (ov : CBuf) (j : Nat) : Ptr :=
  if MM - ov.size ≤ j then .outer (ov.get cap (j - (MM - ov.size)))   -- z = outer_v[j - (M - outer_v.size())];
  else .vs j                                                            -- z = vs[j];

/-- lgmres.hpp:276-309, including `++j, ++iter` -/
def step (side : Side) (MM cap : Nat) (ip : Vec K → Vec K → K) (sqrt : K → K) (A : CRS K) (P : Vec K → Vec K)
    (t : In K) : In K :=
  let w := t.w
  let j := t.j
  let z := pickZ MM cap w.ov j
  let wsp := setF w.wsp j z                                       -- ws[j] = z;
  let xt := pspmv side P A (deref w z) (w.vs (j + 1)) w.r         -- preconditioner::spmv(pside, P, A, *z, v_new, *r);
  let o := orth ip sqrt w.vs j w.h.H xt.1                         -- H0(k,j) = H(k,j) = …; H0(j+1,j) = H(j+1,j) = norm(v_new);
  let H0 : FArr2 K := ⟨fun a b => if b = j ∧ a ≤ j + 1 then o.1 a b else w.H0 a b⟩
  let rt := rotate sqrt j w.h o.1
  { j := j + 1, iter := t.iter + 1, innerRes := rt.2,
    w := { w with h := rt.1, H0 := H0, r := xt.2, vs := setF w.vs (j + 1) o.2, wsp := wsp } }

/-- negation of lgmres.hpp:308: `if (iter >= prm.maxiter || j >= M || inner_res <= eps) break;` -/
def cont (maxiter MM : Nat) (epsT : K) (t : In K) : Bool :=
  !(decide (maxiter ≤ t.iter) || decide (MM ≤ t.j) || !decide (epsT < t.innerRes))

/-- lgmres.hpp:247-252: the state on entry of the inner loop -/
def cycleStart (st : St K) : In K :=
  let w := st.w
  let v0 := axpby (inv1 st.normR) w.r 0 (w.vs 0)         -- backend::axpby(math::inverse(norm_r), *r, zero, *vs[0]);
  { j := 0, iter := st.iter, innerRes := 0,
    w := { w with h := { w.h with s := sInit st.normR },  -- std::fill(s.begin(), s.end(), 0); s[0] = norm_r;
                  vs := setF w.vs 0 v0 } }

/-- lgmres.hpp:254-310: the inner `do … while`, fuel `M` (the member: `prm.M + prm.K`) -/
def inner (prm : Params K) (ip : Vec K → Vec K → K) (sqrt : K → K) (A : CRS K) (P : Vec K → Vec K) (epsT : K)
    (st : St K) : In K :=
  doWhile (cont prm.maxiter prm.MM epsT) (step prm.pside prm.MM prm.K' ip sqrt A P) prm.MM (cycleStart st)

/-- lgmres.hpp:312-343: back substitution, the update of `x`, the new augmentation vector -/
def update (prm : Params K) (ip : Vec K → Vec K → K) (sqrt : K → K) (P : Vec K → Vec K) (st : St K) (t : In K) :
    St K :=
  let s := backSubst t.j t.w.h.H t.w.h.s
  let w1 : Work K := { t.w with h := { t.w.h with s := s } }
  -- vector &dx = *r; backend::lin_comb(j, s, ws, zero, dx);
  let dx := linComb (combList t.j s.get (fun i => deref w1 (w1.wsp i))) 0 w1.r
  let w2 : Work K := { w1 with r := dx }
  let xw : Vec K × Work K := match prm.pside with
    | .left => (axpby 1 dx 1 st.x, w2)                      -- backend::axpby(one, dx, one, x);
    | .right =>
      let tmp := P dx                                       -- vector &tmp = *ws[0]; P.apply(dx, tmp);
      (axpby 1 tmp 1 st.x, store w2 (w2.wsp 0) tmp)         -- backend::axpby(one, tmp, one, x);
  let w3 := xw.2
  let normDx := nrmA ip sqrt w3.r                            -- scalar_type norm_dx = norm(dx);
  if 0 < prm.K' ∧ normDx ≠ 0 then                            -- if (prm.K > 0 && !math::is_zero(norm_dx)) {
    let slot := st.nOuter % prm.K'                           --   unsigned outer_slot = n_outer % prm.K; ++n_outer;
    let ov := axpby (inv1 normDx) w3.r 0 (w3.odata slot)     --   norm_dx = inverse(norm_dx); axpby(norm_dx, dx, zero, *outer_v_data[outer_slot]);
    { iter := t.iter, nOuter := st.nOuter + 1, normR := st.normR, x := xw.1,
      w := { w3 with odata := setF w3.odata slot ov,
                     ov := w3.ov.push prm.K' slot } }        --   outer_v.push_back(outer_v_data[outer_slot]);
  else
    { iter := t.iter, nOuter := st.nOuter, normR := st.normR, x := xw.1, w := w3 }

/-- lgmres.hpp:247-343: one restart cycle -/
def cycle (prm : Params K) (ip : Vec K → Vec K → K) (sqrt : K → K) (A : CRS K) (P : Vec K → Vec K) (epsT : K)
    (st : St K) : St K :=
  update prm ip sqrt P st (inner prm ip sqrt A P epsT st)

def outer (prm : Params K) (ip : Vec K → Vec K → K) (sqrt : K → K) (A : CRS K) (P : Vec K → Vec K) (f : Vec K)
    (epsT : K) : Nat → St K → St K :=
  loopN (fun s => !stop prm.maxiter epsT s)
    (fun s => head prm.pside ip sqrt A P f (cycle prm ip sqrt A P epsT s))

/-- lgmres.hpp:217-219: `if (prm.always_reset) outer_v.clear();` — executed before anything else -/
def reset (prm : Params K) (ws : Work K) : Work K :=
  if prm.alwaysReset then { ws with ov := .empty } else ws

def init (prm : Params K) (ip : Vec K → Vec K → K) (sqrt : K → K) (A : CRS K) (P : Vec K → Vec K)
    (ws : Work K) (f x0 : Vec K) : St K :=
  head prm.pside ip sqrt A P f { iter := 0, nOuter := 0, normR := 0, x := x0, w := ws }

def run (prm : Params K) (ip : Vec K → Vec K → K) (sqrt : K → K) (eps : K) (A : CRS K) (P : Vec K → Vec K)
    (ws : Work K) (f x0 : Vec K) : Run K (Work K) :=
  let ws := reset prm ws
  match prologueA prm.nsSearch ip sqrt eps f with
  | .trivial n => (.ok (0, n), vclear x0.size, ws)
  | .go normRhs =>
    let epsT := maxK (prm.tol * normRhs) prm.abstol
    let st := outer prm ip sqrt A P f epsT prm.maxiter (init prm ip sqrt A P ws f x0)
    (.ok (st.iter, st.normR / normRhs), st.x, st.w)

def solve (prm : Params K) (ip : Vec K → Vec K → K) (sqrt : K → K) (eps : K) (A : CRS K) (P : Vec K → Vec K)
    (ws : Work K) (f x0 : Vec K) : Except Err (Nat × K × Vec K × Work K) :=
  (run prm ip sqrt eps A P ws f x0).toExcept

def call (prm : Params K) (ip : Vec K → Vec K → K) (sqrt : K → K) (eps : K) (w : Work K) (c : Call K) :
    Obs K × Work K :=
  let r := run prm ip sqrt eps c.A c.P w c.f c.x0
  (r.obs, r.ws)

end Amgcl.Solver.LGMRES
