import Amgcl.Model.Primitives
/-!
# Eigen value types and the Eigen backend's inner product (value_type/eigen.hpp, backend/eigen.hpp)

Small dense matrices `Eigen::Matrix<T, N, M>` are row-major arrays of `N*M` entries here; the specialisations of
`amgcl::math::*_impl` for them are one-line calls into Eigen, modelled by their mathematical definitions:

* `adjoint_impl`        → conjugate transpose            (value_type/eigen.hpp:91-99)
* `inner_product_impl`  → `x.transpose() * y.conjugate()` (101-119; conjugate-linear in the SECOND argument)
* `norm_impl`           → Frobenius norm, as its square  (121-127)
* `zero_impl`, `is_zero_impl`, `identity_impl`, `constant_impl` (every entry `c`), `inverse_impl` (129-178)
* `operator<`           → comparison of traces           (183-186)

and `backend::inner_product_impl` of Eigen vectors (backend/eigen.hpp:246-262) → `y.dot(x)` with Eigen's `dot`
conjugate-linear in its FIRST argument, i.e. `Σ conj(y_i) x_i` — linear in `x`, conjugate-linear in `y` like the builtin
backend's.
-/
namespace Amgcl.EigenVT
variable {K : Type} [Add K] [Mul K] [Sub K] [Zero K] [One K] [DecidableEq K]

/-- entry `(i,j)` of a row-major `n × m` array -/
def ent (m : Nat) (X : Array K) (i j : Nat) : K := X.getD (i * m + j) 0

def sumRange (n : Nat) (f : Nat → K) : K := (List.range n).foldl (fun acc k => acc + f k) 0

/-- `X * Y` for `X : n × k`, `Y : k × m` -/
def mul (n k m : Nat) (X Y : Array K) : Array K :=
  Array.ofFn (n := n * m) (fun q => sumRange k (fun l => ent k X (q.val / m) l * ent m Y l (q.val % m)))

/-- `x.adjoint()` of an `n × m` matrix: the `m × n` conjugate transpose -/
def adjoint (conj : K → K) (n m : Nat) (X : Array K) : Array K :=
  Array.ofFn (n := m * n) (fun q => conj (ent m X (q.val % n) (q.val / n)))

/-- `math::inner_product(x, y) = x.transpose() * y.conjugate()` (`y.dot(x)` for `m = 1`) for `n × m` arguments: an `m × m`
matrix, a scalar for `m = 1`; conjugate-linear in the SECOND argument (since /repo fix of K27; before: `x.adjoint() * y`) -/
def innerProduct (conj : K → K) (n m : Nat) (X Y : Array K) : Array K :=
  mul m n m (adjoint (fun a => a) n m X) (Y.map conj)

/-- `x.squaredNorm()` as a sum of `x_ij * conj x_ij` -/
def normSq (conj : K → K) (X : Array K) : K := X.toList.foldl (fun acc v => acc + v * conj v) 0

def zero (n m : Nat) : Array K := Array.ofFn (n := n * m) (fun _ => (0 : K))
def isZero (X : Array K) : Bool := X.toList.all (fun v => v = 0)
def identity (n : Nat) : Array K := Array.ofFn (n := n * n) (fun q => if q.val / n = q.val % n then (1 : K) else 0)
def constant (n m : Nat) (c : K) : Array K := Array.ofFn (n := n * m) (fun _ => c)
def trace (n : Nat) (X : Array K) : K := sumRange n (fun i => ent n X i i)

/-- Gauss–Jordan elimination on `[X | I]` with the first non-zero pivot of each column; `none` for a singular matrix.
(`x.inverse()` is a library call: any exact algorithm yields THE inverse.) -/
def inverse (inv : K → K) (n : Nat) (X : Array K) : Option (Array K) :=
  let w := 2 * n
  let aug : Array K := Array.ofFn (n := n * w) (fun q =>
    let i := q.val / w; let j := q.val % w
    if j < n then ent n X i j else if j - n = i then 1 else 0)
  let step (st : Option (Array K)) (c : Nat) : Option (Array K) :=
    match st with
    | none => none
    | some M =>
      match (List.range n).find? (fun r => c ≤ r ∧ ent w M r c ≠ 0) with
      | none => none
      | some p =>
        -- swap rows c and p, scale the pivot row, eliminate the column elsewhere
        let M1 : Array K := Array.ofFn (n := n * w) (fun q =>
          let i := q.val / w; let j := q.val % w
          if i = c then ent w M p j else if i = p then ent w M c j else ent w M i j)
        let pv := inv (ent w M1 c c)
        let M2 : Array K := Array.ofFn (n := n * w) (fun q =>
          let i := q.val / w; let j := q.val % w
          if i = c then ent w M1 c j * pv else ent w M1 i j - ent w M1 i c * (ent w M1 c j * pv))
        some M2
  match (List.range n).foldl step (some aug) with
  | none => none
  | some M => some (Array.ofFn (n := n * n) (fun q => ent w M (q.val / n) (n + q.val % n)))

/-- Eigen's `a.dot(b)`: conjugate-linear in the first argument -/
def eigenDot (conj : K → K) (a b : Vec K) : K :=
  (a.toList.zip b.toList).foldl (fun acc p => acc + conj p.1 * p.2) 0

/-- `backend::inner_product(x, y)` of the Eigen backend: `y.dot(x)` (backend/eigen.hpp:259) -/
def backendInnerProduct (conj : K → K) (x y : Vec K) : K := eigenDot conj y x

end Amgcl.EigenVT
