import Amgcl.Model.StaticMatrix
import Amgcl.Model.Kernels
/-!
# `amgcl::detail::inverse(n, A, t, p)` (detail/inverse.hpp:44-97) — core Lean only

In-place inverse of a dense row-major `n×n` matrix by LU factorisation with partial (row) pivoting.
The three buffers of the C++ function are explicit state: `A` (`n*n` values, overwritten by the inverse), the
workspace `t` (`n*n` values) and the pivot array `p` (`n` ints).  Rows are never moved: `p` is a permutation of the
physical row numbers, logical row `i` is physical row `p[i]`.

```
std::iota(p, p + n, 0);
for col < n:                                              -- luStep
    pivot_i = col; pivot_mag = 0
    for i in [col, n): mag = math::norm(A[p[i]*n+col]); if (mag > pivot_mag) { pivot_mag = mag; pivot_i = i }   -- pivotSearch
    swap(p[col], p[pivot_i]); pivot_row = p[col]
    d = math::inverse(A[pivot_row*n+col])                  -- identity / x  (total division: 1/0 = 0)
    for i in (col, n): row = p[i]                          -- elimRow
        A[row*n+col] *= d
        for j in (col, n): A[row*n+j] -= A[row*n+col] * A[pivot_row*n+j]
    A[pivot_row*n+col] = d
for k < n:                                                -- solveCol
    for i < n:  row = p[i]; b = (row == k) ? 1 : 0; for j < i: b -= A[row*n+j] * t[j*n+k]; t[i*n+k] = b      -- fwdRow
    for i = n-1 … 0: row = p[i]; for j in (i, n): t[i*n+k] -= A[row*n+j] * t[j*n+k]; t[i*n+k] *= A[row*n+i]  -- bwdRow
std::copy(t, t + n*n, A)
```
`math::norm` of a scalar is `std::abs` (`absK`).  `assert(!is_zero(d))` is not modelled as an outcome (it is
compiled out under `NDEBUG`); `Properties/C16.lean` proves that for a nonsingular matrix the pivot is never zero.
-/
namespace Amgcl

section
variable {K : Type}

/-- `A[i*n + j]` -/
@[inline] def get2 [Zero K] (n : Nat) (A : Array K) (i j : Nat) : K := A.getD (i * n + j) 0
/-- `A[i*n + j] = v` -/
@[inline] def set2 (n : Nat) (A : Array K) (i j : Nat) (v : K) : Array K := A.setIfInBounds (i * n + j) v

-- `std::abs` of the harness type / of a real scalar (`a < 0 ? -a : a`) is `Amgcl.absK` of Model/Kernels.lean

/-- `std::iota(p, p + n, 0)` -/
def iotaN (n : Nat) (p : Array Nat) : Array Nat :=
  (List.range n).foldl (fun p i => p.setIfInBounds i i) p

/-- `std::swap(p[a], p[b])` -/
def swapN (p : Array Nat) (a b : Nat) : Array Nat :=
  let x := p.getD a 0
  let y := p.getD b 0
  (p.setIfInBounds a y).setIfInBounds b x

/-- `std::copy(t, t + m, A)` -/
def copyN (m : Nat) (t A : Array K) [Zero K] : Array K :=
  (List.range m).foldl (fun A i => A.setIfInBounds i (t.getD i 0)) A

variable [Zero K] [One K] [Sub K] [Mul K] [Div K] [Neg K] [LT K] [DecidableLT K]

/-- the pivot search of column `col`: state `(pivot_i, pivot_mag)`, strict `mag > pivot_mag` -/
def pivotSearch (n col : Nat) (A : Array K) (p : Array Nat) : Nat :=
  ((List.range' col (n - col)).foldl (fun (st : Nat × K) i =>
      let mag := absK (get2 n A (p.getD i 0) col)
      if st.2 < mag then (i, mag) else st) (col, (0 : K))).1

/-- Gauss elimination of one row below the pivot: `A[row][col] *= d`, then the `j` loop -/
def elimRow (n col prow row : Nat) (d : K) (A : Array K) : Array K :=
  let A := set2 n A row col (get2 n A row col * d)
  (List.range' (col + 1) (n - (col + 1))).foldl
    (fun A j => set2 n A row j (get2 n A row j - get2 n A row col * get2 n A prow j)) A

/-- one column of the in-place LU factorisation -/
def luStep (n : Nat) (st : Array K × Array Nat) (col : Nat) : Array K × Array Nat :=
  let A := st.1
  let p := swapN st.2 col (pivotSearch n col A st.2)
  let prow := p.getD col 0
  let d : K := 1 / get2 n A prow col
  let A := (List.range' (col + 1) (n - (col + 1))).foldl (fun A i => elimRow n col prow (p.getD i 0) d A) A
  (set2 n A prow col d, p)

/-- the LU phase: all columns in order -/
def luPhase (n : Nat) (A : Array K) (p : Array Nat) : Array K × Array Nat :=
  (List.range n).foldl (luStep n) (A, iotaN n p)

/-- lower triangular solve of row `i` for right-hand side column `k` -/
def fwdRow (n k : Nat) (A : Array K) (p : Array Nat) (t : Array K) (i : Nat) : Array K :=
  let row := p.getD i 0
  let b0 : K := if row = k then 1 else 0
  let b := (List.range i).foldl (fun b j => b - get2 n A row j * get2 n t j k) b0
  set2 n t i k b

/-- upper triangular solve of row `i` (in place in `t[i*n+k]`), then scaling by the stored inverse pivot -/
def bwdRow (n k : Nat) (A : Array K) (p : Array Nat) (t : Array K) (i : Nat) : Array K :=
  let row := p.getD i 0
  let t := (List.range' (i + 1) (n - (i + 1))).foldl
    (fun t j => set2 n t i k (get2 n t i k - get2 n A row j * get2 n t j k)) t
  set2 n t i k (get2 n t i k * get2 n A row i)

/-- column `k` of the inverse: forward loop `i = 0 … n-1`, backward loop `i = n-1 … 0` -/
def solveCol (n : Nat) (A : Array K) (p : Array Nat) (t : Array K) (k : Nat) : Array K :=
  let t := (List.range n).foldl (fwdRow n k A p) t
  (List.range n).reverse.foldl (bwdRow n k A p) t

/-- `detail::inverse(n, A, t, p)`: returns the three buffers `(A, t, p)` after the call -/
def inverse (n : Nat) (A t : Array K) (p : Array Nat) : Array K × Array K × Array Nat :=
  let (A, p) := luPhase n A p
  let t := (List.range n).foldl (solveCol n A p) t
  (copyN (n * n) t A, t, p)

/-- `math::inverse_impl<static_matrix<T,N,N>>::get` (static_matrix.hpp:360-370): `detail::inverse` on the
matrix buffer with two local workspace arrays (`std::array`, value-initialised for class types). -/
def SMat.inverse {N : Nat} (a : SMat K N N) : SMat K N N :=
  ⟨(Amgcl.inverse N a.buf (Array.replicate (N * N) (0 : K)) (Array.replicate N 0)).1⟩

end

end Amgcl
