import Amgcl.Model.RelaxIlu
/-!
# ILUP (relaxation/ilup.hpp:51-185) as written — core Lean only

`ilup(A, prm)`: for `prm.k == 0` it is `ilu0(A)`; otherwise

    P = symb_product(A, A);  for (k = 1; k < prm.k; ++k) P = symb_product(*P, A);      // pattern of A^(k+1)
    P->val = new value_type[nnz];  per row: fill(0), then the values of A scattered into it;  base = ilu0(*P)

## `detail::symb_product(A, B)` (ilup.hpp:51-117), one OpenMP thread
First pass, row `ia`: `C_cols` = number of marker hits `marker[cb] != ia` (`marker[cb] = ia`), marker initially all `-1` and shared
by all rows (`symbWidthRow`, `symbWidths`); `C_ptr` = prefix sums (`scan_row_sizes`).  Second pass, row `ia` with
`row_beg = C_ptr[ia]`, `row_end = row_beg`: test `marker[cb] < row_beg`, then `marker[cb] = row_end; C_col[row_end] = cb; ++row_end`,
again one marker for all rows (`symbRow`), finally `std::sort(C_col + row_beg, C_col + row_end)`.

A symbolic matrix has no values: it is an array of column lists (`Pat`).  The model returns the sorted columns pushed by the second
pass as the rows of the product; in C++ a row is read back as `C_col[C_ptr[ia] .. C_ptr[ia+1])`, i.e. it has the width counted by
the FIRST pass — `Properties/C06c.lean` proves that both passes count the same (`symb_product_widths_agree`), the widths of the
first pass being part of the model because they position `row_beg` in the second.

## the scatter loop (ilup.hpp:168-181), row `i`
`jp` starts at `p_beg` and is NOT reset between the entries of the row of `A`: `while (jp < ep && P->col[jp] < ca) ++jp;`
`if (P->col[jp] == ca) P->val[jp] = A.val[ja];`.  `P->col[jp]` is read also when `jp == ep` (the first column of the next row,
or one past the array for the last row): the model answers `undefinedInput` there.  Under the preconditions of the driver (every
row of `A` sorted and storing its diagonal) that read does not occur (`C06c.ilup_pad_ok`).
-/
namespace Amgcl
namespace Relax

/-- a symbolic matrix: the column list of every row -/
abbrev Pat := Array (List Nat)

/-- the pattern of a stored matrix (stored order) -/
def patRows {K : Type} (A : CRS K) : Pat := A.rows.map (fun r => r.map (·.1))

/-- insertion of one index into a sorted list -/
def ilupIns (a : Nat) : List Nat → List Nat
  | [] => [a]
  | b :: t => if a ≤ b then a :: b :: t else b :: ilupIns a t

/-- `std::sort` on column indices -/
def ilupSort (l : List Nat) : List Nat := l.foldr ilupIns []

/-- first pass of `symb_product` for row `ia`: `(C_cols, marker)` -/
def symbWidthRow (A B : Pat) (marker : Array Int) (ia : Nat) : Nat × Array Int :=
  (A.getD ia []).foldl (fun acc ca =>
    (B.getD ca []).foldl (fun (acc : Nat × Array Int) cb =>
      if acc.2.getD cb (-1) != (ia : Int) then (acc.1 + 1, acc.2.setIfInBounds cb (ia : Int)) else acc) acc) (0, marker)

/-- the row widths counted by the first pass (one marker for all rows) -/
def symbWidths (A B : Pat) (ncols : Nat) : List Nat :=
  ((List.range A.size).foldl (fun (acc : List Nat × Array Int) ia =>
    let r := symbWidthRow A B acc.2 ia
    (acc.1 ++ [r.1], r.2)) ([], Array.replicate ncols (-1))).1

/-- second pass for row `ia`: the columns in the order they are appended, and the marker -/
def symbRow (A B : Pat) (marker : Array Int) (ia rowBeg : Nat) : Array Nat × Array Int :=
  (A.getD ia []).foldl (fun acc ca =>
    (B.getD ca []).foldl (fun (acc : Array Nat × Array Int) cb =>
      if acc.2.getD cb (-1) < (rowBeg : Int) then
        (acc.1.push cb, acc.2.setIfInBounds cb ((rowBeg + acc.1.size : Nat) : Int))
      else acc) acc) (#[], marker)

/-- `symb_product(A, B)`; `ncols = B.ncols` -/
def symbProduct (A B : Pat) (ncols : Nat) : Pat :=
  let ws := symbWidths A B ncols
  -- `C_ptr[ia]` = sum of the widths of the rows before `ia`
  ((List.range A.size).foldl (fun (acc : Pat × Array Int × Nat) ia =>
    let r := symbRow A B acc.2.1 ia acc.2.2
    (acc.1.push (ilupSort r.1.toList), r.2, acc.2.2 + ws.getD ia 0)) (#[], Array.replicate ncols (-1), 0)).1

/-- the symbolic pattern `ilup` builds for `prm.k = k ≥ 1` -/
def ilupPattern {K : Type} (k : Nat) (A : CRS K) : Pat :=
  (List.range (k - 1)).foldl (fun P _ => symbProduct P (patRows A) A.ncols) (symbProduct (patRows A) (patRows A) A.ncols)

section scatter
variable {K : Type} [Zero K]

/-- `while (jp < ep && P->col[jp] < ca) ++jp;` on the columns `pc` of one row (`jp` relative to `p_beg`) -/
def ilupAdvance (pc : Array Nat) (ca : Nat) : Nat → Nat → Nat
  | 0, jp => jp
  | fuel + 1, jp => if jp < pc.size && pc.getD jp 0 < ca then ilupAdvance pc ca fuel (jp + 1) else jp

/-- the scatter loop of one row: the values of the row of `P` -/
def ilupScatter (pc : Array Nat) : List (Nat × K) → Nat → Array K → SetupOutcome (Array K)
  | [], _, vals => .ok vals
  | (ca, v) :: rest, jp, vals =>
    let jp := ilupAdvance pc ca pc.size jp
    if jp < pc.size then
      ilupScatter pc rest jp (if pc.getD jp 0 = ca then vals.setIfInBounds jp v else vals)
    else .undefinedInput      -- `P->col[jp]` with `jp == p_end`

/-- row `i` of the padded matrix -/
def ilupPadRow (pc : List Nat) (r : Row K) : SetupOutcome (Row K) :=
  match ilupScatter pc.toArray r 0 (Array.replicate pc.length (0 : K)) with
  | .ok vals => .ok (pc.zip vals.toList)
  | .precondition => .precondition
  | .undefinedInput => .undefinedInput

/-- the row loop of the scatter -/
def ilupPadRows (P : Pat) (A : CRS K) : List Nat → Array (Row K) → SetupOutcome (Array (Row K))
  | [], rows => .ok rows
  | i :: rest, rows =>
    match ilupPadRow (P.getD i []) (A.row i) with
    | .ok r => ilupPadRows P A rest (rows.push r)
    | .precondition => .precondition
    | .undefinedInput => .undefinedInput

/-- the matrix handed to `ilu0` for `prm.k = k ≥ 1` -/
def ilupPad (k : Nat) (A : CRS K) : SetupOutcome (CRS K) :=
  match ilupPadRows (ilupPattern k A) A (List.range A.nrows) #[] with
  | .ok rows => .ok { ncols := A.ncols, rows := rows }
  | .precondition => .precondition
  | .undefinedInput => .undefinedInput

end scatter

section factor
variable {K : Type} [Add K] [Mul K] [Sub K] [Zero K] [One K] [Div K] [DecidableEq K]

/-- `ilup::ilup(A, prm, bprm)` as written, up to the construction of `ilu_solve` -/
def ilupFactorW (k : Nat) (A : CRS K) : SetupOutcome (IluFactors K) :=
  if k = 0 then ilu0Factor A
  else
    match ilupPad k A with
    | .ok P => ilu0Factor P
    | .precondition => .precondition
    | .undefinedInput => .undefinedInput

/-- ILUP with fill parameter `k` and damping `ω` (sweeps of `ilu0`) -/
def ilup (k : Nat) (ω : K) : Smoother K (IluFactors K) where
  setup A := ilupFactorW k A
  applyPre F A f x t := iluSweep ω F A f x t
  applyPost F A f x t := iluSweep ω F A f x t
  apply F _ f := iluApply F f

end factor

end Relax
end Amgcl
