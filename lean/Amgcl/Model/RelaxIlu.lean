import Amgcl.Model.RelaxCommon
/-!
# ILU(0) (relaxation/ilu0.hpp:92-207) and the serial triangular solve (relaxation/detail/ilu_solve.hpp:229-246)

## Factorisation
For every row `i` the C++ code
1. copies the row of `A` into the tails of `L` (columns `< i`), `D[i]` (column `= i`) and `U` (columns `> i`) and
   records in `work[c]` a *pointer* to the slot that received column `c`;
2. walks the row again in stored order: at the first column `c ≥ i` it checks `precondition(c == i)` and
   `precondition(D[i] != 0)`, inverts `D[i]` and leaves the loop; for a column `c < i` it forms the multiplier
   `tl = *work[c] * D[c]`, stores it, and subtracts `tl * U[c][k]` from `*work[U.col[k]]` for those entries of the
   finished row `c` of `U` whose column has a slot in the current row (`if (w) …`);
3. compacts the `L` and `U` parts of the row, dropping exact zeros;
4. resets `work` on the columns of the row.

Model: the slots of the current row are in one-to-one correspondence with the stored entries of row `i` of `A`, so
the current row is an `Array K` of values parallel to the row, and `work : Array (Option Nat)` maps a column to the
*position* of its slot (last one wins if a column is stored twice, as with the pointers).  Step 4 makes `work` all-NULL
again, so each row starts from `Array.replicate n none`.

A row in which no column `≥ i` is stored leaves `D[i]` unwritten in C++ and raises nothing: outcome `undefinedInput`.
-/
namespace Amgcl
namespace Relax
variable {K : Type} [Add K] [Mul K] [Sub K] [Zero K] [One K] [Div K] [DecidableEq K]

/-- the factors handed to `ilu_solve`: `L` strictly lower (unit diagonal implied), `U` strictly upper,
`D` the **inverted** pivots -/
structure IluFactors (K : Type) where
  L : CRS K
  U : CRS K
  D : Vec K

/-- step 1: the pointer table of a row -/
def iluWork (n : Nat) (r : Row K) : Array (Option Nat) :=
  (r.zipIdx).foldl (fun wk cj => wk.setIfInBounds cj.1.1 (some cj.2)) (Array.replicate n none)

/-- the inner `for k in U.row(c): if (w = work[U.col[k]]) *w -= tl * U.val[k]` -/
def iluUpdate (work : Array (Option Nat)) (tl : K) (urow : Row K) (w : Array K) : Array K :=
  urow.foldl (fun w cu =>
    match work.getD cu.1 none with
    | some p => w.setIfInBounds p (w.getD p 0 - tl * cu.2)
    | none => w) w

/-- step 2: the elimination loop over the remaining columns `cols` of the row (stored order) -/
def iluElim (U : Array (Row K)) (D : Vec K) (i : Nat) (work : Array (Option Nat)) :
    List Nat → Array K → SetupOutcome (Array K)
  | [], _ => .undefinedInput
  | c :: rest, w =>
    if i ≤ c then
      if c ≠ i then .precondition            -- "No diagonal value in system matrix"
      else
        match work.getD i none with
        | some p =>
          if w.getD p 0 = 0 then .precondition  -- "Zero pivot in ILU"
          else .ok (w.setIfInBounds p (1 / w.getD p 0))
        | none => .undefinedInput               -- unreachable: column `i` is in the row
    else
      match work.getD c none with
      | some p =>
        let tl := w.getD p 0 * D.getD c 0
        let w := w.setIfInBounds p tl
        iluElim U D i work rest (iluUpdate work tl (U.getD c []) w)
      | none => .undefinedInput                 -- unreachable: column `c` is in the row

/-- steps 1–3 for row `i`: returns the compacted `L` row, the inverted pivot, the compacted `U` row -/
def iluRow (n : Nat) (U : Array (Row K)) (D : Vec K) (i : Nat) (r : Row K) : SetupOutcome (Row K × K × Row K) :=
  let work := iluWork n r
  match iluElim U D i work (r.map (·.1)) (r.map (·.2)).toArray with
  | .ok w =>
    let ents := (r.map (·.1)).zip w.toList
    .ok ((ents.filter (fun cv => decide (cv.1 < i) && !(decide (cv.2 = 0)))),
         (match work.getD i none with | some p => w.getD p 0 | none => 0),
         (ents.filter (fun cv => decide (i < cv.1) && !(decide (cv.2 = 0)))))
  | .precondition => .precondition
  | .undefinedInput => .undefinedInput

/-- the row loop of the constructor -/
def iluLoop (A : CRS K) : List Nat → IluFactors K → SetupOutcome (IluFactors K)
  | [], F => .ok F
  | i :: rest, F =>
    match iluRow A.nrows F.U.rows F.D i (A.row i) with
    | .ok (l, d, u) =>
      iluLoop A rest { L := { F.L with rows := F.L.rows.push l }, U := { F.U with rows := F.U.rows.push u }, D := F.D.push d }
    | .precondition => .precondition
    | .undefinedInput => .undefinedInput

/-- `ilu0::ilu0(A, prm, bprm)` up to the construction of `ilu_solve` -/
def ilu0Factor (A : CRS K) : SetupOutcome (IluFactors K) :=
  iluLoop A (List.range A.nrows) { L := ⟨A.nrows, #[]⟩, U := ⟨A.nrows, #[]⟩, D := #[] }

/-- `serial_solve(x)`, lower phase for row `i`: `for j: x[i] -= L.val[j] * x[L.col[j]]` -/
def iluSubRow (r : Row K) (i : Nat) (x : Vec K) : Vec K :=
  r.foldl (fun x cv => x.setIfInBounds i (x.getD i 0 - cv.2 * x.getD cv.1 0)) x

/-- `ilu_solve<builtin>::serial_solve(x)` (in place):
`for i = 0..n-1: x[i] -= Σ L_ij x[j]`, then `for i = n-1..0: x[i] -= Σ U_ij x[j]; x[i] = D[i] * x[i]` -/
def iluSolve (F : IluFactors K) (x : Vec K) : Vec K :=
  let n := F.L.nrows
  let y := (List.range n).foldl (fun x i => iluSubRow (F.L.row i) i x) x
  (List.range n).reverse.foldl (fun x i =>
    let x := iluSubRow (F.U.row i) i x
    x.setIfInBounds i (F.D.getD i 0 * x.getD i 0)) y

/-- `apply_pre` = `apply_post` of ilu0/iluk/ilut/ilup: `tmp = rhs - A x; ilu->solve(tmp); x = damping*tmp + 1*x` -/
def iluSweep (ω : K) (F : IluFactors K) (A : CRS K) (f x _tmp : Vec K) : Vec K × Vec K :=
  let tmp := iluSolve F (residual f A x)
  (axpby ω tmp 1 x, tmp)

/-- `apply`: `copy(rhs, x); ilu->solve(x)` -/
def iluApply (F : IluFactors K) (f : Vec K) : Vec K := iluSolve F (vcopy f)

/-- ILU(0) with damping `ω` and the serial triangular solve -/
def ilu0 (ω : K) : Smoother K (IluFactors K) where
  setup A := ilu0Factor A
  applyPre F A f x t := iluSweep ω F A f x t
  applyPost F A f x t := iluSweep ω F A f x t
  apply F _ f := iluApply F f

end Relax
end Amgcl
