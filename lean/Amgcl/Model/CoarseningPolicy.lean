import Amgcl.Model.Kernels
import Amgcl.Model.SmoothedAggregation
import Amgcl.Model.ParamGlue
/-!
# Adapters for the hierarchy model (`Model/Amg.lean`, `Amg.Policy.transfer : Nat → CRS K → Option (CRS K × CRS K)`)

`transferAggregation p l A` / `transferSmoothedAggregation p l A` are the `(P, R)` returned by the `l`-th call
(`l = 0, 1, …`) of `transfer_operators` on one `aggregation` / `smoothed_aggregation` object created with the
user-level parameters `p` (exact rational values of the floats), at the exact type `Rat`:

* `R = transpose(*P)` (kernels of C08, `adj = id` for real scalars);
* `aggregation` keeps its parameters; `smoothed_aggregation` halves `eps_strong` after every *successful* call
  (`prm.aggr.eps_strong *= 0.5`, evaluated in `float`), so the `l`-th call of a hierarchy build — every earlier call
  succeeded, otherwise the build stopped — sees `eps_strong · 2^-l`;
* `Outcome.emptyLevel` is `error::empty_level` (the hierarchy stops coarsening), `Outcome.precondition` is the
  `std::runtime_error` of `pointwise_matrix` (size not divisible by `block_size`), which escapes the `amg` constructor;
  `none` inside = a parameter that is not a `float` value (the driver answers `bad-input`).
-/
namespace Amgcl
namespace Coarsening
open ParamGlue

def ratAbs (x : Rat) : Rat := if x < 0 then -x else x

/-- `eps_strong` after `l` halvings in `float` -/
def halvedEps : Nat → Rat → Option Rat
  | 0, e => some e
  | l + 1, e => (f32Half e).bind (halvedEps l)

def withTranspose (o : Outcome (Transfer Rat)) : Outcome (CRS Rat × CRS Rat) :=
  match o with
  | .ok T => .ok (T.P, transpose id T.P)
  | .emptyLevel => .emptyLevel
  | .precondition => .precondition

def transferAggregation (p : CoarseningParamsQ) (_l : Nat) (A : CRS Rat) : Option (Outcome (CRS Rat × CRS Rat)) :=
  p.toAggr.map fun prm => withTranspose (aggregationTransfer ratAbs prm A)

def transferSmoothedAggregation (p : CoarseningParamsQ) (l : Nat) (A : CRS Rat) :
    Option (Outcome (CRS Rat × CRS Rat)) := do
  let e ← halvedEps l p.epsStrong
  let prm ← ({ p with epsStrong := e } : CoarseningParamsQ).toSA
  pure (withTranspose (smoothedAggregationTransfer ratAbs prm A))

/-- collapse to the `Option` of `Amg.Policy.transfer` (`none` = `empty_level`); a `precondition` or a non-float
parameter is mapped to `none` as well — callers that must distinguish use the functions above -/
def toPolicyTransfer (f : Nat → CRS Rat → Option (Outcome (CRS Rat × CRS Rat))) :
    Nat → CRS Rat → Option (CRS Rat × CRS Rat) :=
  fun l A => match f l A with
    | some (.ok pr) => some pr
    | _ => none

end Coarsening
end Amgcl
