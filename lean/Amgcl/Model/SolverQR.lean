import Amgcl.Model.SolverCommon2
/-!
# `amgcl::detail::QR<T>` for a scalar `T` — detail/qr.hpp:100-145, 218-282, 301-463, as used by BiCGStab(L)

BiCGStab(L) calls `qr.solve(n, n, MZa.stride(0), MZa.stride(1), &MZa(1,1), b, y, computed)` on the square
sub-matrix of `MZa` that starts at row 1, column 1 (`n = L` or `L − 1`).  With `row_stride = L+1`, `col_stride = 1`
the flat offsets `ii + a*row_stride + b*col_stride` of qr.hpp address `MZa(o+i+a, o+i+b)` (`o = 1`), so the
factorisation is modelled on the two-dimensional map with an offset `o`.  Only the branch `rows >= cols`
(overdetermined / square) of `solve` is reachable from BiCGStab(L) and modelled.

`compute` (ZGEQR2) overwrites the matrix in place with `R` (upper triangle) and the Householder vectors (below the
diagonal) and fills `tau`; `solve` applies the reflectors to the right-hand side `f` and back-substitutes, skipping
zero pivots (`if (math::is_zero(rii)) continue;`).  The members `tau`, `f` are work space of the `QR` object
(`QRSt`).  With `computed = true` the factorisation of the PREVIOUS call is reused (`r`, `tau`); in BiCGStab(L)
this previous call is always the one made a few lines earlier on the same sub-matrix.
-/
namespace Amgcl.Solver.QR
open Amgcl Amgcl.Solver

/-- the members `tau`, `f` of the `QR` object (`q` is used by `factorize` only) -/
structure QRSt (K : Type) where
  tau : FArr K
  f   : FArr K

def QRSt.fresh {K : Type} [Zero K] : QRSt K := ⟨.const 0, .const 0⟩

variable {K : Type} [Add K] [Mul K] [Sub K] [Neg K] [Zero K] [One K] [Div K] [DecidableEq K] [LT K] [DecidableLT K]

/-- `sqr(x)` -/
@[inline] def sqr (x : K) : K := x * x

/-- `gen_reflector(order, alpha, x, stride)` (qr.hpp:301-368, ZLARFG) with `alpha = A(ri, ci)` and
`x[t] = A(ri+1+t, ci)`: returns `tau` and the matrix with `alpha := beta`, `x := v` -/
def genReflector (sqrt : K → K) (order : Nat) (A : FArr2 K) (ri ci : Nat) : K × FArr2 K :=
  if order ≤ 1 then (0, A) else                            -- value_type tau = zero; if (order <= 1) return tau;
  let n := order - 1
  let xnorm2 := (List.range n).foldl
    (fun acc t => acc + sqr (absK (A (ri + 1 + t) ci))) 0  -- xnorm2 += sqr(math::norm(x[ii]));
  if xnorm2 = 0 then (0, A) else                           -- if (math::is_zero(xnorm2)) return tau;
  let alpha := A ri ci
  let beta0 := -(absK (sqrt (sqr (absK alpha) + xnorm2)))  -- beta = -std::abs(sqrt(sqr(math::norm(alpha)) + xnorm2));
  let beta := if alpha < 0 then -beta0 else beta0          -- if (real(alpha) < 0) beta = -beta;
  let tau := 1 - inv1 beta * alpha                         -- tau = identity - math::inverse(beta) * alpha;
  let alpha' := inv1 (alpha - beta * 1)                    -- alpha = math::inverse(alpha - beta * identity);
  let A1 := (List.range n).foldl
    (fun A t => setF2 A (ri + 1 + t) ci (alpha' * A (ri + 1 + t) ci)) A   -- x[ii] = alpha * x[ii];
  (tau, setF2 A1 ri ci (beta * 1))                         -- alpha = beta * identity; return tau;

/-- `apply_reflector(m, n, v, v_stride, tau, C, row_stride, col_stride)` (qr.hpp:370-462, ZLARF) with
`v[j] = A(vr+j, vc)` and the `m × n` block `C(a, b) = A(cr+a, cc+b)` of the SAME matrix (`math::adjoint` = id) -/
def applyReflMat (m n : Nat) (vr vc : Nat) (tau : K) (A : FArr2 K) (cr cc : Nat) : FArr2 K :=
  if tau = 0 then A else                                   -- if (math::is_zero(tau)) return;
  (List.range n).foldl (fun A i =>
      let s0 := ((List.range m).drop 1).foldl
        (fun s j => s + A (cr + j) (cc + i) * A (vr + j) vc) (A cr (cc + i))  -- s = C[ia]; for(j = 1..m) s += C[ja+ia] * v[jv];
      let s := tau * s0                                                        -- s = tau * math::adjoint(s);
      let A1 := setF2 A cr (cc + i) (A cr (cc + i) - s)                        -- C[ia] -= s;
      ((List.range m).drop 1).foldl
        (fun A j => setF2 A (cr + j) (cc + i) (A (cr + j) (cc + i) - A (vr + j) vc * s)) A1) A   -- C[ja+ia] -= v[jv] * s;

/-- the same for the single column `C[j] = f[fo + j]` of the right-hand side vector (`n = 1`, strides 1) -/
def applyReflVec (m : Nat) (A : FArr2 K) (vr vc : Nat) (tau : K) (f : FArr K) (fo : Nat) : FArr K :=
  if tau = 0 then f else
  let s0 := ((List.range m).drop 1).foldl (fun s j => s + f (fo + j) * A (vr + j) vc) (f fo)
  let s := tau * s0
  let f1 := setF f fo (f fo - s)
  ((List.range m).drop 1).foldl (fun f j => setF f (fo + j) (f (fo + j) - A (vr + j) vc * s)) f1

/-- `compute(rows, cols, row_stride, col_stride, A)` (qr.hpp:105-145, ZGEQR2) on the block starting at `(o, o)`:
returns the overwritten matrix and `tau` -/
def compute (sqrt : K → K) (rows cols o : Nat) (A : FArr2 K) (tau : FArr K) : FArr2 K × FArr K :=
  let k := min rows cols                                   -- if (k <= 0) return;   (the fold over `range 0` is empty)
  (List.range k).foldl (fun (acc : FArr2 K × FArr K) i =>
      -- tau[i] = gen_reflector(m-i, A[ii], A + ii + row_stride, row_stride);
      let g := genReflector sqrt (rows - i) acc.1 (o + i) (o + i)
      let tau := setF acc.2 i g.1
      -- if (i+1 < n) apply_reflector(m-i, n-i-1, A + ii, row_stride, adjoint(tau[i]), A + ii + col_stride, …);
      let A := if i + 1 < cols then applyReflMat (rows - i) (cols - i - 1) (o + i) (o + i) (tau i) g.2 (o + i) (o + i + 1)
               else g.2
      (A, tau)) (A, tau)

/-- `solve(rows, cols, …, A, b, x, computed)` (qr.hpp:218-282), branch `rows >= cols`; `b[t] = b t`,
`x[t] = Y (yo + t)`.  Returns the matrix (factorised in place), the `QR` object's state and `Y`. -/
def solve (sqrt : K → K) (rows cols o : Nat) (A : FArr2 K) (q : QRSt K) (b : Nat → K) (Y : FArr K) (yo : Nat)
    (computed : Bool) : FArr2 K × QRSt K × FArr K :=
  -- f.resize(rows); std::copy(b, b + rows, f.begin());
  let f0 := (List.range rows).foldl (fun f t => setF f t (b t)) q.f
  -- if (!computed) compute(rows, cols, row_stride, col_stride, A);
  let ct := if computed then (A, q.tau) else compute sqrt rows cols o A q.tau
  let A := ct.1
  let tau := ct.2
  -- for(i < cols) apply_reflector(rows-i, 1, r+ii, row_stride, adjoint(tau[i]), &f[i], 1, 1);
  let f := (List.range cols).foldl (fun f i => applyReflVec (rows - i) A (o + i) (o + i) (tau i) f i) f0
  -- std::copy(f.begin(), f.begin()+cols, x);
  let Y1 := (List.range cols).foldl (fun Y t => setF Y (yo + t) (f t)) Y
  -- for(i = cols; i --> 0; ) { rii = r[i*(rs+cs)]; if (is_zero(rii)) continue; x[i] = inverse(rii) * x[i];
  --                            for(j < i) x[j] -= r[ia + ja] * x[i]; }
  let Y2 := (List.range cols).reverse.foldl (fun Y i =>
      let rii := A (o + i) (o + i)
      if rii = 0 then Y else
      let Ya := setF Y (yo + i) (inv1 rii * Y (yo + i))
      (List.range i).foldl (fun Y j => setF Y (yo + j) (Y (yo + j) - A (o + j) (o + i) * Y (yo + i))) Ya) Y1
  (A, ⟨tau, f⟩, Y2)

end Amgcl.Solver.QR
