import Amgcl.Model.DefinedCells
import Amgcl.Model.RelaxIlu
/-!
# `ilu0::ilu0(A, …)` (relaxation/ilu0.hpp:92-207) with the pointer table `work` THREADED through the rows and the
pivot array `D` as uninitialised heap cells

`Model/RelaxIlu.lean` starts every row from a fresh all-NULL pointer table, i.e. it *assumes* what step 4 of the
C++ row loop (`for j: work[A.col[j]] = NULL`) establishes.  Here the table is a loop-carried variable, exactly as in
the code:

* `std::vector<value_type*> work(n, NULL)` once, before the row loop;
* step 1 of row `i` stores pointers at the columns of the row INTO THE TABLE LEFT BY ROW `i-1` (`iluWorkFrom`);
* step 2 reads `work[c]` for the columns of the row and `work[U.col[k]]` for the columns of finished `U` rows — a stale
  non-NULL entry there is a write through a pointer of an earlier row (history dependence);
* step 4 resets the columns of the row (`iluWorkReset`; `reset = false` models the loop without step 4 and exists only
  for the counterexample theorem).

`D = make_shared<numa_vector<value_type>>(n, false)` is an uninitialised allocation: `D[i]` is written in step 1 iff
row `i` stores column `i`; it is read by `is_zero((*D)[i])` when the elimination loop reaches a column `≥ i`
(after `precondition(c == i)`), and `(*D)[c]` is read for every column `c < i` of the row.  The slot of the diagonal
entry of the CURRENT row is the cell `D[i]` itself; the model keeps its value with the other slots of the row (`w`, as
`Model/RelaxIlu.lean` does) and tracks in the cell array whether it has been written.
-/
namespace Amgcl
namespace Defined
open Relax
variable {K : Type} [Add K] [Mul K] [Sub K] [Zero K] [One K] [Div K] [DecidableEq K]

inductive IluOut (α : Type) where
  | ok (a : α)
  | precondition
  /-- a cell that was never written is read, or a NULL `work` pointer is dereferenced -/
  | uninit
deriving Repr, DecidableEq

/-- step 1, pointer part, on the incoming table -/
def iluWorkFrom (work : Array (Option Nat)) (r : Row K) : Array (Option Nat) :=
  (r.zipIdx).foldl (fun wk cj => wk.setIfInBounds cj.1.1 (some cj.2)) work

/-- step 4: `for j in row: work[A.col[j]] = NULL` -/
def iluWorkReset (work : Array (Option Nat)) (r : Row K) : Array (Option Nat) :=
  r.foldl (fun wk cv => wk.setIfInBounds cv.1 none) work

/-- step 1, `(*D)[i] = v` for the stored entries with column `i` -/
def iluDiagWrite (D : Array (Cell K)) (i : Nat) (r : Row K) : Array (Cell K) :=
  r.foldl (fun D cv => if cv.1 = i then store D i cv.2 else D) D

/-- step 2 with the loads of `D` checked; returns the slots and whether the pivot was reached -/
def iluElimC (U : Array (Row K)) (D : Array (Cell K)) (i : Nat) (work : Array (Option Nat)) :
    List Nat → Array K → IluOut (Array K × Bool)
  | [], w => .ok (w, false)                    -- the loop runs off the row: `D[i]` is not touched again
  | c :: rest, w =>
    if i ≤ c then
      if c ≠ i then .precondition
      else
        match load D i, work.getD i none with   -- `is_zero((*D)[i])`
        | some _, some p =>
          if w.getD p 0 = 0 then .precondition
          else .ok (w.setIfInBounds p (1 / w.getD p 0), true)
        | _, _ => .uninit
    else
      match work.getD c none, load D c with     -- `(*work[c]) * (*D)[c]`
      | some p, some d =>
        let tl := w.getD p 0 * d
        let w := w.setIfInBounds p tl
        iluElimC U D i work rest (iluUpdate work tl (U.getD c []) w)
      | _, _ => .uninit

structure IluState (K : Type) where
  L : Array (Row K)
  U : Array (Row K)
  D : Array (Cell K)
  work : Array (Option Nat)

/-- one row of the constructor: steps 1–4 -/
def iluRowC (reset : Bool) (S : IluState K) (i : Nat) (r : Row K) : IluOut (IluState K) :=
  let work := iluWorkFrom S.work r
  let D1 := iluDiagWrite S.D i r
  match iluElimC S.U D1 i work (r.map (·.1)) (r.map (·.2)).toArray with
  | .ok (w, piv) =>
    let ents := (r.map (·.1)).zip w.toList
    let D2 := if piv then (match work.getD i none with | some p => store D1 i (w.getD p 0) | none => D1) else D1
    .ok { L := S.L.push (ents.filter (fun cv => decide (cv.1 < i) && !(decide (cv.2 = 0)))),
          U := S.U.push (ents.filter (fun cv => decide (i < cv.1) && !(decide (cv.2 = 0)))),
          D := D2,
          work := if reset then iluWorkReset work r else work }
  | .precondition => .precondition
  | .uninit => .uninit

def iluLoopC (reset : Bool) (A : CRS K) : List Nat → IluState K → IluOut (IluState K)
  | [], S => .ok S
  | i :: rest, S =>
    match iluRowC reset S i (A.row i) with
    | .ok S' => iluLoopC reset A rest S'
    | .precondition => .precondition
    | .uninit => .uninit

/-- the constructor; `junk` is the prior content of the memory `D` is allocated in -/
def ilu0Cells (reset : Bool) (A : CRS K) (junk : Array K) : IluOut (IluState K) :=
  iluLoopC reset A (List.range A.nrows)
    { L := #[], U := #[], D := alloc junk, work := Array.replicate A.nrows none }

/-- what a caller can observe of the factors -/
def IluState.factors (S : IluState K) (n : Nat) : IluFactors K :=
  { L := ⟨n, S.L⟩, U := ⟨n, S.U⟩, D := erase S.D }

end Defined
end Amgcl
