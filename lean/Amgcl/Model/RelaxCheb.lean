import Amgcl.Model.RelaxJacobi
import Amgcl.Model.Kernels
/-!
# Chebyshev polynomial smoother (relaxation/chebyshev.hpp)

Constructor (lines 113-141): spectral radius by Gershgorin (`backend::spectral_radius<scale>(A, 0)`, the
`power_iters <= 0` branch, modelled once for all users as `Amgcl.gershgorin` in `Model/Kernels.lean` with the C08b
theorems `gershgorin_is_max_rowsum`, `gershgorin_bound`; the power method draws from `std::mt19937` and is not
modelled), `lo = hi*lower`, `hi *= higher`, `d = (hi+lo)/2`, `c = (hi-lo)/2`.
`solve` (lines 183-206): the three-term recurrence with the *members* `p`, `r` as scratch.

The numeric literals of the C++ text (`0.5`, `2`, `0.25`) are the field elements `1/(1+1)`, `1+1`, `1/((1+1)(1+1))`.
-/
namespace Amgcl
namespace Relax
variable {K : Type} [Add K] [Mul K] [Sub K] [Zero K] [One K] [Div K] [DecidableEq K]

/-- `chebyshev::params` (`power_iters` is fixed to `0`: Gershgorin) -/
structure ChebParams (K : Type) where
  degree : Nat
  higher : K
  lower  : K
  scale  : Bool

/-- the constructed object: parameters used by `solve`, the inverted diagonal `M` (only when `scale`),
the ellipse `c, d`, and the mutable scratch members `p, r` -/
structure ChebState (K : Type) where
  degree : Nat
  scale  : Bool
  M : Vec K
  c : K
  d : K
  p : Vec K
  r : Vec K

/-- the constructor; `p`, `r` are `create_vector(n)` (contents irrelevant, zero here) -/
def chebSetup [Neg K] [Inv K] [LT K] [DecidableLT K] (prm : ChebParams K) (A : CRS K) : ChebState K :=
  let hi₀ := Amgcl.gershgorin prm.scale A
  let lo := hi₀ * prm.lower
  let hi := hi₀ * prm.higher
  let half : K := 1 / (1 + 1)
  { degree := prm.degree, scale := prm.scale,
    M := if prm.scale then diagInv A else #[],
    d := half * (hi + lo), c := half * (hi - lo),
    p := vclear A.nrows, r := vclear A.nrows }

/-- loop-carried state of `solve` -/
structure ChebIter (K : Type) where
  x : Vec K
  p : Vec K
  r : Vec K
  alpha : K
  beta  : K

/-- iteration `k` of the loop in `solve` -/
def chebStep (s : ChebState K) (A : CRS K) (b : Vec K) (st : ChebIter K) (k : Nat) : ChebIter K :=
  let r := residual b A st.x
  let r := if s.scale then vmul 1 s.M r 0 r else r
  let two : K := 1 + 1
  let quarter : K := 1 / (two * two)
  let ab : K × K :=
    if k = 0 then (1 / s.d, 0)
    else if k = 1 then
      let a := two * s.d * (1 / (two * s.d * s.d - s.c * s.c))
      (a, a * s.d - 1)
    else
      let a := 1 / (s.d - quarter * st.alpha * s.c * s.c)
      (a, a * s.d - 1)
  let p := axpby ab.1 r ab.2 st.p
  let x := axpby 1 p 1 st.x
  { x := x, p := p, r := r, alpha := ab.1, beta := ab.2 }

/-- `chebyshev::solve(A, b, x)` with the members `p`, `r` passed in and returned: `(x', p', r')` -/
def chebSolve (s : ChebState K) (A : CRS K) (b x p r : Vec K) : Vec K × Vec K × Vec K :=
  let st := (List.range s.degree).foldl (chebStep s A b) { x := x, p := p, r := r, alpha := 0, beta := 0 }
  (st.x, st.p, st.r)

/-- Chebyshev smoother.  `apply_pre = apply_post = solve`, `apply = clear(x); solve`.  The members `p, r` are read
from the state; their new contents are dropped here because the result does not depend on them
(`C06.cheb_scratch_indep`). `tmp` is untouched. -/
def chebyshev [Neg K] [Inv K] [LT K] [DecidableLT K] (prm : ChebParams K) : Smoother K (ChebState K) where
  setup A := if !prm.scale || hasDiagb A then .ok (chebSetup prm A) else .undefinedInput
  applyPre s A f x t := ((chebSolve s A f x s.p s.r).1, t)
  applyPost s A f x t := ((chebSolve s A f x s.p s.r).1, t)
  apply s A f := (chebSolve s A f (vclear A.nrows) s.p s.r).1

end Relax
end Amgcl
