import Amgcl.Model.SolverCommon
/-!
# Additional conventions for the second solver package (GMRES, FGMRES, LGMRES, IDR(s), BiCGStab(L)) — core Lean only

* **the other private `norm()`**: gmres.hpp:322, fgmres.hpp:290, lgmres.hpp:449, idrs.hpp:470 define
  `norm(x) = std::abs(sqrt(inner_product(x, x)))` (absolute value OUTSIDE the root), whereas cg / bicgstab /
  richardson / bicgstabl define `sqrt(math::norm(inner_product(x, x)))` (`nrm`, absolute value inside).  Both are
  mirrored literally: `nrmA` here, `nrm` in `SolverCommon`.  The common prologue exists in both flavours
  (`prologue` / `prologueA`).
* **small coefficient arrays and lists of work vectors** (`std::vector<coef_type> s(M+1)`, `multi_array H(M+1, M)`,
  `std::vector<shared_ptr<vector>> v`) are modelled as total maps (`FArr K`, `FArr2 K`, `FArr (Vec K)`) with
  point updates `setF` / `setF2`.  Every index the code uses lies inside the allocated range (for `M ≥ 1`, `L ≥ 1`,
  `s ≥ 1`, which the driver requires; range errors themselves are the business of ASan in the harness, C10), so the
  map restricted to the allocated range IS the array.  The maps are explicit work-space state passed in and out of
  every call; the theorems of C15 prove that no call reads a cell it has not written before.
* `doWhile`: `do body while (cont)` as `body` followed by the `while` loop `loopN`.
-/
namespace Amgcl.Solver

section ops
variable {K : Type} [Add K] [Mul K] [Sub K] [Neg K] [Zero K] [One K] [Div K] [DecidableEq K] [LT K] [DecidableLT K]

/-- the private `norm()` of gmres / fgmres / lgmres / idrs: `std::abs(sqrt(inner_product(x, x)))` -/
def nrmA (ip : Vec K → Vec K → K) (sqrt : K → K) (v : Vec K) : K := absK (sqrt (ip v v))

/-- the common prologue with `norm = nrmA` (gmres.hpp:176-184 and verbatim in fgmres, lgmres, idrs) -/
def prologueA (nsSearch : Bool) (ip : Vec K → Vec K → K) (sqrt : K → K) (eps : K) (f : Vec K) : Prologue K :=
  let normRhs := nrmA ip sqrt f
  if normRhs < eps then
    if nsSearch then .go 1 else .trivial normRhs
  else .go normRhs

/-- `math::inverse(x)` on a scalar: `identity / x` (value_type/interface.hpp:146-150) -/
@[inline] def inv1 (x : K) : K := 1 / x

end ops

/-- a fixed-size array modelled as a total map.  It is a STRUCTURE around the function (not a bare function type) so
that the compiled driver evaluates every update once: a definition whose result type is a bare function is
eta-expanded by the compiler and would be re-evaluated at every lookup. -/
structure FArr (α : Type) where
  get : Nat → α

/-- a two-dimensional array (`multi_array<T,2>`) modelled as a total map -/
structure FArr2 (α : Type) where
  get : Nat → Nat → α

instance {α : Type} : CoeFun (FArr α) (fun _ => Nat → α) := ⟨FArr.get⟩
instance {α : Type} : CoeFun (FArr2 α) (fun _ => Nat → Nat → α) := ⟨FArr2.get⟩

/-- the array all of whose cells hold `x` -/
def FArr.const {α : Type} (x : α) : FArr α := ⟨fun _ => x⟩
def FArr2.const {α : Type} (x : α) : FArr2 α := ⟨fun _ _ => x⟩

/-- point update of an array modelled as a total map: `a[i] = x` -/
def setF {α : Type} (a : FArr α) (i : Nat) (x : α) : FArr α :=
  ⟨fun k => if k = i then x else a.get k⟩

/-- point update of a two-dimensional array modelled as a total map: `H(i, j) = x` -/
def setF2 {α : Type} (H : FArr2 α) (i j : Nat) (x : α) : FArr2 α :=
  ⟨fun a b => if a = i ∧ b = j then x else H.get a b⟩

/-- the coefficient/vector pairs `(c[i], *v[i])`, `i < n`, handed to `backend::lin_comb(n, c, v, …)` -/
def combList {K : Type} (n : Nat) (c : Nat → K) (v : Nat → Vec K) : List (K × Vec K) :=
  (List.range n).map (fun i => (c i, v i))

/-- `do { body } while (cont)` : the body runs once, then `while (cont) body` with the given fuel -/
def doWhile {σ : Type} (cont : σ → Bool) (body : σ → σ) (fuel : Nat) (s : σ) : σ :=
  loopN cont body fuel (body s)

/-- `do { body } while (cont)` with a body that may throw (`loopE`) -/
def doWhileE {σ ε : Type} (cont : σ → Bool) (body : σ → Except (ε × σ) σ) (fuel : Nat) (s : σ) : Option ε × σ :=
  match body s with
  | .error (e, s') => (some e, s')
  | .ok s' => loopE cont body fuel s'

end Amgcl.Solver
