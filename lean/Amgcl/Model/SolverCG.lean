import Amgcl.Model.SolverCommon
/-!
# `amgcl::solver::cg::operator()(A, P, rhs, x)` — solver/cg.hpp:153-204, statement by statement

CG has no `pside` parameter.  The residual vector `r` is updated recursively (cg.hpp:196) and never recomputed;
the reported residual is `norm(r)/norm_rhs` of that carried vector.
-/
namespace Amgcl.Solver.CG
open Amgcl Amgcl.Solver

/-- the `mutable` members `r, s, p, q` (cg.hpp:241-244) -/
structure Work (K : Type) where
  r : Vec K
  s : Vec K
  p : Vec K
  q : Vec K

/-- a freshly constructed solver of size `n` (`Backend::create_vector` zero-fills) -/
def Work.fresh {K : Type} [Zero K] (n : Nat) : Work K :=
  ⟨Array.replicate n 0, Array.replicate n 0, Array.replicate n 0, Array.replicate n 0⟩

abbrev Params := Amgcl.Solver.Params

variable {K : Type} [Add K] [Mul K] [Sub K] [Neg K] [Zero K] [One K] [Div K] [DecidableEq K] [LT K] [DecidableLT K]

/-- the local variables that live across loop iterations (`rho2`, `alpha` are per-iteration temporaries),
the caller's `x` and the work vectors -/
structure St (K : Type) where
  iter : Nat
  rho1 : K
  res  : K
  x    : Vec K
  w    : Work K

/-- one pass through the loop body, cg.hpp:181-199, including the `++iter` -/
def body (ip : Vec K → Vec K → K) (sqrt : K → K) (A : CRS K) (P : Vec K → Vec K) (st : St K) : St K :=
  let w := st.w
  let s := P w.r                                        -- P.apply(*r, *s);
  let rho2 := st.rho1                                   -- rho2 = rho1;
  let rho1 := ip w.r s                                  -- rho1 = inner_product(*r, *s);
  let p := if st.iter ≠ 0 then axpby 1 s (rho1 / rho2) w.p  -- if (iter) axpby(one, *s, rho1 / rho2, *p);
           else vcopy s                                 -- else copy(*s, *p);
  let q := spmv 1 A p 0 w.q                             -- spmv(one, A, *p, zero, *q);
  let alpha := rho1 / ip q p                            -- alpha = rho1 / inner_product(*q, *p);
  let x := axpby alpha p 1 st.x                         -- axpby( alpha, *p, one,  x);
  let r := axpby (-alpha) q 1 w.r                       -- axpby(-alpha, *q, one, *r);
  { iter := st.iter + 1, rho1 := rho1, res := nrm ip sqrt r,   -- res_norm = norm(*r);
    x := x, w := ⟨r, s, p, q⟩ }

/-- the second conjunct of the loop guard: `math::norm(res_norm) > eps` -/
def cond (epsT : K) (st : St K) : Bool := decide (epsT < absK st.res)

/-- `for(; iter < prm.maxiter && math::norm(res_norm) > eps; ++iter) body` with `fuel = maxiter - iter` -/
def loop (ip : Vec K → Vec K → K) (sqrt : K → K) (A : CRS K) (P : Vec K → Vec K) (epsT : K) :
    Nat → St K → St K :=
  loopN (cond epsT) (body ip sqrt A P)

/-- the state on loop entry, cg.hpp:170-178 -/
def init (ip : Vec K → Vec K → K) (sqrt : K → K) (A : CRS K) (ws : Work K) (f x0 : Vec K) (epsT : K) : St K :=
  let rho1 : K := two * epsT * 1                          -- rho1 = 2 * eps * one;  (rho2 = zero is dead)
  let r := residual f A x0                                -- residual(rhs, A, x, *r);
  { iter := 0, rho1 := rho1, res := nrm ip sqrt r,        -- res_norm = norm(*r);
    x := x0, w := { ws with r := r } }

def run (prm : Params K) (ip : Vec K → Vec K → K) (sqrt : K → K) (eps : K) (A : CRS K) (P : Vec K → Vec K)
    (ws : Work K) (f x0 : Vec K) : Run K (Work K) :=
  match prologue prm.nsSearch ip sqrt eps f with
  | .trivial n => (.ok (0, n), vclear x0.size, ws)       -- clear(x); return (0, norm_rhs);
  | .go normRhs =>
    let epsT := maxK (prm.tol * normRhs) prm.abstol       -- eps = std::max(prm.tol * norm_rhs, prm.abstol);
    let st := loop ip sqrt A P epsT prm.maxiter (init ip sqrt A ws f x0 epsT)
    (.ok (st.iter, st.res / normRhs), st.x, st.w)         -- return (iter, res_norm / norm_rhs);

def solve (prm : Params K) (ip : Vec K → Vec K → K) (sqrt : K → K) (eps : K) (A : CRS K) (P : Vec K → Vec K)
    (ws : Work K) (f x0 : Vec K) : Except Err (Nat × K × Vec K × Work K) :=
  (run prm ip sqrt eps A P ws f x0).toExcept

/-- one call on a solver object in work-vector state `w`: the observable result and the next state -/
def call (prm : Params K) (ip : Vec K → Vec K → K) (sqrt : K → K) (eps : K) (w : Work K) (c : Call K) :
    Obs K × Work K :=
  let r := run prm ip sqrt eps c.A c.P w c.f c.x0
  (r.obs, r.ws)

end Amgcl.Solver.CG
