import Amgcl.Model.Aggregation
/-!
# `coarsening::smoothed_aggregation<Backend>::transfer_operators(A)` (smoothed_aggregation.hpp:132-235),
`nullspace.cols == 0`

1. `Aggregates aggr(A, prm.aggr, prm.nullspace.cols)`, then `prm.aggr.eps_strong *= 0.5` (the halving is state of
   the coarsening object: level `ℓ` of a hierarchy sees `eps_strong · 2^-ℓ`; see `Model/ParamGlue.lean`);
2. `P_tent = tentative_prolongation(...)`;
3. `omega = relax * (2.0/3)`, or `relax * ((4.0/3) / spectral_radius<true>(A, power_iters))` when
   `estimate_spectral_radius` (modelled for `power_iters = 0`: the scaled Gershgorin bound, builtin.hpp:791-818;
   the power iteration draws from `std::mt19937` and is outside the model);
4. per row `i` (l.193-230): the filtered diagonal **as the code computes it** — `dia = Σ { a_ij | j = i or the
   entry is not strong }` (diagonal *plus* the weak entries) — then `if (!is_zero(dia)) dia = -omega * inverse(dia)`
   (so a zero filtered diagonal leaves the factor `0`), and the row
   `Σ_{ja : ca = i or strong} va · P_tent[ca,:]` with `va = 1 - omega` for `ca = i`, `va = dia · a_ij` otherwise,
   accumulated through the position marker array exactly as written (a new column is appended when
   `marker[cp] < row_beg`, otherwise `val[marker[cp]]` is increased).  The marker array lives across rows (one per
   thread; the model is the single-thread order).  The counting pass (l.160-182, `marker[cp] != i`) is
   `saRowCount`; `Proofs/SmoothedAggregation.lean` shows it agrees with the length of the filled row.
-/
namespace Amgcl
namespace Coarsening
section
variable {K : Type} [Add K] [Mul K] [Sub K] [Neg K] [Div K] [Zero K] [One K] [DecidableEq K]

/-- l.197-201 -/
def filteredDia (i : Nat) (r : Row K) (s : List Bool) : K :=
  (r.zip s).foldl (fun d cs => if cs.1.1 == i || !cs.2 then d + cs.1.2 else d) 0

/-- l.202: `if (!math::is_zero(dia)) dia = -omega * math::inverse(dia);` -/
def scaledDia (omega dia : K) : K := if dia = 0 then dia else (-omega) * (1 / dia)

/-- l.216-228: add `va * P_tent[ca,:]` to the row under construction (`row` holds positions `row_beg …`) -/
def saAccum (rowBeg : Nat) (va : K) (ptRow : Row K) (st : Array Int × Array (Nat × K)) :
    Array Int × Array (Nat × K) :=
  ptRow.foldl (fun st cpvp =>
    let m := st.1.getD cpvp.1 0
    if m < (rowBeg : Int) then
      (st.1.setIfInBounds cpvp.1 ((rowBeg + st.2.size : Nat) : Int), st.2.push (cpvp.1, va * cpvp.2))
    else
      (st.1, st.2.modify (m.toNat - rowBeg) (fun e => (e.1, e.2 + va * cpvp.2)))) st

/-- l.193-230 for row `i` with stored entries `r` and flags `s`: returns the marker array and the row of `P` -/
def saRow (omega : K) (Pt : CRS K) (i : Nat) (r : Row K) (s : List Bool) (marker : Array Int) (rowBeg : Nat) :
    Array Int × Array (Nat × K) :=
  let dia := scaledDia omega (filteredDia i r s)
  (r.zip s).foldl (fun st cs =>
    if cs.1.1 != i && !cs.2 then st else
      let va := if cs.1.1 == i then (1 - omega) * 1 else dia * cs.1.2
      saAccum rowBeg va (Pt.row cs.1.1) st) (marker, #[])

/-- l.164-181 for row `i`: number of entries reserved for the row by the counting pass -/
def saRowCount (Pt : CRS K) (i : Nat) (r : Row K) (s : List Bool) (marker : Array Int) : Array Int × Nat :=
  (r.zip s).foldl (fun st cs =>
    if cs.1.1 != i && !cs.2 then st else
      (Pt.row cs.1.1).foldl (fun (st : Array Int × Nat) cpvp =>
        if st.1.getD cpvp.1 0 != (i : Int) then (st.1.setIfInBounds cpvp.1 (i : Int), st.2 + 1) else st) st)
    (marker, 0)

/-- the filling loop over all rows; state = `(marker, row_beg, rows so far)` -/
def smoothProlongation (omega : K) (A : CRS K) (S : Array (List Bool)) (Pt : CRS K) : CRS K :=
  let st := (List.range A.nrows).foldl (fun (st : Array Int × Nat × Array (Row K)) i =>
      let res := saRow omega Pt i (A.row i) (S.getD i []) st.1 st.2.1
      (res.1, st.2.1 + res.2.size, st.2.2.push res.2.toList))
    (Array.replicate Pt.ncols (-1 : Int), 0, #[])
  { ncols := Pt.ncols, rows := st.2.2 }

end
section
variable {K : Type} [Add K] [Mul K] [Div K] [Zero K] [One K] [LT K] [DecidableLT K]

/-- `backend::spectral_radius<true>(A, 0)` (builtin.hpp:791-818, 928): Gershgorin bound of `D⁻¹A`.  `dia` starts
as the identity and is *not* reset between rows (a row without a stored diagonal reuses the previous one); the
last stored diagonal entry of a row wins. -/
def gershgorinScaled (norm : K → K) (A : CRS K) : K :=
  let st := (List.range A.nrows).foldl (fun (st : K × K) i =>
      let sd := (A.row i).foldl (fun (sd : K × K) cv =>
        (sd.1 + norm cv.2, if cv.1 == i then cv.2 else sd.2)) (0, st.2)
      (stdMax st.1 (sd.1 * norm (1 / sd.2)), sd.2)) ((0 : K), (1 : K))
  let radius := stdMax (0 : K) st.1
  if radius < 0 then 1 + 1 else radius

/-- l.150-155 -/
def saOmega (norm : K → K) (prm : SAParams K) (A : CRS K) : K :=
  if prm.estimateSpectralRadius then prm.relax * (prm.omegaScale / gershgorinScaled norm A)
  else prm.relax * prm.omegaScale

end
end Coarsening

open Coarsening in
/-- `smoothed_aggregation<Backend>::transfer_operators(A)`: the prolongation `P` -/
def smoothedAggregationTransfer {K : Type} [Add K] [Mul K] [Sub K] [Neg K] [Div K] [Zero K] [One K]
    [DecidableEq K] [LT K] [DecidableLT K]
    (norm : K → K) (prm : SAParams K) (A : CRS K) : Outcome (Transfer K) :=
  match pointwiseAggregates norm prm.epsSq prm.blockSize prm.minAggregate A with
  | .ok aggr =>
    let Pt : CRS K := tentativeProlongation A.nrows aggr.count aggr.id
    .ok { P := smoothProlongation (saOmega norm prm A) A aggr.strong Pt }
  | .emptyLevel => .emptyLevel
  | .precondition => .precondition

end Amgcl
