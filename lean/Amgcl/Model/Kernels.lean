import Amgcl.Model.Basic
/-!
# Sparse kernels (C08) — mirrors backend/builtin.hpp (transpose, sum, scale, sort_rows, diagonal,
spectral_radius/Gershgorin) and detail/spgemm.hpp (spgemm_saad, spgemm_rmerge), detail/sort_row.hpp.

Conventions: loops are folds in the order of the C++ loops; the marker arrays of the SpGEMM / sum kernels are
modelled literally (`Array Int`, initial value `-1`, threaded through the rows as one OpenMP thread does), so an
off-by-one in a marker test is visible; output rows are built in the order the C++ code appends entries.
-/
namespace Amgcl

section sortRow
variable {K : Type}

/-- inner `while` of `detail::sort_row` (sort_row.hpp:40-48): insert `cv` into the already processed prefix,
scanning from the right and shifting every entry whose column is `> cv.1`. -/
def insertFromRight (cv : Nat × K) (pre : Row K) : Row K :=
  let sp := pre.reverse.span (fun e => decide (e.1 > cv.1))
  sp.2.reverse ++ cv :: sp.1.reverse

/-- `detail::sort_row`: insertion sort by column (stable) -/
def sortRow (r : Row K) : Row K := r.foldl (fun pre cv => insertFromRight cv pre) []

/-- `backend::sort_rows(A)` -/
def sortRows (A : CRS K) : CRS K := { A with rows := A.rows.map sortRow }

end sortRow

section transpose
variable {K : Type}

/-- `backend::transpose(A)` (builtin.hpp:347-376): counting sort into the rows of `T`; the entry `(i, c, v)` is
appended to bucket `c` as `(i, adjoint v)`, rows visited in increasing `i`, entries in stored order. -/
def transpose (adj : K → K) (A : CRS K) : CRS K :=
  let buckets : Array (Row K) := Array.replicate A.ncols []
  let filled := (List.range A.nrows).foldl (fun (b : Array (Row K)) i =>
      (A.row i).foldl (fun (b : Array (Row K)) cv => b.modify cv.1 (fun r => r ++ [(i, adj cv.2)])) b) buckets
  { ncols := A.nrows, rows := filled }

end transpose

section arith
variable {K : Type} [Add K] [Mul K] [Zero K]

/-- `backend::scale(A, s)`: `A.val[j] *= s` -/
def scale (A : CRS K) (s : K) : CRS K :=
  { A with rows := A.rows.map (fun r => r.map (fun cv => (cv.1, cv.2 * s))) }

-- spgemm_saad ---------------------------------------------------------------------------------------------

/-- first pass of `spgemm_saad` for row `ia` (spgemm.hpp:73-86): number of distinct columns, marker test
`marker[cb] != ia`. -/
def saadWidthRow (A B : CRS K) (marker : Array Int) (ia : Nat) : Nat × Array Int :=
  (A.row ia).foldl (fun (acc : Nat × Array Int) ca =>
    (B.row ca.1).foldl (fun (acc : Nat × Array Int) cb =>
      if acc.2.getD cb.1 (-1) != (ia : Int) then (acc.1 + 1, acc.2.setIfInBounds cb.1 (ia : Int)) else acc) acc)
    (0, marker)

/-- row widths of the product as computed by the first pass (one thread, marker shared by all rows) -/
def saadWidths (A B : CRS K) : List Nat :=
  ((List.range A.nrows).foldl (fun (acc : List Nat × Array Int) ia =>
      let r := saadWidthRow A B acc.2 ia
      (acc.1 ++ [r.1], r.2)) ([], Array.replicate B.ncols (-1))).1

/-- second pass for row `ia` (spgemm.hpp:97-125): `row_beg` is the row's offset in the output arrays, the row's
entries are appended at `row_end`; test `marker[cb] < row_beg`. -/
def saadRow (A B : CRS K) (marker : Array Int) (ia rowBeg : Nat) : Array (Nat × K) × Array Int :=
  (A.row ia).foldl (fun (acc : Array (Nat × K) × Array Int) ca =>
    (B.row ca.1).foldl (fun (acc : Array (Nat × K) × Array Int) cb =>
      let m := acc.2.getD cb.1 (-1)
      if m < (rowBeg : Int) then
        (acc.1.push (cb.1, ca.2 * cb.2), acc.2.setIfInBounds cb.1 ((rowBeg + acc.1.size : Nat) : Int))
      else
        (acc.1.modify (m - (rowBeg : Int)).toNat (fun e => (e.1, e.2 + ca.2 * cb.2)), acc.2)) acc)
    (#[], marker)

/-- prefix sums: `scan_row_sizes` -/
def scanWidths (ws : List Nat) : List Nat :=
  (ws.foldl (fun (acc : List Nat × Nat) w => (acc.1 ++ [acc.2 + w], acc.2 + w)) ([0], 0)).1

/-- `spgemm_saad(A, B, C, sort)` executed by one thread -/
def spgemmSaad (A B : CRS K) (sort : Bool) : CRS K :=
  let ptr := scanWidths (saadWidths A B)
  let rows := ((List.range A.nrows).foldl (fun (acc : Array (Row K) × Array Int) ia =>
      let r := saadRow A B acc.2 ia (ptr.getD ia 0)
      let row := if sort then sortRow r.1.toList else r.1.toList
      (acc.1.push row, r.2)) (#[], Array.replicate B.ncols (-1))).1
  { ncols := B.ncols, rows := rows }

-- spgemm_rmerge -------------------------------------------------------------------------------------------

/-- `merge_rows(alpha1, row1, alpha2, row2, out)` (spgemm.hpp:130-175) -/
def mergeRows (a1 : K) (r1 : Row K) (a2 : K) (r2 : Row K) : Row K :=
  match r1, r2 with
  | [], r2 => r2.map (fun e => (e.1, a2 * e.2))
  | r1, [] => r1.map (fun e => (e.1, a1 * e.2))
  | e1 :: t1, e2 :: t2 =>
    if e1.1 < e2.1 then (e1.1, a1 * e1.2) :: mergeRows a1 t1 a2 (e2 :: t2)
    else if e1.1 = e2.1 then (e1.1, a1 * e1.2 + a2 * e2.2) :: mergeRows a1 t1 a2 t2
    else (e2.1, a2 * e2.2) :: mergeRows a1 (e1 :: t1) a2 t2
termination_by r1.length + r2.length

/-- column-only `merge_rows<need_out>`: the merged column list (its length is what `prod_row_width` returns) -/
def mergeCols (c1 c2 : List Nat) : List Nat :=
  match c1, c2 with
  | [], c2 => c2
  | c1, [] => c1
  | a :: t1, b :: t2 =>
    if a < b then a :: mergeCols t1 (b :: t2)
    else if a = b then a :: mergeCols t1 t2
    else b :: mergeCols (a :: t1) t2
termination_by c1.length + c2.length

/-- the pairwise loop of `prod_row` (spgemm.hpp:277-307) once `tm1` holds the merge of the first pair -/
def prodRowLoop [One K] (B : CRS K) (tm1 : Row K) : Row K → Row K
  | a1 :: a2 :: rest =>
      prodRowLoop B (mergeRows 1 tm1 1 (mergeRows a1.2 (B.row a1.1) a2.2 (B.row a2.1))) rest
  | [a2] => mergeRows 1 tm1 a2.2 (B.row a2.1)
  | [] => tm1

/-- `prod_row` (spgemm.hpp:218-313): the product row for one row `arow` of `A` -/
def prodRow [One K] (B : CRS K) (arow : Row K) : Row K :=
  match arow with
  | [] => []
  | [a] => (B.row a.1).map (fun e => (e.1, a.2 * e.2))
  | [a1, a2] => mergeRows a1.2 (B.row a1.1) a2.2 (B.row a2.1)
  | a1 :: a2 :: rest => prodRowLoop B (mergeRows a1.2 (B.row a1.1) a2.2 (B.row a2.1)) rest

def prodRowWidthLoop (B : CRS K) (t1 : List Nat) : List Nat → List Nat
  | a1 :: a2 :: rest =>
      prodRowWidthLoop B (mergeCols t1 (mergeCols ((B.row a1).map (·.1)) ((B.row a2).map (·.1)))) rest
  | [a2] => mergeCols t1 ((B.row a2).map (·.1))
  | [] => t1

/-- `prod_row_width` (spgemm.hpp:177-246) -/
def prodRowWidth (B : CRS K) (acols : List Nat) : Nat :=
  match acols with
  | [] => 0
  | [a] => (B.row a).length
  | [a1, a2] => (mergeCols ((B.row a1).map (·.1)) ((B.row a2).map (·.1))).length
  | a1 :: a2 :: rest =>
      (prodRowWidthLoop B (mergeCols ((B.row a1).map (·.1)) ((B.row a2).map (·.1))) rest).length

/-- `spgemm_rmerge(A, B, C)` -/
def spgemmRmerge [One K] (A B : CRS K) : CRS K :=
  { ncols := B.ncols, rows := A.rows.map (prodRow B) }

def rmergeWidths (A B : CRS K) : List Nat := A.rows.toList.map (fun r => prodRowWidth B (r.map (·.1)))

/-- `backend::product(A, B, sort)`: row-merge algorithm iff more than 16 threads (builtin.hpp:379-397) -/
def product [One K] (nt : Nat) (A B : CRS K) (sort : Bool) : CRS K :=
  if nt > 16 then spgemmRmerge A B else spgemmSaad A B sort

-- sum -----------------------------------------------------------------------------------------------------

/-- first pass of `backend::sum` for row `i` -/
def sumWidthRow (A B : CRS K) (marker : Array Int) (i : Nat) : Nat × Array Int :=
  let step := fun (acc : Nat × Array Int) (cv : Nat × K) =>
    if acc.2.getD cv.1 (-1) != (i : Int) then (acc.1 + 1, acc.2.setIfInBounds cv.1 (i : Int)) else acc
  (B.row i).foldl step ((A.row i).foldl step (0, marker))

def sumWidths (A B : CRS K) : List Nat :=
  ((List.range A.nrows).foldl (fun (acc : List Nat × Array Int) i =>
      let r := sumWidthRow A B acc.2 i
      (acc.1 ++ [r.1], r.2)) ([], Array.replicate A.ncols (-1))).1

/-- second pass of `backend::sum` for row `i` (builtin.hpp:448-478) -/
def sumRow (α : K) (A : CRS K) (β : K) (B : CRS K) (marker : Array Int) (i rowBeg : Nat) :
    Array (Nat × K) × Array Int :=
  let step := fun (s : K) (acc : Array (Nat × K) × Array Int) (cv : Nat × K) =>
    let m := acc.2.getD cv.1 (-1)
    if m < (rowBeg : Int) then
      (acc.1.push (cv.1, s * cv.2), acc.2.setIfInBounds cv.1 ((rowBeg + acc.1.size : Nat) : Int))
    else
      (acc.1.modify (m - (rowBeg : Int)).toNat (fun e => (e.1, e.2 + s * cv.2)), acc.2)
  (B.row i).foldl (step β) ((A.row i).foldl (step α) (#[], marker))

/-- `backend::sum(alpha, A, beta, B, sort)` executed by one thread -/
def sum (α : K) (A : CRS K) (β : K) (B : CRS K) (sort : Bool) : CRS K :=
  let ptr := scanWidths (sumWidths A B)
  let rows := ((List.range A.nrows).foldl (fun (acc : Array (Row K) × Array Int) i =>
      let r := sumRow α A β B acc.2 i (ptr.getD i 0)
      let row := if sort then sortRow r.1.toList else r.1.toList
      (acc.1.push row, r.2)) (#[], Array.replicate A.ncols (-1))).1
  { ncols := A.ncols, rows := rows }

end arith

section diag
variable {K : Type} [Zero K] [One K] [Inv K] [DecidableEq K]

/-- `backend::diagonal(A, invert)` (builtin.hpp:752-777): the FIRST stored entry with `col == i`.  The vector is
allocated uninitialised (`numa_vector(n, false)`); since fix baae926 every entry is first set to the value of an
absent (zero) diagonal — `0`, resp. the identity for the inverted diagonal — so the result is total (before it, a row
without a diagonal entry kept heap garbage; the element type is still `Option` so that "never written" stays
expressible: `C10.diagonal_always_defined`). -/
def diagonal (A : CRS K) (invert : Bool) : Array (Option K) :=
  Array.ofFn (n := A.nrows) (fun i =>
    match (A.row i).find? (fun cv => cv.1 = i.val) with
    | none => some (if invert then 1 else 0)
    | some cv => some (if invert then (if cv.2 = 0 then 1 else cv.2⁻¹) else cv.2))

end diag

section gershgorin
variable {K : Type} [Add K] [Mul K] [Neg K] [Zero K] [One K] [Inv K] [LT K] [DecidableLT K]

def absK (x : K) : K := if x < 0 then -x else x
def maxK (a b : K) : K := if a < b then b else a

/-- `spectral_radius<scale>(A, 0)` — Gershgorin branch (builtin.hpp:790-819) executed by one thread:
`dia` is declared OUTSIDE the row loop, so a row without diagonal entry re-uses the previous row's value. -/
def gershgorin (scaled : Bool) (A : CRS K) : K :=
  let r := (List.range A.nrows).foldl (fun (acc : K × K) i =>      -- (emax, dia)
      let sd := (A.row i).foldl (fun (sd : K × K) cv =>
          (sd.1 + absK cv.2, if scaled && cv.1 = i then cv.2 else sd.2)) ((0 : K), acc.2)
      let s := if scaled then sd.1 * absK sd.2⁻¹ else sd.1
      (maxK acc.1 s, sd.2)) ((0 : K), (1 : K))
  if r.1 < 0 then 1 + 1 else r.1

end gershgorin

end Amgcl
