import Amgcl.Model.PointwiseAggregates
import Amgcl.Model.TentativeProlongation
/-!
# `coarsening::aggregation<Backend>::transfer_operators(A)` (aggregation.hpp:131-145), `nullspace.cols == 0`

`Aggregates aggr(A, prm.aggr, prm.nullspace.cols)`; `P = tentative_prolongation(n, aggr.count, aggr.id, …)`;
returns `(P, transpose(*P))` — the model returns `P`, the caller forms the transpose.
-/
namespace Amgcl

def aggregationTransfer {K : Type} [Mul K] [Zero K] [One K] [LT K] [DecidableLT K]
    (norm : K → K) (prm : AggrParams K) (A : CRS K) : Outcome (Transfer K) :=
  match pointwiseAggregates norm prm.epsSq prm.blockSize prm.minAggregate A with
  | .ok aggr => .ok { P := tentativeProlongation A.nrows aggr.count aggr.id }
  | .emptyLevel => .emptyLevel
  | .precondition => .precondition

end Amgcl
