import Amgcl.Model.Schedule
/-!
# The level-scheduling constructors statement by statement: `nlev` of step 1, steps 2–4 (C09)

`gauss_seidel.hpp` (`parallel_sweep` constructor, "2. reorder matrix rows", "3. Organize matrix rows into tasks",
"4. reorganize matrix data") and `ilu_solve.hpp` (`sptr_solve` constructor) — the same text in both files:

```
std::vector<ptrdiff_t> start(nlev+1, 0);
for(i = 0; i < n; ++i) ++start[level[i]+1];                          -- csHist
std::partial_sum(start.begin(), start.end(), start.begin());         -- partialSumInPlace  (csPsum)
for(i = 0; i < n; ++i) order[start[level[i]]++] = i;                 -- csScatter
std::rotate(start.begin(), start.end() - 1, start.end()); start[0] = 0;   -- csRotateLit  (csRotate)
#pragma omp parallel  { tid; for(lev = 0; lev < nlev; ++lev) { lev_size = start[lev+1] - start[lev]; …
    tasks[tid].push_back(task(beg, end)); } }                        -- tasksLit
#pragma omp parallel  { tid; for(task &t : tasks[tid]) for(r = t.beg; r < t.end; ++r) { i = order[r];
    ord[tid].push_back(i); … } }                                     -- taskRowsLit
```

`Schedule.lean` describes the result of these steps by its specification (`order` = the rows of level 0, 1, … each
in increasing order; `start lev` = number of rows below level `lev`; `tasks` = chunks of `levelRows`).  Here the
arrays are threaded through the loops as the code does it (`countingSortLit`, `scheduleLit`; executed by the driver
for every `sched_gs`/`sched_ilu` case, so the differential run ties them to the real `tasks`/`ord` tables).
`countingSort` of `Schedule.lean` is the composition of the stages `csHist`, `csPsum`, `csScatter`, `csRotate`
(`countingSort_stages` in `Amgcl/Proofs/SchedSort.lean`, by `rfl`); that file proves `countingSortLit_eq` (= `order`,
`start`) and `scheduleLit_eq_tasks` for every level vector and every thread count.  Core Lean only.
-/
namespace Amgcl.Sched

/-! ## step 1 with the accumulator `nlev` -/

/-- one iteration of the outer loop of step 1, including `nlev = std::max(nlev, l+1);` (`levelStep` of `Schedule.lean`
plus the accumulator) -/
def levelStepN (take raise : Nat → Nat → Bool) (A : Pattern) (st : Array Nat × Nat) (i : Nat) : Array Nat × Nat :=
  let row := A.getD i []
  let l := rowLevel take st.1 i row
  (raiseRow raise i l row (st.1.setIfInBounds i l), max st.2 (l + 1))

/-- step 1 of both constructors: `(level, nlev)` -/
def levelsGenN (take raise : Nat → Nat → Bool) (fwd : Bool) (A : Pattern) : Array Nat × Nat :=
  (rowOrder fwd A.size).foldl (levelStepN take raise A) (Array.replicate A.size 0, 0)

/-- `sptr_solve<lower>` -/
def iluLevelsN (lower : Bool) (A : Pattern) : Array Nat × Nat :=
  levelsGenN (fun _ _ => true) (fun _ _ => false) lower A
/-- `parallel_sweep<forward>`, unpatched tree -/
def gsLevelsAsIsN (fwd : Bool) (A : Pattern) : Array Nat × Nat :=
  levelsGenN (before fwd) (fun _ _ => false) fwd A
/-- `parallel_sweep<forward>` with `fix_gs_parallel_levels.patch` -/
def gsLevelsN (fwd : Bool) (A : Pattern) : Array Nat × Nat :=
  levelsGenN (before fwd) (fun c i => before fwd i c) fwd A

/-! ## step 2: counting sort -/

/-- `std::vector<ptrdiff_t> start(nlev+1, 0); for(i = 0; i < n; ++i) ++start[level[i]+1];` -/
def csHistN (level : Array Nat) (nl : Nat) : Array Nat :=
  (List.range level.size).foldl
    (fun s i => s.setIfInBounds (level.getD i 0 + 1) (s.getD (level.getD i 0 + 1) 0 + 1))
    (Array.replicate (nl + 1) 0)

/-- … with `nlev` recomputed from the level vector (the form `countingSort` uses) -/
def csHist (level : Array Nat) : Array Nat := csHistN level (nlev level)

/-- `std::partial_sum(a.begin(), a.end(), a.begin())`: `acc = acc + *first; *result = acc;` element by element,
the output overwriting the input -/
def partialSumInPlace (a : Array Nat) : Array Nat :=
  ((List.range a.size).foldl
    (fun (st : Array Nat × Nat) k => let s := st.2 + st.1.getD k 0; (st.1.setIfInBounds k s, s)) (a, 0)).1

/-- the partial sums of the first `m` elements written to a fresh array (the form `countingSort` uses) -/
def csPsum (hist : Array Nat) (m : Nat) : Array Nat :=
  ((List.range m).foldl
    (fun (acc : Array Nat × Nat) k => let s := acc.2 + hist.getD k 0; (acc.1.push s, s)) (#[], 0)).1

/-- `std::vector<ptrdiff_t> order(n, 0); for(i = 0; i < n; ++i) order[start[level[i]]++] = i;`
returns `(order, start)` -/
def csScatter (level : Array Nat) (psum : Array Nat) : Array Nat × Array Nat :=
  (List.range level.size).foldl
    (fun (os : Array Nat × Array Nat) i =>
      let l := level.getD i 0
      (os.1.setIfInBounds (os.2.getD l 0) i, os.2.setIfInBounds l (os.2.getD l 0 + 1)))
    (Array.replicate level.size 0, psum)

/-- `std::rotate(a.begin(), a.begin() + middle, a.end())`: the elements `[middle, end)` followed by `[begin, middle)` -/
def stdRotate (a : Array Nat) (middle : Nat) : Array Nat := a.extract middle a.size ++ a.extract 0 middle

/-- `std::rotate(start.begin(), start.end() - 1, start.end()); start[0] = 0;` -/
def csRotateLit (st : Array Nat) : Array Nat := (stdRotate st (st.size - 1)).setIfInBounds 0 0

/-- the same on a vector of `nl + 1` elements, in the form `countingSort` uses: the last element moves to the front
(and is overwritten by 0), the others move up by one -/
def csRotate (st : Array Nat) (nl : Nat) : List Nat := 0 :: st.toList.take nl

/-- step 2 of both constructors, statement by statement, from the `level` and `nlev` of step 1;
returns `(order, start)` -/
def countingSortLitN (level : Array Nat) (nl : Nat) : Array Nat × Array Nat :=
  let start := csHistN level nl
  let start := partialSumInPlace start
  let os := csScatter level start
  (os.1, csRotateLit os.2)

def countingSortLit (level : Array Nat) : Array Nat × Array Nat := countingSortLitN level (nlev level)

/-! ## steps 3 and 4: tasks -/

/-- step 3, literally: `tasks[tid][lev] = task(beg, end)`, positions into `order` -/
def tasksLit (start : Array Nat) (nl nt : Nat) : List (List (Nat × Nat)) :=
  (List.range nt).map fun tid => (List.range nl).map fun lev =>
    let lev_size := start.getD (lev + 1) 0 - start.getD lev 0
    let chunk_size := (lev_size + nt - 1) / nt
    let beg := min (tid * chunk_size) lev_size
    let end_ := min (beg + chunk_size) lev_size
    (beg + start.getD lev 0, end_ + start.getD lev 0)

/-- step 4, the row loop of one task: `for(r = t.beg; r < t.end; ++r) ord[tid].push_back(order[r])` -/
def taskRowsLit (order : Array Nat) (t : Nat × Nat) : List Nat :=
  (List.range (t.2 - t.1)).map fun k => order.getD (t.1 + k) 0

/-- steps 2–4 as the code runs them: `[tid][lev] ↦` the rows the thread `tid` executes in level `lev`
(the concatenation over `lev` is the thread's `ord[tid]`) -/
def scheduleLitN (level : Array Nat) (nl nt : Nat) : List (List (List Nat)) :=
  let cs := countingSortLitN level nl
  (tasksLit cs.2 nl nt).map fun t => t.map (taskRowsLit cs.1)

def scheduleLit (level : Array Nat) (nt : Nat) : List (List (List Nat)) := scheduleLitN level (nlev level) nt

/-- the constructors from the pattern to the task table: step 1 (`level`, `nlev`), then steps 2–4 -/
def constructorLit (ln : Array Nat × Nat) (nt : Nat) : List (List (List Nat)) := scheduleLitN ln.1 ln.2 nt

end Amgcl.Sched
