import Amgcl.Model.CoarseningCommon
/-!
# `coarsening::tentative_prolongation<Matrix>(n, naggr, aggr, nullspace, block_size)` — branch
`nullspace.cols == 0` (tentative_prolongation.hpp:208-224)

`P` is `n × naggr`; row `i` holds the single entry `(aggr[i], identity)` when `aggr[i] >= 0` and is empty
otherwise.  (The null-space branch runs `detail::QR<double>` on `std::vector<double>` whatever the value type
and is V-grade: see `Properties/C04.lean`, `ReproducesB`.)
-/
namespace Amgcl

def tentativeProlongation {K : Type} [One K] (n naggr : Nat) (id : Array Int) : CRS K :=
  { ncols := naggr,
    rows := Array.ofFn (n := n) fun i =>
      let a := id.getD i.val aggrRemoved
      if a ≥ 0 then [(a.toNat, (1 : K))] else [] }

end Amgcl
