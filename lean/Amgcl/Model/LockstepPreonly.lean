import Amgcl.Model.Lockstep
import Amgcl.Model.SolverPreonly
/-!
# `amgcl::solver::preonly::operator()` as a program over the solver instruction set (C12) — core Lean only

solver/preonly.hpp:95-101: `P.apply(rhs, x); return (0, 0);` — no scalars at all (the scalar state of a rank is `Unit`).
-/
namespace Amgcl.Lockstep.Preonly
open Amgcl Amgcl.Lockstep

def vF : Nat := 0   -- rhs
def vX : Nat := 1   -- x

/-- the whole `operator()` -/
def prog {K : Type} : Prog K Unit := .prim (.precond (R vF) (R vX))

def initState {K : Type} (f x0 : Vec K) : St K Unit :=
  { vec := fun v => if v = vF then f else x0, scal := () }

end Amgcl.Lockstep.Preonly
