import Amgcl.Model.SolverCommon2
/-!
# `amgcl::solver::idrs` — solver/idrs.hpp, constructor (lines 160-218) and `operator()(A, Prec, rhs, x)`
(lines 233-406), statement by statement

IDR(s) with right preconditioning, optional residual smoothing and residual replacement.

* **The shadow space `P`** (`s` vectors) is created in the constructor from `std::mt19937 rng(pid * nt + tid)` and
  `std::uniform_real_distribution(-1, 1)` and then orthonormalised by (modified) Gram–Schmidt.  The random numbers
  are an INPUT of the model (`raw`, passed in the op line; the harness pins `OMP_NUM_THREADS=1` so that the real
  constructor draws the stream of `mt19937(0)`); `makeP` is the constructor's orthonormalisation.  `P` never changes
  afterwards and is a parameter `Pv` of `run`, not part of the mutable work space.
* the residual `r` is updated recursively (`r -= beta*G[k]`, `r -= om*t`); it is recomputed from `x` only with
  `replacement = true` (after the `om` step) — and on entry.
* two `precondition`s can throw: `M(k,k) ≠ 0` and `om ≠ 0`; `x` has then received every update made so far (with
  `smoothing` the caller's `x` holds the unsmoothed iterate, `x_s` is not copied back).
* `if (res_norm <= eps || ++iter >= prm.maxiter) break;` — `iter` is NOT incremented when the residual test fires.

The `while` loop is `loopE` with fuel `maxiter` (every pass that does not `break` increments `iter` at least once);
the `for (k < s)` loop with its `break` is the structural recursion `kLoop`.
-/
namespace Amgcl.Solver.IDRs
open Amgcl Amgcl.Solver

/-- the `mutable` members `M, f, c` and the vectors `r, v, t, x_s, r_s, G[0..s), U[0..s)` (idrs.hpp:452-461) -/
structure Work (K : Type) where
  M  : FArr2 K
  f  : FArr K
  c  : FArr K
  r  : Vec K
  v  : Vec K
  t  : Vec K
  xs : Vec K
  rs : Vec K
  G  : FArr (Vec K)
  U  : FArr (Vec K)

def Work.fresh {K : Type} [Zero K] (n : Nat) : Work K :=
  let z : Vec K := Array.replicate n 0
  ⟨.const 0, .const 0, .const 0, z, z, z, z, z, .const z, .const z⟩

/-- `idrs::params`: the common fields + `s`, `omega`, `smoothing`, `replacement` -/
structure Params (K : Type) extends Amgcl.Solver.Params K where
  s           : Nat
  omega       : K
  smoothing   : Bool
  replacement : Bool

/-- locals that live across loop passes, the caller's `x`, the work arrays.  `brk`: a `break` left the `while` -/
structure St (K : Type) where
  iter    : Nat
  resNorm : K
  om      : K
  brk     : Bool
  x       : Vec K
  w       : Work K

variable {K : Type} [Add K] [Mul K] [Sub K] [Neg K] [Zero K] [One K] [Div K] [DecidableEq K] [LT K] [DecidableLT K]

/-- idrs.hpp:205-216, the constructor's orthonormalisation of the random vectors:
```
for(j < s) { for(k < j) { alpha = inner_product(*P[k], *P[j]); axpby(-alpha, *P[k], one, *P[j]); }
             norm_pj = norm(*P[j]); axpby(math::inverse(norm_pj), *P[j], zero, *P[j]); }
``` -/
def makeP (ip : Vec K → Vec K → K) (sqrt : K → K) (s : Nat) (raw : FArr (Vec K)) : FArr (Vec K) :=
  (List.range s).foldl (fun P j =>
      let pj := (List.range j).foldl (fun pj k => axpby (-(ip (P k) pj)) (P k) 1 pj) (P j)
      setF P j (axpby (inv1 (nrmA ip sqrt pj)) pj 0 pj)) raw

/-- idrs.hpp:474-489, `omega(t, s)` -/
def omegaFn (ip : Vec K → Vec K → K) (sqrt : K → K) (omega : K) (t s : Vec K) : K :=
  let normT := nrmA ip sqrt t                              -- scalar_type norm_t = norm(t);
  let normS := nrmA ip sqrt s                              -- scalar_type norm_s = norm(s);
  let ts := ip s t                                         -- coef_type ts = inner_product(s, t);
  let rho := absK (ts / (normT * normS))                   -- scalar_type rho = math::norm(ts / (norm_t * norm_s));
  let om := ts / (normT * normT)                           -- coef_type om = ts / (norm_t * norm_t);
  if rho < omega then om * (omega / rho) else om           -- if (rho < prm.omega) om *= prm.omega/rho;

/-- idrs.hpp:348-354 / 389-395, the smoothing block; returns the new `(t, r_s, x_s, res_norm)` -/
def smooth (ip : Vec K → Vec K → K) (sqrt : K → K) (w : Work K) (x : Vec K) : Work K × K :=
  let t := axpbypcz 1 w.rs (-1) w.r 0 w.t                  -- axpbypcz(one, *r_s, -one, *r, zero, *t);
  let gamma := ip w.rs t / ip t t                          -- gamma = inner_product(*r_s, *t) / inner_product(*t, *t);
  let rs := axpby (-gamma) t 1 w.rs                        -- axpby(-gamma, *t, one, *r_s);
  let xs := axpbypcz (-gamma) w.xs gamma x 1 w.xs          -- axpbypcz(-gamma, *x_s, gamma, x, one, *x_s);
  ({ w with t := t, rs := rs, xs := xs }, nrmA ip sqrt rs) -- res_norm = norm(*r_s);

/-- idrs.hpp:300-308: the small lower-triangular solve for `c[k..s)` fused with `v -= c[i]*G[i]` -/
def solveC (s k : Nat) (w : Work K) (v : Vec K) : FArr K × Vec K :=
  ((List.range s).drop k).foldl (fun (acc : FArr K × Vec K) i =>
      let c0 := setF acc.1 i (w.f i)                                         -- c[i] = f[i];
      let c1 := ((List.range i).drop k).foldl
        (fun c j => setF c i (c i - w.M i j * c j)) c0                       -- for(j = k; j < i; ++j) c[i] -= M(i,j) * c[j];
      let c2 := setF c1 i (inv1 (w.M i i) * c1 i)                            -- c[i] = math::inverse(M(i,i)) * c[i];
      (c2, axpby (-(c2 i)) (w.G i) 1 acc.2)) (w.c, v)                        -- axpby(-c[i], *G[i], one, *v);

/-- idrs.hpp:295-357 for one `k`: `.ok (st, brk)` with `brk` = the `break` of line 357 was taken -/
def kStep (prm : Params K) (ip : Vec K → Vec K → K) (sqrt : K → K) (A : CRS K) (Prec : Vec K → Vec K)
    (Pv : FArr (Vec K)) (epsT : K) (k : Nat) (st : St K) : Except (Err × St K) (St K × Bool) :=
  let w := st.w
  let s := prm.s
  let cv := solveC s k w (vcopy w.r)                       -- backend::copy(*r, *v); … c[i], v
  let c := cv.1
  let v := cv.2
  let t := Prec v                                          -- Prec.apply(*v, *t);
  let uk0 := axpby st.om t (c k) (w.U k)                   -- axpby(om, *t, c[k], *U[k]);
  let uk1 := ((List.range s).drop (k + 1)).foldl
    (fun u i => axpby (c i) (w.U i) 1 u) uk0               -- for(i = k+1; i < s; ++i) axpby(c[i], *U[i], one, *U[k]);
  let gk0 := spmv 1 A uk1 0 (w.G k)                        -- spmv(one, A, *U[k], zero, *G[k]);
  let gu := (List.range k).foldl (fun (acc : Vec K × Vec K) i =>
      let alpha := ip acc.1 (Pv i) / w.M i i               -- alpha = inner_product(*G[k], *P[i]) / M(i,i);
      (axpby (-alpha) (w.G i) 1 acc.1,                     -- axpby(-alpha, *G[i], one, *G[k]);
       axpby (-alpha) (w.U i) 1 acc.2)) (gk0, uk1)         -- axpby(-alpha, *U[i], one, *U[k]);
  let gk := gu.1
  let uk := gu.2
  let M := ((List.range s).drop k).foldl
    (fun M i => setF2 M i k (ip gk (Pv i))) w.M            -- for(i = k; i < s; ++i) M(i,k) = inner_product(*G[k], *P[i]);
  let w1 : Work K := { w with M := M, c := c, v := v, t := t, G := setF w.G k gk, U := setF w.U k uk }
  if M k k = 0 then                                        -- precondition(!is_zero(M(k,k)), "IDR(s) breakdown: zero M[k,k]");
    .error (.zeroPivot, { st with w := w1 })
  else
    let beta := inv1 (M k k) * w.f k                       -- beta = math::inverse(M(k,k)) * f[k];
    let r := axpby (-beta) gk 1 w.r                        -- axpby(-beta, *G[k], one, *r);
    let x := axpby beta uk 1 st.x                          -- axpby( beta, *U[k], one,  x);
    let w2 : Work K := { w1 with r := r }
    let ws := if prm.smoothing then smooth ip sqrt w2 x    -- res_norm = norm(*r); if (prm.smoothing) { … }
              else (w2, nrmA ip sqrt r)
    let w3 := ws.1
    let res := ws.2
    -- if (res_norm <= eps || ++iter >= prm.maxiter) break;
    if ¬ epsT < res then
      .ok ({ st with resNorm := res, x := x, w := w3 }, true)
    else if prm.maxiter ≤ st.iter + 1 then
      .ok ({ st with iter := st.iter + 1, resNorm := res, x := x, w := w3 }, true)
    else
      let f := ((List.range s).drop (k + 1)).foldl
        (fun f i => setF f i (f i - beta * M i k)) w3.f   -- for(i = k+1; i < s; ++i) f[i] -= beta * M(i,k);
      .ok ({ st with iter := st.iter + 1, resNorm := res, x := x, w := { w3 with f := f } }, false)

/-- `for(unsigned k = 0; k < prm.s; ++k) { … break … }` with `fuel = s - k`; the flag tells whether the loop was
left through the `break` -/
def kLoop (prm : Params K) (ip : Vec K → Vec K → K) (sqrt : K → K) (A : CRS K) (Prec : Vec K → Vec K)
    (Pv : FArr (Vec K)) (epsT : K) : Nat → Nat → St K → Except (Err × St K) (St K)
  | 0, _, st => .ok st
  | fuel + 1, k, st =>
    match kStep prm ip sqrt A Prec Pv epsT k st with
    | .error e => .error e
    | .ok (st', true) => .ok st'
    | .ok (st', false) => kLoop prm ip sqrt A Prec Pv epsT fuel (k + 1) st'

/-- one pass of the `while` body, idrs.hpp:289-398 -/
def body (prm : Params K) (ip : Vec K → Vec K → K) (sqrt : K → K) (A : CRS K) (Prec : Vec K → Vec K)
    (Pv : FArr (Vec K)) (rhs : Vec K) (epsT : K) (st : St K) : Except (Err × St K) (St K) :=
  let f := (List.range prm.s).foldl
    (fun f i => setF f i (ip st.w.r (Pv i))) st.w.f         -- for(i < s) f[i] = inner_product(*r, *P[i]);
  match kLoop prm ip sqrt A Prec Pv epsT prm.s 0 { st with w := { st.w with f := f } } with
  | .error e => .error e
  | .ok st1 =>
    -- if (res_norm <= eps || iter >= prm.maxiter) break;
    if ¬ epsT < st1.resNorm ∨ prm.maxiter ≤ st1.iter then .ok { st1 with brk := true }
    else
      let w := st1.w
      let v := Prec w.r                                     -- Prec.apply(*r, *v);
      let t := spmv 1 A v 0 w.t                             -- backend::spmv(one, A, *v, zero, *t);
      let om := omegaFn ip sqrt prm.omega t w.r             -- om = omega(*t, *r);
      let w1 : Work K := { w with v := v, t := t }
      if om = 0 then                                        -- precondition(!is_zero(om), "IDR(s) breakdown: zero omega");
        .error (.zeroOmega, { st1 with om := om, w := w1 })
      else
        let r0 := axpby (-om) t 1 w.r                       -- axpby(-om, *t, one, *r);
        let x := axpby om v 1 st1.x                         -- axpby( om, *v, one,  x);
        let r := if prm.replacement then residual rhs A x   -- if (prm.replacement) residual(rhs, A, x, *r);
                 else r0
        let w2 : Work K := { w1 with r := r }
        let ws := if prm.smoothing then smooth ip sqrt w2 x -- res_norm = norm(*r); if (prm.smoothing) { … }
                  else (w2, nrmA ip sqrt r)
        .ok { iter := st1.iter + 1, resNorm := ws.2, om := om, brk := false, x := x, w := ws.1 }   -- ++iter;

/-- idrs.hpp:288: `while(iter < prm.maxiter && res_norm > eps)` (and no `break` taken) -/
def cond (maxiter : Nat) (epsT : K) (st : St K) : Bool :=
  !st.brk && decide (st.iter < maxiter) && decide (epsT < st.resNorm)

def loop (prm : Params K) (ip : Vec K → Vec K → K) (sqrt : K → K) (A : CRS K) (Prec : Vec K → Vec K)
    (Pv : FArr (Vec K)) (rhs : Vec K) (epsT : K) : Nat → St K → Option Err × St K :=
  loopE (cond prm.maxiter epsT) (body prm ip sqrt A Prec Pv rhs epsT)

/-- the state on loop entry, idrs.hpp:264-285 (entered when `res_norm > eps`) -/
def init (prm : Params K) (ws : Work K) (x0 r : Vec K) (resNorm : K) : St K :=
  let s := prm.s
  let w0 : Work K := if prm.smoothing then { ws with r := r, xs := vcopy x0, rs := vcopy r }   -- copy(x, *x_s); copy(*r, *r_s);
                     else { ws with r := r }
  -- for(i < s) { clear(*G[i]); clear(*U[i]); for(j < s) M(i,j) = (i == j); }
  -- (the vectors of the object have the length `n` of the system: `r.size`)
  let w1 : Work K := (List.range s).foldl (fun w i =>
      { w with G := setF w.G i (vclear r.size), U := setF w.U i (vclear r.size),
               M := (List.range s).foldl (fun M j => setF2 M i j (if i = j then 1 else 0)) w.M }) w0
  { iter := 0, resNorm := resNorm, om := 1, brk := false, x := x0, w := w1 }

def run (prm : Params K) (ip : Vec K → Vec K → K) (sqrt : K → K) (eps : K) (A : CRS K) (Prec : Vec K → Vec K)
    (Pv : FArr (Vec K)) (ws : Work K) (rhs x0 : Vec K) : Run K (Work K) :=
  match prologueA prm.nsSearch ip sqrt eps rhs with
  | .trivial n => (.ok (0, n), vclear x0.size, ws)       -- clear(x); return (0, norm_rhs);
  | .go normRhs =>
    let epsT := maxK (prm.tol * normRhs) prm.abstol       -- eps = std::max(prm.tol * norm_rhs, prm.abstol);
    let r := residual rhs A x0                            -- backend::residual(rhs, A, x, *r);
    let resNorm := nrmA ip sqrt r                         -- res_norm = norm(*r);
    if ¬ epsT < resNorm then                              -- if (res_norm <= eps) return (0, res_norm / norm_rhs);
      (.ok (0, resNorm / normRhs), x0, { ws with r := r })
    else
      match loop prm ip sqrt A Prec Pv rhs epsT prm.maxiter (init prm ws x0 r resNorm) with
      | (none, st) =>
        let x := if prm.smoothing then vcopy st.w.xs else st.x     -- if (prm.smoothing) backend::copy(*x_s, x);
        (.ok (st.iter, st.resNorm / normRhs), x, st.w)             -- return (iter, res_norm / norm_rhs);
      | (some e, st) => (.error e, st.x, st.w)

def solve (prm : Params K) (ip : Vec K → Vec K → K) (sqrt : K → K) (eps : K) (A : CRS K) (Prec : Vec K → Vec K)
    (Pv : FArr (Vec K)) (ws : Work K) (rhs x0 : Vec K) : Except Err (Nat × K × Vec K × Work K) :=
  (run prm ip sqrt eps A Prec Pv ws rhs x0).toExcept

/-- one call on a solver object (whose shadow space is `Pv`) in work-array state `w` -/
def call (prm : Params K) (ip : Vec K → Vec K → K) (sqrt : K → K) (eps : K) (Pv : FArr (Vec K)) (w : Work K)
    (c : Call K) : Obs K × Work K :=
  let r := run prm ip sqrt eps c.A c.P Pv w c.f c.x0
  (r.obs, r.ws)

end Amgcl.Solver.IDRs
