import Amgcl.Model.PointwiseMatrix
import Amgcl.Model.CoarseningChecks
/-!
# V-grade (verified checker) predicates of C12 for the SETUP phase of the distributed hierarchy

`mpi::coarsening::pmis` (distributed PMIS aggregation on the symbolic square of the strength graph, removal of
vanished aggregates, tentative prolongation with or without near-null-space vectors, pointwise variant for
`block_size > 1`), `mpi::coarsening::aggregation` and `mpi::coarsening::smoothed_aggregation` are not modelled loop by
loop.  Instead the harness (`harness/h_mpi_setup.cpp`) gathers what the real code produced on `np = 1..8` ranks — the
tentative prolongation `T`, the prolongation `P`, the restriction `R`, the coarse operator `A_c`, the coarse near-null
space `B_c` — into GLOBAL matrices and the driver evaluates the executable predicates below on them:

* `tentShape`, `noEmptyAgg` — the aggregates form a global partition: every unknown has all its entries in the column
  block of ONE aggregate (or none), the unknowns of one point (`block_size > 1`) travel together, every aggregate of
  every rank has a member (the renumbering after the removal of vanished aggregates left no gap);
* `isolatedOk` — an unknown that is in no aggregate has no strong off-diagonal connection (`eps² a_ii a_jj < a_ij²`,
  on the pointwise matrix for `block_size > 1`) on ANY rank;
* `orthonormalCols`, `reproducesB` (from `CoarseningChecks`) — `Tᵀ T = I`, `T · B_c = B` on aggregated rows;
* `isTranspose` — `R = Pᵀ`; `isGalerkin` — `A_c = s · R · A · P` entrywise (exactly, or up to a relative tolerance
  when `P` holds square roots);
* `saCheck` — `P = (I − ω D_f⁻¹ A_f) T` for the filtered matrix of `smoothed_aggregation.hpp`.

Soundness lemmas: `Proofs/DistSetupChecks.lean`; property statements: `Properties/C12d.lean`.

The renumbering step of `pmis::aggregates` is modelled faithfully in `Model/DistRenumber.lean`.
-/
namespace Amgcl
namespace DistSetup
open Coarsening

section checks
variable {K : Type} [Add K] [Mul K] [Sub K] [Neg K] [Zero K] [One K] [DecidableEq K] [LT K] [DecidableLT K]

/-- width of the column block of one aggregate: `nullspace.cols` columns with a near-null space, else one column per
unknown of a point -/
def aggWidth (bs cols : Nat) : Nat := if cols = 0 then bs else cols

/-- the aggregate a row of the tentative prolongation belongs to (`none`: the unknown is in no aggregate) -/
def rowAgg (w : Nat) (r : Row K) : Option Nat := r.head?.map (fun cv => cv.1 / w)

/-- one row: without near-null space a single unit entry in column `aggregate * bs + (i mod bs)`; with near-null space
exactly the `cols` columns of the aggregate, in order -/
def rowShapeOk (bs cols i : Nat) (r : Row K) : Bool :=
  match r with
  | [] => true
  | (c, v) :: t =>
    if cols = 0 then t.isEmpty && decide (v = 1) && c % bs == i % bs
    else (r.map (·.1)) == (List.range cols).map (fun j => (c / cols) * cols + j)

/-- the `bs` unknowns of point `p` are in the same aggregate (or all in none) -/
def pointOk (bs w : Nat) (T : CRS K) (p : Nat) : Bool :=
  (List.range bs).all fun k => rowAgg w (T.row (p * bs + k)) == rowAgg w (T.row (p * bs))

def tentShape (bs cols : Nat) (T : CRS K) : Bool :=
  let w := aggWidth bs cols
  T.wfb && decide (0 < bs) && T.nrows % bs == 0 && T.ncols % w == 0 &&
  ((List.range T.nrows).all fun i => rowShapeOk bs cols i (T.row i)) &&
  ((List.range (T.nrows / bs)).all (pointOk bs w T))

/-- every aggregate (column block) has a member row -/
def noEmptyAgg (bs cols : Nat) (T : CRS K) : Bool :=
  let w := aggWidth bs cols
  (List.range (T.ncols / w)).all fun a => (List.range T.nrows).any fun i => rowAgg w (T.row i) == some a

/-- `backend::diagonal` on a row without duplicates -/
def diagOf (A : CRS K) (i : Nat) : K := rowGet (A.row i) i

/-- `pmis::conn_strength` l.381/389: `(eps² · D[i]) · D[c] < v · v` for an off-diagonal entry -/
def strongEntry (eps2 : K) (A : CRS K) (i : Nat) (cv : Nat × K) : Bool :=
  cv.1 != i && decide (eps2 * diagOf A i * diagOf A cv.1 < cv.2 * cv.2)

def hasStrong (eps2 : K) (A : CRS K) (i : Nat) : Bool := (A.row i).any (strongEntry eps2 A i)

/-- a point outside every aggregate has no strong off-diagonal connection; `S` is the matrix the strength is
evaluated on (`A`, or its pointwise matrix) -/
def isolatedOk (eps2 : K) (bs : Nat) (S T : CRS K) : Bool :=
  (List.range S.nrows).all fun p => !(T.row (p * bs)).isEmpty || !hasStrong eps2 S p

/-- `R = Pᵀ` entry by entry -/
def isTranspose (R P : CRS K) : Bool :=
  R.wfb && P.wfb && R.nrows == P.ncols && R.ncols == P.nrows &&
  (List.range R.nrows).all fun i => (List.range R.ncols).all fun j => decide (R.get i j = P.get j i)

/-- sparse row times matrix, unmerged: the entries `(c, v·w)` for `(k, v)` in the row and `(c, w)` in row `k` of `M` -/
def rowMul (r : Row K) (M : CRS K) : Row K :=
  r.flatMap fun kv => (M.row kv.1).map fun cw => (cw.1, kv.2 * cw.2)

/-- row `i` of `R · A · P` (unmerged) -/
def tripleRow (R A P : CRS K) (i : Nat) : Row K := rowMul (rowMul (R.row i) A) P

def absK (x : K) : K := if x < 0 then -x else x
def maxK (x y : K) : K := if x < y then y else x

/-- `max(1, max_ij |s (R A P)_ij|)` -/
def galerkinScale (s : K) (R A P : CRS K) : K :=
  (List.range R.nrows).foldl (fun m i =>
    let row := tripleRow R A P i
    (List.range P.ncols).foldl (fun m j => maxK m (absK (s * rowGet row j))) m) 1

/-- `A_c = s · R · A · P` entrywise up to `rel · scale` (exactly for `rel = 0`) -/
def isGalerkin (rel s : K) (R A P Ac : CRS K) : Bool :=
  R.wfb && A.wfb && P.wfb && Ac.wfb && R.ncols == A.nrows && A.ncols == P.nrows &&
  Ac.nrows == R.nrows && Ac.ncols == P.ncols &&
  let tol := rel * galerkinScale s R A P
  (List.range R.nrows).all fun i =>
    let row := tripleRow R A P i
    (List.range P.ncols).all fun j => within tol (Ac.get i j - s * rowGet row j)

/-- aggregated flags in the format of `Coarsening.reproducesB` -/
def aggFlags (T : CRS K) : Array Int := Array.ofFn (n := T.nrows) fun i => if (T.row i.val).isEmpty then -1 else 0

end checks

section sa
variable {K : Type} [Add K] [Mul K] [Sub K] [Neg K] [Zero K] [One K] [Div K] [DecidableEq K] [LT K] [DecidableLT K]

/-- is the connection `i → j` strong in the sense of the EXPANDED connectivity `pmis::conn` (the diagonal block of a
point is strong, an off-diagonal block is strong iff the pointwise connection is) -/
def strongAt (eps2 : K) (bs : Nat) (S : CRS K) (i j : Nat) : Bool :=
  i / bs == j / bs || (S.row (i / bs)).any (fun cv => cv.1 == j / bs && strongEntry eps2 S (i / bs) cv)

/-- `dia_f` of `mpi::coarsening::smoothed_aggregation` l.150-157: diagonal plus every weak entry of the row -/
def filteredDia (eps2 : K) (bs : Nat) (S A : CRS K) (i : Nat) : K :=
  (A.row i).foldl (fun s cv => if cv.1 == i || !strongAt eps2 bs S i cv.1 then s + cv.2 else s) 0

/-- entry `(i, c)` of `(I − ω D_f⁻¹ A_f) T` -/
def saExpected (omega eps2 : K) (bs : Nat) (S A T : CRS K) (i c : Nat) : K :=
  let d := filteredDia eps2 bs S A i
  (A.row i).foldl (fun s cv =>
    if cv.1 != i && strongAt eps2 bs S i cv.1 then s + (-(omega / d)) * cv.2 * T.get cv.1 c else s)
    ((1 - omega) * T.get i c)

/-- scaled Gershgorin bound `max_i (Σ_j |a_ij|) · |1 / a_ii|` (`spectral_radius<true>(A, 0)`) -/
def gershScaled (A : CRS K) : K :=
  (List.range A.nrows).foldl (fun m i =>
    maxK m ((A.row i).foldl (fun s cv => s + absK cv.2) 0 * absK (1 / diagOf A i))) 0

/-- the relaxation weight of `smoothed_aggregation::transfer_operators` -/
def saOmega (relax : K) (esr : Bool) (A : CRS K) (four3 two3 : K) : K :=
  if esr then relax * (four3 / gershScaled A) else relax * two3

def saScale (omega eps2 : K) (bs : Nat) (S A T : CRS K) : K :=
  (List.range A.nrows).foldl (fun m i =>
    (List.range T.ncols).foldl (fun m c => maxK m (absK (saExpected omega eps2 bs S A T i c))) m) 1

/-- `P = (I − ω D_f⁻¹ A_f) T` entrywise up to `rel · scale` -/
def saCheck (rel omega eps2 : K) (bs : Nat) (S A T P : CRS K) : Bool :=
  P.wfb && T.wfb && P.nrows == A.nrows && T.nrows == A.nrows && P.ncols == T.ncols &&
  let tol := rel * saScale omega eps2 bs S A T
  (List.range A.nrows).all fun i => (List.range T.ncols).all fun c =>
    within tol (P.get i c - saExpected omega eps2 bs S A T i c)

end sa

end DistSetup
end Amgcl
