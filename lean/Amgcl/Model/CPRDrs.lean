import Amgcl.Model.CPR
/-!
# CPR with dynamic row-sum weights (C18) — mirrors preconditioner/cpr_drs.hpp

`cpr_drs` shares with `cpr` the lock-step walk of the `B` row iterators over the block columns, the second pass of the
scalar constructor (`App`), `Scatter`, `apply` and the frame of `partial_update`; these are the definitions of
`Model/CPR.lean` (`curCol`, `advance`, `appRow`, `scatterOf`, `fppOf`, `State.apply`, `expand`).  What differs is the
WEIGHT of scalar row `i` of a block row in the pressure equation:

* `visit`            : the body of `while (!done)` in `first_scalar_pass` (:279-296): for the entries `(col, v)` of
                       iterator `i` below `end`, `c = col % B`:  `i == 0` → `a_top[c] += |v|`;  `c == 0` →
                       (`cur_col == ip` → `a_dia[i] = v` (ASSIGNMENT), else `a_off[i] += |v|`)
* `passLoop/passRow` : `first_scalar_pass` for one block row (:250-332); unlike `cpr` the loop never stops early when
                       `get_app = false`
* `delta`            : (:313-329) `delta = 1; if (!weights.empty()) delta *= weights[ik+i];` and for `i > 0`
                       `a_dia[i] < eps_dd * a_off[i]` → `0`, `a_top[i] < eps_ps * |a_dia[0]|` → `0`
* `blockAcc/blockDelta` : the same quantities as `init(K, bprm, false_type)` computes them for `B × B` block values
                       (:503-540) and `update_transfer(.., false_type)` (:594-631)

Types.  `eps_dd`, `eps_ps` and the user weights are `double`; `a_dia`, `a_off`, `a_top` have the matrix value type.  The
comparisons are `value_type < double * value_type`: the `double` is converted to the value type and the product and
the comparison happen THERE (at `Q` exactly), so the model takes `epsDD`, `epsPS` and the weights as elements of `K`
(the exact rational value of the `double`).  `delta` is a `double`: `1 * w` and the assignments `0`, `1` are exact in
binary64, and the result is converted to the pressure value type.

Scratch.  `a_dia`, `a_off`, `a_top` are per-thread `std::vector`s declared OUTSIDE the block-row loop and re-filled
with `0` at the top of every iteration: the model threads them through the loop over the block rows as explicit state
(`firstScalarPass`), `Properties/C18b.lean` proves that nothing depends on their incoming contents.

Outcome `none` of the constructors = the `precondition` on the size of `weights` throws.
-/
namespace Amgcl.CPRDrs
open Amgcl Amgcl.CPR

/-- `cpr_drs::params` (without the inner preconditioners' parameters) -/
structure Params (K : Type) where
  /-- `block_size` (scalar input) resp. `static_rows<value_type>` (block input) -/
  B : Nat
  activeRows : Nat := 0
  /-- exact value of the `double` `eps_dd` (default `0.2`) -/
  epsDD : K
  /-- exact value of the `double` `eps_ps` (default `0.02`) -/
  epsPS : K
  /-- exact values of the `double`s in `weights`; size 0 = `weights.empty()` -/
  weights : Array K := #[]

/-- the three accumulators of one block row -/
structure Acc (K : Type) where
  dia : Array K
  off : Array K
  top : Array K

section scalar
variable {K : Type} [Add K] [Sub K] [Mul K] [Div K] [Neg K] [Zero K] [One K] [DecidableEq K] [LT K] [DecidableLT K]

/-- `std::abs` of the value type -/
def absK (x : K) : K := if x < 0 then -x else x

/-- `std::vector<value_type> a_dia(B), a_off(B), a_top(B);` (value-initialised) -/
def Acc.zero (B : Nat) : Acc K := ⟨Array.replicate B 0, Array.replicate B 0, Array.replicate B 0⟩

/-- `std::fill(a_dia.begin(), a_dia.end(), 0);` … (:255-257) -/
def Acc.fill0 (a : Acc K) : Acc K :=
  ⟨Array.replicate a.dia.size 0, Array.replicate a.off.size 0, Array.replicate a.top.size 0⟩

/-- one entry `(col, v)` seen by iterator `i` while block column `cur` is visited (:281-294) -/
def visitEntry (B ip cur i : Nat) (a : Acc K) (cv : Nat × K) : Acc K :=
  let c := cv.1 % B
  let a : Acc K := if i = 0 then { a with top := a.top.setIfInBounds c (a.top.getD c 0 + absK cv.2) } else a
  if c = 0 then
    if cur = ip then { a with dia := a.dia.setIfInBounds i cv.2 }
    else { a with off := a.off.setIfInBounds i (a.off.getD i 0 + absK cv.2) }
  else a

/-- `for (i < B) for (; k[i] && k[i].col() < end; ++k[i]) { … }` (:279-296), without the advance of the iterators -/
def visit (B ip cur endc : Nat) (ks : List (Row K)) (a : Acc K) : Acc K :=
  ks.zipIdx.foldl (fun (a : Acc K) ki =>
    (ki.1.takeWhile (fun cv => decide (cv.1 < endc))).foldl (visitEntry B ip cur ki.2) a) a

/-- state of the `while (!done)` loop of `first_scalar_pass` for one block row -/
structure PassState (K : Type) where
  ks : List (Row K)
  /-- `App->ptr[ip+1]` -/
  cnt : Nat
  acc : Acc K

def passLoop (B N ip : Nat) (getApp : Bool) : Nat → PassState K → PassState K
  | 0, s => s
  | fuel + 1, s =>
    match curCol B N s.ks with
    | none => s
    | some cur =>
      let cnt := if getApp then s.cnt + 1 else s.cnt
      let endc := (cur + 1) * B
      passLoop B N ip getApp fuel { ks := advance endc s.ks, cnt := cnt, acc := visit B ip cur endc s.ks s.acc }

/-- the weight of scalar row `i` of block row `ip` (`ik = ip * B`), (:313-329) -/
def delta (p : Params K) (ik i : Nat) (a : Acc K) : K :=
  let d0 : K := if p.weights.isEmpty then 1 else 1 * p.weights.getD (ik + i) 0
  if 0 < i then
    let d1 : K := if a.dia.getD i 0 < p.epsDD * a.off.getD i 0 then 0 else d0
    if a.top.getD i 0 < p.epsPS * absK (a.dia.getD 0 0) then 0 else d1
  else d0

/-- result of `first_scalar_pass` for one block row: `fpp->val[ik .. ik+B)` and `App->ptr[ip+1]` -/
structure RowOut (K : Type) where
  w : Array K
  cnt : Nat

/-- `first_scalar_pass`, iteration `ip` of the `omp for` loop, on a thread whose scratch vectors hold `scratch`;
returns the scratch as it is left for the thread's next iteration -/
def passRow (A : CRS K) (p : Params K) (N ip : Nat) (getApp : Bool) (scratch : Acc K) : RowOut K × Acc K :=
  let ks := blockRows A p.B ip
  let s := passLoop p.B N ip getApp (remaining ks + 1) { ks := ks, cnt := 0, acc := scratch.fill0 }
  ({ w := Array.ofFn (n := p.B) (fun i => delta p (ip * p.B) i.val s.acc), cnt := s.cnt }, s.acc)

/-- `first_scalar_pass(K, get_app)` executed by one thread: the block rows in order, scratch threaded through;
`n` is the member `n` (rows of the constructor's matrix) -/
def firstScalarPass (A : CRS K) (p : Params K) (n : Nat) (getApp : Bool) (scratch : Acc K) : List (RowOut K) × Acc K :=
  let N := if p.activeRows = 0 then n else p.activeRows
  (List.range (N / p.B)).foldl (fun (st : List (RowOut K) × Acc K) ip =>
    let r := passRow A p N ip getApp st.2
    (st.1 ++ [r.1], r.2)) ([], scratch)

def rowW (rs : List (RowOut K)) (ip : Nat) : Array K := (rs.getD ip ⟨#[], 0⟩).w

/-- the object `init(K, bprm, true_type)` builds (scalar input, run-time `block_size`) once the `precondition` has
passed.  `fpp` has `n` columns here (`N` in `cpr`). -/
def scalarState (A : CRS K) (p : Params K) : State K :=
  let n := A.nrows
  let N := if p.activeRows = 0 then n else p.activeRows
  let np := N / p.B
  let rs := (firstScalarPass A p n true (Acc.zero p.B)).1
  { n := n, np := np,
    Fpp := fppOf p.B np n (rowW rs),
    Scatter := scatterOf p.B n np,
    App := { ncols := np, rows := Array.ofFn (n := np) (fun ip => appRow A p.B N ip.val (rowW rs ip.val)) },
    appWidths := rs.map (·.cnt),
    AS := A, uninit := false, zeroPivot := false }

/-- `init(K, bprm, true_type)`; `none` = the `precondition` on `weights.size()` throws -/
def initScalar (A : CRS K) (p : Params K) : Option (State K) :=
  let N := if p.activeRows = 0 then A.nrows else p.activeRows
  if !(p.weights.isEmpty || p.weights.size == N) then none else some (scalarState A p)

/-- the generic constructor `cpr_drs(const Matrix &K, …)`: copy, `sort_rows`, `init` -/
def initScalarCopy (A : CRS K) (p : Params K) : Option (State K) := initScalar (sortRows A) p

/-- `partial_update(K, update_transfer_ops)` for scalar input: sorted copy, `S` rebuilt from it, `Fpp` optionally
(`first_scalar_pass(K, false)`; no `precondition` there); `App`, `P`, `Scatter` stay -/
def partialUpdateScalar (st : State K) (A0 : CRS K) (p : Params K) (upd : Bool) : State K :=
  let A := sortRows A0
  if upd then
    let N := if p.activeRows = 0 then st.n else p.activeRows
    let rs := (firstScalarPass A p st.n false (Acc.zero p.B)).1
    { st with AS := A, np := N / p.B, Fpp := fppOf p.B (N / p.B) st.n (rowW rs) }
  else { st with AS := A }

end scalar

section block
variable {K : Type} [Add K] [Sub K] [Mul K] [Div K] [Neg K] [Zero K] [One K] [DecidableEq K] [LT K] [DecidableLT K]

/-- one stored block `(c, v)` of block row `i` (:514-528): `for k < B: a_top[k] += |v(0,k)|; c == i ? a_dia[k] = v(k,0)
: a_off[k] += |v(k,0)|`; blocks with `c >= np` are skipped -/
def blockVisit (B np i : Nat) (a : Acc K) (cv : Nat × Blk K) : Acc K :=
  if np ≤ cv.1 then a else
  (List.range B).foldl (fun (a : Acc K) k =>
    let a : Acc K := { a with top := a.top.setIfInBounds k (a.top.getD k 0 + absK (cv.2.getD (0 * B + k) 0)) }
    if cv.1 = i then { a with dia := a.dia.setIfInBounds k (cv.2.getD (k * B + 0) 0) }
    else { a with off := a.off.setIfInBounds k (a.off.getD k 0 + absK (cv.2.getD (k * B + 0) 0)) }) a

/-- `std::array<value_type_p, B> a_dia{}, a_off{}, a_top{}` after the loop over the stored blocks of block row `i` -/
def blockAcc (A : CRS (Blk K)) (B np i : Nat) : Acc K := (A.row i).foldl (blockVisit B np i) (Acc.zero B)

/-- `d[k]` (:530-540) -/
def blockDelta (p : Params K) (i k : Nat) (a : Acc K) : K :=
  if 0 < k ∧ (a.dia.getD k 0 < p.epsDD * a.off.getD k 0 ∨ a.top.getD k 0 < p.epsPS * absK (a.dia.getD 0 0)) then 0
  else if p.weights.isEmpty then 1 else p.weights.getD (i * p.B + k) 0

def blockW (A : CRS (Blk K)) (p : Params K) (np i : Nat) : Array K :=
  Array.ofFn (n := p.B) (fun k => blockDelta p i k.val (blockAcc A p.B np i))

/-- the object `init(K, bprm, false_type)` builds: `n` block rows, `N = active_rows ? active_rows : n` block rows active;
`AS` is kept in expanded scalar form; `App` keeps the stored blocks with column `< np` -/
def blockState (A : CRS (Blk K)) (p : Params K) : State K :=
  let n := A.nrows
  let N := if p.activeRows = 0 then n else p.activeRows
  let np := N
  let B := p.B
  { n := n * B, np := np,
    Fpp := fppOf B np (np * B) (blockW A p np),
    Scatter := scatterOf B (np * B) np,
    App := { ncols := np,
             rows := Array.ofFn (n := np) (fun i => ((A.row i.val).filter (fun cv => decide (cv.1 < np))).map (fun cv =>
               (cv.1, (List.range B).foldl (fun a k => a + (blockW A p np i.val).getD k 0 * cv.2.getD (k * B) 0) 0))) },
    appWidths := (List.range np).map (fun i => ((A.row i).filter (fun cv => decide (cv.1 < np))).length),
    AS := expand B A, uninit := false, zeroPivot := false }

/-- `init(K, bprm, false_type)`; `none` = the `precondition` on `weights.size()` throws -/
def initBlock (A : CRS (Blk K)) (p : Params K) : Option (State K) :=
  let N := if p.activeRows = 0 then A.nrows else p.activeRows
  if !(p.weights.isEmpty || p.weights.size == N * p.B) then none else some (blockState A p)

def initBlockCopy (A : CRS (Blk K)) (p : Params K) : Option (State K) := initBlock (sortRows A) p

/-- `partial_update` for block input; `none` = the `precondition` repeated in `update_transfer(.., false_type)` -/
def partialUpdateBlock (st : State K) (A0 : CRS (Blk K)) (p : Params K) (upd : Bool) : Option (State K) :=
  let A := sortRows A0
  if upd then
    let N := if p.activeRows = 0 then st.n / p.B else p.activeRows
    if !(p.weights.isEmpty || p.weights.size == N * p.B) then none else
    some { st with AS := expand p.B A, np := N, Fpp := fppOf p.B N (N * p.B) (blockW A p N) }
  else some { st with AS := expand p.B A }

end block

end Amgcl.CPRDrs
