import Amgcl.Model.RelaxIlu
/-!
# Executable checkers for the V-grade smoothers (ILU(k), ILUP, ILUT, SPAI-1) — C06

These are *not* models of the C++ algorithms.  They are decidable predicates on the **output** of the real code
(the factors `L, U, D` reconstructed by the harness, the SPAI-1 matrix `M`), evaluated by the driver on every explored
input (translation validation).  `Proofs/RelaxCheck.lean` proves that a `true` verdict implies the property clause.

* `luOnPatternb adm A F`  : `((I+L)(D⁻¹+U))_ij = a_ij` for every admitted position `(i,j)`;
* `factorsInPatternb adm F`: the factors have no non-zero outside the admitted pattern;
* `luExactb A F`           : `(I+L)(D⁻¹+U) = A` entrywise (exact-inverse clause);
* `admPattern kind k A`    : the admitted pattern recomputed independently: pattern of `A` (`ilu0`), level of fill
  `≤ k` with amgcl's level rule `lev = max(lev_ik, lev_kj) + 1` (`iluk`), pattern of `A^(k+1)` (`ilup`); `ilut` has no a-priori pattern;
* `leastSquaresRowsb A M`  : for every row `i` the normal equations of `min ‖e_i − m A‖₂` over `m` supported on the
  pattern of row `i` of `A` hold exactly for `m = M_i`.
-/
namespace Amgcl
namespace Relax
variable {K : Type}

/-- all stored columns of row `i` are `< i` -/
def strictLowerb (L : CRS K) : Bool :=
  (List.range L.nrows).all (fun i => (L.row i).all (fun cv => decide (cv.1 < i)))
/-- all stored columns of row `i` are `> i` -/
def strictUpperb (U : CRS K) : Bool :=
  (List.range U.nrows).all (fun i => (U.row i).all (fun cv => decide (i < cv.1)))

section lu
variable [Add K] [Mul K] [Zero K] [One K] [Div K] [DecidableEq K]

/-- entry `(i,k)` of `I + L` -/
def lowEntry (F : IluFactors K) (i k : Nat) : K := (if i = k then 1 else 0) + F.L.get i k
/-- entry `(k,j)` of `D⁻¹ + U` (`F.D` holds the inverted pivots) -/
def upEntry (F : IluFactors K) (k j : Nat) : K := (if k = j then 1 / F.D.getD k 0 else 0) + F.U.get k j
/-- entry `(i,j)` of `(I+L)(D⁻¹+U)` for factors of order `n` -/
def luEntry (F : IluFactors K) (n i j : Nat) : K :=
  (List.range n).foldl (fun s k => s + lowEntry F i k * upEntry F k j) 0

def luOnPatternb (adm : Nat → Nat → Bool) (A : CRS K) (F : IluFactors K) : Bool :=
  (List.range A.nrows).all (fun i => (List.range A.nrows).all (fun j =>
    !adm i j || decide (luEntry F A.nrows i j = A.get i j)))

def luExactb (A : CRS K) (F : IluFactors K) : Bool := luOnPatternb (fun _ _ => true) A F

def rowInPatternb (adm : Nat → Bool) (r : Row K) : Bool :=
  r.all (fun cv => decide (cv.2 = 0) || adm cv.1)

def factorsInPatternb (adm : Nat → Nat → Bool) (F : IluFactors K) : Bool :=
  (List.range F.L.nrows).all (fun i => rowInPatternb (adm i) (F.L.row i)) &&
  (List.range F.U.nrows).all (fun i => rowInPatternb (adm i) (F.U.row i))

end lu

section pattern

/-- stored pattern of `A` -/
def patOf (A : CRS K) (i j : Nat) : Bool := (A.row i).any (fun cv => cv.1 == j)

/-- boolean product of two patterns on `0..n-1` -/
def patMul (n : Nat) (p q : Nat → Nat → Bool) (i j : Nat) : Bool :=
  (List.range n).any (fun k => p i k && q k j)

/-- a pattern tabulated as an array of rows (so that powers are not recomputed) -/
def patTab (n : Nat) (p : Nat → Nat → Bool) : Array (Array Bool) :=
  Array.ofFn (n := n) (fun i => Array.ofFn (n := n) (fun j => p i.val j.val))
def patGet (t : Array (Array Bool)) (i j : Nat) : Bool := (t.getD i #[]).getD j false

/-- pattern of `A^(k+1)` (`ilup.hpp`: `symb_product(A, A)` then `k-1` more products; `k = 0` is `A` itself) -/
def patPower (A : CRS K) (k : Nat) : Nat → Nat → Bool :=
  let n := A.nrows
  let a := patTab n (patOf A)
  let t := (List.range k).foldl (fun t _ => patTab n (patMul n (patGet t) (patGet a))) a
  patGet t

/-- levels of fill, amgcl's rule (`iluk.hpp:139`: `lev = max(a.lev, Ulev[j]) + 1`, kept iff `lev ≤ k`):
dense row-wise symbolic IKJ; `none` = not admitted -/
def fillLevels (A : CRS K) (kfill : Nat) : Array (Array (Option Nat)) :=
  let n := A.nrows
  (List.range n).foldl (fun (lev : Array (Array (Option Nat))) i =>
    let row0 : Array (Option Nat) := Array.ofFn (n := n) (fun j => if patOf A i j.val then some 0 else none)
    let row := (List.range i).foldl (fun (row : Array (Option Nat)) k =>
      match row.getD k none with
      | none => row
      | some lik =>
        let urow := lev.getD k #[]
        (List.range n).foldl (fun (row : Array (Option Nat)) j =>
          if k < j then
            match urow.getD j none with
            | none => row
            | some lkj =>
              let cand := max lik lkj + 1
              if cand ≤ kfill then
                match row.getD j none with
                | none => row.setIfInBounds j (some cand)
                | some l => row.setIfInBounds j (some (min l cand))
              else row
          else row) row) row0
    lev.push row) #[]

def patLevel (A : CRS K) (kfill : Nat) : Nat → Nat → Bool :=
  let lev := fillLevels A kfill
  fun i j => ((lev.getD i #[]).getD j none).isSome

/-- the admitted pattern of a factorisation kind, as a pair: the positions on which `(LU)_ij = a_ij` is claimed and
the positions where factor entries may be non-zero.  `ilut` (threshold dropping: no pattern is fixed in advance)
claims no position and allows every position; only its exactness on tridiagonal / arrow matrices is checked. -/
def admPattern (kind : String) (k : Nat) (A : CRS K) : Option ((Nat → Nat → Bool) × (Nat → Nat → Bool)) :=
  if kind = "ilu0" then some (patOf A, patOf A)
  else if kind = "iluk" then some (patLevel A k, patLevel A k)
  else if kind = "ilup" then some (patPower A k, patPower A k)
  else if kind = "ilut" then some (fun _ _ => false, fun _ _ => true)
  else none

/-- the pattern of `A` is closed under fill-in: `(i,k)`, `(k,j)` stored with `k < i`, `k < j` ⟹ `(i,j)` stored
(true for tridiagonal and for arrow patterns pointing to the last row/column): the exact `LU` factors fit into it -/
def noFillb (A : CRS K) : Bool :=
  (List.range A.nrows).all (fun i => (A.row i).all (fun ck =>
    !(decide (ck.1 < i)) || (A.row ck.1).all (fun cj => !(decide (ck.1 < cj.1)) || patOf A i cj.1)))

def samePatternb (A M : CRS K) : Bool :=
  A.nrows == M.nrows &&
  (List.range A.nrows).all (fun i => (A.row i).map (·.1) == (M.row i).map (·.1))

end pattern

section spai1
variable [Add K] [Mul K] [Sub K] [Zero K] [One K] [DecidableEq K]

/-- `j`-th entry of the residual row `e_i − m·A`, `m` = row `i` of `M` (dense, order `n`) -/
def spaiResid (A M : CRS K) (n i j : Nat) : K :=
  (if i = j then 1 else 0) - (List.range n).foldl (fun s l => s + M.get i l * A.get l j) 0

/-- left-hand side of the `k`-th normal equation of row `i`: `Σ_j (e_i − m A)_j · a_kj` -/
def spaiNormal (A M : CRS K) (n i k : Nat) : K :=
  (List.range n).foldl (fun s j => s + spaiResid A M n i j * A.get k j) 0

/-- the normal equations hold exactly in every row, for every pattern column `k` of the row -/
def leastSquaresRowsb (A M : CRS K) : Bool :=
  (List.range A.nrows).all (fun i => (A.row i).all (fun cv => decide (spaiNormal A M A.nrows i cv.1 = 0)))

/-- tolerance variant (used where the implementation's QR runs with the rational pseudo square root):
`|Σ_j (e_i − m A)_j a_kj| ≤ tol` -/
def leastSquaresRowsTolb [LT K] [DecidableLT K] [Neg K] (tol : K) (A M : CRS K) : Bool :=
  (List.range A.nrows).all (fun i => (A.row i).all (fun cv =>
    let v := spaiNormal A M A.nrows i cv.1
    !(decide (tol < v)) && !(decide (v < -tol))))

end spai1

end Relax
end Amgcl
