import Amgcl.Model.DefinedStores
import Amgcl.Model.RelaxIlup
/-!
# Cell-level models, fifth batch (C10): `schur_pressure_correction` sub-blocks and `L`, `spgemm_rmerge`,
`ilup` (`symb_product`, `P.val`)
-/
namespace Amgcl
namespace Defined
variable {K : Type}

/-! ## `schur_pressure_correction::init` (schur_pressure_correction.hpp:346-412): `Kuu`, `Kup`, `Kpu`, `Kpp`

```
Kxy->set_size(nx, ny, true);
for i < n: for k in row i of K: ++Kxy->ptr[idx[i] + 1]    (the block chosen by pmask[i], pmask[k.col()])
Kxy->set_nonzeros(Kxy->scan_row_sizes());
for i < n: { head = Kxy->ptr[idx[i]]; for k in row i: if (entry belongs to block xy) { Kxy->col[head] = idx[k.col()];
                                                                                     Kxy->val[head] = k.value(); ++head; } }
```
One sub-block = the rows of `K` with `pmask[i] = x` in increasing `i` (`src`, row `ci = idx[i]`), the entries with
`pmask[col] = y` (`keep`), renumbered (`out`). -/

/-- increments of `ptr[ci+1]` made for one source row -/
def fcount {E : Type} (keep : E → Bool) (r : List E) : Nat := r.foldl (fun w e => if keep e then w + 1 else w) 0
/-- entries stored for one source row -/
def frow {E : Type} (keep : E → Bool) (out : E → Nat × K) (r : List E) : Row K := (r.filter keep).map out

def schurBlockCells {E : Type} (src : Array (List E)) (keep : E → Bool) (out : E → Nat × K) (jp : Array Nat)
    (jc : Nat → Array Nat) (jv : Nat → Array K) : CrsCells K :=
  twoPassInc (Array.ofFn (n := src.size) fun ci => frow keep out (src.getD ci.val []))
    (fun ci => fcount keep (src.getD ci [])) jp jc jv

/-- `L = numa_vector(np, false); for i < np: { …; L[i] = 0; if (Kpp has a diagonal entry in row i) L[i] = s; }` (l.452-478) -/
def schurLStores [Zero K] (np : Nat) (hasDiag : Nat → Bool) (s : Nat → K) : List (Nat × K) :=
  (List.range np).flatMap fun i => (i, (0 : K)) :: (if hasDiag i then [(i, s i)] else [])

/-! ## `spgemm_rmerge` (spgemm.hpp:452-505): `C.set_size(n, m); C.ptr[0] = 0; C.ptr[i+1] = prod_row_width(…);
`C.set_nonzeros(C.scan_row_sizes()); prod_row(…, C.col + C.ptr[i], C.val + C.ptr[i], …)` -/

def rmergeCells [Add K] [Mul K] [Zero K] [One K] (A B : CRS K) (jp : Array Nat) (jc : Nat → Array Nat)
    (jv : Nat → Array K) : CrsCells K :=
  twoPassW (spgemmRmerge A B).rows (fun i => prodRowWidth B ((A.row i).map (·.1))) jp jc jv

/-! ## `detail::symb_product` (ilup.hpp:51-117): `C->set_size(n, m)`, first pass `C_ptr[ia+1] = C_cols`, scan,
`set_nonzeros(nnz, false)` (no values), second pass from `row_beg = C_ptr[ia]`, `std::sort` of the segment (in place,
on written cells) -/

def symbCells (A B : Relax.Pat) (m : Nat) (jp : Array Nat) (jc : Nat → Array Nat) : CrsCells Unit :=
  twoPassW ((Relax.symbProduct A B m).map fun r => r.map fun c => (c, ())) (fun ia => (Relax.symbWidths A B m).getD ia 0)
    jp jc (fun k => Array.replicate k ())

/-! ## `ilup::ilup`, `P->val = new value_type[P->nnz]` (ilup.hpp:165-181):
`for i < n: std::fill(P->val + ptr[i], P->val + ptr[i+1], 0)` before the values of `A` are scattered into the row -/

def segZeroStores {α : Type} (n : Nat) (ptr : Nat → Nat) (z : α) : List (Nat × α) :=
  (List.range n).flatMap fun i => (List.range' (ptr i) (ptr (i + 1) - ptr i)).map fun j => (j, z)

/-- `for i < n: for j in [ptr[i], ptr[i+1]): a[j] = f j` (mpi `spectral_radius`: `rem_col[j] = C.local_index(A_rem.col[j])`) -/
def segStores {α : Type} (n : Nat) (ptr : Nat → Nat) (f : Nat → α) : List (Nat × α) :=
  (List.range n).flatMap fun i => (List.range' (ptr i) (ptr (i + 1) - ptr i)).map fun j => (j, f j)

end Defined
end Amgcl
