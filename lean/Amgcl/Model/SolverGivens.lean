import Amgcl.Model.SolverCommon2
/-!
# The Hessenberg / Givens part shared verbatim by gmres.hpp:219-232, fgmres.hpp:204-217, lgmres.hpp:290-303
and `solver/detail/givens_rotations.hpp` — core Lean only

Given the new basis candidate `v_new` (after the matrix–vector product) the three GMRES variants execute the same
statements: modified Gram–Schmidt against `v[0..j]` storing the coefficients in column `j` of `H`, normalisation,
the previous rotations applied to column `j`, a new rotation generated and applied to the column and to `s`.
After the inner loop the same back substitution turns `s` into the coefficients of the update.
-/
namespace Amgcl.Solver

/-- the small dense work arrays `H` (`multi_array<coef_type,2>(M+1, M)`), `s, cs, sn` (`std::vector(M+1)`) -/
structure Hess (K : Type) where
  H  : FArr2 K
  s  : FArr K
  cs : FArr K
  sn : FArr K

def Hess.fresh {K : Type} [Zero K] : Hess K := ⟨.const 0, .const 0, .const 0, .const 0⟩

section ops
variable {K : Type} [Add K] [Mul K] [Sub K] [Neg K] [Zero K] [One K] [Div K] [DecidableEq K] [LT K] [DecidableLT K]

/-- `detail::generate_plane_rotation(dx, dy, cs, sn)` (givens_rotations.hpp:41-55): returns `(cs, sn)` -/
def genRot (sqrt : K → K) (dx dy : K) : K × K :=
  if dy = 0 then (1, 0)                                     -- if (math::is_zero(dy)) { cs = 1; sn = 0; }
  else if absK dx < absK dy then                            -- else if (std::abs(dy) > std::abs(dx)) {
    let tmp := dx / dy                                      --   T tmp = dx / dy;
    let sn := inv1 (sqrt (1 + tmp * tmp))                   --   sn = math::inverse(sqrt(identity + tmp * tmp));
    (tmp * sn, sn)                                          --   cs = tmp * sn;
  else
    let tmp := dy / dx                                      --   T tmp = dy / dx;
    let cs := inv1 (sqrt (1 + tmp * tmp))                   --   cs = math::inverse(sqrt(identity + tmp * tmp));
    (cs, tmp * cs)                                          --   sn = tmp * cs;

/-- `detail::apply_plane_rotation(dx, dy, cs, sn)` (givens_rotations.hpp:57-62): returns the new `(dx, dy)`;
`math::adjoint` is the identity on a real scalar -/
def applyRot (dx dy cs sn : K) : K × K :=
  (cs * dx + sn * dy, (-sn) * dx + cs * dy)     -- tmp = adjoint(cs)*dx + adjoint(sn)*dy; dy = -sn*dx + cs*dy; dx = tmp;

/-- gmres.hpp:219-222: `for(k = 0; k <= j; ++k) { H(k,j) = inner_product(v_new, *v[k]); axpby(-H(k,j), *v[k], one, v_new); }` -/
def mgs (ip : Vec K → Vec K → K) (v : FArr (Vec K)) (j : Nat) (H : FArr2 K) (vnew : Vec K) :
    FArr2 K × Vec K :=
  (List.range (j + 1)).foldl (fun (acc : FArr2 K × Vec K) k =>
      let H' := setF2 acc.1 k j (ip acc.2 (v k))
      (H', axpby (-(H' k j)) (v k) 1 acc.2)) (H, vnew)

/-- gmres.hpp:227-228: `for(k = 0; k < j; ++k) apply_plane_rotation(H(k,j), H(k+1,j), cs[k], sn[k]);` -/
def rotCol (j : Nat) (H : FArr2 K) (cs sn : FArr K) : FArr2 K :=
  (List.range j).foldl (fun H k =>
      let p := applyRot (H k j) (H (k + 1) j) (cs k) (sn k)
      setF2 (setF2 H (k + 1) j p.2) k j p.1) H

/-- gmres.hpp:219-225: Gram–Schmidt against `v[0..j]`, `H(j+1,j) = norm(v_new)`, normalisation of `v_new`;
returns `H` (column `j`, rows `0..j+1` written) and the normalised `v_new` -/
def orth (ip : Vec K → Vec K → K) (sqrt : K → K) (v : FArr (Vec K)) (j : Nat) (H : FArr2 K) (vnew : Vec K) :
    FArr2 K × Vec K :=
  let m := mgs ip v j H vnew
  let H2 := setF2 m.1 (j + 1) j (nrmA ip sqrt m.2)                  -- H(j+1, j) = norm(v_new);
  (H2, axpby (inv1 (H2 (j + 1) j)) m.2 0 m.2)                        -- axpby(inverse(H(j+1,j)), v_new, zero, v_new);

/-- gmres.hpp:227-234: the previous rotations applied to column `j`, the new rotation generated and applied to the
column and to `s`; returns the new `(H, s, cs, sn)` and `inner_res = std::abs(s[j+1])` -/
def rotate (sqrt : K → K) (j : Nat) (h : Hess K) (H2 : FArr2 K) : Hess K × K :=
  let H3 := rotCol j H2 h.cs h.sn
  let g := genRot sqrt (H3 j j) (H3 (j + 1) j)                       -- generate_plane_rotation(H(j,j), H(j+1,j), cs[j], sn[j]);
  let cs := setF h.cs j g.1
  let sn := setF h.sn j g.2
  let p := applyRot (H3 j j) (H3 (j + 1) j) (cs j) (sn j)            -- apply_plane_rotation(H(j,j), H(j+1,j), cs[j], sn[j]);
  let H4 := setF2 (setF2 H3 (j + 1) j p.2) j j p.1
  let q := applyRot (h.s j) (h.s (j + 1)) (cs j) (sn j)              -- apply_plane_rotation(s[j], s[j+1], cs[j], sn[j]);
  let s := setF (setF h.s (j + 1) q.2) j q.1
  (⟨H4, s, cs, sn⟩, absK (s (j + 1)))                               -- inner_res = std::abs(s[j+1]);

/-- gmres.hpp:219-234 for inner index `j`: returns the new `(H, s, cs, sn)`, the normalised `v_new`, and
`inner_res` -/
def hessStep (ip : Vec K → Vec K → K) (sqrt : K → K) (v : FArr (Vec K)) (j : Nat) (h : Hess K) (vnew : Vec K) :
    Hess K × Vec K × K :=
  let o := orth ip sqrt v j h.H vnew
  let r := rotate sqrt j h o.1
  (r.1, o.2, r.2)

/-- gmres.hpp:244-248:
`for (i = j; i --> 0; ) { s[i] /= H(i,i); for (k = 0; k < i; ++k) s[k] -= H(k,i) * s[i]; }` -/
def backSubst (j : Nat) (H : FArr2 K) (s : FArr K) : FArr K :=
  (List.range j).reverse.foldl (fun s i =>
      let s1 := setF s i (s i / H i i)
      (List.range i).foldl (fun s k => setF s k (s k - H k i * s i)) s1) s

/-- `std::fill(s.begin(), s.end(), 0); s[0] = norm_r;` -/
def sInit (normR : K) : FArr K := setF (.const 0) 0 normR

end ops
end Amgcl.Solver
