import Amgcl.Model.Basic
/-!
# C20 — the C interface `lib/amgcl.cpp` (core Lean only)

Two things of the C wrapper are expressible in a model; the rest of C20 is equivalence of two runs of the
implementation (C handle API vs. C++ run-time interface) and is checked bitwise by `harness/h_capi.cpp`.

## 1. The tuple-of-iterator-ranges view of the caller's CRS arrays

`amgcl_precond_create`, `amgcl_solver_create`, `amgcl_solver_solve_mtx` (lib/amgcl.cpp:72-76, 140-144,
238-243) build

    std::make_tuple(n, make_iterator_range(ptr, ptr + n + 1),
                       make_iterator_range(col, col + ptr[n]),
                       make_iterator_range(val, val + ptr[n]))

and the Fortran-style `_f` entry points (lib/amgcl.cpp:93-100, 161-168, 267-276) build the same tuple over
*transform iterators* `ptr_c`, `col_c` which subtract `1` **at every dereference** (the caller's arrays are not
shifted or copied), but form the END iterators of the `col` and `val` ranges with the **raw, 1-based** `ptr[n]`:

    make_iterator_range(col_c, col_c + ptr[n])      -- ptr[n] = nnz + 1 : the end is one element PAST one-past-the-end
    make_iterator_range(val,   val   + ptr[n])

A `View` records the caller's three arrays, the amounts `pshift`, `cshift ∈ {0,1}` subtracted by the transform
iterators over `ptr` and over `col` (two separate lambdas in the source, hence two fields: the translator
`tools/capi_extract.py` extracts them separately, `Model/CApiTable.lean`) and the three end offsets.  Every dereference is a bounds-checked read (`Option`): `none` = the C++ code would
read outside the caller's array.  The rows are those seen through `backend::row_begin` / `row_iterator`
(adapter/crs_tuple.hpp:101-149), consumed by the two passes of the generic `crs` constructor
(backend/builtin.hpp:120-151) and by the generic `spmv` / `residual` (backend/detail/matrix_ops.hpp:47-113)
that `amgcl_solver_solve_mtx[_f]` runs on the view of the replacement matrix.  The end iterators of the `col` /
`val` ranges are never used by that code (`row_iterator` takes `std::begin` of both ranges only), which is why
the model carries them as data that no reader consults.

Not modelled: the C type `int` is modelled by `Int` (no overflow of `i - 1`, `ptr[n]` fits); the *formation* of
the out-of-range end pointer `col + nnz + 1` (undefined by the letter of [expr.add], harmless on every flat
address space) is recorded (`colEnd`) but not treated as a failure — C20 speaks about *reads*.

## 2. The handle life cycle

Handles are the addresses of heap objects (`new Params / AMG / Solver`, lib/amgcl.cpp:34-36, 78-81, 146-149);
`*_destroy` is `delete`.  The state machine below numbers handles in creation order, keeps for each handle its
kind and whether it is still alive, and sends every call that dereferences a dead / foreign / unknown handle to
an error outcome (in C: undefined behaviour — use after free, double free, or a `static_cast` to the wrong
type).  The footprint `touches` is read off lib/amgcl.cpp: a create call dereferences the parameter handle
(if it is not `NULL`) *during the call only* — the `ptree` is converted into the `params` struct of the new
object and neither it nor the caller's matrix arrays are retained (the matrix is copied by the `crs`
constructor); every other call dereferences exactly its first argument.
-/
namespace Amgcl.CApi

/-! ## 1. views -/

/-- bounds-checked read of a C array at a signed offset -/
def rd {α : Type} (a : Array α) (i : Int) : Option α :=
  if 0 ≤ i then a[i.toNat]? else none

/-- `std::tuple<int, iterator_range<P>, iterator_range<C>, iterator_range<const double*>>` over the caller's
arrays: `pshift` / `cshift` is what the transform iterator `ptr_c` / `col_c` of the `_f` entry points subtracts at
every dereference of `ptr` / `col` (`0` for the plain pointers of the C entry points); `ptrEnd/colEnd/valEnd` are
the offsets of the end iterators as the code forms them. -/
structure View (K : Type) where
  n      : Nat
  pshift : Int
  cshift : Int
  ptr    : Array Int
  col    : Array Int
  val    : Array K
  ptrEnd : Int
  colEnd : Int
  valEnd : Int

section view
variable {K : Type}

/-- the tuple construction of the C entry points (`shift = 0`) and of the `_f` entry points (`shift = 1`).
The only dereference is the **raw** `ptr[n]` (evaluated for the `col` and the `val` end iterator). -/
def mkView (shift : Int) (n : Nat) (ptr col : Array Int) (val : Array K) : Option (View K) := do
  let pn ← rd ptr n
  pure { n := n, pshift := shift, cshift := shift, ptr := ptr, col := col, val := val,
         ptrEnd := n + 1, colEnd := pn, valEnd := pn }

/-- `std::get<1>(A)[i]` : `*(begin + i)`, the transform is applied to the value read -/
def View.ptrAt (v : View K) (i : Int) : Option Int := (rd v.ptr i).map (· - v.pshift)
/-- `*m_col` with `m_col = std::begin(std::get<2>(A)) + j` -/
def View.colAt (v : View K) (j : Int) : Option Int := (rd v.col j).map (· - v.cshift)
/-- `*m_val` with `m_val = std::begin(std::get<3>(A)) + j` -/
def View.valAt (v : View K) (j : Int) : Option K := rd v.val j

/-- `nonzeros_impl` (crs_tuple.hpp:91-97): `std::get<1>(A)[n]` -/
def View.nonzeros (v : View K) : Option Int := v.ptrAt v.n

/-- constructor of `row_iterator<tuple>::type` (crs_tuple.hpp:107-120): reads `ptr[row]`, `ptr[row+1]` through
the range and positions `m_col = m_val = begin + row_begin`, `m_end = begin + row_end` (offsets returned). -/
def View.rowBegin (v : View K) (row : Nat) : Option (Int × Int) := do
  let b ← v.ptrAt row
  let e ← v.ptrAt (row + 1)
  pure (b, e)

/-- `for (auto a = row_begin(A, i); a; ++a) ++row_width;` — no dereference of `col`/`val`; `operator bool` is
`m_col != m_end`, so the loop only ends by *hitting* `m_end`.  `fuel` bounds the walk: an iterator that has not
met `m_end` after `col.size + 1` increments has left the array (outcome `none`). -/
def countLoop : Nat → Int → Int → Option Nat
  | 0, j, e => if j = e then some 0 else none
  | f + 1, j, e => if j = e then some 0 else (countLoop f (j + 1) e).map (· + 1)

/-- `for (auto a = row_begin(A, i); a; ++a) { … a.col() … a.value() … }` : the entries of one row in stored
order; `m_col` and `m_val` start at the same offset and are incremented together, hence the single offset `j`. -/
def View.readLoop (v : View K) : Nat → Int → Int → Option (List (Int × K))
  | 0, j, e => if j = e then some [] else none
  | f + 1, j, e =>
    if j = e then some [] else do
      let c ← v.colAt j
      let x ← v.valAt j
      let rest ← v.readLoop f (j + 1) e
      pure ((c, x) :: rest)

def View.fuel (v : View K) : Nat := v.col.size + 1

/-- width of row `i` as counted by the first pass of the `crs` constructor -/
def View.rowWidth (v : View K) (i : Nat) : Option Nat := do
  let be ← v.rowBegin i
  countLoop v.fuel be.1 be.2

/-- the entries of row `i` seen through `backend::row_begin(A, i)` -/
def View.row (v : View K) (i : Nat) : Option (List (Int × K)) := do
  let be ← v.rowBegin i
  v.readLoop v.fuel be.1 be.2

/-- `crs(const Matrix &A)` (builtin.hpp:120-151) on the view: pass 1 counts the row widths (`ptr` reads only),
pass 2 copies `col()`/`value()` of every entry.  Result: the rows of the internal copy (`nrows = ncols = n`),
columns still as the `int` values produced by the (transformed) dereference. -/
def View.toRows (v : View K) : Option (Array (List (Int × K))) := do
  let _widths ← (List.range v.n).mapM v.rowWidth
  let rows ← (List.range v.n).mapM v.row
  pure rows.toArray

/-- rows with integer columns → `CRS` (`none` when a column is outside `[0, n)`: the C++ code would store it
and index vectors with it later) -/
def rowsToCRS (n : Nat) (rows : Array (List (Int × K))) : Option (CRS K) :=
  if rows.toList.all (fun r => r.all (fun cv => decide (0 ≤ cv.1 ∧ cv.1 < n))) then
    some { ncols := n, rows := rows.map (fun r => r.map (fun cv => (cv.1.toNat, cv.2))) }
  else none

variable [Add K] [Mul K] [Sub K] [Zero K]

/-- inner loop of the generic `spmv` / `residual` (matrix_ops.hpp:66-68, 104-106):
`sum += a.value() * x[a.col()]`, the read of the caller's `x` bounds-checked -/
def rowDotChecked (r : List (Int × K)) (x : Array K) : Option K :=
  r.foldlM (fun (s : K) cv => (rd x cv.1).map (fun xc => s + cv.2 * xc)) 0

/-- `backend::residual(rhs, A, x, res)` on the view (what the Krylov solvers evaluate in `solve_mtx`) -/
def View.residual (f : Array K) (v : View K) (x : Array K) : Option (Array K) := do
  let l ← (List.range v.n).mapM (fun i => do
    let r ← v.row i
    let s ← rowDotChecked r x
    let fi ← rd f i
    pure (fi - s))
  pure l.toArray

/-- `backend::spmv(1, A, x, 0, y)` on the view -/
def View.mulVec (v : View K) (x : Array K) : Option (Array K) := do
  let l ← (List.range v.n).mapM (fun i => do
    let r ← v.row i
    rowDotChecked r x)
  pure l.toArray

end view

/-! ### the caller's side: CRS arrays with index base `β` -/

section arrays
variable {K : Type}

/-- `ptr` of a CRS matrix as the caller of the C API stores it with index base `β` -/
def ptrArr (β : Int) (A : CRS K) : Array Int := (A.ptr.map (fun (p : Nat) => (p : Int) + β)).toArray
def colArr (β : Int) (A : CRS K) : Array Int :=
  (A.rows.toList.flatten.map (fun (cv : Nat × K) => (cv.1 : Int) + β)).toArray
def valArr (A : CRS K) : Array K := (A.rows.toList.flatten.map (fun cv => cv.2)).toArray

/-- rows of `A` with columns as C `int`s -/
def intRows (A : CRS K) : Array (List (Int × K)) :=
  (A.rows.toList.map (fun r => r.map (fun cv => ((cv.1 : Int), cv.2)))).toArray

end arrays

/-! ## 2. handle life cycle -/

inductive Kind | params | precond | solver
  deriving DecidableEq, Repr

/-- one call of lib/amgcl.h, abstracted to its handle footprint -/
inductive Call
  /-- `amgcl_params_create` -/
  | paramsCreate
  /-- `amgcl_precond_create[_f]` (`solver = false`) / `amgcl_solver_create[_f]`; `prm = none` is `NULL` -/
  | objCreate (solver : Bool) (prm : Option Nat)
  /-- `amgcl_params_seti/setf/sets/read_json`, `amgcl_precond_apply/report`,
      `amgcl_solver_solve[_f]/solve_mtx[_f]/report` on handle `h`, which the function casts to kind `k` -/
  | use (k : Kind) (h : Nat)
  /-- `amgcl_{params,precond,solver}_destroy` -/
  | destroy (k : Kind) (h : Nat)
  deriving DecidableEq, Repr

inductive Err | unknown | dead | kind
  deriving DecidableEq, Repr

/-- kind and liveness of every handle created so far (handle = index, in creation order) -/
abbrev HState := List (Kind × Bool)

def Call.created : Call → Option Kind
  | .paramsCreate => some .params
  | .objCreate s _ => some (if s then .solver else .precond)
  | _ => none

/-- the handles a call dereferences, with the type it casts them to -/
def Call.touches : Call → List (Kind × Nat)
  | .paramsCreate => []
  | .objCreate _ none => []
  | .objCreate _ (some p) => [(.params, p)]
  | .use k h => [(k, h)]
  | .destroy k h => [(k, h)]

def checkHandle (st : HState) (kh : Kind × Nat) : Except Err Unit :=
  match st[kh.2]? with
  | none => .error .unknown
  | some (k, alive) =>
    if !alive then .error .dead
    else if k ≠ kh.1 then .error .kind
    else .ok ()

def checkAll (st : HState) : List (Kind × Nat) → Except Err Unit
  | [] => .ok ()
  | kh :: t => match checkHandle st kh with
    | .error e => .error e
    | .ok () => checkAll st t

def step (st : HState) (c : Call) : Except Err HState :=
  match checkAll st c.touches with
  | .error e => .error e
  | .ok () =>
    match c with
    | .destroy k h => .ok (st.set h (k, false))
    | c => match c.created with
      | some k => .ok (st ++ [(k, true)])
      | none => .ok st

/-- run a script from state `st`; an error is reported with the index of the offending call -/
def runFrom (i : Nat) (st : HState) : List Call → Except (Nat × Err) HState
  | [] => .ok st
  | c :: cs => match step st c with
    | .error e => .error (i, e)
    | .ok st' => runFrom (i + 1) st' cs

def run (s : List Call) : Except (Nat × Err) HState := runFrom 0 [] s

/-- handles still alive (a non-empty list at the end of a program is a leak) -/
def liveHandles (st : HState) : List Kind := (st.filter (·.2)).map (·.1)

/-! ### the same, read declaratively off the text of a script

`Balanced` is what a C programmer means by "every handle is used between its create and its destroy only":
it talks about positions in the script, not about the machine state. -/

/-- kinds of the handles created by a script, in creation order (= handle numbers) -/
def kindsOf (s : List Call) : List Kind := s.filterMap Call.created

/-- `h` is the argument of some destroy call of `s` -/
def destroyedIn (s : List Call) (h : Nat) : Bool :=
  s.any (fun c => match c with
    | .destroy _ h' => h' == h
    | _ => false)

/-- after the calls `pre`, call `c` dereferences only handles that `pre` created with the kind `c` casts them
to and that `pre` did not destroy -/
def CallOK (pre : List Call) (c : Call) : Prop :=
  ∀ kh ∈ c.touches, (kindsOf pre)[kh.2]? = some kh.1 ∧ destroyedIn pre kh.2 = false

/-- every call of the script is `CallOK` after the calls before it -/
def Balanced (s : List Call) : Prop :=
  ∀ (p : Nat) (hp : p < s.length), CallOK (s.take p) s[p]

/-- every handle the script creates is destroyed by it -/
def AllDestroyed (s : List Call) : Prop :=
  ∀ h, h < (kindsOf s).length → destroyedIn s h = true

end Amgcl.CApi
