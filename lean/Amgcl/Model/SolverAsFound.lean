import Amgcl.Model.SolverBiCGStab
import Amgcl.Model.SolverIDRs
import Amgcl.Model.SolverBiCGStabL
import Amgcl.Model.SolverGivensStar
/-!
# The conjugation-sensitive statements of bicgstab.hpp / idrs.hpp / bicgstabl.hpp, as found and as repaired — core Lean only

For a real value type `inner_product(x, y) = inner_product(y, x)` and `math::adjoint` is the identity, so the texts before and after
the repairs 5b0cc60 (BiCGStab), f9a42d3 (IDR(s)), 10c4abf (BiCGStab(L)) of /repo denote the same function and the real-valued models
cannot tell them apart.  With `inner_product(x, y) = Σ x_i conj(y_i) = yᴴx` they differ.  This file holds

* `BiCGStab.halfAsFound / fullAsFound / bodyAsFound`: bicgstab.hpp:209-235 with the argument order of the library text BEFORE 5b0cc60
  (`alpha = rho1 / inner_product(*rh, *v)`, `omega = inner_product(*t, *s) / inner_product(*t, *t)`); `BiCGStab.half / full / body`
  (`Model/SolverBiCGStab.lean`) carry the order of the code as it is now;
* `IDRs.omegaFnC`: `omega(t, s)` of idrs.hpp:474-489 as it is now (`ts = inner_product(s, t)`, the text of `IDRs.omegaFn` in
  `Model/SolverIDRs.lean`) with `math::norm` of a complex scalar as a parameter `absC`; `IDRs.omegaFnAsFound`: the argument order
  before f9a42d3 (`ts = inner_product(t, s)`) — the same value at every carrier with a symmetric inner product;
* `BiCGStabL.gramC` (bicgstabl.hpp:303-315 as it is now: `MZa(i,j) = adjoint(MZa(j,i))`, `i < j`) and `BiCGStabL.gramAsFound` (the
  chained assignment `MZa(i,j) = MZa(j,i) = adjoint(MZa(j,i))` before 10c4abf); at `conj = id` both are `BiCGStabL.gram`;
* an order on the Gaussian rationals `GQ` (by modulus, as amgcl declares it for `std::complex`) so that the generic models run at `GQ`.

Used by the counterexample theorems of `Properties/C05g.lean`.
-/
namespace Amgcl.Solver

/-- amgcl's order on complex numbers (value_type/complex.hpp:97): by modulus; decided on the squared moduli -/
instance : LT GQ := ⟨fun a b => GQ.normSq a < GQ.normSq b⟩
instance : DecidableLT GQ := fun a b => inferInstanceAs (Decidable (GQ.normSq a < GQ.normSq b))

/-- `inner_product(x, y) = Σ x_i conj(y_i)` on arrays of Gaussian rationals -/
def gqIp (x y : Vec GQ) : GQ := (x.toList.zip y.toList).foldl (fun s xy => s + xy.1 * GQ.conj xy.2) 0

namespace BiCGStab
variable {K : Type} [Add K] [Mul K] [Sub K] [Neg K] [Zero K] [One K] [Div K] [DecidableEq K] [LT K] [DecidableLT K]

/-- bicgstab.hpp:209-221 before 5b0cc60: `alpha = rho1 / inner_product(*rh, *v)` -/
def halfAsFound (side : Side) (ip : Vec K → Vec K → K) (sqrt : K → K) (A : CRS K) (P : Vec K → Vec K)
    (st : St K) (p : Vec K) : Half K :=
  let w := st.w
  let rho1 := ip w.r w.rh
  let vT := pspmv side P A p w.v w.T
  let v := vT.1
  let T := vT.2
  let alpha := rho1 / ip w.rh v                                   -- alpha = rho1 / inner_product(*rh, *v);   (as found)
  let x := match side with
    | .left  => axpby alpha p 1 st.x
    | .right => axpby alpha T 1 st.x
  let s := axpbypcz 1 w.r (-alpha) v 0 w.s
  { rho1 := rho1, alpha := alpha, res := nrm ip sqrt s, p := p, v := v, T := T, s := s, x := x }

/-- bicgstab.hpp:222-235 before 5b0cc60: `omega = inner_product(*t, *s) / inner_product(*t, *t)` -/
def fullAsFound (side : Side) (ip : Vec K → Vec K → K) (sqrt : K → K) (A : CRS K) (P : Vec K → Vec K)
    (st : St K) (h : Half K) : Except (Err × St K) (St K) :=
  let w := st.w
  let tT := pspmv side P A h.s w.t h.T
  let t := tT.1
  let T' := tT.2
  let omega := ip t h.s / ip t t                                  -- omega = inner_product(*t, *s) / inner_product(*t, *t);   (as found)
  if omega = 0 then
    .error (.zeroOmega, { first := false, iter := st.iter, rho1 := h.rho1, alpha := h.alpha, omega := omega,
                          res := h.res, x := h.x, w := ⟨w.r, h.p, h.v, h.s, t, w.rh, T'⟩ })
  else
    let x' := match side with
      | .left  => axpby omega h.s 1 h.x
      | .right => axpby omega T' 1 h.x
    let r := axpbypcz 1 h.s (-omega) t 0 w.r
    .ok { first := false, iter := st.iter + 1, rho1 := h.rho1, alpha := h.alpha, omega := omega,
          res := nrm ip sqrt r, x := x', w := ⟨r, h.p, h.v, h.s, t, w.rh, T'⟩ }

/-- one pass of the loop body with the two statements as found -/
def bodyAsFound (side : Side) (ip : Vec K → Vec K → K) (sqrt : K → K) (A : CRS K) (P : Vec K → Vec K) (epsT : K)
    (st : St K) : Except (Err × St K) (St K) :=
  let w := st.w
  let rho1 := ip w.r w.rh
  match newP st rho1 with
  | .error e => .error (e, { st with rho1 := rho1 })
  | .ok p =>
    let h := halfAsFound side ip sqrt A P st p
    if epsT < h.res then
      fullAsFound side ip sqrt A P st h
    else
      .ok { first := false, iter := st.iter + 1, rho1 := h.rho1, alpha := h.alpha, omega := st.omega,
            res := h.res, x := h.x, w := ⟨w.r, p, h.v, h.s, w.t, w.rh, h.T⟩ }

end BiCGStab

namespace IDRs
variable {K : Type} [Add K] [Mul K] [Sub K] [Neg K] [Zero K] [One K] [Div K] [DecidableEq K] [LT K] [DecidableLT K]

/-- idrs.hpp:474-489, `omega(t, s)` as it is now; `absC` = `math::norm` of a `coef_type` scalar -/
def omegaFnC (absC : K → K) (ip : Vec K → Vec K → K) (sqrt : K → K) (omega : K) (t s : Vec K) : K :=
  let normT := nrmA ip sqrt t                              -- scalar_type norm_t = norm(t);
  let normS := nrmA ip sqrt s                              -- scalar_type norm_s = norm(s);
  let ts := ip s t                                         -- coef_type ts = inner_product(s, t);
  let rho := absC (ts / (normT * normS))                   -- scalar_type rho = math::norm(ts / (norm_t * norm_s));
  let om := ts / (normT * normT)                           -- coef_type om = ts / (norm_t * norm_t);
  if rho < omega then om * (omega / rho) else om           -- if (rho < prm.omega) om *= prm.omega/rho;

/-- `omega(t, s)` before f9a42d3: `ts = inner_product(t, s)` -/
def omegaFnAsFound (ip : Vec K → Vec K → K) (sqrt : K → K) (omega : K) (t s : Vec K) : K :=
  let normT := nrmA ip sqrt t
  let normS := nrmA ip sqrt s
  let ts := ip t s                                         -- coef_type ts = inner_product(t, s);   (as found)
  let rho := absK (ts / (normT * normS))
  let om := ts / (normT * normT)
  if rho < omega then om * (omega / rho) else om

end IDRs

namespace BiCGStabL
variable {K : Type} [Add K] [Mul K] [Sub K] [Neg K] [Zero K] [One K] [Div K] [DecidableEq K] [LT K] [DecidableLT K]

/-- bicgstabl.hpp:303-315 as it is now: lower triangle from `inner_product`, `MZa(i, j) = math::adjoint(MZa(j, i))` for `i < j` -/
def gramC (conj : K → K) (ip : Vec K → Vec K → K) (L : Nat) (R : FArr (Vec K)) (MZa : FArr2 K) : FArr2 K :=
  let M1 := (List.range (L + 1)).foldl (fun M i =>
      (List.range (i + 1)).foldl (fun M j => setF2 M i j (ip (R i) (R j))) M) MZa
  (List.range (L + 1)).foldl (fun M i =>
      ((List.range (L + 1)).drop (i + 1)).foldl (fun M j => setF2 M i j (conj (M j i))) M) M1

/-- before 10c4abf: the chained assignment `MZa(i, j) = MZa(j, i) = math::adjoint(MZa(j, i))` -/
def gramAsFound (conj : K → K) (ip : Vec K → Vec K → K) (L : Nat) (R : FArr (Vec K)) (MZa : FArr2 K) : FArr2 K :=
  let M1 := (List.range (L + 1)).foldl (fun M i =>
      (List.range (i + 1)).foldl (fun M j => setF2 M i j (ip (R i) (R j))) M) MZa
  (List.range (L + 1)).foldl (fun M i =>
      ((List.range (L + 1)).drop (i + 1)).foldl (fun M j => setF2 (setF2 M j i (conj (M j i))) i j (conj (M j i))) M) M1

end BiCGStabL
end Amgcl.Solver
