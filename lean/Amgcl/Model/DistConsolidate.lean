import Amgcl.Model.Dist
/-!
# Master/slave consolidation of the coarse problem (C12) — mirrors mpi/direct_solver/solver_base.hpp:50-166

Only the index arithmetic is modelled: which ranks are active, which rank is the master of a rank's group, which
ranks report to a master, and where their rows land in the consolidated matrix.  The factorisation itself is the
serial skyline LU of C16.
-/
namespace Amgcl.Dist

/-- lines 59-69: the ranks that own at least one row, in rank order -/
def activeRanks (cnt : List Nat) : List Nat := (List.range cnt.length).filter (fun i => 0 < cnt.getD i 0)

structure Group where
  /-- `group_master` -/
  master : Nat
  /-- `slaves`: the ranks reporting to the master, in the order their rows are appended -/
  slaves : List Nat
  /-- `counts[j]`: number of rows of slave `j` -/
  counts : List Nat
  deriving Repr

/-- lines 71-104 on an ACTIVE rank (`n > 0`; inactive ranks return before using any of this): `commSize` is
`solver().comm_size(n_global)` (1 for skyline LU) -/
def groupOf (cnt : List Nat) (commSize : Nat) (rank : Nat) : Group :=
  let act := activeRanks cnt
  let activeRank := act.idxOf rank
  let nmasters := min act.length commSize
  let spm := (act.length + nmasters - 1) / nmasters          -- slaves_per_master
  let gb := (activeRank / spm) * spm                          -- group_beg
  let ge := min (gb + spm) act.length                         -- group_end
  let sl := (act.drop (gb + 1)).take (ge - (gb + 1))
  { master := act.getD gb 0, slaves := sl, counts := sl.map (fun i => dom cnt (i + 1) - dom cnt i) }

/-- lines 118-128: `shift` when the sizes of slave `j` are received: `n + 1 + Σ_{j'<j} counts[j']` is the index
into `ptr`, i.e. the slave's first row is consolidated row `n + Σ_{j'<j} counts[j']` -/
def shiftRow (n : Nat) (counts : List Nat) (j : Nat) : Nat := n + (counts.take j).sum

/-- line 141: the same row as addressed when the columns/values are received: `domain[i] - d0` -/
def domainRow (cnt : List Nat) (master slave : Nat) : Nat := dom cnt slave - dom cnt master

/-- the rows a rank owns, as global row numbers -/
def ownRows (cnt : List Nat) (r : Nat) : List Nat := (List.range (dom cnt (r + 1) - dom cnt r)).map (dom cnt r + ·)

/-- lines 104-156: the consolidated chunk on the master: its own rows, then the rows of its slaves in slave order -/
def consolidatedRows (cnt : List Nat) (g : Group) : List Nat := ownRows cnt g.master ++ g.slaves.flatMap (ownRows cnt)

end Amgcl.Dist
