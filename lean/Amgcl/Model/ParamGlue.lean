import Amgcl.Model.CoarseningCommon
/-!
# Float-typed parameter glue (executable only, never used in a theorem)

amgcl keeps `eps_strong`, `relax`, `over_interp` as `float` and evaluates a few expressions in `float`/`double`
*before* widening to the value type:

* `scalar_type eps_squared = prm.eps_strong * prm.eps_strong;`   (plain_aggregates.hpp:122, `float * float`)
* `prm.aggr.eps_strong *= 0.5;`                                   (smoothed_aggregation.hpp:140, exact halving
  in `double`, rounded back to `float` — only inexact in the subnormal range)
* `static_cast<scalar_type>(2.0/3)`, `static_cast<scalar_type>(4.0/3)`   (l.152-154, `double` constants)

Parameters travel through the line protocol as the exact rational value of the `float`.  The functions here
reproduce the roundings with Lean's native `Float32`/`Float` (IEEE binary32/binary64) and decode the result
from its bit pattern.
-/
namespace Amgcl.ParamGlue

/-- exact value of a finite binary32 -/
def f32ToRat (f : Float32) : Option Rat :=
  let b := f.toBits.toNat
  let sgn : Int := if b / 2 ^ 31 = 1 then -1 else 1
  let e := (b / 2 ^ 23) % 256
  let m := b % 2 ^ 23
  let mant : Nat := 2 ^ 23 + m
  if e = 255 then none
  else if e = 0 then some (Rat.divInt (sgn * Int.ofNat m) (Int.ofNat (2 ^ 149)))
  else if e ≥ 150 then some (Rat.divInt (sgn * Int.ofNat (mant * 2 ^ (e - 150))) 1)
  else some (Rat.divInt (sgn * Int.ofNat mant) (Int.ofNat (2 ^ (150 - e))))

/-- exact value of a finite binary64 -/
def f64ToRat (f : Float) : Option Rat :=
  let b := f.toBits.toNat
  let sgn : Int := if b / 2 ^ 63 = 1 then -1 else 1
  let e := (b / 2 ^ 52) % 2048
  let m := b % 2 ^ 52
  let mant : Nat := 2 ^ 52 + m
  if e = 2047 then none
  else if e = 0 then some (Rat.divInt (sgn * Int.ofNat m) (Int.ofNat (2 ^ 1074)))
  else if e ≥ 1075 then some (Rat.divInt (sgn * Int.ofNat (mant * 2 ^ (e - 1075))) 1)
  else some (Rat.divInt (sgn * Int.ofNat mant) (Int.ofNat (2 ^ (1075 - e))))

/-- the binary32 whose exact value is `q` (`none` if `q` is not a binary32 of moderate exponent) -/
def ratToF32 (q : Rat) : Option Float32 :=
  if q.den > 2 ^ 120 ∨ q.num.natAbs > 2 ^ 120 then none else
  let f := Float32.ofInt q.num / Float32.ofNat q.den
  if f32ToRat f = some q then some f else none

/-- `float(eps) * float(eps)` rounded to `float` -/
def f32Square (eps : Rat) : Option Rat := do
  let f ← ratToF32 eps
  f32ToRat (f * f)

/-- `eps_strong *= 0.5` -/
def f32Half (eps : Rat) : Option Rat := do
  let f ← ratToF32 eps
  f32ToRat (f * (0.5 : Float32))

/-- the `double` constants `2.0/3` and `4.0/3` -/
def dbl23 : Rat := (f64ToRat ((2.0 : Float) / 3)).getD 0
def dbl43 : Rat := (f64ToRat ((4.0 : Float) / 3)).getD 0

/-- user-level parameters of `aggregation` / `smoothed_aggregation` as they appear in an op line -/
structure CoarseningParamsQ where
  epsStrong  : Rat            -- value of the float `aggr.eps_strong`
  blockSize  : Nat := 1
  relax      : Rat := 1       -- value of the float `relax`
  estimateSpectralRadius : Bool := false

namespace CoarseningParamsQ
def toAggr (p : CoarseningParamsQ) : Option (AggrParams Rat) := do
  let e2 ← f32Square p.epsStrong
  pure { epsSq := e2, blockSize := p.blockSize, minAggregate := 0 }
def toSA (p : CoarseningParamsQ) : Option (SAParams Rat) := do
  let a ← p.toAggr
  pure { toAggrParams := a, relax := p.relax,
         omegaScale := if p.estimateSpectralRadius then dbl43 else dbl23,
         estimateSpectralRadius := p.estimateSpectralRadius }
/-- the parameter state of a `smoothed_aggregation` object after one `transfer_operators` call -/
def nextSA (p : CoarseningParamsQ) : Option CoarseningParamsQ := do
  let e ← f32Half p.epsStrong
  pure { p with epsStrong := e }
end CoarseningParamsQ

end Amgcl.ParamGlue
