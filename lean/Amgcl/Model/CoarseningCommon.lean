import Amgcl.Model.Basic
/-!
# Common types of the coarsening models (C04; consumed by the hierarchy model of C03)

* `Outcome α`   — result of a modelled amgcl call that may throw: `error::empty_level`
  (plain_aggregates.hpp:192) or `precondition(...)` (`std::runtime_error`, builtin.hpp:515).
* `Aggregates`  — the three public members of `plain_aggregates` / `pointwise_aggregates`
  (`count`, `strong_connection`, `id`).  `strong_connection` is kept row-wise: `strong[i]` has one flag per
  stored entry of row `i` of the matrix, in stored order (the C++ array is the concatenation).
  `id[i] = -1` is `undefined`, `-2` is `removed` (plain_aggregates.hpp:90-91).
* `Transfer K`  — what a coarsening policy hands to the hierarchy: the prolongation `P`
  (the restriction is always `transpose P` for aggregation / smoothed aggregation / Ruge–Stuben and is
  formed by the hierarchy model with the C08 `transpose`).
* parameter records.  All `float`-typed parameters enter as the exact rational value of the `float`;
  the expressions which the C++ code evaluates in `float`/`double` before widening to the value type
  (`eps_strong*eps_strong`, `eps_strong *= 0.5`, `2.0/3`, `4.0/3`) are reproduced by `Model/ParamGlue.lean`
  at `Rat` and enter the generic models already evaluated (`epsSq`, `omegaScale`).

## Signatures of the functions defined in the sibling files (all generic over notation classes)

```
-- Model/PointwiseMatrix.lean        backend::pointwise_matrix (builtin.hpp:500-661)
def pointwiseMatrix (norm : K → K) (A : CRS K) (b : Nat) : Outcome (CRS K)
-- Model/PlainAggregates.lean        plain_aggregates ctor (plain_aggregates.hpp:118-207)
def strongConnections (epsSq : K) (A : CRS K) : Array (List Bool)
def zipGraph (A : CRS K) (S : Array (List Bool)) : SGraph          -- per row the stored (column, flag) pairs
def aggregateIds (G : SGraph) : Nat × Array Int                     -- greedy pass, before renumbering
def aggregatesOfGraph (G : SGraph) : Outcome (Nat × Array Int)      -- + empty_level test + renumbering
def plainAggregates (epsSq : K) (A : CRS K) : Outcome Aggregates
-- Model/PointwiseAggregates.lean    pointwise_aggregates ctor + remove_small_aggregates
def pointwiseAggregates (norm : K → K) (epsSq : K) (blockSize minAggregate : Nat) (A : CRS K) : Outcome Aggregates
-- Model/TentativeProlongation.lean  tentative_prolongation, `nullspace.cols == 0` branch
def tentativeProlongation (n naggr : Nat) (id : Array Int) : CRS K
-- Model/Aggregation.lean            aggregation<Backend>::transfer_operators (P only)
def aggregationTransfer (norm : K → K) (prm : AggrParams K) (A : CRS K) : Outcome (Transfer K)
-- Model/SmoothedAggregation.lean    smoothed_aggregation<Backend>::transfer_operators (P only)
def smoothedAggregationTransfer (norm : K → K) (prm : SAParams K) (A : CRS K) : Outcome (Transfer K)
-- Model/ParamGlue.lean (Rat only, executable only): float-typed parameter expressions
structure ParamGlue.CoarseningParamsQ (epsStrong blockSize relax estimateSpectralRadius)
def ParamGlue.CoarseningParamsQ.toAggr : Option (AggrParams Rat)
def ParamGlue.CoarseningParamsQ.toSA   : Option (SAParams Rat)
def ParamGlue.CoarseningParamsQ.nextSA : Option CoarseningParamsQ    -- eps_strong *= 0.5
-- Model/CoarseningPolicy.lean (Rat): (P, R = transpose P) of the l-th transfer_operators call on one object
def Coarsening.transferAggregation         (p : CoarseningParamsQ) (l : Nat) (A : CRS Rat) : Option (Outcome (CRS Rat × CRS Rat))
def Coarsening.transferSmoothedAggregation (p : CoarseningParamsQ) (l : Nat) (A : CRS Rat) : Option (Outcome (CRS Rat × CRS Rat))
def Coarsening.toPolicyTransfer : (Nat → CRS Rat → Option (Outcome (CRS Rat × CRS Rat))) → Nat → CRS Rat → Option (CRS Rat × CRS Rat)
-- Model/CoarseningChecks.lean: V-grade predicates rsRowSumCheck, ptentShape, reproducesB, orthonormalCols
```
-/
namespace Amgcl

/-- result of a modelled call that may throw -/
inductive Outcome (α : Type) where
  | ok (a : α)
  /-- `throw error::empty_level()` -/
  | emptyLevel
  /-- `precondition(cond, msg)` failed (`std::runtime_error`) -/
  | precondition
  deriving Repr, DecidableEq

namespace Outcome
variable {α β : Type}
def bind (x : Outcome α) (f : α → Outcome β) : Outcome β :=
  match x with
  | ok a => f a
  | emptyLevel => emptyLevel
  | precondition => precondition
def map (f : α → β) (x : Outcome α) : Outcome β := x.bind (fun a => ok (f a))
instance : Monad Outcome where
  pure := Outcome.ok
  bind := Outcome.bind
end Outcome

/-- `plain_aggregates::undefined`, `plain_aggregates::removed` -/
abbrev aggrUndefined : Int := -1
abbrev aggrRemoved : Int := -2

/-- public members of `plain_aggregates` / `pointwise_aggregates` -/
structure Aggregates where
  count  : Nat
  /-- `strong_connection`, row-wise (one flag per stored entry of the matrix row) -/
  strong : Array (List Bool)
  id     : Array Int
  deriving Repr, DecidableEq

/-- the prolongation operator returned by `transfer_operators` (R = transpose P is formed by the caller) -/
structure Transfer (K : Type) where
  P : CRS K

/-- `pointwise_aggregates::params` + the `min_aggregate` constructor argument (`= nullspace.cols`).
`epsSq` is the value of the C++ local `eps_squared = prm.eps_strong * prm.eps_strong` (a `float` product
widened to the scalar type). -/
structure AggrParams (K : Type) where
  epsSq        : K
  blockSize    : Nat := 1
  minAggregate : Nat := 0

/-- `smoothed_aggregation::params` (null space not supplied).  `omegaScale` is the factor multiplied onto
`relax`: the `double` constant `2.0/3` when `estimate_spectral_radius = false`; when it is `true` (with
`power_iters = 0`) the factor is `(4.0/3 : double) / spectral_radius<true>(A, 0)` and `omegaScale` holds the
`double` constant `4.0/3`. -/
structure SAParams (K : Type) extends AggrParams K where
  relax      : K
  omegaScale : K
  estimateSpectralRadius : Bool := false

end Amgcl
