import Amgcl.Model.SmoothedAggregation
/-!
# `smoothed_aggregation::transfer_operators`: the two row loops with the marker array they START from as a parameter

`Model/SmoothedAggregation.lean` starts the fill loop from `std::vector<ptrdiff_t> marker(P->ncols, -1)`.  In the code
each OpenMP thread owns one marker array and processes an increasing sequence of rows with it, so a row is computed on
whatever the previous rows of the same thread left in the array.  Here the starting marker is arbitrary
(`smoothProlongationFrom`, `saCountsFrom`); `Properties/C10c.lean` proves that the result is the same for all
starting markers whose entries are below the first position / first row index (in particular for `-1` everywhere and for
the state left behind by any earlier rows), and exhibits a starting marker with a larger (uninitialised) entry for
which the row differs.
-/
namespace Amgcl
namespace Coarsening
variable {K : Type} [Add K] [Mul K] [Sub K] [Neg K] [Div K] [Zero K] [One K] [DecidableEq K]

/-- the filling loop (l.188-231) over the rows `is` (increasing), from marker `m0` and first free position `beg` -/
def smoothRowsFrom (omega : K) (A : CRS K) (S : Array (List Bool)) (Pt : CRS K) (is : List Nat) (m0 : Array Int)
    (beg : Nat) : Array Int × Nat × Array (Row K) :=
  is.foldl (fun (st : Array Int × Nat × Array (Row K)) i =>
      let res := saRow omega Pt i (A.row i) (S.getD i []) st.1 st.2.1
      (res.1, st.2.1 + res.2.size, st.2.2.push res.2.toList)) (m0, beg, #[])

def smoothProlongationFrom (omega : K) (A : CRS K) (S : Array (List Bool)) (Pt : CRS K) (m0 : Array Int) : CRS K :=
  { ncols := Pt.ncols, rows := (smoothRowsFrom omega A S Pt (List.range A.nrows) m0 0).2.2 }

/-- the counting loop (l.160-182) over the rows `is`, from marker `m0`: the row widths stored into `P->ptr[i+1]` -/
def saCountsFrom (A : CRS K) (S : Array (List Bool)) (Pt : CRS K) (is : List Nat) (m0 : Array Int) :
    Array Int × List Nat :=
  is.foldl (fun (st : Array Int × List Nat) i =>
      let res := saRowCount Pt i (A.row i) (S.getD i []) st.1
      (res.1, st.2 ++ [res.2])) (m0, [])

end Coarsening
end Amgcl
