import Amgcl.Model.Basic
/-!
# CRS copy / convert constructors (C08) — mirrors backend/builtin.hpp:76-118 (`crs(nrows, ncols, ptr_range,
col_range, val_range)`), 120-163 (`crs(const Matrix &A)`: row widths through the row iterator, scan, then copy
row by row) and the copy constructor 181-200.  All three copy the rows one by one in stored order.
-/
namespace Amgcl

/-- row-by-row copy, as the loops `for i < nrows: for a in row(A, i): col[head] = a.col(); val[head] = a.value()` -/
def crsCopy {K : Type} (A : CRS K) : CRS K :=
  { ncols := A.ncols, rows := Array.ofFn (n := A.nrows) (fun i => (A.row i.val).map (fun cv => (cv.1, cv.2))) }

end Amgcl
