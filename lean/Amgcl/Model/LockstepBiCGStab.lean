import Amgcl.Model.Lockstep
import Amgcl.Model.SolverBiCGStab
/-!
# `amgcl::solver::bicgstab::operator()` as a program over the solver instruction set (C12) — core Lean only

The statements of solver/bicgstab.hpp:158-247 in the instruction set of `Model/Lockstep.lean`, both preconditioning
sides, `check_after`, the two exits of a pass and the two `precondition`s.  A failed `precondition` (an exception in
C++) sets the flag `err` of the rank's scalar state; every later statement is guarded by `err = none`, so the
program state at the `throw` is the final state.  In the distributed semantics every rank evaluates the tests on its
own scalars: the theorem `lockstep_refines_serial` shows that all ranks throw together (or none does).

`Proofs/LockstepBiCGStab.lean` proves that the SERIAL semantics of this program is the statement-by-statement model
`Solver.BiCGStab.run` (C01/C05).
-/
namespace Amgcl.Lockstep.BiCGStab
open Amgcl Amgcl.Solver Amgcl.Lockstep

-- vector registers
def vF  : Nat := 0   -- rhs
def vX  : Nat := 1   -- x
def vR  : Nat := 2   -- *r
def vP  : Nat := 3   -- *p
def vV  : Nat := 4   -- *v
def vS  : Nat := 5   -- *s
def vT  : Nat := 6   -- *t
def vRh : Nat := 7   -- *rh
def vTT : Nat := 8   -- *T

/-- the scalar locals of `operator()` and the exception flag -/
structure S (K : Type) where
  first : Bool
  iter  : Nat
  rho1  : K
  rho2  : K
  alpha : K
  omega : K
  res   : K
  tmp   : K      -- the first inner product of `omega = ⟨s,t⟩ / ⟨t,t⟩`
  nrhs  : K      -- norm_rhs
  epsT  : K      -- eps
  out   : K      -- the returned residual
  err   : Option Err

variable {K : Type} [Add K] [Mul K] [Sub K] [Neg K] [Zero K] [One K] [Div K] [DecidableEq K] [LT K] [DecidableLT K]

/-- `preconditioner::spmv(pside, P, A, F, X, T)` (precond_side.hpp:75-92) -/
def pspmvProg (side : Side) (F X T : Nat) : Prog K (S K) :=
  match side with
  | .left  => seqs [.prim (.spmv (fun _ => 1) (R F) (fun _ => 0) (R T)), .prim (.precond (R T) (R X))]
  | .right => seqs [.prim (.precond (R F) (R T)), .prim (.spmv (fun _ => 1) (R T) (fun _ => 0) (R X))]

/-- `x += c * (pside == left ? L : *T)` (bicgstab.hpp:213-217, 228-232) -/
def xUpdate (side : Side) (c : S K → K) (L : Nat) : Prog K (S K) :=
  match side with
  | .left  => .prim (.axpby c (R L) (fun _ => 1) (R vX))
  | .right => .prim (.axpby c (R vTT) (fun _ => 1) (R vX))

/-- `… = norm(v)`: `sqrt(math::norm(inner_product(v, v)))` into `res` -/
def resNorm (sqrt : K → K) (v : Nat) : Prog K (S K) :=
  .prim (.ip (fun e w => { e with res := sqrt (Solver.absK w) }) (R v) (R v))

/-- bicgstab.hpp:222-235: the `omega` half step -/
def fullProg (side : Side) (sqrt : K → K) : Prog K (S K) := seqs [
  pspmvProg side vS vT vTT,                                                  -- preconditioner::spmv(pside, P, A, *s, *t, *T)
  .prim (.ip (fun e w => { e with tmp := w }) (R vS) (R vT)),
  .prim (.ip (fun e w => { e with omega := e.tmp / w }) (R vT) (R vT)),      -- omega = ⟨s,t⟩ / ⟨t,t⟩
  .ite (fun e => decide (e.omega = 0))
    (.prim (.sset (fun e => { e with err := some .zeroOmega })))             -- precondition(!is_zero(omega))
    (seqs [
      xUpdate side (fun e => e.omega) vS,                                    -- axpby(omega, *s | *T, one, x)
      .prim (.axpbypcz (fun _ => 1) (R vS) (fun e => -e.omega) (R vT) (fun _ => 0) (R vR)),
      resNorm sqrt vR,                                                       -- res = norm(*r)
      .prim (.sset (fun e => { e with iter := e.iter + 1 }))])]              -- ++iter

/-- bicgstab.hpp:209-240: from `preconditioner::spmv(…, *p, *v, *T)` to the end of the pass -/
def halfProg (side : Side) (sqrt : K → K) : Prog K (S K) := seqs [
  pspmvProg side vP vV vTT,                                                  -- preconditioner::spmv(pside, P, A, *p, *v, *T)
  .prim (.ip (fun e w => { e with alpha := e.rho1 / w }) (R vV) (R vRh)),    -- alpha = rho1 / inner_product(*v, *rh)
  xUpdate side (fun e => e.alpha) vP,                                        -- axpby(alpha, *p | *T, one, x)
  .prim (.axpbypcz (fun _ => 1) (R vR) (fun e => -e.alpha) (R vV) (fun _ => 0) (R vS)),
  resNorm sqrt vS,                                                           -- if ((res = norm(*s)) > eps) {
  .ite (fun e => decide (e.epsT < e.res))
    (fullProg side sqrt)
    (.prim (.sset (fun e => { e with iter := e.iter + 1 })))]                -- ++iter

/-- bicgstab.hpp:196-240, one pass through the loop body including `++iter` -/
def bodyProg (side : Side) (sqrt : K → K) : Prog K (S K) := seqs [
  .prim (.sset (fun e => { e with rho2 := e.rho1 })),                        -- rho2 = rho1
  .prim (.ip (fun e w => { e with rho1 := w }) (R vR) (R vRh)),              -- rho1 = inner_product(*r, *rh)
  .ite (fun e => e.first)                                                    -- if (first)
    (seqs [.prim (.copy (R vR) (R vP)),                                      --   copy(*r, *p)
           .prim (.sset (fun e => { e with first := false })),               --   first = false
           halfProg side sqrt])
    (.ite (fun e => decide (e.rho2 = 0))
      (.prim (.sset (fun e => { e with err := some .zeroRho })))             --   precondition(!is_zero(rho2))
      (seqs [                                                                --   beta = (rho1 * alpha) / (rho2 * omega)
        .prim (.axpbypcz (fun _ => 1) (R vR)                                 --   axpbypcz(one, *r, -beta * omega, *v, beta, *p)
          (fun e => (-((e.rho1 * e.alpha) / (e.rho2 * e.omega))) * e.omega) (R vV)
          (fun e => (e.rho1 * e.alpha) / (e.rho2 * e.omega)) (R vP)),
        halfProg side sqrt]))]

/-- bicgstab.hpp:178-193: the statements between the prologue and the loop -/
def preProg (prm : Solver.BiCGStab.Params K) (sqrt : K → K) : Prog K (S K) := seqs [
  (match prm.pside with
   | .left  => seqs [.prim (.residual (R vF) (R vX) (R vRh)),                -- residual(rhs, A, x, *rh)
                     .prim (.precond (R vRh) (R vR))]                        -- P.apply(*rh, *r)
   | .right => .prim (.residual (R vF) (R vX) (R vR))),                      -- residual(rhs, A, x, *r)
  .prim (.copy (R vR) (R vRh)),                                              -- copy(*r, *rh)
  .prim (.sset (fun e => { e with epsT := Solver.maxK (e.nrhs * prm.tol) prm.abstol })),   -- eps = max(norm_rhs * tol, abstol)
  (if prm.checkAfter then .prim (.sset (fun e => { e with res := Solver.two * e.epsT }))   -- res = check_after ? 2 * eps
   else resNorm sqrt vR),                                                    --                   : norm(*r)
  .prim (.sset (fun e => { e with rho1 := 0, rho2 := 0, alpha := 0, omega := 0, iter := 0, first := true }))]

/-- bicgstab.hpp:242-246: the statements after the loop (not reached when a `precondition` threw) -/
def postProg (prm : Solver.BiCGStab.Params K) (sqrt : K → K) : Prog K (S K) :=
  .ite (fun e => e.err.isNone)
    (seqs [
      (if prm.checkAfter then .ite (fun e => e.iter == 0) (resNorm sqrt vR) .skip    -- if (check_after && iter == 0) res = norm(*r)
       else .skip),
      .prim (.sset (fun e => { e with out := e.res / e.nrhs }))])            -- return (iter, res / norm_rhs)
    .skip

/-- bicgstab.hpp:178-246 after the prologue -/
def mainProg (prm : Solver.BiCGStab.Params K) (sqrt : K → K) : Prog K (S K) := seqs [
  preProg prm sqrt,
  .loop prm.maxiter (fun e => e.err.isNone && decide (e.epsT < e.res))       -- for(first = true; res > eps && iter < maxiter; ++iter)
    (bodyProg prm.pside sqrt),
  postProg prm sqrt]

/-- the whole `operator()` -/
def prog (prm : Solver.BiCGStab.Params K) (sqrt : K → K) (eps : K) : Prog K (S K) :=
  .seq (.prim (.ip (fun e w => { e with nrhs := sqrt (Solver.absK w) }) (R vF) (R vF)))   -- norm_rhs = norm(rhs)
    (.ite (fun e => decide (e.nrhs < eps))
      (if prm.nsSearch then .seq (.prim (.sset (fun e => { e with nrhs := 1 }))) (mainProg prm sqrt)   -- norm_rhs = 1
       else seqs [.prim (.clear (R vX)),                                      -- clear(x); return (0, norm_rhs)
                  .prim (.sset (fun e => { e with iter := 0, out := e.nrhs }))])
      (mainProg prm sqrt))

/-- the program state of a call `S(A, P, rhs, x)` on a solver with work vectors `ws` -/
def initState (ws : Solver.BiCGStab.Work K) (f x0 : Vec K) : St K (S K) :=
  { vec := fun v => if v = vF then f else if v = vX then x0 else if v = vR then ws.r else if v = vP then ws.p
                    else if v = vV then ws.v else if v = vS then ws.s else if v = vT then ws.t
                    else if v = vRh then ws.rh else ws.T,
    scal := ⟨true, 0, 0, 0, 0, 0, 0, 0, 0, 0, 0, none⟩ }

/-- what `operator()` returns (or throws), read off a rank's scalars -/
def outOf (e : S K) : Except Err (Nat × K) :=
  match e.err with
  | none => .ok (e.iter, e.out)
  | some x => .error x

/-- the work vectors in a program state -/
def workOf (vec : Nat → Vec K) : Solver.BiCGStab.Work K :=
  ⟨vec vR, vec vP, vec vV, vec vS, vec vT, vec vRh, vec vTT⟩

end Amgcl.Lockstep.BiCGStab
