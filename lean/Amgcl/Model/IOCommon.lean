/-!
# Shared pieces of the file-I/O models (C19) — core Lean only

* bytes are natural numbers (`Byte := Nat`, a real byte is `< 256`; every model function is total on all
  naturals, so a theorem "for every `List Byte`" covers every byte string; `Nat` keeps kernel evaluation
  (`decide`/`rfl` counterexamples) fast),
* `Outcome`: what a reader call can end in — a returned object, an exception (`error`: every `precondition`,
  `std::bad_alloc`, `std::length_error`; message texts are not modelled), or an out-of-bounds memory access
  (`oob`: undefined behaviour in C++, a sanitizer abort in the harness),
* `RawCRS`: the `ptr/col/val` triple *as the reader hands it to the caller* (signed entries, so that invalid
  results are representable) with the structural-validity predicate `RawCRS.WF`,
* `sortSeg`: `amgcl::detail::sort_row` applied to the segment `[beg, beg+len)` of the `col/val` arrays.
-/
namespace Amgcl.IO

/-- a byte; notation (not a definition) so that numerals in byte positions are plain `Nat` numerals -/
scoped notation "Byte" => Nat
abbrev Bytes := List Nat

inductive Outcome (α : Type) where
  | ok (a : α)
  | error
  | oob
  deriving DecidableEq, Repr

namespace Outcome
variable {α β : Type}
@[inline] def bind (x : Outcome α) (f : α → Outcome β) : Outcome β :=
  match x with
  | ok a => f a
  | error => error
  | oob => oob
instance : Monad Outcome where
  pure := ok
  bind := bind
/-- `precondition(cond, …)`: throw unless `cond` -/
@[inline] def require (c : Bool) : Outcome Unit := if c then ok () else error
/-- a failed stream operation (`none`) inside a `precondition(…)` -/
@[inline] def ofOption : Option α → Outcome α
  | some a => ok a
  | none => error
/-- a bounds-checked memory access: `none` is an out-of-range index -/
@[inline] def ofAccess : Option α → Outcome α
  | some a => ok a
  | none => oob
def isOk : Outcome α → Bool
  | ok _ => true
  | _ => false
end Outcome

/-- the three arrays a sparse reader returns, plus the sizes it reports.  `ptr`, `col` are the C++ signed index
vectors verbatim. -/
structure RawCRS (V : Type) where
  nrows : Nat
  ncols : Nat
  ptr : List Int
  col : List Int
  val : List V
  deriving DecidableEq, Repr

/-- `ptr` is monotone (adjacent entries non-decreasing) -/
def monotone : List Int → Bool
  | [] => true
  | [_] => true
  | a :: b :: t => decide (a ≤ b) && monotone (b :: t)

/-- structure that does not involve a column count: `ptr` has `nrows+1` entries, starts at 0, is monotone, and
its last entry is the common length of `col` and `val`.  (The binary format stores no column count: there the
column indices are payload like the values.) -/
def RawCRS.PtrWF {V} (A : RawCRS V) : Prop :=
  A.ptr.length = A.nrows + 1 ∧ A.ptr.head? = some 0 ∧ monotone A.ptr = true ∧
  A.ptr.getLast? = some (A.col.length : Int) ∧ A.val.length = A.col.length

/-- full structural validity of a CRS matrix with a known column count -/
def RawCRS.WF {V} (A : RawCRS V) : Prop :=
  A.PtrWF ∧ ∀ c ∈ A.col, 0 ≤ c ∧ c < (A.ncols : Int)

instance {V} (A : RawCRS V) : Decidable A.PtrWF := by unfold RawCRS.PtrWF; infer_instance
instance {V} (A : RawCRS V) : Decidable A.WF := by unfold RawCRS.WF; infer_instance

/-- `ptr` array of consecutive rows with the given lengths, starting at offset `a` -/
def ptrFrom (a : Int) : List Nat → List Int
  | [] => [a]
  | k :: t => a :: ptrFrom (a + k) t

/-- the CRS arrays of a list of rows (each row a list of `(column, value)` in stored order) -/
def RawCRS.ofRows {V} (nrows ncols : Nat) (rows : List (List (Int × V))) : RawCRS V :=
  ⟨nrows, ncols, ptrFrom 0 (rows.map List.length), rows.flatten.map (·.1), rows.flatten.map (·.2)⟩

/-- outcome predicate "throws, or returns something satisfying `P`; never out of bounds" -/
def Outcome.Safe {α} (P : α → Prop) : Outcome α → Prop
  | .ok a => P a
  | .error => True
  | .oob => False

/-- a dense row-major array as `read_dense` / the dense `mm_reader` return it -/
structure RawDense (V : Type) where
  nrows : Nat
  ncols : Nat
  val : List V
  deriving DecidableEq, Repr

def RawDense.WF {V} (D : RawDense V) : Prop := D.val.length = D.nrows * D.ncols
instance {V} (D : RawDense V) : Decidable D.WF := by unfold RawDense.WF; infer_instance

/-! ### `amgcl::detail::sort_row` (detail/sort_row.hpp:37-55)

Insertion sort by column, scanning from the right while `col[i] > c` (strict: equal columns keep their order). -/
section sort
variable {V : Type}

/-- one outer-loop step: insert `x` into the already processed prefix `l` behind every element whose column is
`≤ x.1`, by walking from the right end over the elements with a larger column. -/
def insertFromRight (x : Int × V) (l : List (Int × V)) : List (Int × V) :=
  let r := l.reverse
  (r.dropWhile (fun y => decide (x.1 < y.1))).reverse ++ x :: (r.takeWhile (fun y => decide (x.1 < y.1))).reverse

def sortRow (l : List (Int × V)) : List (Int × V) :=
  l.foldl (fun acc x => insertFromRight x acc) []

/-- `sort_row(&col[beg], &val[beg], len)` on the arrays `cv` (columns and values zipped; the two C++ vectors
have the same length at every call site).  For `len ≤ 1` the loop body never runs and no memory is touched;
otherwise every element of `[beg, beg+len)` is read, so the call is in bounds iff `0 ≤ beg` and
`beg + len ≤ size`. -/
def sortSeg (cv : List (Int × V)) (beg len : Int) : Option (List (Int × V)) :=
  if len ≤ 1 then some cv
  else if 0 ≤ beg ∧ beg + len ≤ (cv.length : Int) then
    let b := beg.toNat
    let n := len.toNat
    some (cv.take b ++ sortRow ((cv.drop b).take n) ++ cv.drop (b + n))
  else none

/-- the row loop `for i in 0 … chunk-1: sort_row(&col[ptr[i]], &val[ptr[i]], ptr[i+1]-ptr[i])`;
`narrow` is the conversion of the length to the `int` parameter of `sort_row`. -/
def sortRows (narrow : Int → Int) : List Int → List (Int × V) → Option (List (Int × V))
  | a :: b :: t, cv => do
      let cv' ← sortSeg cv a (narrow (b - a))
      sortRows narrow (b :: t) cv'
  | _, cv => some cv

end sort

/-- `if (row_beg < 0) row_beg = 0; if (row_end < 0) row_end = n; precondition(row_beg >= 0 && row_end <= n)`
(repaired code: `&& row_beg <= row_end`); `none` = the precondition fails -/
def rowRange (fixed : Bool) (n rowBeg rowEnd : Int) : Option (Int × Int) :=
  let b := if rowBeg < 0 then 0 else rowBeg
  let e := if rowEnd < 0 then n else rowEnd
  if decide (0 ≤ b) && decide (e ≤ n) && (!fixed || decide (b ≤ e)) then some (b, e) else none

/-- conversion `ptrdiff_t → int` (two's complement truncation) -/
def wrap32 (x : Int) : Int :=
  let u := x % 4294967296
  if u < 2147483648 then u else u - 4294967296

end Amgcl.IO
