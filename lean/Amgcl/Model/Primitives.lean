import Amgcl.Model.Basic
/-!
# Backend primitives (C07) — mirrors backend/builtin.hpp:1081-1342 and
backend/detail/matrix_ops.hpp:47-113

Every primitive with an output coefficient has the two branches of the C++ code
(`if (!math::is_zero(beta)) … else …`); the `else` branch never reads the old
output.  This matters for carriers in which `0 * y ≠ 0` (IEEE NaN/Inf, the
harness' poisoned rationals): the `*_zero_indep` theorems are therefore stated
for an arbitrary carrier with arbitrary operations.
-/
namespace Amgcl
variable {K : Type} [Add K] [Mul K] [Sub K] [Zero K] [DecidableEq K]

/-- `sum = 0; for a in row: sum += a.value() * x[a.col()]` -/
def rowDot (r : Row K) (x : Vec K) : K :=
  r.foldl (fun s cv => s + cv.2 * x.getD cv.1 0) 0

/-- `backend::spmv(alpha, A, x, beta, y)`: `y = alpha*A*x + beta*y` -/
def spmv (α : K) (A : CRS K) (x : Vec K) (β : K) (y : Vec K) : Vec K :=
  if β = 0 then Array.ofFn (n := A.nrows) (fun i => α * rowDot (A.row i) x)
  else Array.ofFn (n := A.nrows) (fun i => α * rowDot (A.row i) x + β * y.getD i 0)

/-- `backend::residual(f, A, x, r)`: `r = f - A*x` -/
def residual (f : Vec K) (A : CRS K) (x : Vec K) : Vec K :=
  Array.ofFn (n := A.nrows) (fun i => f.getD i 0 - rowDot (A.row i) x)

/-- `backend::axpby(a, x, b, y)`: `y = a*x + b*y` -/
def axpby (a : K) (x : Vec K) (b : K) (y : Vec K) : Vec K :=
  if b = 0 then Array.ofFn (n := x.size) (fun i => a * x.getD i 0)
  else Array.ofFn (n := x.size) (fun i => a * x.getD i 0 + b * y.getD i 0)

/-- `backend::axpbypcz(a, x, b, y, c, z)`: `z = a*x + b*y + c*z` -/
def axpbypcz (a : K) (x : Vec K) (b : K) (y : Vec K) (c : K) (z : Vec K) : Vec K :=
  if c = 0 then Array.ofFn (n := x.size) (fun i => a * x.getD i 0 + b * y.getD i 0)
  else Array.ofFn (n := x.size) (fun i => a * x.getD i 0 + b * y.getD i 0 + c * z.getD i 0)

/-- `backend::vmul(a, x, y, b, z)`: `z = a*x.*y + b*z` -/
def vmul (a : K) (x y : Vec K) (b : K) (z : Vec K) : Vec K :=
  if b = 0 then Array.ofFn (n := x.size) (fun i => a * x.getD i 0 * y.getD i 0)
  else Array.ofFn (n := x.size) (fun i => a * x.getD i 0 * y.getD i 0 + b * z.getD i 0)

/-- `backend::copy(x, y)` -/
def vcopy (x : Vec K) : Vec K := Array.ofFn (n := x.size) (fun i => x.getD i 0)

/-- `backend::clear(x)` -/
def vclear (n : Nat) : Vec K := Array.ofFn (n := n) (fun _ => (0 : K))

/-- the tail loops of `lin_comb` (interface.hpp:437-442): pairs through
`axpbypcz(c[i], v[i], c[i+1], v[i+1], 1, y)`, a last single one through `axpby`. -/
def linCombTail [One K] : List (K × Vec K) → Vec K → Vec K
  | (c1, v1) :: (c2, v2) :: rest, y => linCombTail rest (axpbypcz c1 v1 c2 v2 1 y)
  | [(c, v)], y => axpby c v 1 y
  | [], y => y

/-- `backend::lin_comb(n, c, v, alpha, y)` (interface.hpp:435-443), `n ≥ 1`. -/
def linComb [One K] (cvs : List (K × Vec K)) (α : K) (y : Vec K) : Vec K :=
  match cvs with
  | (c, v) :: rest => linCombTail rest (axpby c v α y)
  | [] => y

/-- one Kahan step of `inner_product_impl::serial` (builtin.hpp:1129-1134);
the scalar product is linear in the first and conjugate-linear in the second
argument, `conj` is the identity for real carriers. -/
@[inline] def kahanStep (conj : K → K) (sc : K × K) (xy : K × K) : K × K :=
  let d := xy.1 * conj xy.2 - sc.2
  let t := sc.1 + d
  ((t), (t - sc.1) - d)

/-- `inner_product_impl::serial` -/
def innerProductSerial (conj : K → K) (x y : Vec K) : K :=
  ((x.toList.zip y.toList).foldl (kahanStep conj) (0, 0)).1

/-- libgomp static schedule without chunk size: thread `t` of `nt` gets the
index interval `[lo, hi)` of `0..n`. -/
def staticChunk (n nt t : Nat) : Nat × Nat :=
  let q := n / nt
  let r := n % nt
  if t < r then (t * (q + 1), t * (q + 1) + (q + 1))
  else (t * q + r, t * q + r + q)

/-- `inner_product_impl::parallel` with `nt` threads: each thread runs the Kahan
loop on its static chunk, the partial sums are added in thread order. -/
def innerProductParallel (conj : K → K) (nt : Nat) (x y : Vec K) : K :=
  let xy := x.toList.zip y.toList
  (List.range nt).foldl (fun acc t =>
    let ch := staticChunk x.size nt t
    acc + (((xy.drop ch.1).take (ch.2 - ch.1)).foldl (kahanStep conj) (0, 0)).1) 0

/-- `inner_product_impl::get`: parallel form iff more than one thread -/
def innerProduct (conj : K → K) (nt : Nat) (x y : Vec K) : K :=
  if nt > 1 then innerProductParallel conj nt x y else innerProductSerial conj x y

end Amgcl
