import Amgcl.Model.DefinedPasses
/-!
# Cell-level models, fourth batch (C10): constructions that only STORE (no cell is loaded while the arrays are built)

`fpp` and `scatter` of `preconditioner::cpr` / `cpr_drs`: `set_size(n, m); set_nonzeros(k); ptr[0] = 0;` then a loop nest
that stores into `ptr`, `col`, `val` at indices computed from the loop counters alone.  Such a construction is the
list of its stores, in loop order, applied to the fresh allocation.
-/
namespace Amgcl
namespace Defined
variable {K : Type}

/-- a sequence of stores `(index, value)` applied in order -/
def applyStores {α : Type} (S : List (Nat × α)) (a : Array (Cell α)) : Array (Cell α) :=
  S.foldl (fun a s => store a s.1 s.2) a

/-! ## `fpp` (cpr.hpp:205-207/224-262, 417-419/446-462, 505-527; cpr_drs.hpp:234-236/313-331, …)

```
fpp->set_size(np, N); fpp->set_nonzeros(np * B); fpp->ptr[0] = 0;
for ip < np: { ik = ip * B;
    for i < B: fpp->col[ik + i] = ik + i;
    fpp->ptr[ip + 1] = ik + B;
    (cpr)     if the block row has a diagonal block: invert(v, &fpp->val[ik])   // B values
    (cpr_drs) for i < B: fpp->val[ik + i] = delta                               // always
}
``` -/

def fppPtrStores (np B : Nat) : List (Nat × Nat) := (0, 0) :: (List.range np).map fun ip => (ip + 1, ip * B + B)
def fppColStores (np B : Nat) : List (Nat × Nat) :=
  (List.range np).flatMap fun ip => (List.range B).map fun i => (ip * B + i, ip * B + i)
def fppValStores (np B : Nat) (hasDiag : Nat → Bool) (dval : Nat → Nat → K) : List (Nat × K) :=
  (List.range np).flatMap fun ip => if hasDiag ip then (List.range B).map fun i => (ip * B + i, dval ip i) else []

def fppCells (np B : Nat) (hasDiag : Nat → Bool) (dval : Nat → Nat → K) (jp jc : Array Nat) (jv : Array K) : CrsCells K :=
  { ptr := applyStores (fppPtrStores np B) (alloc jp),
    col := applyStores (fppColStores np B) (alloc jc),
    val := applyStores (fppValStores np B hasDiag dval) (alloc jv),
    ok := true }

/-! ## `scatter` (cpr.hpp:310-312/371-383, 422-424/447-452; same in cpr_drs.hpp)

```
scatter->set_size(n, np); scatter->set_nonzeros(np); scatter->ptr[0] = 0;
for ip < np: { scatter->col[ip] = ip; scatter->val[ip] = 1; for i < B: scatter->ptr[ip*B + i + 1] = ip + 1; }
for (i = N; i < n; ++i) scatter->ptr[i+1] = scatter->ptr[i];        // N = np * B; LOADS ptr[i]
``` -/

def scatterPtrStores (np B : Nat) : List (Nat × Nat) :=
  (0, 0) :: (List.range np).flatMap fun ip => (List.range B).map fun i => (ip * B + i + 1, ip + 1)

/-- `for (i = N; i < n; ++i) ptr[i+1] = ptr[i]` -/
def carryPass (N cnt : Nat) (st : Array (Cell Nat) × Bool) : Array (Cell Nat) × Bool :=
  (List.range' N cnt).foldl (fun (st : Array (Cell Nat) × Bool) i =>
    let x := rd st.1 i 0
    (store st.1 (i + 1) x.1, st.2 && x.2)) st

def scatterCells [One K] (n np B : Nat) (jp jc : Array Nat) (jv : Array K) : CrsCells K :=
  let p := carryPass (np * B) (n - np * B) (applyStores (scatterPtrStores np B) (alloc jp), true)
  { ptr := p.1,
    col := applyStores ((List.range np).map fun ip => (ip, ip)) (alloc jc),
    val := applyStores ((List.range np).map fun ip => (ip, (1 : K))) (alloc jv),
    ok := p.2 }

/-! ## `App` of the block-valued `cpr::init` / `cpr_drs::init` (cpr.hpp:437-477)

```
App->set_size(np, np, true);
for i < np: { w = 0; for j in row i of K: if (K->col[j] < np) ++w;  App->ptr[i+1] = w; }
App->set_nonzeros(App->scan_row_sizes());
for i < np: { head = App->ptr[i]; for j in row i of K: { if (K->col[j] >= np) continue;
                                   App->col[head] = K->col[j]; App->val[head] = app; ++head; } }
``` -/

/-- the width loop -/
def appWidth {V : Type} (np : Nat) (r : List (Nat × V)) : Nat := r.foldl (fun w cv => if cv.1 < np then w + 1 else w) 0

/-- the entries the fill loop stores; `app cv` = the pressure value computed from the block -/
def appFillRow {V : Type} (np : Nat) (app : Nat × V → K) (r : List (Nat × V)) : Row K :=
  r.filterMap fun cv => if cv.1 < np then some (cv.1, app cv) else none

def cprAppCells {V : Type} (np : Nat) (Krows : Array (List (Nat × V))) (app : Nat → Nat × V → K) (jp : Array Nat)
    (jc : Nat → Array Nat) (jv : Nat → Array K) : CrsCells K :=
  twoPassW (Array.ofFn (n := np) fun i => appFillRow np (app i.val) (Krows.getD i.val []))
    (fun i => appWidth np (Krows.getD i [])) jp jc jv

end Defined
end Amgcl
