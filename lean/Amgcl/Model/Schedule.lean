import Amgcl.Model.Primitives
/-!
# Level scheduling of the parallel Gauss–Seidel sweep and of the ILU triangular solves (C09)

Mirrors `relaxation/gauss_seidel.hpp` (`parallel_sweep`: constructor l.204-319, `sweep` l.321-356,
`serial_sweep` l.153-183) and `relaxation/detail/ilu_solve.hpp` (`sptr_solve`: constructor l.276-388,
`solve` l.390-418, `serial_solve` l.231-249).

* `levels…`   the level of every row, computed by the loops of step 1 of the two constructors
* `order`, `start`, `tasks nt`   steps 2 and 3 (rows sorted by level; each level cut into `nt` chunks)
* `gsRow`, `iluRow`   the body of the row loop of `sweep` / `solve`
* `Interleave`, `Exec sk`   the row-update sequences a loop/pragma skeleton `sk` admits: the per-thread
  task lists are interleaved arbitrarily, and — iff the skeleton has `#pragma omp barrier` after the row
  loop inside the task loop — no thread starts level `l+1` before every thread has finished level `l`
* `Skeleton`, `expectedSkeleton`   the loop/pragma skeleton as text; `tools/sync_skeleton.py` re-extracts it
  from the sources on every run (`Amgcl/Generated/SyncSkeleton.lean`, obligation `skeleton_ok`)

`gsLevels` is the level function of the *repaired* constructor (`repo_patches/fix_gs_parallel_levels.patch`);
`gsLevelsAsIs` is the one of the unpatched tree (gauss_seidel.hpp:220-237), kept for the counterexample.
Core Lean only.
-/
namespace Amgcl.Sched

/-- sparsity pattern: row `i` ↦ its column indices in stored order -/
abbrev Pattern := Array (List Nat)

def pattern {K : Type} (A : CRS K) : Pattern := (A.rows.toList.map (fun r => r.map Prod.fst)).toArray

/-- every stored column index is a row index (square matrix) -/
def Pattern.wfb (A : Pattern) : Bool := A.toList.all (fun r => r.all (fun c => decide (c < A.size)))

/-! ## 1. levels -/

/-- the `k`-th value of `i` in `for(i = beg; i != end; i += inc)` with
`beg = fwd ? 0 : n-1`, `inc = fwd ? 1 : -1` -/
def rowAt (fwd : Bool) (n k : Nat) : Nat := if fwd then k else n - 1 - k

/-- the rows in the order in which the (serial) loop visits them -/
def rowOrder (fwd : Bool) (n : Nat) : List Nat := (List.range n).map (rowAt fwd n)

/-- row `c` is visited before row `i`.  The Gauss–Seidel constructor tests the negation:
`if (forward) { if (c >= i) continue; } else { if (c <= i) continue; }` -/
def before (fwd : Bool) (c i : Nat) : Bool := if fwd then decide (c < i) else decide (i < c)

/-- `l = level[i]; for c in row i: if (take c i) l = max(l, level[c]+1)` -/
def rowLevel (take : Nat → Nat → Bool) (level : Array Nat) (i : Nat) (row : List Nat) : Nat :=
  row.foldl (fun l c => if take c i then max l (level.getD c 0 + 1) else l) (level.getD i 0)

/-- (repair only) `for c in row i: if (raise c i) level[c] = max(level[c], l+1)` -/
def raiseRow (raise : Nat → Nat → Bool) (i l : Nat) (row : List Nat) (level : Array Nat) : Array Nat :=
  row.foldl (fun lv c => if raise c i then lv.setIfInBounds c (max (lv.getD c 0) (l + 1)) else lv) level

/-- one iteration of the outer loop of step 1 -/
def levelStep (take raise : Nat → Nat → Bool) (A : Pattern) (level : Array Nat) (i : Nat) : Array Nat :=
  let row := A.getD i []
  let l := rowLevel take level i row
  raiseRow raise i l row (level.setIfInBounds i l)

/-- step 1 of both constructors, parametrised by which entries are looked at -/
def levelsGen (take raise : Nat → Nat → Bool) (fwd : Bool) (A : Pattern) : Array Nat :=
  (rowOrder fwd A.size).foldl (levelStep take raise A) (Array.replicate A.size 0)

/-- `sptr_solve<lower>` (ilu_solve.hpp:288-301): every stored entry is looked at -/
def iluLevels (lower : Bool) (A : Pattern) : Array Nat :=
  levelsGen (fun _ _ => true) (fun _ _ => false) lower A

/-- `parallel_sweep<forward>` on the **unpatched** tree (gauss_seidel.hpp:215-237): entries on the far side of
the diagonal (and the diagonal) are skipped -/
def gsLevelsAsIs (fwd : Bool) (A : Pattern) : Array Nat :=
  levelsGen (before fwd) (fun _ _ => false) fwd A

/-- `parallel_sweep<forward>` with `fix_gs_parallel_levels.patch`: after `level[i] = l` the rows `c` that are
visited later and whose unknown row `i` reads are pushed to a level above `l` -/
def gsLevels (fwd : Bool) (A : Pattern) : Array Nat :=
  levelsGen (before fwd) (fun c i => before fwd i c) fwd A

/-- `nlev = max(nlev, l+1)` over all rows -/
def nlev (level : Array Nat) : Nat := level.foldl (fun m l => max m (l + 1)) 0

/-! ## 2. order -/

/-- the rows of one level, increasing (the counting sort of step 2 is stable) -/
def levelRows (level : Array Nat) (lev : Nat) : List Nat :=
  (List.range level.size).filter (fun i => level.getD i 0 == lev)

/-- `order`: rows sorted by level, ties by row number -/
def order (level : Array Nat) : List Nat := (List.range (nlev level)).flatMap (levelRows level)

/-- `start[lev]` after the rotation: number of rows whose level is below `lev` -/
def start (level : Array Nat) (lev : Nat) : Nat :=
  ((List.range level.size).filter (fun i => decide (level.getD i 0 < lev))).length

/-- step 2 as the code does it (histogram, partial sums, scatter) — executable cross-check of `order`/`start`
used by the driver on every case -/
def countingSort (level : Array Nat) : List Nat × List Nat :=
  let n := level.size
  let nl := nlev level
  let hist : Array Nat := (List.range n).foldl
    (fun s i => s.setIfInBounds (level.getD i 0 + 1) (s.getD (level.getD i 0 + 1) 0 + 1)) (Array.replicate (nl + 1) 0)
  let psum : Array Nat := ((List.range (nl + 1)).foldl
    (fun (acc : Array Nat × Nat) k => let s := acc.2 + hist.getD k 0; (acc.1.push s, s)) (#[], 0)).1
  let (ord, st) := (List.range n).foldl
    (fun (os : Array Nat × Array Nat) i =>
      let l := level.getD i 0
      (os.1.setIfInBounds (os.2.getD l 0) i, os.2.setIfInBounds l (os.2.getD l 0 + 1)))
    (Array.replicate n 0, psum)
  -- std::rotate(start.begin(), start.end() - 1, start.end()); start[0] = 0;
  (ord.toList, 0 :: (st.toList.take nl))

/-! ## 3. tasks -/

/-- `chunk_size = (lev_size + nthreads - 1) / nthreads` -/
def chunkSize (m nt : Nat) : Nat := (m + nt - 1) / nt
/-- `beg = min(tid * chunk_size, lev_size)` -/
def chunkBeg (m nt tid : Nat) : Nat := min (tid * chunkSize m nt) m
/-- `end = min(beg + chunk_size, lev_size)` -/
def chunkEnd (m nt tid : Nat) : Nat := min (chunkBeg m nt tid + chunkSize m nt) m

/-- the rows `order[start[lev]+beg .. start[lev]+end)` of thread `tid` in a level whose rows are `rows` -/
def taskRows (rows : List Nat) (nt tid : Nat) : List Nat :=
  (rows.drop (chunkBeg rows.length nt tid)).take (chunkEnd rows.length nt tid - chunkBeg rows.length nt tid)

/-- `tasks[tid][lev]` as the list of rows of that task -/
def tasks (level : Array Nat) (nt : Nat) : List (List (List Nat)) :=
  (List.range nt).map fun tid => (List.range (nlev level)).map fun lev => taskRows (levelRows level lev) nt tid

/-- the tasks of one level, by thread -/
def levelTasks (tk : List (List (List Nat))) (lev : Nat) : List (List Nat) := tk.map (fun t => t.getD lev [])

/-- serial fallback: `is_serial(prm.serial || num_threads() < 4)` (gauss_seidel.hpp:84),
`params() : serial(num_threads() < 4)` (ilu_solve.hpp:147) -/
def serialFallback (nt : Nat) : Bool := decide (nt < 4)

/-- the thread-local tables of step 4 derived from `tasks`: `(beg,end)` per task (local numbering), `ord[tid]` -/
def localTasks (t : List (List Nat)) : List (Nat × Nat) :=
  (t.foldl (fun (acc : List (Nat × Nat) × Nat) rows => (acc.1 ++ [(acc.2, acc.2 + rows.length)], acc.2 + rows.length)) ([], 0)).1

/-! ## 4. row updates -/
section rows
variable {K : Type} [Add K] [Mul K] [Sub K] [Zero K] [One K] [Div K]

/-- the scan of one row in `sweep` / `serial_sweep`: `D = identity; X = rhs[i]; for (c,v): if c == i then D = v
else X -= v * x[c]` -/
def gsScan (row : Row K) (rhs x : Vec K) (i : Nat) : K × K :=
  row.foldl (fun (DX : K × K) cv => if cv.1 = i then (cv.2, DX.2) else (DX.1, DX.2 - cv.2 * x.getD cv.1 0))
    (1, rhs.getD i 0)

/-- new value of `x[i]`: `math::inverse(D) * X` -/
def gsVal (A : CRS K) (rhs x : Vec K) (i : Nat) : K :=
  let DX := gsScan (A.row i) rhs x i
  (1 / DX.1) * DX.2

/-- body of the row loop (gauss_seidel.hpp:329-347 and 167-181 — the same text) -/
def gsRow (A : CRS K) (rhs : Vec K) (x : Vec K) (i : Nat) : Vec K := x.setIfInBounds i (gsVal A rhs x i)

/-- `serial_sweep(A, rhs, x, forward)` -/
def gsSerialSweep (fwd : Bool) (A : CRS K) (rhs x : Vec K) : Vec K :=
  (rowOrder fwd A.nrows).foldl (gsRow A rhs) x

/-- new value of `x[i]` in `sptr_solve<lower>::solve`: `X = Σ val*x[col]`; `x[i] -= X` or `x[i] = D[r]*(x[i]-X)` -/
def iluVal (lower : Bool) (A : CRS K) (D : Vec K) (x : Vec K) (i : Nat) : K :=
  let X := rowDot (A.row i) x
  if lower then x.getD i 0 - X else D.getD i 0 * (x.getD i 0 - X)

def iluRow (lower : Bool) (A : CRS K) (D : Vec K) (x : Vec K) (i : Nat) : Vec K :=
  x.setIfInBounds i (iluVal lower A D x i)

/-- one row of `serial_solve`: `for j: x[i] -= val[j] * x[col[j]]` (in place), then for `U`: `x[i] = D[i] * x[i]` -/
def iluRowSerial (lower : Bool) (A : CRS K) (D : Vec K) (x : Vec K) (i : Nat) : Vec K :=
  let x := (A.row i).foldl (fun (x : Vec K) cv => x.setIfInBounds i (x.getD i 0 - cv.2 * x.getD cv.1 0)) x
  if lower then x else x.setIfInBounds i (D.getD i 0 * x.getD i 0)

/-- the two loops of `serial_solve` (ilu_solve.hpp:239-248) -/
def iluSerialHalf (lower : Bool) (A : CRS K) (D : Vec K) (x : Vec K) : Vec K :=
  (rowOrder lower A.nrows).foldl (iluRowSerial lower A D) x

def iluSerialSolve (L U : CRS K) (D : Vec K) (x : Vec K) : Vec K :=
  iluSerialHalf false U D (iluSerialHalf true L D x)

/-- run a sequence of row updates -/
def runRows (upd : Vec K → Nat → Vec K) (σ : List Nat) (x : Vec K) : Vec K := σ.foldl upd x

end rows

/-! ## 5. execution semantics of a loop/pragma skeleton -/

/-- `Interleave ls σ`: `σ` is a merge of the lists `ls` that keeps the order inside each list
(each thread executes its own list in program order; the scheduler picks the next thread arbitrarily) -/
inductive Interleave {α : Type} : List (List α) → List α → Prop
  | done {ls : List (List α)} : (∀ l ∈ ls, l = []) → Interleave ls []
  | step {pre post : List (List α)} {l : List α} {a : α} {σ : List α} :
      Interleave (pre ++ l :: post) σ → Interleave (pre ++ (a :: l) :: post) (a :: σ)

/-- executable check of `Interleave` for lists without repeated elements: the next element must be the head of
some thread's remaining list -/
def isInterleave : List (List Nat) → List Nat → Bool
  | ls, [] => ls.all (fun l => l.isEmpty)
  | ls, a :: σ =>
    match ls.findIdx? (fun l => l.head? == some a) with
    | none => false
    | some k => isInterleave (ls.modify k List.tail) σ

/-- all interleavings (executable; exponential — for the tiny exhaustive cases of the driver only) -/
def interleavings (fuel : Nat) (ls : List (List Nat)) : List (List Nat) :=
  match fuel with
  | 0 => [[]]
  | fuel + 1 =>
    if ls.all (fun l => l.isEmpty) then [[]] else
    (List.range ls.length).flatMap fun k =>
      match ls.getD k [] with
      | [] => []
      | a :: _ => (interleavings fuel (ls.modify k List.tail)).map (a :: ·)

/-- The loop/pragma skeleton of a level-scheduled kernel, as normalised source text: `(nesting depth, line)`.
`tools/sync_skeleton.py` extracts one from each of `parallel_sweep` and `sptr_solve`. -/
structure Skeleton where
  /-- `sweep`/`solve`: the level count, the parallel region with the team stride, the level loop, the loop over the
  virtual threads `tid = thread_id(), tid + team, …`, the task selection, the row loop, the store to `x[i]`, the barrier -/
  run : List (Nat × String)
  /-- member initialiser deciding the serial fallback -/
  serialPred : String
  /-- where `nthreads` comes from -/
  nthreads : String
  /-- step 3 of the constructor: the parallel region cutting every level into per-(virtual-)thread chunks -/
  chunking : List (Nat × String)
  /-- step 4 of the constructor: the parallel region making the thread-local copies (team loop, task loop) -/
  fill : List (Nat × String)
  /-- body of `team_size()`: the stride of the `tid` loops is the size of the team that executes the region -/
  teamSize : String
  /-- body of `thread_id()`: the first virtual thread of a thread is its number in that team -/
  threadId : String
  deriving DecidableEq, Repr

def barrierLine : String := "#pragma omp barrier"

/-- position of the barrier: inside the level loop, after the loop over the virtual threads of the executing thread
(at the depth of that loop's header); the task a virtual thread runs in level `lev` is `tasks[tid][lev]` and the
virtual threads of a thread are `thread_id(), thread_id() + team, …` below `nthreads`.  (Before
repo_patches/fix_level_schedule_team_size.patch the region was `tid = thread_id(); for (t : tasks[tid]) { rows;
barrier }`, which is the same set of executions only if the team has exactly `nthreads` threads.) -/
def Skeleton.levelBarrier (sk : Skeleton) : Bool :=
  match sk.run with
  | [(0, _), (0, "#pragma omp parallel"), (1, "const int team=team_size();"), (1, "for(ptrdiff_t lev=0;lev<nlev;++lev)"),
     (2, "for(int tid=thread_id();tid<nthreads;tid+=team)"), (3, "const task&t=tasks[tid][lev];"), (3, _), (4, _), (2, b)] =>
    b == barrierLine
  | _ => false

/-- canonical text (`tools/sync_skeleton.py: norm`): blanks survive only between two identifier characters -/
def expectedChunking : List (Nat × String) :=
  [(0, "#pragma omp parallel"),
   (1, "const int team=team_size();"),
   (1, "for(int tid=thread_id();tid<nthreads;tid+=team)"),
   (2, "for(ptrdiff_t lev=0;lev<nlev;++lev)"),
   (3, "ptrdiff_t lev_size=start[lev+1]-start[lev];"),
   (3, "ptrdiff_t chunk_size=(lev_size+nthreads-1)/nthreads;"),
   (3, "ptrdiff_t beg=std::min(tid*chunk_size,lev_size);"),
   (3, "ptrdiff_t end=std::min(beg+chunk_size,lev_size);"),
   (3, "beg+=start[lev];"),
   (3, "end+=start[lev];"),
   (3, "tasks[tid].push_back(task(beg,end));")]

def expectedFill : List (Nat × String) :=
  [(0, "#pragma omp parallel"),
   (1, "const int team=team_size();"),
   (1, "for(int tid=thread_id();tid<nthreads;tid+=team)"),
   (2, "ptr[tid].push_back(0);"),
   (2, "for(task&t:tasks[tid])"),
   (3, "t.beg=loc_beg;"),
   (3, "t.end=loc_end;")]

def expectedTeamSize : String := "#ifdef _OPENMP return omp_get_num_threads();#else return 1;#endif"
def expectedThreadId : String := "#ifdef _OPENMP return omp_get_thread_num();#else return 0;#endif"

def expectedRun (store : String) : List (Nat × String) :=
  [(0, "const ptrdiff_t nlev=tasks.empty()?0:tasks[0].size();"),
   (0, "#pragma omp parallel"),
   (1, "const int team=team_size();"),
   (1, "for(ptrdiff_t lev=0;lev<nlev;++lev)"),
   (2, "for(int tid=thread_id();tid<nthreads;tid+=team)"),
   (3, "const task&t=tasks[tid][lev];"),
   (3, "for(ptrdiff_t r=t.beg;r<t.end;++r)"),
   (4, store),
   (2, "#pragma omp barrier")]

def gsExpectedSkeleton : Skeleton where
  run := expectedRun "x[i]=math::inverse(D)*X;"
  serialPred := "is_serial(prm.serial||num_threads()<4)"
  nthreads := "nthreads(num_threads())"
  chunking := expectedChunking
  fill := expectedFill
  teamSize := expectedTeamSize
  threadId := expectedThreadId

def iluExpectedSkeleton : Skeleton where
  run := expectedRun "if(lower)x[i]-=X;else x[i]=D[tid][r]*(x[i]-X);"
  serialPred := "serial(num_threads()<4)"
  nthreads := "nthreads(num_threads())"
  chunking := expectedChunking
  fill := expectedFill
  teamSize := expectedTeamSize
  threadId := expectedThreadId

/-- with the barrier: one interleaving per level, the levels one after the other -/
inductive LevelwiseExec (tk : List (List (List Nat))) : List Nat → List Nat → Prop
  | nil : LevelwiseExec tk [] []
  | cons {lev : Nat} {levs : List Nat} {block σ : List Nat} :
      Interleave (levelTasks tk lev) block → LevelwiseExec tk levs σ → LevelwiseExec tk (lev :: levs) (block ++ σ)

/-- `Exec sk tk nlev σ`: the row-update sequence `σ` is admitted by skeleton `sk` for the task table `tk`
(`tk[tid][lev]`).  With the barrier, `σ` is a concatenation of one interleaving per level; without it, an
interleaving of the threads' whole task lists. -/
def Exec (sk : Skeleton) (tk : List (List (List Nat))) (nlev : Nat) (σ : List Nat) : Prop :=
  if sk.levelBarrier then LevelwiseExec tk (List.range nlev) σ
  else Interleave (tk.map List.flatten) σ

/-- executable `Exec` (for rows without repetition) -/
def isExec (sk : Skeleton) (tk : List (List (List Nat))) (nlev : Nat) (σ : List Nat) : Bool :=
  if sk.levelBarrier then
    ((List.range nlev).foldl (fun (acc : Bool × List Nat) lev =>
      let m := ((levelTasks tk lev).map List.length).sum
      (acc.1 && isInterleave (levelTasks tk lev) (acc.2.take m), acc.2.drop m)) (true, σ)) == (true, [])
  else isInterleave (tk.map List.flatten) σ

/-- two adversarial schedules the harness also executes on the dumped tables: threads in reverse order inside
every level, and round-robin (one row per thread in turn) -/
def reverseThreadSchedule (tk : List (List (List Nat))) (nlev : Nat) : List Nat :=
  (List.range nlev).flatMap fun lev => ((levelTasks tk lev).reverse).flatten

def roundRobin (fuel : Nat) (ls : List (List Nat)) : List Nat :=
  match fuel with
  | 0 => []
  | fuel + 1 =>
    if ls.all (fun l => l.isEmpty) then [] else
    ls.filterMap List.head? ++ roundRobin fuel (ls.map List.tail)

def roundRobinSchedule (tk : List (List (List Nat))) (nlev : Nat) : List Nat :=
  (List.range nlev).flatMap fun lev =>
    let ls := (levelTasks tk lev).reverse
    roundRobin ((ls.map List.length).sum + 1) ls

/-! ## 6. the kernels as the dispatching code runs them -/
section kernels
variable {K : Type} [Add K] [Mul K] [Sub K] [Zero K] [One K] [Div K]

/-- `parallel_sweep<fwd>::sweep` under a given schedule `σ` -/
def gsParallelSweep (A : CRS K) (rhs : Vec K) (σ : List Nat) (x : Vec K) : Vec K := runRows (gsRow A rhs) σ x

/-- `sptr_solve<lower>::solve` under a given schedule `σ` -/
def iluParallelHalf (lower : Bool) (A : CRS K) (D : Vec K) (σ : List Nat) (x : Vec K) : Vec K :=
  runRows (iluRow lower A D) σ x

end kernels

end Amgcl.Sched

namespace Amgcl.Sched

/-- thread order inside every level (= `order`): adversarial for the backward sweep -/
def threadOrderSchedule (tk : List (List (List Nat))) (nlev : Nat) : List Nat :=
  (List.range nlev).flatMap fun lev => (levelTasks tk lev).flatten

/-- executable form of "the levels agree with the serial order on every dependency":
for every stored off-diagonal entry `(i,c)`: `c` visited before `i` ↔ `level c < level i`, and never equal -/
def conflictFree (fwd : Bool) (A : Pattern) (level : Array Nat) : Bool :=
  (List.range A.size).all fun i => (A.getD i []).all fun c =>
    c == i || (level.getD c 0 != level.getD i 0 && (before fwd c i == decide (level.getD c 0 < level.getD i 0)))

/-! ## 7. Gershgorin bound under `omp for` + `omp critical` (builtin.hpp:794-819) -/
section gersh
variable {K : Type} [Add K] [Mul K] [Zero K] [One K] [Div K] [LT K] [DecidableLT K]

/-- `std::max(a, b)` -/
def cmax (a b : K) : K := if a < b then b else a

/-- one thread: `emax = 0; dia = identity;` then its rows `lo..hi-1` in order (`dia` is *not* reset per row) -/
def gershThread (scale : Bool) (norm : K → K) (A : CRS K) (lo hi : Nat) : K :=
  ((List.range (hi - lo)).foldl (fun (st : K × K) k =>
      let i := lo + k
      let sd := (A.row i).foldl (fun (sd : K × K) cv =>
        (sd.1 + norm cv.2, if scale && cv.1 == i then cv.2 else sd.2)) (0, st.2)
      let s := if scale then sd.1 * norm (1 / sd.2) else sd.1
      (cmax st.1 s, sd.2)) (0, 1)).1

/-- `radius = 0;` every thread of the team: `#pragma omp critical  radius = max(radius, emax)` (thread order) -/
def gershgorin (scale : Bool) (norm : K → K) (nt : Nat) (A : CRS K) : K :=
  (List.range nt).foldl (fun radius t =>
    let ch := staticChunk A.nrows nt t
    cmax radius (gershThread scale norm A ch.1 ch.2)) 0

end gersh
end Amgcl.Sched
