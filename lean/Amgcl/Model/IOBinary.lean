import Amgcl.Model.Basic
import Amgcl.Model.IOCommon
/-!
# Binary matrix files (`amgcl/io/binary.hpp`) — byte-level model, core Lean only

Instantiation modelled: `SizeT = size_t`, `Ptr = ptrdiff_t` (8 bytes, little endian, two's complement — what
`examples/mm2bin.cpp` writes), `Col` = `csz` raw bytes decoded to a signed index by an abstract `cdec` (`ptrdiff_t`:
`csz = 8`, `cdec = decS64`; `int`: `csz = 4`, `cdec = decS32`), `Val` = `vsz` raw bytes decoded by an abstract `dec`
(`double`: 8, `std::complex<double>`: 16, `float`: 4).  `sizeof(Col)` and `sizeof(Val)` are independent parameters:
the value block starts `nnz · csz` bytes behind the column block and a row range that starts at stored entry `k`
reads its columns at offset `k · csz` of the column block and its values at offset `k · vsz` of the value block.

File layout written by `mm2bin`:   `n | ptr[0..n] | col[0..nnz) | val[0..nnz)`   (sparse),
`n | m | val[0..n·m)` (dense).

Every stream operation is a bounds-checked `Option`: `readAt file pos len` is `f.seekg(pos); f.read(buf, len)`:
a position that is negative as `std::streamoff` or a read past the end of the file fails (→ `precondition` →
outcome `error`); a read of zero bytes succeeds whatever the position (the repaired `read(f, vec)` returns early
for an empty vector — whether a seek far behind the end of a file is accepted depends on the file system; all
scalar reads have 8 bytes; the `fixed = false` variant shares this clause, which only concerns zero-length reads); offsets are computed in `size_t` arithmetic (modulo `2^64`) as the C++ expressions do.
Every access to the vectors the reader fills is bounds-checked as well; an access outside is the outcome `oob`.

`fixed = true` is the repaired reader (`repo_patches/fix_binary_ptr_validation.patch`), `fixed = false` the code
as it was (kept for the counterexample theorem).  Abstracted: exception texts; allocation failure of `resize(k)`
is `k · sizeof > memLimit` (`std::bad_alloc`) or `k` negative as a `size_t` (`std::length_error`), both `error`;
the OpenMP row loop is executed serially in row order (rows are disjoint segments when in bounds).
-/
namespace Amgcl.IO

def two64 : Nat := 18446744073709551616
def two63 : Nat := 9223372036854775808

/-- little-endian value of a byte block (a list element is taken modulo 256, so that the function is a byte
decoder on every `List Nat`) -/
def leVal : Bytes → Nat
  | [] => 0
  | b :: t => b % 256 + 256 * leVal t
/-- the 8 little-endian bytes of `x mod 2^64` -/
def enc64 (x : Nat) : Bytes := (List.range 8).map (fun k => x / 256 ^ k % 256)
/-- `size_t → ptrdiff_t` -/
def toS64 (u : Nat) : Int := if u < two63 then (u : Int) else (u : Int) - (two64 : Int)
/-- `ptrdiff_t → size_t` -/
def ofS64 (i : Int) : Nat := (i % (two64 : Int)).toNat
def encS64 (i : Int) : Bytes := enc64 (ofS64 i)
/-- an 8-byte block as `ptrdiff_t` -/
def decS64 (bs : Bytes) : Int := toS64 (leVal bs)

def two32 : Nat := 4294967296
def two31 : Nat := 2147483648
/-- the 4 little-endian bytes of `x mod 2^32` -/
def enc32 (x : Nat) : Bytes := (List.range 4).map (fun k => x / 256 ^ k % 256)
/-- `uint32_t → int` -/
def toS32 (u : Nat) : Int := if u < two31 then (u : Int) else (u : Int) - (two32 : Int)
/-- `int → uint32_t` -/
def ofS32 (i : Int) : Nat := (i % (two32 : Int)).toNat
def encS32 (i : Int) : Bytes := enc32 (ofS32 i)
/-- a 4-byte block as `int` -/
def decS32 (bs : Bytes) : Int := toS32 (leVal bs)

/-- `f.seekg(pos); f.read(buf, len)` where `pos` is a `size_t` value -/
def readAt (file : Bytes) (pos len : Nat) : Option Bytes :=
  if len = 0 then some []                         -- repaired `read(f, vec)`: an empty vector is not read at all
  else if two63 ≤ pos then none                   -- negative `streamoff`: `seekg` fails, so does the read
  else if pos + len ≤ file.length then some ((file.drop pos).take len)
  else none

/-- cut a block into `count` items of `k` bytes -/
def splitEvery (k : Nat) : Nat → Bytes → List Bytes
  | 0, _ => []
  | c + 1, bs => bs.take k :: splitEvery k c (bs.drop k)

/-- `io::crs_size<size_t>(fname)` -/
def binCrsSize (file : Bytes) : Outcome Nat :=
  match readAt file 0 8 with
  | none => .error
  | some bs => .ok (leVal bs)

section
variable {V : Type}

/-- validation added by the repair: `nnz ≥ 0`, `ptr` non-negative at the front (zero for a read that starts at
row 0), monotone, last entry `≤ nnz` -/
def ptrValid (b : Int) (ptr : List Int) (nnz : Int) : Bool :=
  decide (0 ≤ nnz) &&
  (match ptr.head? with
   | some p0 => decide (0 ≤ p0) && (decide (b ≠ 0) || decide (p0 = 0))
   | none => false) &&
  monotone ptr &&
  (match ptr.getLast? with
   | some pl => decide (pl ≤ nnz)
   | none => false)

/-- `read_crs` behind the row-range precondition: `ptr.resize`, the three seeks/reads, (repaired: validation),
the shift by `ptr.front()`, `col/val.resize`, two more reads, the sort loop -/
def binCrsBody (fixed : Bool) (memLimit : Nat) (csz : Nat) (cdec : Bytes → Int) (vsz : Nat) (dec : Bytes → V)
    (file : Bytes) (n : Nat) (b e : Int) :
    Outcome (RawCRS V) :=
  let chunk := e - b
  -- `ptr.resize(chunk + 1)`
  if chunk + 1 < 0 then .error
  else if (chunk + 1) * 8 > (memLimit : Int) then .error
  else
  -- `f.seekg(ptr_beg + row_beg * sizeof(Ptr)); read(f, ptr)`
  match readAt file ((8 + ofS64 b * 8) % two64) ((chunk + 1).toNat * 8) with
  | none => .error
  | some pb =>
  let ptr0 := (splitEvery 8 (chunk + 1).toNat pb).map (fun x => toS64 (leVal x))
  -- `f.seekg(ptr_beg + n * sizeof(Ptr)); read(f, nnz)`
  match readAt file ((8 + n * 8) % two64) 8 with
  | none => .error
  | some zb =>
  let nnz := toS64 (leVal zb)
  if fixed && !ptrValid b ptr0 nnz then .error
  else
  -- `SizeT nnz_beg = ptr.front()`
  match ptr0.head? with
  | none => .oob                       -- unrepaired code only: `front()` of an empty vector
  | some p0 =>
  let nnzBeg := ofS64 p0
  let ptr := if nnzBeg = 0 then ptr0 else ptr0.map (fun p => toS64 ((ofS64 p + (two64 - nnzBeg)) % two64))
  match ptr.getLast? with
  | none => .oob
  | some back =>
  -- `col.resize(ptr.back()); val.resize(ptr.back())`
  if back < 0 then .error
  else if back * csz > (memLimit : Int) then .error
  else if back * vsz > (memLimit : Int) then .error
  else
  let cnt := back.toNat
  let colBeg := (8 + (n + 1) * 8) % two64
  -- `f.seekg(col_beg + nnz_beg * sizeof(Col)); read(f, col)`
  match readAt file ((colBeg + nnzBeg * csz) % two64) (cnt * csz) with
  | none => .error
  | some cb =>
  -- `f.seekg(col_beg + nnz * sizeof(Col) + nnz_beg * sizeof(Val)); read(f, val)`
  match readAt file ((colBeg + ofS64 nnz * csz + nnzBeg * vsz) % two64) (cnt * vsz) with
  | none => .error
  | some vb =>
  let col := (splitEvery csz cnt cb).map cdec
  let val := (splitEvery vsz cnt vb).map dec
  match sortRows wrap32 ptr (col.zip val) with
  | none => .oob
  | some cv => .ok ⟨chunk.toNat, 0, ptr, cv.map (·.1), cv.map (·.2)⟩

/-- `io::read_crs(fname, n, ptr, col, val, row_beg, row_end)` (binary.hpp:69-122).  The repaired code also
requires `(ptrdiff_t) n >= 0`, which the other three conditions of `rowRange true` imply. -/
def binReadCrs (fixed : Bool) (memLimit : Nat) (csz : Nat) (cdec : Bytes → Int) (vsz : Nat) (dec : Bytes → V)
    (file : Bytes) (rowBeg rowEnd : Int) : Outcome (RawCRS V) :=
  match readAt file 0 8 with
  | none => .error
  | some nb =>
    match rowRange fixed (toS64 (leVal nb)) rowBeg rowEnd with
    | none => .error
    | some (b, e) => binCrsBody fixed memLimit csz cdec vsz dec file (leVal nb) b e

/-- `io::read_dense(fname, n, m, v, row_beg, row_end)` (binary.hpp:133-156) -/
def binReadDense (fixed : Bool) (memLimit : Nat) (vsz : Nat) (dec : Bytes → V) (file : Bytes) (rowBeg rowEnd : Int) :
    Outcome (RawDense V) :=
  match readAt file 0 8 with
  | none => .error
  | some nb =>
  match readAt file 8 8 with
  | none => .error
  | some mb =>
    let n := leVal nb
    let m := leVal mb
    match rowRange fixed (toS64 n) rowBeg rowEnd with
    | none => .error
    | some (b, e) =>
    -- repaired code: `n * m * sizeof(Val)` must not overflow `size_t`
    if fixed && !(decide (n * m * vsz < two64)) then .error
    else
    let chunk := e - b
    -- `v.resize(chunk * m)` in `size_t` arithmetic
    let cnt := (ofS64 chunk * m) % two64
    if two63 ≤ cnt * vsz ∨ cnt * vsz > memLimit then .error
    else
    match readAt file ((16 + ofS64 b * m * vsz) % two64) (cnt * vsz) with
    | none => .error
    | some vb => .ok ⟨ofS64 chunk, m, (splitEvery vsz cnt vb).map dec⟩

/-! ### writers: the `io::write` sequences of `examples/mm2bin.cpp` -/

/-- `write(f, rows); write(f, ptr); write(f, col); write(f, val)` (`cenc` = the bytes of one `Col`) -/
def binWriteRaw (cenc : Int → Bytes) (enc : V → Bytes) (A : RawCRS V) : Bytes :=
  enc64 A.nrows ++ (A.ptr.flatMap encS64 ++ (A.col.flatMap cenc ++ A.val.flatMap enc))

/-- a `CRS` row with its column indices as the signed C++ index type -/
def intRow (r : Row V) : List (Int × V) := r.map (fun cv => ((cv.1 : Int), cv.2))

/-- the raw arrays of a `CRS` (what `mm2bin` holds after reading) -/
def RawCRS.ofCRS (A : CRS V) : RawCRS V := RawCRS.ofRows A.nrows A.ncols (A.rows.toList.map intRow)

def binWriteCrs (cenc : Int → Bytes) (enc : V → Bytes) (A : CRS V) : Bytes := binWriteRaw cenc enc (RawCRS.ofCRS A)

/-- `write(f, rows); write(f, cols); write(f, val)` -/
def binWriteDense (enc : V → Bytes) (D : RawDense V) : Bytes :=
  enc64 D.nrows ++ (enc64 D.ncols ++ D.val.flatMap enc)

end
end Amgcl.IO
