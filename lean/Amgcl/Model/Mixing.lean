/-!
# `backend::detail::common_scalar_backend` (amgcl/backend/detail/mixing.hpp:43-74)

A compile-time function on pairs of builtin backends, used by `preconditioner::schur_pressure_correction` to pick
the backend of the composite from the backends of its two sub-solvers.  A backend `builtin<V>` is described by the
scalar kind of `V` (`math::scalar_of<V>`) and its number of rows (`math::static_rows<V>`; 1 for a scalar).

The model follows the two partial specialisations literally:
* `<B, B>` enabled iff `static_rows<B::value_type> == 1`            → `B`;
* `<builtin<V1>, builtin<V2>>` enabled iff `rows V1 != 1 || rows V2 != 1`
      → `builtin<S1>` if `sizeof(S1) > sizeof(S2)` else `builtin<S2>`, `S_i = scalar_of<V_i>`;
* otherwise the primary template is only declared: no `type` (two DIFFERENT scalar backends have no common backend).
-/
namespace Amgcl.Mixing

/-- scalar kinds of the table -/
inductive Prec where
  | f32 | f64 | f80
  deriving DecidableEq, Repr

/-- `sizeof` on the x86-64 System V ABI -/
def Prec.sizeof : Prec → Nat
  | .f32 => 4
  | .f64 => 8
  | .f80 => 16

/-- a value type: its scalar kind and `static_rows` (square blocks `rows × rows`, 1 = scalar) -/
structure VT where
  prec : Prec
  rows : Nat
  deriving DecidableEq, Repr

/-- `common_scalar_backend<builtin<v1>, builtin<v2>>::type`; `none` = no member `type` -/
def commonScalarBackend (v1 v2 : VT) : Option VT :=
  if v1 = v2 ∧ v1.rows = 1 then some v1
  else if v1.rows ≠ 1 ∨ v2.rows ≠ 1 then
    some ⟨if v1.prec.sizeof > v2.prec.sizeof then v1.prec else v2.prec, 1⟩
  else none

end Amgcl.Mixing
