import Amgcl.Model.Schedule
/-!
# The level-scheduled kernels under a team that is not the team the schedule was built for (C09)

`parallel_sweep` / `sptr_solve` build their tables for `nthreads = omp_get_max_threads()` *virtual* threads.  With
repo_patches/fix_level_schedule_team_size.patch every parallel region (constructor steps 3 and 4, `sweep`, `solve`) is

    const int team = team_size();                       // omp_get_num_threads(): the team that really executes the region
    for (lev = 0; lev < nlev; ++lev) {
        for (int tid = thread_id(); tid < nthreads; tid += team) { const task &t = tasks[tid][lev]; <row loop> }
        #pragma omp barrier
    }

so real thread `p` of a team of `team ≥ 1` threads runs, inside a level, the tasks of the virtual threads
`p, p + team, p + 2 team, … < nthreads` one after the other; threads `p ≥ nthreads` only take part in the barriers.
This file models that region statement by statement; `Properties/C09c.lean` proves that its executions are executions of
`Exec` (interleavings of the per-virtual-thread task lists, one barrier per level) for EVERY team size, so all C09
theorems apply whatever team the OpenMP run time delivers.  Core Lean only.
-/
namespace Amgcl.Sched

/-- `for (int tid = start; tid < nthreads; tid += team)`: the values of `tid` in loop order (`fuel` trips at most) -/
def teamTidsLoop (nt team : Nat) : Nat → Nat → List Nat
  | 0, _ => []
  | fuel + 1, tid => if tid < nt then tid :: teamTidsLoop nt team fuel (tid + team) else []

/-- the virtual threads served by thread `p` of a team of `team` threads (`nt` trips suffice when `team ≥ 1`) -/
def teamTids (nt team p : Nat) : List Nat := teamTidsLoop nt team nt p

/-- what real thread `p` executes between two barriers: the tasks `tasks[tid][lev]` of its virtual threads, in loop order -/
def teamThreadLevel {α : Type} (tk : List (List (List α))) (nt team p lev : Nat) : List α :=
  (teamTids nt team p).flatMap fun tid => (tk.getD tid []).getD lev []

/-- the work of one level, by REAL thread (`team` lists) -/
def teamLevelTasks {α : Type} (tk : List (List (List α))) (nt team lev : Nat) : List (List α) :=
  (List.range team).map fun p => teamThreadLevel tk nt team p lev

/-- the levels one after the other (barrier), inside a level any interleaving of the REAL threads -/
inductive TeamLevelwiseExec {α : Type} (tk : List (List (List α))) (nt team : Nat) : List Nat → List α → Prop
  | nil : TeamLevelwiseExec tk nt team [] []
  | cons {lev : Nat} {levs : List Nat} {block σ : List α} :
      Interleave (teamLevelTasks tk nt team lev) block → TeamLevelwiseExec tk nt team levs σ →
      TeamLevelwiseExec tk nt team (lev :: levs) (block ++ σ)

/-- the executions of the repaired `sweep()`/`solve()` when the region is executed by a team of `team` threads and the
tables were built for `nt` virtual threads (`nlev = tasks[0].size()`) -/
def TeamExec {α : Type} (tk : List (List (List α))) (nt team nlev : Nat) (σ : List α) : Prop :=
  TeamLevelwiseExec tk nt team (List.range nlev) σ

/-- one particular execution: real threads in order, each running its virtual threads in loop order -/
def teamThreadOrderSchedule {α : Type} (tk : List (List (List α))) (nt team nlev : Nat) : List α :=
  (List.range nlev).flatMap fun lev => (teamLevelTasks tk nt team lev).flatten

/-- executable `TeamExec` (rows without repetition) -/
def isTeamExec (tk : List (List (List Nat))) (nt team nlev : Nat) (σ : List Nat) : Bool :=
  ((List.range nlev).foldl (fun (acc : Bool × List Nat) lev =>
    let m := ((teamLevelTasks tk nt team lev).map List.length).sum
    (acc.1 && isInterleave (teamLevelTasks tk nt team lev) (acc.2.take m), acc.2.drop m)) (true, σ)) == (true, [])

/-- constructor regions (steps 3 and 4) under a team of `team` threads: the set of thread-specific slots `tid` that get
filled, in the order thread 0, 1, … would fill them — the tables are indexed by `tid`, so the result is independent of
the team as soon as this is a permutation of `0 … nt-1` (`teamTids_cover`) -/
def teamFilledSlots (nt team : Nat) : List Nat := ((List.range team).map (teamTids nt team)).flatten

end Amgcl.Sched
