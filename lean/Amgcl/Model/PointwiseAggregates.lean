import Amgcl.Model.PlainAggregates
import Amgcl.Model.PointwiseMatrix
/-!
# `coarsening::pointwise_aggregates` (pointwise_aggregates.hpp:92-190)

* `block_size == 1`: `plain_aggregates` + `remove_small_aggregates(n, 1, min_aggregate, aggr)`.
* `block_size  > 1`: `plain_aggregates` of `backend::pointwise_matrix(A, block_size)`,
  `remove_small_aggregates(np, block_size, min_aggregate, pw_aggr)`, `count = pw_count * block_size`,
  `id[ip*b+k] = b * pw_id[ip] + k` (so a removed node gets the negative ids `-2b+k`), and the strength flags of
  the pointwise matrix are expanded to the scalar entries: walking every scalar row of block row `ip` once,
  in step with the block columns `cp` of `Ap`'s row `ip`, an entry with `col < (cp+1)*b` gets
  `sp && col != ip*b+k` where `sp = (cp == ip) || pw_strong[jp]`; entries never reached keep the
  value-initialised `0` of `strong_connection.resize(nnz)`.
  The C++ loop nest is `for jp { for k { while … } }` with one cursor per `k`; the cursors are independent, so the
  model runs the `jp` loop per scalar row (`expandRow`).
-/
namespace Amgcl
namespace Coarsening

/-- `remove_small_aggregates` l.164-170: members per aggregate (`id != removed`) -/
def aggrSizes (count : Nat) (id : Array Int) : Array Int :=
  id.foldl (fun cnt v => if v != aggrRemoved then cnt.setIfInBounds v.toNat (cnt.getD v.toNat 0 + 1) else cnt)
    (Array.replicate count 0)

/-- l.174-181: new number or `removed` per old aggregate; returns the table and `m` -/
def smallTable (blockSize minAggregate : Nat) (sizes : Array Int) : Array Int × Nat :=
  sizes.foldl (fun (acc : Array Int × Nat) c =>
    if (blockSize : Int) * c < (minAggregate : Int) then (acc.1.push aggrRemoved, acc.2)
    else (acc.1.push (acc.2 : Int), acc.2 + 1)) (#[], 0)

/-- `pointwise_aggregates::remove_small_aggregates(n, block_size, min_aggregate, aggr)` on `(count, id)` -/
def removeSmallAggregates (blockSize minAggregate : Nat) (ci : Nat × Array Int) : Nat × Array Int :=
  if minAggregate ≤ 1 then ci else
    let tm := smallTable blockSize minAggregate (aggrSizes ci.1 ci.2)
    (tm.2, ci.2.map fun v => if v != aggrRemoved then tm.1.getD v.toNat 0 else v)

/-- l.134-151 for the scalar row `ip*b+k` with stored columns `cs`: `apRow` = `(cp, pw_strong)` of `Ap`'s row -/
def expandRow (b ip k : Nat) : List (Nat × Bool) → List Nat → List Bool
  | [], cs => cs.map fun _ => false
  | (cp, s) :: rest, cs =>
    let sp := (cp == ip) || s
    let colEnd := (cp + 1) * b
    (cs.takeWhile (· < colEnd)).map (fun c => sp && (c != ip * b + k))
      ++ expandRow b ip k rest (cs.dropWhile (· < colEnd))

end Coarsening

open Coarsening in
/-- the constructor `pointwise_aggregates(A, prm, min_aggregate)` -/
def pointwiseAggregates {K : Type} [Mul K] [Zero K] [LT K] [DecidableLT K]
    (norm : K → K) (epsSq : K) (blockSize minAggregate : Nat) (A : CRS K) : Outcome Aggregates :=
  if blockSize = 1 then
    match plainAggregates epsSq A with
    | .ok a =>
      let ci := removeSmallAggregates 1 minAggregate (a.count, a.id)
      -- fix ffc3988: every aggregate was too small -> `error::empty_level` (thrown at the end of `remove_small_aggregates`,
      -- which returns early for `min_aggregate <= 1`)
      if 1 < minAggregate ∧ ci.1 = 0 then .emptyLevel else
      .ok { count := ci.1, strong := a.strong, id := ci.2 }
    | .emptyLevel => .emptyLevel
    | .precondition => .precondition
  else
    match pointwiseMatrix norm A blockSize with
    | .ok Ap =>
      match plainAggregates epsSq Ap with
      | .ok pw =>
        let ci := removeSmallAggregates blockSize minAggregate (pw.count, pw.id)
        let G := zipGraph Ap pw.strong
        if 1 < minAggregate ∧ ci.1 = 0 then .emptyLevel else
        .ok { count := ci.1 * blockSize,
              id := Array.ofFn (n := Ap.nrows * blockSize) fun ia =>
                (blockSize : Int) * ci.2.getD (ia.val / blockSize) 0 + ((ia.val % blockSize : Nat) : Int),
              strong := Array.ofFn (n := Ap.nrows * blockSize) fun ia =>
                expandRow blockSize (ia.val / blockSize) (ia.val % blockSize) (G.row (ia.val / blockSize))
                  ((A.row ia.val).map (·.1)) }
      | .emptyLevel => .emptyLevel
      | .precondition => .precondition
    | .emptyLevel => .emptyLevel
    | .precondition => .precondition

end Amgcl
