import Amgcl.Model.RelaxCommon
/-!
# Gauss–Seidel, serial sweep (relaxation/gauss_seidel.hpp:150-181)

The level-scheduled `parallel_sweep` (selected when `!prm.serial && omp_get_max_threads() >= 4`) is modelled
elsewhere (C09); this file is the `is_serial` branch.
-/
namespace Amgcl
namespace Relax
variable {K : Type} [Add K] [Mul K] [Sub K] [Zero K] [One K] [Div K]

/-- the body of the row loop: `D = 1; X = rhs[i]; for a in row i: if (c == i) D = v; else X -= v * x[c];`
returns `(D, X)` -/
def gsRowAcc (r : Row K) (i : Nat) (fi : K) (x : Vec K) : K × K :=
  r.foldl (fun (dx : K × K) cv => if cv.1 = i then (cv.2, dx.2) else (dx.1, dx.2 - cv.2 * x.getD cv.1 0)) (1, fi)

/-- one row update `x[i] = inverse(D) * X` -/
def gsRow (A : CRS K) (f : Vec K) (x : Vec K) (i : Nat) : Vec K :=
  let dx := gsRowAcc (A.row i) i (f.getD i 0) x
  x.setIfInBounds i ((1 / dx.1) * dx.2)

/-- `serial_sweep(A, rhs, x, forward)`: rows `0..n-1` or `n-1..0`, in place -/
def gsSweep (A : CRS K) (f x : Vec K) (forward : Bool) : Vec K :=
  let idx := if forward then List.range A.nrows else (List.range A.nrows).reverse
  idx.foldl (fun x i => gsRow A f x i) x

/-- `gauss_seidel::apply`: `clear(x); forward sweep; backward sweep` -/
def gsApply (A : CRS K) (f : Vec K) : Vec K :=
  gsSweep A f (gsSweep A f (vclear A.nrows) true) false

/-- serial Gauss–Seidel; no state (`forward`/`backward` stay empty when `is_serial`), `tmp` is untouched -/
def gaussSeidel : Smoother K Unit where
  setup _ := .ok ()
  applyPre _ A f x t := (gsSweep A f x true, t)
  applyPost _ A f x t := (gsSweep A f x false, t)
  apply _ A f := gsApply A f

end Relax
end Amgcl
