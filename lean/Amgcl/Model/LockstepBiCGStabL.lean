import Amgcl.Model.Lockstep
import Amgcl.Model.SolverBiCGStabL
/-!
# `amgcl::solver::bicgstabl::operator()` as a program over the solver instruction set (C12) — core Lean only

The statements of solver/bicgstabl.hpp:212-427 in the instruction set of `Model/Lockstep.lean`, both preconditioning
sides, `convex` on/off, the accurate update (`delta > 0`), the early exit `goto done` from inside the BiCG part and
the three `precondition`s.

* The scalar state `S` of a rank holds the scalar locals, the loop variables `j, i, i2`, the flags `done` (the
  `goto done` was taken) and `err` (a `precondition` threw), and the rank's OWN copy of the small dense members
  `MZa, MZb, Y0, YL, qr` (bicgstabl.hpp:478-485).
* The entries of the Gram matrix `MZa(i, j) = inner_product(*R[i], *R[j])` are `ip` instructions (globally reduced);
  everything after that — symmetrisation, `std::copy` into `MZb`, the two `qr.solve` calls, the convex combination
  with the literal `0.7`, the search for `omega` — is dense `L × L` work on replicated scalars and is ONE rank-local
  `sset` that applies the very functions of the serial model (`Solver.BiCGStabL.polyCoef`, `Solver.QR.solve`) to
  the rank's own copy.  A rank whose Gram matrix differed would compute other coefficients `Y0`, another `omega`, and
  would select other branches: the lockstep theorem shows this does not happen.
* The vectors `*R[i]`, `*U[i]` are registers selected by the rank's own `j`, `i`.
* An exception sets `err`; every later statement is guarded by `err = none`, so the state at the `throw` is final.
  `goto done` sets `done`, which leaves the `for j` loop, skips the polynomial part and ends the outer loop.
-/
namespace Amgcl.Lockstep.BiCGStabL
open Amgcl Amgcl.Solver Amgcl.Solver.QR Amgcl.Lockstep

-- vector registers
def vF  : Nat := 0   -- rhs
def vX  : Nat := 1   -- x
def vRt : Nat := 2   -- *Rt
def vXX : Nat := 3   -- *X
def vB  : Nat := 4   -- *B
def vT  : Nat := 5   -- *T
/-- `*R[i]` -/
def vR (i : Nat) : Nat := 6 + 2 * i
/-- `*U[i]` -/
def vU (i : Nat) : Nat := 7 + 2 * i

/-- the scalar locals of `operator()`, the flags, and the small dense members of the solver object -/
structure S (K : Type) where
  iter   : Nat
  j      : Nat
  i      : Nat
  i2     : Nat
  alpha  : K
  rho0   : K
  rho1   : K
  beta   : K
  sigma  : K
  omega  : K
  zeta   : K
  zeta0  : K
  rnmaxC : K      -- rnmax_computed
  rnmaxT : K      -- rnmax_true
  nrhs   : K      -- norm_rhs
  epsT   : K      -- eps
  out    : K      -- the returned residual
  updX   : Bool   -- update_x
  done   : Bool   -- `goto done` taken
  err    : Option Err
  MZa    : FArr2 K
  MZb    : FArr2 K
  Y0     : FArr K
  YL     : FArr K
  qr     : QRSt K

variable {K : Type} [Add K] [Mul K] [Sub K] [Neg K] [Zero K] [One K] [Div K] [DecidableEq K] [LT K] [DecidableLT K]

/-- `preconditioner::spmv(pside, P, A, F, X, *T)` (precond_side.hpp:75-92) with run-time selected operands -/
def pspmvProg (side : Side) (F X : S K → Nat) : Prog K (S K) :=
  match side with
  | .left  => seqs [.prim (.spmv (fun _ => 1) F (fun _ => 0) (R vT)), .prim (.precond (R vT) X)]
  | .right => seqs [.prim (.precond F (R vT)), .prim (.spmv (fun _ => 1) (R vT) (fun _ => 0) X)]

/-- `… = norm(v)`: `sqrt(math::norm(inner_product(v, v)))` into `zeta` -/
def zetaNorm (sqrt : K → K) (v : Nat) : Prog K (S K) :=
  .prim (.ip (fun e w => { e with zeta := sqrt (Solver.absK w) }) (R v) (R v))

/-- bicgstabl.hpp:265-300, one pass `j` of the BiCG part (with the `++j` of the `for`) -/
def bicgStepProg (side : Side) (sqrt : K → K) : Prog K (S K) := seqs [
  .prim (.ip (fun e w => { e with rho1 := w }) (fun e => vR e.j) (R vRt)),        -- rho1 = inner_product(*R[j], *Rt)
  .ite (fun e => decide (e.rho1 = 0))
    (.prim (.sset (fun e => { e with err := some .zeroRho })))                    -- precondition(!is_zero(rho1))
    (seqs [
      .prim (.sset (fun e => { e with beta := e.alpha * (e.rho1 / e.rho0), rho0 := e.rho1 })),   -- beta = alpha * (rho1 / rho0); rho0 = rho1
      .forN (fun e => e.j + 1) (fun e i => { e with i := i })                     -- for(i = 0; i <= j; ++i)
        (.prim (.axpby (fun _ => 1) (fun e => vR e.i) (fun e => -e.beta) (fun e => vU e.i))),   --   axpby(one, *R[i], -beta, *U[i])
      pspmvProg side (fun e => vU e.j) (fun e => vU (e.j + 1)),                   -- preconditioner::spmv(pside, P, A, *U[j], *U[j+1], *T)
      .prim (.ip (fun e w => { e with sigma := w }) (fun e => vU (e.j + 1)) (R vRt)),   -- sigma = inner_product(*U[j+1], *Rt)
      .ite (fun e => decide (e.sigma = 0))
        (.prim (.sset (fun e => { e with err := some .zeroSigma })))              -- precondition(!is_zero(sigma))
        (seqs [
          .prim (.sset (fun e => { e with alpha := e.rho1 / e.sigma })),          -- alpha = rho1 / sigma
          .prim (.axpby (fun e => e.alpha) (R (vU 0)) (fun _ => 1) (R vXX)),      -- axpby(alpha, *U[0], one, *X)
          .forN (fun e => e.j + 1) (fun e i => { e with i := i })                 -- for(i = 0; i <= j; ++i)
            (.prim (.axpby (fun e => -e.alpha) (fun e => vU (e.i + 1)) (fun _ => 1) (fun e => vR e.i))),   -- axpby(-alpha, *U[i+1], one, *R[i])
          pspmvProg side (fun e => vR e.j) (fun e => vR (e.j + 1)),               -- preconditioner::spmv(pside, P, A, *R[j], *R[j+1], *T)
          zetaNorm sqrt (vR 0),                                                   -- zeta = norm(*R[0])
          .prim (.sset (fun e => { e with rnmaxC := Solver.maxK e.zeta e.rnmaxC,  -- rnmax_computed = max(zeta, rnmax_computed)
                                          rnmaxT := Solver.maxK e.zeta e.rnmaxT })),   -- rnmax_true = max(zeta, rnmax_true)
          .ite (fun e => decide (e.zeta < e.epsT))                                -- if (zeta < eps) { iter += j+1; goto done; }
            (.prim (.sset (fun e => { e with iter := e.iter + (e.j + 1), done := true })))
            (.prim (.sset (fun e => { e with j := e.j + 1 })))])])]               -- ++j

/-- bicgstabl.hpp:310-314, the symmetrisation loop on a rank's own copy of `MZa` (the second fold of
`Solver.BiCGStabL.gram`) -/
def symm (L : Nat) (M : FArr2 K) : FArr2 K :=
  (List.range (L + 1)).foldl (fun M i =>
      ((List.range (L + 1)).drop (i + 1)).foldl (fun M j => setF2 (setF2 M j i (M j i)) i j (M j i)) M) M

/-- the dense members of a rank as a `Work` record without vectors, to apply the serial model's `polyCoef` -/
def denseWork (e : S K) : Solver.BiCGStabL.Work K :=
  ⟨#[], #[], #[], #[], .const #[], .const #[], e.MZa, e.MZb, e.Y0, e.YL, e.qr⟩

/-- bicgstabl.hpp:310-371 on the rank's own scalars: symmetrise, `std::copy`, `qr.solve` (twice unless `convex` or
`L = 1`), convex combination, `omega = Y0[L]; for(h = L; h > 0 && is_zero(omega); --h) omega = Y0[h];` -/
def polyS (sqrt : K → K) (c07 : K) (L : Nat) (convex : Bool) (e : S K) : S K :=
  let w := Solver.BiCGStabL.polyCoef sqrt c07 L convex (denseWork { e with MZa := symm L e.MZa })
  { e with MZa := w.MZa, MZb := w.MZb, Y0 := w.Y0, YL := w.YL, qr := w.qr,
           omega := (List.range L).foldl (fun om t => if om = 0 then w.Y0 (L - t) else om) (w.Y0 L) }

/-- bicgstabl.hpp:383-408, the accurate update (`prm.delta > 0`) -/
def accurateProg (side : Side) (delta : K) : Prog K (S K) := seqs [
  .prim (.sset (fun e =>
    let rnC := Solver.maxK e.zeta e.rnmaxC                                        -- rnmax_computed = max(zeta, rnmax_computed)
    let rnT := Solver.maxK e.zeta e.rnmaxT                                        -- rnmax_true = max(zeta, rnmax_true)
    { e with rnmaxC := rnC, rnmaxT := rnT,                                        -- update_x = zeta < delta * zeta0 && zeta0 <= rnmax_computed
             updX := decide (e.zeta < delta * e.zeta0) && !decide (rnC < e.zeta0) })),
  .ite (fun e => (decide (e.zeta < delta * e.rnmaxT) && !decide (e.rnmaxT < e.zeta)) || e.updX)
    (seqs [
      pspmvProg side (R vXX) (R (vR 0)),                                          -- preconditioner::spmv(pside, P, A, *X, *R[0], *T)
      .prim (.axpby (fun _ => 1) (R vB) (fun _ => -1) (R (vR 0))),                -- axpby(one, *B, -one, *R[0])
      .prim (.sset (fun e => { e with rnmaxT := e.zeta })),                       -- rnmax_true = zeta
      .ite (fun e => e.updX)
        (seqs [
          (match side with
           | .left  => .prim (.axpby (fun _ => 1) (R vXX) (fun _ => 1) (R vX))    -- axpby(one, *X, one, x)
           | .right => .prim (.axpby (fun _ => 1) (R vT) (fun _ => 1) (R vX))),   -- axpby(one, *T, one, x)
          .prim (.clear (R vXX)),                                                 -- clear(*X)
          .prim (.copy (R (vR 0)) (R vB)),                                        -- copy(*R[0], *B)
          .prim (.sset (fun e => { e with rnmaxC := e.zeta }))])                  -- rnmax_computed = zeta
        .skip])
    .skip]

/-- bicgstabl.hpp:302-409: the polynomial part of a pass, with the `iter += L` of the `for` statement -/
def polyProg (prm : Solver.BiCGStabL.Params K) (sqrt : K → K) (c07 : K) : Prog K (S K) := seqs [
  .forN (fun _ => prm.L + 1) (fun e i => { e with i := i })                       -- for(i = 0; i <= L; ++i)
    (.forN (fun e => e.i + 1) (fun e j => { e with i2 := j })                     --   for(j = 0; j <= i; ++j)
      (.prim (.ip (fun e w => { e with MZa := setF2 e.MZa e.i e.i2 w })           --     MZa(i, j) = inner_product(*R[i], *R[j])
        (fun e => vR e.i) (fun e => vR e.i2)))),
  .prim (.sset (polyS sqrt c07 prm.L prm.convex)),                                -- symmetrise … qr.solve … omega
  .ite (fun e => decide (e.omega = 0))
    (.prim (.sset (fun e => { e with err := some .zeroOmega })))                  -- precondition(!is_zero(omega))
    (seqs [
      .prim (.lincomb (fun _ => prm.L) (fun e i => e.Y0 (1 + i)) (fun _ i => vR i) (fun _ => 1) (R vXX)),   -- lin_comb(L, &Y0[1], &R[0], one, *X)
      .prim (.sset (fun e => { e with Y0 := Solver.BiCGStabL.negY prm.L e.Y0 })), -- for(i = 1; i <= L; ++i) Y0[i] = -one * Y0[i]
      .prim (.lincomb (fun _ => prm.L) (fun e i => e.Y0 (1 + i)) (fun _ i => vU (1 + i)) (fun _ => 1) (R (vU 0))),   -- lin_comb(L, &Y0[1], &U[1], one, *U[0])
      .prim (.lincomb (fun _ => prm.L) (fun e i => e.Y0 (1 + i)) (fun _ i => vR (1 + i)) (fun _ => 1) (R (vR 0))),   -- lin_comb(L, &Y0[1], &R[1], one, *R[0])
      .prim (.sset (fun e => { e with Y0 := Solver.BiCGStabL.negY prm.L e.Y0 })), -- for(i = 1; i <= L; ++i) Y0[i] = -one * Y0[i]
      zetaNorm sqrt (vR 0),                                                       -- zeta = norm(*R[0])
      (if 0 < prm.delta then accurateProg prm.pside prm.delta else .skip),        -- if (prm.delta > 0) { … }
      .prim (.sset (fun e => { e with iter := e.iter + prm.L }))])]               -- iter += L

/-- bicgstabl.hpp:261-409, one pass of the outer `for` -/
def bodyProg (prm : Solver.BiCGStabL.Params K) (sqrt : K → K) (c07 : K) : Prog K (S K) := seqs [
  .prim (.sset (fun e => { e with rho0 := (-e.omega) * e.rho0, j := 0 })),        -- rho0 = -omega * rho0;  j = 0
  .loop prm.L (fun e => e.err.isNone && !e.done && decide (e.j < prm.L))          -- for(int j = 0; j < L; ++j)
    (bicgStepProg prm.pside sqrt),
  .ite (fun e => e.err.isNone && !e.done) (polyProg prm sqrt c07) .skip]

/-- bicgstabl.hpp:236-258: the statements between the prologue and the loop -/
def preProg (prm : Solver.BiCGStabL.Params K) (sqrt : K → K) : Prog K (S K) := seqs [
  (match prm.pside with
   | .left  => seqs [.prim (.residual (R vF) (R vX) (R vT)),                      -- residual(rhs, A, x, *T)
                     .prim (.precond (R vT) (R vB))]                              -- P.apply(*T, *B)
   | .right => .prim (.residual (R vF) (R vX) (R vB))),                           -- residual(rhs, A, x, *B)
  .prim (.ip (fun e w => { e with zeta0 := sqrt (Solver.absK w) }) (R vB) (R vB)),   -- zeta0 = norm(*B)
  .prim (.sset (fun e => { e with epsT := Solver.maxK (prm.tol * e.nrhs) prm.abstol,   -- eps = max(tol * norm_rhs, abstol)
                                  alpha := 0, rho0 := 1, omega := 1 })),
  .prim (.copy (R vB) (R (vR 0))),                                                -- copy(*B, *R[0])
  .prim (.copy (R vB) (R vRt)),                                                   -- copy(*B, *Rt)
  .prim (.clear (R vXX)),                                                         -- clear(*X)
  .prim (.clear (R (vU 0))),                                                      -- clear(*U[0])
  .prim (.sset (fun e => { e with zeta := e.zeta0, rnmaxC := e.zeta0, rnmaxT := e.zeta0, iter := 0, done := false }))]

/-- label `done:` bicgstabl.hpp:419-426 (not reached when a `precondition` threw) -/
def postProg (prm : Solver.BiCGStabL.Params K) : Prog K (S K) :=
  .ite (fun e => e.err.isNone)
    (seqs [
      (match prm.pside with
       | .left  => .prim (.axpby (fun _ => 1) (R vXX) (fun _ => 1) (R vX))        -- axpby(one, *X, one, x)
       | .right => seqs [.prim (.precond (R vXX) (R vT)),                         -- P.apply(*X, *T)
                         .prim (.axpby (fun _ => 1) (R vT) (fun _ => 1) (R vX))]),   -- axpby(one, *T, one, x)
      .prim (.sset (fun e => { e with out := e.zeta / e.nrhs }))])                -- return (iter, zeta / norm_rhs)
    .skip

/-- bicgstabl.hpp:236-426 after the prologue -/
def mainProg (prm : Solver.BiCGStabL.Params K) (sqrt : K → K) (c07 : K) : Prog K (S K) := seqs [
  preProg prm sqrt,
  .loop prm.maxiter                                                               -- for(; iter < maxiter && zeta >= eps; iter += L)
    (fun e => e.err.isNone && !e.done && decide (e.iter < prm.maxiter) && !decide (e.zeta < e.epsT))
    (bodyProg prm sqrt c07),
  postProg prm]

/-- the whole `operator()` -/
def prog (prm : Solver.BiCGStabL.Params K) (sqrt : K → K) (eps c07 : K) : Prog K (S K) :=
  .seq (.prim (.ip (fun e w => { e with nrhs := sqrt (Solver.absK w) }) (R vF) (R vF)))   -- norm_rhs = norm(rhs)
    (.ite (fun e => decide (e.nrhs < eps))
      (if prm.nsSearch then .seq (.prim (.sset (fun e => { e with nrhs := 1 }))) (mainProg prm sqrt c07)   -- norm_rhs = 1
       else seqs [.prim (.clear (R vX)),                                          -- clear(x); return (0, norm_rhs)
                  .prim (.sset (fun e => { e with iter := 0, out := e.nrhs }))])
      (mainProg prm sqrt c07))

/-- the scalar state on entry: the dense members are those of the solver object -/
def S.init (ws : Solver.BiCGStabL.Work K) : S K :=
  ⟨0, 0, 0, 0, 0, 0, 0, 0, 0, 0, 0, 0, 0, 0, 0, 0, 0, false, false, none, ws.MZa, ws.MZb, ws.Y0, ws.YL, ws.qr⟩

/-- the program state of a call `S(A, P, rhs, x)` on a solver with work space `ws` -/
def initState (ws : Solver.BiCGStabL.Work K) (f x0 : Vec K) : St K (S K) :=
  { vec := fun v => if v = vF then f else if v = vX then x0 else if v = vRt then ws.Rt else if v = vXX then ws.X
                    else if v = vB then ws.B else if v = vT then ws.T
                    else if v % 2 = 0 then ws.R ((v - 6) / 2) else ws.U ((v - 7) / 2),
    scal := S.init ws }

/-- what `operator()` returns (or throws), read off a rank's scalars -/
def outOf (e : S K) : Except Err (Nat × K) :=
  match e.err with
  | none => .ok (e.iter, e.out)
  | some x => .error x

/-- the work space in a program state -/
def workOf (s : St K (S K)) : Solver.BiCGStabL.Work K :=
  ⟨s.vec vRt, s.vec vXX, s.vec vB, s.vec vT, ⟨fun i => s.vec (vR i)⟩, ⟨fun i => s.vec (vU i)⟩,
   s.scal.MZa, s.scal.MZb, s.scal.Y0, s.scal.YL, s.scal.qr⟩

end Amgcl.Lockstep.BiCGStabL
