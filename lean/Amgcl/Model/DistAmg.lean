import Amgcl.Model.Dist
import Amgcl.Model.DistConsolidate
import Amgcl.Model.Amg
import Amgcl.Model.RelaxJacobi
/-!
# The distributed multigrid hierarchy and cycle (C12) — mirrors amgcl/mpi/amg.hpp:223-240, 257-315, 377-455,
mpi/relaxation/{damped_jacobi,spai0}.hpp and `operator()` of mpi/direct_solver/solver_base.hpp:205-243

As in `Model/Dist.lean`, a run on `np` ranks is ONE pure function on the lists of per-rank states (index = rank):

* a distributed vector `DVec K` is the list of the ranks' slices;
* a level `DLevel` holds, per rank, the row block of `A`, `P`, `R` (`List (DistMat K)`), the rank's smoother state
  and the rank's state of the distributed direct solver; `part` is `loc_rows` of the level's matrix on every rank
  (`= n_loc_cols`: the code partitions rows and columns of a level matrix alike, and `P` has the column partition /
  `R` the row partition of the NEXT level, whose `f`/`u` vectors have that many local entries);
* `backend::spmv` / `backend::residual` on a `distributed_matrix` are `Dist.distSpmv` / `Dist.distResidual`
  (ghost exchange through the matrix' communication pattern, local then remote product);
* a distributed smoother is used through `apply_pre` / `apply_post` only (`DSmoother`); damped Jacobi and SPAI-0 are
  the rank-local diagonal scaling of the DISTRIBUTED residual (`distDiagSweep`), their constructors work on the
  local (Jacobi) resp. local + remote (SPAI-0) part of the rank's rows;
* the coarse direct solver is `solver_base`: every active rank sends its slice of the right-hand side to the master
  of its group, the master solves the consolidated system with the serial `direct` and scatters the solution.

`dinit` is the hierarchy constructor `mpi::amg::init` (level constructor, `step_down` without repartitioning) for a
coarsening given as a `DPolicy`; `dcycle` / `dapply` are `amg::cycle` / `amg::apply` statement by statement — the same text as the serial
`Amg.cycle` / `Amg.apply` (the C++ sources are literally the same loops) over these distributed primitives.
-/
namespace Amgcl
namespace DistAmg
open Amgcl.Dist

/-- a distributed vector: the ranks' slices, index = rank -/
abbrev DVec (K : Type) := List (Vec K)

/-- one distributed sweep `(rhs, x, tmp) ↦ (x', tmp')` on all ranks -/
abbrev DSweep (K : Type) := DVec K → DVec K → DVec K → DVec K × DVec K

/-- a distributed relaxation in the shape `mpi::amg` consumes it; `List S` is the per-rank state, the matrix is
passed with its (row = column) partition -/
structure DSmoother (K S : Type) where
  setup     : List (DistMat K) → List Nat → Relax.SetupOutcome (List S)
  applyPre  : List S → List (DistMat K) → List Nat → DSweep K
  applyPost : List S → List (DistMat K) → List Nat → DSweep K

/-! ## damped Jacobi and SPAI-0 -/
section diag
variable {K : Type} [Add K] [Mul K] [Sub K] [Neg K] [Zero K] [One K] [Div K] [DecidableEq K]

/-- `apply_pre` = `apply_post` of `relaxation::damped_jacobi` (`ω` = damping) and `mpi::relaxation::spai0` (`ω = 1`)
on a distributed matrix: `backend::residual(rhs, A, x, tmp)` is the distributed residual (ghost exchange of `x`),
`backend::vmul(ω, M, tmp, 1, x)` is rank-local with the rank's own `M`. -/
def distDiagSweep (ω : K) (Ms : List (Vec K)) (Ds : List (DistMat K)) (part : List Nat) (fs xs _tmp : DVec K) :
    DVec K × DVec K :=
  let tmp := distResidual fs Ds part xs
  ((List.range Ds.length).map (fun r => vmul ω (Ms.getD r #[]) (tmp.getD r #[]) 1 (xs.getD r #[])), tmp)

/-- `mpi::relaxation::damped_jacobi(A, …) : Base(*A.local(), …)`: the serial constructor on the LOCAL part -/
def distJacobiSetup (Ds : List (DistMat K)) : Relax.SetupOutcome (List (Vec K)) :=
  if Ds.all (fun D => Relax.hasDiagb D.loc) then .ok (Ds.map (fun D => Relax.diagInv D.loc)) else .undefinedInput

def distJacobi (ω : K) : DSmoother K (Vec K) where
  setup Ds _ := distJacobiSetup Ds
  applyPre Ms Ds part fs xs ts := distDiagSweep ω Ms Ds part fs xs ts
  applyPost Ms Ds part fs xs ts := distDiagSweep ω Ms Ds part fs xs ts

/-- the constructor loop of `mpi::relaxation::spai0` (mpi/relaxation/spai0.hpp:66-86) on one rank: `num` sums the
LOCAL entries with `col == i`, `den` the squared norms of the local and then of the remote entries of the row -/
def spai0DiagRank (norm : K → K) (D : DistMat K) : Vec K :=
  Array.ofFn (n := D.loc.nrows) (fun i =>
    let nd := (D.loc.row i).foldl (fun (nd : K × K) cv =>
      let nv := norm cv.2
      (if cv.1 = i.val then nd.1 + cv.2 else nd.1, nd.2 + nv * nv)) (0, 0)
    let den := (D.rem.row i).foldl (fun (den : K) cv => let nv := norm cv.2; den + nv * nv) nd.2
    (1 / den) * nd.1)

def distSpai0 (norm : K → K) : DSmoother K (Vec K) where
  setup Ds _ := .ok (Ds.map (spai0DiagRank norm))
  applyPre Ms Ds part fs xs ts := distDiagSweep 1 Ms Ds part fs xs ts
  applyPost Ms Ds part fs xs ts := distDiagSweep 1 Ms Ds part fs xs ts

end diag

/-! ## the distributed direct solver (`solver_base`) -/
section direct
variable {K : Type}

/-- a rank's `solver_base` members after `init` -/
structure DirectRank (K : Type) where
  /-- `n`: local rows -/
  n : Nat
  /-- `group_master`, `slaves`, `counts` (computed by every active rank from `domain`) -/
  group : Group
  /-- on a master: the consolidated matrix passed to `solver().init(masters_comm, A)` -/
  cons : Option (CRS K)

instance : Inhabited (DirectRank K) := ⟨⟨0, ⟨0, [], []⟩, none⟩⟩

/-- `solver_base::init(comm, distributed_matrix)` (solver_base.hpp:50-197) on every rank.  The strip of a rank is
its rows in global numbering, local entries first (`assembleRank`); `domain = exclusive_sum(n)`; a master stores
its own strip followed by the strips its slaves send (tags 5001-5003) in slave order, `ncols = domain.back()`.
`commSize` is `solver().comm_size(n_global)` (`1` for `skyline_lu`: one master gathers everything). -/
def directInit (commSize : Nat) (Ds : List (DistMat K)) (colPart : List Nat) : List (DirectRank K) :=
  let cnt := Ds.map (·.loc.nrows)
  let strip := fun i => assembleRank colPart i (Ds.getD i default)
  (List.range Ds.length).map fun r =>
    let g := groupOf cnt commSize r
    { n := cnt.getD r 0, group := g,
      cons := if cnt.getD r 0 ≠ 0 ∧ r = g.master
        then some ⟨cnt.sum, (strip r ++ g.slaves.flatMap strip).toArray⟩ else none }

/-- `solver_base::operator()(f, x)` (lines 205-243) on every rank.  A rank without rows returns at once (`x` is
left alone).  The master's `cons_f` is its own slice followed by the slices its slaves send (tag `rhs_tag`) in
slave order; it solves the consolidated system (`solver().solve` = the serial `direct` of the consolidated
matrix for `skyline_lu`), keeps `cons_x[0, n)` and sends `cons_x[shift, shift + counts[j])` to slave `j`
(tag `sol_tag`). -/
def directSolve (direct : CRS K → Vec K → Vec K) (st : List (DirectRank K)) (fs xs : DVec K) : DVec K :=
  (List.range st.length).map fun r =>
    let me := st.getD r default
    if me.n = 0 then xs.getD r #[] else
    let m := me.group.master
    let ms := st.getD m default
    let consF : Vec K :=
      ((fs.getD m #[]).toList ++ ms.group.slaves.flatMap (fun i => (fs.getD i #[]).toList)).toArray
    let consX : Vec K := match ms.cons with
      | some A => direct A consF
      | none => #[]                        -- cannot happen: the master of an active rank is active
    if r = m then consX.extract 0 me.n
    else
      let j := ms.group.slaves.idxOf r
      let sh := shiftRow ms.n ms.group.counts j
      consX.extract sh (sh + ms.group.counts.getD j 0)

end direct

/-! ## levels, scratch, cycle -/

/-- one `mpi::amg::level` on all ranks -/
structure DLevel (K S : Type) where
  /-- `loc_rows` of the level's matrix on every rank -/
  part  : List Nat
  A     : Option (List (DistMat K)) := none
  P     : Option (List (DistMat K)) := none
  R     : Option (List (DistMat K)) := none
  solve : Option (List (DirectRank K)) := none
  relax : Option (List S) := none

/-- the level vectors `f`, `u`, `t` on all ranks -/
structure DScratch (K : Type) where
  f : DVec K
  u : DVec K
  t : DVec K

section cycle
variable {K S : Type} [Add K] [Mul K] [Sub K] [Neg K] [Zero K] [One K] [DecidableEq K]

/-- `n` sweeps, the level's `t` threaded through -/
def dsweeps (sw : DSweep K) (n : Nat) (rhs x t : DVec K) : DVec K × DVec K :=
  Amg.iter (fun (xt : DVec K × DVec K) => sw rhs xt.1 xt.2) n (x, t)

/-- `backend::clear(v)` on every rank of a vector with `part[r]` local entries -/
def dclear (part : List Nat) : DVec K := part.map (fun n => vclear n)

abbrev DCycSt (K : Type) := DVec K × DScratch K × DScratch K × List (DScratch K)

/-- one pass of the `for j < ncycle` loop body on an inner level (mpi/amg.hpp:436-452) -/
def dcycleBody (prm : Amg.Params) (dsm : DSmoother K S) (s : List S) (A P R : List (DistMat K))
    (part nextPart : List Nat)
    (rc : List (DScratch K) → DVec K → DVec K → DVec K × List (DScratch K))
    (rhs : DVec K) (st : DCycSt K) : DCycSt K :=
  let r1 := dsweeps (dsm.applyPre s A part) prm.npre rhs st.1 st.2.1.t
  let t := distResidual rhs A part r1.1                      -- backend::residual(rhs, A, x, t)
  let fn := distSpmv 1 R part t 0 st.2.2.1.f                 -- nxt->f = R * t   (R: columns by `part`)
  let un : DVec K := dclear nextPart                         -- clear(*nxt->u)
  let rc' := rc ({ st.2.2.1 with f := fn, u := un } :: st.2.2.2) fn un
  let x2 := distSpmv 1 P nextPart rc'.1 1 r1.1               -- x += P * nxt->u  (P: columns by `nextPart`)
  let r2 := dsweeps (dsm.applyPost s A part) prm.npost rhs x2 t
  match rc'.2 with
  | scn' :: scr' => (r2.1, { st.2.1 with t := r2.2 }, { scn' with u := rc'.1 }, scr')
  | [] => (r2.1, { st.2.1 with t := r2.2 }, st.2.2.1, st.2.2.2)

/-- `mpi::amg::cycle(lvl, rhs, x)` (mpi/amg.hpp:418-455) -/
def dcycle (prm : Amg.Params) (dsm : DSmoother K S) (direct : CRS K → Vec K → Vec K) :
    List (DLevel K S) → List (DScratch K) → DVec K → DVec K → DVec K × List (DScratch K)
  | [], scr, _, x => (x, scr)
  | [lv], sc :: scr, rhs, x =>
    match lv.solve with
    | some st => (directSolve direct st rhs x, sc :: scr)
    | none =>
      match lv.A, lv.relax with
      | some A, some s =>
        let r1 := dsweeps (dsm.applyPre s A lv.part) prm.npre rhs x sc.t
        let r2 := dsweeps (dsm.applyPost s A lv.part) prm.npost rhs r1.1 r1.2
        (r2.1, { sc with t := r2.2 } :: scr)
      | _, _ => (x, sc :: scr)
  | lv :: nxt :: rest, sc :: scn :: scr, rhs, x =>
    match lv.A, lv.relax, lv.P, lv.R with
    | some A, some s, some P, some R =>
      let st := Amg.iter (dcycleBody prm dsm s A P R lv.part nxt.part (dcycle prm dsm direct (nxt :: rest)) rhs)
        prm.ncycle (x, sc, scn, scr)
      (st.1, st.2.1 :: st.2.2.1 :: st.2.2.2)
    | _, _, _, _ => (x, sc :: scn :: scr)
  | _, scr, _, x => (x, scr)

/-- `mpi::amg::apply(rhs, x)` (mpi/amg.hpp:228-240): `backend::clear(x)` / `backend::copy(rhs, x)` are rank-local -/
def dapply (prm : Amg.Params) (dsm : DSmoother K S) (direct : CRS K → Vec K → Vec K)
    (levels : List (DLevel K S)) (scr : List (DScratch K)) (rhs : DVec K) : DVec K × List (DScratch K) :=
  if prm.pre_cycles = 0 then (rhs.map vcopy, scr)
  else
    Amg.iter (fun (st : DVec K × List (DScratch K)) => dcycle prm dsm direct levels st.2 rhs st.1) prm.pre_cycles
      (rhs.map (fun v => vclear v.size), scr)

/-- the level vectors as the level constructor allocates them (`create_vector(loc_rows)` zero-initialises) -/
def freshDScratch (levels : List (DLevel K S)) : List (DScratch K) :=
  levels.map (fun lv => { f := dclear lv.part, u := dclear lv.part, t := dclear lv.part })

end cycle

/-! ## the hierarchy constructor -/
section init
variable {K S : Type} [Add K] [Mul K]

/-- the coarsening as `mpi::amg::init` sees it: `transfer l A part` is the result of the `l`-th call of
`C.transfer_operators(A)` on the (stateful) coarsening object — `(P, R, loc_cols of P on every rank)`, the last being
the partition of the next level — and `coarseOp A P R part nextPart` is `C.coarse_operator(A, P, R)` -/
structure DPolicy (K : Type) where
  transfer : Nat → List (DistMat K) → List Nat → List (DistMat K) × List (DistMat K) × List Nat
  coarseOp : List (DistMat K) → List (DistMat K) → List (DistMat K) → List Nat → List Nat → List (DistMat K)

/-- `coarsening::detail::galerkin(A, P, R) = product(R, *product(A, P))` with `mpi::product` -/
def dgalerkin (A P R : List (DistMat K)) (part nextPart : List Nat) : List (DistMat K) :=
  distProduct R (distProduct A P part nextPart) part nextPart

/-- a coarsening that hands out GIVEN transfer operators (a recording-style coarsening policy: `transfer_operators`
returns the stored `P_l`, `R_l` distributed by the stored partitions, `coarse_operator` is the Galerkin product) -/
def givenPolicy (trs : List (CRS K × CRS K)) (parts : List (List Nat)) : DPolicy K :=
  { transfer := fun l _ _ =>
      match trs[l]? with
      | some (P, R) =>
        let pl := parts.getD l []
        let pn := parts.getD (l + 1) []
        (split P pl pn, split R pn pl, pn)
      | none => ([], [], []),
    coarseOp := dgalerkin }

/-- `level(a, prm, bprm, direct)` (mpi/amg.hpp:257-284): `sort_rows(*a)` (in place: the caller's matrix is sorted too),
then either the direct solver or `A = a` and the relaxation; returns the level and the sorted matrix.
`directOk`: the constructor of the serial solver on a master's consolidated matrix succeeds. -/
def dmkLevel (dsm : DSmoother K S) (directOk : CRS K → Bool) (direct : Bool) (A : List (DistMat K)) (part : List Nat) :
    Except Amg.BuildErr (DLevel K S × List (DistMat K)) :=
  let A := distSortRows A
  if direct then
    let st := directInit 1 A part
    if st.all (fun s => match s.cons with | some Ac => directOk Ac | none => true)
    then .ok ({ part := part, solve := some st }, A) else .error .precondition
  else
    match dsm.setup A part with
    | .ok s => .ok ({ part := part, A := some A, relax := some s }, A)
    | .precondition => .error .precondition
    | .undefinedInput => .error .undefinedInput

/-- the `while` loop of `mpi::amg::init` (lines 386-405) without repartitioning (`repart.is_needed` false);
`step_down`: `P`, `R` from the coarsening, sorted; `P->glob_cols() == 0` ends the hierarchy without a coarse level;
returns the levels and the remaining matrix with its partition (`none`: zero-sized coarse level) -/
def dinitLoop (prm : Amg.Params) (pol : DPolicy K) (dsm : DSmoother K S) (directOk : CRS K → Bool) :
    Nat → List (DLevel K S) → List (DistMat K) → List Nat →
    Except Amg.BuildErr (List (DLevel K S) × Option (List (DistMat K) × List Nat))
  | 0, _, _, _ => .error .fuel
  | fuel + 1, levels, A, part =>
    if part.sum > prm.coarse_enough then
      match dmkLevel dsm directOk false A part with
      | .error e => .error e
      | .ok (lv, As) =>
        if levels.length + 1 ≥ prm.max_levels then .ok (levels ++ [lv], some (As, part))
        else
          let (P, R, np) := pol.transfer levels.length As part
          let P := distSortRows P
          let R := distSortRows R
          let lv := { lv with P := some P, R := some R }
          if np.sum = 0 then .ok (levels ++ [lv], none)
          else dinitLoop prm pol dsm directOk fuel (levels ++ [lv]) (pol.coarseOp As P R part np) np
    else .ok (levels, some (A, part))

/-- `mpi::amg::init` (lines 377-416) on a distributed matrix with rows and columns partitioned by `part` -/
def dinit (prm : Amg.Params) (pol : DPolicy K) (dsm : DSmoother K S) (directOk : CRS K → Bool)
    (A : List (DistMat K)) (part : List Nat) : Except Amg.BuildErr (List (DLevel K S)) :=
  match dinitLoop prm pol dsm directOk (part.sum + 2) [] A part with
  | .error e => .error e
  | .ok (levels, none) => .ok levels
  | .ok (levels, some (Ac, pc)) =>
    if pc.sum > prm.coarse_enough then .ok levels
    else
      match dmkLevel dsm directOk prm.direct_coarse Ac pc with
      | .error e => .error e
      | .ok (lv, _) => .ok (levels ++ [lv])

end init

end DistAmg
end Amgcl
