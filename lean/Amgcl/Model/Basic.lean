/-!
# Basic data model (core Lean only)

`CRS K` mirrors `amgcl::backend::crs<V,C,P>` (backend/builtin.hpp:61-331): the
`ptr/col/val` triple is represented row-wise, `rows[i]` being the list of
`(col, val)` pairs of row `i` *in stored order*; the C++ pointer array is the
derived `CRS.ptr`.  Vectors (`numa_vector`, `iterator_range`, `std::vector`) are
`Array K`.

Everything here is generic over *notation classes only* (`Add`, `Mul`, …), so
that the same definitions (a) compile into the `amgcl_model` executable at core
`Rat` and (b) are reasoned about over an arbitrary `Field`/`CommRing` in
`Amgcl/Proofs`.
-/
namespace Amgcl

abbrev Row (K : Type) := List (Nat × K)
abbrev Vec (K : Type) := Array K

structure CRS (K : Type) where
  ncols : Nat
  rows  : Array (Row K)

namespace CRS
variable {K : Type}

@[inline] def nrows (A : CRS K) : Nat := A.rows.size
/-- row `i` (empty outside the matrix) -/
@[inline] def row (A : CRS K) (i : Nat) : Row K := A.rows.getD i []
/-- number of stored entries -/
def nnz (A : CRS K) : Nat := A.rows.foldl (fun s r => s + r.length) 0
/-- the C++ `ptr` array: `ptr[0] = 0`, `ptr[i+1] = ptr[i] + |row i|` -/
def ptr (A : CRS K) : List Nat :=
  (A.rows.toList.foldl (fun (acc : List Nat × Nat) r => (acc.1 ++ [acc.2 + r.length], acc.2 + r.length)) ([0], 0)).1

/-- structural validity: every stored column index is `< ncols` -/
def WF (A : CRS K) : Prop := ∀ r ∈ A.rows.toList, ∀ cv ∈ r, cv.1 < A.ncols
instance (A : CRS K) : Decidable A.WF := by unfold WF; infer_instance
def wfb (A : CRS K) : Bool := A.rows.toList.all (fun r => r.all (fun cv => decide (cv.1 < A.ncols)))

/-- strictly increasing columns in a row -/
def rowSorted : Row K → Bool
  | [] => true
  | [_] => true
  | a :: b :: t => decide (a.1 < b.1) && rowSorted (b :: t)
def sortedb (A : CRS K) : Bool := A.rows.toList.all rowSorted
/-- no column index occurs twice in a row -/
def rowNodup (r : Row K) : Bool := (r.map (·.1)).Nodup
def nodupb (A : CRS K) : Bool := A.rows.toList.all rowNodup

end CRS

section denotation
variable {K : Type} [Add K] [Zero K]

/-- value denoted by a row at column `j`: duplicates add up -/
def rowGet (r : Row K) (j : Nat) : K :=
  r.foldr (fun cv s => if cv.1 = j then cv.2 + s else s) 0

/-- entry `(i,j)` of the matrix denoted by `A` -/
def CRS.get (A : CRS K) (i j : Nat) : K := rowGet (A.row i) j

end denotation

end Amgcl
