import Amgcl.Model.DefinedKernels
import Amgcl.Model.RugeStuben
/-!
# Cell-level models, second batch (C10): `backend::transpose`, `crs::set_nonzeros()`, the one-pass construction of
`ilu0` / `ilut` (`L`, `U`), the pointer array of `tentative_prolongation` with near-null-space vectors

Same conventions as `Model/DefinedKernels.lean`: flat `ptr` / `col` / `val` arrays in the write/read order of the C++
loops, `alloc junk` for an allocation that leaves its cells unwritten.

## `backend::transpose` (builtin.hpp:346-376)

```
T->set_size(m, n, true);                              // ptr value-initialised: zeros (NOT an uninitialised site)
for (j < nnz) ++T->ptr[A.col[j] + 1];                 // count
T->scan_row_sizes();                                  // in-place partial sums
T->set_nonzeros();                                    // col = new[ptr[m]], val = new[ptr[m]]  (UNINITIALISED: site
                                                      //   crs::set_nonzeros|this.col+val), then zero-filled row by row
for (i < n) for (j in row i of A) {                   // fill
    head = T->ptr[A.col[j]]++;  T->col[head] = i;  T->val[head] = adjoint(A.val[j]); }
std::rotate(T->ptr, T->ptr + m, T->ptr + m + 1);  T->ptr[0] = 0;
```

`ptr` is a plain array (its cells are written by `set_size(…, true)` before anything else happens to them; the
operations on it are the ones of `RS.partialSumNat` / `RS.rotatePtr`, shared with the Ruge–Stuben transposition);
`col` / `val` are heap cells.  The flag `zeroFill` switches the zero-filling loop of `set_nonzeros()` off: the
theorem `C10d.transpose_defined` shows that the fill pass alone stores into every cell (so with `nnz` stores into
`nnz` cells, into each exactly once) and that the result is the same with and without it.
-/
namespace Amgcl
namespace Defined
variable {K : Type}

/-- the stored entries of `A` in storage order: `((row, value), column)` -/
def trEntries (A : CRS K) : List ((Nat × K) × Nat) :=
  (List.range A.nrows).flatMap fun i => (A.row i).map fun cv => ((i, cv.2), cv.1)

/-- state of the transposition: plain `ptr`, heap cells `col`, `val` -/
structure TrState (K : Type) where
  ptr : Array Nat
  col : Array (Cell Nat)
  val : Array (Cell K)

/-- `head = T->ptr[c]++; T->col[head] = i; T->val[head] = adjoint(v)` -/
def trFillStep (adj : K → K) (st : TrState K) (e : (Nat × K) × Nat) : TrState K :=
  let head := st.ptr.getD e.2 0
  { ptr := st.ptr.modify e.2 (· + 1), col := store st.col head e.1.1, val := store st.val head (adj e.1.2) }

/-- the loop of `set_nonzeros()`: `for i < n: for j in [ptr[i], ptr[i+1]): col[j] = 0; val[j] = 0` -/
def zeroFillRows [Zero K] (n : Nat) (ptr : Array Nat) (col : Array (Cell Nat)) (val : Array (Cell K)) :
    Array (Cell Nat) × Array (Cell K) :=
  (List.range n).foldl (fun cv i =>
    (List.range' (ptr.getD i 0) (ptr.getD (i + 1) 0 - ptr.getD i 0)).foldl
      (fun (cv : Array (Cell Nat) × Array (Cell K)) j => (store cv.1 j 0, store cv.2 j 0)) cv) (col, val)

/-- `backend::transpose(A)`; `jc k`, `jv k` = prior content of the memory an allocation of `k` cells lands in -/
def transposeCells [Zero K] (adj : K → K) (A : CRS K) (zeroFill : Bool) (jc : Nat → Array Nat) (jv : Nat → Array K) :
    TrState K :=
  let m := A.ncols
  let E := trEntries A
  let p0 : Array Nat := Array.replicate (m + 1) 0
  let p1 := E.foldl (fun p e => p.modify (e.2 + 1) (· + 1)) p0
  let p2 := RS.partialSumNat p1
  let nnz := p2.getD m 0
  let cv := if zeroFill then zeroFillRows m p2 (alloc (jc nnz)) (alloc (jv nnz)) else (alloc (jc nnz), alloc (jv nnz))
  let st := E.foldl (trFillStep adj) { ptr := p2, col := cv.1, val := cv.2 }
  { st with ptr := RS.rotatePtr m st.ptr }

/-- the cells a completely and correctly filled matrix consists of (plain `ptr`) -/
def TrState.ofRows (rows : Array (Row K)) : TrState K :=
  { ptr := (ptrList rows).toArray,
    col := written ((flatRows rows).map (·.1)).toArray,
    val := written ((flatRows rows).map (·.2)).toArray }

/-! ## `crs::set_nonzeros()` (builtin.hpp:254-266) after a width pass and `scan_row_sizes()`

`set_size(n, m); ptr[0] = 0; for i: ptr[i+1] = w i; scan_row_sizes(); set_nonzeros();` — the allocation of
`set_nonzeros()` is zero-filled segment by segment `[ptr[i], ptr[i+1])`, reading the scanned `ptr` cells.  This is the
two-pass construction with rows of zeros. -/

/-- row `i` of the zero-filled matrix: `w i` entries `(0, 0)` -/
def zeroRows [Zero K] (n : Nat) (w : Nat → Nat) : Array (Row K) :=
  Array.ofFn (n := n) fun i => List.replicate (w i.val) (0, (0 : K))

/-- `set_size(n, m); ptr[0] = 0; ptr[i+1] = w i; scan_row_sizes(); set_nonzeros()` -/
def setNonzerosZeroCells [Zero K] (n : Nat) (w : Nat → Nat) (jp : Array Nat) (jc : Nat → Array Nat)
    (jv : Nat → Array K) : CrsCells K :=
  twoPass (zeroRows (K := K) n w) jp jc jv

/-- `tentative_prolongation`, branch `nullspace.cols > 0` (tentative_prolongation.hpp:153-161):
`P->set_size(n, cols * nba); P->ptr[0] = 0; for i: P->ptr[i+1] = aggr[i] < 0 ? 0 : cols; P->scan_row_sizes();
P->set_nonzeros();` -/
def tentativeNsCells [Zero K] (n cols : Nat) (aggr : Array Int) (jp : Array Nat) (jc : Nat → Array Nat)
    (jv : Nat → Array K) : CrsCells K :=
  setNonzerosZeroCells n (fun i => if aggr.getD i (-1) < 0 then 0 else cols) jp jc jv

/-! ## one-pass construction with a running head (`ilu0::ilu0`, `ilut::ilut`: `L`, `U`)

```
L->set_size(n, n); L->set_nonzeros(cap); L->ptr[0] = 0;     // ptr, col, val UNINITIALISED; cap >= number of entries
head = 0;
for i < n: { for e in row i: { L->col[head] = e.col; L->val[head] = e.val; ++head; }  L->ptr[i+1] = head; }
```
`head` is a local variable (no cell is loaded to obtain it).  Cells `head_final … cap-1` stay unwritten (ilut
allocates an upper bound); readers address rows through `ptr` only. -/

structure OnePass (K : Type) where
  ptr : Array (Cell Nat)
  fill : Fill K
  head : Nat

def onePass (rows : Array (Row K)) (jp jc : Array Nat) (jv : Array K) : OnePass K :=
  (List.range rows.size).foldl (fun (st : OnePass K) i =>
      let r := rows.getD i []
      let f := fillRow (st.head, true) r st.fill
      { ptr := store st.ptr (i + 1) (st.head + r.length), fill := f, head := st.head + r.length })
    { ptr := store (alloc jp) 0 0, fill := { col := alloc jc, val := alloc jv, ok := true }, head := 0 }

/-- the strictly lower / strictly upper part of row `i` in stored order (what `ilu0::ilu0` stores into `L` / `U`
before it eliminates) -/
def lowerRows (A : CRS K) : Array (Row K) := Array.ofFn (n := A.nrows) fun i => (A.row i.val).filter (fun cv => cv.1 < i.val)
def upperRows (A : CRS K) : Array (Row K) := Array.ofFn (n := A.nrows) fun i => (A.row i.val).filter (fun cv => i.val < cv.1)

/-- the counting loop of `ilu0::ilu0` (l.96-108): `Lnz`, `Unz` -/
def ilu0Counts (A : CRS K) : Nat × Nat :=
  (List.range A.nrows).foldl (fun (acc : Nat × Nat) i =>
    (A.row i).foldl (fun (acc : Nat × Nat) cv =>
      if cv.1 < i then (acc.1 + 1, acc.2) else if i < cv.1 then (acc.1, acc.2 + 1) else acc) acc) (0, 0)

end Defined
end Amgcl
