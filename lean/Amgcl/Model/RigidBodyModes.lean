import Amgcl.Model.CoarseningCommon
/-!
# `coarsening::rigid_body_modes` (coarsening/rigid_body_modes.hpp:44-129) — core Lean only

```
template <class Vector>
int rigid_body_modes(int ndim, const Vector &coo, std::vector<double> &B, bool transpose = false)
```
The function is a template in the coordinate container only: `B` is a `std::vector<double>` and every operation
(`1/sqrt(n)`, the dot products, `sqrt(s)`, the division) is done in `double`.  The model is generic over the scalar,
`sqrt` is a parameter (DESIGN.md §2.1).  It follows the code loop by loop on the flat buffer
`B[i * stride1 + k * stride2]` with `(stride1, stride2) = (nmodes, 1)` or, for `transpose`, `(1, n)`:

* l.46-47 the two `precondition`s;
* l.49-51 `n = coo.size()` (number of unknowns, *not* of nodes), `B.resize(n * nmodes, 0.0)` — `resize` keeps what the
  caller's vector already holds (`B0`) and zero-fills only the new tail;
* l.56 `sn = 1 / sqrt(n)` — with `n = ndim · #nodes`, so a translation column (`#nodes` entries `sn`) has squared norm
  `1/ndim`, not one (see `Properties/C04c.lean`, `rbm_translation_norm` / `rbm_first_rotation_gram`);
* l.58-107 one pass over the unknowns writing the translation entry and the one or two rotation entries of the row;
* l.110-126 for `i = ndim .. nmodes-1`: `dot[k] = Σ_j B[j,k]·B[j,i]` (`k < i`), then per row the in-place
  subtractions `B[j,i] -= dot[k]·B[j,k]` and `s += B[j,i]²`, `s = sqrt(s)`, `B[j,i] /= s`.
-/
namespace Amgcl
namespace RBM
section
variable {K : Type} [Zero K] [One K] [Add K] [Sub K] [Mul K] [Div K] [Neg K] [NatCast K]

/-- l.50 -/
def nmodes (ndim : Nat) : Nat := if ndim = 2 then 3 else 6

/-- `B[i * stride1 + k * stride2]` (read) -/
@[inline] def cell (s1 s2 : Nat) (B : Array K) (i k : Nat) : K := B.getD (i * s1 + k * s2) 0
/-- `B[i * stride1 + k * stride2] = v` -/
@[inline] def put (s1 s2 : Nat) (B : Array K) (i k : Nat) (v : K) : Array K := B.setIfInBounds (i * s1 + k * s2) v

/-- `B.resize(m, 0.0)`: the first `min(m, size)` values are kept, new cells are zero -/
def resize (B : Array K) (m : Nat) : Array K := Array.ofFn (n := m) fun t => B.getD t.1 0

/-- body of the loop l.59-78 (`ndim == 2`) -/
def fillRow2 (sn : K) (coo : Array K) (s1 s2 : Nat) (B : Array K) (i : Nat) : Array K :=
  let nod := i / 2
  let dim := i % 2
  let x := coo.getD (nod * 2 + 0) 0
  let y := coo.getD (nod * 2 + 1) 0
  let B := put s1 s2 B i dim sn
  if dim = 0 then put s1 s2 B i 2 (-y) else put s1 s2 B i 2 x

/-- body of the loop l.80-106 (`ndim == 3`) -/
def fillRow3 (sn : K) (coo : Array K) (s1 s2 : Nat) (B : Array K) (i : Nat) : Array K :=
  let nod := i / 3
  let dim := i % 3
  let x := coo.getD (nod * 3 + 0) 0
  let y := coo.getD (nod * 3 + 1) 0
  let z := coo.getD (nod * 3 + 2) 0
  let B := put s1 s2 B i dim sn
  if dim = 0 then put s1 s2 (put s1 s2 B i 3 y) i 5 z
  else if dim = 1 then put s1 s2 (put s1 s2 B i 3 (-x)) i 4 (-z)
  else put s1 s2 (put s1 s2 B i 4 y) i 5 (-x)

/-- l.58-107 -/
def fill (ndim : Nat) (sn : K) (coo : Array K) (s1 s2 n : Nat) (B : Array K) : Array K :=
  if ndim = 2 then (List.range n).foldl (fillRow2 sn coo s1 s2) B
  else (List.range n).foldl (fillRow3 sn coo s1 s2) B

/-- l.112-116: `dot` (a `std::array<double,6>`) is zero-filled, then `dot[k] += B[j,k]·B[j,i]`, `j` outer, `k < i` inner -/
def dots (s1 s2 n i : Nat) (B : Array K) : Array K :=
  (List.range n).foldl (fun dot j =>
    (List.range i).foldl (fun dot k => dot.setIfInBounds k (dot.getD k 0 + cell s1 s2 B j k * cell s1 s2 B j i)) dot)
    (Array.replicate 6 (0 : K))

/-- l.119-120 for one row `j`: `B[j,i] -= dot[k]·B[j,k]`, `k = 0 .. i-1`, in place -/
def subtractRow (s1 s2 i : Nat) (dot : Array K) (B : Array K) (j : Nat) : Array K :=
  (List.range i).foldl (fun B k => put s1 s2 B j i (cell s1 s2 B j i - dot.getD k 0 * cell s1 s2 B j k)) B

/-- l.117-122: the subtraction pass with the accumulation of `s` -/
def project (s1 s2 n i : Nat) (dot : Array K) (B : Array K) : Array K × K :=
  (List.range n).foldl (fun (Bs : Array K × K) j =>
    let B := subtractRow s1 s2 i dot Bs.1 j
    (B, Bs.2 + cell s1 s2 B j i * cell s1 s2 B j i)) (B, 0)

/-- l.124-125 -/
def scaleCol (s1 s2 n i : Nat) (s : K) (B : Array K) : Array K :=
  (List.range n).foldl (fun B j => put s1 s2 B j i (cell s1 s2 B j i / s)) B

/-- one iteration of the loop l.111-126; also returns the value of `s` after `s = sqrt(s)` -/
def gsStep (sqrt : K → K) (s1 s2 n i : Nat) (B : Array K) : Array K × K :=
  let dot := dots s1 s2 n i B
  let Bs := project s1 s2 n i dot B
  let s := sqrt Bs.2
  (scaleCol s1 s2 n i s Bs.1, s)

/-- l.111-126; the list holds the divisors `s` of the iterations (most recent first) -/
def orthonormalize (sqrt : K → K) (s1 s2 n ndim nm : Nat) (B : Array K) : Array K × List K :=
  (List.range (nm - ndim)).foldl (fun (Bl : Array K × List K) t =>
    let r := gsStep sqrt s1 s2 n (ndim + t) Bl.1
    (r.1, r.2 :: Bl.2)) (B, [])

/-- l.49-107: the buffer before the orthonormalisation loop (`B0` = what the caller's vector holds on entry) -/
def rawModes (sqrt : K → K) (ndim : Nat) (coo B0 : Array K) (transpose : Bool) : Array K :=
  let n := coo.size
  let nm := nmodes ndim
  let s1 := if transpose then 1 else nm
  let s2 := if transpose then n else 1
  let sn : K := 1 / sqrt (n : K)
  fill ndim sn coo s1 s2 n (resize B0 (n * nm))

/-- the whole function: `(return value, B, divisors)` -/
def rigidBodyModesFull (sqrt : K → K) (ndim : Nat) (coo B0 : Array K) (transpose : Bool) :
    Outcome (Nat × Array K × List K) :=
  if ¬ (ndim = 2 ∨ ndim = 3) then .precondition
  else if coo.size % ndim ≠ 0 then .precondition
  else
    let n := coo.size
    let nm := nmodes ndim
    let s1 := if transpose then 1 else nm
    let s2 := if transpose then n else 1
    let r := orthonormalize sqrt s1 s2 n ndim nm (rawModes sqrt ndim coo B0 transpose)
    .ok (nm, r.1, r.2)

/-- `rigid_body_modes(ndim, coo, B, transpose)`: return value and `B` -/
def rigidBodyModes (sqrt : K → K) (ndim : Nat) (coo B0 : Array K) (transpose : Bool) : Outcome (Nat × Array K) :=
  match rigidBodyModesFull sqrt ndim coo B0 transpose with
  | .ok (nm, B, _) => .ok (nm, B)
  | .emptyLevel => .emptyLevel
  | .precondition => .precondition

end
end RBM
end Amgcl
