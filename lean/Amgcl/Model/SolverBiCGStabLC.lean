import Amgcl.Model.SolverBiCGStabL
import Amgcl.Model.SolverAsFound
/-!
# BiCGStab(L) and `amgcl::detail::QR` at a value type with a conjugation — core Lean only

The polynomial part of bicgstabl.hpp (lines 302-366 as of /repo 10c4abf) and detail/qr.hpp depend on the value type through

* `math::adjoint` (`conj`): the Gram matrix (`BiCGStabL.gramC`), `s = adjoint(C)… ; s = tau * adjoint(s)` and `adjoint(tau[i])` in
  `apply_reflector`, `adjoint(Y0[i]) * s0` in the non-convex branch;
* `math::norm` of a `coef_type` scalar as a `scalar_type` VALUE (`absC`): `xnorm2 += sqr(math::norm(x[ii]))`, `sqr(math::norm(alpha))`;
* `std::real` (`re`) and comparisons of REAL numbers that can be negative (`ltR`): `real(alpha) < 0`, `kappaA < 0.7 * kappa0 * kappa1`,
  `kappaA < 0`; `std::abs` of a real is `if ltR x 0 then -x else x`;
* `sqrt` of a real `scalar_type` (`sqrtR`), as opposed to the `sqrt` parameter of the solver models, which feeds `norm()`;
* the ORIENTATION in which `qr.solve` walks `MZa`: since 10c4abf it is called with `(row_stride, col_stride) = (MZa.stride(1),
  MZa.stride(0))`, so the element `(a, b)` of the matrix QR factorises is `MZa(1 + b, 1 + a)` — the transposed block (`gT` / `sT` below) —
  and the non-convex branch reads `MZb(j, i)`.  For a real value type `MZa` is symmetric and both orientations denote the same
  numbers; `Model/SolverQR.lean` / `BiCGStabL.polyCoef` keep the untransposed orientation of the text before 10c4abf.

`QRC.*` and `BiCGStabL.polyCoefC / polyPartC / bodyC / loopC / runC / callC` are the functions of `Model/SolverQR.lean` /
`Model/SolverBiCGStabL.lean` with these five things written out; `bicgStep`, `bicgLoop`, `init`, `finish`, `cond`, `negY` are shared.
-/
namespace Amgcl.Solver

/-- the value-type dependent scalar operations -/
structure CplxOps (K : Type) where
  conj  : K → K
  absC  : K → K
  re    : K → K
  ltR   : K → K → Bool
  sqrtR : K → K

/-- `std::abs` of a real `scalar_type` value -/
def CplxOps.absR {K : Type} [Neg K] [Zero K] (c : CplxOps K) (x : K) : K := if c.ltR x 0 then -x else x

namespace QRC
open Amgcl.Solver.QR
variable {K : Type} [Add K] [Mul K] [Sub K] [Neg K] [Zero K] [One K] [Div K] [DecidableEq K] [LT K] [DecidableLT K]

/-- element `(a, b)` of the matrix `qr.solve` sees = `MZa(b, a)` -/
@[inline] def gT (A : FArr2 K) (a b : Nat) : K := A b a
@[inline] def sT (A : FArr2 K) (a b : Nat) (v : K) : FArr2 K := setF2 A b a v

/-- `gen_reflector` (qr.hpp:301-368) -/
def genReflector (c : CplxOps K) (order : Nat) (A : FArr2 K) (ri ci : Nat) : K × FArr2 K :=
  if order ≤ 1 then (0, A) else
  let n := order - 1
  let xnorm2 := (List.range n).foldl
    (fun acc t => acc + sqr (c.absC (gT A (ri + 1 + t) ci))) 0          -- xnorm2 += sqr(math::norm(x[ii]));
  if xnorm2 = 0 then (0, A) else
  let alpha := gT A ri ci
  let beta0 := -(c.absR (c.sqrtR (sqr (c.absC alpha) + xnorm2)))               -- beta = -std::abs(sqrt(sqr(math::norm(alpha)) + xnorm2));
  let beta := if c.ltR (c.re alpha) 0 then -beta0 else beta0            -- if (real(alpha) < 0) beta = -beta;
  let tau := 1 - inv1 beta * alpha
  let alpha' := inv1 (alpha - beta * 1)
  let A1 := (List.range n).foldl
    (fun A t => sT A (ri + 1 + t) ci (alpha' * gT A (ri + 1 + t) ci)) A
  (tau, sT A1 ri ci (beta * 1))

/-- `apply_reflector` (qr.hpp:370-462) on a block of the same matrix -/
def applyReflMat (c : CplxOps K) (m n : Nat) (vr vc : Nat) (tau : K) (A : FArr2 K) (cr cc : Nat) : FArr2 K :=
  if tau = 0 then A else
  (List.range n).foldl (fun A i =>
      let s0 := ((List.range m).drop 1).foldl
        (fun s j => s + c.conj (gT A (cr + j) (cc + i)) * gT A (vr + j) vc) (c.conj (gT A cr (cc + i)))
      let s := tau * c.conj s0                                           -- s = tau * math::adjoint(s);
      let A1 := sT A cr (cc + i) (gT A cr (cc + i) - s)
      ((List.range m).drop 1).foldl
        (fun A j => sT A (cr + j) (cc + i) (gT A (cr + j) (cc + i) - gT A (vr + j) vc * s)) A1) A

def applyReflVec (c : CplxOps K) (m : Nat) (A : FArr2 K) (vr vc : Nat) (tau : K) (f : FArr K) (fo : Nat) : FArr K :=
  if tau = 0 then f else
  let s0 := ((List.range m).drop 1).foldl (fun s j => s + c.conj (f (fo + j)) * gT A (vr + j) vc) (c.conj (f fo))
  let s := tau * c.conj s0
  let f1 := setF f fo (f fo - s)
  ((List.range m).drop 1).foldl (fun f j => setF f (fo + j) (f (fo + j) - gT A (vr + j) vc * s)) f1

/-- `compute` (qr.hpp:105-145) -/
def compute (c : CplxOps K) (rows cols o : Nat) (A : FArr2 K) (tau : FArr K) : FArr2 K × FArr K :=
  let k := min rows cols
  (List.range k).foldl (fun (acc : FArr2 K × FArr K) i =>
      let g := genReflector c (rows - i) acc.1 (o + i) (o + i)
      let tau := setF acc.2 i g.1
      -- apply_reflector(m-i, n-i-1, A + ii, row_stride, math::adjoint(tau[i]), A + ii + col_stride, row_stride, col_stride);
      let A := if i + 1 < cols then
                 applyReflMat c (rows - i) (cols - i - 1) (o + i) (o + i) (c.conj (tau i)) g.2 (o + i) (o + i + 1)
               else g.2
      (A, tau)) (A, tau)

/-- `solve`, branch `rows >= cols` (qr.hpp:218-249) -/
def solve (c : CplxOps K) (rows cols o : Nat) (A : FArr2 K) (q : QRSt K) (b : Nat → K) (Y : FArr K) (yo : Nat)
    (computed : Bool) : FArr2 K × QRSt K × FArr K :=
  let f0 := (List.range rows).foldl (fun f t => setF f t (b t)) q.f
  let ct := if computed then (A, q.tau) else compute c rows cols o A q.tau
  let A := ct.1
  let tau := ct.2
  let f := (List.range cols).foldl (fun f i => applyReflVec c (rows - i) A (o + i) (o + i) (c.conj (tau i)) f i) f0
  let Y1 := (List.range cols).foldl (fun Y t => setF Y (yo + t) (f t)) Y
  let Y2 := (List.range cols).reverse.foldl (fun Y i =>
      let rii := gT A (o + i) (o + i)
      if rii = 0 then Y else
      let Ya := setF Y (yo + i) (inv1 rii * Y (yo + i))
      (List.range i).foldl (fun Y j => setF Y (yo + j) (Y (yo + j) - gT A (o + j) (o + i) * Y (yo + i))) Ya) Y1
  (A, ⟨tau, f⟩, Y2)

end QRC

namespace BiCGStabL
open Amgcl.Solver.QR
variable {K : Type} [Add K] [Mul K] [Sub K] [Neg K] [Zero K] [One K] [Div K] [DecidableEq K] [LT K] [DecidableLT K]

/-- bicgstabl.hpp:317-366 -/
def polyCoefC (c : CplxOps K) (c07 : K) (L : Nat) (convex : Bool) (w : Work K) : Work K :=
  let MZb : FArr2 K := ⟨fun i j => if i ≤ L ∧ j ≤ L then w.MZa i j else w.MZb i j⟩
  if convex ∨ L = 1 then
    let Y0 := setF w.Y0 0 (-1)
    let q := QRC.solve c L L 1 w.MZa w.qr (fun t => MZb 0 (1 + t)) Y0 1 false
    { w with MZa := q.1, MZb := MZb, qr := q.2.1, Y0 := q.2.2 }
  else
    let Y0a := setF (setF w.Y0 0 (-1)) L 0
    let q0 := QRC.solve c (L - 1) (L - 1) 1 w.MZa w.qr (fun t => MZb 0 (1 + t)) Y0a 1 false
    let YLa := setF (setF w.YL 0 0) L (-1)
    let q1 := QRC.solve c (L - 1) (L - 1) 1 q0.1 q0.2.1 (fun t => MZb L (1 + t)) YLa 1 true
    let Y0 := q0.2.2
    let YL := q1.2.2
    let dots := (List.range (L + 1)).foldl (fun (d : K × K × K) i =>
        let ss := (List.range (L + 1)).foldl (fun (s : K × K) j =>
            let M := MZb j i                                                      -- coef_type M = MZb(j, i);
            (s.1 + M * Y0 j, s.2 + M * YL j)) ((0 : K), (0 : K))
        (d.1 + c.conj (Y0 i) * ss.1, d.2.1 + c.conj (YL i) * ss.1, d.2.2 + c.conj (YL i) * ss.2)) ((0 : K), (0 : K), (0 : K))
    let dot0 := dots.1          -- dot0 += math::adjoint(Y0[i]) * s0;
    let dotA := dots.2.1        -- dotA += math::adjoint(YL[i]) * s0;
    let dot1 := dots.2.2        -- dot1 += math::adjoint(YL[i]) * sL;
    let kappa0 := c.sqrtR (c.absR (c.re dot0))                                    -- kappa0 = sqrt(std::abs(std::real(dot0)));
    let kappa1 := c.sqrtR (c.absR (c.re dot1))                                    -- kappa1 = sqrt(std::abs(std::real(dot1)));
    let kappaA := c.re dotA                                                       -- kappaA = std::real(dotA);
    let Y0' :=
      if kappa0 ≠ 0 ∧ kappa1 ≠ 0 then
        let ghat :=
          if c.ltR kappaA (c07 * kappa0 * kappa1) then
            (if c.ltR kappaA 0 then (-c07) * kappa0 / kappa1 else c07 * kappa0 / kappa1)
          else kappaA / (kappa1 * kappa1)
        (List.range (L + 1)).foldl (fun Y i => setF Y i (Y i - ghat * YL i)) Y0
      else Y0
    { w with MZa := q1.1, MZb := MZb, qr := q1.2.1, Y0 := Y0', YL := YL }

/-- bicgstabl.hpp:302-416 -/
def polyPartC (c : CplxOps K) (prm : Params K) (ip : Vec K → Vec K → K) (sqrt : K → K) (c07 : K) (A : CRS K) (P : Vec K → Vec K)
    (zeta0 : K) (st : St K) : Except (Err × St K) (St K) :=
  let L := prm.L
  let w0 := st.w
  let w1 := polyCoefC c c07 L prm.convex { w0 with MZa := gramC c.conj ip L w0.R w0.MZa }
  let omega := (List.range L).foldl (fun om t => if om = 0 then w1.Y0 (L - t) else om) (w1.Y0 L)
  if omega = 0 then .error (.zeroOmega, { st with omega := omega, w := w1 }) else
  let X := linComb (combList L (fun i => w1.Y0 (1 + i)) w1.R.get) 1 w1.X
  let Yn := negY L w1.Y0
  let U0 := linComb (combList L (fun i => Yn (1 + i)) (fun i => w1.U (1 + i))) 1 (w1.U 0)
  let R0 := linComb (combList L (fun i => Yn (1 + i)) (fun i => w1.R (1 + i))) 1 (w1.R 0)
  let Y0 := negY L Yn
  let zeta := nrm ip sqrt R0
  let w2 : Work K := { w1 with X := X, U := setF w1.U 0 U0, R := setF w1.R 0 R0, Y0 := Y0 }
  let st2 : St K := { st with iter := st.iter + L, omega := omega, zeta := zeta, w := w2 }
  if 0 < prm.delta then
    let rnC := maxK zeta st.rnmaxC
    let rnT := maxK zeta st.rnmaxT
    let updateX : Bool := decide (zeta < prm.delta * zeta0) && !decide (rnC < zeta0)
    if (decide (zeta < prm.delta * rnT) && !decide (rnT < zeta)) || updateX then
      let rT := pspmv prm.pside P A w2.X (w2.R 0) w2.T
      let R0' := axpby 1 w2.B (-1) rT.1
      let w3 : Work K := { w2 with R := setF w2.R 0 R0', T := rT.2 }
      if updateX then
        let x := match prm.pside with
          | .left => axpby 1 w3.X 1 st.x
          | .right => axpby 1 w3.T 1 st.x
        .ok { st2 with rnmaxC := zeta, rnmaxT := zeta, x := x,
                       w := { w3 with X := vclear w3.X.size, B := vcopy R0' } }
      else .ok { st2 with rnmaxC := rnC, rnmaxT := zeta, w := w3 }
    else .ok { st2 with rnmaxC := rnC, rnmaxT := rnT }
  else .ok st2

def bodyC (c : CplxOps K) (prm : Params K) (ip : Vec K → Vec K → K) (sqrt : K → K) (c07 : K) (A : CRS K) (P : Vec K → Vec K)
    (epsT zeta0 : K) (st : St K) : Except (Err × St K) (St K) :=
  let st0 := { st with rho0 := (-st.omega) * st.rho0 }
  match bicgLoop prm ip sqrt A P epsT prm.L 0 st0 with
  | .error e => .error e
  | .ok st1 => if st1.done then .ok st1 else polyPartC c prm ip sqrt c07 A P zeta0 st1

def loopC (c : CplxOps K) (prm : Params K) (ip : Vec K → Vec K → K) (sqrt : K → K) (c07 : K) (A : CRS K) (P : Vec K → Vec K)
    (epsT zeta0 : K) : Nat → St K → Option Err × St K :=
  loopE (cond prm.maxiter epsT) (bodyC c prm ip sqrt c07 A P epsT zeta0)

def runC (c : CplxOps K) (prm : Params K) (ip : Vec K → Vec K → K) (sqrt : K → K) (eps c07 : K) (A : CRS K) (P : Vec K → Vec K)
    (ws : Work K) (f x0 : Vec K) : Run K (Work K) :=
  match prologue prm.nsSearch ip sqrt eps f with
  | .trivial n => (.ok (0, n), vclear x0.size, ws)
  | .go normRhs =>
    let st0 := init prm ip sqrt A P ws f x0
    let epsT := maxK (prm.tol * normRhs) prm.abstol
    match loopC c prm ip sqrt c07 A P epsT st0.zeta prm.maxiter st0 with
    | (none, st) =>
      let xw := finish prm.pside P st
      (.ok (st.iter, st.zeta / normRhs), xw.1, xw.2)
    | (some e, st) => (.error e, st.x, st.w)

def callC (c : CplxOps K) (prm : Params K) (ip : Vec K → Vec K → K) (sqrt : K → K) (eps c07 : K) (w : Work K) (cl : Call K) :
    Obs K × Work K :=
  let r := runC c prm ip sqrt eps c07 cl.A cl.P w cl.f cl.x0
  (r.obs, r.ws)

end BiCGStabL
end Amgcl.Solver
