import Amgcl.Model.Basic
import Amgcl.Model.IOCommon
/-!
# MatrixMarket reader and writer (`amgcl/io/mm.hpp`) — byte/line-level model, core Lean only

The file is a `List Byte`.  `std::getline` splits it into lines (`splitLines`); every `operator>>` the reader
applies to a line is modelled on the bytes of that line, consuming exactly what libstdc++ consumes:

* `>> std::string`  (`extractWord`)  — skip C-locale white space, take the maximal run of non-space bytes,
* `>> integer`      (`extractInt`)   — skip white space, optional `+`/`-`, maximal run of decimal digits; no digit
  or a value outside the target type sets `failbit` (unsigned targets accept `-` and negate modulo `2^bits`),
* `>> double`       (`floatTok`)     — skip white space, optional sign, then the `num_get` state machine
  (digits, at most one `.` before the exponent, one `e`/`E` after at least one mantissa digit, optional exponent
  sign); the accumulated token is handed to the *abstract* `Codec.parse` (libstdc++: `strtod` + full-consumption
  and overflow checks → `failbit`).

Abstracted (stated, not modelled): message texts of the exceptions (every `precondition`, `bad_alloc`,
`length_error` is the outcome `error`); the `reserve(_nnz)` calls (they can only fail when `nnz` exceeds what
memory holds, and then either the file has fewer lines — `error` anyway — or is itself larger than memory);
allocation failure of a `resize` is `k · sizeof > memLimit`, `memLimit` a parameter; locale other than "C";
`Val = char`.  `fixed = true` is the repaired reader (`repo_patches/fix_mm_index_range.patch`), `fixed = false`
the reader as it was (kept for the counterexample theorems); in the latter signed overflow is not modelled.
-/
namespace Amgcl.IO

/-! ### lexing -/

def isSpace (c : Byte) : Bool := c == 32 || (decide (9 ≤ c) && decide (c ≤ 13))
def isDigit (c : Byte) : Bool := decide (48 ≤ c) && decide (c ≤ 57)

/-- the lines successive `std::getline` calls return (a trailing newline does not start another line; a final
line without newline is returned as is) -/
def splitLines : Bytes → List Bytes
  | [] => []
  | c :: t =>
    if c = 10 then [] :: splitLines t
    else match splitLines t with
      | [] => [[c]]
      | l :: ls => (c :: l) :: ls

def skipWs (s : Bytes) : Bytes := s.dropWhile isSpace

/-- `is >> std::string` -/
def extractWord (s : Bytes) : Option (Bytes × Bytes) :=
  let s := skipWs s
  let w := s.takeWhile (fun c => !isSpace c)
  if w.isEmpty then none else some (w, s.dropWhile (fun c => !isSpace c))

def decVal (ds : Bytes) : Nat := ds.foldl (fun a d => 10 * a + (d - 48)) 0

/-- optional sign in front of a number -/
def splitSign : Bytes → Bool × Bytes
  | 45 :: t => (true, t)
  | 43 :: t => (false, t)
  | s => (false, s)

/-- conversion of the accumulated digits to the target type; `none` = overflow (`failbit`).  Unsigned targets
accept a minus sign and negate modulo `2^bits`. -/
def intOfDigits (signed : Bool) (bits : Nat) (neg : Bool) (v : Nat) : Option Int :=
  if signed then
    if neg then (if v ≤ 2 ^ (bits - 1) then some (-(v : Int)) else none)
    else (if v < 2 ^ (bits - 1) then some (v : Int) else none)
  else
    if v < 2 ^ bits then some (if neg then (((2 ^ bits - v) % 2 ^ bits : Nat) : Int) else (v : Int)) else none

/-- `is >> x` for an integer `x` of `bits` bits (`num_get::_M_extract_int`, base 10) -/
def extractInt (signed : Bool) (bits : Nat) (s : Bytes) : Option (Int × Bytes) :=
  let p := splitSign (skipWs s)
  let ds := p.2.takeWhile isDigit
  if ds.isEmpty then none
  else match intOfDigits signed bits p.1 (decVal ds) with
    | some v => some (v, p.2.dropWhile isDigit)
    | none => none

/-- state of `num_get::_M_extract_float`: mantissa digit seen, decimal point seen, exponent seen, and "the
previous character was the exponent letter" (only then a sign is accepted) -/
structure FState where
  mant : Bool
  dec : Bool
  sci : Bool
  afterE : Bool

/-- the accumulation loop of `_M_extract_float` ("C" locale): returns the accumulated characters and the
unconsumed rest -/
def scanFloat : FState → Bytes → Bytes × Bytes
  | _, [] => ([], [])
  | st, c :: t =>
    if st.afterE && (c = 43 || c = 45) then
      let r := scanFloat { st with afterE := false } t
      (c :: r.1, r.2)
    else if isDigit c then
      let r := scanFloat { st with mant := true, afterE := false } t
      (c :: r.1, r.2)
    else if c = 46 && !st.dec && !st.sci then
      let r := scanFloat { st with dec := true, afterE := false } t
      (46 :: r.1, r.2)
    else if (c = 101 || c = 69) && !st.sci && st.mant then
      let r := scanFloat { st with sci := true, afterE := true } t
      (101 :: r.1, r.2)
    else ([], c :: t)

/-- `is >> x` for a floating-point `x`, up to the conversion of the accumulated token -/
def floatTok (s : Bytes) : Bytes × Bytes :=
  let s := skipWs s
  match s with
  | 45 :: t => let r := scanFloat ⟨false, false, false, false⟩ t; (45 :: r.1, r.2)
  | 43 :: t => let r := scanFloat ⟨false, false, false, false⟩ t; (43 :: r.1, r.2)
  | _ => scanFloat ⟨false, false, false, false⟩ s

/-! ### decimal output of integers (`ostream << size_t / int`) -/

def natDecAux : Nat → Nat → Bytes → Bytes
  | 0, _, acc => acc
  | f + 1, n, acc => if n < 10 then (48 + n) :: acc else natDecAux f (n / 10) ((48 + n % 10) :: acc)
def natDec (n : Nat) : Bytes := natDecAux (n + 1) n []
def intDec (i : Int) : Bytes := if i < 0 then 45 :: natDec i.natAbs else natDec i.natAbs

/-! ### value kinds -/

/-- scalar text codec: `print` is `os << std::scientific << std::setprecision(20) << x`, `parse` the conversion
of an accumulated `num_get` token (`none` = `failbit`).  Abstract in every theorem. -/
structure Codec (S : Type) where
  print : S → Bytes
  parse : Bytes → Option S

/-- what the templates know about the caller's `Val` type -/
structure ValKind (V : Type) where
  isComplex : Bool            -- `amgcl::is_complex<Val>::value`
  isIntegral : Bool           -- `std::is_integral<Val>::value`
  size : Nat                  -- `sizeof(Val)`
  zero : V                    -- `Val()` (what `resize` fills in)
  read : Bytes → Option (V × Bytes)   -- `read_value<Val>(is)` on the rest of a line
  write : V → Bytes                   -- `detail::write_value(os, v)`

def readScalar {S} (c : Codec S) (s : Bytes) : Option (S × Bytes) :=
  let r := floatTok s
  match c.parse r.1 with
  | some x => some (x, r.2)
  | none => none

def realKind {S} (c : Codec S) (zero : S) : ValKind S where
  isComplex := false
  isIntegral := false
  size := 8
  zero := zero
  read := readScalar c
  write := c.print

def complexKind {S} (c : Codec S) (zero : S) : ValKind (S × S) where
  isComplex := true
  isIntegral := false
  size := 16
  zero := (zero, zero)
  read := fun s =>
    match readScalar c s with
    | some (x, s') => (match readScalar c s' with
        | some (y, s'') => some ((x, y), s'')
        | none => none)
    | none => none
  write := fun v => c.print v.1 ++ 32 :: c.print v.2

/-- `Val = int` -/
def intKind : ValKind Int where
  isComplex := false
  isIntegral := true
  size := 4
  zero := 0
  read := extractInt true 32
  write := intDec

/-! ### the constructor `mm_reader::mm_reader` (mm.hpp:55-108) -/

def kwBanner : Bytes := [37, 37, 77, 97, 116, 114, 105, 120, 77, 97, 114, 107, 101, 116]  -- "%%MatrixMarket"
def kwMatrix : Bytes := [109, 97, 116, 114, 105, 120]                                     -- "matrix"
def kwGeneral : Bytes := [103, 101, 110, 101, 114, 97, 108]                               -- "general"
def kwSymmetric : Bytes := [115, 121, 109, 109, 101, 116, 114, 105, 99]                   -- "symmetric"
def kwCoordinate : Bytes := [99, 111, 111, 114, 100, 105, 110, 97, 116, 101]              -- "coordinate"
def kwArray : Bytes := [97, 114, 114, 97, 121]                                            -- "array"
def kwReal : Bytes := [114, 101, 97, 108]                                                 -- "real"
def kwComplex : Bytes := [99, 111, 109, 112, 108, 101, 120]                               -- "complex"
def kwInteger : Bytes := [105, 110, 116, 101, 103, 101, 114]                              -- "integer"

structure MMHeader where
  sparse : Bool
  symmetric : Bool
  complex : Bool
  integer : Bool
  sizeLine : Bytes
  body : List Bytes
  deriving DecidableEq, Repr

/-- `do getline while (line[0] == '%')`; an empty line has `line[0] == '\0'` -/
def skipComments : List Bytes → Option (Bytes × List Bytes)
  | [] => none
  | l :: ls => if l.head? = some 37 then skipComments ls else some (l, ls)

def parseBanner (line : Bytes) : Option (Bool × Bool × Bool × Bool) :=
  match extractWord line with
  | none => none
  | some (banner, s) =>
  match extractWord s with
  | none => none
  | some (mtx, s) =>
  match extractWord s with
  | none => none
  | some (coord, s) =>
  match extractWord s with
  | none => none
  | some (dtype, s) =>
  match extractWord s with
  | none => none
  | some (storage, _) =>
    if banner ≠ kwBanner then none
    else if mtx ≠ kwMatrix then none
    else if storage ≠ kwGeneral ∧ storage ≠ kwSymmetric then none
    else if coord ≠ kwCoordinate ∧ coord ≠ kwArray then none
    else if dtype ≠ kwReal ∧ dtype ≠ kwComplex ∧ dtype ≠ kwInteger then none
    else some (decide (coord = kwCoordinate), decide (storage = kwSymmetric),
               decide (dtype = kwComplex), decide (dtype = kwInteger))

def mmOpen (file : Bytes) : Outcome MMHeader :=
  match splitLines file with
  | [] => .error
  | bl :: rest =>
    match parseBanner bl with
    | none => .error
    | some (sp, sy, cx, ig) =>
      match skipComments rest with
      | none => .error
      | some (sl, body) =>
        -- `is >> nrows >> ncols` with `size_t` targets
        match extractInt false 64 sl with
        | none => .error
        | some (_, s) =>
          match extractInt false 64 s with
          | none => .error
          | some _ => .ok ⟨sp, sy, cx, ig, sl, body⟩

/-! ### sparse read `mm_reader::operator()(ptr, col, val, row_beg, row_end)` (mm.hpp:129-237) -/
section sparse
variable {V : Type}

/-- one coordinate line: `is >> i >> j`, (repaired code: range check), `read_value`, `i -= 1; j -= 1` -/
def parseEntry (fixed : Bool) (n m : Int) (vk : ValKind V) (line : Bytes) : Outcome (Int × Int × V) :=
  match extractInt true 64 line with
  | none => .error
  | some (i, s) =>
    match extractInt true 64 s with
    | none => .error
    | some (j, s) =>
      if fixed && !(decide (1 ≤ i) && decide (i ≤ n) && decide (1 ≤ j) && decide (j ≤ m)) then .error
      else match vk.read s with
        | none => .error
        | some (v, _) => .ok (i - 1, j - 1, v)

/-- the loop `for k < nnz: getline; parse` -/
def parseEntries (fixed : Bool) (n m : Int) (vk : ValKind V) : Nat → List Bytes → Outcome (List (Int × Int × V))
  | 0, _ => .ok []
  | _ + 1, [] => .error
  | k + 1, l :: ls =>
    match parseEntry fixed n m vk l with
    | .ok e => (match parseEntries fixed n m vk k ls with
        | .ok es => .ok (e :: es)
        | .error => .error
        | .oob => .oob)
    | .error => .error
    | .oob => .oob

/-- the row-range filter and the symmetric mirror: what is pushed to `_row/_col/_val`, in order -/
def keepEntries (sym : Bool) (b e : Int) : List (Int × Int × V) → List (Nat × Int × V)
  | [] => []
  | (i, j, v) :: t =>
    (if b ≤ i ∧ i < e then [((i - b).toNat, j, v)] else []) ++
    ((if sym = true ∧ i ≠ j ∧ b ≤ j ∧ j < e then [((j - b).toNat, i, v)] else []) ++
     keepEntries sym b e t)

/-- `++ptr[k]`, bounds-checked -/
def incrAt (l : List Int) (k : Nat) : Option (List Int) :=
  if h : k < l.length then some (l.set k (l[k] + 1)) else none

/-- `std::partial_sum(ptr.begin(), ptr.end(), ptr.begin())` -/
def partialSumFrom (acc : Int) : List Int → List Int
  | [] => []
  | x :: t => (acc + x) :: partialSumFrom (acc + x) t
def partialSum (l : List Int) : List Int := partialSumFrom 0 l

/-- one iteration of the scatter loop (mm.hpp:215-223) on `(ptr, col/val)` -/
def scatterStep (st : List Int × List (Int × V)) (e : Nat × Int × V) : Option (List Int × List (Int × V)) :=
  match st.1[e.1]? with
  | none => none
  | some head =>
    if 0 ≤ head ∧ head.toNat < st.2.length then
      some (st.1.set e.1 (head + 1), st.2.set head.toNat (e.2.1, e.2.2))
    else none

def foldlOpt {σ α : Type} (f : σ → α → Option σ) : σ → List α → Option σ
  | s, [] => some s
  | s, a :: t => match f s a with
    | some s' => foldlOpt f s' t
    | none => none

/-- count, prefix-sum, scatter, rotate, sort (mm.hpp:177, 194/202, 210-234) with every index checked -/
def assemble (zero : V) (chunk : Nat) (ncols : Nat) (kept : List (Nat × Int × V)) : Outcome (RawCRS V) :=
  match foldlOpt (fun p (e : Nat × Int × V) => incrAt p (e.1 + 1)) (List.replicate (chunk + 1) (0 : Int)) kept with
  | none => .oob
  | some cnt =>
    let ptr := partialSum cnt
    match ptr.getLast? with
    | none => .oob
    | some total =>
      if total < 0 then .error          -- `col.resize(negative)` → `std::length_error`
      else if kept.length < total.toNat then .oob      -- the scatter loop would read past `_row`
      else
        match foldlOpt scatterStep (ptr, List.replicate total.toNat ((0 : Int), zero)) (kept.take total.toNat) with
        | none => .oob
        | some (ptr', cv) =>
          -- `std::rotate(begin, end-1, end); ptr.front() = 0`
          let ptr'' := (0 : Int) :: ptr'.dropLast
          match sortRows wrap32 ptr'' cv with
          | none => .oob
          | some cv' => .ok ⟨chunk, ncols, ptr'', cv'.map (·.1), cv'.map (·.2)⟩

def wrapU64 (x : Int) : Nat := (x % 18446744073709551616).toNat

/-- what the sparse `operator()` knows after its checks on banner flags and the size line -/
structure SparseHeader where
  sym : Bool
  n : Int
  m : Int
  nnz : Nat
  body : List Bytes

/-- kind checks, `is >> n >> m >> nnz` (`ptrdiff_t, ptrdiff_t, size_t`), repaired code: size sanity -/
def mmSparseHeader (fixed : Bool) (vk : ValKind V) (file : Bytes) : Outcome SparseHeader :=
  match mmOpen file with
  | .error => .error
  | .oob => .oob
  | .ok h =>
    if !h.sparse then .error
    else if vk.isComplex != h.complex then .error
    else if vk.isIntegral != h.integer then .error
    else
    match extractInt true 64 h.sizeLine with
    | none => .error
    | some (n, s) =>
    match extractInt true 64 s with
    | none => .error
    | some (m, s) =>
    match extractInt false 64 s with
    | none => .error
    | some (nnz, _) =>
      if fixed && !(decide (0 ≤ n) && decide (0 ≤ m) && (!h.symmetric || decide (n = m))) then .error
      else .ok ⟨h.symmetric, n, m, nnz.toNat, h.body⟩

/-- `ptr.resize(chunk + 1)`, the entry loop, the assembly -/
def mmSparseBody (fixed : Bool) (memLimit : Nat) (vk : ValKind V) (h : SparseHeader) (b e : Int) :
    Outcome (RawCRS V) :=
  let chunk := e - b
  if chunk + 1 < 0 then .error
  else if (chunk + 1) * 8 > (memLimit : Int) then .error
  else
  match parseEntries fixed h.n h.m vk h.nnz h.body with
  | .error => .error
  | .oob => .oob
  | .ok entries =>
    if chunk + 1 = 0 then .oob       -- unrepaired code only: `ptr.back()` of an empty vector
    else assemble vk.zero chunk.toNat (wrapU64 h.m) (keepEntries h.sym b e entries)

def mmReadSparse (fixed : Bool) (memLimit : Nat) (vk : ValKind V) (file : Bytes) (rowBeg rowEnd : Int) :
    Outcome (RawCRS V) :=
  match mmSparseHeader fixed vk file with
  | .error => .error
  | .oob => .oob
  | .ok h =>
    match rowRange fixed h.n rowBeg rowEnd with
    | none => .error
    | some (b, e) => mmSparseBody fixed memLimit vk h b e

end sparse

/-! ### dense read `mm_reader::operator()(val, row_beg, row_end)` (mm.hpp:239-287) -/
section dense
variable {V : Type}

/-- the double loop `for j < m: for i < n: getline; if in range: val[(i-b)*m+j] = read_value` flattened to the
cell counter `k = j*n + i`; returns the assignments in order -/
def denseCells (vk : ValKind V) (n m b e : Int) : Nat → Nat → List Bytes → Outcome (List (Int × V))
  | 0, _, _ => .ok []
  | _ + 1, _, [] => .error
  | r + 1, k, l :: ls =>
    let i := (k : Int) % n
    let j := (k : Int) / n
    if b ≤ i ∧ i < e then
      match vk.read l with
      | none => .error
      | some (v, _) =>
        match denseCells vk n m b e r (k + 1) ls with
        | .ok rest => .ok (((i - b) * m + j, v) :: rest)
        | .error => .error
        | .oob => .oob
    else denseCells vk n m b e r (k + 1) ls

def setAt (l : List V) (a : Int × V) : Option (List V) :=
  if 0 ≤ a.1 ∧ a.1.toNat < l.length then some (l.set a.1.toNat a.2) else none

structure DenseHeader where
  n : Int
  m : Int
  body : List Bytes

def mmDenseHeader (fixed : Bool) (vk : ValKind V) (file : Bytes) : Outcome DenseHeader :=
  match mmOpen file with
  | .error => .error
  | .oob => .oob
  | .ok h =>
    if h.sparse then .error
    else if vk.isComplex != h.complex then .error
    else if vk.isIntegral != h.integer then .error
    else
    match extractInt true 64 h.sizeLine with
    | none => .error
    | some (n, s) =>
    match extractInt true 64 s with
    | none => .error
    | some (m, _) =>
      if fixed && !(decide (0 ≤ n) && decide (0 ≤ m)) then .error
      else .ok ⟨n, m, h.body⟩

/-- `val.resize(chunk * m)` (repaired code: overflow of the product is a precondition; it exceeds `memLimit`
in any case), the cell loop -/
def mmDenseBody (memLimit : Nat) (vk : ValKind V) (h : DenseHeader) (b e : Int) : Outcome (RawDense V) :=
  let chunk := e - b
  let sz := chunk * h.m
  if sz < 0 then .error
  else if sz * vk.size > (memLimit : Int) then .error
  else
  match denseCells vk h.n h.m b e (h.n * h.m).toNat 0 h.body with
  | .error => .error
  | .oob => .oob
  | .ok cells =>
    match foldlOpt setAt (List.replicate sz.toNat vk.zero) cells with
    | none => .oob
    | some val => .ok ⟨wrapU64 chunk, wrapU64 h.m, val⟩

def mmReadDense (fixed : Bool) (memLimit : Nat) (vk : ValKind V) (file : Bytes) (rowBeg rowEnd : Int) :
    Outcome (RawDense V) :=
  match mmDenseHeader fixed vk file with
  | .error => .error
  | .oob => .oob
  | .ok h =>
    match rowRange fixed h.n rowBeg rowEnd with
    | none => .error
    | some (b, e) => mmDenseBody memLimit vk h b e

end dense

/-! ### writers `mm_write` (mm.hpp:347-414) -/
section write
variable {V : Type}

def kindWord (vk : ValKind V) : Bytes :=
  if vk.isComplex then kwComplex ++ [32] else if vk.isIntegral then kwInteger ++ [32] else kwReal ++ [32]

def writeRow (vk : ValKind V) (i : Nat) : Row V → Bytes
  | [] => []
  | (c, v) :: t => natDec (i + 1) ++ 32 :: (natDec (c + 1) ++ 32 :: (vk.write v ++ 10 :: writeRow vk i t))

def writeRows (vk : ValKind V) : Nat → List (Row V) → Bytes
  | _, [] => []
  | i, r :: rs => writeRow vk i r ++ writeRows vk (i + 1) rs

/-- sparse `mm_write(fname, A)` -/
def mmWriteSparse (vk : ValKind V) (A : CRS V) : Bytes :=
  kwBanner ++ 32 :: (kwMatrix ++ 32 :: (kwCoordinate ++ 32 :: (kindWord vk ++ (kwGeneral ++ 10 ::
  (natDec A.nrows ++ 32 :: (natDec A.ncols ++ 32 :: (natDec A.nnz ++ 10 :: writeRows vk 0 A.rows.toList)))))))

/-- dense `mm_write(fname, data, rows, cols)`: column-major text of a row-major array -/
def mmWriteDense (vk : ValKind V) (D : RawDense V) : Bytes :=
  kwBanner ++ 32 :: (kwMatrix ++ 32 :: (kwArray ++ 32 :: (kindWord vk ++ (kwGeneral ++ 10 ::
  (natDec D.nrows ++ 32 :: (natDec D.ncols ++ 10 ::
    (List.range D.ncols).flatMap (fun j => (List.range D.nrows).flatMap (fun i =>
      vk.write (D.val.getD (i * D.ncols + j) vk.zero) ++ [10]))))))))

end write

end Amgcl.IO
