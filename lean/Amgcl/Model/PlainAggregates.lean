import Amgcl.Model.CoarseningCommon
/-!
# `coarsening::plain_aggregates` (plain_aggregates.hpp:113-207), modelled loop by loop

The constructor runs four loops:

1. strength of connection (l.126-138): `strong_connection[j] = (c != i) && (eps_dia_i * dia[c] < v*v)`
   with `eps_dia_i = eps_squared * dia[i]` and `dia = backend::diagonal(A)` (first stored entry with
   `col == i`; `numa_vector<V>(n,false)` leaves a missing diagonal value-initialised for class types — `0` at the
   exact type `Q`, *uninitialised* for `double`: that is C10's business, here it is `0`);
2. removal of rows without strong connection (l.142-156);
3. the greedy pass (l.161-190) — a seed claims all its strong, non-removed neighbours (also those that already
   belong to an earlier aggregate, even earlier *seeds*), then marks the still undefined strong neighbours of
   those neighbours;
4. `count == 0 → throw empty_level`, and renumbering of vanished aggregates (l.192-206).

Loops 2–4 only see the pattern and the flags; they are `aggregateIds`/`renumber` over a *strength graph*
`SGraph` (per row the stored `(column, flag)` pairs), so that the theorems hold for all flag arrays.
-/
namespace Amgcl

/-- per row: the stored `(column, strong_connection flag)` pairs, in stored order -/
abbrev SGraph := Array (List (Nat × Bool))

namespace SGraph
@[inline] def row (G : SGraph) (i : Nat) : List (Nat × Bool) := G.getD i []
/-- every stored column is a row index -/
def WF (G : SGraph) : Prop := ∀ r ∈ G.toList, ∀ cs ∈ r, cs.1 < G.size
def wfb (G : SGraph) : Bool := G.toList.all (fun r => r.all (fun cs => decide (cs.1 < G.size)))
/-- no diagonal entry is flagged strong (what `strongConnections` guarantees through `c != i`) -/
def OffDiag (G : SGraph) : Prop := ∀ i, ∀ cs ∈ G.row i, cs.2 = true → cs.1 ≠ i
/-- row `i` has at least one flagged entry -/
def hasStrong (G : SGraph) (i : Nat) : Bool := (G.row i).any (·.2)
end SGraph

/-- the columns of `A` paired with a row-wise flag array -/
def zipGraph {K : Type} (A : CRS K) (S : Array (List Bool)) : SGraph :=
  Array.ofFn (n := A.nrows) fun i => (A.row i.val).zipWith (fun cv s => (cv.1, s)) (S.getD i.val [])

namespace Coarsening
section strength
variable {K : Type} [Mul K] [Zero K] [LT K] [DecidableLT K]

/-- `backend::diagonal(A)[i]` (builtin.hpp:752-773): the first stored entry with `col == i` -/
def rowDiag (i : Nat) (r : Row K) : K :=
  match r.find? (fun cv => cv.1 == i) with
  | some cv => cv.2
  | none => 0

def diagonal (A : CRS K) : Vec K := Array.ofFn (n := A.nrows) fun i => rowDiag i.val (A.row i.val)

/-- lines 129-138 for one row -/
def strongRow (epsSq : K) (dia : Vec K) (i : Nat) (r : Row K) : List Bool :=
  let epsDiaI := epsSq * dia.getD i 0
  r.map fun cv => decide (cv.1 ≠ i) && decide (epsDiaI * dia.getD cv.1 0 < cv.2 * cv.2)

end strength
end Coarsening

section strength
variable {K : Type} [Mul K] [Zero K] [LT K] [DecidableLT K]

/-- step 1: the `strong_connection` array, row-wise -/
def strongConnections (epsSq : K) (A : CRS K) : Array (List Bool) :=
  let dia := Coarsening.diagonal A
  Array.ofFn (n := A.nrows) fun i => Coarsening.strongRow epsSq dia i.val (A.row i.val)

end strength

namespace Coarsening

/-- step 2 (l.144-156): `removed` for rows without a strong entry, `undefined` otherwise -/
def initIds (G : SGraph) : Array Int :=
  G.map fun r => if r.any (·.2) then aggrUndefined else aggrRemoved

/-- l.172-178: the seed's strong neighbours that are not `removed` join `cur` and are recorded in `neib` -/
def ring1 (cur : Int) (r : List (Nat × Bool)) (st : Array Int × Array Nat) : Array Int × Array Nat :=
  r.foldl (fun st cs =>
    if cs.2 && st.1.getD cs.1 0 != aggrRemoved then (st.1.setIfInBounds cs.1 cur, st.2.push cs.1) else st) st

/-- l.184-188 for one recorded neighbour `c` -/
def ring2Row (cur : Int) (r : List (Nat × Bool)) (id : Array Int) : Array Int :=
  r.foldl (fun id cs => if cs.2 && id.getD cs.1 0 == aggrUndefined then id.setIfInBounds cs.1 cur else id) id

/-- l.183-189: still undefined strong neighbours of the recorded neighbours are (temporarily) marked -/
def ring2 (G : SGraph) (cur : Int) (neib : Array Nat) (id : Array Int) : Array Int :=
  neib.foldl (fun id c => ring2Row cur (G.row c) id) id

/-- one iteration of the loop l.162-190; state = `(count, id)` -/
def aggrStep (G : SGraph) (st : Nat × Array Int) (i : Nat) : Nat × Array Int :=
  if st.2.getD i 0 != aggrUndefined then st else
    let cur : Int := (st.1 : Int)
    let r1 := ring1 cur (G.row i) (st.2.setIfInBounds i cur, #[])
    (st.1 + 1, ring2 G cur r1.2 r1.1)

/-- l.196-198: `cnt[i] = 1` for every used aggregate number -/
def usedMarks (count : Nat) (id : Array Int) : Array Int :=
  id.foldl (fun cnt v => if v ≥ 0 then cnt.setIfInBounds v.toNat 1 else cnt) (Array.replicate count 0)

/-- `std::partial_sum(cnt.begin(), cnt.end(), cnt.begin())` -/
def partialSum (a : Array Int) : Array Int :=
  (a.foldl (fun (acc : Array Int × Int) v => (acc.1.push (acc.2 + v), acc.2 + v)) (#[], 0)).1

/-- l.196-206 (`count > 0`): drop the numbers of vanished aggregates -/
def renumber (count : Nat) (id : Array Int) : Nat × Array Int :=
  let cnt := partialSum (usedMarks count id)
  let last := cnt.getD (count - 1) 0
  if (count : Int) > last then
    (last.toNat, id.map fun v => if v ≥ 0 then cnt.getD v.toNat 0 - 1 else v)
  else (count, id)

end Coarsening

/-- steps 2 and 3: `(count, id)` after the greedy pass, before the `empty_level` test and the renumbering -/
def aggregateIds (G : SGraph) : Nat × Array Int :=
  (List.range G.size).foldl (Coarsening.aggrStep G) (0, Coarsening.initIds G)

/-- steps 2–4 on a strength graph -/
def aggregatesOfGraph (G : SGraph) : Outcome (Nat × Array Int) :=
  let ci := aggregateIds G
  if ci.1 = 0 then .emptyLevel else .ok (Coarsening.renumber ci.1 ci.2)

section strength
variable {K : Type} [Mul K] [Zero K] [LT K] [DecidableLT K]

/-- the constructor `plain_aggregates(A, prm)`; `epsSq` is the C++ local `eps_squared` -/
def plainAggregates (epsSq : K) (A : CRS K) : Outcome Aggregates :=
  let S := strongConnections epsSq A
  match aggregatesOfGraph (zipGraph A S) with
  | .ok ci => .ok { count := ci.1, strong := S, id := ci.2 }
  | .emptyLevel => .emptyLevel
  | .precondition => .precondition

end strength

end Amgcl
