import Amgcl.Model.ScheduleSort
/-!
# Step 4 of the level-scheduling constructors and the loops of `sweep` / `solve` over the thread-local tables (C09)

`gauss_seidel.hpp` (`parallel_sweep`: "4. reorganize matrix data for better cache and NUMA locality", `sweep`) and
`detail/ilu_solve.hpp` (`sptr_solve`: the same step 4 plus `D[tid]`, `solve`).  Step 4 copies, per thread, the rows
the thread owns into thread-local CRS arrays in the order of the thread's tasks, and re-bases every `task(beg,end)`
from positions into `order` to thread-local row numbers:

```
col[tid].reserve(thread_cols[tid]); …; ptr[tid].push_back(0);               -- Loc.init  (threadCounts: step 3)
for(task &t : tasks[tid]) {                                                   -- locFill
    ptrdiff_t loc_beg = ptr[tid].size() - 1;  ptrdiff_t loc_end = loc_beg;    -- locFillTask
    for(ptrdiff_t r = t.beg; r < t.end; ++r, ++loc_end) {
        ptrdiff_t i = order[r];
        if (!lower) D[tid].push_back(_D[i]);                                  -- locPushRow   (ILU only)
        ord[tid].push_back(i);
        for(a in row i of A) { col[tid].push_back(a.col()); val[tid].push_back(a.value()); }
        ptr[tid].push_back(col[tid].size());
    }
    t.beg = loc_beg;  t.end = loc_end;
}
```

`sweep` / `solve` then never look at `A` again:

```
for(const task &t : tasks[tid]) {
    for(ptrdiff_t r = t.beg; r < t.end; ++r) {                                -- gsLocRow / iluLocRow
        ptrdiff_t i = ord[tid][r], beg = ptr[tid][r], end = ptr[tid][r+1];
        …  for(ptrdiff_t j = beg; j < end; ++j) { c = col[tid][j]; v = val[tid][j]; … }  …
    }
#pragma omp barrier
}
```

The unit of execution is therefore an *event* `(tid, r)`: local row `r` of thread `tid`.  `ExecLoc sk Ls σ` is the set
of event sequences the loop/pragma skeleton `sk` admits over the literal tables `Ls` (the per-thread task lists
interleaved arbitrarily; with the barrier, task number `lev` of every thread finishes before task `lev+1` of any
thread starts).  `Amgcl/Proofs/SchedLocal.lean` proves that the local rows are the rows of `A` and that an event
executes `gsRow A rhs · (ord[tid][r])`; `Properties/C09b.lean` lifts the C09 theorems to this layout.
Core Lean only.
-/
namespace Amgcl.Sched

/-- the thread-specific storage of one thread: `tasks[tid]`, `ptr[tid]`, `col[tid]`, `val[tid]`, `ord[tid]`, `D[tid]` -/
structure Loc (K : Type) where
  tasks : List (Nat × Nat)
  ptr : Array Nat
  col : Array Nat
  val : Array K
  ord : Array Nat
  D : Array K
  deriving DecidableEq, Repr

/-- an event of `sweep`/`solve`: `(tid, r)` = the iteration `r` of the row loop of thread `tid` -/
abbrev Ev := Nat × Nat

section tables
variable {K : Type} [Zero K]

/-- no storage (what `getD` returns for a thread number outside the team) -/
def Loc.empty : Loc K := ⟨[], #[], #[], #[], #[], #[]⟩

/-- at entry of the task loop of step 4: all vectors empty (`reserve` does not change a size),
`ptr[tid].push_back(0)` -/
def Loc.init : Loc K := ⟨[], #[0], #[], #[], #[], #[]⟩

/-- the stored entries of local row `r`: `(col[tid][j], val[tid][j])` for `j = ptr[tid][r] .. ptr[tid][r+1]-1` -/
def Loc.row (L : Loc K) (r : Nat) : Row K :=
  (List.range (L.ptr.getD (r + 1) 0 - L.ptr.getD r 0)).map fun k =>
    (L.col.getD (L.ptr.getD r 0 + k) 0, L.val.getD (L.ptr.getD r 0 + k) 0)

/-- step 3, the counters: `thread_rows[tid] += end - beg; for(i = beg; i < end; ++i) thread_cols[tid] +=
row_nonzeros(A, order[i]);` over the tasks of one thread (positions into `order`) -/
def threadCounts (A : CRS K) (order : Array Nat) (tasks : List (Nat × Nat)) : Nat × Nat :=
  tasks.foldl (fun (rc : Nat × Nat) t =>
    (rc.1 + (t.2 - t.1),
     (List.range (t.2 - t.1)).foldl (fun c k => c + (A.row (order.getD (t.1 + k) 0)).length) rc.2)) (0, 0)

/-- `for(a in row i) { col[tid].push_back(a.col()); val[tid].push_back(a.value()); }` -/
def pushEntries (row : Row K) (col : Array Nat) (val : Array K) : Array Nat × Array K :=
  row.foldl (fun (cv : Array Nat × Array K) a => (cv.1.push a.1, cv.2.push a.2)) (col, val)

/-- body of the row loop of step 4 for the row `i = order[r]`.  `hasD` = `!lower` of `sptr_solve` (false for
Gauss–Seidel, which has no `D`); `Dv` = `_D`. -/
def locPushRow (A : CRS K) (hasD : Bool) (Dv : Vec K) (st : Loc K) (i : Nat) : Loc K :=
  let D := if hasD then st.D.push (Dv.getD i 0) else st.D
  let ord := st.ord.push i
  let cv := pushEntries (A.row i) st.col st.val
  { st with D := D, ord := ord, col := cv.1, val := cv.2, ptr := st.ptr.push cv.1.size }

/-- one iteration of the task loop of step 4: `t` holds positions into `order`; the re-based task
`(loc_beg, loc_end)` is appended to the (already re-based) tasks in front of it -/
def locFillTask (A : CRS K) (hasD : Bool) (Dv : Vec K) (order : Array Nat) (st : Loc K) (t : Nat × Nat) : Loc K :=
  let loc_beg := st.ptr.size - 1
  let r := (List.range (t.2 - t.1)).foldl
    (fun (s : Loc K × Nat) k => (locPushRow A hasD Dv s.1 (order.getD (t.1 + k) 0), s.2 + 1)) (st, loc_beg)
  { r.1 with tasks := r.1.tasks ++ [(loc_beg, r.2)] }

/-- step 4 for one thread whose tasks (step 3, positions into `order`) are `tasks` -/
def locFill (A : CRS K) (hasD : Bool) (Dv : Vec K) (order : Array Nat) (tasks : List (Nat × Nat)) : Loc K :=
  tasks.foldl (locFillTask A hasD Dv order) Loc.init

/-- steps 2–4 of both constructors from the `(level, nlev)` of step 1: the thread-specific storage of every thread -/
def constructorLoc (A : CRS K) (hasD : Bool) (Dv : Vec K) (ln : Array Nat × Nat) (nt : Nat) : List (Loc K) :=
  let cs := countingSortLitN ln.1 ln.2
  (tasksLit cs.2 ln.2 nt).map (locFill A hasD Dv cs.1)

/-- `parallel_sweep<fwd>(A)` constructed in a team of `nt` threads (the level loop of the repaired tree) -/
def gsConstructorLoc (fwd : Bool) (A : CRS K) (nt : Nat) : List (Loc K) :=
  constructorLoc A false #[] (gsLevelsN fwd (pattern A)) nt

/-- … with the level loop of the unpatched tree -/
def gsAsIsConstructorLoc (fwd : Bool) (A : CRS K) (nt : Nat) : List (Loc K) :=
  constructorLoc A false #[] (gsLevelsAsIsN fwd (pattern A)) nt

/-- `sptr_solve<lower>(A, _D)` constructed in a team of `nt` threads -/
def iluConstructorLoc (lower : Bool) (A : CRS K) (Dv : Vec K) (nt : Nat) : List (Loc K) :=
  constructorLoc A (!lower) Dv (iluLevelsN lower (pattern A)) nt

/-- the locations of `x` the scan of local row `r` reads, in program order: `x[col[tid][j]]`, `j = ptr[tid][r] ..
ptr[tid][r+1]-1` (the tables `ord/ptr/col/val/D` themselves are only read by `sweep`/`solve`, never written) -/
def Loc.cols (L : Loc K) (r : Nat) : List Nat :=
  (List.range (L.ptr.getD (r + 1) 0 - L.ptr.getD r 0)).map fun k => L.col.getD (L.ptr.getD r 0 + k) 0

/-- loads of `x` by `parallel_sweep::sweep` in local row `r`: every stored column except `i = ord[tid][r]` -/
def gsLocLoads (L : Loc K) (r : Nat) : List Nat := (L.cols r).filter (fun c => c != L.ord.getD r 0)

/-- loads of `x` by `sptr_solve::solve` in local row `r`: every stored column, then `x[i]` -/
def iluLocLoads (L : Loc K) (r : Nat) : List Nat := L.cols r ++ [L.ord.getD r 0]

/-- `ord[tid][r]` -/
def rowOfEv (Ls : List (Loc K)) (e : Ev) : Nat := (Ls.getD e.1 Loc.empty).ord.getD e.2 0

end tables

/-! ## the loops of `sweep` / `solve` -/
section loops
variable {K : Type} [Add K] [Mul K] [Sub K] [Zero K] [One K] [Div K]

/-- `D = identity; X = rhs[i]; for(j = beg; j < end; ++j) { c = col[tid][j]; v = val[tid][j];
if (c == i) D = v; else X -= v * x[c]; }` -/
def gsLocScan (L : Loc K) (rhs x : Vec K) (i beg end_ : Nat) : K × K :=
  (List.range (end_ - beg)).foldl (fun (DX : K × K) k =>
    let c := L.col.getD (beg + k) 0
    let v := L.val.getD (beg + k) 0
    if c = i then (v, DX.2) else (DX.1, DX.2 - v * x.getD c 0)) (1, rhs.getD i 0)

/-- body of the row loop of `parallel_sweep::sweep` for local row `r` -/
def gsLocRow (L : Loc K) (rhs x : Vec K) (r : Nat) : Vec K :=
  let i := L.ord.getD r 0
  let DX := gsLocScan L rhs x i (L.ptr.getD r 0) (L.ptr.getD (r + 1) 0)
  x.setIfInBounds i ((1 / DX.1) * DX.2)

/-- `X = zero; for(j = beg; j < end; ++j) X += val[tid][j] * x[col[tid][j]];` -/
def iluLocDot (L : Loc K) (x : Vec K) (beg end_ : Nat) : K :=
  (List.range (end_ - beg)).foldl (fun X k => X + L.val.getD (beg + k) 0 * x.getD (L.col.getD (beg + k) 0) 0) 0

/-- body of the row loop of `sptr_solve<lower>::solve` for local row `r`:
`if (lower) x[i] -= X; else x[i] = D[tid][r] * (x[i] - X);` -/
def iluLocRow (lower : Bool) (L : Loc K) (x : Vec K) (r : Nat) : Vec K :=
  let i := L.ord.getD r 0
  let X := iluLocDot L x (L.ptr.getD r 0) (L.ptr.getD (r + 1) 0)
  x.setIfInBounds i (if lower then x.getD i 0 - X else L.D.getD r 0 * (x.getD i 0 - X))

/-- the row loop of one task: `for(r = t.beg; r < t.end; ++r)` -/
def locTaskRows (t : Nat × Nat) : List Nat := (List.range (t.2 - t.1)).map fun k => t.1 + k

/-- one thread running one of its tasks without interruption -/
def gsLocTask (L : Loc K) (rhs : Vec K) (x : Vec K) (t : Nat × Nat) : Vec K :=
  (locTaskRows t).foldl (gsLocRow L rhs) x

def iluLocTask (lower : Bool) (L : Loc K) (x : Vec K) (t : Nat × Nat) : Vec K :=
  (locTaskRows t).foldl (iluLocRow lower L) x

/-- `parallel_sweep::sweep(rhs, x)` over the tables `Ls` when the events happen in the order `σ` -/
def gsSweepLoc (Ls : List (Loc K)) (rhs : Vec K) (σ : List Ev) (x : Vec K) : Vec K :=
  σ.foldl (fun x e => gsLocRow (Ls.getD e.1 Loc.empty) rhs x e.2) x

/-- `sptr_solve<lower>::solve(x)` over the tables `Ls` when the events happen in the order `σ` -/
def iluSolveLoc (lower : Bool) (Ls : List (Loc K)) (σ : List Ev) (x : Vec K) : Vec K :=
  σ.foldl (fun x e => iluLocRow lower (Ls.getD e.1 Loc.empty) x e.2) x

end loops

/-! ## which event sequences the skeleton admits -/

/-- the events of one task of thread `tid`, in program order -/
def taskEvents (tid : Nat) (t : Nat × Nat) : List Ev := (locTaskRows t).map fun r => (tid, r)

/-- `[tid][k] ↦` the events of the `k`-th task of thread `tid` -/
def evTable {K : Type} [Zero K] (Ls : List (Loc K)) : List (List (List Ev)) :=
  (List.range Ls.length).map fun tid => (Ls.getD tid Loc.empty).tasks.map (taskEvents tid)

/-- number of iterations of the task loop (of thread 0; `Amgcl.C09b.local_tasks_eq_spec`: the same for every thread) -/
def nlevLoc {K : Type} [Zero K] (Ls : List (Loc K)) : Nat := (Ls.getD 0 Loc.empty).tasks.length

/-- the `lev`-th task of every thread -/
def levelTasksG {α : Type} (tk : List (List (List α))) (lev : Nat) : List (List α) := tk.map (fun t => t.getD lev [])

/-- with the barrier: one interleaving per iteration of the task loop, the iterations one after the other
(`LevelwiseExec` of `Schedule.lean` for an arbitrary type of events) -/
inductive LevelwiseExecG {α : Type} (tk : List (List (List α))) : List Nat → List α → Prop
  | nil : LevelwiseExecG tk [] []
  | cons {lev : Nat} {levs : List Nat} {block σ : List α} :
      Interleave (levelTasksG tk lev) block → LevelwiseExecG tk levs σ → LevelwiseExecG tk (lev :: levs) (block ++ σ)

/-- `Exec` of `Schedule.lean` for an arbitrary type of events -/
def ExecG {α : Type} (sk : Skeleton) (tk : List (List (List α))) (nlev : Nat) (σ : List α) : Prop :=
  if sk.levelBarrier then LevelwiseExecG tk (List.range nlev) σ
  else Interleave (tk.map List.flatten) σ

/-- the event sequences the skeleton `sk` admits for the literal thread-local tables `Ls` -/
def ExecLoc {K : Type} [Zero K] (sk : Skeleton) (Ls : List (Loc K)) (σ : List Ev) : Prop :=
  ExecG sk (evTable Ls) (nlevLoc Ls) σ

/-- the schedules the harness executes on the dumped tables, on events (cf. `threadOrderSchedule`,
`reverseThreadSchedule`, `roundRobinSchedule`) -/
def threadOrderG {α : Type} (tk : List (List (List α))) (nlev : Nat) : List α :=
  (List.range nlev).flatMap fun lev => (levelTasksG tk lev).flatten

def reverseThreadG {α : Type} (tk : List (List (List α))) (nlev : Nat) : List α :=
  (List.range nlev).flatMap fun lev => ((levelTasksG tk lev).reverse).flatten

def roundRobinG {α : Type} (fuel : Nat) (ls : List (List α)) : List α :=
  match fuel with
  | 0 => []
  | fuel + 1 =>
    if ls.all (fun l => l.isEmpty) then [] else
    ls.filterMap List.head? ++ roundRobinG fuel (ls.map List.tail)

def roundRobinScheduleG {α : Type} (tk : List (List (List α))) (nlev : Nat) : List α :=
  (List.range nlev).flatMap fun lev =>
    let ls := (levelTasksG tk lev).reverse
    roundRobinG ((ls.map List.length).sum + 1) ls

end Amgcl.Sched
