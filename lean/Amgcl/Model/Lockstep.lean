import Amgcl.Model.Dist
/-!
# The distributed Krylov solver as the SAME program run rank-locally (C12) — core Lean only

`amgcl::mpi::make_solver` instantiates the serial solver template with `InnerProduct = mpi::inner_product`
(mpi/make_solver.hpp:96-104, mpi/solver/*.hpp) and passes it rank-local vectors, a `distributed_matrix` and the
distributed preconditioner.  A solver touches its vectors only through the backend primitives, the matrix
product / residual, the preconditioner and the inner product, and decides its control flow from scalars computed
from inner products.  This file fixes that interface as a small instruction set and gives it two semantics:

* `run`  — serial: one program state, vectors are global `Vec K`, the matrix is a `CRS`, `ip` any function;
* `drun` — distributed: every rank holds its part of every vector **and its own copy of every scalar**; vector
  primitives act rank-locally with the rank's own scalars, `spmv`/`residual` are `distributed_matrix::mul/residual`
  (`Model/Dist.lean`: `mulRank`, `residualRank`, ghost `exchange`), `ip` is `MPI_Allreduce(SUM)` of the local inner
  products delivered to every rank, scalar assignments are evaluated by every rank on its own scalars, and a
  branch is taken by every rank on ITS scalars: if two ranks disagree the run is `none` (in MPI: mismatched
  collectives / deadlock).

The scalar state of a rank is an arbitrary type `σ` (for a solver: the record of its scalar locals — counters, the
small dense arrays `H, s, cs, sn` of the GMRES family, the exception flag …).  Every operand of an instruction is a
function of the rank's OWN scalar state: coefficients `σ → K`, and also the vector registers `σ → Nat`
(`*v[j]`, `*v[j+1]` with a run-time `j`), so that a rank whose scalars differed would read and write different
vectors.  `Proofs/Lockstep.lean` shows that `drun` is a simulation of `run` on the concatenated vectors.
-/
namespace Amgcl.Lockstep
open Amgcl Amgcl.Dist

/-- a register file of scalars (the scalar state used by the CG program) -/
abbrev SEnv (K : Type) := Nat → K

def upd {α : Type} (f : Nat → α) (i : Nat) (v : α) : Nat → α := fun j => if j = i then v else f j

/-- a vector operand that does not depend on the scalars -/
@[reducible] def R {σ : Type} (n : Nat) : σ → Nat := fun _ => n

/-- primitive instructions; coefficients and vector operands are arbitrary rank-local functions of the scalar state -/
inductive Prim (K : Type) (σ : Type) where
  /-- `backend::axpby(a, x, b, y)` -/
  | axpby (a : σ → K) (x : σ → Nat) (b : σ → K) (y : σ → Nat)
  /-- `backend::axpbypcz(a, x, b, y, c, z)` -/
  | axpbypcz (a : σ → K) (x : σ → Nat) (b : σ → K) (y : σ → Nat) (c : σ → K) (z : σ → Nat)
  /-- `backend::copy(x, y)` -/
  | copy (x y : σ → Nat)
  /-- `backend::clear(x)` -/
  | clear (x : σ → Nat)
  /-- `backend::spmv(a, A, x, b, y)` -/
  | spmv (a : σ → K) (x : σ → Nat) (b : σ → K) (y : σ → Nat)
  /-- `backend::residual(f, A, x, r)` -/
  | residual (f x r : σ → Nat)
  /-- `P.apply(x, y)` -/
  | precond (x y : σ → Nat)
  /-- `… = inner_product(x, y)`: the scalar state receives the value through `dst` -/
  | ip (dst : σ → K → σ) (x y : σ → Nat)
  /-- any rank-local scalar computation (includes `sqrt`, `abs`, `/`, counters, Givens rotations, back substitution) -/
  | sset (e : σ → σ)
  /-- `backend::lin_comb(n, c, v, b, y)` with `c[i]`, `v[i]`, `i < n` -/
  | lincomb (n : σ → Nat) (c : σ → Nat → K) (v : σ → Nat → Nat) (b : σ → K) (y : σ → Nat)

/-- structured programs: sequencing, branch on scalars, bounded `while` on scalars, counted `for` -/
inductive Prog (K : Type) (σ : Type) where
  | skip
  | prim (i : Prim K σ)
  | seq (p q : Prog K σ)
  | ite (c : σ → Bool) (t e : Prog K σ)
  /-- `while (c) body` with at most `fuel` passes -/
  | loop (fuel : Nat) (c : σ → Bool) (body : Prog K σ)
  /-- `for (k = 0; k < n; ++k) body`, the bound `n` evaluated on entry, `setk` stores the loop variable -/
  | forN (n : σ → Nat) (setk : σ → Nat → σ) (body : Prog K σ)

/-- a statement list -/
def seqs {K σ : Type} : List (Prog K σ) → Prog K σ
  | [] => .skip
  | p :: t => .seq p (seqs t)

/-- `while (c) body` with at most `fuel` iterations -/
def iter {τ : Type} (c : τ → Bool) (body : τ → τ) : Nat → τ → τ
  | 0, s => s
  | fuel + 1, s => if c s then iter c body fuel (body s) else s

def iterOpt {τ : Type} (c : τ → Option Bool) (body : τ → Option τ) : Nat → τ → Option τ
  | 0, s => some s
  | fuel + 1, s =>
    match c s with
    | none => none
    | some true => (body s).bind (iterOpt c body fuel)
    | some false => some s

/-- `for k in ks: body k` where the body may block -/
def foldOpt {τ : Type} (body : τ → Nat → Option τ) : List Nat → τ → Option τ
  | [], s => some s
  | k :: ks, s => (body s k).bind (foldOpt body ks)

section serial
variable {K : Type} [Add K] [Mul K] [Sub K] [Zero K] [One K] [DecidableEq K] {σ : Type}

structure St (K : Type) (σ : Type) where
  vec : Nat → Vec K
  scal : σ

def step (A : CRS K) (P : Vec K → Vec K) (ipf : Vec K → Vec K → K) (i : Prim K σ) (s : St K σ) : St K σ :=
  let e := s.scal
  match i with
  | .axpby a x b y => { s with vec := upd s.vec (y e) (axpby (a e) (s.vec (x e)) (b e) (s.vec (y e))) }
  | .axpbypcz a x b y c z =>
      { s with vec := upd s.vec (z e) (axpbypcz (a e) (s.vec (x e)) (b e) (s.vec (y e)) (c e) (s.vec (z e))) }
  | .copy x y => { s with vec := upd s.vec (y e) (vcopy (s.vec (x e))) }
  | .clear x => { s with vec := upd s.vec (x e) (vclear (s.vec (x e)).size) }
  | .spmv a x b y => { s with vec := upd s.vec (y e) (spmv (a e) A (s.vec (x e)) (b e) (s.vec (y e))) }
  | .residual f x r => { s with vec := upd s.vec (r e) (residual (s.vec (f e)) A (s.vec (x e))) }
  | .precond x y => { s with vec := upd s.vec (y e) (P (s.vec (x e))) }
  | .ip dst x y => { s with scal := dst e (ipf (s.vec (x e)) (s.vec (y e))) }
  | .sset f => { s with scal := f e }
  | .lincomb n c v b y =>
      let cvs := (List.range (n e)).map (fun i => (c e i, s.vec (v e i)))
      { s with vec := upd s.vec (y e) (linComb cvs (b e) (s.vec (y e))) }

/-- serial semantics -/
def run (A : CRS K) (P : Vec K → Vec K) (ipf : Vec K → Vec K → K) : Prog K σ → St K σ → St K σ
  | .skip, s => s
  | .prim i, s => step A P ipf i s
  | .seq p q, s => run A P ipf q (run A P ipf p s)
  | .ite c t e, s => if c s.scal then run A P ipf t s else run A P ipf e s
  | .loop fuel c b, s => iter (fun s => c s.scal) (run A P ipf b) fuel s
  | .forN n setk b, s =>
      (List.range (n s.scal)).foldl (fun s k => run A P ipf b { s with scal := setk s.scal k }) s

end serial

section distributed
variable {K : Type} [Add K] [Mul K] [Sub K] [Neg K] [Zero K] [One K] [DecidableEq K] {σ : Type}

/-- state of all ranks: `vec v` is the list of the ranks' parts of vector `v`, `scal r` the scalar state of rank `r`
(only `r <` number of ranks is meaningful) -/
structure DSt (K : Type) (σ : Type) where
  vec : Nat → List (Vec K)
  scal : Nat → σ

/-- the value every rank computes for `g` from its own scalars; `none` if two of the `np` ranks disagree (or there
is no rank) -/
def agree? {α : Type} [DecidableEq α] (np : Nat) (g : σ → α) (scal : Nat → σ) : Option α :=
  if 0 < np ∧ (List.range np).all (fun r => decide (g (scal r) = g (scal 0))) then some (g (scal 0)) else none

/-- what every rank decides at a branch -/
def decide? (np : Nat) (c : σ → Bool) (scal : Nat → σ) : Option Bool := agree? np c scal

/-- the context of a distributed run: the distributed matrix (rows and columns partitioned by `part`), the
distributed preconditioner, and `conj` of the inner product -/
structure DCtx (K : Type) where
  Ds : List (DistMat K)
  part : List Nat
  Pd : List (Vec K) → List (Vec K)
  conj : K → K

/-- the distributed vector the ranks pass to a collective operation: rank `r` passes its part of the vector
register IT selects -/
def gath (np : Nat) (vec : Nat → List (Vec K)) (scal : Nat → σ) (x : σ → Nat) : List (Vec K) :=
  (List.range np).map fun r => (vec (x (scal r))).getD r #[]

/-- every rank stores its part `new[r]` into the vector register IT selects -/
def scat (np : Nat) (vec : Nat → List (Vec K)) (scal : Nat → σ) (y : σ → Nat) (new : List (Vec K)) :
    Nat → List (Vec K) :=
  fun v => (List.range np).map fun r => if v = y (scal r) then new.getD r #[] else (vec v).getD r #[]

def dstep (C : DCtx K) (i : Prim K σ) (s : DSt K σ) : DSt K σ :=
  let np := C.part.length
  let loc (v : Nat) (r : Nat) : Vec K := (s.vec v).getD r #[]
  let put (y : σ → Nat) (new : List (Vec K)) : DSt K σ := { s with vec := scat np s.vec s.scal y new }
  match i with
  | .axpby a x b y =>
      put y ((List.range np).map fun r =>
        let e := s.scal r
        axpby (a e) (loc (x e) r) (b e) (loc (y e) r))
  | .axpbypcz a x b y c z =>
      put z ((List.range np).map fun r =>
        let e := s.scal r
        axpbypcz (a e) (loc (x e) r) (b e) (loc (y e) r) (c e) (loc (z e) r))
  | .copy x y => put y ((List.range np).map fun r => vcopy (loc (x (s.scal r)) r))
  | .clear x => put x ((List.range np).map fun r => vclear (loc (x (s.scal r)) r).size)
  | .spmv a x b y =>
      let pats := patternsOf C.Ds C.part
      let xs := gath np s.vec s.scal x
      put y ((List.range np).map fun r =>
        let e := s.scal r
        mulRank (a e) (C.Ds.getD r default) (pats.getD r default) (exchange pats xs r) (loc (x e) r) (b e) (loc (y e) r))
  | .residual f x r => put r (distResidual (gath np s.vec s.scal f) C.Ds C.part (gath np s.vec s.scal x))
  | .precond x y => put y (C.Pd (gath np s.vec s.scal x))
  | .ip dst x y =>
      -- MPI_Allreduce: the same value is delivered to every rank
      let v := distInnerProduct C.conj (gath np s.vec s.scal x) (gath np s.vec s.scal y)
      { s with scal := fun r => dst (s.scal r) v }
  | .sset f => { s with scal := fun r => f (s.scal r) }
  | .lincomb n c v b y =>
      put y ((List.range np).map fun r =>
        let e := s.scal r
        linComb ((List.range (n e)).map (fun i => (c e i, loc (v e i) r))) (b e) (loc (y e) r))

/-- distributed semantics: every rank runs the same program on its own scalars -/
def drun (C : DCtx K) : Prog K σ → DSt K σ → Option (DSt K σ)
  | .skip, s => some s
  | .prim i, s => some (dstep C i s)
  | .seq p q, s => (drun C p s).bind (drun C q)
  | .ite c t e, s =>
    match decide? C.part.length c s.scal with
    | none => none
    | some true => drun C t s
    | some false => drun C e s
  | .loop fuel c b, s => iterOpt (fun s => decide? C.part.length c s.scal) (drun C b) fuel s
  | .forN n setk b, s =>
    match agree? C.part.length n s.scal with
    | none => none
    | some cnt =>
      foldOpt (fun s k => drun C b { s with scal := fun r => setk (s.scal r) k }) (List.range cnt) s

end distributed

end Amgcl.Lockstep
