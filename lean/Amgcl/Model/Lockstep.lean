import Amgcl.Model.Dist
/-!
# The distributed Krylov solver as the SAME program run rank-locally (C12) — core Lean only

`amgcl::mpi::make_solver` instantiates the serial solver template with `InnerProduct = mpi::inner_product`
(mpi/make_solver.hpp:96-104, mpi/solver/*.hpp) and passes it rank-local vectors, a `distributed_matrix` and the
distributed preconditioner.  A solver touches its vectors only through the backend primitives, the matrix
product / residual, the preconditioner and the inner product, and decides its control flow from scalars computed
from inner products.  This file fixes that interface as a small instruction set and gives it two semantics:

* `run`  — serial: one program state, vectors are global `Vec K`, the matrix is a `CRS`, `ip` any function;
* `drun` — distributed: every rank holds its part of every vector **and its own copy of every scalar**; vector
  primitives act rank-locally with the rank's own scalars, `spmv`/`residual` are `distributed_matrix::mul/residual`
  (`Model/Dist.lean`: `mulRank`, `residualRank`, ghost `exchange`), `ip` is `MPI_Allreduce(SUM)` of the local inner
  products delivered to every rank, scalar assignments are evaluated by every rank on its own scalars, and a
  branch is taken by every rank on ITS scalars: if two ranks disagree the run is `none` (in MPI: mismatched
  collectives / deadlock).

`Proofs/Lockstep.lean` shows that `drun` is a simulation of `run` on the concatenated vectors.
-/
namespace Amgcl.Lockstep
open Amgcl Amgcl.Dist

/-- a rank's scalar registers -/
abbrev SEnv (K : Type) := Nat → K

def upd {α : Type} (f : Nat → α) (i : Nat) (v : α) : Nat → α := fun j => if j = i then v else f j

/-- primitive instructions; coefficients are arbitrary rank-local functions of the scalar registers -/
inductive Prim (K : Type) where
  /-- `backend::axpby(a, x, b, y)` -/
  | axpby (a : SEnv K → K) (x : Nat) (b : SEnv K → K) (y : Nat)
  /-- `backend::axpbypcz(a, x, b, y, c, z)` -/
  | axpbypcz (a : SEnv K → K) (x : Nat) (b : SEnv K → K) (y : Nat) (c : SEnv K → K) (z : Nat)
  /-- `backend::copy(x, y)` -/
  | copy (x y : Nat)
  /-- `backend::clear(x)` -/
  | clear (x : Nat)
  /-- `backend::spmv(a, A, x, b, y)` -/
  | spmv (a : SEnv K → K) (x : Nat) (b : SEnv K → K) (y : Nat)
  /-- `backend::residual(f, A, x, r)` -/
  | residual (f x r : Nat)
  /-- `P.apply(x, y)` -/
  | precond (x y : Nat)
  /-- `dst = inner_product(x, y)` -/
  | ip (dst x y : Nat)
  /-- any scalar computation `dst = e(scalars)` (includes `sqrt`, `abs`, `/`, counters) -/
  | sset (dst : Nat) (e : SEnv K → K)

/-- structured programs: sequencing, branch on scalars, bounded `while` on scalars -/
inductive Prog (K : Type) where
  | skip
  | prim (i : Prim K)
  | seq (p q : Prog K)
  | ite (c : SEnv K → Bool) (t e : Prog K)
  | loop (c : SEnv K → Bool) (body : Prog K)

/-- `while (c) body` with at most `fuel` iterations -/
def iter {σ : Type} (c : σ → Bool) (body : σ → σ) : Nat → σ → σ
  | 0, s => s
  | fuel + 1, s => if c s then iter c body fuel (body s) else s

def iterOpt {σ : Type} (c : σ → Option Bool) (body : σ → Option σ) : Nat → σ → Option σ
  | 0, s => some s
  | fuel + 1, s =>
    match c s with
    | none => none
    | some true => (body s).bind (iterOpt c body fuel)
    | some false => some s

section serial
variable {K : Type} [Add K] [Mul K] [Sub K] [Zero K] [One K] [DecidableEq K]

structure St (K : Type) where
  vec : Nat → Vec K
  scal : SEnv K

def step (A : CRS K) (P : Vec K → Vec K) (ipf : Vec K → Vec K → K) (i : Prim K) (s : St K) : St K :=
  match i with
  | .axpby a x b y => { s with vec := upd s.vec y (axpby (a s.scal) (s.vec x) (b s.scal) (s.vec y)) }
  | .axpbypcz a x b y c z =>
      { s with vec := upd s.vec z (axpbypcz (a s.scal) (s.vec x) (b s.scal) (s.vec y) (c s.scal) (s.vec z)) }
  | .copy x y => { s with vec := upd s.vec y (vcopy (s.vec x)) }
  | .clear x => { s with vec := upd s.vec x (vclear (s.vec x).size) }
  | .spmv a x b y => { s with vec := upd s.vec y (spmv (a s.scal) A (s.vec x) (b s.scal) (s.vec y)) }
  | .residual f x r => { s with vec := upd s.vec r (residual (s.vec f) A (s.vec x)) }
  | .precond x y => { s with vec := upd s.vec y (P (s.vec x)) }
  | .ip dst x y => { s with scal := upd s.scal dst (ipf (s.vec x) (s.vec y)) }
  | .sset dst e => { s with scal := upd s.scal dst (e s.scal) }

/-- serial semantics; `fuel` bounds every loop -/
def run (A : CRS K) (P : Vec K → Vec K) (ipf : Vec K → Vec K → K) (fuel : Nat) : Prog K → St K → St K
  | .skip, s => s
  | .prim i, s => step A P ipf i s
  | .seq p q, s => run A P ipf fuel q (run A P ipf fuel p s)
  | .ite c t e, s => if c s.scal then run A P ipf fuel t s else run A P ipf fuel e s
  | .loop c b, s => iter (fun s => c s.scal) (run A P ipf fuel b) fuel s

end serial

section distributed
variable {K : Type} [Add K] [Mul K] [Sub K] [Neg K] [Zero K] [One K] [DecidableEq K]

/-- state of all ranks: `vec v` is the list of the ranks' parts of vector `v`, `scal` the list of the ranks'
scalar registers -/
structure DSt (K : Type) where
  vec : Nat → List (Vec K)
  scal : List (SEnv K)

/-- what every rank decides at a branch; `none` if the ranks disagree (or there is no rank) -/
def decide? (c : SEnv K → Bool) (scal : List (SEnv K)) : Option Bool :=
  match scal with
  | [] => none
  | e :: t => if t.all (fun e' => c e' == c e) then some (c e) else none

/-- the context of a distributed run: the distributed matrix (rows and columns partitioned by `part`), the
distributed preconditioner, and `conj` of the inner product -/
structure DCtx (K : Type) where
  Ds : List (DistMat K)
  part : List Nat
  Pd : List (Vec K) → List (Vec K)
  conj : K → K

def renv (scal : List (SEnv K)) (r : Nat) : SEnv K := scal.getD r (fun _ => 0)

def dstep (C : DCtx K) (i : Prim K) (s : DSt K) : DSt K :=
  let np := C.part.length
  let loc (v : Nat) (r : Nat) : Vec K := (s.vec v).getD r #[]
  match i with
  | .axpby a x b y =>
      { s with vec := upd s.vec y ((List.range np).map fun r =>
          axpby (a (renv s.scal r)) (loc x r) (b (renv s.scal r)) (loc y r)) }
  | .axpbypcz a x b y c z =>
      { s with vec := upd s.vec z ((List.range np).map fun r =>
          axpbypcz (a (renv s.scal r)) (loc x r) (b (renv s.scal r)) (loc y r) (c (renv s.scal r)) (loc z r)) }
  | .copy x y => { s with vec := upd s.vec y ((List.range np).map fun r => vcopy (loc x r)) }
  | .clear x => { s with vec := upd s.vec x ((List.range np).map fun r => vclear (loc x r).size) }
  | .spmv a x b y =>
      let pats := patternsOf C.Ds C.part
      { s with vec := upd s.vec y ((List.range np).map fun r =>
          mulRank (a (renv s.scal r)) (C.Ds.getD r default) (pats.getD r default) (exchange pats (s.vec x) r)
            (loc x r) (b (renv s.scal r)) (loc y r)) }
  | .residual f x r => { s with vec := upd s.vec r (distResidual (s.vec f) C.Ds C.part (s.vec x)) }
  | .precond x y => { s with vec := upd s.vec y (C.Pd (s.vec x)) }
  | .ip dst x y =>
      let v := distInnerProduct C.conj (s.vec x) (s.vec y)      -- MPI_Allreduce: the same value on every rank
      { s with scal := s.scal.map (fun e => upd e dst v) }
  | .sset dst e => { s with scal := s.scal.map (fun env => upd env dst (e env)) }

/-- distributed semantics: every rank runs the same program on its own scalars -/
def drun (C : DCtx K) (fuel : Nat) : Prog K → DSt K → Option (DSt K)
  | .skip, s => some s
  | .prim i, s => some (dstep C i s)
  | .seq p q, s => (drun C fuel p s).bind (drun C fuel q)
  | .ite c t e, s =>
    match decide? c s.scal with
    | none => none
    | some true => drun C fuel t s
    | some false => drun C fuel e s
  | .loop c b, s => iterOpt (fun s => decide? c s.scal) (drun C fuel b) fuel s

end distributed

end Amgcl.Lockstep
