/-!
# V-grade checker predicates for `amgcl::detail::QR` output (detail/qr.hpp) — core Lean only

`QR` (Householder, ported from LAPACK `ZGEQR2/ZUNG2R`) is *not* modelled loop by loop (DESIGN.md §2.2, grade V).
What is defined here are executable predicates on its **output** for an `m×n` input `A`:
`Qk` = the leading `k = min m n` columns of `Q(i,j)` (`m×k`), `R(i,j)` for `i < k` (`k×n`, upper trapezoidal).

* `qrExact A Qk R`  — `A = Qk·R`, `QkᵀQk = I_k`, `R(i,j) = 0` for `j < i`, all exactly;
* `qrDefect A Qk R` — `max(‖A − Qk·R‖_max, ‖QkᵀQk − I‖_max)`, compared by the driver with a tolerance (a *test*: with
  the rational `rsqrt` neither identity holds exactly unless every square root taken is exact).

`Properties/C16.lean` proves `qrExact = true → ` the Mathlib `Matrix` statements.
-/
namespace Amgcl

/-- dense row-major matrix with explicit shape -/
structure Dense (K : Type) where
  m : Nat
  n : Nat
  a : Array K

namespace Dense
variable {K : Type} [Zero K] [One K] [Add K] [Sub K] [Mul K] [Neg K] [LT K] [DecidableLT K] [DecidableEq K]

@[inline] def get (A : Dense K) (i j : Nat) : K := A.a.getD (i * A.n + j) 0
def WF (A : Dense K) : Bool := A.a.size == A.m * A.n

/-- `(A·B)(i,j) = Σ_l A(i,l)·B(l,j)` -/
def mulGet (A B : Dense K) (i j : Nat) : K := (List.range A.n).foldl (fun s l => s + A.get i l * B.get l j) 0
/-- `(AᵀA)(i,j)` -/
def gramGet (A : Dense K) (i j : Nat) : K := (List.range A.m).foldl (fun s l => s + A.get l i * A.get l j) 0

def allIdx (m n : Nat) (f : Nat → Nat → Bool) : Bool :=
  (List.range m).all (fun i => (List.range n).all (fun j => f i j))

/-- `R(i,j) = 0` below the diagonal -/
def upperTri (R : Dense K) : Bool := allIdx R.m R.n (fun i j => if j < i then decide (R.get i j = 0) else true)

/-- `A = Qk · R` entrywise -/
def prodEq (A Qk R : Dense K) : Bool := allIdx A.m A.n (fun i j => decide (A.get i j = mulGet Qk R i j))
/-- `QkᵀQk = I` entrywise -/
def orthoEq (Qk : Dense K) : Bool :=
  allIdx Qk.n Qk.n (fun i j => decide (gramGet Qk i j = if i = j then 1 else 0))

def shapesOk (A Qk R : Dense K) : Bool :=
  A.WF && Qk.WF && R.WF && Qk.m == A.m && Qk.n == min A.m A.n && R.m == min A.m A.n && R.n == A.n

/-- exact QR predicate -/
def qrExact (A Qk R : Dense K) : Bool := shapesOk A Qk R && prodEq A Qk R && orthoEq Qk && upperTri R

def absD (x : K) : K := if x < 0 then -x else x
def maxD (x y : K) : K := if x < y then y else x
def foldIdx (m n : Nat) (f : Nat → Nat → K) : K :=
  (List.range m).foldl (fun s i => (List.range n).foldl (fun s j => maxD s (absD (f i j))) s) 0

/-- `max(‖A − Qk·R‖_max, ‖QkᵀQk − I‖_max)` -/
def qrDefect (A Qk R : Dense K) : K :=
  maxD (foldIdx A.m A.n (fun i j => A.get i j - mulGet Qk R i j))
       (foldIdx Qk.n Qk.n (fun i j => gramGet Qk i j - (if i = j then 1 else 0)))

end Dense
end Amgcl
