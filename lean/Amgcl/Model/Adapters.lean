import Amgcl.Model.Kernels
import Amgcl.Model.KernelsCopy
import Amgcl.Model.Primitives
import Amgcl.Model.RelaxCommon
/-!
# Matrix adapters and block / complex reformulations (C13, C17)

Mirrors
* `adapter/block_matrix.hpp`   — `block_matrix_adapter` (row iterator merging `b` scalar rows, lines 73-161) and
                                  `unblock_matrix` (173-232)
* `adapter/complex.hpp`        — `complex_adapter` (2n × 2n real expansion) and `complex_range`
* `adapter/reorder.hpp`        — `reordered_matrix`, `reordered_vector`, `reorder::forward / inverse`
* `adapter/scaled_problem.hpp` — `scaled_matrix`, `scaled_problem::operator()`, `scale_diagonal`
* `adapter/crs_tuple.hpp`      — tuple `(n, ptr, col, val)` of ranges with any integer index type
* `adapter/crs_builder.hpp`    — `matrix_builder` (row callback)
* `adapter/zero_copy.hpp`      — `zero_copy`, `zero_copy_direct`
* `backend/builtin_hybrid.hpp` — `copy_matrix` = block adapter; SpMV with scalar vectors on a block matrix
* `backend/detail/matrix_ops.hpp` — the generic `spmv_impl` at a block value type (vectors reinterpreted)
* `relaxation/as_preconditioner.hpp` — the two constructors

Every adapter is used by the library only through `rows / cols / nonzeros / row_begin`; the generic CRS
constructor `crs(const Matrix&)` (builtin.hpp:120-151, model `crsCopy`) then copies the rows one by one in iterator
order.  The model of an adapter is therefore the `CRS` value whose stored rows are the iterator sequences.

A block value `static_matrix<K,b,b>` is its row-major buffer `buf` (`Blk K = Array K`, `b*b` entries,
`(i,j) ↦ buf[i*b+j]`).  Block vectors are never materialised: the code `reinterpret_cast`s scalar vectors
(`backend::reinterpret_as_rhs`, builtin.hpp:1323-1342), so the model's block SpMV reads and writes scalar vectors.
-/
namespace Amgcl
namespace Adapters

/-- outcome of an adapter constructor that can fail with `amgcl::precondition(...)` -/
inductive Outcome (α : Type) where
  | ok (a : α)
  | precondition
deriving Repr

/-- `static_matrix<K,b,b>::buf` -/
abbrev Blk (K : Type) := Array K

/-! ## `unblock_matrix` -/
section unblock
variable {K : Type} [Zero K]

/-- scalar row `ib*b + i` of `unblock_matrix(B)`: for every stored block `(c, v)` in stored order the `b` entries
`(c*b + j, v(i,j))`, `j = 0..b-1` (block_matrix.hpp:210-226) -/
def unblockRow (b i : Nat) (r : Row (Blk K)) : Row K :=
  r.flatMap (fun cv => (List.range b).map (fun j => (cv.1 * b + j, cv.2.getD (i * b + j) 0)))

/-- `adapter::unblock_matrix(B)` for `b × b` blocks -/
def unblock (b : Nat) (B : CRS (Blk K)) : CRS K :=
  { ncols := B.ncols * b
    rows := Array.ofFn (n := B.nrows * b) (fun ia => unblockRow b (ia.val % b) (B.row (ia.val / b))) }

end unblock

/-! ## `block_matrix_adapter` -/
section block
variable {K : Type}

/-- the scan that determines `cur_col` (block_matrix.hpp:90-101 and 131-141): over the base iterators that are not
exhausted, the minimum of `col / b`; `none` = `done`. -/
def curCol (b : Nat) (rs : List (Row K)) : Option Nat :=
  rs.foldl (fun acc r =>
    match r with
    | [] => acc
    | cv :: _ =>
      match acc with
      | none => some (cv.1 / b)
      | some c => some (min c (cv.1 / b))) none

/-- the gather loop of base iterator `i`:
`for(; base[i] && base[i].col() < end; ++base[i]) cur_val(i, base[i].col() % b) = base[i].value();`
(assignment, not accumulation; no lower bound on the column) -/
def gather (b e i : Nat) : Row K → Blk K → Row K × Blk K
  | [], v => ([], v)
  | cv :: t, v =>
    if cv.1 < e then gather b e i t (v.setIfInBounds (i * b + cv.1 % b) cv.2) else (cv :: t, v)

/-- the gather loops of all `b` base iterators, `i = 0..b-1` -/
def gatherAll (b e : Nat) : Nat → List (Row K) → Blk K → List (Row K) × Blk K
  | _, [], v => ([], v)
  | i, r :: rest, v =>
    let g := gather b e i r v
    let h := gatherAll b e (i + 1) rest g.2
    (g.1 :: h.1, h.2)

variable [Zero K]

/-- the row iterator: constructor + repeated `operator++` until `done`.  Every step consumes at least one scalar
entry, so `fuel` = number of scalar entries of the `b` rows suffices (proved in `Proofs/AdaptersBlock.lean`). -/
def blockIter (b : Nat) : Nat → List (Row K) → Row (Blk K)
  | 0, _ => []
  | fuel + 1, rs =>
    match curCol b rs with
    | none => []
    | some c =>
      let g := gatherAll b ((c + 1) * b) 0 rs (Array.replicate (b * b) (0 : K))
      (c, g.2) :: blockIter b fuel g.1

/-- block row `I` as the generic CRS constructor sees it through `row_begin(I)` -/
def blockRow (b : Nat) (A : CRS K) (I : Nat) : Row (Blk K) :=
  let rs := (List.range b).map (fun i => A.row (I * b + i))
  blockIter b (rs.foldl (fun s r => s + r.length) 0) rs

/-- `adapter::block_matrix<static_matrix<K,b,b>>(A)`; the constructor checks divisibility of both dimensions -/
def blockMatrix (b : Nat) (A : CRS K) : Outcome (CRS (Blk K)) :=
  if A.nrows % b = 0 ∧ A.ncols % b = 0 then
    .ok { ncols := A.ncols / b, rows := Array.ofFn (n := A.nrows / b) (fun I => blockRow b A I.val) }
  else .precondition

/-- `block_matrix_adapter::nonzeros()` — "just an estimate" -/
def blockNonzerosEstimate (b : Nat) (A : CRS K) : Nat := A.nnz / (b * b)

end block

/-! ## SpMV at a block value type with (reinterpreted) scalar vectors -/
section blockSpmv
variable {K : Type} [Add K] [Mul K] [Zero K] [DecidableEq K]

/-- component `i` of `sum` after `for a in row: sum += a.value() * x[a.col()]` where the product is
`static_matrix<b,b> * static_matrix<b,1>` (static_matrix.hpp:150-166: `c(i) = 0; for k: c(i) += a(i,k) * x(k)`) -/
def blkRowDot (b : Nat) (r : Row (Blk K)) (x : Vec K) (i : Nat) : K :=
  r.foldl (fun s cv =>
    s + (List.range b).foldl (fun t k => t + cv.2.getD (i * b + k) 0 * x.getD (cv.1 * b + k) 0) 0) 0

/-- `backend::spmv(alpha, B, x, beta, y)` for a block CRS matrix `B` and scalar coefficients; `x`, `y` are the scalar
vectors whose storage the block vectors alias.  `alpha * sum` is `static_matrix::operator*=(T)`: `buf[i] *= alpha`. -/
def blockSpmv (b : Nat) (α : K) (B : CRS (Blk K)) (x : Vec K) (β : K) (y : Vec K) : Vec K :=
  if β = 0 then
    Array.ofFn (n := B.nrows * b) (fun ia => blkRowDot b (B.row (ia.val / b)) x (ia.val % b) * α)
  else
    Array.ofFn (n := B.nrows * b) (fun ia =>
      blkRowDot b (B.row (ia.val / b)) x (ia.val % b) * α + y.getD ia.val 0 * β)

end blockSpmv

/-! ## complex numbers (libstdc++'s generic `std::complex<T>`) and the complex adapter -/

/-- `std::complex<K>`: `_M_real`, `_M_imag` -/
structure Cx (K : Type) where
  re : K
  im : K
deriving DecidableEq, Repr

namespace Cx
variable {K : Type}
instance [Add K] : Add (Cx K) := ⟨fun a b => ⟨a.re + b.re, a.im + b.im⟩⟩
instance [Sub K] : Sub (Cx K) := ⟨fun a b => ⟨a.re - b.re, a.im - b.im⟩⟩
instance [Neg K] : Neg (Cx K) := ⟨fun a => ⟨-a.re, -a.im⟩⟩
/-- `complex::operator*=`: `r = re*z.re - im*z.im; im = re*z.im + im*z.re; re = r` -/
instance [Add K] [Sub K] [Mul K] : Mul (Cx K) :=
  ⟨fun a b => ⟨a.re * b.re - a.im * b.im, a.re * b.im + a.im * b.re⟩⟩
instance [Zero K] : Zero (Cx K) := ⟨⟨0, 0⟩⟩
instance [Zero K] [One K] : One (Cx K) := ⟨⟨1, 0⟩⟩
/-- `std::conj` -/
def conj [Neg K] (a : Cx K) : Cx K := ⟨a.re, -a.im⟩
end Cx

section complex
variable {K : Type} [Neg K]

/-- the iterator of real row `2i` (`rowReal`) or `2i+1` of `complex_adapter`: every complex entry `(c, a+bi)` yields
`(2c, a), (2c+1, −b)` resp. `(2c, b), (2c+1, a)` (complex.hpp:70-118) -/
def complexRow (rowReal : Bool) (r : Row (Cx K)) : Row K :=
  r.flatMap (fun cv =>
    if rowReal then [(cv.1 * 2, cv.2.re), (cv.1 * 2 + 1, -cv.2.im)]
    else [(cv.1 * 2, cv.2.im), (cv.1 * 2 + 1, cv.2.re)])

/-- `adapter::complex_matrix(A)` -/
def complexMatrix (A : CRS (Cx K)) : CRS K :=
  { ncols := 2 * A.ncols
    rows := Array.ofFn (n := 2 * A.nrows) (fun i => complexRow (i.val % 2 == 0) (A.row (i.val / 2))) }

/-- `complex_adapter::nonzeros()` -/
def complexNonzeros (A : CRS (Cx K)) : Nat := 4 * A.nnz

omit [Neg K] in
/-- `adapter::complex_range(z)`: the same storage viewed as `re₀ im₀ re₁ im₁ …` -/
def complexRange [Zero K] (z : Vec (Cx K)) : Vec K :=
  Array.ofFn (n := 2 * z.size) (fun i =>
    if i.val % 2 == 0 then (z.getD (i.val / 2) 0).re else (z.getD (i.val / 2) 0).im)

omit [Neg K] in
/-- the inverse view: a real vector of even length read as complex numbers -/
def complexOfRange [Zero K] (x : Vec K) : Vec (Cx K) :=
  Array.ofFn (n := x.size / 2) (fun i => ⟨x.getD (2 * i.val) 0, x.getD (2 * i.val + 1) 0⟩)

end complex

/-! ## reorder adapter -/
section reorder
variable {K : Type}

/-- `reorder::reorder`: `iperm(n)` zero-initialised, then `iperm[perm[i]] = i` -/
def mkIperm (perm : Array Nat) : Array Nat :=
  (List.range perm.size).foldl (fun ip i => ip.setIfInBounds (perm.getD i 0) i) (Array.replicate perm.size 0)

/-- `reordered_matrix`: row `i` is row `perm[i]` of `A` with every column `c` replaced by `iperm[c]` -/
def reorderedMatrix (A : CRS K) (perm iperm : Array Nat) : CRS K :=
  { ncols := A.ncols
    rows := Array.ofFn (n := A.nrows) (fun i =>
      (A.row (perm.getD i.val 0)).map (fun cv => (iperm.getD cv.1 0, cv.2))) }

variable [Zero K]

/-- `reorder::forward(x, y)`: `y[i] = x[perm[i]]`; also the view `reordered_vector` (`operator[]`) -/
def reorderForward (perm : Array Nat) (x : Vec K) : Vec K :=
  Array.ofFn (n := perm.size) (fun i => x.getD (perm.getD i.val 0) 0)

/-- `reorder::inverse(x, y)`: `y[perm[i]] = x[i]`, `i = 0..n-1`, into the existing `y` -/
def reorderInverse (perm : Array Nat) (x y : Vec K) : Vec K :=
  (List.range perm.size).foldl (fun y i => y.setIfInBounds (perm.getD i 0) (x.getD i 0)) y

end reorder

/-! ## scaled problem -/
section scaled
variable {K : Type}

/-- `scaled_matrix`: `value() = s[i] * a * s[col]` -/
def scaledMatrix [Mul K] [Zero K] (A : CRS K) (s : Vec K) : CRS K :=
  { ncols := A.ncols
    rows := Array.ofFn (n := A.nrows) (fun i =>
      (A.row i.val).map (fun cv => (cv.1, s.getD i.val 0 * cv.2 * s.getD cv.1 0))) }

/-- `scaled_problem::operator()(x)`: `vmul(1, s, x, 0, x)`; used for the right-hand side (`rhs`) before and for the
solution after the solve -/
def scaleVec [Add K] [Mul K] [Zero K] [One K] [DecidableEq K] (s x : Vec K) : Vec K := vmul 1 s x 0 x

/-- `scale_diagonal(A)`: `s[i] = 1 / sqrt(|a_ii|)` from the FIRST stored diagonal entry; a row without one keeps the
value-initialised `0` -/
def scaleDiagonal [Zero K] [One K] [Div K] [Neg K] [LT K] [DecidableLT K] (sqrt : K → K) (A : CRS K) : Vec K :=
  Array.ofFn (n := A.nrows) (fun i =>
    match (A.row i.val).find? (fun cv => cv.1 = i.val) with
    | some cv => 1 / sqrt (absK cv.2)
    | none => 0)

end scaled

/-! ## tuple of ranges, row builder, zero copy -/
section tuple
variable {K : Type} [Zero K]

/-- row `i` through `row_iterator<std::tuple<N,PRng,CRng,VRng>>` (crs_tuple.hpp:101-150): the entries
`col[j], val[j]` for `ptr[i] ≤ j < ptr[i+1]`.  Index types are arbitrary C++ integers: the model is over `Int`. -/
def tupleRow (ptr col : Array Int) (val : Array K) (i : Nat) : Row K :=
  let lo := (ptr.getD i 0).toNat
  let hi := (ptr.getD (i + 1) 0).toNat
  (List.range' lo (hi - lo)).map (fun j => ((col.getD j 0).toNat, val.getD j 0))

/-- range side conditions under which the C++ code has defined behaviour: `ptr` has `n+1` non-negative
non-decreasing entries, every addressed position exists in `col` and `val`, every addressed column is in `[0, n)` -/
def tupleOk (n : Nat) (ptr col : Array Int) (val : Array K) : Bool :=
  ptr.size == n + 1 && decide (0 ≤ ptr.getD 0 0) &&
  (List.range n).all (fun i => decide (ptr.getD i 0 ≤ ptr.getD (i + 1) 0)) &&
  decide ((ptr.getD n 0).toNat ≤ col.size) && decide ((ptr.getD n 0).toNat ≤ val.size) &&
  (List.range' (ptr.getD 0 0).toNat ((ptr.getD n 0).toNat - (ptr.getD 0 0).toNat)).all
    (fun j => decide (0 ≤ col.getD j 0) && decide (col.getD j 0 < (n : Int)))

/-- the matrix described by `std::tie(n, ptr, col, val)`: square (`cols_impl` returns `n`) -/
def crsTuple (n : Nat) (ptr col : Array Int) (val : Array K) : CRS K :=
  { ncols := n, rows := Array.ofFn (n := n) (fun i => tupleRow ptr col val i.val) }

/-- `nonzeros_impl<tuple>`: `ptr[n]` -/
def tupleNonzeros (n : Nat) (ptr : Array Int) : Int := ptr.getD n 0

omit [Zero K] in
/-- `adapter::matrix_builder` (crs_builder.hpp): `n` rows, `n` columns, row `i` is whatever the user's functor
appends for `i` -/
def matrixBuilder (n : Nat) (buildRow : Nat → Row K) : CRS K :=
  { ncols := n, rows := Array.ofFn (n := n) (fun i => buildRow i.val) }

end tuple

section zeroCopy
variable {K : Type}

/-- a `crs` object together with its `own_data` flag -/
structure Handle (K : Type) where
  A : CRS K
  ownData : Bool

/-- `adapter::zero_copy` / `zero_copy_direct`: `ptr`, `col`, `val` ARE the user's arrays (pointer assignment, no
copy), `own_data = false` -/
def zeroCopy (A : CRS K) : Handle K := { A := A, ownData := false }

/-- the arrays `crs::free_data()` (called by `~crs()` and by copy assignment) releases -/
def Handle.freed (h : Handle K) : List String := if h.ownData then ["ptr", "col", "val"] else []

end zeroCopy

/-! ## `relaxation::as_preconditioner` -/
section asPrecond
variable {K S : Type}

/-- the object: the system matrix kept for `apply` and the smoother -/
structure AsPrecond (K S : Type) where
  A : CRS K
  S : S

/-- `init(M)`: `A = copy_matrix(M)`, `S = smoother(*M)` -/
def asPrecondInit (sm : Relax.Smoother K S) (M : CRS K) : Relax.SetupOutcome (AsPrecond K S) :=
  match sm.setup M with
  | .ok s => .ok { A := M, S := s }
  | .precondition => .precondition
  | .undefinedInput => .undefinedInput

/-- the constructor taking `std::shared_ptr<build_matrix>`: the user's storage is shared and used as it is -/
def asPrecondShared (sm : Relax.Smoother K S) (M : CRS K) : Relax.SetupOutcome (AsPrecond K S) :=
  asPrecondInit sm M

/-- the constructor taking any matrix (`template <class Matrix> as_preconditioner(const Matrix &M, …)`): copies `M`
into a `build_matrix`, sorts the rows of the copy (as `amg` does, amg.hpp:199-205) and initialises. -/
def asPrecond (sm : Relax.Smoother K S) (M : CRS K) : Relax.SetupOutcome (AsPrecond K S) :=
  asPrecondInit sm (sortRows (crsCopy M))

/-- the same constructor as it was before the repair (as_preconditioner.hpp:58-68 at 853da24): no `sort_rows` -/
def asPrecondUnsorted (sm : Relax.Smoother K S) (M : CRS K) : Relax.SetupOutcome (AsPrecond K S) :=
  asPrecondInit sm (crsCopy M)

/-- `apply(rhs, x)`: `S->apply(*A, rhs, x)` -/
def AsPrecond.apply (sm : Relax.Smoother K S) (p : AsPrecond K S) (rhs : Vec K) : Vec K := sm.apply p.S p.A rhs

end asPrecond

end Adapters
end Amgcl
