import Amgcl.Model.SolverCommon2
/-!
# `solver/detail/givens_rotations.hpp` at a value type whose `math::adjoint` is NOT the identity (`std::complex<T>`)
— core Lean only

`Model/SolverGivens.lean` models the two functions at a real scalar (`math::adjoint` = identity).  For the complex
instantiation (`amgcl/value_type/complex.hpp`: `adjoint(x) = conj(x)`) the text of `apply_plane_rotation` conjugates
`cs` and `sn`, but `generate_plane_rotation` forms `identity + tmp * tmp` without a conjugate.  The functions below
take the conjugation `conj : K → K` and the comparison `absLt a b` (`std::abs(a) < std::abs(b)`) as parameters:

* `genRotStar`  — the statements of `generate_plane_rotation` as written,
* `genRotHerm`  — the same statements with `identity + adjoint(tmp) * tmp` (repo_patches/complex_givens.patch),
* `applyRotStar` — `apply_plane_rotation` as written.

`GQ` (Gaussian rationals as pairs of `Rat`) is a concrete executable value type with a non-trivial conjugation, used
for the counterexample of `Properties/C05e.lean`.
-/
namespace Amgcl.Solver

section ops
variable {K : Type} [Add K] [Mul K] [Sub K] [Neg K] [Zero K] [One K] [Div K] [DecidableEq K]

/-- `detail::generate_plane_rotation(dx, dy, cs, sn)` (givens_rotations.hpp:41-55) as written: returns `(cs, sn)` -/
def genRotStar (sqrt : K → K) (absLt : K → K → Bool) (dx dy : K) : K × K :=
  if dy = 0 then (1, 0)                                     -- if (math::is_zero(dy)) { cs = 1; sn = 0; }
  else if absLt dx dy then                                  -- else if (std::abs(dy) > std::abs(dx)) {
    let tmp := dx / dy                                      --   T tmp = dx / dy;
    let sn := inv1 (sqrt (1 + tmp * tmp))                   --   sn = math::inverse(sqrt(identity + tmp * tmp));
    (tmp * sn, sn)                                          --   cs = tmp * sn;
  else
    let tmp := dy / dx                                      --   T tmp = dy / dx;
    let cs := inv1 (sqrt (1 + tmp * tmp))                   --   cs = math::inverse(sqrt(identity + tmp * tmp));
    (cs, tmp * cs)                                          --   sn = tmp * cs;

/-- the repaired text: `identity + math::adjoint(tmp) * tmp` in both branches -/
def genRotHerm (sqrt : K → K) (conj : K → K) (absLt : K → K → Bool) (dx dy : K) : K × K :=
  if dy = 0 then (1, 0)
  else if absLt dx dy then
    let tmp := dx / dy
    let sn := inv1 (sqrt (1 + conj tmp * tmp))
    (tmp * sn, sn)
  else
    let tmp := dy / dx
    let cs := inv1 (sqrt (1 + conj tmp * tmp))
    (cs, tmp * cs)

/-- `detail::apply_plane_rotation(dx, dy, cs, sn)` (givens_rotations.hpp:57-62): returns the new `(dx, dy)` -/
def applyRotStar (conj : K → K) (dx dy cs sn : K) : K × K :=
  (conj cs * dx + conj sn * dy, (-sn) * dx + cs * dy)   -- tmp = adjoint(cs)*dx + adjoint(sn)*dy; dy = -sn*dx + cs*dy; dx = tmp;

end ops

/-- Gaussian rationals `re + im·i` -/
structure GQ where
  re : Rat
  im : Rat
deriving DecidableEq, Repr

namespace GQ
instance : Zero GQ := ⟨⟨0, 0⟩⟩
instance : One GQ := ⟨⟨1, 0⟩⟩
instance : Add GQ := ⟨fun a b => ⟨a.re + b.re, a.im + b.im⟩⟩
instance : Sub GQ := ⟨fun a b => ⟨a.re - b.re, a.im - b.im⟩⟩
instance : Neg GQ := ⟨fun a => ⟨-a.re, -a.im⟩⟩
instance : Mul GQ := ⟨fun a b => ⟨a.re * b.re - a.im * b.im, a.re * b.im + a.im * b.re⟩⟩
/-- `conj` -/
def conj (a : GQ) : GQ := ⟨a.re, -a.im⟩
/-- squared modulus -/
def normSq (a : GQ) : Rat := a.re * a.re + a.im * a.im
/-- total division, `x / 0 = 0` -/
instance : Div GQ := ⟨fun a b => let d := normSq b; ⟨(a.re * b.re + a.im * b.im) / d, (a.im * b.re - a.re * b.im) / d⟩⟩
/-- `std::abs(a) < std::abs(b)` decided on the squared moduli -/
def absLt (a b : GQ) : Bool := decide (normSq a < normSq b)
end GQ

end Amgcl.Solver
