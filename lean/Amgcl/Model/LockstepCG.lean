import Amgcl.Model.Lockstep
import Amgcl.Model.SolverCG
/-!
# `amgcl::solver::cg::operator()` as a program over the solver instruction set (C12) — core Lean only

The statements of solver/cg.hpp:153-204 written in the instruction set of `Model/Lockstep.lean`.  Its SERIAL
semantics is proved equal to the statement-by-statement model `Solver.CG.run` of C01/C05 (`Proofs/LockstepCG.lean`:
`cg_prog_eq_run`); its DISTRIBUTED semantics `drun` is, by construction, what `mpi::solver::cg` executes: the same
statements with rank-local vectors, `distributed_matrix::mul/residual`, the distributed preconditioner and
`mpi::inner_product`.
-/
namespace Amgcl.Lockstep.CG
open Amgcl Amgcl.Solver Amgcl.Lockstep

-- vector registers
def vF : Nat := 0   -- rhs
def vX : Nat := 1   -- x
def vR : Nat := 2   -- *r
def vS : Nat := 3   -- *s
def vP : Nat := 4   -- *p
def vQ : Nat := 5   -- *q
-- scalar registers
def sTmp : Nat := 0    -- result of the last inner product
def sNrhs : Nat := 1   -- norm_rhs
def sEps : Nat := 2    -- eps
def sRho1 : Nat := 3
def sRho2 : Nat := 4
def sRes : Nat := 5    -- res_norm
def sAlpha : Nat := 6
def sCnt : Nat := 7    -- iter, counted in K
def sFirst : Nat := 8  -- 0 while iter == 0, 1 afterwards (the test `if (iter)`)
def sOut : Nat := 9    -- the returned residual

variable {K : Type} [Add K] [Mul K] [Sub K] [Neg K] [Zero K] [One K] [Div K] [DecidableEq K] [LT K] [DecidableLT K]

/-- `dst = inner_product(x, y)` into a scalar register -/
def ipR (dst x y : Nat) : Prim K (SEnv K) := .ip (fun e v => upd e dst v) (R x) (R y)

/-- `dst = e(scalars)` on the scalar registers -/
def ssetR (dst : Nat) (e : SEnv K → K) : Prim K (SEnv K) := .sset (fun env => upd env dst (e env))

/-- `x = norm(v)`: `sqrt(math::norm(inner_product(v, v)))` -/
def normInto (sqrt : K → K) (dst v : Nat) : Prog K (SEnv K) :=
  .seq (.prim (ipR sTmp v v)) (.prim (ssetR dst (fun e => sqrt (Solver.absK (e sTmp)))))

/-- cg.hpp:181-199, one pass through the loop body including `++iter` -/
def bodyProg (sqrt : K → K) : Prog K (SEnv K) := seqs [
  .prim (.precond (R vR) (R vS)),                                                   -- P.apply(*r, *s)
  .prim (ssetR sRho2 (fun e => e sRho1)),                                   -- rho2 = rho1
  .prim (ipR sRho1 vR vS),                                                  -- rho1 = inner_product(*r, *s)
  .ite (fun e => decide (e sFirst ≠ 0))                                     -- if (iter)
    (.prim (.axpby (fun _ => 1) (R vS) (fun e => e sRho1 / e sRho2) (R vP)))        --   axpby(one, *s, rho1 / rho2, *p)
    (.prim (.copy (R vS) (R vP))),                                                  -- else copy(*s, *p)
  .prim (.spmv (fun _ => 1) (R vP) (fun _ => 0) (R vQ)),                            -- spmv(one, A, *p, zero, *q)
  .prim (ipR sTmp vQ vP),
  .prim (ssetR sAlpha (fun e => e sRho1 / e sTmp)),                         -- alpha = rho1 / inner_product(*q, *p)
  .prim (.axpby (fun e => e sAlpha) (R vP) (fun _ => 1) (R vX)),                    -- axpby( alpha, *p, one,  x)
  .prim (.axpby (fun e => -(e sAlpha)) (R vQ) (fun _ => 1) (R vR)),                 -- axpby(-alpha, *q, one, *r)
  normInto sqrt sRes vR,                                                    -- res_norm = norm(*r)
  .prim (ssetR sCnt (fun e => e sCnt + 1)),                                 -- ++iter
  .prim (ssetR sFirst (fun _ => 1))]

/-- cg.hpp:170-204 after the prologue -/
def mainProg (prm : Params K) (sqrt : K → K) : Prog K (SEnv K) := seqs [
  .prim (ssetR sEps (fun e => Solver.maxK (prm.tol * e sNrhs) prm.abstol)),        -- eps = max(tol * norm_rhs, abstol)
  .prim (ssetR sRho1 (fun e => Solver.two * e sEps * 1)),                          -- rho1 = 2 * eps * one
  .prim (.residual (R vF) (R vX) (R vR)),                                               -- residual(rhs, A, x, *r)
  normInto sqrt sRes vR,                                                    -- res_norm = norm(*r)
  .prim (ssetR sCnt (fun _ => 0)),
  .prim (ssetR sFirst (fun _ => 0)),                                        -- iter = 0
  .loop prm.maxiter (fun e => decide (e sEps < Solver.absK (e sRes))) (bodyProg sqrt),         -- for(; iter < maxiter && norm(res) > eps;)
  .prim (ssetR sOut (fun e => e sRes / e sNrhs))]                           -- return (iter, res_norm / norm_rhs)

/-- the whole `operator()` -/
def prog (prm : Params K) (sqrt : K → K) (eps : K) : Prog K (SEnv K) :=
  .seq (normInto sqrt sNrhs vF)                                             -- norm_rhs = norm(rhs)
    (.ite (fun e => decide (e sNrhs < eps))
      (if prm.nsSearch then .seq (.prim (ssetR sNrhs (fun _ => 1))) (mainProg prm sqrt)   -- norm_rhs = 1
       else seqs [.prim (.clear (R vX)), .prim (ssetR sCnt (fun _ => 0)),       -- clear(x); return (0, norm_rhs)
                  .prim (ssetR sOut (fun e => e sNrhs))])
      (mainProg prm sqrt))

/-- the program state of a call `S(A, P, rhs, x)` on a solver with work vectors `ws` -/
def initState (ws : Solver.CG.Work K) (f x0 : Vec K) : St K (SEnv K) :=
  { vec := fun v => if v = vF then f else if v = vX then x0 else if v = vR then ws.r else if v = vS then ws.s
                    else if v = vP then ws.p else ws.q,
    scal := fun _ => 0 }

end Amgcl.Lockstep.CG
