import Amgcl.Model.Schedule
/-!
# Load/store granularity (C09, data-race statement)

A row update is a sequence of loads `x[c]` followed by one store of `x[i]`; inside a level the scheduler
interleaves the individual memory accesses of the threads arbitrarily (`MStep`); the barrier separates the levels
(`LevelwiseMicro`).  `gsProg` / `iluProg` are the row bodies of `parallel_sweep::sweep` / `sptr_solve::solve` in
this form.  Core Lean only.  Theorems: `Amgcl/Proofs/SchedMicro.lean`, `Amgcl.C09.*_load_store_*`.
-/
namespace Amgcl.Sched

/-- a row update at load/store granularity: the locations loaded (program order), and the value stored to `x[i]`
as a function of the loaded values -/
structure RowProg (K : Type) where
  loads : Nat → List Nat
  result : Nat → List K → K

/-- a thread inside one level: rows still to do; the row in progress with its remaining loads and the values
loaded so far -/
structure MThread (K : Type) where
  todo : List Nat
  cur : Option (Nat × List Nat × List K)

/-- one memory access of one thread (the scheduler picks the thread) -/
inductive MStep {K : Type} [Zero K] (P : RowProg K) : Vec K × List (MThread K) → Vec K × List (MThread K) → Prop
  | start (x : Vec K) (pre post : List (MThread K)) (i : Nat) (todo : List Nat) :
      MStep P (x, pre ++ ⟨i :: todo, none⟩ :: post) (x, pre ++ ⟨todo, some (i, P.loads i, [])⟩ :: post)
  | load (x : Vec K) (pre post : List (MThread K)) (i c : Nat) (cs : List Nat) (vs : List K) (todo : List Nat) :
      MStep P (x, pre ++ ⟨todo, some (i, c :: cs, vs)⟩ :: post)
              (x, pre ++ ⟨todo, some (i, cs, vs ++ [x.getD c 0])⟩ :: post)
  | store (x : Vec K) (pre post : List (MThread K)) (i : Nat) (vs : List K) (todo : List Nat) :
      MStep P (x, pre ++ ⟨todo, some (i, [], vs)⟩ :: post)
              (x.setIfInBounds i (P.result i vs), pre ++ ⟨todo, none⟩ :: post)

inductive MSteps {K : Type} [Zero K] (P : RowProg K) : Vec K × List (MThread K) → Vec K × List (MThread K) → Prop
  | refl (s) : MSteps P s s
  | step {s s' s''} : MStep P s s' → MSteps P s' s'' → MSteps P s s''

def mInit {K : Type} (ls : List (List Nat)) : List (MThread K) := ls.map (fun l => ⟨l, none⟩)
def MFinal {K : Type} (ths : List (MThread K)) : Prop := ∀ th ∈ ths, th.todo = [] ∧ th.cur = none

/-- the rows a thread has not completed -/
def MThread.rem {K : Type} (th : MThread K) : List Nat :=
  (match th.cur with | some (i, _, _) => [i] | none => []) ++ th.todo
def remaining {K : Type} (ths : List (MThread K)) : List Nat := ths.flatMap MThread.rem

/-- no row loads a location that another row of the level writes -/
def Indep {K : Type} (P : RowProg K) (rows : List Nat) : Prop := ∀ i ∈ rows, ∀ j ∈ rows, i ≠ j → j ∉ P.loads i

/-- fine-grained execution of the whole kernel under the barrier skeleton: level after level; inside a level any
interleaving of the individual loads and stores of the threads -/
inductive LevelwiseMicro {K : Type} [Zero K] (P : RowProg K) (tk : List (List (List Nat))) :
    List Nat → Vec K → Vec K → Prop
  | nil (x : Vec K) : LevelwiseMicro P tk [] x x
  | cons {lev : Nat} {levs : List Nat} {x x' x'' : Vec K} {ths' : List (MThread K)} :
      MSteps P (x, mInit (levelTasks tk lev)) (x', ths') → MFinal ths' →
      LevelwiseMicro P tk levs x' x'' → LevelwiseMicro P tk (lev :: levs) x x''

section progs
variable {K : Type} [Add K] [Mul K] [Sub K] [Zero K] [One K] [Div K]

/-- `sweep`: for every stored entry with `c ≠ i` one load of `x[c]` -/
def gsProg (A : CRS K) (rhs : Vec K) : RowProg K where
  loads i := ((A.row i).map Prod.fst).filter (fun c => c != i)
  result i vals :=
    let DX := ((A.row i).foldl (fun (st : (K × K) × List K) cv =>
      if cv.1 = i then ((cv.2, st.1.2), st.2) else ((st.1.1, st.1.2 - cv.2 * st.2.headD 0), st.2.tail))
      ((1, rhs.getD i 0), vals)).1
    (1 / DX.1) * DX.2

/-- `solve`: one load of `x[c]` per stored entry, then a load of `x[i]` -/
def iluProg (lower : Bool) (A : CRS K) (D : Vec K) : RowProg K where
  loads i := (A.row i).map Prod.fst ++ [i]
  result i vals :=
    let X := ((A.row i).zip vals).foldl (fun s cvv => s + cvv.1.2 * cvv.2) 0
    let xi := (vals.drop (A.row i).length).headD 0
    if lower then xi - X else D.getD i 0 * (xi - X)

end progs
end Amgcl.Sched
