import Amgcl.Model.Basic
/-!
# (Reverse) Cuthill–McKee ordering — `amgcl::reorder::cuthill_mckee<reverse>::get`
(`amgcl/reorder/cuthill_mckee.hpp:78-186`), statement by statement.

The C++ function keeps, besides the output `perm`,

* `degree[i]`            – number of stored entries of row `i` (diagonal, duplicates and explicit zeros all count),
* `levelSet[i]`          – `0` = not yet numbered, otherwise the number of the level set of `i`,
* `nextSameDegree[i]`    – singly linked lists (`-1` terminated) of the nodes of one level set with one degree,
* `firstWithDegree[d]`   – head of the list of degree `d` in the CURRENT level set,
* `nFirstWithDegree[d]`  – the same for the level set under construction,

the last two of size `maxDegree + 1`.  After a level set has been traversed only the entries `0..nMDICLS` of
`nFirstWithDegree` are copied back, so higher entries of `firstWithDegree` keep STALE heads of earlier level sets; they
are read again when the fallback (`empty`) raises `maxDegreeInCurrentLevelSet` to `degree[i]`.  The traversal loop is
`while (node > 0)`: a list is walked only as long as the node index is positive, so node `0` (the initial node!) is never
expanded and terminates every list it is a member of.

Conventions of the model

* `ptrdiff_t` variables holding a node index or `-1` are `Int`; counters, degrees and level numbers are `Nat`;
  `perm` is an `Array Nat` (the incoming content of the caller's vector is an input, `perm0`).
* every array access is bounds checked and an out-of-range access is the OUTCOME `oob` (never a default value):
  a column index `≥ n`, `perm` shorter than `n`.  An empty matrix returns at once (`if (n == 0) return;`, added by the
  fix of finding F41: before it the code wrote `perm[0]` and read `degree[0]` of empty vectors) and leaves `perm` as it
  was.
* `precondition(found, …)` is the outcome `precondition`.
* the two unbounded loops (`for (next = 1; next < n; )`, `while (node > 0)`) carry a fuel argument; running out of fuel
  is the outcome `fuel`.  `get` passes `n` for both; `Properties/C16c.lean` proves that this outcome (like `oob` and
  `precondition`) never occurs for a square well-formed pattern (any `n`).

Core Lean only; the values of the matrix are never looked at (`K` arbitrary).
-/
namespace Amgcl.CMK

/-- outcome of a run -/
inductive Res (α : Type) where
  | ok (a : α)
  | precondition
  | oob
  | fuel
  deriving Repr, DecidableEq

namespace Res
variable {α β : Type}

@[inline] def bind : Res α → (α → Res β) → Res β
  | .ok a, f => f a
  | .precondition, _ => .precondition
  | .oob, _ => .oob
  | .fuel, _ => .fuel

instance : Monad Res where
  pure := .ok
  bind := Res.bind

end Res

/-- checked read `a[i]` -/
@[inline] def rd {α : Type} (a : Array α) (i : Nat) : Res α :=
  if h : i < a.size then .ok a[i] else .oob

/-- checked write `a[i] = v` -/
@[inline] def wr {α : Type} (a : Array α) (i : Nat) (v : α) : Res (Array α) :=
  if i < a.size then .ok (a.setIfInBounds i v) else .oob

/-- left fold with outcomes (a `for` loop over a fixed range) -/
def foldR {α σ : Type} (f : σ → α → Res σ) : σ → List α → Res σ
  | s, [] => .ok s
  | s, a :: l => (f s a).bind (fun s' => foldR f s' l)

/-- the mutable variables of `get` -/
structure St where
  perm : Array Nat
  levelSet : Array Nat
  nextSameDegree : Array Int
  firstWithDegree : Array Int
  nFirstWithDegree : Array Int
  next : Nat
  currentLevelSet : Nat
  maxDegreeInCurrentLevelSet : Nat
  nMDICLS : Nat
  empty : Bool
  deriving Repr

/-- body of `for (auto a = row_begin(A, node); a; ++a)` for one entry with column `c` (lines 146-155) -/
def visitCol (degree : Array Nat) (s : St) (c : Nat) : Res St := do
  let l ← rd s.levelSet c                                       -- if (levelSet[c] == 0) {
  if l = 0 then
    let levelSet ← wr s.levelSet c (s.currentLevelSet + 1)      --   levelSet[c] = currentLevelSet + 1;
    let perm ← wr s.perm s.next c                               --   perm[next] = c;
    let next := s.next + 1                                      --   ++next;
    let dc ← rd degree c                                        --   (degree[c])
    let nf ← rd s.nFirstWithDegree dc
    let nextSameDegree ← wr s.nextSameDegree c nf               --   nextSameDegree[c] = nFirstWithDegree[degree[c]];
    let nFirstWithDegree ← wr s.nFirstWithDegree dc (c : Int)   --   nFirstWithDegree[degree[c]] = c;
    pure { s with levelSet, perm, next, empty := false, nextSameDegree, nFirstWithDegree,
                  nMDICLS := max s.nMDICLS dc }                 --   nMDICLS = max(nMDICLS, degree[c]); }
  else pure s

/-- `for (auto a = row_begin(A, node); a; ++a) { … }` over the stored entries of one row, in stored order -/
def visitRow {K : Type} (degree : Array Nat) (s : St) (r : Row K) : Res St :=
  foldR (fun s cv => visitCol degree s cv.1) s r

/-- `while (node > 0) { visit the row of node; node = nextSameDegree[node]; }` (lines 143-158) -/
def walk {K : Type} (A : CRS K) (degree : Array Nat) : Nat → Int → St → Res St
  | 0, node, s => if node > 0 then .fuel else .ok s
  | fuel + 1, node, s =>
    if node > 0 then
      if node.toNat < A.nrows then                              -- row_begin(A, node) reads ptr[node], ptr[node+1]
        (visitRow degree s (A.row node.toNat)).bind fun s =>
        (rd s.nextSameDegree node.toNat).bind fun node' =>
        walk A degree fuel node' s
      else .oob
    else .ok s

/-- the values of `soughtDegree`: `firstVal, firstVal + increment, …` up to (excluding) `finalVal` (lines 136-140) -/
def soughtList (reverse : Bool) (maxDeg : Nat) : List Nat :=
  if reverse then (List.range (maxDeg + 1)).reverse else List.range (maxDeg + 1)

/-- one value of `soughtDegree` (lines 142-158) -/
def scanDegree {K : Type} (A : CRS K) (degree : Array Nat) (walkFuel : Nat) (s : St) (sought : Nat) : Res St :=
  (rd s.firstWithDegree sought).bind fun node => walk A degree walkFuel node s

/-- `for (i = 0; i <= nMDICLS; ++i) firstWithDegree[i] = nFirstWithDegree[i];` -/
def copyBack (nFirst : Array Int) (first : Array Int) (cnt : Nat) : Res (Array Int) :=
  foldR (fun fw i => (rd nFirst i).bind fun v => wr fw i v) first (List.range cnt)

/-- `for (i = 0; i < n; ++i) if (levelSet[i] == 0) { …; break; }`: the first not yet numbered node, if any -/
def search (levelSet : Array Nat) : List Nat → Res (Option Nat)
  | [] => .ok none
  | i :: l => (rd levelSet i).bind fun v => if v = 0 then .ok (some i) else search levelSet l

/-- the fallback for an empty level set (lines 166-183) -/
def fallback (n : Nat) (degree : Array Nat) (s : St) : Res St :=
  (search s.levelSet (List.range n)).bind fun
    | none => .precondition                                      -- precondition(found, …)
    | some i => do
      let perm ← wr s.perm s.next i                              -- perm[next] = i;
      let next := s.next + 1                                     -- ++next;
      let levelSet ← wr s.levelSet i s.currentLevelSet           -- levelSet[i] = currentLevelSet;
      let d ← rd degree i                                        -- maxDegreeInCurrentLevelSet = degree[i];
      let firstWithDegree ← wr s.firstWithDegree d (i : Int)     -- firstWithDegree[maxDegreeInCurrentLevelSet] = i;
      pure { s with perm, next, levelSet, maxDegreeInCurrentLevelSet := d, firstWithDegree }

/-- body of the main loop (lines 132-183) -/
def level {K : Type} (reverse : Bool) (A : CRS K) (n : Nat) (degree : Array Nat) (walkFuel : Nat) (s : St) : Res St :=
  -- nMDICLS = 0; fill(nFirstWithDegree, -1); empty = true;
  let s := { s with nMDICLS := 0, nFirstWithDegree := Array.replicate s.nFirstWithDegree.size (-1), empty := true }
  (foldR (scanDegree A degree walkFuel) s (soughtList reverse s.maxDegreeInCurrentLevelSet)).bind fun s =>
  -- ++currentLevelSet; maxDegreeInCurrentLevelSet = nMDICLS;
  let s := { s with currentLevelSet := s.currentLevelSet + 1, maxDegreeInCurrentLevelSet := s.nMDICLS }
  (copyBack s.nFirstWithDegree s.firstWithDegree (s.nMDICLS + 1)).bind fun fw =>
  let s := { s with firstWithDegree := fw }
  if s.empty then fallback n degree s else .ok s

/-- `for (next = 1; next < n; ) { … }` -/
def mainLoop {K : Type} (reverse : Bool) (A : CRS K) (n : Nat) (degree : Array Nat) (walkFuel : Nat) :
    Nat → St → Res St
  | 0, s => if s.next < n then .fuel else .ok s
  | fuel + 1, s =>
    if s.next < n then (level reverse A n degree walkFuel s).bind (mainLoop reverse A n degree walkFuel fuel)
    else .ok s

/-- `degree[i]` = number of stored entries of row `i` -/
def degrees {K : Type} (A : CRS K) : Array Nat := A.rows.map (·.length)

/-- `maxDegree` (the OpenMP reduction computes the maximum; `0` for an empty matrix) -/
def maxDegree (degree : Array Nat) : Nat := degree.foldl max 0

/-- the state before the main loop (lines 97-128), with explicit fuels -/
def initSt {K : Type} (A : CRS K) (perm0 : Array Nat) : Res St :=
  let n := A.nrows
  let degree := degrees A
  let maxDeg := maxDegree degree
  let initialNode := 0
  do
  let perm ← wr perm0 0 initialNode                                           -- perm[0] = initialNode;
  let levelSet ← wr (Array.replicate n 0) initialNode 1                       -- levelSet[initialNode] = currentLevelSet (= 1);
  let md ← rd degree initialNode                                              -- maxDegreeInCurrentLevelSet = degree[initialNode];
  let firstWithDegree ← wr (Array.replicate (maxDeg + 1) (-1 : Int)) md (initialNode : Int)
  pure { perm, levelSet, nextSameDegree := Array.replicate n (-1),
         firstWithDegree, nFirstWithDegree := Array.replicate (maxDeg + 1) 0,  -- std::vector<ptrdiff_t>(maxDegree + 1)
         next := 1, currentLevelSet := 1, maxDegreeInCurrentLevelSet := md, nMDICLS := 0, empty := true }

/-- `cuthill_mckee<reverse>::get(A, perm)` with explicit fuels for the main loop and for the list walks -/
def getFuel {K : Type} (reverse : Bool) (A : CRS K) (perm0 : Array Nat) (mainFuel walkFuel : Nat) : Res (Array Nat) :=
  if A.nrows = 0 then .ok perm0 else                             -- if (n == 0) return;   (perm is not touched)
  (initSt A perm0).bind fun s =>
  (mainLoop reverse A A.nrows (degrees A) walkFuel mainFuel s).bind fun s => .ok s.perm

/-- **`cuthill_mckee<reverse>::get(A, perm)`**; `perm0` is the incoming content of `perm` -/
def get {K : Type} (reverse : Bool) (A : CRS K) (perm0 : Array Nat) : Res (Array Nat) :=
  getFuel reverse A perm0 A.nrows A.nrows

end Amgcl.CMK
