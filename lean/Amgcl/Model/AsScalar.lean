import Amgcl.Model.Adapters
/-!
# `coarsening::as_scalar<C>::type<Backend>` for a block-valued input (amgcl/coarsening/as_scalar.hpp:46-113)

`transfer_operators(B)` (58-80): the base coarsening `C<builtin<Scalar>>` runs on `*adapter::unblock_matrix(B)`; its
`P`, `R` are sorted (`backend::sort_rows`) and converted back with `adapter::block_matrix<Block>` (whose constructor
can fail with `precondition` when a dimension is not a multiple of the block size).  `coarse_operator(A, P, R)`
(108-112) forwards to `base.coarse_operator(A, P, R)` with the block-valued arguments (the base's member template
instantiated at the block matrix type), so the base's scaling (`1/over_interp` for plain aggregation) is kept.
-/
namespace Amgcl.AsScalar
open Amgcl Amgcl.Adapters

variable {K : Type} [Zero K] [Add K]

/-- outcome of `transfer_operators`: `none` = the base threw `error::empty_level` -/
def transferOperators (b : Nat) (baseTransfer : CRS K → Option (CRS K × CRS K)) (B : CRS (Blk K)) :
    Option (Outcome (CRS (Blk K) × CRS (Blk K))) :=
  match baseTransfer (unblock b B) with
  | none => none
  | some (P, R) =>
    match blockMatrix b (sortRows P), blockMatrix b (sortRows R) with
    | .ok Pb, .ok Rb => some (.ok (Pb, Rb))
    | _, _ => some .precondition

/-- `coarse_operator`: the base's, at the block matrix type -/
def coarseOperator {M : Type} (baseCoarse : M → M → M → M) (A P R : M) : M := baseCoarse A P R

end Amgcl.AsScalar
