/-!
# C14 — the dispatch conditions of the serial run-time wrappers, as the expressions they are expected to be

Core Lean only.  `tools/params_extract.py` (function `extract_dispatch`) reads, on every run of the C14 check, the four
files `amgcl/{coarsening,relaxation,solver,preconditioner}/runtime.hpp` and every specialisation of
`backend::coarsening_is_supported` / `backend::relaxation_is_supported`, and emits — whitespace-normalised, keyed by
file / kind / enclosing member function — the expressions that decide WHICH class a wrapper builds and WHICH member it
forwards to:

* `read`      the key and default the enumerator is read with (`prm.get("type", …)`),
* `assign`    the `block_value_type` and `as_scalar` tests of `runtime::coarsening::wrapper`
              (`as_scalar<C>::type` is selected iff the value type is a static matrix with more than one row,
              `C ≠ ruge_stuben`, and `prm.get("nullspace.cols", 0) > 0` — `get`, which resolves the dotted path),
* `macro`     the body of every switch-local case macro (constructor, destructor, `apply_pre`/`apply_post`/`apply`,
              `transfer_operators`/`coarse_operator`, `operator()`, `operator<<`, `bytes`),
* `enable_if` the condition in front of every `call_*` / `make_*` helper, in textual order (supported, then not),
* `case`      the `Precond` type of every case of every switch of `runtime::preconditioner`,
* `forward`   the arguments with which the three-argument `operator()` of the solver wrapper calls the four-argument one,
* `trait`     the primary templates and the specialisations of the two support traits.

`expectedDispatch` below is that list as recorded from the baseline library and read against the documentation of the
wrappers; the generated obligation `Amgcl.Generated.dispatch_conditions_expected` states that the freshly extracted list
is equal to it (same keys, same order, same text), checked by the kernel (`decide`).  It is a textual tie, not a
semantic one: a changed condition fails the obligation before any harness runs; an equivalent re-formulation fails it
as well and has to be re-read here.  The behaviour itself is compared by `harness/h_params_rtb.cpp` (block and complex
value types) and `harness/h_params.cpp` (scalar).
-/
namespace Amgcl.Params

/-- the dispatch expressions of the serial run-time wrappers (key, whitespace-normalised text) -/
def expectedDispatch : List (String × String) := [
  ("coarsening/runtime enable_if call_constructor", "backend::coarsening_is_supported<Backend, Coarsening>::value"),
  ("coarsening/runtime enable_if call_constructor#2", "!backend::coarsening_is_supported<Backend, Coarsening>::value"),
  ("coarsening/runtime enable_if call_destructor", "backend::coarsening_is_supported<Backend, Coarsening>::value"),
  ("coarsening/runtime enable_if call_destructor#2", "!backend::coarsening_is_supported<Backend, Coarsening>::value"),
  ("coarsening/runtime enable_if make_operators", "backend::coarsening_is_supported<Backend, Coarsening>::value"),
  ("coarsening/runtime enable_if make_operators#2", "!backend::coarsening_is_supported<Backend, Coarsening>::value"),
  ("coarsening/runtime enable_if make_coarse", "backend::coarsening_is_supported<Backend, Coarsening>::value"),
  ("coarsening/runtime enable_if make_coarse#2", "!backend::coarsening_is_supported<Backend, Coarsening>::value"),
  ("coarsening/runtime macro wrapper", "case t: if (as_scalar) { handle = call_constructor<amgcl::coarsening::as_scalar<amgcl::coarsening::t>::type>(prm); } else { handle = call_constructor<amgcl::coarsening::t>(prm); } break"),
  ("coarsening/runtime macro ~wrapper", "case t: if (as_scalar) { call_destructor<amgcl::coarsening::as_scalar<amgcl::coarsening::t>::type>(); } else { call_destructor<amgcl::coarsening::t>(); } break"),
  ("coarsening/runtime macro transfer_operators", "case t: if (as_scalar) { return make_operators<amgcl::coarsening::as_scalar<amgcl::coarsening::t>::type>(A); } return make_operators<amgcl::coarsening::t>(A)"),
  ("coarsening/runtime macro coarse_operator", "case t: if (as_scalar) { return make_coarse<amgcl::coarsening::as_scalar<amgcl::coarsening::t>::type>(A, P, R); } return make_coarse<amgcl::coarsening::t>(A, P, R)"),
  ("coarsening/runtime assign block_value_type", "math::static_rows<value_type>::value > 1"),
  ("coarsening/runtime assign as_scalar", "( block_value_type && c != ruge_stuben && prm.get(\"nullspace.cols\", 0) > 0 )"),
  ("coarsening/runtime read c", "\"type\", runtime::coarsening::smoothed_aggregation"),
  ("relaxation/runtime enable_if call_constructor", "backend::relaxation_is_supported<Backend, Relaxation>::value"),
  ("relaxation/runtime enable_if call_constructor#2", "!backend::relaxation_is_supported<Backend, Relaxation>::value"),
  ("relaxation/runtime enable_if call_apply_pre", "backend::relaxation_is_supported<Backend, Relaxation>::value"),
  ("relaxation/runtime enable_if call_apply_pre#2", "!backend::relaxation_is_supported<Backend, Relaxation>::value"),
  ("relaxation/runtime enable_if call_apply_post", "backend::relaxation_is_supported<Backend, Relaxation>::value"),
  ("relaxation/runtime enable_if call_apply_post#2", "!backend::relaxation_is_supported<Backend, Relaxation>::value"),
  ("relaxation/runtime enable_if call_apply", "backend::relaxation_is_supported<Backend, Relaxation>::value"),
  ("relaxation/runtime enable_if call_apply#2", "!backend::relaxation_is_supported<Backend, Relaxation>::value"),
  ("relaxation/runtime macro wrapper", "case type: handle = call_constructor<amgcl::relaxation::type>(A, prm, bprm); break"),
  ("relaxation/runtime macro ~wrapper", "case type: delete static_cast<amgcl::relaxation::type<Backend>*>(handle); break"),
  ("relaxation/runtime macro apply_pre", "case type: call_apply_pre<amgcl::relaxation::type>(A, rhs, x, tmp); break"),
  ("relaxation/runtime macro apply_post", "case type: call_apply_post<amgcl::relaxation::type>(A, rhs, x, tmp); break"),
  ("relaxation/runtime macro apply", "case type: call_apply<amgcl::relaxation::type>(A, rhs, x); break"),
  ("relaxation/runtime macro bytes", "case type: return backend::bytes(*static_cast<amgcl::relaxation::type<Backend>*>(handle))"),
  ("relaxation/runtime read r", "\"type\", runtime::relaxation::spai0"),
  ("solver/runtime macro wrapper", "case type: handle = static_cast<void*>(new amgcl::solver::type<Backend, InnerProduct>(n, prm, bprm, inner_product)); break"),
  ("solver/runtime macro ~wrapper", "case type: delete static_cast<amgcl::solver::type<Backend, InnerProduct>*>(handle); break"),
  ("solver/runtime macro operator()", "case type: return static_cast<amgcl::solver::type<Backend, InnerProduct>*>(handle)->operator()(A, P, rhs, x)"),
  ("solver/runtime macro operator<<", "case type: return os << *static_cast<amgcl::solver::type<Backend, InnerProduct>*>(w.handle)"),
  ("solver/runtime macro bytes", "case type: return backend::bytes(*static_cast<amgcl::solver::type<Backend, InnerProduct>*>(handle))"),
  ("solver/runtime forward operator()", "P.system_matrix(), P, rhs, x"),
  ("solver/runtime read s", "\"type\", runtime::solver::bicgstab"),
  ("preconditioner/runtime case preconditioner amg", "amgcl::amg<Backend, runtime::coarsening::wrapper, runtime::relaxation::wrapper>"),
  ("preconditioner/runtime case preconditioner relaxation", "amgcl::relaxation::as_preconditioner<Backend, runtime::relaxation::wrapper>"),
  ("preconditioner/runtime case preconditioner dummy", "amgcl::preconditioner::dummy<Backend>"),
  ("preconditioner/runtime case preconditioner nested", "make_solver< preconditioner, runtime::solver::wrapper<Backend> >"),
  ("preconditioner/runtime case ~preconditioner amg", "amgcl::amg<Backend, runtime::coarsening::wrapper, runtime::relaxation::wrapper>"),
  ("preconditioner/runtime case ~preconditioner relaxation", "amgcl::relaxation::as_preconditioner<Backend, runtime::relaxation::wrapper>"),
  ("preconditioner/runtime case ~preconditioner dummy", "amgcl::preconditioner::dummy<Backend>"),
  ("preconditioner/runtime case ~preconditioner nested", "make_solver< preconditioner, runtime::solver::wrapper<Backend> >"),
  ("preconditioner/runtime case rebuild amg", "amgcl::amg<Backend, runtime::coarsening::wrapper, runtime::relaxation::wrapper>"),
  ("preconditioner/runtime case apply amg", "amgcl::amg<Backend, runtime::coarsening::wrapper, runtime::relaxation::wrapper>"),
  ("preconditioner/runtime case apply relaxation", "amgcl::relaxation::as_preconditioner<Backend, runtime::relaxation::wrapper>"),
  ("preconditioner/runtime case apply dummy", "amgcl::preconditioner::dummy<Backend>"),
  ("preconditioner/runtime case apply nested", "make_solver< preconditioner, runtime::solver::wrapper<Backend> >"),
  ("preconditioner/runtime case system_matrix_ptr amg", "amgcl::amg<Backend, runtime::coarsening::wrapper, runtime::relaxation::wrapper>"),
  ("preconditioner/runtime case system_matrix_ptr relaxation", "amgcl::relaxation::as_preconditioner<Backend, runtime::relaxation::wrapper>"),
  ("preconditioner/runtime case system_matrix_ptr dummy", "amgcl::preconditioner::dummy<Backend>"),
  ("preconditioner/runtime case system_matrix_ptr nested", "make_solver< preconditioner, runtime::solver::wrapper<Backend> >"),
  ("preconditioner/runtime case bytes amg", "amgcl::amg<Backend, runtime::coarsening::wrapper, runtime::relaxation::wrapper>"),
  ("preconditioner/runtime case bytes relaxation", "amgcl::relaxation::as_preconditioner<Backend, runtime::relaxation::wrapper>"),
  ("preconditioner/runtime case bytes dummy", "amgcl::preconditioner::dummy<Backend>"),
  ("preconditioner/runtime case bytes nested", "make_solver< preconditioner, runtime::solver::wrapper<Backend> >"),
  ("preconditioner/runtime case operator<< amg", "amgcl::amg<Backend, runtime::coarsening::wrapper, runtime::relaxation::wrapper>"),
  ("preconditioner/runtime case operator<< relaxation", "amgcl::relaxation::as_preconditioner<Backend, runtime::relaxation::wrapper>"),
  ("preconditioner/runtime case operator<< dummy", "amgcl::preconditioner::dummy<Backend>"),
  ("preconditioner/runtime case operator<< nested", "make_solver< preconditioner, runtime::solver::wrapper<Backend> >"),
  ("preconditioner/runtime read _class", "\"class\", runtime::precond_class::amg"),
  ("trait relaxation_is_supported primary", "true_type"),
  ("trait coarsening_is_supported primary", "true_type"),
  ("trait coarsening_is_supported coarsening/ruge_stuben", "Backend, coarsening::ruge_stuben, typename std::enable_if< !std::is_arithmetic<typename backend::value_type<Backend>::type>::value >::type : false_type"),
  ("trait relaxation_is_supported relaxation/gauss_seidel", "Backend, relaxation::gauss_seidel, typename std::enable_if< !Backend::provides_row_iterator::value >::type : false_type"),
  ("trait relaxation_is_supported relaxation/spai1", "Backend, relaxation::spai1, typename std::enable_if< (amgcl::math::static_rows<typename Backend::value_type>::value > 1) >::type : false_type")
]

/-- same keys, same order, same text -/
def dispatchAgrees (found expected : List (String × String)) : Bool := found == expected

end Amgcl.Params

namespace Amgcl.Params
/-- the comparison is not vacuous: one changed character (`get` → `count` in the `as_scalar` test) is a disagreement -/
example : dispatchAgrees
    [("coarsening/runtime assign as_scalar", "( block_value_type && c != ruge_stuben && prm.count(\"nullspace.cols\") > 0 )")]
    [("coarsening/runtime assign as_scalar", "( block_value_type && c != ruge_stuben && prm.get(\"nullspace.cols\", 0) > 0 )")] = false := by
  decide
example : expectedDispatch.length = 68 := by decide
end Amgcl.Params
