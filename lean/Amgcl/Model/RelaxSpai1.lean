import Amgcl.Model.RelaxCommon
import Amgcl.Model.QR
/-!
# SPAI-1 (relaxation/spai1.hpp:64-150) — core Lean only

The constructor copies `A` (`Ainv = make_shared<Matrix>(A)`: same `ptr`/`col`, values to be overwritten) and, for every row
`i`, with the per-thread objects `marker` (size `cols(A)`, all `-1`), `I`, `J`, `B`, `ek` and ONE `amgcl::detail::QR` object:

1. `I` = the stored columns of row `i` (stored order, repetitions kept);
2. `J` = the columns of the rows `c ∈ I` of `A`, collected in order of first appearance through `marker[cc] < 0` /
   `marker[cc] = 1` (`spai1Collect`), then `std::sort`ed (`sortNat`: `J` has no repetitions, so the sorted vector is determined);
3. `B.assign(|I|·|J|, 0)`, `ek.assign(|J|, 0)`; `marker[J[j]] = j`, `ek[j] = 1` where `J[j] == i` (`spai1Index`);
4. `B[marker[a.col()] + |J|·q] = a.value()` for the `q`-th column `c` of `I` and every stored entry `a` of row `c` of `A`
   (`spai1Fill`: plain assignment — a column stored twice in row `c` keeps the LAST value; `B` is `|J| × |I|`, column-major);
5. `qr.solve(|J|, |I|, B, ek, &Ainv->val[row_beg], col_major)` — `QRModel.solveS` with strides `(1, |J|)` on the reused object;
6. `marker[J[j]] = -1`.

`M = copy_matrix(Ainv)`.  The sweeps are `tmp = rhs - A x; x = 1·M·tmp + 1·x` and `apply`: `x = 1·M·rhs + 0·x`.

With one OpenMP thread (what the harness forces) the rows are visited in order with one `marker` and one `QR` object — that
is what `spai1Setup` threads through its fold; `Properties/C06b.lean` proves that neither carries information from one row
to the next (`spai1_row_state_indep`), so any distribution of the rows over threads gives the same `M`.

`sqrt` is a parameter (DESIGN.md §2.1); the driver passes `Amgcl.rsqrt`.
-/
namespace Amgcl
namespace Relax
variable {K : Type} [Zero K] [One K] [Add K] [Sub K] [Mul K] [Div K] [Neg K] [LT K] [DecidableLT K] [DecidableEq K]

/-- insertion of one index into a sorted list -/
def insNat (a : Nat) : List Nat → List Nat
  | [] => [a]
  | b :: t => if a ≤ b then a :: b :: t else b :: insNat a t

/-- `std::sort` on a vector of indices (any sorting algorithm returns the same vector) -/
def sortNat (l : List Nat) : List Nat := l.foldr insNat []

/-- spai1.hpp:88-99: `for c in I: for cc in cols(A.row c): if (marker[cc] < 0) { marker[cc] = 1; J.push_back(cc); }` -/
def spai1Collect (A : CRS K) (I : List Nat) (marker : Array Int) : Array Nat × Array Int :=
  I.foldl (fun acc c =>
    (A.row c).foldl (fun (acc : Array Nat × Array Int) cc =>
      if acc.2.getD cc.1 0 < 0 then (acc.1.push cc.1, acc.2.setIfInBounds cc.1 1) else acc) acc) (#[], marker)

/-- spai1.hpp:103-106: `for j: marker[J[j]] = j; if (J[j] == i) ek[j] = 1` -/
def spai1Index (i : Nat) (J : List Nat) (marker : Array Int) (ek : Array K) : Array Int × Array K :=
  J.zipIdx.foldl (fun (acc : Array Int × Array K) cj =>
    (acc.1.setIfInBounds cj.1 (cj.2 : Int), if cj.1 = i then acc.2.setIfInBounds cj.2 1 else acc.2)) (marker, ek)

/-- spai1.hpp:108-113: `for q, c in I: for a in A.row c: B[marker[a.col()] + |J| * q] = a.value()` -/
def spai1Fill (A : CRS K) (I : List Nat) (nJ : Nat) (marker : Array Int) (B : Array K) : Array K :=
  I.zipIdx.foldl (fun B cq =>
    (A.row cq.1).foldl (fun (B : Array K) a => B.setIfInBounds ((marker.getD a.1 0).toNat + nJ * cq.2) a.2) B) B

/-- the local least-squares problem of row `i` as the code assembles it -/
structure Spai1Local (K : Type) where
  I  : List Nat
  J  : List Nat
  B  : Array K
  ek : Array K
  /-- the marker array after the assembly (before it is reset) -/
  marker : Array Int

/-- steps 1–4 for row `i`, on the marker array `marker` -/
def spai1Local (A : CRS K) (i : Nat) (marker : Array Int) : Spai1Local K :=
  let I := (A.row i).map (·.1)
  let cm := spai1Collect A I marker
  let J := sortNat cm.1.toList
  let ix := spai1Index i J cm.2 (Array.replicate J.length (0 : K))
  { I := I, J := J, ek := ix.2, marker := ix.1,
    B := spai1Fill A I J.length ix.1 (Array.replicate (I.length * J.length) (0 : K)) }

/-- the body of the row loop: returns row `i` of `Ainv` and the per-thread state (marker, QR object) -/
def spai1Row (sqrt : K → K) (A : CRS K) (i : Nat) (st : Array Int × QRModel.Obj K) :
    Row K × (Array Int × QRModel.Obj K) :=
  let P := spai1Local A i st.1
  let xo := QRModel.solveS sqrt P.J.length P.I.length 1 P.J.length P.B P.ek st.2
  let marker := P.J.foldl (fun (m : Array Int) c => m.setIfInBounds c (-1)) P.marker
  (P.I.zipIdx.map (fun cq => (cq.1, xo.1.getD cq.2 0)), (marker, xo.2))

/-- the row loop of the constructor on one thread -/
def spai1Loop (sqrt : K → K) (A : CRS K) : Array (Row K) × (Array Int × QRModel.Obj K) :=
  (List.range A.nrows).foldl (fun (acc : Array (Row K) × (Array Int × QRModel.Obj K)) i =>
    let r := spai1Row sqrt A i acc.2
    (acc.1.push r.1, r.2)) (#[], (Array.replicate A.ncols (-1), QRModel.Obj.fresh))

/-- `spai1::spai1(A, prm, bprm)`: the matrix `M` -/
def spai1Setup (sqrt : K → K) (A : CRS K) : CRS K :=
  { ncols := A.ncols, rows := (spai1Loop sqrt A).1 }

/-- `apply_pre` = `apply_post`: `residual(rhs, A, x, tmp); spmv(1, M, tmp, 1, x)` -/
def spai1Sweep (M A : CRS K) (f x _tmp : Vec K) : Vec K × Vec K :=
  let tmp := residual f A x
  (spmv 1 M tmp 1 x, tmp)

/-- `apply`: `spmv(1, M, rhs, 0, x)` (the `beta = 0` branch never reads `x`) -/
def spai1Apply (M : CRS K) (f : Vec K) : Vec K := spmv 1 M f 0 #[]

/-- SPAI-1; the state is the matrix `M` -/
def spai1 (sqrt : K → K) : Smoother K (CRS K) where
  setup A := .ok (spai1Setup sqrt A)
  applyPre M A f x t := spai1Sweep M A f x t
  applyPost M A f x t := spai1Sweep M A f x t
  apply M _ f := spai1Apply M f

end Relax
end Amgcl
