import Amgcl.Model.Primitives
/-!
# Common shape of the relaxation (smoother) models — C06, consumed by the multigrid cycle model (C02)

`amg.hpp:527-549` uses a smoother only through

    relax->apply_pre (*A, rhs, x, *t);      // x and the level scratch vector t are in/out
    relax->apply_post(*A, rhs, x, *t);
    relax->apply     (*A, rhs, x);          // as_preconditioner / coarsest level: x is output only

and builds it with `relax_type(A, prm.relax, bprm)`.  The model of a smoother is therefore a record

* `setup     : CRS K → SetupOutcome S`                      — the constructor (`precondition` failures are outcomes)
* `applyPre  : S → CRS K → Vec K → Vec K → Vec K → Vec K × Vec K`   — `(s, A, rhs, x, tmp) ↦ (x', tmp')`
* `applyPost : …` same shape
* `apply     : S → CRS K → Vec K → Vec K`                   — `(s, A, rhs) ↦ x'` (the old `x` is never read: every
  implementation starts with `clear(x)`, `copy(rhs,x)` or a `beta = 0` primitive)

with the numerical parameters (damping, degree, …) closed over when the record is built
(`Relax.jacobi ω`, `Relax.gaussSeidel`, `Relax.spai0 norm`, `Relax.chebyshev prm norm`, `Relax.ilu0 ω`).

Scratch is state: `tmp` is threaded through; mutable *members* of the C++ object that are pure scratch (Chebyshev's
`p`, `r`) are part of `S` and the faithful step functions (`Relax.chebSolve`) return their new contents; the record
instance projects them away, which is justified by the `*_scratch_indep` theorems of `Properties/C06.lean` (the
result does not depend on their contents).

The properties the cycle theorems (C02) need from a smoother are collected here as plain `Prop`s
(`ScratchIndep`, `JointlyLinear`, `FixedPoint`, `SizeOk`) so that C02 can take them as hypotheses and C06 can
discharge them per smoother.
-/
namespace Amgcl
namespace Relax

/-- outcome of a smoother constructor -/
inductive SetupOutcome (S : Type) where
  /-- constructed -/
  | ok (s : S)
  /-- `amgcl::precondition(…)` threw (`std::runtime_error`): missing diagonal / zero pivot in ILU -/
  | precondition
  /-- the C++ constructor would read memory it never wrote (row without diagonal where the code does not check):
  outside the domain of every property; the driver answers `bad-input` and the harness does not run the code -/
  | undefinedInput
deriving Repr, DecidableEq

/-- a smoother in the shape the cycle consumes -/
structure Smoother (K : Type) (S : Type) where
  setup     : CRS K → SetupOutcome S
  applyPre  : S → CRS K → Vec K → Vec K → Vec K → Vec K × Vec K
  applyPost : S → CRS K → Vec K → Vec K → Vec K → Vec K × Vec K
  apply     : S → CRS K → Vec K → Vec K

section structural
variable {K : Type}

/-- every row `i` stores column `i` exactly once (duplicated off-diagonal entries are allowed) -/
def diagOnceb (A : CRS K) : Bool :=
  (List.range A.nrows).all (fun i => (A.row i).countP (fun cv => cv.1 == i) == 1)

end structural

section vec
variable {K : Type} [Add K] [Mul K] [Zero K]

/-- the linear combination `a·x + b·y` of two vectors (entrywise; the size is that of `x`) — used to *state*
linearity, not a model of a C++ function -/
def vlin (a : K) (x : Vec K) (b : K) (y : Vec K) : Vec K :=
  Array.ofFn (n := x.size) (fun i => a * x.getD i 0 + b * y.getD i 0)

end vec

section props
variable {K : Type} [Add K] [Mul K] [Zero K] {S : Type}

/-- one sweep as a function `(f, x, tmp) ↦ x'` -/
abbrev Sweep (K : Type) := Vec K → Vec K → Vec K → Vec K × Vec K

/-- the new iterate does not depend on the incoming contents of the scratch vector -/
def Sweep.ScratchIndep (sw : Sweep K) : Prop :=
  ∀ f x t t', (sw f x t).1 = (sw f x t').1

/-- the new iterate is a jointly linear function of `(f, x)` on vectors of length `n`
(an affine map `x ↦ S x + B f` of `x` with `f`-linear offset), whatever the scratch vectors contain -/
def Sweep.JointlyLinear (sw : Sweep K) (n : Nat) : Prop :=
  ∀ (a b : K) (f g x y t t₁ t₂ : Vec K), f.size = n → g.size = n → x.size = n → y.size = n →
    (sw (vlin a f b g) (vlin a x b y) t).1 = vlin a (sw f x t₁).1 b (sw g y t₂).1

/-- the new iterate has the length of the old one -/
def Sweep.SizeOk (sw : Sweep K) (n : Nat) : Prop :=
  ∀ f x t, f.size = n → x.size = n → (sw f x t).1.size = n

/-- a solution of `A x = f` (entrywise, via the model `residual`) is a fixed point -/
def Sweep.FixedPoint [Sub K] (sw : Sweep K) (A : CRS K) : Prop :=
  ∀ f x t, x.size = A.nrows → f.size = A.nrows →
    (∀ i, i < A.nrows → rowDot (A.row i) x = f.getD i 0) → (sw f x t).1 = x

/-- everything C02 asks of a constructed smoother `s` on the matrix `A` -/
structure Smoother.Good [Sub K] (sm : Smoother K S) (s : S) (A : CRS K) : Prop where
  pre_indep   : Sweep.ScratchIndep (sm.applyPre s A)
  post_indep  : Sweep.ScratchIndep (sm.applyPost s A)
  pre_linear  : Sweep.JointlyLinear (sm.applyPre s A) A.nrows
  post_linear : Sweep.JointlyLinear (sm.applyPost s A) A.nrows
  pre_size    : Sweep.SizeOk (sm.applyPre s A) A.nrows
  post_size   : Sweep.SizeOk (sm.applyPost s A) A.nrows
  pre_fixed   : Sweep.FixedPoint (sm.applyPre s A) A
  post_fixed  : Sweep.FixedPoint (sm.applyPost s A) A

end props

end Relax
end Amgcl
