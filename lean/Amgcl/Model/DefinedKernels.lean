import Amgcl.Model.DefinedCells
import Amgcl.Model.Kernels
import Amgcl.Model.KernelsCopy
import Amgcl.Model.TentativeProlongation
import Amgcl.Model.RelaxJacobi
/-!
# Cell-level models (flat `ptr` / `col` / `val` arrays, in the write/read order of the C++ code) of kernels that fill
freshly allocated, uninitialised arrays

A load returns the value the cell holds — the junk of the allocation if the cell was never written, exactly what the
machine does — together with the cell's `written` flag; every model threads a flag `ok` that turns `false` at the
first load of an unwritten (or out-of-range) cell.  The theorems (`Properties/C10c.lean`) show `ok = true`, every cell
of the result written, and the result equal to the flat image of the row-level model the correspondence check
validates, for every prior heap content.

Building blocks (each is one C++ loop shape):
* `fillVec`     `for i < n: a[i] = f i`                                  (`numa_vector(n, false)` users: spai0 `M`, `diagonal`)
* `ptrPass`     `ptr[0] = 0; for i < n: ptr[i+1] = width i`             (after `set_size(n, m)`)
* `scanCells`   `std::partial_sum(ptr, ptr + n + 1, ptr)`              (`scan_row_sizes`, in place, LOADS the cells)
* `fillRows`    `for i < n: head = ptr[i]; for e in row i: col[head] = e.col; val[head] = e.val; ++head`
                                                                        (after `set_nonzeros(nnz)`; `ptr[i]` is LOADED)
-/
namespace Amgcl
namespace Defined
variable {α : Type}

/-- load with flag: the stored value (junk if never written) and whether the load was legitimate -/
def rd (a : Array (Cell α)) (i : Nat) (dflt : α) : α × Bool :=
  match a[i]? with
  | some c => (c.val, c.written)
  | none => (dflt, false)

/-- `for i < n: a[i] = f i` -/
def fillVec (n : Nat) (f : Nat → α) (a : Array (Cell α)) : Array (Cell α) :=
  (List.range n).foldl (fun a i => store a i (f i)) a

/-- `ptr[0] = 0; for i < n: ptr[i+1] = width i` -/
def ptrPass (n : Nat) (width : Nat → Nat) (ptr : Array (Cell Nat)) : Array (Cell Nat) :=
  (List.range n).foldl (fun p i => store p (i + 1) (width i)) (store ptr 0 0)

/-- `std::partial_sum(ptr, ptr + n + 1, ptr)`: `acc = ptr[0]; for i = 1..n: acc += ptr[i]; ptr[i] = acc` -/
def scanCells (n : Nat) (ptr : Array (Cell Nat)) : Array (Cell Nat) × Bool :=
  let first := rd ptr 0 0
  let st := (List.range' 1 n).foldl (fun (st : Array (Cell Nat) × Nat × Bool) i =>
      let x := rd st.1 i 0
      let acc := st.2.1 + x.1
      (store st.1 i acc, acc, st.2.2 && x.2)) (ptr, first.1, first.2)
  (st.1, st.2.2)

/-- the state of a fill of `col`/`val` -/
structure Fill (K : Type) where
  col : Array (Cell Nat)
  val : Array (Cell K)
  ok : Bool

/-- one row written into its segment `head, head+1, …`; `head.2` says whether obtaining `head` involved only
legitimate loads -/
def fillRow {K : Type} (head : Nat × Bool) (row : Row K) (st : Fill K) : Fill K :=
  (row.zipIdx).foldl (fun (st : Fill K) e =>
      { col := store st.col (head.1 + e.2) e.1.1, val := store st.val (head.1 + e.2) e.1.2, ok := st.ok })
    { st with ok := st.ok && head.2 }

/-- `for i < n: head = headOf i; …` over the rows of a row-level matrix -/
def fillRows {K : Type} (headOf : Nat → Nat × Bool) (rows : Array (Row K)) (st : Fill K) : Fill K :=
  (List.range rows.size).foldl (fun st i => fillRow (headOf i) (rows.getD i []) st) st

/-- the entries stored in rows `0 … i-1`, in storage order -/
def flatUpTo {K : Type} (rows : Array (Row K)) (i : Nat) : List (Nat × K) := (rows.toList.take i).flatten

/-- flat image of a row-level matrix -/
def flatRows {K : Type} (rows : Array (Row K)) : List (Nat × K) := rows.toList.flatten

/-- the pointer array of a row-level matrix: `ptr[i]` = number of entries stored in rows `0 … i-1` (`= CRS.ptr`,
`Defined.ptrList_eq_ptr`) -/
def ptrList {K : Type} (rows : Array (Row K)) : List Nat :=
  (List.range (rows.size + 1)).map (fun i => (flatUpTo rows i).length)

/-- a CRS matrix as heap cells -/
structure CrsCells (K : Type) where
  ptr : Array (Cell Nat)
  col : Array (Cell Nat)
  val : Array (Cell K)
  /-- no load of an unwritten cell happened while it was built -/
  ok : Bool

/-- the cells a correctly and completely filled matrix consists of -/
def CrsCells.ofRows {K : Type} (rows : Array (Row K)) : CrsCells K :=
  { ptr := written (ptrList rows).toArray,
    col := written ((flatRows rows).map (·.1)).toArray,
    val := written ((flatRows rows).map (·.2)).toArray,
    ok := true }

/-- the generic two-pass construction: `set_size(n, m)` (uninitialised `ptr`), width pass, `scan_row_sizes`,
`set_nonzeros(ptr[n])` (uninitialised `col`, `val`; their size is the LOADED `ptr[n]`), fill from the LOADED `ptr[i]`.
`jp` is the prior content of the memory `ptr` lands in; `jc`, `jv` give the prior content of the `col`/`val` memory
for any size. -/
def twoPass {K : Type} (rows : Array (Row K)) (jp : Array Nat) (jc : Nat → Array Nat) (jv : Nat → Array K) : CrsCells K :=
  let p0 := ptrPass rows.size (fun i => (rows.getD i []).length) (alloc jp)
  let p1 := scanCells rows.size p0
  let nnz := rd p1.1 rows.size 0
  let f := fillRows (fun i => rd p1.1 i 0) rows { col := alloc (jc nnz.1), val := alloc (jv nnz.1), ok := p1.2 && nnz.2 }
  { ptr := p1.1, col := f.col, val := f.val, ok := f.ok }

/-- the copying construction (copy constructor, `operator=`, range constructor): `ptr[0] = o.ptr[0];
for i < n: ptr[i+1] = o.ptr[i+1]; for j in [o.ptr[i], o.ptr[i+1]): col[j] = o.col[j]; val[j] = o.val[j]` with the source
arrays `optr` (plain values: the source is an input) -/
def cloneCells {K : Type} (rows : Array (Row K)) (optr : Array Nat) (jp jc : Array Nat) (jv : Array K) : CrsCells K :=
  let p := fillVec (rows.size + 1) (fun i => optr.getD i 0) (alloc jp)
  let f := fillRows (fun i => (optr.getD i 0, true)) rows { col := alloc jc, val := alloc jv, ok := true }
  { ptr := p, col := f.col, val := f.val, ok := f.ok }

section kernels
variable {K : Type}

/-- `spai0::spai0` (relaxation/spai0.hpp:60-80): `m = numa_vector(n, false); for i: m[i] = inverse(den) * num` -/
def spai0Cells [Add K] [Mul K] [Zero K] [One K] [Div K] [DecidableEq K] (norm : K → K) (A : CRS K) (junk : Array K) :
    Array (Cell K) :=
  fillVec A.nrows (fun i => (Relax.spai0Diag norm A).getD i 0) (alloc junk)

/-- `tentative_prolongation`, branch `nullspace.cols == 0` (tentative_prolongation.hpp:208-224):
`P->set_size(n, naggr); P->ptr[0] = 0; for i: P->ptr[i+1] = (aggr[i] >= 0); P->set_nonzeros(P->scan_row_sizes());
for i: if (aggr[i] >= 0) { P->col[P->ptr[i]] = aggr[i]; P->val[P->ptr[i]] = identity; }` -/
def tentativeCells [One K] (n naggr : Nat) (id : Array Int) (jp : Array Nat) (jc : Nat → Array Nat) (jv : Nat → Array K) :
    CrsCells K :=
  twoPass (tentativeProlongation (K := K) n naggr id).rows jp jc jv

/-- `crs(const Matrix &A)` (builtin.hpp:120-151): row widths through the row iterator, scan, copy row by row; the
copy constructor / `operator=` / the range constructor (76-118, 153-200) write `ptr` from the source's `ptr` instead
and fill the same cells -/
def crsCopyCells (A : CRS K) (jp : Array Nat) (jc : Nat → Array Nat) (jv : Nat → Array K) : CrsCells K :=
  twoPass (crsCopy A).rows jp jc jv

/-- `crs(const crs &other)` / `operator=(const crs&)` / `crs(n, m, ptr_range, col_range, val_range)`
(builtin.hpp:76-118, 153-200) for a source whose pointer array is the one of its rows -/
def crsCloneCells (A : CRS K) (jp jc : Array Nat) (jv : Array K) : CrsCells K :=
  cloneCells (crsCopy A).rows (ptrList A.rows).toArray jp jc jv

end kernels
end Defined
end Amgcl
