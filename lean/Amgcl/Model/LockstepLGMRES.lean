import Amgcl.Model.Lockstep
import Amgcl.Model.SolverLGMRES
/-!
# `amgcl::solver::lgmres::operator()` as a program over the solver instruction set (C12) — core Lean only

The statements of solver/lgmres.hpp:205-373 in the instruction set of `Model/Lockstep.lean`.  The scalar state of a rank
contains, besides the scalar locals and `H, s, cs, sn` (and the write-only copy `H0`), the POINTER structure of the
class: `ws[0..M)` (`wsp`, targets `vs[i]` / `outer_v_data[slot]`) and the circular buffer `outer_v` (`ov`) — pointers are
rank-local data.  A dereferenced pointer is a vector operand selected by the rank's own scalars (`preg`): `*z`, the
`ws[i]` of `lin_comb(j, s, ws, zero, dx)`, and the scratch `*ws[0]` that `P.apply(dx, tmp)` OVERWRITES for right
preconditioning.  The value-initialised (null) `shared_ptr` of a fresh object has the register `vNull`, which no
reachable statement reads or writes (`Proofs/LockstepLGMRES.lean`).

The copy `H0(k,j) = H(k,j)` is made by one scalar assignment after the Gram–Schmidt loop (as in the statement-by-
statement model `Solver.LGMRES.step`; `H0` is write-only).
-/
namespace Amgcl.Lockstep.LGMRES
open Amgcl Amgcl.Solver Amgcl.Lockstep Amgcl.Solver.LGMRES

/-- the scalar locals, the small dense work arrays and the pointer members of `lgmres` -/
structure LS (K : Type) where
  iter     : Nat
  j        : Nat
  k        : Nat
  nOuter   : Nat          -- n_outer
  normR    : K            -- norm_r
  innerRes : K            -- inner_res
  normDx   : K            -- norm_dx
  nrhs     : K            -- norm_rhs
  epsT     : K            -- eps
  out      : K            -- the returned residual
  h        : Hess K       -- H, s, cs, sn
  H0       : FArr2 K
  wsp      : FArr Ptr     -- ws
  ov       : CBuf         -- outer_v

def vF : Nat := 0      -- rhs
def vX : Nat := 1      -- x
def vR : Nat := 2      -- *r
def vNull : Nat := 3   -- target of a null `shared_ptr` (never accessed)
/-- `*vs[i]` -/
def vS (i : Nat) : Nat := 4 + 2 * i
/-- `*outer_v_data[s]` -/
def vO (s : Nat) : Nat := 5 + 2 * s

/-- the vector a `shared_ptr<vector>` points to -/
def preg : Ptr → Nat
  | .null => vNull
  | .vs i => vS i
  | .outer s => vO s

variable {K : Type} [Add K] [Mul K] [Sub K] [Neg K] [Zero K] [One K] [Div K] [DecidableEq K] [LT K] [DecidableLT K]

/-- `H(a, b) = x` -/
def setH (e : LS K) (a b : Nat) (x : K) : LS K := { e with h := { e.h with H := setF2 e.h.H a b x } }

/-- lgmres.hpp:291-292, the body of `for(k = 0; k <= j; ++k)` -/
def mgsBody : Prog K (LS K) := seqs [
  .prim (.ip (fun e w => setH e e.k e.j w) (fun e => vS (e.j + 1)) (fun e => vS e.k)),     -- H(k,j) = inner_product(v_new, *vs[k])
  .prim (.axpby (fun e => -(e.h.H e.k e.j)) (fun e => vS e.k) (fun _ => 1) (fun e => vS (e.j + 1)))]

/-- lgmres.hpp:236-245 -/
def headProg (side : Side) (sqrt : K → K) : Prog K (LS K) :=
  match side with
  | .left => seqs [
      .prim (.residual (R vF) (R vX) (R (vS 0))),                              -- residual(rhs, A, x, *vs[0])
      .prim (.precond (R (vS 0)) (R vR)),                                      -- P.apply(*vs[0], *r)
      .prim (.ip (fun e w => { e with normR := Solver.absK (sqrt w) }) (R vR) (R vR))]       -- norm_r = norm(*r)
  | .right => seqs [
      .prim (.residual (R vF) (R vX) (R vR)),                                  -- residual(rhs, A, x, *r)
      .prim (.ip (fun e w => { e with normR := Solver.absK (sqrt w) }) (R vR) (R vR))]

/-- `preconditioner::spmv(pside, P, A, *z, v_new, *r)` with `z = ws[j]` -/
def pspmvProg (side : Side) : Prog K (LS K) :=
  match side with
  | .left  => seqs [.prim (.spmv (fun _ => 1) (fun e => preg (e.wsp e.j)) (fun _ => 0) (R vR)),
                    .prim (.precond (R vR) (fun e => vS (e.j + 1)))]
  | .right => seqs [.prim (.precond (fun e => preg (e.wsp e.j)) (R vR)),
                    .prim (.spmv (fun _ => 1) (R vR) (fun _ => 0) (fun e => vS (e.j + 1)))]

/-- lgmres.hpp:276-309, one pass of the inner loop including `++j, ++iter` -/
def stepProg (side : Side) (MM cap : Nat) (sqrt : K → K) : Prog K (LS K) := seqs [
  .prim (.sset (fun e => { e with wsp := setF e.wsp e.j (pickZ MM cap e.ov e.j) })),   -- z = …; ws[j] = z
  pspmvProg side,
  .forN (fun e => e.j + 1) (fun e k => { e with k := k }) mgsBody,            -- for(k = 0; k <= j; ++k)
  .prim (.ip (fun e w => setH e (e.j + 1) e.j (Solver.absK (sqrt w)))         -- H(j+1, j) = norm(v_new)
    (fun e => vS (e.j + 1)) (fun e => vS (e.j + 1))),
  .prim (.axpby (fun e => inv1 (e.h.H (e.j + 1) e.j)) (fun e => vS (e.j + 1)) (fun _ => 0)
    (fun e => vS (e.j + 1))),                                                 -- axpby(inverse(H(j+1,j)), v_new, zero, v_new)
  .prim (.sset (fun e =>                                                      -- H0(·,j) = H(·,j); the plane rotations
    let r := rotate sqrt e.j e.h e.h.H
    { e with H0 := ⟨fun a b => if b = e.j ∧ a ≤ e.j + 1 then e.h.H a b else e.H0 a b⟩,
             h := r.1, innerRes := r.2 })),
  .prim (.sset (fun e => { e with j := e.j + 1, iter := e.iter + 1 }))]       -- ++j, ++iter

/-- negation of lgmres.hpp:308 -/
def contC (maxiter MM : Nat) (e : LS K) : Bool :=
  !(decide (maxiter ≤ e.iter) || decide (MM ≤ e.j) || !decide (e.epsT < e.innerRes))

/-- negation of lgmres.hpp:245 -/
def goC (maxiter : Nat) (e : LS K) : Bool := !(decide (e.normR < e.epsT) || decide (maxiter ≤ e.iter))

/-- lgmres.hpp:247-252 -/
def startProg : Prog K (LS K) := seqs [
  .prim (.axpby (fun e => inv1 e.normR) (R vR) (fun _ => 0) (R (vS 0))),      -- axpby(inverse(norm_r), *r, zero, *vs[0])
  .prim (.sset (fun e => { e with j := 0, innerRes := 0, h := { e.h with s := sInit e.normR } }))]

/-- lgmres.hpp:312-343: back substitution, the update of `x`, the new augmentation vector -/
def updProg (side : Side) (K' : Nat) (sqrt : K → K) : Prog K (LS K) := seqs [
  .prim (.sset (fun e => { e with h := { e.h with s := backSubst e.j e.h.H e.h.s } })),
  .prim (.lincomb (fun e => e.j) (fun e i => e.h.s i) (fun e i => preg (e.wsp i)) (fun _ => 0) (R vR)),   -- lin_comb(j, s, ws, zero, dx = *r)
  (match side with
   | .left  => .prim (.axpby (fun _ => 1) (R vR) (fun _ => 1) (R vX))         -- axpby(one, dx, one, x)
   | .right => seqs [.prim (.precond (R vR) (fun e => preg (e.wsp 0))),       -- P.apply(dx, tmp = *ws[0])
                     .prim (.axpby (fun _ => 1) (fun e => preg (e.wsp 0)) (fun _ => 1) (R vX))]),
  .prim (.ip (fun e w => { e with normDx := Solver.absK (sqrt w) }) (R vR) (R vR)),          -- norm_dx = norm(dx)
  .ite (fun e => decide (0 < K') && decide (e.normDx ≠ 0))                    -- if (prm.K > 0 && !is_zero(norm_dx))
    (seqs [
      .prim (.axpby (fun e => inv1 e.normDx) (R vR) (fun _ => 0) (fun e => vO (e.nOuter % K'))),
      .prim (.sset (fun e => { e with ov := e.ov.push K' (e.nOuter % K'), nOuter := e.nOuter + 1 }))])
    .skip]

/-- lgmres.hpp:247-343: one restart cycle -/
def cycleProg (prm : Solver.LGMRES.Params K) (sqrt : K → K) : Prog K (LS K) := seqs [
  startProg,
  stepProg prm.pside prm.MM prm.K' sqrt,
  .loop prm.MM (contC prm.maxiter prm.MM) (stepProg prm.pside prm.MM prm.K' sqrt),
  updProg prm.pside prm.K' sqrt]

def outerProg (prm : Solver.LGMRES.Params K) (sqrt : K → K) : Prog K (LS K) := seqs [
  headProg prm.pside sqrt,
  .loop prm.maxiter (goC prm.maxiter) (seqs [cycleProg prm sqrt, headProg prm.pside sqrt])]

/-- lgmres.hpp:247-… after the prologue -/
def mainProg (prm : Solver.LGMRES.Params K) (sqrt : K → K) : Prog K (LS K) := seqs [
  .prim (.sset (fun e => { e with epsT := Solver.maxK (prm.tol * e.nrhs) prm.abstol, normR := 0, iter := 0, nOuter := 0 })),
  outerProg prm sqrt,
  .prim (.sset (fun e => { e with out := e.normR / e.nrhs }))]                -- return (iter, norm_r / norm_rhs)

/-- the whole `operator()` -/
def prog (prm : Solver.LGMRES.Params K) (sqrt : K → K) (eps : K) : Prog K (LS K) :=
  .seq (if prm.alwaysReset then .prim (.sset (fun e => { e with ov := .empty })) else .skip)   -- if (always_reset) outer_v.clear()
  (.seq (.prim (.ip (fun e w => { e with nrhs := Solver.absK (sqrt w) }) (R vF) (R vF)))       -- norm_rhs = norm(rhs)
    (.ite (fun e => decide (e.nrhs < eps))
      (if prm.nsSearch then .seq (.prim (.sset (fun e => { e with nrhs := 1 }))) (mainProg prm sqrt)
       else seqs [.prim (.clear (R vX)),                                      -- clear(x); return (0, norm_rhs)
                  .prim (.sset (fun e => { e with iter := 0, out := e.nrhs }))])
      (mainProg prm sqrt)))

/-- the program state of a call on a solver object with members `ws`; the register of the null pointer holds `rhs`
(any vector of the right size: it is never accessed) -/
def initState (ws : Solver.LGMRES.Work K) (f x0 : Vec K) : St K (LS K) :=
  { vec := fun v => if v = vF then f else if v = vX then x0 else if v = vR then ws.r else if v = vNull then f
                    else if v % 2 = 0 then ws.vs ((v - 4) / 2) else ws.odata ((v - 5) / 2),
    scal := { iter := 0, j := 0, k := 0, nOuter := 0, normR := 0, innerRes := 0, normDx := 0, nrhs := 0, epsT := 0,
              out := 0, h := ws.h, H0 := ws.H0, wsp := ws.wsp, ov := ws.ov } }

/-- the members of the solver object in a program state -/
def workOf (s : St K (LS K)) : Solver.LGMRES.Work K :=
  { h := s.scal.h, H0 := s.scal.H0, r := s.vec vR, vs := ⟨fun i => s.vec (vS i)⟩, wsp := s.scal.wsp,
    odata := ⟨fun i => s.vec (vO i)⟩, ov := s.scal.ov }

/-- what `operator()` returns, read off a rank's scalars -/
def outOf (e : LS K) : Nat × K := (e.iter, e.out)

end Amgcl.Lockstep.LGMRES
