import Amgcl.Model.Lockstep
import Amgcl.Model.SolverGMRES
import Amgcl.Model.SolverFGMRES
/-!
# `amgcl::solver::gmres` / `fgmres` `::operator()` as programs over the solver instruction set (C12) — core Lean only

The statements of solver/gmres.hpp:163-267 and solver/fgmres.hpp:153-238 in the instruction set of
`Model/Lockstep.lean`.  The scalar state of a rank is the record `GS`: the counters `iter, j, k`, the scalars
`norm_r, inner_res, norm_rhs, eps` and the small dense arrays `H, s, cs, sn` (`Solver.Hess`) — every rank keeps its
own copy of these arrays and performs the Givens rotations and the back substitution locally (`sset`).  The basis
vectors `*v[i]` (and `*z[i]`) are vector registers selected at run time by the rank's own `j` / `k`.

`Proofs/LockstepGMRES.lean` / `Proofs/LockstepFGMRES.lean` prove that the SERIAL semantics of these programs are the
statement-by-statement models `Solver.GMRES.run` / `Solver.FGMRES.run` (C01/C05/C15).
-/
namespace Amgcl.Lockstep.GMRES
open Amgcl Amgcl.Solver Amgcl.Lockstep

/-- the scalar locals and the small dense work arrays of `gmres` / `fgmres` -/
structure GS (K : Type) where
  iter     : Nat
  j        : Nat
  k        : Nat
  normR    : K      -- norm_r
  innerRes : K      -- inner_res
  nrhs     : K      -- norm_rhs
  epsT     : K      -- eps
  out      : K      -- the returned residual
  h        : Hess K -- H, s, cs, sn

variable {K : Type} [Add K] [Mul K] [Sub K] [Neg K] [Zero K] [One K] [Div K] [DecidableEq K] [LT K] [DecidableLT K]

/-- `H(a, b) = x` in the scalar state -/
def setH (e : GS K) (a b : Nat) (x : K) : GS K := { e with h := { e.h with H := setF2 e.h.H a b x } }

/-- gmres.hpp:220-221 / fgmres.hpp:205-206, the body of `for(k = 0; k <= j; ++k)`; `vreg i` is the register of `*v[i]` -/
def mgsBody (vreg : Nat → Nat) : Prog K (GS K) := seqs [
  .prim (.ip (fun e w => setH e e.k e.j w) (fun e => vreg (e.j + 1)) (fun e => vreg e.k)),   -- H(k,j) = inner_product(v_new, *v[k])
  .prim (.axpby (fun e => -(e.h.H e.k e.j)) (fun e => vreg e.k) (fun _ => 1) (fun e => vreg (e.j + 1)))]   -- axpby(-H(k,j), *v[k], one, v_new)

/-- gmres.hpp:219-234 / fgmres.hpp:204-217: Gram–Schmidt, normalisation, Givens rotations, `inner_res` -/
def hessProg (sqrt : K → K) (vreg : Nat → Nat) : Prog K (GS K) := seqs [
  .forN (fun e => e.j + 1) (fun e k => { e with k := k }) (mgsBody vreg),     -- for(k = 0; k <= j; ++k)
  .prim (.ip (fun e w => setH e (e.j + 1) e.j (Solver.absK (sqrt w)))         -- H(j+1, j) = norm(v_new)
    (fun e => vreg (e.j + 1)) (fun e => vreg (e.j + 1))),
  .prim (.axpby (fun e => inv1 (e.h.H (e.j + 1) e.j)) (fun e => vreg (e.j + 1)) (fun _ => 0)
    (fun e => vreg (e.j + 1))),                                               -- axpby(inverse(H(j+1,j)), v_new, zero, v_new)
  .prim (.sset (fun e =>                                                      -- the plane rotations; inner_res = |s[j+1]|
    let r := rotate sqrt e.j e.h e.h.H
    { e with h := r.1, innerRes := r.2 }))]

/-- negation of gmres.hpp:239 / fgmres.hpp:222: `if (iter >= maxiter || j >= M || inner_res <= eps) break;` -/
def contC (maxiter M : Nat) (e : GS K) : Bool :=
  !(decide (maxiter ≤ e.iter) || decide (M ≤ e.j) || !decide (e.epsT < e.innerRes))

/-- negation of gmres.hpp:199 / fgmres.hpp:180: `if (norm_r < eps || iter >= maxiter) break;` -/
def goC (maxiter : Nat) (e : GS K) : Bool := !(decide (e.normR < e.epsT) || decide (maxiter ≤ e.iter))

/-- `std::fill(s.begin(), s.end(), 0); s[0] = norm_r; j = 0` -/
def startS (e : GS K) : GS K := { e with j := 0, innerRes := 0, h := { e.h with s := sInit e.normR } }

/-- the back substitution gmres.hpp:244-248 / fgmres.hpp:227-231 -/
def backS (e : GS K) : GS K := { e with h := { e.h with s := backSubst e.j e.h.H e.h.s } }

/-- the common prologue and epilogue around the outer loop `outerP` (which starts with the first `head`) -/
def frame (nsSearch : Bool) (tol abstol : K) (sqrt : K → K) (eps : K) (vF vX : Nat) (outerP : Prog K (GS K)) :
    Prog K (GS K) :=
  let main : Prog K (GS K) := seqs [
    .prim (.sset (fun e => { e with epsT := Solver.maxK (tol * e.nrhs) abstol, normR := 0, iter := 0 })),
    outerP,
    .prim (.sset (fun e => { e with out := e.normR / e.nrhs }))]               -- return (iter, norm_r / norm_rhs)
  .seq (.prim (.ip (fun e w => { e with nrhs := Solver.absK (sqrt w) }) (R vF) (R vF)))   -- norm_rhs = norm(rhs)
    (.ite (fun e => decide (e.nrhs < eps))
      (if nsSearch then .seq (.prim (.sset (fun e => { e with nrhs := 1 }))) main            -- norm_rhs = 1
       else seqs [.prim (.clear (R vX)),                                      -- clear(x); return (0, norm_rhs)
                  .prim (.sset (fun e => { e with iter := 0, out := e.nrhs }))])
      main)

/-- what `operator()` returns, read off a rank's scalars -/
def outOf (e : GS K) : Nat × K := (e.iter, e.out)

def GS.zero : GS K := ⟨0, 0, 0, 0, 0, 0, 0, 0, Hess.fresh⟩

/-! ## gmres -/

def vF : Nat := 0   -- rhs
def vX : Nat := 1   -- x
def vR : Nat := 2   -- *r
/-- `*v[i]` -/
def vV (i : Nat) : Nat := 3 + i

/-- gmres.hpp:191-199: recompute the (preconditioned) residual and `norm_r = norm(*r)` -/
def headProg (side : Side) (sqrt : K → K) : Prog K (GS K) :=
  match side with
  | .left => seqs [
      .prim (.residual (R vF) (R vX) (R (vV 0))),                              -- residual(rhs, A, x, *v[0])
      .prim (.precond (R (vV 0)) (R vR)),                                      -- P.apply(*v[0], *r)
      .prim (.ip (fun e w => { e with normR := Solver.absK (sqrt w) }) (R vR) (R vR))]       -- norm_r = norm(*r)
  | .right => seqs [
      .prim (.residual (R vF) (R vX) (R vR)),                                  -- residual(rhs, A, x, *r)
      .prim (.ip (fun e w => { e with normR := Solver.absK (sqrt w) }) (R vR) (R vR))]

/-- `preconditioner::spmv(pside, P, A, *v[j], v_new = *v[j+1], *r)` (precond_side.hpp:75-92) -/
def pspmvProg (side : Side) : Prog K (GS K) :=
  match side with
  | .left  => seqs [.prim (.spmv (fun _ => 1) (fun e => vV e.j) (fun _ => 0) (R vR)),
                    .prim (.precond (R vR) (fun e => vV (e.j + 1)))]
  | .right => seqs [.prim (.precond (fun e => vV e.j) (R vR)),
                    .prim (.spmv (fun _ => 1) (R vR) (fun _ => 0) (fun e => vV (e.j + 1)))]

/-- gmres.hpp:208-238, one pass of the inner loop including `++j, ++iter` -/
def stepProg (side : Side) (sqrt : K → K) : Prog K (GS K) := seqs [
  pspmvProg side,
  hessProg sqrt vV,
  .prim (.sset (fun e => { e with j := e.j + 1, iter := e.iter + 1 }))]        -- ++j, ++iter

/-- gmres.hpp:201-206: the statements before the inner loop -/
def startProg : Prog K (GS K) := seqs [
  .prim (.axpby (fun e => inv1 e.normR) (R vR) (fun _ => 0) (R (vV 0))),       -- axpby(inverse(norm_r), *r, zero, *v[0])
  .prim (.sset startS)]                                                        -- fill(s, 0); s[0] = norm_r; j = 0

/-- gmres.hpp:243-264: back substitution and the update of `x` -/
def updProg (side : Side) : Prog K (GS K) := seqs [
  .prim (.sset backS),                                                         -- for (i = j; i --> 0; ) …
  .prim (.lincomb (fun e => e.j) (fun e i => e.h.s i) (fun _ i => vV i) (fun _ => 0) (R vR)),   -- lin_comb(j, s, v, zero, dx = *r)
  (match side with
   | .left  => .prim (.axpby (fun _ => 1) (R vR) (fun _ => 1) (R vX))          -- axpby(one, dx, one, x)
   | .right => seqs [.prim (.precond (R vR) (R (vV 0))),                       -- P.apply(dx, tmp = *v[0])
                     .prim (.axpby (fun _ => 1) (R (vV 0)) (fun _ => 1) (R vX))])]   -- axpby(one, tmp, one, x)

/-- gmres.hpp:201-264: one restart cycle -/
def cycleProg (prm : Solver.GMRES.Params K) (sqrt : K → K) : Prog K (GS K) := seqs [
  startProg,
  stepProg prm.pside sqrt,                                                     -- while(true) { …; if (…) break; }
  .loop prm.M (contC prm.maxiter prm.M) (stepProg prm.pside sqrt),
  updProg prm.pside]

/-- the outer `while(true)`: `head; while (!stop) { cycle; head }` -/
def outerProg (prm : Solver.GMRES.Params K) (sqrt : K → K) : Prog K (GS K) := seqs [
  headProg prm.pside sqrt,
  .loop prm.maxiter (goC prm.maxiter) (seqs [cycleProg prm sqrt, headProg prm.pside sqrt])]

/-- the whole `operator()` -/
def prog (prm : Solver.GMRES.Params K) (sqrt : K → K) (eps : K) : Prog K (GS K) :=
  frame prm.nsSearch prm.tol prm.abstol sqrt eps vF vX (outerProg prm sqrt)

/-- the program state of a call `S(A, P, rhs, x)` on a solver with work arrays `ws` -/
def initState (ws : Solver.GMRES.Work K) (f x0 : Vec K) : St K (GS K) :=
  { vec := fun v => if v = vF then f else if v = vX then x0 else if v = vR then ws.r else ws.v (v - 3),
    scal := { (GS.zero : GS K) with h := ws.h } }

/-- the work arrays in a program state -/
def workOf (s : St K (GS K)) : Solver.GMRES.Work K := ⟨s.scal.h, s.vec vR, ⟨fun i => s.vec (vV i)⟩⟩

end Amgcl.Lockstep.GMRES

namespace Amgcl.Lockstep.FGMRES
open Amgcl Amgcl.Solver Amgcl.Lockstep Amgcl.Lockstep.GMRES

variable {K : Type} [Add K] [Mul K] [Sub K] [Neg K] [Zero K] [One K] [Div K] [DecidableEq K] [LT K] [DecidableLT K]

def vF : Nat := 0   -- rhs
def vX : Nat := 1   -- x
/-- `*v[i]` -/
def vV (i : Nat) : Nat := 2 + 2 * i
/-- `*z[i]` -/
def vZ (i : Nat) : Nat := 3 + 2 * i

/-- fgmres.hpp:177-181: `residual(rhs, A, x, *v[0]); norm_r = norm(*v[0])` -/
def headProg (sqrt : K → K) : Prog K (GS K) := seqs [
  .prim (.residual (R vF) (R vX) (R (vV 0))),
  .prim (.ip (fun e w => { e with normR := Solver.absK (sqrt w) }) (R (vV 0)) (R (vV 0)))]

/-- fgmres.hpp:192-223, one pass of the inner loop including `++j, ++iter` -/
def stepProg (sqrt : K → K) : Prog K (GS K) := seqs [
  .prim (.precond (fun e => vV e.j) (fun e => vZ e.j)),                        -- P.apply(*v[j], *z[j])
  .prim (.spmv (fun _ => 1) (fun e => vZ e.j) (fun _ => 0) (fun e => vV (e.j + 1))),   -- spmv(one, A, *z[j], zero, v_new)
  hessProg sqrt vV,
  .prim (.sset (fun e => { e with j := e.j + 1, iter := e.iter + 1 }))]        -- ++j, ++iter

/-- fgmres.hpp:184-189: the statements before the inner loop -/
def startProg : Prog K (GS K) := seqs [
  .prim (.sset startS),                                                        -- fill(s, 0); s[0] = norm_r; j = 0
  .prim (.axpby (fun e => inv1 e.normR) (R (vV 0)) (fun _ => 0) (R (vV 0)))]   -- axpby(inverse(norm_r), *v[0], zero, *v[0])

/-- fgmres.hpp:226-233: back substitution and `x += Σ s_i z_i` -/
def updProg : Prog K (GS K) := seqs [
  .prim (.sset backS),                                                         -- for (i = j; i --> 0; ) …
  .prim (.lincomb (fun e => e.j) (fun e i => e.h.s i) (fun _ i => vZ i) (fun _ => 1) (R vX))]   -- lin_comb(j, s, z, one, x)

/-- fgmres.hpp:184-233: one restart cycle -/
def cycleProg (prm : Solver.FGMRES.Params K) (sqrt : K → K) : Prog K (GS K) := seqs [
  startProg,
  stepProg sqrt,
  .loop prm.M (contC prm.maxiter prm.M) (stepProg sqrt),
  updProg]

def outerProg (prm : Solver.FGMRES.Params K) (sqrt : K → K) : Prog K (GS K) := seqs [
  headProg sqrt,
  .loop prm.maxiter (goC prm.maxiter) (seqs [cycleProg prm sqrt, headProg sqrt])]

/-- the whole `operator()` -/
def prog (prm : Solver.FGMRES.Params K) (sqrt : K → K) (eps : K) : Prog K (GS K) :=
  frame prm.nsSearch prm.tol prm.abstol sqrt eps vF vX (outerProg prm sqrt)

def initState (ws : Solver.FGMRES.Work K) (f x0 : Vec K) : St K (GS K) :=
  { vec := fun v => if v = vF then f else if v = vX then x0
                    else if v % 2 = 0 then ws.v ((v - 2) / 2) else ws.z ((v - 3) / 2),
    scal := { (GS.zero : GS K) with h := ws.h } }

def workOf (s : St K (GS K)) : Solver.FGMRES.Work K :=
  ⟨s.scal.h, ⟨fun i => s.vec (vV i)⟩, ⟨fun i => s.vec (vZ i)⟩⟩

end Amgcl.Lockstep.FGMRES
