import Amgcl.Model.SolverQR
/-!
# `amgcl::solver::bicgstabl::operator()(A, P, rhs, x)` — solver/bicgstabl.hpp:208-430, statement by statement

BiCGStab(L), both preconditioning sides.  The method works on the CORRECTION: `B` is the (preconditioned) residual
of the caller's `x`, `X` the accumulated correction, `R[0]` the recursively updated residual `B − A'X`
(`A' = A P` right, `P A` left); `x += X` (left) resp. `x += P X` (right) only after the loop (label `done`) and in
the "accurate update" branch (`delta > 0`).

* norm: `sqrt(math::norm(inner_product(x, x)))` (`nrm`, as in cg / bicgstab).
* `for(; iter < prm.maxiter && zeta >= eps; iter += L)`: a pass makes `L` BiCG steps and one polynomial step; the
  early exit `if (zeta < eps) { iter += j+1; goto done; }` leaves from inside the BiCG part.  Hence
  `iter ≤ maxiter + L − 1`.
* three `precondition`s can throw (`rho1`, `sigma`, `omega` zero); the constructor requires `L > 0`.
* the polynomial part solves the small normal equations through `amgcl::detail::QR` (`QR.solve`, mirrored from
  detail/qr.hpp) and, unless `convex` or `L = 1`, forms the convex combination of the minimal-residual and the
  orthogonal-residual polynomial (`0.7` enters as the model parameter `c07`: the exact value of the `double` literal).
* `omega = Y0[L]; for(h = L; h > 0 && is_zero(omega); --h) omega = Y0[h];`
-/
namespace Amgcl.Solver.BiCGStabL
open Amgcl Amgcl.Solver Amgcl.Solver.QR

/-- the members `Rt, X, B, T, R[0..L], U[0..L], MZa, MZb, Y0, YL, qr` (bicgstabl.hpp:473-485) -/
structure Work (K : Type) where
  Rt  : Vec K
  X   : Vec K
  B   : Vec K
  T   : Vec K
  R   : FArr (Vec K)
  U   : FArr (Vec K)
  MZa : FArr2 K
  MZb : FArr2 K
  Y0  : FArr K
  YL  : FArr K
  qr  : QRSt K

def Work.fresh {K : Type} [Zero K] (n : Nat) : Work K :=
  let z : Vec K := Array.replicate n 0
  ⟨z, z, z, z, .const z, .const z, .const 0, .const 0, .const 0, .const 0, QRSt.fresh⟩

/-- `bicgstabl::params`: the common fields + `L`, `delta`, `convex`, `pside` -/
structure Params (K : Type) extends Amgcl.Solver.Params K where
  L      : Nat
  delta  : K
  convex : Bool
  pside  : Side

/-- locals that live across loop passes, the caller's `x`, the work arrays; `done` = the `goto done` was taken -/
structure St (K : Type) where
  iter   : Nat
  alpha  : K
  rho0   : K
  omega  : K
  zeta   : K
  rnmaxC : K      -- rnmax_computed
  rnmaxT : K      -- rnmax_true
  done   : Bool
  x      : Vec K
  w      : Work K

variable {K : Type} [Add K] [Mul K] [Sub K] [Neg K] [Zero K] [One K] [Div K] [DecidableEq K] [LT K] [DecidableLT K]

/-- one BiCG step `j` of bicgstabl.hpp:264-300.  `.ok (st, true)`: the early exit `goto done` was taken. -/
def bicgStep (prm : Params K) (ip : Vec K → Vec K → K) (sqrt : K → K) (A : CRS K) (P : Vec K → Vec K) (epsT : K)
    (j : Nat) (st : St K) : Except (Err × St K) (St K × Bool) :=
  let w := st.w
  let rho1 := ip (w.R j) w.Rt                               -- rho1 = inner_product(*R[j], *Rt);
  if rho1 = 0 then .error (.zeroRho, st) else               -- precondition(!is_zero(rho1), "… (zero rho)");
  let beta := st.alpha * (rho1 / st.rho0)                   -- beta = alpha * (rho1 / rho0);
  -- rho0 = rho1;
  let U1 := (List.range (j + 1)).foldl
    (fun U i => setF U i (axpby 1 (w.R i) (-beta) (U i))) w.U   -- for(i <= j) axpby(one, *R[i], -beta, *U[i]);
  let uT := pspmv prm.pside P A (U1 j) (U1 (j + 1)) w.T     -- preconditioner::spmv(pside, P, A, *U[j], *U[j+1], *T);
  let U2 := setF U1 (j + 1) uT.1
  let w1 : Work K := { w with U := U2, T := uT.2 }
  let sigma := ip (U2 (j + 1)) w.Rt                         -- sigma = inner_product(*U[j+1], *Rt);
  if sigma = 0 then                                         -- precondition(!is_zero(sigma), "… (zero sigma)");
    .error (.zeroSigma, { st with rho0 := rho1, w := w1 })
  else
  let alpha := rho1 / sigma                                 -- alpha = rho1 / sigma;
  let X := axpby alpha (U2 0) 1 w.X                         -- axpby(alpha, *U[0], one, *X);
  let R1 := (List.range (j + 1)).foldl
    (fun R i => setF R i (axpby (-alpha) (U2 (i + 1)) 1 (R i))) w.R   -- for(i <= j) axpby(-alpha, *U[i+1], one, *R[i]);
  let rT := pspmv prm.pside P A (R1 j) (R1 (j + 1)) uT.2    -- preconditioner::spmv(pside, P, A, *R[j], *R[j+1], *T);
  let R2 := setF R1 (j + 1) rT.1
  let zeta := nrm ip sqrt (R2 0)                            -- zeta = norm(*R[0]);
  let st' : St K :=
    { st with alpha := alpha, rho0 := rho1, zeta := zeta,
              rnmaxC := maxK zeta st.rnmaxC,                -- rnmax_computed = std::max(zeta, rnmax_computed);
              rnmaxT := maxK zeta st.rnmaxT,                -- rnmax_true     = std::max(zeta, rnmax_true);
              w := { w1 with X := X, R := R2, T := rT.2 } }
  if zeta < epsT then                                       -- if (zeta < eps) { iter += j+1; goto done; }
    .ok ({ st' with iter := st.iter + (j + 1), done := true }, true)
  else .ok (st', false)

/-- `for(int j = 0; j < L; ++j) { … goto done … }` with `fuel = L - j` -/
def bicgLoop (prm : Params K) (ip : Vec K → Vec K → K) (sqrt : K → K) (A : CRS K) (P : Vec K → Vec K) (epsT : K) :
    Nat → Nat → St K → Except (Err × St K) (St K)
  | 0, _, st => .ok st
  | fuel + 1, j, st =>
    match bicgStep prm ip sqrt A P epsT j st with
    | .error e => .error e
    | .ok (st', true) => .ok st'
    | .ok (st', false) => bicgLoop prm ip sqrt A P epsT fuel (j + 1) st'

/-- bicgstabl.hpp:303-315: `MZa(i,j) = inner_product(*R[i], *R[j])` (`j ≤ i ≤ L`), symmetrised; `MZb = MZa` -/
def gram (ip : Vec K → Vec K → K) (L : Nat) (R : FArr (Vec K)) (MZa : FArr2 K) : FArr2 K :=
  let M1 := (List.range (L + 1)).foldl (fun M i =>
      (List.range (i + 1)).foldl (fun M j => setF2 M i j (ip (R i) (R j))) M) MZa
  -- for (i <= L) for (j = i+1; j <= L) MZa(i, j) = MZa(j, i) = math::adjoint(MZa(j, i));
  (List.range (L + 1)).foldl (fun M i =>
      ((List.range (L + 1)).drop (i + 1)).foldl (fun M j => setF2 (setF2 M j i (M j i)) i j (M j i)) M) M1

/-- bicgstabl.hpp:317-366: the polynomial coefficients `Y0[0..L]` (and `YL`), through `qr.solve`.
`c07` is the `double` literal `0.7`. -/
def polyCoef (sqrt : K → K) (c07 : K) (L : Nat) (convex : Bool) (w : Work K) : Work K :=
  -- std::copy(MZa.data(), MZa.data() + MZa.size(), MZb.data());
  let MZb : FArr2 K := ⟨fun i j => if i ≤ L ∧ j ≤ L then w.MZa i j else w.MZb i j⟩
  if convex ∨ L = 1 then
    let Y0 := setF w.Y0 0 (-1)                                                    -- Y0[0] = -one;
    let q := QR.solve sqrt L L 1 w.MZa w.qr (fun t => MZb 0 (1 + t)) Y0 1 false  -- qr.solve(L, L, …, &MZa(1,1), &MZb(0,1), &Y0[1]);
    { w with MZa := q.1, MZb := MZb, qr := q.2.1, Y0 := q.2.2 }
  else
    let Y0a := setF (setF w.Y0 0 (-1)) L 0                                        -- Y0[0] = -one; Y0[L] = zero;
    let q0 := QR.solve sqrt (L - 1) (L - 1) 1 w.MZa w.qr (fun t => MZb 0 (1 + t)) Y0a 1 false
    let YLa := setF (setF w.YL 0 0) L (-1)                                        -- YL[0] = zero; YL[L] = -one;
    let q1 := QR.solve sqrt (L - 1) (L - 1) 1 q0.1 q0.2.1 (fun t => MZb L (1 + t)) YLa 1 true
    let Y0 := q0.2.2
    let YL := q1.2.2
    -- dot0, dot1, dotA
    let dots := (List.range (L + 1)).foldl (fun (d : K × K × K) i =>
        let ss := (List.range (L + 1)).foldl (fun (s : K × K) j =>
            let M := MZb i j                                                      -- coef_type M = MZb(i, j);
            (s.1 + M * Y0 j, s.2 + M * YL j)) ((0 : K), (0 : K))                   -- s0 += M * Y0[j]; sL += M * YL[j];
        (d.1 + Y0 i * ss.1, d.2.1 + YL i * ss.1, d.2.2 + YL i * ss.2)) ((0 : K), (0 : K), (0 : K))
    let dot0 := dots.1          -- dot0 += Y0[i] * s0;
    let dotA := dots.2.1        -- dotA += YL[i] * s0;
    let dot1 := dots.2.2        -- dot1 += YL[i] * sL;
    let kappa0 := sqrt (absK dot0)                                                -- kappa0 = sqrt(std::abs(std::real(dot0)));
    let kappa1 := sqrt (absK dot1)                                                -- kappa1 = sqrt(std::abs(std::real(dot1)));
    let kappaA := dotA                                                            -- kappaA = std::real(dotA);
    let Y0' :=
      if kappa0 ≠ 0 ∧ kappa1 ≠ 0 then                                             -- if (!is_zero(kappa0) && !is_zero(kappa1)) {
        let ghat :=
          if kappaA < c07 * kappa0 * kappa1 then                                  --   if (kappaA < 0.7 * kappa0 * kappa1)
            (if kappaA < 0 then (-c07) * kappa0 / kappa1 else c07 * kappa0 / kappa1)  --  ghat = (kappaA < 0) ? -0.7*kappa0/kappa1 : 0.7*kappa0/kappa1;
          else kappaA / (kappa1 * kappa1)                                         --   else ghat = kappaA / (kappa1 * kappa1);
        (List.range (L + 1)).foldl (fun Y i => setF Y i (Y i - ghat * YL i)) Y0   --   for (i <= L) Y0[i] -= ghat * YL[i];
      else Y0
    { w with MZa := q1.1, MZb := MZb, qr := q1.2.1, Y0 := Y0', YL := YL }

/-- `for(int i = 1; i <= L; ++i) Y0[i] = -one * Y0[i];` -/
def negY (L : Nat) (Y : FArr K) : FArr K :=
  ((List.range (L + 1)).drop 1).foldl (fun Y i => setF Y i ((-1) * Y i)) Y

/-- bicgstabl.hpp:302-416: the polynomial part of a pass (entered when the BiCG part did not `goto done`),
including the `iter += L` of the `for` statement -/
def polyPart (prm : Params K) (ip : Vec K → Vec K → K) (sqrt : K → K) (c07 : K) (A : CRS K) (P : Vec K → Vec K)
    (zeta0 : K) (st : St K) : Except (Err × St K) (St K) :=
  let L := prm.L
  let w0 := st.w
  let w1 := polyCoef sqrt c07 L prm.convex { w0 with MZa := gram ip L w0.R w0.MZa }
  -- omega = Y0[L]; for(h = L; h > 0 && is_zero(omega); --h) omega = Y0[h];
  let omega := (List.range L).foldl (fun om t => if om = 0 then w1.Y0 (L - t) else om) (w1.Y0 L)
  if omega = 0 then .error (.zeroOmega, { st with omega := omega, w := w1 }) else   -- precondition(!is_zero(omega), …);
  let X := linComb (combList L (fun i => w1.Y0 (1 + i)) w1.R.get) 1 w1.X                -- lin_comb(L, &Y0[1], &R[0], one, *X);
  let Yn := negY L w1.Y0
  let U0 := linComb (combList L (fun i => Yn (1 + i)) (fun i => w1.U (1 + i))) 1 (w1.U 0)   -- lin_comb(L, &Y0[1], &U[1], one, *U[0]);
  let R0 := linComb (combList L (fun i => Yn (1 + i)) (fun i => w1.R (1 + i))) 1 (w1.R 0)   -- lin_comb(L, &Y0[1], &R[1], one, *R[0]);
  let Y0 := negY L Yn
  let zeta := nrm ip sqrt R0                                                         -- zeta = norm(*R[0]);
  let w2 : Work K := { w1 with X := X, U := setF w1.U 0 U0, R := setF w1.R 0 R0, Y0 := Y0 }
  let st2 : St K := { st with iter := st.iter + L, omega := omega, zeta := zeta, w := w2 }
  if 0 < prm.delta then                                                              -- if (prm.delta > 0) {
    let rnC := maxK zeta st.rnmaxC
    let rnT := maxK zeta st.rnmaxT
    -- bool update_x = zeta < prm.delta * zeta0 && zeta0 <= rnmax_computed;
    let updateX : Bool := decide (zeta < prm.delta * zeta0) && !decide (rnC < zeta0)
    -- if ((zeta < prm.delta * rnmax_true && zeta <= rnmax_true) || update_x) {
    if (decide (zeta < prm.delta * rnT) && !decide (rnT < zeta)) || updateX then
      let rT := pspmv prm.pside P A w2.X (w2.R 0) w2.T        -- preconditioner::spmv(pside, P, A, *X, *R[0], *T);
      let R0' := axpby 1 w2.B (-1) rT.1                        -- axpby(one, *B, -one, *R[0]);
      let w3 : Work K := { w2 with R := setF w2.R 0 R0', T := rT.2 }
      if updateX then
        let x := match prm.pside with
          | .left => axpby 1 w3.X 1 st.x                       -- axpby(one, *X, one, x);
          | .right => axpby 1 w3.T 1 st.x                      -- axpby(one, *T, one, x);
        .ok { st2 with rnmaxC := zeta, rnmaxT := zeta, x := x,     -- rnmax_true = zeta; … rnmax_computed = zeta;
                       w := { w3 with X := vclear w3.X.size,       -- clear(*X);
                                      B := vcopy R0' } }           -- copy(*R[0], *B);
      else .ok { st2 with rnmaxC := rnC, rnmaxT := zeta, w := w3 }
    else .ok { st2 with rnmaxC := rnC, rnmaxT := rnT }
  else .ok st2

/-- one pass of the `for` body -/
def body (prm : Params K) (ip : Vec K → Vec K → K) (sqrt : K → K) (c07 : K) (A : CRS K) (P : Vec K → Vec K)
    (epsT zeta0 : K) (st : St K) : Except (Err × St K) (St K) :=
  let st0 := { st with rho0 := (-st.omega) * st.rho0 }       -- rho0 = -omega * rho0;
  match bicgLoop prm ip sqrt A P epsT prm.L 0 st0 with
  | .error e => .error e
  | .ok st1 => if st1.done then .ok st1 else polyPart prm ip sqrt c07 A P zeta0 st1

/-- `iter < prm.maxiter && zeta >= eps` (and `goto done` not taken) -/
def cond (maxiter : Nat) (epsT : K) (st : St K) : Bool :=
  !st.done && decide (st.iter < maxiter) && !decide (st.zeta < epsT)

def loop (prm : Params K) (ip : Vec K → Vec K → K) (sqrt : K → K) (c07 : K) (A : CRS K) (P : Vec K → Vec K)
    (epsT zeta0 : K) : Nat → St K → Option Err × St K :=
  loopE (cond prm.maxiter epsT) (body prm ip sqrt c07 A P epsT zeta0)

/-- the state on loop entry (bicgstabl.hpp:233-259) -/
def init (prm : Params K) (ip : Vec K → Vec K → K) (sqrt : K → K) (A : CRS K) (P : Vec K → Vec K)
    (ws : Work K) (f x0 : Vec K) : St K :=
  let w0 : Work K := match prm.pside with
    | .left  => let T := residual f A x0; { ws with T := T, B := P T }   -- residual(rhs, A, x, *T); P.apply(*T, *B);
    | .right => { ws with B := residual f A x0 }                         -- residual(rhs, A, x, *B);
  let zeta0 := nrm ip sqrt w0.B                                          -- zeta0 = norm(*B);
  let w1 : Work K :=
    { w0 with R := setF w0.R 0 (vcopy w0.B),                             -- copy(*B, *R[0]);
              Rt := vcopy w0.B,                                          -- copy(*B, *Rt);
              X := vclear w0.B.size,                                     -- clear(*X);
              U := setF w0.U 0 (vclear w0.B.size) }                      -- clear(*U[0]);
  { iter := 0, alpha := 0, rho0 := 1, omega := 1, zeta := zeta0, rnmaxC := zeta0, rnmaxT := zeta0,
    done := false, x := x0, w := w1 }

/-- label `done:` (bicgstabl.hpp:419-426) -/
def finish (side : Side) (P : Vec K → Vec K) (st : St K) : Vec K × Work K :=
  match side with
  | .left => (axpby 1 st.w.X 1 st.x, st.w)                   -- axpby(one, *X, one, x);
  | .right =>
    let T := P st.w.X                                        -- P.apply(*X, *T);
    (axpby 1 T 1 st.x, { st.w with T := T })                 -- axpby(one, *T, one, x);

def run (prm : Params K) (ip : Vec K → Vec K → K) (sqrt : K → K) (eps c07 : K) (A : CRS K) (P : Vec K → Vec K)
    (ws : Work K) (f x0 : Vec K) : Run K (Work K) :=
  match prologue prm.nsSearch ip sqrt eps f with
  | .trivial n => (.ok (0, n), vclear x0.size, ws)       -- clear(x); return (0, norm_rhs);
  | .go normRhs =>
    let st0 := init prm ip sqrt A P ws f x0
    let epsT := maxK (prm.tol * normRhs) prm.abstol       -- eps = std::max(prm.tol * norm_rhs, prm.abstol);
    match loop prm ip sqrt c07 A P epsT st0.zeta prm.maxiter st0 with
    | (none, st) =>
      let xw := finish prm.pside P st
      (.ok (st.iter, st.zeta / normRhs), xw.1, xw.2)      -- return (iter, zeta / norm_rhs);
    | (some e, st) => (.error e, st.x, st.w)

def solve (prm : Params K) (ip : Vec K → Vec K → K) (sqrt : K → K) (eps c07 : K) (A : CRS K) (P : Vec K → Vec K)
    (ws : Work K) (f x0 : Vec K) : Except Err (Nat × K × Vec K × Work K) :=
  (run prm ip sqrt eps c07 A P ws f x0).toExcept

def call (prm : Params K) (ip : Vec K → Vec K → K) (sqrt : K → K) (eps c07 : K) (w : Work K) (c : Call K) :
    Obs K × Work K :=
  let r := run prm ip sqrt eps c07 c.A c.P w c.f c.x0
  (r.obs, r.ws)

end Amgcl.Solver.BiCGStabL
