import Amgcl.Model.SolverGMRESC
import Amgcl.Model.SolverLGMRES
import Amgcl.Model.SolverAsFound
/-!
# LGMRES and IDR(s) at a value type with a conjugation — core Lean only

* LGMRES (lgmres.hpp:290-303) executes the Hessenberg / Givens statements of GMRES: the `…C` functions below are `LGMRES.step / inner /
  cycle / outer / run / solve / call` with `rotate` replaced by `rotateC conj` (`Model/SolverGMRESC.lean`); everything else is shared.
  At `conj = id` they are the real-valued functions (`rotateC_id`).
* IDR(s): the only statement of idrs.hpp outside `inner_product` that depends on the value type is `math::norm(ts / (norm_t * norm_s))`
  in `omega()` — the modulus of a `coef_type` scalar, whose VALUE is used (`om *= prm.omega / rho`).  `IDRs.omegaFnC absC`
  (`Model/SolverAsFound.lean`) takes it as a parameter; `bodyC / loopC / runC / solveC / callC` are `IDRs.body / …` with `omegaFn`
  replaced by `omegaFnC absC`.  At `absC = absK` they are the real-valued functions.
-/
namespace Amgcl.Solver

namespace LGMRES
variable {K : Type} [Add K] [Mul K] [Sub K] [Neg K] [Zero K] [One K] [Div K] [DecidableEq K] [LT K] [DecidableLT K]

def stepC (conj : K → K) (side : Side) (MM cap : Nat) (ip : Vec K → Vec K → K) (sqrt : K → K) (A : CRS K) (P : Vec K → Vec K)
    (t : In K) : In K :=
  let w := t.w
  let j := t.j
  let z := pickZ MM cap w.ov j
  let wsp := setF w.wsp j z
  let xt := pspmv side P A (deref w z) (w.vs (j + 1)) w.r
  let o := orth ip sqrt w.vs j w.h.H xt.1
  let H0 : FArr2 K := ⟨fun a b => if b = j ∧ a ≤ j + 1 then o.1 a b else w.H0 a b⟩
  let rt := rotateC conj sqrt j w.h o.1
  { j := j + 1, iter := t.iter + 1, innerRes := rt.2,
    w := { w with h := rt.1, H0 := H0, r := xt.2, vs := setF w.vs (j + 1) o.2, wsp := wsp } }

def innerC (conj : K → K) (prm : Params K) (ip : Vec K → Vec K → K) (sqrt : K → K) (A : CRS K) (P : Vec K → Vec K) (epsT : K)
    (st : St K) : In K :=
  doWhile (cont prm.maxiter prm.MM epsT) (stepC conj prm.pside prm.MM prm.K' ip sqrt A P) prm.MM (cycleStart st)

def cycleC (conj : K → K) (prm : Params K) (ip : Vec K → Vec K → K) (sqrt : K → K) (A : CRS K) (P : Vec K → Vec K) (epsT : K)
    (st : St K) : St K :=
  update prm ip sqrt P st (innerC conj prm ip sqrt A P epsT st)

def outerC (conj : K → K) (prm : Params K) (ip : Vec K → Vec K → K) (sqrt : K → K) (A : CRS K) (P : Vec K → Vec K) (f : Vec K)
    (epsT : K) : Nat → St K → St K :=
  loopN (fun s => !stop prm.maxiter epsT s)
    (fun s => head prm.pside ip sqrt A P f (cycleC conj prm ip sqrt A P epsT s))

def runC (conj : K → K) (prm : Params K) (ip : Vec K → Vec K → K) (sqrt : K → K) (eps : K) (A : CRS K) (P : Vec K → Vec K)
    (ws : Work K) (f x0 : Vec K) : Run K (Work K) :=
  let ws := reset prm ws
  match prologueA prm.nsSearch ip sqrt eps f with
  | .trivial n => (.ok (0, n), vclear x0.size, ws)
  | .go normRhs =>
    let epsT := maxK (prm.tol * normRhs) prm.abstol
    let st := outerC conj prm ip sqrt A P f epsT prm.maxiter (init prm ip sqrt A P ws f x0)
    (.ok (st.iter, st.normR / normRhs), st.x, st.w)

def solveC (conj : K → K) (prm : Params K) (ip : Vec K → Vec K → K) (sqrt : K → K) (eps : K) (A : CRS K) (P : Vec K → Vec K)
    (ws : Work K) (f x0 : Vec K) : Except Err (Nat × K × Vec K × Work K) :=
  (runC conj prm ip sqrt eps A P ws f x0).toExcept

def callC (conj : K → K) (prm : Params K) (ip : Vec K → Vec K → K) (sqrt : K → K) (eps : K) (w : Work K) (c : Call K) :
    Obs K × Work K :=
  let r := runC conj prm ip sqrt eps c.A c.P w c.f c.x0
  (r.obs, r.ws)

end LGMRES

namespace IDRs
variable {K : Type} [Add K] [Mul K] [Sub K] [Neg K] [Zero K] [One K] [Div K] [DecidableEq K] [LT K] [DecidableLT K]

/-- one pass of the `while` body, idrs.hpp:289-398, with `math::norm` of `omega()` as the parameter `absC` -/
def bodyC (absC : K → K) (prm : Params K) (ip : Vec K → Vec K → K) (sqrt : K → K) (A : CRS K) (Prec : Vec K → Vec K)
    (Pv : FArr (Vec K)) (rhs : Vec K) (epsT : K) (st : St K) : Except (Err × St K) (St K) :=
  let f := (List.range prm.s).foldl
    (fun f i => setF f i (ip st.w.r (Pv i))) st.w.f
  match kLoop prm ip sqrt A Prec Pv epsT prm.s 0 { st with w := { st.w with f := f } } with
  | .error e => .error e
  | .ok st1 =>
    if ¬ epsT < st1.resNorm ∨ prm.maxiter ≤ st1.iter then .ok { st1 with brk := true }
    else
      let w := st1.w
      let v := Prec w.r
      let t := spmv 1 A v 0 w.t
      let om := omegaFnC absC ip sqrt prm.omega t w.r
      let w1 : Work K := { w with v := v, t := t }
      if om = 0 then
        .error (.zeroOmega, { st1 with om := om, w := w1 })
      else
        let r0 := axpby (-om) t 1 w.r
        let x := axpby om v 1 st1.x
        let r := if prm.replacement then residual rhs A x
                 else r0
        let w2 : Work K := { w1 with r := r }
        let ws := if prm.smoothing then smooth ip sqrt w2 x
                  else (w2, nrmA ip sqrt r)
        .ok { iter := st1.iter + 1, resNorm := ws.2, om := om, brk := false, x := x, w := ws.1 }

def loopC (absC : K → K) (prm : Params K) (ip : Vec K → Vec K → K) (sqrt : K → K) (A : CRS K) (Prec : Vec K → Vec K)
    (Pv : FArr (Vec K)) (rhs : Vec K) (epsT : K) : Nat → St K → Option Err × St K :=
  loopE (cond prm.maxiter epsT) (bodyC absC prm ip sqrt A Prec Pv rhs epsT)

def runC (absC : K → K) (prm : Params K) (ip : Vec K → Vec K → K) (sqrt : K → K) (eps : K) (A : CRS K) (Prec : Vec K → Vec K)
    (Pv : FArr (Vec K)) (ws : Work K) (rhs x0 : Vec K) : Run K (Work K) :=
  match prologueA prm.nsSearch ip sqrt eps rhs with
  | .trivial n => (.ok (0, n), vclear x0.size, ws)
  | .go normRhs =>
    let epsT := maxK (prm.tol * normRhs) prm.abstol
    let r := residual rhs A x0
    let resNorm := nrmA ip sqrt r
    if ¬ epsT < resNorm then
      (.ok (0, resNorm / normRhs), x0, { ws with r := r })
    else
      match loopC absC prm ip sqrt A Prec Pv rhs epsT prm.maxiter (init prm ws x0 r resNorm) with
      | (none, st) =>
        let x := if prm.smoothing then vcopy st.w.xs else st.x
        (.ok (st.iter, st.resNorm / normRhs), x, st.w)
      | (some e, st) => (.error e, st.x, st.w)

def callC (absC : K → K) (prm : Params K) (ip : Vec K → Vec K → K) (sqrt : K → K) (eps : K) (Pv : FArr (Vec K)) (w : Work K)
    (c : Call K) : Obs K × Work K :=
  let r := runC absC prm ip sqrt eps c.A c.P Pv w c.f c.x0
  (r.obs, r.ws)

end IDRs
end Amgcl.Solver
