import Amgcl.Model.Primitives
import Amgcl.Model.Kernels
/-!
# Deflated solver (C18) — mirrors deflated_solver.hpp and detail/inverse.hpp

* `denseInverse` : `detail::inverse(n, A, t, p)` — LU with partial pivoting through the permutation `p`, then the
                   `n` triangular solves for the columns of the identity (inverse.hpp:45-100); `none` = the
                   `assert(!is_zero(d))` on a vanishing pivot
* `mkE`          : the loop of `init` that accumulates `E = Zᵀ A Z` (deflated_solver.hpp:144-159)
* `init`         : `E ← E⁻¹`
* `project`      : `x += Z E⁻¹ Zᵀ (b - A x)` (:205-216)
* `apply`, `solvePreonly` : `apply` (:199-203) and `operator()` with `solver::preonly` as the iterative solver
  (solver/preonly.hpp:86-92: one application of the "preconditioner", which here is the deflated solver itself)

The deflation vectors are `Z[j]`, `j < nvec`, each of size `n` (`prm.vec + n*j`).  The scratch `r`, `d` are locals:
`r` is overwritten by `residual`, `d` by `std::fill`.
-/
namespace Amgcl.Deflation

section inverse
variable {K : Type} [Add K] [Sub K] [Mul K] [Div K] [Neg K] [Zero K] [One K] [DecidableEq K] [LT K] [DecidableLT K]

/-- pivot search of column `col`: the FIRST position `i ≥ col` whose magnitude is strictly larger than all before -/
def pivotSearch (n : Nat) (A : Array K) (p : Array Nat) (col : Nat) : Nat :=
  ((List.range' col (n - col)).foldl (fun (acc : Nat × K) i =>
    let mag := absK (A.getD (p.getD i 0 * n + col) 0)
    if acc.2 < mag then (i, mag) else acc) (col, (0 : K))).1

/-- one column of the factorisation; `none` when the pivot vanishes -/
def luStep (n : Nat) (Ap : Array K × Array Nat) (col : Nat) : Option (Array K × Array Nat) :=
  let A := Ap.1
  let p := Ap.2
  let pi := pivotSearch n A p col
  let p := (p.setIfInBounds col (p.getD pi 0)).setIfInBounds pi (p.getD col 0)
  let prow := p.getD col 0
  let d := (1 : K) / A.getD (prow * n + col) 0
  if d = 0 then none else
  let A := (List.range' (col + 1) (n - (col + 1))).foldl (fun (A : Array K) i =>
    let row := p.getD i 0
    let A := A.setIfInBounds (row * n + col) (A.getD (row * n + col) 0 * d)
    (List.range' (col + 1) (n - (col + 1))).foldl (fun (A : Array K) j =>
      A.setIfInBounds (row * n + j) (A.getD (row * n + j) 0 - A.getD (row * n + col) 0 * A.getD (prow * n + j) 0)) A) A
  some (A.setIfInBounds (prow * n + col) d, p)

/-- the two triangular solves for column `k` of the identity, written into column `k` of `t` -/
def solveCol (n : Nat) (A : Array K) (p : Array Nat) (t : Array K) (k : Nat) : Array K :=
  let t := (List.range n).foldl (fun (t : Array K) i =>
    let row := p.getD i 0
    let b := (List.range i).foldl (fun b j => b - A.getD (row * n + j) 0 * t.getD (j * n + k) 0)
      (if row = k then (1 : K) else 0)
    t.setIfInBounds (i * n + k) b) t
  (List.range n).reverse.foldl (fun (t : Array K) i =>
    let row := p.getD i 0
    let s := (List.range' (i + 1) (n - (i + 1))).foldl (fun s j => s - A.getD (row * n + j) 0 * t.getD (j * n + k) 0)
      (t.getD (i * n + k) 0)
    t.setIfInBounds (i * n + k) (s * A.getD (row * n + i) 0)) t

/-- `detail::inverse(n, A, t, p)`: the inverse of the row-major `n × n` matrix `A` -/
def denseInverse (n : Nat) (A : Array K) : Option (Array K) :=
  match (List.range n).foldlM (luStep n) (A, Array.ofFn (n := n) (fun i => i.val)) with
  | none => none
  | some (LU, p) => some ((List.range n).foldl (solveCol n LU p) (Array.replicate (n * n) 0))

end inverse

section defl
variable {K : Type} [Add K] [Sub K] [Mul K] [Div K] [Neg K] [Zero K] [One K] [DecidableEq K] [LT K] [DecidableLT K]

/-- `E = Zᵀ A Z` accumulated row of `A` by row of `A` -/
def mkE (A : CRS K) (Z : Array (Vec K)) : Array K :=
  let nv := Z.size
  (List.range A.nrows).foldl (fun (E : Array K) i =>
    let AZ : Array K := Array.ofFn (n := nv) (fun j =>
      (A.row i).foldl (fun s a => s + a.2 * (Z.getD j.val #[]).getD a.1 0) 0)
    Array.ofFn (n := nv * nv) (fun k =>
      E.getD k.val 0 + (Z.getD (k.val / nv) #[]).getD i 0 * AZ.getD (k.val % nv) 0)) (Array.replicate (nv * nv) 0)

/-- a constructed `deflated_solver`: the preconditioner's system matrix, the deflation vectors and `E⁻¹` -/
structure State (K : Type) where
  A : CRS K
  Z : Array (Vec K)
  Einv : Array K

/-- constructor + `init`; `none` = the assert inside `detail::inverse` -/
def init (A : CRS K) (Z : Array (Vec K)) : Option (State K) :=
  (denseInverse Z.size (mkE A Z)).map (fun Ei => { A := A, Z := Z, Einv := Ei })

/-- the coefficient vector `d = E⁻¹ Zᵀ r`, accumulated column by column -/
def coeffs (nt : Nat) (st : State K) (r : Vec K) : Array K :=
  let nv := st.Z.size
  (List.range nv).foldl (fun (d : Array K) j =>
    let fj := innerProduct id nt (st.Z.getD j #[]) r
    Array.ofFn (n := nv) (fun i => d.getD i.val 0 + st.Einv.getD (i.val * nv + j) 0 * fj)) (Array.replicate nv 0)

/-- `project(b, x)`: `x += Z E⁻¹ Zᵀ (b - A x)` -/
def project (nt : Nat) (st : State K) (b x : Vec K) : Vec K :=
  let r := residual b st.A x
  let d := coeffs nt st r
  linComb (d.toList.zip st.Z.toList) 1 x

/-- `apply(rhs, x)`: `P.apply(rhs, x); project(rhs, x)` -/
def apply (nt : Nat) (st : State K) (Pf : Vec K → Vec K) (rhs : Vec K) : Vec K :=
  project nt st rhs (Pf rhs)

/-- `operator()(rhs, x)` with `solver::preonly`: `project(rhs, x)`, then one application of `*this` as the
preconditioner — which overwrites `x`, so the projected initial guess does not enter the result -/
def solvePreonly (nt : Nat) (st : State K) (Pf : Vec K → Vec K) (rhs _x0 : Vec K) : Vec K :=
  apply nt st Pf rhs

end defl

end Amgcl.Deflation
