import Amgcl.Model.Primitives
import Amgcl.Model.Kernels
import Amgcl.Model.Inverse
/-!
# Deflated solver (C18) — mirrors deflated_solver.hpp and detail/inverse.hpp

* `Amgcl.inverse` : `detail::inverse(n, A, t, p)` is the model of `Model/Inverse.lean` (C16: LU with partial pivoting
                   through the permutation `p`, then the `n` triangular solves); `zeroPivot` detects the
                   `assert(!is_zero(d))` on a vanishing pivot (the stored inverse pivot is `1/0 = 0`)
* `mkE`          : the loop of `init` that accumulates `E = Zᵀ A Z` (deflated_solver.hpp:144-159)
* `init`         : `E ← E⁻¹`
* `project`      : `x += Z E⁻¹ Zᵀ (b - A x)` (:205-216)
* `apply`, `solvePreonly` : `apply` (:199-203) and `operator()` with `solver::preonly` as the iterative solver
  (solver/preonly.hpp:86-92: one application of the "preconditioner", which here is the deflated solver itself)

The deflation vectors are `Z[j]`, `j < nvec`, each of size `n` (`prm.vec + n*j`).  The scratch `r`, `d` are locals:
`r` is overwritten by `residual`, `d` by `std::fill`.
-/
namespace Amgcl.Deflation

section defl
variable {K : Type} [Add K] [Sub K] [Mul K] [Div K] [Neg K] [Zero K] [One K] [DecidableEq K] [LT K] [DecidableLT K]

/-- `E = Zᵀ A Z` accumulated row of `A` by row of `A` -/
def mkE (A : CRS K) (Z : Array (Vec K)) : Array K :=
  let nv := Z.size
  (List.range A.nrows).foldl (fun (E : Array K) i =>
    let AZ : Array K := Array.ofFn (n := nv) (fun j =>
      (A.row i).foldl (fun s a => s + a.2 * (Z.getD j.val #[]).getD a.1 0) 0)
    Array.ofFn (n := nv * nv) (fun k =>
      E.getD k.val 0 + (Z.getD (k.val / nv) #[]).getD i 0 * AZ.getD (k.val % nv) 0)) (Array.replicate (nv * nv) 0)

/-- a constructed `deflated_solver`: the preconditioner's system matrix, the deflation vectors and `E⁻¹` -/
structure State (K : Type) where
  A : CRS K
  Z : Array (Vec K)
  Einv : Array K

/-- does the LU phase of `detail::inverse` meet a vanishing pivot (`d = inverse(0) = 0`, the `assert`)?  The inverse
pivot of column `col` stays in `A[p[col]*n + col]` after the factorisation. -/
def zeroPivot (n : Nat) (E : Array K) : Bool :=
  let lu := luPhase n E (Array.replicate n 0)
  (List.range n).any (fun col => decide (get2 n lu.1 (lu.2.getD col 0) col = 0))

/-- constructor + `init`: `E ← inverse(E)` with the two local workspaces `t` (`nvec²` values) and `p` (`nvec` ints),
both value-initialised; `none` = the assert inside `detail::inverse` -/
def init (A : CRS K) (Z : Array (Vec K)) : Option (State K) :=
  let nv := Z.size
  let E := mkE A Z
  if zeroPivot nv E then none
  else some { A := A, Z := Z, Einv := (inverse nv E (Array.replicate (nv * nv) 0) (Array.replicate nv 0)).1 }

/-- the coefficient vector `d = E⁻¹ Zᵀ r`, accumulated column by column -/
def coeffs (nt : Nat) (st : State K) (r : Vec K) : Array K :=
  let nv := st.Z.size
  (List.range nv).foldl (fun (d : Array K) j =>
    let fj := innerProduct id nt (st.Z.getD j #[]) r
    Array.ofFn (n := nv) (fun i => d.getD i.val 0 + st.Einv.getD (i.val * nv + j) 0 * fj)) (Array.replicate nv 0)

/-- `project(b, x)`: `x += Z E⁻¹ Zᵀ (b - A x)` -/
def project (nt : Nat) (st : State K) (b x : Vec K) : Vec K :=
  let r := residual b st.A x
  let d := coeffs nt st r
  linComb (d.toList.zip st.Z.toList) 1 x

/-- `apply(rhs, x)`: `P.apply(rhs, x); project(rhs, x)` -/
def apply (nt : Nat) (st : State K) (Pf : Vec K → Vec K) (rhs : Vec K) : Vec K :=
  project nt st rhs (Pf rhs)

/-- `operator()(rhs, x)` with `solver::preonly`: `project(rhs, x)`, then one application of `*this` as the
preconditioner — which overwrites `x`, so the projected initial guess does not enter the result -/
def solvePreonly (nt : Nat) (st : State K) (Pf : Vec K → Vec K) (rhs _x0 : Vec K) : Vec K :=
  apply nt st Pf rhs

end defl

end Amgcl.Deflation
