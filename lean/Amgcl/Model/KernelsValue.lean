import Amgcl.Model.Kernels
import Amgcl.Model.PointwiseMatrix
import Amgcl.Model.Inverse
import Amgcl.Model.BlockValue
/-!
# C08 kernels whose C++ text mixes TWO types: the value type `V` of the matrix and its scalar type `S`

`Model/Kernels.lean` models `transpose`, `product`, `sum`, `sort_rows`, `diagonal`, the CRS constructors over ONE carrier
`K` (notation classes only), so they already run at block values (`SMat`, `Mul`/`One` of `Model/BlockValue.lean`) and at
Gaussian rationals.  Three kernels of backend/builtin.hpp read the values through `math::norm : V → scalar_of<V>` or take a
weight of another type; at a scalar `V` the two types coincide and the models of `Model/Kernels.lean` identify them.  Here they
are written with the two types apart, loop by loop as in the header; `Properties/C08c.lean` proves that at `V = S = K` they are
the models of `Model/Kernels.lean` (`gershgorinV_scalar`, `scaleV_scalar`).

* `spectral_radius<scale>(A, 0)` (builtin.hpp:796-825): `s += math::norm(v)`, `dia = v` on the diagonal position,
  `s *= math::norm(math::inverse(dia))` — the norm of the INVERSE block, not the inverse of the norm.
* `scale(A, s)` (builtin.hpp:489-498): `A.val[j] *= s` with `s` of any type `T` for which `V *= T` exists; for
  `static_matrix` that is `operator*=(T c)`: the scalar multiplies every entry from the right (`SMat.smul`).
* `pointwise_matrix(A, block_size)` (builtin.hpp:500-664): `S v = math::norm(A.val[beg])` is the only use of a value, the
  maxima are taken in `S`.
-/
namespace Amgcl

section
variable {V S T : Type}

/-- `backend::scale(A, s)`: `A.val[j] *= s`, `mulr v s` being `v *= s` of the value type -/
def scaleV (mulr : V → T → V) (A : CRS V) (s : T) : CRS V :=
  { A with rows := A.rows.map (fun r => r.map (fun cv => (cv.1, mulr cv.2 s))) }

/-- the same stored pattern with every value replaced by `f value` -/
def CRS.mapVals (f : V → S) (A : CRS V) : CRS S :=
  { ncols := A.ncols, rows := A.rows.map (fun r => r.map (fun cv => (cv.1, f cv.2))) }

variable [Add S] [Mul S] [Zero S] [One S] [LT S] [DecidableLT S]

/-- the row loop of the Gershgorin branch for row `i`, entered with `dia = dia0` (declared outside the row loop):
returns `(s, dia)` after `if (scale) s *= math::norm(math::inverse(dia))` -/
def gershRowV (norm : V → S) (inv : V → V) (scaled : Bool) (i : Nat) (r : Row V) (dia0 : V) : S × V :=
  let sd := r.foldl (fun (sd : S × V) cv =>
      (sd.1 + norm cv.2, if scaled && cv.1 = i then cv.2 else sd.2)) ((0 : S), dia0)
  (if scaled then sd.1 * norm (inv sd.2) else sd.1, sd.2)

/-- `spectral_radius<scale>(A, 0)` — Gershgorin branch executed by one thread at a value type `V` with scalar type `S`:
`norm` is `math::norm`, `inv` is `math::inverse`, `one` is `math::identity<V>()` -/
def gershgorinV (norm : V → S) (inv : V → V) (one : V) (scaled : Bool) (A : CRS V) : S :=
  let r := (List.range A.nrows).foldl (fun (acc : S × V) i =>      -- (emax, dia)
      let rs := gershRowV norm inv scaled i (A.row i) acc.2
      (maxK acc.1 rs.1, rs.2)) ((0 : S), one)
  if r.1 < 0 then 1 + 1 else r.1

end

/-- `backend::pointwise_matrix(A, block_size)` at a value type `V`: every value is read through `math::norm` only
(`S v = math::norm(A.val[beg])`, builtin.hpp:630), so the kernel is the scalar kernel on the matrix of norms, whose own
`math::norm` is then the identity on the (non-negative) norms. -/
def pointwiseMatrixV {V S : Type} [Zero S] [LT S] [DecidableLT S]
    (norm : V → S) (A : CRS V) (b : Nat) : Outcome (CRS S) :=
  pointwiseMatrix id (A.mapVals norm) b

namespace SMat
variable {K : Type} [Zero K] [One K] [Sub K] [Mul K] [Div K] [Neg K] [LT K] [DecidableLT K]
/-- `math::inverse` of a square block (`detail::inverse`, `Model/Inverse.lean`): what `diagonal(A, true)` and the scaled
Gershgorin estimate call at block values -/
instance {n : Nat} : Inv (SMat K n n) := ⟨SMat.inverse⟩
end SMat

end Amgcl
