/-!
The deterministic rational "square root" used by the executable instances on both sides of the
correspondence (C++: `vq::sqrt` in harness/qtype.hpp):  `rsqrt q = ⌊√(q·4^32)⌋ / 2^32` for `q > 0`, else `0`.
It is *not* a true square root; theorems that need one take `sqrt` as a parameter with the hypothesis they need.
-/
namespace Amgcl

def rsqrt (q : Rat) : Rat :=
  if q ≤ 0 then 0 else
    let t := (q.num.toNat * 4 ^ 32) / q.den
    Rat.divInt (Nat.sqrt t : Int) ((2 ^ 32 : Nat) : Int)

end Amgcl
