import Amgcl.Model.RelaxIluk
/-!
# ILU(k) as written, with a record of what `sparse_vector::add` throws away

`Model/RelaxIluk.lean` mirrors `iluk.hpp`.  Here the *same* run is repeated with one ghost component: every time
`add(col, val, lev)` takes its third branch (no slot at `col` and `lev > lfil`, `iluk.hpp:236-246`) the pair
`(col, val)` is pushed on a list.  Nothing of the computation depends on the list: the first component of every
traced function **is** the function of `Model/RelaxIluk.lean` applied to the first component (`ilukAddT_fst` is `rfl`;
`Proofs/RelaxIlukTrace.lean` lifts this to the whole constructor, `ilukFactorT_fst`).

The discarded contributions of row `i` form a `Row K`; all rows together form a matrix `R` ("the dropped part").
`Properties/C06.lean` proves `(I+L)(D⁻¹+U) + R = A` for **every** position and derives

* the decidable run predicate `ilukNoDiscardb lfil A` ("no call of `add` discarded anything"),
  which holds whenever `A.nrows ≤ lfil + 1`, and under which ILU(k) is the complete `LU` factorisation;
* the finer predicate `ilukNoLateSlotb lfil A` ("nothing was discarded at a column that has a slot at the end of
  its row"): the exact condition under which the known finding K01 does not bite.
-/
namespace Amgcl
namespace Relax
variable {K : Type} [Add K] [Mul K] [Sub K] [Neg K] [Zero K] [One K] [Div K]

/-- what `add(col, val, lev)` discards, pushed on `d` (most recent first): the pair `(col, val)` in the branch
"no slot and `lev > lfil`", nothing otherwise -/
def ilukAddDrop (lfil : Nat) (w : IlukRow K) (col : Nat) (val : K) (lev : Nat) (d : Row K) : Row K :=
  match w.getD col none with
  | none => if lev ≤ lfil then d else (col, val) :: d
  | some _ => d

/-- `sparse_vector::add` on the pair (working row, discarded so far) -/
def ilukAddT (lfil : Nat) (s : IlukRow K × Row K) (col : Nat) (val : K) (lev : Nat) : IlukRow K × Row K :=
  (ilukAdd lfil s.1 col val lev, ilukAddDrop lfil s.1 col val lev s.2)

/-- the pivot step of `ilukPivot` on the pair -/
def ilukPivotT (lfil : Nat) (U : Array (IlukURow K)) (D : Vec K) (s : IlukRow K × Row K) (c : Nat) :
    IlukRow K × Row K :=
  match s.1.getD c none with
  | none => s
  | some (v, l) =>
    let a := v * D.getD c 0
    (U.getD c []).foldl (fun s e => ilukAddT lfil s e.1 (-a * e.2.1) (max l e.2.2 + 1))
      (s.1.setIfInBounds c (some (a, l)), s.2)

/-- the working row of row `i` after the pivot loop, and everything `add` discarded while it was built -/
def ilukRowT (lfil n : Nat) (S : IlukState K) (i : Nat) (r : Row K) : IlukRow K × Row K :=
  let s0 : IlukRow K × Row K := r.foldl (fun s cv => ilukAddT lfil s cv.1 cv.2 0) (Array.replicate n none, [])
  (List.range i).foldl (ilukPivotT lfil S.U S.D) s0

/-- the row loop of the constructor; the state is advanced by `ilukRow` itself, the discarded contributions of the
row are appended to `R` -/
def ilukLoopT (lfil : Nat) (A : CRS K) :
    List Nat → IlukState K → Array (Row K) → SetupOutcome (IlukState K × Array (Row K))
  | [], S, R => .ok (S, R)
  | i :: rest, S, R =>
    match ilukRow lfil A.nrows S i (A.row i) with
    | .ok S' => ilukLoopT lfil A rest S' (R.push (ilukRowT lfil A.nrows S i (A.row i)).2)
    | .precondition => .precondition
    | .undefinedInput => .undefinedInput

/-- `ilukFactor` together with the matrix of discarded contributions -/
def ilukFactorT (lfil : Nat) (A : CRS K) : SetupOutcome (IluFactors K × CRS K) :=
  match ilukLoopT lfil A (List.range A.nrows) { L := #[], U := #[], D := #[] } #[] with
  | .ok (S, R) =>
    .ok ({ L := ⟨A.nrows, S.L⟩, U := ⟨A.nrows, S.U.map (fun r => r.map (fun e => (e.1, e.2.1)))⟩, D := S.D },
         ⟨A.nrows, R⟩)
  | .precondition => .precondition
  | .undefinedInput => .undefinedInput

/-- **nothing discarded**: the constructor succeeds and no call of `add` took the discarding branch -/
def ilukNoDiscardb (lfil : Nat) (A : CRS K) : Bool :=
  match ilukFactorT lfil A with
  | .ok (_, R) => R.rows.all (fun r => r.isEmpty)
  | _ => false

/-- column `j` has a slot at the end of row `i`: it is the diagonal or a stored column of the `L` / `U` row -/
def ilukSlotb (F : IluFactors K) (i j : Nat) : Bool :=
  decide (i = j) || (F.L.row i).any (fun cv => cv.1 == j) || (F.U.row i).any (fun cv => cv.1 == j)

/-- **nothing discarded at a position that is admitted in the end** (the situation of finding K01 does not occur):
the constructor succeeds and every discarded contribution of row `i` went to a column without a slot at the end
of row `i` -/
def ilukNoLateSlotb (lfil : Nat) (A : CRS K) : Bool :=
  match ilukFactorT lfil A with
  | .ok (F, R) => (List.range A.nrows).all (fun i => (R.row i).all (fun cv => !(ilukSlotb F i cv.1)))
  | _ => false

end Relax
end Amgcl
