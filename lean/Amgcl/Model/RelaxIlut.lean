import Amgcl.Model.RelaxIlu
import Amgcl.Model.RelaxCheck
/-!
# ILUT(p, tau) as written (relaxation/ilut.hpp:105-181 constructor, 220-380 `sparse_vector`)

## The working row
`sparse_vector w` = (`nz`: the slots `(col, val)` in creation order, `idx`: column → slot or `-1`, `q`: a priority
queue of the slots with column `< dia`, smallest column on top).  As in `Model/RelaxIluk.lean` the row is modelled
densely: `w[c] = some v` iff column `c` has a slot (`idx[c] >= 0`) and `v = nz[idx[c]].val`.  What the dense picture
forgets is the *creation order* of the slots.  That order is only read by `std::partition` / `std::nth_element` /
`std::sort` in `move_to`, see below.  `move_to` ends with `idx[e.col] = -1` for every slot and `nz.clear()`: every row
starts from `Array.replicate n none`.

* `w[a.col()] = a.value()` (line 148): non-const `operator[]` creates the slot if needed, then the value is
  **overwritten** — a column stored twice in a row of `A` keeps the last value (ILU(k)'s `add` accumulates);
  `tol` and `lenL/lenU` count every stored entry.
* `tol *= prm.tau / (lenL + lenU)`: `int → scalar_type` conversion `P.ofNat`, total division (a row reduced to its
  diagonal divides by zero: `inf` in `double`, `0` at `Q` — no entry is ever compared with that `tol` except the
  diagonal, which is kept unconditionally).
* the `while (!w.q.empty())` loop pops the slot with the smallest column `k < i`; slots created meanwhile have a column
  `> k` (rows of `U` are strictly upper) and are pushed iff their column is `< i`: the loop visits the slots with
  column `< i` in increasing column order, i.e. `for c in 0..i-1: if slot c exists` (`ilutPivot`).  All columns in
  `q` are distinct (one push per slot creation), so the heap layout of `std::priority_queue` is not observable.
* `w[k] = w[k] * D[k]; if (norm(wk) > tol) for j in U[k]: w[Ucol[j]] -= wk * Uval[j]` — a multiplier that is not
  larger than `tol` is **not applied** but stays in its slot; `move_to` discards it by the same test.
  `w[c] -= x` on a column without slot creates the slot with `zero` first: `0 - x` (`ilutSub`).

## `move_to(lp, up, tol, …)`
1. `partition(higher_than(tol, dia))`: keeps `col == dia || norm(val) > tol`;
2. `partition(L_first)`: `[b, m)` = kept slots with `col < dia`, `[m, e)` = the diagonal and the kept slots right of it;
3. `lend = min(b + lp, m)`, `uend = min(m + up, e)`; `nth_element(…, by_abs_val(dia))` only when something is cut.
   `by_abs_val` orders the diagonal first, then by decreasing `norm`.  Hence `[b, lend)` = the `lp` largest lower
   entries and `[m, uend)` = the diagonal **and the `up - 1` largest** upper entries (the diagonal uses one of the
   `up` places; `up = 0` keeps no upper entry and still finds the diagonal at `m`);
4. `sort(b, lend, by_col)`, `sort(m, uend, by_col)`, copy out, `D[dia] = inverse(m->val)`.

`std::partition` and `std::nth_element` are not stable and the order they leave depends on the creation order of the
slots and on the library.  **Choice made here**: the kept *set* is modelled, not the permutation.  The kept set is a
function of the candidates whenever the cut does not fall between two candidates of equal `norm`
(`ilutSelect`: with `b` the largest discarded candidate, exactly `cnt` candidates are strictly larger than `b`;
it returns the kept and the cut candidates).
When it does, which of the equal ones survives is implementation-defined: outcome `tie`; the harness recognises the
same situation with its own dense recurrence and does not compare such cases.  Inside the kept set the columns are
distinct, so `sort by_col` has one possible result: the kept candidates in increasing column order (the candidates
are enumerated by column, `filter` preserves that order).

`lp = static_cast<int>(lenL * prm.p)`, `up = static_cast<int>(lenU * prm.p)` with `p : scalar_type`: the parameter
`P.fill : Nat → Nat` is `len ↦ trunc(len * p)`.  At `Q` the product is exact (`⌊len·p⌋`, driver); in the shipped
`double` instantiation the product is rounded to binary64 before the truncation (`Amgcl.Relax.ilutFillF64`).

A row whose working vector has no slot on the diagonal makes `move_to` invert whatever `m` points to (another entry,
or one past the end of `nz`): outcome `undefinedInput` as in the other ILU models (a relaxation needs the diagonal).
No pivot check: `inverse(0) = 0` with total division.
-/
namespace Amgcl
namespace Relax
variable {K : Type} [Add K] [Mul K] [Sub K] [Zero K] [One K] [Div K] [LT K] [DecidableLT K]

/-- no row stores a column twice (then the copy loop `w[col] = val` and the denoted row `rowGet` agree) -/
def noRepeatb {K : Type} (A : CRS K) : Bool := A.rows.all (fun r => decide ((r.map (·.1)).Nodup))

/-- the numerical parameters of `ilut::params` as the constructor uses them -/
structure IlutParams (K : Type) where
  /-- `len ↦ static_cast<int>(len * prm.p)` -/
  fill : Nat → Nat
  tau : K
  /-- `int → scalar_type` -/
  ofNat : Nat → K
  /-- `math::norm` -/
  norm : K → K

/-- outcome of the ILUT constructor -/
inductive IlutOutcome (S : Type) where
  | ok (s : S)
  /-- the fill limit cuts between two candidates of equal `norm`: `std::nth_element` may keep either -/
  | tie
  /-- no slot on the diagonal of the working row -/
  | undefinedInput
deriving Repr, DecidableEq

/-- the working row: `w[c] = some v` iff column `c` has a slot -/
abbrev IlutRow (K : Type) := Array (Option K)

/-- `w[c] -= x` (non-const `operator[]`: a missing slot is created with value zero first) -/
def ilutSub (w : IlutRow K) (c : Nat) (x : K) : IlutRow K :=
  match w.getD c none with
  | none => w.setIfInBounds c (some (0 - x))
  | some v => w.setIfInBounds c (some (v - x))

/-- one turn of the `while (!w.q.empty())` loop for the slot of column `c` (nothing happens if there is none) -/
def ilutPivot (norm : K → K) (tol : K) (U : Array (Row K)) (D : Vec K) (w : IlutRow K) (c : Nat) : IlutRow K :=
  match w.getD c none with
  | none => w
  | some v =>
    let wk := v * D.getD c 0
    let w := w.setIfInBounds c (some wk)
    if tol < norm wk then (U.getD c []).foldl (fun w e => ilutSub w e.1 (wk * e.2)) w else w

/-- `tol` of a row: `(Σ norm(a_ij)) * (tau / (lenL + lenU))` -/
def ilutTol (P : IlutParams K) (i : Nat) (r : Row K) : K :=
  r.foldl (fun s cv => s + P.norm cv.2) 0
    * (P.tau / P.ofNat (r.countP (fun cv => decide (cv.1 < i)) + r.countP (fun cv => decide (i < cv.1))))

/-- the working row after the copy loop (lines 147-153) and the elimination loop (156-165) -/
def ilutWork (P : IlutParams K) (n : Nat) (U : Array (Row K)) (D : Vec K) (i : Nat) (r : Row K) : IlutRow K :=
  let w0 : IlutRow K := r.foldl (fun w cv => w.setIfInBounds cv.1 (some cv.2)) (Array.replicate n none)
  (List.range i).foldl (ilutPivot P.norm (ilutTol P i r) U D) w0

/-- the entries `(c, v)`, `c = 0 .. m-1` in increasing order, for which `f c = some v` -/
def ilutPick (f : Nat → Option K) (m : Nat) : Row K :=
  (List.range m).filterMap (fun c => (f c).map (fun v => (c, v)))

/-- insertion into a list ordered by decreasing `norm` -/
def ilutInsert (norm : K → K) (e : Nat × K) : Row K → Row K
  | [] => [e]
  | x :: xs => if norm x.2 < norm e.2 then e :: x :: xs else x :: ilutInsert norm e xs

/-- `nth_element(…, by_abs_val)` + `sort(…, by_col)` on the candidates of one side: (kept, cut) with kept = the `cnt`
candidates of largest `norm`, both in column order; everything is kept when there are at most `cnt`; `none` when the
cut falls inside a group of equal `norm` -/
def ilutSelect (norm : K → K) (cnt : Nat) (cands : Row K) : Option (Row K × Row K) :=
  if cands.length ≤ cnt then some (cands, [])
  else
    match (cands.foldr (ilutInsert norm) []).drop cnt with
    | [] => some (cands, [])
    | b :: _ =>
      if (cands.filter (fun e => decide (norm b.2 < norm e.2))).length = cnt then
        some (cands.filter (fun e => decide (norm b.2 < norm e.2)),
              cands.filter (fun e => !(decide (norm b.2 < norm e.2))))
      else none

/-- what row `i` discards (ghost record, used by `Properties/C06e.lean` and the op `relax_ilut_drops` only) -/
structure IlutDrop (K : Type) where
  /-- multipliers `(c, l_c)`, `c < i`, with `norm(l_c) ≤ tol`: not applied in the elimination loop, not stored -/
  skipped : Row K
  /-- multipliers with `norm > tol` that **were applied** in the elimination loop but cut by the fill limit `lp` -/
  cutL : Row K
  /-- slots right of the diagonal that are not stored (`norm ≤ tol`, or cut by the fill limit `up`) -/
  dropU : Row K
deriving Repr, DecidableEq

def IlutDrop.isEmpty (d : IlutDrop K) : Bool := d.skipped.isEmpty && d.cutL.isEmpty && d.dropU.isEmpty

/-- state of the constructor loop: finished rows of `L`, `U` and the inverted pivots -/
structure IlutState (K : Type) where
  L : Array (Row K)
  U : Array (Row K)
  D : Vec K

/-- row `i` of the constructor: the stored `L` row, the inverted pivot, the stored `U` row — and the discarded part -/
def ilutRowFull (P : IlutParams K) (n : Nat) (U : Array (Row K)) (D : Vec K) (i : Nat) (r : Row K) :
    IlutOutcome (Row K × K × Row K × IlutDrop K) :=
  let tol := ilutTol P i r
  let w := ilutWork P n U D i r
  match w.getD i none with
  | none => .undefinedInput
  | some d =>
    let lp := P.fill (r.countP (fun cv => decide (cv.1 < i)))
    let up := P.fill (r.countP (fun cv => decide (i < cv.1)))
    -- `higher_than(tol, dia)` on the slots left / right of the diagonal
    let big : K → Bool := fun v => decide (tol < P.norm v)
    match ilutSelect P.norm lp (ilutPick (fun c => (w.getD c none).filter big) i),
          ilutSelect P.norm (up - 1) (ilutPick (fun c => if i < c then (w.getD c none).filter big else none) n) with
    | some (l, cl), some (u, cu) =>
      .ok (l, 1 / d, u,
           { skipped := ilutPick (fun c => (w.getD c none).filter (fun v => !(big v))) i,
             cutL := cl,
             dropU := ilutPick (fun c => if i < c then (w.getD c none).filter (fun v => !(big v)) else none) n ++ cu })
    | _, _ => .tie

def ilutRow (P : IlutParams K) (n : Nat) (S : IlutState K) (i : Nat) (r : Row K) : IlutOutcome (IlutState K) :=
  match ilutRowFull P n S.U S.D i r with
  | .ok (l, d, u, _) => .ok { L := S.L.push l, U := S.U.push u, D := S.D.push d }
  | .tie => .tie
  | .undefinedInput => .undefinedInput

def ilutLoop (P : IlutParams K) (A : CRS K) : List Nat → IlutState K → IlutOutcome (IlutState K)
  | [], S => .ok S
  | i :: rest, S =>
    match ilutRow P A.nrows S i (A.row i) with
    | .ok S' => ilutLoop P A rest S'
    | .tie => .tie
    | .undefinedInput => .undefinedInput

/-- `ilut::ilut(A, prm, bprm)` up to the construction of `ilu_solve` -/
def ilutFactor (P : IlutParams K) (A : CRS K) : IlutOutcome (IluFactors K) :=
  match ilutLoop P A (List.range A.nrows) { L := #[], U := #[], D := #[] } with
  | .ok S => .ok { L := ⟨A.nrows, S.L⟩, U := ⟨A.nrows, S.U⟩, D := S.D }
  | .tie => .tie
  | .undefinedInput => .undefinedInput

/-- ILUT with damping `ω` and the serial triangular solve: `apply_pre`, `apply_post`, `apply` are those of ILU(0)
(`ilut.hpp:185-210`).  An implementation-defined selection (`tie`) is outside what the model determines -/
def ilut [DecidableEq K] (P : IlutParams K) (ω : K) : Smoother K (IluFactors K) where
  setup A := match ilutFactor P A with
    | .ok F => .ok F
    | .tie => .undefinedInput
    | .undefinedInput => .undefinedInput
  applyPre F A f x t := iluSweep ω F A f x t
  applyPost F A f x t := iluSweep ω F A f x t
  apply F _ f := iluApply F f

/-! ## The same run with the record of what every row throws away -/

/-- the row loop with the record -/
def ilutLoopT (P : IlutParams K) (A : CRS K) :
    List Nat → IlutState K → Array (IlutDrop K) → IlutOutcome (IlutState K × Array (IlutDrop K))
  | [], S, R => .ok (S, R)
  | i :: rest, S, R =>
    match ilutRowFull P A.nrows S.U S.D i (A.row i) with
    | .ok (l, d, u, dr) => ilutLoopT P A rest { L := S.L.push l, U := S.U.push u, D := S.D.push d } (R.push dr)
    | .tie => .tie
    | .undefinedInput => .undefinedInput

/-- `ilutFactor` together with the record of discarded entries, row by row -/
def ilutFactorT (P : IlutParams K) (A : CRS K) : IlutOutcome (IluFactors K × Array (IlutDrop K)) :=
  match ilutLoopT P A (List.range A.nrows) { L := #[], U := #[], D := #[] } #[] with
  | .ok (S, R) => .ok ({ L := ⟨A.nrows, S.L⟩, U := ⟨A.nrows, S.U⟩, D := S.D }, R)
  | .tie => .tie
  | .undefinedInput => .undefinedInput

/-- **nothing dropped**: the constructor succeeds, no multiplier was skipped, nothing fell below `tol`, no fill limit cut -/
def ilutNoDropb (P : IlutParams K) (A : CRS K) : Bool :=
  match ilutFactorT P A with
  | .ok (_, R) => R.all (fun d => d.isEmpty)
  | _ => false

/-- the matrix of discarded contributions, entry `(i, j)`: a skipped multiplier `l_c` leaves `l_c · pivot_c` at column
`c`; a multiplier that was applied and then cut by `lp` leaves `l_c · (pivot_c e_c + U_c)`; discarded upper entries
leave themselves (`pivot_c = 1 / D_c`, `D` holding the inverted pivots) -/
def ilutResid (F : IluFactors K) (R : Array (IlutDrop K)) (i j : Nat) : K :=
  let d := R.getD i ⟨[], [], []⟩
  rowGet d.skipped j * (1 / F.D.getD j 0) + rowGet d.cutL j * (1 / F.D.getD j 0)
    + (List.range i).foldl (fun s c => s + rowGet d.cutL c * F.U.get c j) 0 + rowGet d.dropU j

end Relax

namespace Relax
/-- the fill limit in the shipped `double` instantiation: `static_cast<int>(len * p)` with the product rounded to
binary64 (executable only; `p` non-negative and moderate) -/
def ilutFillF64 (p : Float) (len : Nat) : Nat := (Float.floor (Float.ofNat len * p)).toUInt64.toNat
end Relax
end Amgcl
