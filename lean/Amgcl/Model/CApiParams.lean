import Amgcl.Model.PTree
/-!
# C20 — the CONTENT of a parameter handle of `lib/amgcl.cpp` (core Lean only)

A parameter handle is a `boost::property_tree::ptree` on the heap (lib/amgcl.cpp:34-36).  The calls that write
into it are

    amgcl_params_seti / setf / sets (prm, name, value)   static_cast<Params*>(prm)->put(name, value);      (:40-52)
    amgcl_params_read_json (prm, fname)                   read_json(fname, *static_cast<Params*>(prm));     (:55-57)

`put(path, value)` walks the dotted path, creating missing nodes, and **overwrites** the data of the FIRST node
with that path (`PTree.putPath` of `Model/PTree.lean`; children of the node are kept).  `read_json` parses the
file into a fresh tree and swaps it in: what the handle held before is gone.  A JSON file whose keys are unique
per object yields the tree that `put` of its leaves, in file order, builds from the empty tree (`putAll`).

Every reader in amgcl (`prm.get(name, default)`, `get_child`) returns the first match, so the value a solver
sees for a path is `getPath?` of the handle's tree at the moment `amgcl_{solver,precond}_create[_f]` copies it.

The typed setters store the TEXT of the value (Boost's stream translator): `%d` for `int`, the characters for
`const char*`, and 9 significant digits (`max_digits10`) in `%g` style for `float`.  `floatText` is that text
for the floats the modelled op is restricted to (m / 2^k, k ≤ 6, |m| < 2^15: then 9 significant digits are the
exact, plain decimal expansion).
-/
namespace Amgcl.CApi
open Amgcl.Params

/-- `put` of a list of `(path, text)` pairs, in order -/
def putAll (p : PTree) (es : List (List String × String)) : PTree :=
  es.foldl (fun t e => t.putPath e.1 e.2) p

/-- one call that writes into a parameter handle -/
inductive PWrite where
  /-- `amgcl_params_seti/setf/sets(prm, path, value)` with `text` the stored text of `value` -/
  | set (path : List String) (text : String)
  /-- `amgcl_params_read_json(prm, file)`; `entries` = the leaves of the file in file order -/
  | file (entries : List (List String × String))
deriving Inhabited

def PWrite.apply (p : PTree) : PWrite → PTree
  | .set path v => p.putPath path v
  | .file es => putAll PTree.empty es

/-- the tree behind a handle that held `p` after the writes `ws` -/
def runWrites (p : PTree) (ws : List PWrite) : PTree := ws.foldl PWrite.apply p

/-- a later write that leaves the value at `path` alone: a setter for another path (a file replaces everything) -/
def PWrite.Spares (path : List String) : PWrite → Prop
  | .set q _ => q ≠ path
  | .file _ => False

/-- no node has two children with the same key -/
inductive NoDup : PTree → Prop
  | node (d : String) (ks : List (String × PTree)) :
      (ks.map (·.1)).Nodup → (∀ kc ∈ ks, NoDup kc.2) → NoDup (PTree.node d ks)

/-! ## several handles -/

inductive PCall where
  /-- `amgcl_params_create` -/
  | create
  | write (h : Nat) (w : PWrite)
  /-- `amgcl_params_destroy` -/
  | destroy (h : Nat)
deriving Inhabited

/-- content of every parameter handle created so far (`none` = destroyed), in creation order -/
abbrev PState := List (Option PTree)

/-- `none` = the call names a handle that was never returned or is destroyed (undefined behaviour in C) -/
def PCall.step (st : PState) : PCall → Option PState
  | .create => some (st ++ [some PTree.empty])
  | .write h w =>
    match st[h]? with
    | some (some t) => some (st.set h (some (w.apply t)))
    | _ => none
  | .destroy h =>
    match st[h]? with
    | some (some _) => some (st.set h none)
    | _ => none

def runCalls (st : PState) : List PCall → Option PState
  | [] => some st
  | c :: cs => match c.step st with
    | some st' => runCalls st' cs
    | none => none

/-! ## stored text of a `float` -/

def stripTrailingZeros (s : List Char) : List Char := (s.reverse.dropWhile (· == '0')).reverse

def padLeft (k : Nat) (s : List Char) : List Char := List.replicate (k - s.length) '0' ++ s

/-- text stored by `put(name, float)` for `q = m / 2^k`, `k ≤ 6`, `|m| < 2^15`; `none` outside that range -/
def floatText (q : Rat) : Option String :=
  if 64 % q.den ≠ 0 then none
  else if q.num.natAbs ≥ 32768 then none
  else
    let k := Nat.log2 q.den
    let N := q.num.natAbs * 5 ^ k
    let ip := N / 10 ^ k
    let fp := N % 10 ^ k
    let fs := stripTrailingZeros (padLeft k (toString fp).toList)
    let sign := if q.num < 0 then "-" else ""
    some (sign ++ toString ip ++ (if fs.isEmpty then "" else "." ++ String.ofList fs))

/-! ## canonical text of a tree (preorder): node = `=<data> <#children> (<key> node)*` -/

mutual
def dump : PTree → List String
  | .node d ks => ("=" ++ d) :: toString ks.length :: dumpKids ks
def dumpKids : List (String × PTree) → List String
  | [] => []
  | (k, c) :: rest => k :: (dump c ++ dumpKids rest)
end

end Amgcl.CApi
