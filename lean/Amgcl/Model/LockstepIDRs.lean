import Amgcl.Model.Lockstep
import Amgcl.Model.SolverIDRs
/-!
# `amgcl::solver::idrs` — constructor and `operator()` as programs over the solver instruction set (C12) — core Lean only

The statements of solver/idrs.hpp:205-216 (the orthonormalisation of the shadow space in the constructor) and
solver/idrs.hpp:249-405 (`operator()`) in the instruction set of `Model/Lockstep.lean`.

* **The shadow space.**  Every rank fills its part of `P[0..s)` from `std::mt19937 rng(pid * nt + tid)` with
  `pid = inner_product.rank()` (idrs.hpp:187-198; `mpi::inner_product::rank()` is `comm.rank`, the serial default
  inner product returns 0).  So the random numbers a rank draws depend on the rank number, and the ASSEMBLED raw
  vectors are not the vectors a serial run would draw — but they are SOME `s` vectors of the global length, and as in
  the serial model (`Model/SolverIDRs.lean`: `raw` is an input) they are an input of the program: the registers
  `vP i` hold the raw vectors on entry of `ctorProg`, which orthonormalises them with GLOBAL inner products
  (`Solver.IDRs.makeP`), and they are read-only inputs of `prog`.  The lockstep theorem then says: the distributed run
  is the serial run whose shadow space is the concatenation of the ranks' parts.
* The scalar state `S` of a rank holds the scalar locals, the loop variables, the flags `brk` / `kbrk` (the two
  `break`s), `err` (a `precondition` threw) and the rank's OWN copy of the small dense members `M` (`s × s`), `f`,
  `c` (idrs.hpp:452-454).  The entries `f[i] = inner_product(*r, *P[i])`, `M(i, k) = inner_product(*G[k], *P[i])`
  are `ip` instructions (globally reduced); the lower-triangular solve for `c[k..s)` and the update of `f` are
  rank-local `sset`s on replicated scalars.
* `G[i]`, `U[i]`, `P[i]` are registers selected by the rank's own `k`, `i`.
-/
namespace Amgcl.Lockstep.IDRs
open Amgcl Amgcl.Solver Amgcl.Lockstep

-- vector registers
def vF  : Nat := 0   -- rhs
def vX  : Nat := 1   -- x
def vRr : Nat := 2   -- *r
def vV  : Nat := 3   -- *v
def vT  : Nat := 4   -- *t
def vXs : Nat := 5   -- *x_s
def vRs : Nat := 6   -- *r_s
/-- `*G[i]` -/
def vG (i : Nat) : Nat := 7 + 3 * i
/-- `*U[i]` -/
def vU (i : Nat) : Nat := 8 + 3 * i
/-- `*P[i]` -/
def vP (i : Nat) : Nat := 9 + 3 * i

/-- the scalar locals of the constructor / `operator()` / `omega()`, the flags, and the members `M, f, c` -/
structure S (K : Type) where
  iter    : Nat
  k       : Nat
  i       : Nat
  j       : Nat
  resNorm : K      -- res_norm
  om      : K
  alpha   : K
  beta    : K
  gamma   : K
  tmp     : K      -- the first inner product of `gamma`; `norm_pj` in the constructor
  normT   : K      -- norm_t  (omega())
  normS   : K      -- norm_s
  ts      : K
  nrhs    : K      -- norm_rhs
  epsT    : K      -- eps
  out     : K      -- the returned residual
  brk     : Bool   -- a `break` left the `while`
  kbrk    : Bool   -- the `break` of line 357 left the `for k`
  err     : Option Err
  M       : FArr2 K
  f       : FArr K
  c       : FArr K

variable {K : Type} [Add K] [Mul K] [Sub K] [Neg K] [Zero K] [One K] [Div K] [DecidableEq K] [LT K] [DecidableLT K]

/-! ## the constructor -/

/-- idrs.hpp:205-216: (modified) Gram–Schmidt on the raw random vectors held in the registers `vP i` -/
def ctorProg (s : Nat) (sqrt : K → K) : Prog K (S K) :=
  .forN (fun _ => s) (fun e j => { e with j := j }) (seqs [                        -- for(j = 0; j < s; ++j)
    .forN (fun e => e.j) (fun e k => { e with k := k }) (seqs [                    --   for(k = 0; k < j; ++k)
      .prim (.ip (fun e w => { e with alpha := w }) (fun e => vP e.k) (fun e => vP e.j)),   -- alpha = inner_product(*P[k], *P[j])
      .prim (.axpby (fun e => -e.alpha) (fun e => vP e.k) (fun _ => 1) (fun e => vP e.j))]),   -- axpby(-alpha, *P[k], one, *P[j])
    .prim (.ip (fun e w => { e with tmp := Solver.absK (sqrt w) }) (fun e => vP e.j) (fun e => vP e.j)),   -- norm_pj = norm(*P[j])
    .prim (.axpby (fun e => inv1 e.tmp) (fun e => vP e.j) (fun _ => 0) (fun e => vP e.j))])   -- axpby(inverse(norm_pj), *P[j], zero, *P[j])

/-! ## `operator()` -/

/-- `res_norm = norm(v)`: `std::abs(sqrt(inner_product(v, v)))` -/
def resNormOf (sqrt : K → K) (v : Nat) : Prog K (S K) :=
  .prim (.ip (fun e w => { e with resNorm := Solver.absK (sqrt w) }) (R v) (R v))

/-- idrs.hpp:348-354 / 389-395, the smoothing block -/
def smoothProg (sqrt : K → K) : Prog K (S K) := seqs [
  .prim (.axpbypcz (fun _ => 1) (R vRs) (fun _ => -1) (R vRr) (fun _ => 0) (R vT)),   -- axpbypcz(one, *r_s, -one, *r, zero, *t)
  .prim (.ip (fun e w => { e with tmp := w }) (R vRs) (R vT)),                     -- gamma = inner_product(*r_s, *t)
  .prim (.ip (fun e w => { e with gamma := e.tmp / w }) (R vT) (R vT)),            --         / inner_product(*t, *t)
  .prim (.axpby (fun e => -e.gamma) (R vT) (fun _ => 1) (R vRs)),                  -- axpby(-gamma, *t, one, *r_s)
  .prim (.axpbypcz (fun e => -e.gamma) (R vXs) (fun e => e.gamma) (R vX) (fun _ => 1) (R vXs)),   -- axpbypcz(-gamma, *x_s, gamma, x, one, *x_s)
  resNormOf sqrt vRs]                                                             -- res_norm = norm(*r_s)

/-- idrs.hpp:301-305 on the rank's own scalars: `c[i] = f[i]; for(j = k; j < i; ++j) c[i] -= M(i,j) * c[j];
c[i] = math::inverse(M(i,i)) * c[i];` -/
def solveCi (e : S K) : S K :=
  let c0 := setF e.c e.i (e.f e.i)
  let c1 := ((List.range e.i).drop e.k).foldl (fun c j => setF c e.i (c e.i - e.M e.i j * c j)) c0
  { e with c := setF c1 e.i (inv1 (e.M e.i e.i) * c1 e.i) }

/-- idrs.hpp:360-361 on the rank's own scalars: `for(i = k+1; i < s; ++i) f[i] -= beta * M(i,k);` -/
def updF (s : Nat) (e : S K) : FArr K :=
  ((List.range s).drop (e.k + 1)).foldl (fun f i => setF f i (f i - e.beta * e.M i e.k)) e.f

/-- idrs.hpp:295-362, one pass `k` of the `for` loop (with its `++k`) -/
def kStepProg (prm : Solver.IDRs.Params K) (sqrt : K → K) : Prog K (S K) := seqs [
  .prim (.copy (R vRr) (R vV)),                                                   -- copy(*r, *v)
  .forN (fun e => prm.s - e.k) (fun e t => { e with i := e.k + t }) (seqs [        -- for(i = k; i < s; ++i)
    .prim (.sset solveCi),                                                        --   c[i] = … (small triangular system)
    .prim (.axpby (fun e => -(e.c e.i)) (fun e => vG e.i) (fun _ => 1) (R vV))]),  --   axpby(-c[i], *G[i], one, *v)
  .prim (.precond (R vV) (R vT)),                                                 -- Prec.apply(*v, *t)
  .prim (.axpby (fun e => e.om) (R vT) (fun e => e.c e.k) (fun e => vU e.k)),      -- axpby(om, *t, c[k], *U[k])
  .forN (fun e => prm.s - (e.k + 1)) (fun e t => { e with i := e.k + 1 + t })      -- for(i = k+1; i < s; ++i)
    (.prim (.axpby (fun e => e.c e.i) (fun e => vU e.i) (fun _ => 1) (fun e => vU e.k))),   -- axpby(c[i], *U[i], one, *U[k])
  .prim (.spmv (fun _ => 1) (fun e => vU e.k) (fun _ => 0) (fun e => vG e.k)),     -- spmv(one, A, *U[k], zero, *G[k])
  .forN (fun e => e.k) (fun e i => { e with i := i }) (seqs [                      -- for(i = 0; i < k; ++i)
    .prim (.ip (fun e w => { e with alpha := w / e.M e.i e.i }) (fun e => vG e.k) (fun e => vP e.i)),   -- alpha = inner_product(*G[k], *P[i]) / M(i,i)
    .prim (.axpby (fun e => -e.alpha) (fun e => vG e.i) (fun _ => 1) (fun e => vG e.k)),   -- axpby(-alpha, *G[i], one, *G[k])
    .prim (.axpby (fun e => -e.alpha) (fun e => vU e.i) (fun _ => 1) (fun e => vU e.k))]),  -- axpby(-alpha, *U[i], one, *U[k])
  .forN (fun e => prm.s - e.k) (fun e t => { e with i := e.k + t })                -- for(i = k; i < s; ++i)
    (.prim (.ip (fun e w => { e with M := setF2 e.M e.i e.k w }) (fun e => vG e.k) (fun e => vP e.i))),   -- M(i,k) = inner_product(*G[k], *P[i])
  .ite (fun e => decide (e.M e.k e.k = 0))
    (.prim (.sset (fun e => { e with err := some .zeroPivot })))                  -- precondition(!is_zero(M(k,k)))
    (seqs [
      .prim (.sset (fun e => { e with beta := inv1 (e.M e.k e.k) * e.f e.k })),    -- beta = inverse(M(k,k)) * f[k]
      .prim (.axpby (fun e => -e.beta) (fun e => vG e.k) (fun _ => 1) (R vRr)),    -- axpby(-beta, *G[k], one, *r)
      .prim (.axpby (fun e => e.beta) (fun e => vU e.k) (fun _ => 1) (R vX)),      -- axpby( beta, *U[k], one,  x)
      resNormOf sqrt vRr,                                                         -- res_norm = norm(*r)
      (if prm.smoothing then smoothProg sqrt else .skip),                         -- if (prm.smoothing) { … }
      .ite (fun e => !decide (e.epsT < e.resNorm))                                -- if (res_norm <= eps || ++iter >= maxiter) break;
        (.prim (.sset (fun e => { e with kbrk := true })))
        (seqs [
          .prim (.sset (fun e => { e with iter := e.iter + 1 })),
          .ite (fun e => decide (prm.maxiter ≤ e.iter))
            (.prim (.sset (fun e => { e with kbrk := true })))
            (.prim (.sset (fun e => { e with f := updF prm.s e, k := e.k + 1 })))])])]   -- f[i] -= beta * M(i,k);  ++k

/-- idrs.hpp:474-489, `om = omega(*t, *r)` -/
def omegaProg (omega : K) (sqrt : K → K) : Prog K (S K) := seqs [
  .prim (.ip (fun e w => { e with normT := Solver.absK (sqrt w) }) (R vT) (R vT)),     -- norm_t = norm(t)
  .prim (.ip (fun e w => { e with normS := Solver.absK (sqrt w) }) (R vRr) (R vRr)),   -- norm_s = norm(s)
  .prim (.ip (fun e w => { e with ts := w }) (R vRr) (R vT)),                      -- ts = inner_product(s, t)
  .prim (.sset (fun e =>
    let rho := Solver.absK (e.ts / (e.normT * e.normS))                           -- rho = math::norm(ts / (norm_t * norm_s))
    let om := e.ts / (e.normT * e.normT)                                          -- om = ts / (norm_t * norm_t)
    { e with om := if rho < omega then om * (omega / rho) else om }))]            -- if (rho < prm.omega) om *= prm.omega/rho

/-- idrs.hpp:369-397: the step into the next `G`-space -/
def omStepProg (prm : Solver.IDRs.Params K) (sqrt : K → K) : Prog K (S K) := seqs [
  .prim (.precond (R vRr) (R vV)),                                                -- Prec.apply(*r, *v)
  .prim (.spmv (fun _ => 1) (R vV) (fun _ => 0) (R vT)),                           -- spmv(one, A, *v, zero, *t)
  omegaProg prm.omega sqrt,                                                       -- om = omega(*t, *r)
  .ite (fun e => decide (e.om = 0))
    (.prim (.sset (fun e => { e with err := some .zeroOmega })))                  -- precondition(!is_zero(om))
    (seqs [
      .prim (.axpby (fun e => -e.om) (R vT) (fun _ => 1) (R vRr)),                 -- axpby(-om, *t, one, *r)
      .prim (.axpby (fun e => e.om) (R vV) (fun _ => 1) (R vX)),                   -- axpby( om, *v, one,  x)
      (if prm.replacement then .prim (.residual (R vF) (R vX) (R vRr)) else .skip),   -- if (prm.replacement) residual(rhs, A, x, *r)
      resNormOf sqrt vRr,                                                         -- res_norm = norm(*r)
      (if prm.smoothing then smoothProg sqrt else .skip),
      .prim (.sset (fun e => { e with iter := e.iter + 1 }))])]                   -- ++iter

/-- idrs.hpp:289-398, one pass of the `while` body -/
def bodyProg (prm : Solver.IDRs.Params K) (sqrt : K → K) : Prog K (S K) := seqs [
  .forN (fun _ => prm.s) (fun e i => { e with i := i })                            -- for(i = 0; i < s; ++i)
    (.prim (.ip (fun e w => { e with f := setF e.f e.i w }) (R vRr) (fun e => vP e.i))),   -- f[i] = inner_product(*r, *P[i])
  .prim (.sset (fun e => { e with k := 0, kbrk := false })),
  .loop prm.s (fun e => e.err.isNone && !e.kbrk && decide (e.k < prm.s))           -- for(k = 0; k < s; ++k)
    (kStepProg prm sqrt),
  .ite (fun e => e.err.isNone)
    (.ite (fun e => !decide (e.epsT < e.resNorm) || decide (prm.maxiter ≤ e.iter))   -- if (res_norm <= eps || iter >= maxiter) break;
      (.prim (.sset (fun e => { e with brk := true })))
      (omStepProg prm sqrt))
    .skip]

/-- idrs.hpp:271-285: the statements before the loop -/
def initProg (prm : Solver.IDRs.Params K) : Prog K (S K) := seqs [
  (if prm.smoothing then seqs [.prim (.copy (R vX) (R vXs)),                       -- copy(x, *x_s)
                               .prim (.copy (R vRr) (R vRs))]                      -- copy(*r, *r_s)
   else .skip),
  .prim (.sset (fun e => { e with om := 1 })),                                     -- om = identity
  .forN (fun _ => prm.s) (fun e i => { e with i := i }) (seqs [                    -- for(i = 0; i < s; ++i)
    .prim (.clear (fun e => vG e.i)),                                             --   clear(*G[i])
    .prim (.clear (fun e => vU e.i)),                                             --   clear(*U[i])
    .forN (fun _ => prm.s) (fun e j => { e with j := j })                          --   for(j = 0; j < s; ++j)
      (.prim (.sset (fun e => { e with M := setF2 e.M e.i e.j (if e.i = e.j then 1 else 0) })))]),   -- M(i,j) = (i == j)
  .prim (.sset (fun e => { e with iter := 0, brk := false }))]

/-- idrs.hpp:400-403 (not reached when a `precondition` threw) -/
def postProg (prm : Solver.IDRs.Params K) : Prog K (S K) :=
  .ite (fun e => e.err.isNone)
    (seqs [
      (if prm.smoothing then .prim (.copy (R vXs) (R vX)) else .skip),            -- if (prm.smoothing) copy(*x_s, x)
      .prim (.sset (fun e => { e with out := e.resNorm / e.nrhs }))])             -- return (iter, res_norm / norm_rhs)
    .skip

/-- idrs.hpp:258-403 after the prologue -/
def mainProg (prm : Solver.IDRs.Params K) (sqrt : K → K) : Prog K (S K) := seqs [
  .prim (.sset (fun e => { e with epsT := Solver.maxK (prm.tol * e.nrhs) prm.abstol })),   -- eps = max(tol * norm_rhs, abstol)
  .prim (.residual (R vF) (R vX) (R vRr)),                                        -- residual(rhs, A, x, *r)
  resNormOf sqrt vRr,                                                             -- res_norm = norm(*r)
  .ite (fun e => !decide (e.epsT < e.resNorm))                                    -- if (res_norm <= eps)
    (.prim (.sset (fun e => { e with iter := 0, out := e.resNorm / e.nrhs })))    --   return (0, res_norm / norm_rhs)
    (seqs [
      initProg prm,
      .loop prm.maxiter                                                           -- while(iter < maxiter && res_norm > eps)
        (fun e => e.err.isNone && !e.brk && decide (e.iter < prm.maxiter) && decide (e.epsT < e.resNorm))
        (bodyProg prm sqrt),
      postProg prm])]

/-- the whole `operator()` -/
def prog (prm : Solver.IDRs.Params K) (sqrt : K → K) (eps : K) : Prog K (S K) :=
  .seq (.prim (.ip (fun e w => { e with nrhs := Solver.absK (sqrt w) }) (R vF) (R vF)))   -- norm_rhs = norm(rhs)
    (.ite (fun e => decide (e.nrhs < eps))
      (if prm.nsSearch then .seq (.prim (.sset (fun e => { e with nrhs := 1 }))) (mainProg prm sqrt)   -- norm_rhs = 1
       else seqs [.prim (.clear (R vX)),                                          -- clear(x); return (0, norm_rhs)
                  .prim (.sset (fun e => { e with iter := 0, out := e.nrhs }))])
      (mainProg prm sqrt))

/-- the constructor followed by one call (what `make_solver` + `operator()` execute on a fresh object) -/
def ctorThenSolve (prm : Solver.IDRs.Params K) (sqrt : K → K) (eps : K) : Prog K (S K) :=
  .seq (ctorProg prm.s sqrt) (prog prm sqrt eps)

/-- the scalar state on entry: the dense members are those of the solver object -/
def S.init (ws : Solver.IDRs.Work K) : S K :=
  ⟨0, 0, 0, 0, 0, 0, 0, 0, 0, 0, 0, 0, 0, 0, 0, 0, false, false, none, ws.M, ws.f, ws.c⟩

/-- the program state of a call on a solver with shadow space `Pv` and work space `ws` -/
def initState (Pv : FArr (Vec K)) (ws : Solver.IDRs.Work K) (f x0 : Vec K) : St K (S K) :=
  { vec := fun v => if v = vF then f else if v = vX then x0 else if v = vRr then ws.r else if v = vV then ws.v
                    else if v = vT then ws.t else if v = vXs then ws.xs else if v = vRs then ws.rs
                    else if v % 3 = 1 then ws.G ((v - 7) / 3) else if v % 3 = 2 then ws.U ((v - 8) / 3)
                    else Pv ((v - 9) / 3),
    scal := S.init ws }

/-- what `operator()` returns (or throws), read off a rank's scalars -/
def outOf (e : S K) : Except Err (Nat × K) :=
  match e.err with
  | none => .ok (e.iter, e.out)
  | some x => .error x

/-- the work space in a program state -/
def workOf (s : St K (S K)) : Solver.IDRs.Work K :=
  ⟨s.scal.M, s.scal.f, s.scal.c, s.vec vRr, s.vec vV, s.vec vT, s.vec vXs, s.vec vRs,
   ⟨fun i => s.vec (vG i)⟩, ⟨fun i => s.vec (vU i)⟩⟩

/-- the shadow space in a program state -/
def shadowOf (s : St K (S K)) : FArr (Vec K) := ⟨fun i => s.vec (vP i)⟩

end Amgcl.Lockstep.IDRs
