import Amgcl.Model.Basic
/-!
# Definedness semantics for the allocation sites anchored by C10

A freshly allocated array cell is `none` (`new T[n]` without initialisation); a read of `none` is a dependence on
prior heap contents.  Modelled here: the strength-of-connection pass of `ruge_stuben::connect`
(coarsening/ruge_stuben.hpp:279-302), which allocates `S.val = new char[nnz]` and then reads every cell in the
transposition loop.  (`backend::diagonal`'s uninitialised vector is `Amgcl.diagonal` in Model/Kernels.lean; the
products/sums allocate exactly the cells they write: `saad_widths_consistent`, `sum_widths_consistent`,
`rmerge_widths_consistent`.)
-/
namespace Amgcl
namespace Defined

variable {K : Type} [Mul K] [Neg K] [Zero K] [LT K] [DecidableLT K]

def absK' (x : K) : K := if x < 0 then -x else x
def minK (a b : K) : K := if b < a then b else a

/-- first loop of `connect` for one row: `none` cells are the ones the code does not write.
`fixed = false` is the code before the repair 886ffa9 (rows classified `F` were skipped), `fixed = true` after. -/
def connectRow (fixed : Bool) (epsStrong eps : K) (i : Nat) (row : Row K) : Bool × List (Option Bool) :=
  let aMin := row.foldl (fun m cv => if cv.1 ≠ i then minK m cv.2 else m) (0 : K)
  if absK' aMin < eps then
    (true, row.map (fun _ => if fixed then some false else none))          -- cf[i] = 'F'
  else
    let thr := aMin * epsStrong
    (false, row.map (fun cv => some (decide (cv.1 ≠ i) && decide (cv.2 < thr))))

/-- the strength flags after the first loop, row by row -/
def connectVals (fixed : Bool) (epsStrong eps : K) (A : CRS K) : List (List (Option Bool)) :=
  (List.range A.nrows).map (fun i => (connectRow fixed epsStrong eps i (A.row i)).2)

/-- the transposition loop reads every cell: `true` iff no read hits an unwritten cell -/
def connectReadsDefined (fixed : Bool) (epsStrong eps : K) (A : CRS K) : Bool :=
  (connectVals fixed epsStrong eps A).all (fun r => r.all (·.isSome))

end Defined
end Amgcl
