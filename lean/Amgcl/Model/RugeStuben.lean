import Amgcl.Model.PlainAggregates
import Amgcl.Model.PointwiseMatrix
import Amgcl.Model.Kernels
/-!
# `coarsening::ruge_stuben` (coarsening/ruge_stuben.hpp), modelled loop by loop

`transfer_operators(A)` (l.104-249) =

1. `connect(A, eps_strong, S, cf)` (l.266-319): per row the most negative off-diagonal value `a_min`
   (`std::min` fold from zero); rows with `|a_min| < eps` become `'F'` and get an all-false strength row (repair
   886ffa9), the others flag `col != i && a_ij < a_min * eps_strong`.  Then the *counting transposition* of the flag
   matrix: `++S.ptr[col+1]` per flagged entry, `scan_row_sizes` (partial sum), allocation of `S.col` (uninitialised:
   the initial contents are the model parameter `g.scol`), fill with `S.col[S.ptr[col]++] = i`, and the
   `std::rotate` + `S.ptr[0] = 0` that turns the advanced pointers back into row starts.
2. `cfsplit(A, S, cf)` (l.322-440): `lambda[i] = Σ_{j ∈ Sᵀ row i} (cf[j]=='U' ? 1 : 2)`, the bucket structure
   `ptr / cnt / i2n / n2i` (counting sort by `lambda`), and the main loop over `top = n-1 … 0` with its early
   `break` (`lambda == 0` → every `'U'` becomes `'C'`), the `U → C` / `U → F` transitions, and both
   lambda-update loops with their swaps, literally.
3. the interpolation (l.126-246): `cidx` numbering, `empty_level`, the counting pass (row widths of `P`, `Amin`,
   `Amax` with truncation), and the fill pass (`a_num, a_den, b_num, b_den, d_neg, d_pos`, `cf_neg`, `cf_pos`, the
   `dia += b_num` correction, `alpha`, `beta`, the truncation filter).  `P->col / P->val` are allocated by
   `set_nonzeros` (uninitialised: model parameter `g.pent`): row `i` of the result is the first `width i` cells of
   "entries written by the fill pass, then garbage" — `RS.interp_width_consistent` proves the two passes agree.
4. `R = transpose(*P)`, `coarse_operator = detail::galerkin(A, P, R)` — the C08 / C03 kernels.

`std::vector`s (`cf, lambda, ptr, cnt, i2n, n2i, cidx, Amin, Amax`) are value-initialised by the code and by the
model; arrays obtained with `new T[n]` / `set_nonzeros` (`S.ptr`, `S.val`, `S.col`, `P.col/val`) start from the
explicit garbage argument `g`.  Index arithmetic is in `Nat` (the C++ types are `ptrdiff_t`; they differ only when a
counter would go negative, which is an out-of-bounds access in the C++ code as well); reads outside an array return a
default and writes outside are dropped (`getD` / `setIfInBounds`), the theorems prove the indices are in range.

Machine constant `eps = 2·ε` (`amgcl::detail::eps<Scalar>(1)`) and the `float` parameters enter as exact values.
-/
namespace Amgcl
namespace RS
open Amgcl.Coarsening (stdMin stdMax)

/-- the `char` marks of `cf` -/
inductive CF where
  | U | C | F
  deriving DecidableEq, Repr, Inhabited

/-- initial contents of the arrays the code allocates without initialising them -/
structure Garbage (K : Type) where
  /-- `S.ptr = new Ptr[n+1]` -/
  sptr : Nat → Nat
  /-- `S.val = new char[nnz]`, row-wise: cell `k` of row `i` -/
  sval : Nat → Nat → Bool
  /-- `S.col = new Col[S.ptr[n]]` -/
  scol : Nat → Nat
  /-- `P->col / P->val` after `set_nonzeros`: cell `k` of row `i` -/
  pent : Nat → Nat → Nat × K

/-- strength matrix as `connect` leaves it: `val` piggybacks the pattern of `A` (row-wise), `ptr/col` hold the
transposed pattern -/
structure Strength where
  val : Array (List Bool)
  ptr : Array Nat
  col : Array Nat
  deriving Repr, DecidableEq

/-! ## connect -/
section connect
variable {K : Type} [Mul K] [Zero K] [LT K] [DecidableLT K]

/-- l.288-291: `a_min = min(a_min, a.value())` over the off-diagonal entries, starting from zero -/
def aMin (i : Nat) (r : Row K) : K := r.foldl (fun m cv => if cv.1 ≠ i then stdMin m cv.2 else m) 0

/-- l.285-304 for one row: `(row becomes 'F', the flags written to S.val)` -/
def connectRow (norm : K → K) (epsStrong eps : K) (i : Nat) (r : Row K) : Bool × List Bool :=
  let am := aMin i r
  if norm am < eps then (true, r.map fun _ => false)
  else
    let thr := am * epsStrong
    (false, r.map fun cv => decide (cv.1 ≠ i) && decide (cv.2 < thr))

/-- first loop of `connect` (l.284-304); state `(S.ptr, S.val, cf)` -/
def connectLoop1 (norm : K → K) (epsStrong eps : K) (A : CRS K)
    (st : Array Nat × Array (List Bool) × Array CF) : Array Nat × Array (List Bool) × Array CF :=
  (List.range A.nrows).foldl (fun st i =>
    let r := connectRow norm epsStrong eps i (A.row i)
    (st.1.setIfInBounds (i + 1) 0, st.2.1.setIfInBounds i r.2,
      if r.1 then st.2.2.setIfInBounds i CF.F else st.2.2)) st

end connect

/-- the rows of `A` (columns only) zipped with the flag rows: what the transposition and `cfsplit` see of `A` -/
abbrev flagGraph {K : Type} (A : CRS K) (sval : Array (List Bool)) : SGraph := zipGraph A sval

/-- l.307-308: `if (S.val[i]) ++S.ptr[A.col[i] + 1]` over all stored entries -/
def transCount (G : SGraph) (ptr : Array Nat) : Array Nat :=
  (List.range G.size).foldl (fun ptr i =>
    (G.row i).foldl (fun ptr cs => if cs.2 then ptr.modify (cs.1 + 1) (· + 1) else ptr) ptr) ptr

/-- `std::partial_sum(a.begin(), a.end(), a.begin())` on naturals -/
def partialSumNat (a : Array Nat) : Array Nat :=
  (a.foldl (fun (acc : Array Nat × Nat) v => (acc.1.push (acc.2 + v), acc.2 + v)) (#[], 0)).1

/-- l.313-315: `if (S.val[j]) S.col[ S.ptr[A.col[j]]++ ] = i`; state `(S.ptr, S.col)` -/
def transFill (G : SGraph) (st : Array Nat × Array Nat) : Array Nat × Array Nat :=
  (List.range G.size).foldl (fun st i =>
    (G.row i).foldl (fun st cs =>
      if cs.2 then
        let p := st.1.getD cs.1 0
        (st.1.modify cs.1 (· + 1), st.2.setIfInBounds p i)
      else st) st) st

/-- l.317-318: `std::rotate(S.ptr, S.ptr + n, S.ptr + n + 1); S.ptr[0] = 0` -/
def rotatePtr (n : Nat) (ptr : Array Nat) : Array Nat :=
  ((#[ptr.getD n 0] ++ ptr.extract 0 n).setIfInBounds 0 0)

/-- l.306-318: the transposition of the flag matrix, given the zeroed `S.ptr` -/
def transposeFlags (gcol : Nat → Nat) (G : SGraph) (ptr0 : Array Nat) : Array Nat × Array Nat :=
  let n := G.size
  let ptr1 := partialSumNat (transCount G ptr0)
  let col0 : Array Nat := Array.ofFn (n := ptr1.getD n 0) fun j => gcol j.val
  let st := transFill G (ptr1, col0)
  (rotatePtr n st.1, st.2)

section connect
variable {K : Type} [Mul K] [Zero K] [LT K] [DecidableLT K]

/-- `connect(A, eps_strong, S, cf)`: returns `S` and `cf` (`cf` enters as all `'U'`, l.118) -/
def connect (g : Garbage K) (norm : K → K) (epsStrong eps : K) (A : CRS K) : Strength × Array CF :=
  let n := A.nrows
  let ptr0 : Array Nat := (Array.ofFn (n := n + 1) fun j => g.sptr j.val).setIfInBounds 0 0
  let val0 : Array (List Bool) := Array.ofFn (n := n) fun i => (List.range (A.row i.val).length).map (g.sval i.val)
  let l1 := connectLoop1 norm epsStrong eps A (ptr0, val0, Array.replicate n CF.U)
  let tr := transposeFlags g.scol (flagGraph A l1.2.1) l1.1
  ({ val := l1.2.1, ptr := tr.1, col := tr.2 }, l1.2.2)

end connect

/-! ## cfsplit -/

/-- row `i` of the transposed strength pattern: `S.col[j]` for `j = S.ptr[i] … S.ptr[i+1]-1` -/
def spRow (ptr col : Array Nat) (i : Nat) : List Nat :=
  (List.range' (ptr.getD i 0) (ptr.getD (i + 1) 0 - ptr.getD i 0)).map fun j => col.getD j 0

/-- l.334-339 -/
def lambdaInit (ptr col : Array Nat) (cf : Array CF) (n : Nat) : Array Nat :=
  Array.ofFn (n := n) fun i =>
    (spRow ptr col i.val).foldl (fun t c => t + if cf.getD c CF.U = CF.U then 1 else 2) 0

/-- mutable state of `cfsplit` -/
structure Split where
  cf     : Array CF
  lambda : Array Nat
  ptr    : Array Nat
  cnt    : Array Nat
  i2n    : Array Nat
  n2i    : Array Nat
  deriving Repr, DecidableEq

/-- l.346-360: the groups of equal lambda (counting sort) -/
def bucketInit (cf : Array CF) (lambda : Array Nat) : Split :=
  let n := lambda.size
  let ptr0 := (List.range n).foldl (fun (p : Array Nat) i => p.modify (lambda.getD i 0 + 1) (· + 1))
    (Array.replicate (n + 1) 0)
  let ptr := partialSumNat ptr0
  let st := (List.range n).foldl (fun (st : Array Nat × Array Nat × Array Nat) i =>
      let lam := lambda.getD i 0
      let idx := ptr.getD lam 0 + st.1.getD lam 0
      (st.1.modify lam (· + 1), st.2.1.setIfInBounds idx i, st.2.2.setIfInBounds i idx))
    (Array.replicate n 0, Array.replicate n 0, Array.replicate n 0)
  { cf := cf, lambda := lambda, ptr := ptr, cnt := st.1, i2n := st.2.1, n2i := st.2.2 }

/-- the three statements `n2i[i2n[old]] = new; n2i[i2n[new]] = old; std::swap(i2n[old], i2n[new])` -/
def swapPos (s : Split) (oldPos newPos : Nat) : Split :=
  let n2i1 := s.n2i.setIfInBounds (s.i2n.getD oldPos 0) newPos
  let n2i2 := n2i1.setIfInBounds (s.i2n.getD newPos 0) oldPos
  let a := s.i2n.getD oldPos 0
  let b := s.i2n.getD newPos 0
  { s with n2i := n2i2, i2n := (s.i2n.setIfInBounds oldPos b).setIfInBounds newPos a }

/-- l.392-414, body for one stored entry `(ac, flag)` of the row of a newly created F variable -/
def incLambda (n : Nat) (s : Split) (cs : Nat × Bool) : Split :=
  if !cs.2 then s else
  let ac := cs.1
  let lamA := s.lambda.getD ac 0
  if s.cf.getD ac CF.U ≠ CF.U ∨ lamA + 1 ≥ n then s else
  let oldPos := s.n2i.getD ac 0
  let newPos := s.ptr.getD lamA 0 + s.cnt.getD lamA 0 - 1
  let s := swapPos s oldPos newPos
  let cnt := (s.cnt.modify lamA (· - 1)).modify (lamA + 1) (· + 1)
  { s with cnt := cnt,
           ptr := s.ptr.setIfInBounds (lamA + 1) (s.ptr.getD lamA 0 + cnt.getD lamA 0),
           lambda := s.lambda.setIfInBounds ac (lamA + 1) }

/-- l.384-415, body for one `c = S.col[j]` of the transposed row of the new C variable -/
def makeF (G : SGraph) (s : Split) (c : Nat) : Split :=
  if s.cf.getD c CF.U ≠ CF.U then s else
  (G.row c).foldl (incLambda G.size) { s with cf := s.cf.setIfInBounds c CF.F }

/-- l.418-438, body for one stored entry `(c, flag)` of the row of the new C variable -/
def decLambda (s : Split) (cs : Nat × Bool) : Split :=
  if !cs.2 then s else
  let c := cs.1
  let lam := s.lambda.getD c 0
  if s.cf.getD c CF.U ≠ CF.U ∨ lam = 0 then s else
  let oldPos := s.n2i.getD c 0
  let newPos := s.ptr.getD lam 0
  let s := swapPos s oldPos newPos
  { s with cnt := (s.cnt.modify lam (· - 1)).modify (lam - 1) (· + 1),
           ptr := s.ptr.modify lam (· + 1),
           lambda := s.lambda.setIfInBounds c (lam - 1) }

/-- one iteration of the main loop l.366-439 for position `top`; the flag is `true` after the `break` -/
def splitStep (G : SGraph) (sptr scol : Array Nat) (st : Split × Bool) (top : Nat) : Split × Bool :=
  if st.2 then st else
  let s := st.1
  let i := s.i2n.getD top 0
  let lam := s.lambda.getD i 0
  if lam = 0 then
    ({ s with cf := s.cf.map fun m => if m = CF.U then CF.C else m }, true)      -- std::replace + break
  else
    let s := { s with cnt := s.cnt.modify lam (· - 1) }
    if s.cf.getD i CF.U = CF.F then (s, false) else
    let s := { s with cf := s.cf.setIfInBounds i CF.C }
    let s := (spRow sptr scol i).foldl (makeF G) s
    ((G.row i).foldl decLambda s, false)

/-- `cfsplit(A, S, cf)` on the pattern of `A` zipped with `S.val` (`G`) and the transposed pattern `(sptr, scol)` -/
def cfsplitState (G : SGraph) (sptr scol : Array Nat) (cf : Array CF) : Split × Bool :=
  let n := G.size
  let s0 := bucketInit cf (lambdaInit sptr scol cf n)
  ((List.range n).reverse).foldl (splitStep G sptr scol) (s0, false)

def cfsplit (G : SGraph) (sptr scol : Array Nat) (cf : Array CF) : Array CF :=
  (cfsplitState G sptr scol cf).1.cf

/-! ## interpolation -/

/-- l.127-130: `cidx[i] = nc++` on C points; returns `(nc, cidx)` (`std::vector<ptrdiff_t> cidx(n)`: zeros) -/
def cidxOf (cf : Array CF) : Nat × Array Nat :=
  (List.range cf.size).foldl (fun (st : Nat × Array Nat) i =>
    if cf.getD i CF.U = CF.C then (st.1 + 1, st.2.setIfInBounds i st.1) else st) (0, Array.replicate cf.size 0)

section interp
variable {K : Type} [Add K] [Sub K] [Neg K] [Mul K] [Div K] [Zero K] [One K]
  [LT K] [DecidableLT K] [LE K] [DecidableLE K]

/-- `S.val[j] && cf[A.col[j]] == 'C'` for the stored entries of a row, paired with the entries -/
def interpEntries (cf : Array CF) (r : Row K) (flags : List Bool) : List ((Nat × K) × Bool) :=
  r.zipWith (fun cv s => (cv, s && decide (cf.getD cv.1 CF.U = CF.C))) flags

/-- l.152-162: `(amin *= eps_trunc, amax *= eps_trunc)` -/
def truncBounds (epsTrunc : K) (es : List ((Nat × K) × Bool)) : K × K :=
  let mm := es.foldl (fun (mm : K × K) e => if e.2 then (stdMin mm.1 e.1.2, stdMax mm.2 e.1.2) else mm) ((0 : K), (0 : K))
  (mm.1 * epsTrunc, mm.2 * epsTrunc)

/-- counting pass for a non-C row (l.151-174): `(Amin[i], Amax[i], ++P->ptr[i+1] count)` -/
def interpWidth (doTrunc : Bool) (epsTrunc : K) (es : List ((Nat × K) × Bool)) : K × K × Nat :=
  if doTrunc then
    let b := truncBounds epsTrunc es
    (b.1, b.2, (es.filter fun e => e.2 && (decide (e.1.2 < b.1) || decide (b.2 < e.1.2))).length)
  else (0, 0, (es.filter fun e => e.2).length)

/-- the seven accumulators of l.189-216 -/
structure Acc (K : Type) where
  dia : K
  aNum : K
  aDen : K
  bNum : K
  bDen : K
  dNeg : K
  dPos : K

/-- l.194-216 -/
def interpAcc (doTrunc : Bool) (i : Nat) (amin amax : K) (es : List ((Nat × K) × Bool)) : Acc K :=
  es.foldl (fun (a : Acc K) e =>
    let c := e.1.1
    let v := e.1.2
    if c = i then { a with dia := v }
    else if v < 0 then
      let a := { a with aNum := a.aNum + v }
      if e.2 then
        let a := { a with aDen := a.aDen + v }
        if doTrunc && decide (amin ≤ v) then { a with dNeg := a.dNeg + v } else a
      else a
    else
      let a := { a with bNum := a.bNum + v }
      if e.2 then
        let a := { a with bDen := a.bDen + v }
        if doTrunc && decide (v ≤ amax) then { a with dPos := a.dPos + v } else a
      else a) ⟨0, 0, 0, 0, 0, 0, 0⟩

/-- l.218-232: `(alpha, beta)` -/
def interpCoef (norm : K → K) (doTrunc : Bool) (eps : K) (a : Acc K) : K × K :=
  let cfNeg : K := if doTrunc && decide (eps < norm (a.aDen - a.dNeg)) then norm a.aDen / norm (a.aDen - a.dNeg) else 1
  let cfPos : K := if doTrunc && decide (eps < norm (a.bDen - a.dPos)) then norm a.bDen / norm (a.bDen - a.dPos) else 1
  let dia : K := if (0 : K) < a.bNum ∧ norm a.bDen < eps then a.dia + a.bNum else a.dia
  let alpha : K := if eps < norm a.aDen then -cfNeg * norm a.aNum / (norm dia * norm a.aDen) else 0
  let beta : K := if eps < norm a.bDen then -cfPos * norm a.bNum / (norm dia * norm a.bDen) else 0
  (alpha, beta)

/-- l.234-244: the entries the fill pass writes, in order -/
def interpFill (doTrunc : Bool) (cidx : Array Nat) (amin amax alpha beta : K) (es : List ((Nat × K) × Bool)) : Row K :=
  (es.filter fun e => e.2 && !(doTrunc && decide (amin ≤ e.1.2) && decide (e.1.2 ≤ amax))).map fun e =>
    (cidx.getD e.1.1 0, (if e.1.2 < 0 then alpha else beta) * e.1.2)

/-- both passes for a non-C row: `(width from the counting pass, entries written by the fill pass)` -/
def interpRow (norm : K → K) (doTrunc : Bool) (epsTrunc eps : K) (cf : Array CF) (cidx : Array Nat)
    (i : Nat) (r : Row K) (flags : List Bool) : Nat × Row K :=
  let es := interpEntries cf r flags
  let w := interpWidth doTrunc epsTrunc es
  let ab := interpCoef norm doTrunc eps (interpAcc doTrunc i w.1 w.2.1 es)
  (w.2.2, interpFill doTrunc cidx w.1 w.2.1 ab.1 ab.2 es)

/-- row `i` of `P`: `width` cells, first the written ones, the rest whatever `set_nonzeros` left there -/
def prolongRow (gp : Nat → Nat × K) (norm : K → K) (doTrunc : Bool) (epsTrunc eps : K) (cf : Array CF)
    (cidx : Array Nat) (i : Nat) (r : Row K) (flags : List Bool) : Row K :=
  if cf.getD i CF.U = CF.C then [(cidx.getD i 0, 1)]
  else
    let wr := interpRow norm doTrunc epsTrunc eps cf cidx i r flags
    (wr.2 ++ (List.range (wr.1 - wr.2.length)).map fun k => gp (wr.2.length + k)).take wr.1

/-- l.126-246 given `cf` and the flags -/
def interpolation (g : Garbage K) (norm : K → K) (doTrunc : Bool) (epsTrunc eps : K) (A : CRS K)
    (sval : Array (List Bool)) (cf : Array CF) : Outcome (CRS K) :=
  let nc := cidxOf cf
  if nc.1 = 0 then .emptyLevel else
  .ok { ncols := nc.1,
        rows := Array.ofFn (n := A.nrows) fun i =>
          prolongRow (g.pent i.val) norm doTrunc epsTrunc eps cf nc.2 i.val (A.row i.val) (sval.getD i.val []) }

/-- what `transfer_operators` computes on the way (observable through the harness) and returns -/
structure Result (K : Type) where
  S  : Strength
  cf : Array CF
  P  : Outcome (CRS K)

/-- `ruge_stuben::transfer_operators(A)`, everything but the final `transpose(*P)` -/
def transferFull (g : Garbage K) (norm : K → K) (epsStrong : K) (doTrunc : Bool) (epsTrunc eps : K) (A : CRS K) :
    Result K :=
  let sc := connect g norm epsStrong eps A
  let cf := cfsplit (flagGraph A sc.1.val) sc.1.ptr sc.1.col sc.2
  { S := sc.1, cf := cf, P := interpolation g norm doTrunc epsTrunc eps A sc.1.val cf }

/-- `(P, R)` as returned by `transfer_operators` -/
def transferOperators (g : Garbage K) (norm : K → K) (epsStrong : K) (doTrunc : Bool) (epsTrunc eps : K) (A : CRS K) :
    Outcome (CRS K × CRS K) :=
  match (transferFull g norm epsStrong doTrunc epsTrunc eps A).P with
  | .ok P => .ok (P, transpose id P)
  | .emptyLevel => .emptyLevel
  | .precondition => .precondition

end interp

end RS
end Amgcl
