import Amgcl.Model.SolverCommon
/-!
# `amgcl::solver::bicgstab::operator()(A, P, rhs, x)` — solver/bicgstab.hpp:158-247, statement by statement

Both preconditioning sides.  The carried vector `r` is `f − A x` (right) resp. `P(f − A x)` (left) and is updated
recursively; the loop has two exits per iteration (after the `alpha` half step when `norm(s) ≤ eps`, and after
the full step).  Two `precondition`s can throw: `rho2 ≠ 0` (not in the first pass) and `omega ≠ 0`.
With `check_after` the loop is entered with the placeholder `res = 2·eps`; after the loop
`if (prm.check_after && iter == 0) res = norm(*r);` replaces it by the actual residual when no pass was made.
-/
namespace Amgcl.Solver.BiCGStab
open Amgcl Amgcl.Solver

/-- the `mutable` members `r, p, v, s, t, rh, T` (bicgstab.hpp:278-284) -/
structure Work (K : Type) where
  r  : Vec K
  p  : Vec K
  v  : Vec K
  s  : Vec K
  t  : Vec K
  rh : Vec K
  T  : Vec K

def Work.fresh {K : Type} [Zero K] (n : Nat) : Work K :=
  let z : Vec K := Array.replicate n 0
  ⟨z, z, z, z, z, z, z⟩

/-- `bicgstab::params`: the common fields + `pside`, `check_after` -/
structure Params (K : Type) extends Amgcl.Solver.Params K where
  pside      : Side
  checkAfter : Bool

/-- the local variables that live across loop iterations, the caller's `x` and the work vectors -/
structure St (K : Type) where
  first : Bool
  iter  : Nat
  rho1  : K
  alpha : K
  omega : K
  res   : K
  x     : Vec K
  w     : Work K

variable {K : Type} [Add K] [Mul K] [Sub K] [Neg K] [Zero K] [One K] [Div K] [DecidableEq K] [LT K] [DecidableLT K]

/-- bicgstab.hpp:200-207: the new search direction `p`, or the `Zero rho` exception -/
def newP (st : St K) (rho1 : K) : Except Err (Vec K) :=
  let w := st.w
  let rho2 := st.rho1                                             -- rho2 = rho1;  (before rho1 is overwritten)
  if st.first then .ok (vcopy w.r)                                -- if (first) { copy(*r, *p); first = false; }
  else if rho2 = 0 then .error .zeroRho                           -- precondition(!is_zero(rho2), ...)
  else
    let beta := (rho1 * st.alpha) / (rho2 * st.omega)             -- beta = (rho1 * alpha) / (rho2 * omega);
    .ok (axpbypcz 1 w.r ((-beta) * st.omega) w.v beta w.p)        -- axpbypcz(one, *r, -beta * omega, *v, beta, *p);

/-- what the first half of a pass (bicgstab.hpp:209-221) computes -/
structure Half (K : Type) where
  rho1  : K
  alpha : K
  res   : K
  p     : Vec K
  v     : Vec K
  T     : Vec K
  s     : Vec K
  x     : Vec K

/-- bicgstab.hpp:209-221: the `alpha` half step with search direction `p` -/
def half (side : Side) (ip : Vec K → Vec K → K) (sqrt : K → K) (A : CRS K) (P : Vec K → Vec K)
    (st : St K) (p : Vec K) : Half K :=
  let w := st.w
  let rho1 := ip w.r w.rh                                         -- rho1 = inner_product(*r, *rh);   (line 199)
  let vT := pspmv side P A p w.v w.T                              -- preconditioner::spmv(pside, P, A, *p, *v, *T);
  let v := vT.1
  let T := vT.2
  let alpha := rho1 / ip v w.rh                                   -- alpha = rho1 / inner_product(*v, *rh);
  let x := match side with
    | .left  => axpby alpha p 1 st.x                              -- axpby(alpha, *p, one, x);
    | .right => axpby alpha T 1 st.x                              -- axpby(alpha, *T, one, x);
  let s := axpbypcz 1 w.r (-alpha) v 0 w.s                        -- axpbypcz(one, *r, -alpha, *v, zero, *s);
  { rho1 := rho1, alpha := alpha, res := nrm ip sqrt s,           -- res = norm(*s)
    p := p, v := v, T := T, s := s, x := x }

/-- bicgstab.hpp:222-235: the `omega` half step (entered when `norm(s) > eps`), including the `++iter` -/
def full (side : Side) (ip : Vec K → Vec K → K) (sqrt : K → K) (A : CRS K) (P : Vec K → Vec K)
    (st : St K) (h : Half K) : Except (Err × St K) (St K) :=
  let w := st.w
  let tT := pspmv side P A h.s w.t h.T                            -- preconditioner::spmv(pside, P, A, *s, *t, *T);
  let t := tT.1
  let T' := tT.2
  let omega := ip h.s t / ip t t                                  -- omega = inner_product(*s, *t) / inner_product(*t, *t);
  if omega = 0 then                                               -- precondition(!is_zero(omega), ...)
    .error (.zeroOmega, { first := false, iter := st.iter, rho1 := h.rho1, alpha := h.alpha, omega := omega,
                          res := h.res, x := h.x, w := ⟨w.r, h.p, h.v, h.s, t, w.rh, T'⟩ })
  else
    let x' := match side with
      | .left  => axpby omega h.s 1 h.x                           -- axpby(omega, *s, one, x);
      | .right => axpby omega T' 1 h.x                            -- axpby(omega, *T, one, x);
    let r := axpbypcz 1 h.s (-omega) t 0 w.r                      -- axpbypcz(one, *s, -omega, *t, zero, *r);
    .ok { first := false, iter := st.iter + 1, rho1 := h.rho1, alpha := h.alpha, omega := omega,
          res := nrm ip sqrt r,                                   -- res = norm(*r);
          x := x', w := ⟨r, h.p, h.v, h.s, t, w.rh, T'⟩ }

/-- one pass through the loop body (bicgstab.hpp:196-240) including the `++iter`.
`.error (e, st)`: a `precondition` threw with the program state `st` (the caller's `x` may already have
received the `alpha` half step). -/
def body (side : Side) (ip : Vec K → Vec K → K) (sqrt : K → K) (A : CRS K) (P : Vec K → Vec K) (epsT : K)
    (st : St K) : Except (Err × St K) (St K) :=
  let w := st.w
  let rho1 := ip w.r w.rh                                         -- rho1 = inner_product(*r, *rh);
  match newP st rho1 with
  | .error e => .error (e, { st with rho1 := rho1 })
  | .ok p =>
    let h := half side ip sqrt A P st p
    if epsT < h.res then                                          -- if ((res = norm(*s)) > eps) {
      full side ip sqrt A P st h
    else                                                          -- exit of the pass after the half step
      .ok { first := false, iter := st.iter + 1, rho1 := h.rho1, alpha := h.alpha, omega := st.omega,
            res := h.res, x := h.x, w := ⟨w.r, p, h.v, h.s, w.t, w.rh, h.T⟩ }

/-- the first conjunct of the loop guard: `res > eps` -/
def cond (epsT : K) (st : St K) : Bool := decide (epsT < st.res)

/-- `for(bool first = true; res > eps && iter < prm.maxiter; ++iter) body` with `fuel = maxiter - iter` -/
def loop (side : Side) (ip : Vec K → Vec K → K) (sqrt : K → K) (A : CRS K) (P : Vec K → Vec K) (epsT : K) :
    Nat → St K → Option Err × St K :=
  loopE (cond epsT) (body side ip sqrt A P epsT)

/-- the state on loop entry (bicgstab.hpp:178-193) -/
def init (prm : Params K) (ip : Vec K → Vec K → K) (sqrt : K → K) (A : CRS K) (P : Vec K → Vec K)
    (ws : Work K) (f x0 : Vec K) (epsT : K) : St K :=
  let r := match prm.pside with
    | .left  => P (residual f A x0)                       -- residual(rhs, A, x, *rh); P.apply(*rh, *r);
    | .right => residual f A x0                           -- residual(rhs, A, x, *r);
  let rh := vcopy r                                       -- copy(*r, *rh);   (overwrites the temporary use of rh)
  let res := if prm.checkAfter then two * epsT            -- res = prm.check_after ? 2 * eps : norm(*r);
             else nrm ip sqrt r
  { first := true, iter := 0, rho1 := 0, alpha := 0, omega := 0, res := res, x := x0,
    w := { ws with r := r, rh := rh } }

def run (prm : Params K) (ip : Vec K → Vec K → K) (sqrt : K → K) (eps : K) (A : CRS K) (P : Vec K → Vec K)
    (ws : Work K) (f x0 : Vec K) : Run K (Work K) :=
  match prologue prm.nsSearch ip sqrt eps f with
  | .trivial n => (.ok (0, n), vclear x0.size, ws)       -- clear(x); return (0, norm_rhs);
  | .go normRhs =>
    let epsT := maxK (normRhs * prm.tol) prm.abstol       -- eps = std::max(norm_rhs * prm.tol, prm.abstol);
    match loop prm.pside ip sqrt A P epsT prm.maxiter (init prm ip sqrt A P ws f x0 epsT) with
    | (none, st)   =>
      -- if (prm.check_after && iter == 0) res = norm(*r);   (bicgstab.hpp:242-244: the placeholder `2*eps` the
      -- loop was entered with is replaced by the actual residual when no pass was made)
      let res := if prm.checkAfter && st.iter == 0 then nrm ip sqrt st.w.r else st.res
      (.ok (st.iter, res / normRhs), st.x, st.w)                      -- return (iter, res / norm_rhs);
    | (some e, st) => (.error e, st.x, st.w)

def solve (prm : Params K) (ip : Vec K → Vec K → K) (sqrt : K → K) (eps : K) (A : CRS K) (P : Vec K → Vec K)
    (ws : Work K) (f x0 : Vec K) : Except Err (Nat × K × Vec K × Work K) :=
  (run prm ip sqrt eps A P ws f x0).toExcept

/-- one call on a solver object in work-vector state `w`: the observable result and the next state -/
def call (prm : Params K) (ip : Vec K → Vec K → K) (sqrt : K → K) (eps : K) (w : Work K) (c : Call K) :
    Obs K × Work K :=
  let r := run prm ip sqrt eps c.A c.P w c.f c.x0
  (r.obs, r.ws)

end Amgcl.Solver.BiCGStab
