import Amgcl.Model.SolverGivens
/-!
# `amgcl::solver::fgmres::operator()(A, P, rhs, x)` — solver/fgmres.hpp:153-238, statement by statement

Flexible GMRES(M): right preconditioning only, the preconditioned basis vectors `z[j] = P v[j]` are kept, the
update is `x += Σ s_i z_i`.  Same control flow as `gmres`: the only exit of the outer `while(true)` is the `break`
directly after `v[0] = f − A x; norm_r = norm(v[0])`.  (The member `r` of the class is allocated but never used by
`operator()` and is not part of the model.)
-/
namespace Amgcl.Solver.FGMRES
open Amgcl Amgcl.Solver

/-- the `mutable` members `H, s, cs, sn` and the vectors `v[0..M]`, `z[0..M-1]` (fgmres.hpp:278-283) -/
structure Work (K : Type) where
  h : Hess K
  v : FArr (Vec K)
  z : FArr (Vec K)

def Work.fresh {K : Type} [Zero K] (n : Nat) : Work K :=
  ⟨Hess.fresh, .const (Array.replicate n 0), .const (Array.replicate n 0)⟩

/-- `fgmres::params`: the common fields + `M` -/
structure Params (K : Type) extends Amgcl.Solver.Params K where
  M : Nat

structure St (K : Type) where
  iter  : Nat
  normR : K
  x     : Vec K
  w     : Work K

structure In (K : Type) where
  j        : Nat
  iter     : Nat
  innerRes : K
  w        : Work K

variable {K : Type} [Add K] [Mul K] [Sub K] [Neg K] [Zero K] [One K] [Div K] [DecidableEq K] [LT K] [DecidableLT K]

/-- fgmres.hpp:177-181: `backend::residual(rhs, A, x, *v[0]); norm_r = norm(*v[0])` -/
def head (ip : Vec K → Vec K → K) (sqrt : K → K) (A : CRS K) (f : Vec K) (st : St K) : St K :=
  let v0 := residual f A st.x
  { st with normR := nrmA ip sqrt v0, w := { st.w with v := setF st.w.v 0 v0 } }

/-- fgmres.hpp:180: `if ((norm_r = norm(*v[0])) < eps || iter >= prm.maxiter) break;` -/
def stop (maxiter : Nat) (epsT : K) (st : St K) : Bool :=
  decide (st.normR < epsT) || decide (maxiter ≤ st.iter)

/-- fgmres.hpp:192-223, including `++j, ++iter` -/
def step (ip : Vec K → Vec K → K) (sqrt : K → K) (A : CRS K) (P : Vec K → Vec K) (t : In K) : In K :=
  let w := t.w
  let j := t.j
  let zj := P (w.v j)                                    -- P.apply(*v[j], *z[j]);
  let vnew := spmv 1 A zj 0 (w.v (j + 1))                -- backend::spmv(one, A, *z[j], zero, v_new);
  let hs := hessStep ip sqrt w.v j w.h vnew
  { j := j + 1, iter := t.iter + 1, innerRes := hs.2.2,
    w := { h := hs.1, v := setF w.v (j + 1) hs.2.1, z := setF w.z j zj } }

/-- negation of fgmres.hpp:222: `if (iter >= prm.maxiter || j >= prm.M || inner_res <= eps) break;` -/
def cont (maxiter M : Nat) (epsT : K) (t : In K) : Bool :=
  !(decide (maxiter ≤ t.iter) || decide (M ≤ t.j) || !decide (epsT < t.innerRes))

/-- fgmres.hpp:184-189: the state on entry of the inner loop -/
def cycleStart (st : St K) : In K :=
  let w := st.w
  let v0 := axpby (inv1 st.normR) (w.v 0) 0 (w.v 0)      -- backend::axpby(math::inverse(norm_r), *v[0], zero, *v[0]);
  { j := 0, iter := st.iter, innerRes := 0,
    w := { w with h := { w.h with s := sInit st.normR },  -- std::fill(s.begin(), s.end(), 0); s[0] = norm_r;
                  v := setF w.v 0 v0 } }

/-- fgmres.hpp:191-224: the inner `do … while`, fuel `M` -/
def inner (prm : Params K) (ip : Vec K → Vec K → K) (sqrt : K → K) (A : CRS K) (P : Vec K → Vec K) (epsT : K)
    (st : St K) : In K :=
  doWhile (cont prm.maxiter prm.M epsT) (step ip sqrt A P) prm.M (cycleStart st)

/-- fgmres.hpp:226-233: back substitution and `x += Σ s_i z_i` -/
def update (st : St K) (t : In K) : St K :=
  let s := backSubst t.j t.w.h.H t.w.h.s
  { iter := t.iter, normR := st.normR,
    x := linComb (combList t.j s.get t.w.z.get) 1 st.x,           -- backend::lin_comb(j, s, z, one, x);
    w := { t.w with h := { t.w.h with s := s } } }

/-- fgmres.hpp:184-234: one restart cycle -/
def cycle (prm : Params K) (ip : Vec K → Vec K → K) (sqrt : K → K) (A : CRS K) (P : Vec K → Vec K) (epsT : K)
    (st : St K) : St K :=
  update st (inner prm ip sqrt A P epsT st)

def outer (prm : Params K) (ip : Vec K → Vec K → K) (sqrt : K → K) (A : CRS K) (P : Vec K → Vec K) (f : Vec K)
    (epsT : K) : Nat → St K → St K :=
  loopN (fun s => !stop prm.maxiter epsT s) (fun s => head ip sqrt A f (cycle prm ip sqrt A P epsT s))

def init (ip : Vec K → Vec K → K) (sqrt : K → K) (A : CRS K) (ws : Work K) (f x0 : Vec K) : St K :=
  head ip sqrt A f { iter := 0, normR := 0, x := x0, w := ws }

def run (prm : Params K) (ip : Vec K → Vec K → K) (sqrt : K → K) (eps : K) (A : CRS K) (P : Vec K → Vec K)
    (ws : Work K) (f x0 : Vec K) : Run K (Work K) :=
  match prologueA prm.nsSearch ip sqrt eps f with
  | .trivial n => (.ok (0, n), vclear x0.size, ws)
  | .go normRhs =>
    let epsT := maxK (prm.tol * normRhs) prm.abstol
    let st := outer prm ip sqrt A P f epsT prm.maxiter (init ip sqrt A ws f x0)
    (.ok (st.iter, st.normR / normRhs), st.x, st.w)

def solve (prm : Params K) (ip : Vec K → Vec K → K) (sqrt : K → K) (eps : K) (A : CRS K) (P : Vec K → Vec K)
    (ws : Work K) (f x0 : Vec K) : Except Err (Nat × K × Vec K × Work K) :=
  (run prm ip sqrt eps A P ws f x0).toExcept

def call (prm : Params K) (ip : Vec K → Vec K → K) (sqrt : K → K) (eps : K) (w : Work K) (c : Call K) :
    Obs K × Work K :=
  let r := run prm ip sqrt eps c.A c.P w c.f c.x0
  (r.obs, r.ws)

end Amgcl.Solver.FGMRES
