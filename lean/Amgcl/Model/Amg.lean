import Amgcl.Model.Kernels
import Amgcl.Model.Primitives
import Amgcl.Model.RelaxCommon
/-!
# The AMG hierarchy and cycle (C02, C03, C15) — mirrors amgcl/amg.hpp

* `build`   = constructor + `do_init` (amg.hpp:193-206, 467-512) with `level(A,prm)` (352-367),
              `level::step_down` (369-406), `level::create_coarse` (408-421)
* `rebuild` = `amg::rebuild` / `level::rebuild` (235-261, 423-452)
* `cycle`, `apply` = amg.hpp:515-553, 281-290

Parameters of the model (everything that is a template argument or another component in the C++ code):
* `pol : Policy K` — the coarsening: `transfer l A` is the result of `C.transfer_operators(A)` for the `l`-th call
  on the (stateful) coarsening object (`none` = `error::empty_level`), `coarseOp` is `C.coarse_operator`
  (`galerkin` / `scaledGalerkin` below, which are products through `backend::product`);
* `sm : Relax.Smoother K S` — the relaxation class;
* `direct : CRS K → Vec K → Vec K` — `Backend::direct_solver` (skyline LU) as a function of matrix and rhs, and
  `directOk : CRS K → Bool` — whether its constructor succeeds (`false` = zero pivot ⇒ `precondition` throws).

Scratch is state: the per-level vectors `f, u, t` are explicit (`Scratch`), passed in and returned.
-/
namespace Amgcl
namespace Amg

structure Params where
  coarse_enough : Nat
  direct_coarse : Bool
  max_levels    : Nat
  npre          : Nat
  npost         : Nat
  ncycle        : Nat
  pre_cycles    : Nat
  allow_rebuild : Bool

/-- the coarsening strategy as the hierarchy sees it -/
structure Policy (K : Type) where
  transfer : Nat → CRS K → Option (CRS K × CRS K)
  coarseOp : CRS K → CRS K → CRS K → CRS K

/-- one `amg::level`; `solve` holds the matrix the direct solver was created from -/
structure Level (K S : Type) where
  rows  : Nat
  A     : Option (CRS K) := none
  P     : Option (CRS K) := none
  R     : Option (CRS K) := none
  bP    : Option (CRS K) := none
  bR    : Option (CRS K) := none
  solve : Option (CRS K) := none
  relax : Option S := none

inductive BuildErr where
  | precondition      -- `precondition(...)` threw (non-square matrix, relaxation setup failure, rebuild misuse)
  | undefinedInput    -- the relaxation constructor would read memory it never wrote
  | fuel              -- the coarsening never reduced the problem size (the C++ loop would not terminate)
deriving Repr, DecidableEq

section build
variable {K S : Type} [Add K] [Mul K] [Zero K] [One K]

/-- `detail::galerkin(A, P, R) = product(R, *product(A, P))` (`nt` = OpenMP thread count, selects the SpGEMM) -/
def galerkin (nt : Nat) (A P R : CRS K) : CRS K := product nt R (product nt A P false) false

/-- `detail::scaled_galerkin(A, P, R, s)` -/
def scaledGalerkin (nt : Nat) (s : K) (A P R : CRS K) : CRS K := scale (galerkin nt A P R) s

/-- `level(A, prm, bprm)`: keeps `A`, creates the smoother -/
def mkLevel (sm : Relax.Smoother K S) (A : CRS K) : Except BuildErr (Level K S) :=
  match sm.setup A with
  | .ok s => .ok { rows := A.nrows, A := some A, relax := some s }
  | .precondition => .error .precondition
  | .undefinedInput => .error .undefinedInput

/-- `level::step_down`: returns the updated level and the next (sorted) system matrix, `none` on `empty_level` -/
def stepDown (pol : Policy K) (allow_rebuild : Bool) (lvlIdx : Nat) (lv : Level K S) (A : CRS K) :
    Level K S × Option (CRS K) :=
  match pol.transfer lvlIdx A with
  | none => (lv, none)
  | some (P, R) =>
    let P := sortRows P
    let R := sortRows R
    let lv := { lv with P := some P, R := some R,
                        bP := if allow_rebuild then some P else none,
                        bR := if allow_rebuild then some R else none }
    (lv, some (sortRows (pol.coarseOp A P R)))

/-- the `while` loop of `do_init`; returns the levels, the current matrix (`none` after `empty_level`) -/
def initLoop (prm : Params) (pol : Policy K) (sm : Relax.Smoother K S) :
    Nat → List (Level K S) → CRS K → Except BuildErr (List (Level K S) × Option (CRS K))
  | 0, _, _ => .error .fuel
  | fuel + 1, levels, A =>
    if A.nrows > prm.coarse_enough then
      match mkLevel sm A with
      | .error e => .error e
      | .ok lv =>
        if levels.length + 1 ≥ prm.max_levels then .ok (levels ++ [lv], some A)
        else
          match stepDown pol prm.allow_rebuild levels.length lv A with
          | (lv', none) => .ok (levels ++ [lv'], none)
          | (lv', some A') => initLoop prm pol sm fuel (levels ++ [lv']) A'
    else .ok (levels, some A)

/-- `amg::do_init` on an already row-sorted matrix -/
def doInit (prm : Params) (pol : Policy K) (sm : Relax.Smoother K S) (directOk : CRS K → Bool) (A : CRS K) :
    Except BuildErr (List (Level K S)) :=
  if A.nrows ≠ A.ncols then .error .precondition else
  match initLoop prm pol sm (A.nrows + 2) [] A with
  | .error e => .error e
  | .ok (levels, none) => .ok levels                                   -- empty level: smoother on the last level
  | .ok (levels, some Ac) =>
    if Ac.nrows > prm.coarse_enough then .ok levels                   -- max_levels reached: no coarse solve
    else if prm.direct_coarse then
      if !directOk Ac then .error .precondition else
      .ok (levels ++ [{ rows := Ac.nrows, solve := some Ac, A := if levels.isEmpty then some Ac else none }])
    else
      match mkLevel sm Ac with
      | .error e => .error e
      | .ok lv => .ok (levels ++ [lv])

/-- the constructor taking a user matrix: copy, `sort_rows`, `do_init` -/
def build (prm : Params) (pol : Policy K) (sm : Relax.Smoother K S) (directOk : CRS K → Bool) (A : CRS K) :
    Except BuildErr (List (Level K S)) :=
  doInit prm pol sm directOk (sortRows A)

/-- `level::rebuild` -/
def rebuildLevel (pol : Policy K) (sm : Relax.Smoother K S) (directOk : CRS K → Bool) (lv : Level K S) (A : CRS K) :
    Except BuildErr (Level K S × CRS K) :=
  let lvA : Level K S := if lv.A.isSome then { lv with A := some A } else lv
  let r : Except BuildErr (Level K S) :=
    match lv.relax with
    | none => .ok lvA
    | some _ =>
      match sm.setup A with
      | .ok s => .ok { lvA with relax := some s }
      | .precondition => .error .precondition
      | .undefinedInput => .error .undefinedInput
  match r with
  | .error e => .error e
  | .ok lv1 =>
    if lv1.solve.isSome && !directOk A then .error .precondition else
    let lv2 : Level K S := if lv1.solve.isSome then { lv1 with solve := some A } else lv1
    match lv2.bP, lv2.bR with
    | some bP, some bR => .ok (lv2, sortRows (pol.coarseOp A bP bR))
    | _, _ => .ok (lv2, A)

/-- `amg::rebuild(A)` on the level list -/
def rebuildLevels (pol : Policy K) (sm : Relax.Smoother K S) (directOk : CRS K → Bool) :
    List (Level K S) → CRS K → Except BuildErr (List (Level K S))
  | [], _ => .ok []
  | lv :: rest, A =>
    match rebuildLevel pol sm directOk lv A with
    | .error e => .error e
    | .ok (lv', A') =>
      match rebuildLevels pol sm directOk rest A' with
      | .error e => .error e
      | .ok rest' => .ok (lv' :: rest')

/-- `amg::rebuild(M)`: the preconditions, copy + sort, then level by level -/
def rebuild (prm : Params) (pol : Policy K) (sm : Relax.Smoother K S) (directOk : CRS K → Bool)
    (levels : List (Level K S)) (A : CRS K) :
    Except BuildErr (List (Level K S)) :=
  let n0 := match levels with
    | lv :: _ => (match lv.A with | some A0 => A0.nrows | none => lv.rows)
    | [] => 0
  if !prm.allow_rebuild then .error .precondition
  else if A.nrows ≠ n0 ∨ A.ncols ≠ A.nrows then .error .precondition
  else rebuildLevels pol sm directOk levels (sortRows A)

/-- a finite sequence of `rebuild(A')` calls on the level list -/
def rebuildMany (pol : Policy K) (sm : Relax.Smoother K S) (directOk : CRS K → Bool) :
    List (Level K S) → List (CRS K) → Except BuildErr (List (Level K S))
  | ls, [] => .ok ls
  | ls, A' :: rest =>
    match rebuildLevels pol sm directOk ls (sortRows A') with
    | .error e => .error e
    | .ok ls' => rebuildMany pol sm directOk ls' rest

end build

section cycle
variable {K S : Type} [Add K] [Mul K] [Sub K] [Zero K] [One K] [DecidableEq K]

/-- per-level scratch vectors `f`, `u`, `t` -/
structure Scratch (K : Type) where
  f : Vec K
  u : Vec K
  t : Vec K

/-- `n`-fold application (`for(i = 0; i < n; ++i) a = f(a)`) -/
def iter {α : Type} (f : α → α) : Nat → α → α
  | 0, a => a
  | n + 1, a => iter f n (f a)

/-- `n` sweeps; the level's `t` is threaded through -/
def sweeps (sw : Vec K → Vec K → Vec K → Vec K × Vec K) (n : Nat) (rhs x t : Vec K) : Vec K × Vec K :=
  iter (fun (xt : Vec K × Vec K) => sw rhs xt.1 xt.2) n (x, t)

/-- state of the `ncycle` loop on an inner level: `x`, this level's scratch, the next level's scratch, the rest -/
abbrev CycSt (K : Type) := Vec K × Scratch K × Scratch K × List (Scratch K)

/-- one pass of the `for j < ncycle` loop body on an inner level (amg.hpp:533-550); `rc` is the recursive call
`cycle(nxt, *nxt->f, *nxt->u)` as a function of (scratch of the coarser levels, rhs, x). -/
def cycleBody (prm : Params) (sm : Relax.Smoother K S) (s : S) (A P R : CRS K) (nextRows : Nat)
    (rc : List (Scratch K) → Vec K → Vec K → Vec K × List (Scratch K))
    (rhs : Vec K) (st : CycSt K) : CycSt K :=
  let r1 := sweeps (sm.applyPre s A) prm.npre rhs st.1 st.2.1.t
  let t := residual rhs A r1.1                              -- backend::residual(rhs, A, x, t)
  let fn := spmv 1 R t 0 st.2.2.1.f                         -- nxt->f = R * t
  let un := vclear nextRows                                 -- clear(*nxt->u); `u` has `m_rows` entries
  let rc' := rc ({ st.2.2.1 with f := fn, u := un } :: st.2.2.2) fn un
  let x2 := spmv 1 P rc'.1 1 r1.1                           -- x += P * nxt->u
  let r2 := sweeps (sm.applyPost s A) prm.npost rhs x2 t
  match rc'.2 with
  | scn' :: scr' => (r2.1, { st.2.1 with t := r2.2 }, { scn' with u := rc'.1 }, scr')
  | [] => (r2.1, { st.2.1 with t := r2.2 }, st.2.2.1, st.2.2.2)     -- cannot happen: `rc` returns its scratch list

/-- `amg::cycle(lvl, rhs, x)` (amg.hpp:515-553); `scr` has one entry per level of `levels`.
Levels without the pieces the code dereferences (`A`, `relax`, `P`, `R`) cannot occur in a built hierarchy
(`Amg.Chain`); the model returns `x` unchanged there. -/
def cycle (prm : Params) (sm : Relax.Smoother K S) (direct : CRS K → Vec K → Vec K) :
    List (Level K S) → List (Scratch K) → Vec K → Vec K → Vec K × List (Scratch K)
  | [], scr, _, x => (x, scr)
  | [lv], sc :: scr, rhs, x =>
    match lv.solve with
    | some Ad => (direct Ad rhs, sc :: scr)
    | none =>
      match lv.A, lv.relax with
      | some A, some s =>
        let r1 := sweeps (sm.applyPre s A) prm.npre rhs x sc.t
        let r2 := sweeps (sm.applyPost s A) prm.npost rhs r1.1 r1.2
        (r2.1, { sc with t := r2.2 } :: scr)
      | _, _ => (x, sc :: scr)
  | lv :: nxt :: rest, sc :: scn :: scr, rhs, x =>
    match lv.A, lv.relax, lv.P, lv.R with
    | some A, some s, some P, some R =>
      let st := iter (cycleBody prm sm s A P R nxt.rows (cycle prm sm direct (nxt :: rest)) rhs)
        prm.ncycle (x, sc, scn, scr)
      (st.1, st.2.1 :: st.2.2.1 :: st.2.2.2)
    | _, _, _, _ => (x, sc :: scn :: scr)
  | _, scr, _, x => (x, scr)

/-- `amg::apply(rhs, x)`: `pre_cycles` cycles from a cleared `x`, or a plain copy when `pre_cycles = 0` -/
def apply (prm : Params) (sm : Relax.Smoother K S) (direct : CRS K → Vec K → Vec K)
    (levels : List (Level K S)) (scr : List (Scratch K)) (rhs : Vec K) : Vec K × List (Scratch K) :=
  if prm.pre_cycles = 0 then (vcopy rhs, scr)
  else
    iter (fun (st : Vec K × List (Scratch K)) => cycle prm sm direct levels st.2 rhs st.1) prm.pre_cycles
      (vclear rhs.size, scr)

/-- fresh scratch as allocated by the constructor (`create_vector` zero-initialises) -/
def freshScratch (levels : List (Level K S)) : List (Scratch K) :=
  levels.map (fun lv => { f := vclear lv.rows, u := vclear lv.rows, t := vclear lv.rows })

end cycle
end Amg
end Amgcl
