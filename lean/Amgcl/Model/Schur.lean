import Amgcl.Model.Primitives
import Amgcl.Model.Kernels
/-!
# Schur-complement pressure correction (C18) — mirrors preconditioner/schur_pressure_correction.hpp

* `mkIdx`        : `idx[i] = (pmask[i] ? np++ : nu++)`                                     (init, :337-340)
* `extractBlock` : the two passes that fill `Kuu, Kup, Kpu, Kpp`                            (:347-418)
* `kuuDia`       : `Kuu_dia` (`simplec_dia` row-sum form or `diagonal(Kuu, invert)`)        (:425-439)
* `adjust1/2`    : the `adjust_p` variants of the matrix handed to the pressure solver      (:441-497)
* `gather/scatter` matrices `x2u, x2p, u2x, p2x`                                            (:516-584)
* `State.spmv`   : the matrix-free Schur complement (`spmv`, :256-281)
* `State.residual`: `backend::residual` on the object (`residual_impl`, :623-631)
* `State.apply`  : `apply` for `type` 1 and 2 (:215-254)

The inner solvers are FUNCTION PARAMETERS: `U : Vec K → Vec K` is `(*U)(rhs, u)` started from `u = 0` (the code
clears `u` before every call), `Ps : Vec K → Vec K` is `(*P)(*this, rhs_p, p)` started from `p = 0`.

The scratch vectors `rhs_u, rhs_p, u, p, tmp` of the object are locals here: every one of them is completely
overwritten (`clear` / `spmv` with `beta = 0`) before it is read in `apply` and in `spmv` (the harness poisons them
before each call and checks that no poison reaches the result).
-/
namespace Amgcl.Schur

section idx

/-- `for i < n: idx[i] = (pmask[i] ? np++ : nu++)`; result `(idx, nu, np)` -/
def mkIdx (pm : Array Bool) : Array Nat × Nat × Nat :=
  (List.range pm.size).foldl (fun (s : Array Nat × Nat × Nat) i =>
    if pm.getD i false then (s.1.push s.2.2, s.2.1, s.2.2 + 1)
    else (s.1.push s.2.1, s.2.1 + 1, s.2.2)) (#[], 0, 0)

end idx

section pattern

/-- `std::atoi` on a string of the restricted form used here: the value of the leading decimal digits -/
def atoi (s : String) : Nat :=
  (s.toList.takeWhile Char.isDigit).foldl (fun v c => v * 10 + (c.toNat - '0'.toNat)) 0

/-- `pmask_pattern` (params(ptree), :139-165): `%start:stride` (the code reads `start` at offset 1 and `stride` at
offset 3, i.e. a one-digit `start`), `<m` (the first `m`), `>m` (from `m` on); `none` = "Unknown pattern". -/
def maskOfPattern (pat : String) (n : Nat) : Option (Array Bool) :=
  match pat.toList with
  | '%' :: _ =>
    let start := atoi (pat.drop 1).toString
    let stride := atoi (pat.drop 3).toString
    some (Array.ofFn (n := n) (fun i => decide (start ≤ i.val ∧ (i.val - start) % stride = 0)))
  | '<' :: _ => let m := atoi (pat.drop 1).toString; some (Array.ofFn (n := n) (fun i => decide (i.val < min m n)))
  | '>' :: _ => let m := atoi (pat.drop 1).toString; some (Array.ofFn (n := n) (fun i => decide (m ≤ i.val)))
  | _ => none

end pattern

section extract
variable {K : Type}

/-- second pass, inner loop for one row: the entries whose column class is `pj`, renumbered through `idx`, in
stored order -/
def extractRow (pm : Array Bool) (idx : Array Nat) (pj : Bool) (r : Row K) : Row K :=
  r.filterMap (fun cv => if pm.getD cv.1 false = pj then some (idx.getD cv.1 0, cv.2) else none)

/-- first pass: `++Kxy->ptr[ci+1]` for every entry of the class pair -/
def countRow (pm : Array Bool) (pj : Bool) (r : Row K) : Nat :=
  r.foldl (fun c cv => if pm.getD cv.1 false = pj then c + 1 else c) 0

/-- the sub-block of `A` with row class `pi` and column class `pj`: row `i` of `A` is written to row `idx[i]` -/
def extractBlock (A : CRS K) (pm : Array Bool) (idx : Array Nat) (pi pj : Bool) (nr nc : Nat) : CRS K :=
  { ncols := nc,
    rows := (List.range A.nrows).foldl (fun (acc : Array (Row K)) i =>
      if pm.getD i false = pi then acc.setIfInBounds (idx.getD i 0) (extractRow pm idx pj (A.row i)) else acc)
      (Array.replicate nr []) }

/-- the row widths computed by the first pass (they size the arrays the second pass fills) -/
def blockWidths (A : CRS K) (pm : Array Bool) (idx : Array Nat) (pi pj : Bool) (nr : Nat) : Array Nat :=
  (List.range A.nrows).foldl (fun (acc : Array Nat) i =>
      if pm.getD i false = pi then acc.setIfInBounds (idx.getD i 0) (countRow pm pj (A.row i)) else acc)
      (Array.replicate nr 0)

end extract

section gather
variable {K : Type} [One K]

/-- `x2u` (`pj = false`) / `x2p` (`pj = true`): one row `[(i, 1)]` per index of the class, in increasing `i` -/
def gatherMat (pm : Array Bool) (pj : Bool) : CRS K :=
  { ncols := pm.size,
    rows := (((List.range pm.size).filter (fun i => pm.getD i false = pj)).map (fun i => [(i, (1 : K))])).toArray }

/-- `u2x` / `p2x`: row `i` is `[(idx[i], 1)]` if `i` is of the class, empty otherwise -/
def scatterMat (pm : Array Bool) (idx : Array Nat) (pj : Bool) (nc : Nat) : CRS K :=
  { ncols := nc,
    rows := Array.ofFn (n := pm.size) (fun i => if pm.getD i.val false = pj then [(idx.getD i.val 0, (1 : K))] else []) }

end gather

section dia
variable {K : Type} [Add K] [Neg K] [Zero K] [One K] [Div K] [Inv K] [DecidableEq K] [LT K] [DecidableLT K]

/-- `Kuu_dia`: `1 / Σ_j |Kuu_ij|` (`simplec_dia`) or `diagonal(Kuu, invert = true)`; the latter leaves rows without
a stored diagonal entry uninitialised (`none`). -/
def kuuDia (simplec : Bool) (Kuu : CRS K) : Array (Option K) :=
  if simplec then
    Array.ofFn (n := Kuu.nrows) (fun i => some ((1 : K) / (Kuu.row i.val).foldl (fun s cv => s + absK cv.2) 0))
  else diagonal Kuu true

end dia

section adjust
variable {K : Type} [Add K] [Mul K] [Sub K] [Neg K] [Zero K] [One K]

/-- `Kpp->val[j] -= s` at the FIRST stored entry with `col == i` (and `break`) -/
def subFirstDiag (i : Nat) (s : K) : Row K → Row K
  | [] => []
  | cv :: t => if cv.1 = i then (cv.1, cv.2 - s) :: t else cv :: subFirstDiag i s t

/-- `adjust_p == 1`, the vector `L`: `s = Σ_{(k,v) ∈ Kpu_i} v * dia[k] * Kup_{k,i}` where `Kup_{k,i}` is the FIRST
stored entry of row `k` of `Kup` with column `i` (entries without such a partner are skipped); `L[i] = s` if row `i`
of `Kpp` has a stored diagonal entry (from which `s` is then subtracted), `L[i] = 0` otherwise — the correction is
added back in `spmv` only where it was subtracted (fix ce6260a; `adjustLAsFound` is the code before the fix). -/
def adjustS (dia : Vec K) (Kpu Kup : CRS K) (i : Nat) : K :=
  (Kpu.row i).foldl (fun s kv =>
    match (Kup.row kv.1).find? (fun e => e.1 = i) with
    | some e => s + kv.2 * dia.getD kv.1 0 * e.2
    | none => s) 0

def adjustL (dia : Vec K) (Kpu Kup Kpp : CRS K) : Vec K :=
  Array.ofFn (n := Kpu.nrows) (fun i =>
    if (Kpp.row i.val).any (fun cv => cv.1 = i.val) then adjustS dia Kpu Kup i.val else 0)

/-- the code as found (before ce6260a): `L[i] = s` whether or not `Kpp` has a stored diagonal entry in row `i` -/
def adjustLAsFound (dia : Vec K) (Kpu Kup : CRS K) : Vec K :=
  Array.ofFn (n := Kpu.nrows) (fun i => adjustS dia Kpu Kup i.val)

/-- `adjust_p == 1`: `Kpp` with `L[i]` subtracted from the first stored diagonal entry of every row -/
def adjust1 (L : Vec K) (Kpp : CRS K) : CRS K :=
  { Kpp with rows := Kpp.rows.mapIdx (fun i r => subFirstDiag i (L.getD i 0) r) }

/-- `Kup_hat`: row `i` of `Kup` scaled from the left by `dia[i]` -/
def kupHat (dia : Vec K) (Kup : CRS K) : CRS K :=
  { Kup with rows := Kup.rows.mapIdx (fun i r => r.map (fun cv => (cv.1, dia.getD i 0 * cv.2))) }

/-- `adjust_p == 2`: `Kpp - Kpu * dia(Kuu)^-1 * Kup` through `backend::product` and `backend::sum` -/
def adjust2 (nt : Nat) (dia : Vec K) (Kpu Kup Kpp : CRS K) : CRS K :=
  sum 1 Kpp (-1) (product nt Kpu (kupHat dia Kup) false) false

end adjust

/-- the parameters that enter the algebra -/
structure Params where
  type : Nat := 1
  approxSchur : Bool := false
  adjustP : Nat := 1
  simplecDia : Bool := true

/-- the members of a constructed `schur_pressure_correction` object (`Kuu`, `KppP` are what the constructors of
`USolver` / `PSolver` receive; `Kpp0` is the extracted block before `adjust_p` touched it) -/
structure State (K : Type) where
  prm : Params
  n : Nat
  nu : Nat
  np : Nat
  idx : Array Nat
  Kuu : CRS K
  Kup : CRS K
  Kpu : CRS K
  Kpp0 : CRS K
  KppP : CRS K
  x2u : CRS K
  x2p : CRS K
  u2x : CRS K
  p2x : CRS K
  /-- `Kuu_dia` -/
  dia : Array (Option K)
  /-- `Ld` (`adjust_p == 1` only) -/
  Ld : Option (Vec K)
  /-- `Lm` (`adjust_p == 2` only) -/
  Lm : Option (CRS K)
  /-- `M` (`approx_schur` only) -/
  M : Option (Vec K)

section init
variable {K : Type} [Add K] [Mul K] [Sub K] [Neg K] [Zero K] [One K] [Div K] [Inv K] [DecidableEq K] [LT K]
  [DecidableLT K]

/-- does the construction read an uninitialised `Kuu_dia` entry?  (`simplec_dia = false`, some row of `Kuu` has no
stored diagonal entry, and `Kuu_dia` is used at all) -/
def readsUninit (prm : Params) (dia : Array (Option K)) : Bool :=
  (prm.adjustP == 1 || prm.adjustP == 2 || prm.approxSchur) && dia.any (fun o => o.isNone)

/-- `init` (the constructor body); `nt` = number of OpenMP threads (selects the SpGEMM algorithm of
`backend::product` for `adjust_p == 2`) -/
def init (nt : Nat) (prm : Params) (A : CRS K) (pm : Array Bool) : State K :=
  let ix := mkIdx pm
  let idx := ix.1
  let nu := ix.2.1
  let np := ix.2.2
  let Kuu := extractBlock A pm idx false false nu nu
  let Kup := extractBlock A pm idx false true nu np
  let Kpu := extractBlock A pm idx true false np nu
  let Kpp := extractBlock A pm idx true true np np
  let dia := kuuDia prm.simplecDia Kuu
  let d : Vec K := dia.map (fun o => o.getD 0)
  let L := adjustL d Kpu Kup Kpp
  let KppP := if prm.adjustP = 1 then adjust1 L Kpp else if prm.adjustP = 2 then adjust2 nt d Kpu Kup Kpp else Kpp
  { prm := prm, n := A.nrows, nu := nu, np := np, idx := idx,
    Kuu := Kuu, Kup := Kup, Kpu := Kpu, Kpp0 := Kpp, KppP := KppP,
    x2u := gatherMat pm false, x2p := gatherMat pm true,
    u2x := scatterMat pm idx false nu, p2x := scatterMat pm idx true np,
    dia := dia,
    Ld := if prm.adjustP = 1 then some L else none,
    Lm := if prm.adjustP = 2 then some Kpp else none,
    M := if prm.approxSchur then some d else none }

end init

section apply
variable {K : Type} [Add K] [Mul K] [Sub K] [Neg K] [Zero K] [One K] [DecidableEq K]

/-- the first statement of `spmv`: `y = beta y + alpha Kpp x` with `Kpp` re-assembled from what the object keeps
(`adjust_p == 1`: the adjusted matrix of the pressure solver plus `Ld`; `adjust_p == 2`: `Lm`; else the matrix of
the pressure solver) -/
def State.kppPart (S : State K) (α : K) (x : Vec K) (β : K) (y : Vec K) : Vec K :=
  if S.prm.adjustP = 1 then
    let y0 := Amgcl.spmv α S.KppP x β y
    vmul α (S.Ld.getD #[]) x 1 y0
  else if S.prm.adjustP = 2 then
    Amgcl.spmv α (S.Lm.getD S.KppP) x β y
  else Amgcl.spmv α S.KppP x β y

/-- `spmv(alpha, x, beta, y)`: `y = beta y + alpha S x` with the matrix-free `S = Kpp - Kpu Kuu^-1 Kup` -/
def State.spmv (S : State K) (U : Vec K → Vec K) (α : K) (x : Vec K) (β : K) (y : Vec K) : Vec K :=
  let y1 := S.kppPart α x β y
  let tmp := Amgcl.spmv 1 S.Kup x 0 (vclear S.nu)
  let u := if S.prm.approxSchur then vmul 1 (S.M.getD #[]) tmp 0 (vclear S.nu) else U tmp
  Amgcl.spmv (-α) S.Kpu u 1 y1

/-- `apply(rhs, x)`; `none` for a `type` other than 1 and 2 (the code then scatters stale scratch) -/
def State.apply (S : State K) (U Ps : Vec K → Vec K) (rhs : Vec K) : Option (Vec K) :=
  let rhsu := Amgcl.spmv 1 S.x2u rhs 0 (vclear S.nu)
  let rhsp := Amgcl.spmv 1 S.x2p rhs 0 (vclear S.np)
  let up : Option (Vec K × Vec K) :=
    if S.prm.type = 1 then
      let u := U rhsu
      let rhsp := Amgcl.spmv (-1) S.Kpu u 1 rhsp
      let p := Ps rhsp
      let rhsu := Amgcl.spmv (-1) S.Kup p 1 rhsu
      let u := U rhsu
      some (u, p)
    else if S.prm.type = 2 then
      let p := Ps rhsp
      let rhsu := Amgcl.spmv (-1) S.Kup p 1 rhsu
      let u := U rhsu
      some (u, p)
    else none
  match up with
  | none => none
  | some (u, p) =>
    let x := Amgcl.spmv 1 S.u2x u 0 (vclear S.n)
    some (Amgcl.spmv 1 S.p2x p 1 x)

/-- `backend::residual(rhs, S, x, r)` on the object (`residual_impl`, :623-631): `copy(rhs, r); S.spmv(-1, x, 1, r)` —
what a pressure solver that re-evaluates the true residual (GMRES family after every cycle, any solver started from
a non-zero guess) computes -/
def State.residual (S : State K) (U : Vec K → Vec K) (rhs x : Vec K) : Vec K :=
  S.spmv U (-1) x 1 (vcopy rhs)

/-- the matrix-free operator applied to the unit vectors: column `j` of the dense `np × np` matrix -/
def State.sCol (S : State K) (U : Vec K → Vec K) (j : Nat) : Vec K :=
  S.spmv U 1 (Array.ofFn (n := S.np) (fun i => if i.val = j then (1 : K) else 0)) 0 (vclear S.np)

end apply

end Amgcl.Schur
