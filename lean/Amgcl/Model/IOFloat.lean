import Amgcl.Model.IOMM
/-!
# Executable stand-in for the libc number codec (`printf("%.20e")` / `strtod`) — core Lean only

Used **only by the driver** (`Driver/IO.lean`) so that the MatrixMarket model can be executed on real files; no
theorem mentions these functions — in `Properties/C19.lean` the scalar codec is an abstract `Codec`.  A binary64
value is represented by its exact rational value.  `parseDoubleTok` is libstdc++'s conversion of an accumulated
`num_get` token (`strtod` with round-to-nearest-even, then "whole token consumed" and "not ±HUGE_VAL" checks);
`printSci20` is `os << std::scientific << std::setprecision(20) << x` (exact decimal expansion rounded
half-even to 21 significant digits, as glibc does).  Their agreement with libc is a tested fact
(correspondence run + the labelled `io_libc_roundtrip` test of the harness), not a proved one.
-/
namespace Amgcl.IO

def pow2 (k : Nat) : Nat := 2 ^ k

/-- round the positive rational `num/den` to the nearest binary64 value (ties to even); `none` on overflow -/
def roundBin64 (num den : Nat) : Option Rat :=
  let l : Int := (Nat.log2 num : Int) - (Nat.log2 den : Int)
  let e0 : Int := if l - 53 < -1074 then -1074 else l - 53
  let fl := fun (e : Int) => if e ≥ 0 then num / (den * pow2 e.toNat) else (num * pow2 (-e).toNat) / den
  let e : Int := if fl e0 ≥ pow2 53 then e0 + 1 else e0
  let N := if e ≥ 0 then num else num * pow2 (-e).toNat
  let D := if e ≥ 0 then den * pow2 e.toNat else den
  let q := N / D
  let rem := N % D
  let q' := if 2 * rem > D then q + 1 else if 2 * rem = D then (if q % 2 = 1 then q + 1 else q) else q
  if e ≥ 0 then
    (if q' * pow2 e.toNat ≥ pow2 1024 then none else some ((q' * pow2 e.toNat : Nat) : Rat))
  else some (mkRat (q' : Int) (pow2 (-e).toNat))

def numDigits (n : Nat) : Nat := (Nat.toDigits 10 n).length

/-- conversion of the token accumulated by `floatTok`; `none` = `failbit` -/
def parseDoubleTok (tok : Bytes) : Option Rat :=
  let (neg, s) := match tok with
    | 45 :: t => (true, t)
    | 43 :: t => (false, t)
    | _ => (false, tok)
  let ip := s.takeWhile isDigit
  let s := s.dropWhile isDigit
  let (fp, s) := match s with
    | 46 :: t => (t.takeWhile isDigit, t.dropWhile isDigit)
    | _ => ([], s)
  if ip.isEmpty && fp.isEmpty then none else
  let expo : Option Int := match s with
    | [] => some 0
    | 101 :: t =>
      let (eneg, t) := match t with
        | 45 :: u => (true, u)
        | 43 :: u => (false, u)
        | _ => (false, t)
      if t.isEmpty || !t.all isDigit then none
      else some (if eneg then -(decVal t : Int) else (decVal t : Int))
    | _ => none
  match expo with
  | none => none
  | some ex =>
    let M := decVal (ip ++ fp)
    if M = 0 then some 0 else
    let E : Int := ex - fp.length
    let mag : Int := (numDigits M : Int) + E
    if mag > 310 then none                 -- ≥ 1e310: `strtod` returns HUGE_VAL → failbit
    else if mag < -330 then some 0         -- < 1e-330: underflows to zero (no failbit)
    else
      let r := if E ≥ 0 then roundBin64 (M * 10 ^ E.toNat) 1 else roundBin64 M (10 ^ (-E).toNat)
      match r with
      | none => none
      | some v => some (if neg then -v else v)

def padLeft (k : Nat) (l : Bytes) : Bytes := List.replicate (k - l.length) 48 ++ l

/-- `%.20e` -/
def printSci20 (r : Rat) : Bytes :=
  let a := r.num.natAbs
  let b := r.den
  let sign : Bytes := if r.num < 0 then [45] else []
  if a = 0 then sign ++ [48, 46] ++ List.replicate 20 48 ++ [101, 43, 48, 48] else
  let k0 : Int := (numDigits a : Int) - (numDigits b : Int)
  -- is a/b ≥ 10^k0 ?
  let ge := if k0 ≥ 0 then decide (a ≥ b * 10 ^ k0.toNat) else decide (a * 10 ^ (-k0).toNat ≥ b)
  let k : Int := if ge then k0 else k0 - 1
  -- D = round(a/b * 10^(20-k))
  let sh : Int := 20 - k
  let N := if sh ≥ 0 then a * 10 ^ sh.toNat else a
  let Dn := if sh ≥ 0 then b else b * 10 ^ (-sh).toNat
  let q := N / Dn
  let rem := N % Dn
  let q' := if 2 * rem > Dn then q + 1 else if 2 * rem = Dn then (if q % 2 = 1 then q + 1 else q) else q
  let (digits, k) := if q' = 10 ^ 21 then (10 ^ 20, k + 1) else (q', k)
  let ds := natDec digits
  let es := padLeft 2 (natDec k.natAbs)
  sign ++ ds.take 1 ++ [46] ++ ds.drop 1 ++ [101, if k < 0 then 45 else 43] ++ es

def doubleCodec : Codec Rat := ⟨printSci20, parseDoubleTok⟩

end Amgcl.IO
