import Amgcl.Model.Basic
/-!
# Heap cells with an "ever written" flag (C10: no result may depend on uninitialised heap memory)

A cell of a heap array holds a value — after a fresh uninitialised allocation (`new T[n]`, `numa_vector(n, false)`,
`crs::set_size(n, m)`, `crs::set_nonzeros(k)`) that value is whatever the heap contained before, the parameter `junk`
of `alloc` — and the flag `written`, set by every store.  A load of a cell that was never written is the outcome
`uninit` of the models built on this file; a result all of whose cells are `written` and whose values do not depend on
`junk` is a function of the inputs only.  (The older `Model/Definedness.lean` uses `Option` cells, i.e. forgets the
junk value; the flag form lets the theorems be STATED as "two different initial heaps give the same result".)
-/
namespace Amgcl
namespace Defined

structure Cell (α : Type) where
  val : α
  written : Bool
deriving Repr, DecidableEq

variable {α : Type}

/-- a fresh uninitialised allocation: `junk` is the prior content of the memory -/
def alloc (junk : Array α) : Array (Cell α) := junk.map (fun v => ⟨v, false⟩)

/-- a value-initialised allocation (`std::vector<T>(n, v)`, `numa_vector(n)`) -/
def allocInit (n : Nat) (v : α) : Array (Cell α) := Array.replicate n ⟨v, true⟩

/-- cells that all hold written values -/
def written (a : Array α) : Array (Cell α) := a.map (fun v => ⟨v, true⟩)

/-- the values, flags forgotten -/
def erase (a : Array (Cell α)) : Array α := a.map (·.val)

/-- every cell has been written -/
def allWritten (a : Array (Cell α)) : Bool := a.all (·.written)

/-- store -/
def store (a : Array (Cell α)) (i : Nat) (v : α) : Array (Cell α) := a.setIfInBounds i ⟨v, true⟩

/-- load: `none` when the cell was never written (or lies outside the array) -/
def load (a : Array (Cell α)) (i : Nat) : Option α :=
  match a[i]? with
  | some c => if c.written then some c.val else none
  | none => none

end Defined
end Amgcl
