import Amgcl.Model.SolverGMRES
import Amgcl.Model.SolverFGMRES
import Amgcl.Model.SolverGivensStar
/-!
# GMRES / FGMRES at a value type whose `math::adjoint` is a parameter `conj : K → K` — core Lean only

`Model/SolverGivens.lean` models `solver/detail/givens_rotations.hpp` at a real scalar, where `math::adjoint` is the identity and
is not written.  For `std::complex<T>` (`amgcl/value_type/complex.hpp`: `adjoint(x) = conj(x)`) two statements conjugate:

* `generate_plane_rotation`: `identity + math::adjoint(tmp) * tmp` (as of /repo 7b3c7d8) — `genRotHerm` of
  `Model/SolverGivensStar.lean`,
* `apply_plane_rotation`: `tmp = adjoint(cs) * dx + adjoint(sn) * dy` — `applyRotStar`.

Everything else of gmres.hpp / fgmres.hpp is conjugation-free apart from `inner_product`, which is the parameter `ip` anyway.  The
definitions below are the `…C` versions (extra FIRST argument `conj`) of exactly those functions of `SolverGivens` / `SolverGMRES` /
`SolverFGMRES` that reach the two statements (`rotCol`, `rotate`, `hessStep`, `step`, `inner`, `cycle`, `outer`, `run`, `solve`,
`call`); `head`, `stop`, `cont`, `cycleStart`, `update`, `init`, `mgs`, `orth`, `backSubst` are shared.  At `conj = id` every `…C`
function IS the real-valued one (`Proofs/SolverGMRESC.lean`: `GMRES.runC_id`, `FGMRES.runC_id`), so the real-valued ops and
theorems are untouched and the complex model is not a second text.

`std::abs(dy) > std::abs(dx)` is `absK dx < absK dy` as in `genRot` (at the carrier of Gaussian rationals the order is the one
amgcl declares for complex numbers, by magnitude, under which `absK` is the identity).
-/
namespace Amgcl.Solver

section ops
variable {K : Type} [Add K] [Mul K] [Sub K] [Neg K] [Zero K] [One K] [Div K] [DecidableEq K] [LT K] [DecidableLT K]

/-- `std::abs(a) < std::abs(b)` -/
def absLtK (a b : K) : Bool := decide (absK a < absK b)

/-- gmres.hpp:227-228 with `apply_plane_rotation` as written for a value type with adjoint `conj` -/
def rotColC (conj : K → K) (j : Nat) (H : FArr2 K) (cs sn : FArr K) : FArr2 K :=
  (List.range j).foldl (fun H k =>
      let p := applyRotStar conj (H k j) (H (k + 1) j) (cs k) (sn k)
      setF2 (setF2 H (k + 1) j p.2) k j p.1) H

/-- gmres.hpp:227-234 (`rotate`) with the adjoints written out -/
def rotateC (conj : K → K) (sqrt : K → K) (j : Nat) (h : Hess K) (H2 : FArr2 K) : Hess K × K :=
  let H3 := rotColC conj j H2 h.cs h.sn
  let g := genRotHerm sqrt conj absLtK (H3 j j) (H3 (j + 1) j)       -- generate_plane_rotation(H(j,j), H(j+1,j), cs[j], sn[j]);
  let cs := setF h.cs j g.1
  let sn := setF h.sn j g.2
  let p := applyRotStar conj (H3 j j) (H3 (j + 1) j) (cs j) (sn j)   -- apply_plane_rotation(H(j,j), H(j+1,j), cs[j], sn[j]);
  let H4 := setF2 (setF2 H3 (j + 1) j p.2) j j p.1
  let q := applyRotStar conj (h.s j) (h.s (j + 1)) (cs j) (sn j)     -- apply_plane_rotation(s[j], s[j+1], cs[j], sn[j]);
  let s := setF (setF h.s (j + 1) q.2) j q.1
  (⟨H4, s, cs, sn⟩, absK (s (j + 1)))                               -- inner_res = std::abs(s[j+1]);

def hessStepC (conj : K → K) (ip : Vec K → Vec K → K) (sqrt : K → K) (v : FArr (Vec K)) (j : Nat) (h : Hess K)
    (vnew : Vec K) : Hess K × Vec K × K :=
  let o := orth ip sqrt v j h.H vnew
  let r := rotateC conj sqrt j h o.1
  (r.1, o.2, r.2)

end ops

namespace GMRES
variable {K : Type} [Add K] [Mul K] [Sub K] [Neg K] [Zero K] [One K] [Div K] [DecidableEq K] [LT K] [DecidableLT K]

def stepC (conj : K → K) (side : Side) (ip : Vec K → Vec K → K) (sqrt : K → K) (A : CRS K) (P : Vec K → Vec K)
    (t : In K) : In K :=
  let w := t.w
  let j := t.j
  let xt := pspmv side P A (w.v j) (w.v (j + 1)) w.r
  let hs := hessStepC conj ip sqrt w.v j w.h xt.1
  { j := j + 1, iter := t.iter + 1, innerRes := hs.2.2,
    w := { h := hs.1, r := xt.2, v := setF w.v (j + 1) hs.2.1 } }

def innerC (conj : K → K) (prm : Params K) (ip : Vec K → Vec K → K) (sqrt : K → K) (A : CRS K) (P : Vec K → Vec K)
    (epsT : K) (st : St K) : In K :=
  doWhile (cont prm.maxiter prm.M epsT) (stepC conj prm.pside ip sqrt A P) prm.M (cycleStart st)

def cycleC (conj : K → K) (prm : Params K) (ip : Vec K → Vec K → K) (sqrt : K → K) (A : CRS K) (P : Vec K → Vec K)
    (epsT : K) (st : St K) : St K :=
  update prm.pside P st (innerC conj prm ip sqrt A P epsT st)

def outerC (conj : K → K) (prm : Params K) (ip : Vec K → Vec K → K) (sqrt : K → K) (A : CRS K) (P : Vec K → Vec K)
    (f : Vec K) (epsT : K) : Nat → St K → St K :=
  loopN (fun s => !stop prm.maxiter epsT s)
    (fun s => head prm.pside ip sqrt A P f (cycleC conj prm ip sqrt A P epsT s))

def runC (conj : K → K) (prm : Params K) (ip : Vec K → Vec K → K) (sqrt : K → K) (eps : K) (A : CRS K)
    (P : Vec K → Vec K) (ws : Work K) (f x0 : Vec K) : Run K (Work K) :=
  match prologueA prm.nsSearch ip sqrt eps f with
  | .trivial n => (.ok (0, n), vclear x0.size, ws)
  | .go normRhs =>
    let epsT := maxK (prm.tol * normRhs) prm.abstol
    let st := outerC conj prm ip sqrt A P f epsT prm.maxiter (init prm ip sqrt A P ws f x0)
    (.ok (st.iter, st.normR / normRhs), st.x, st.w)

def solveC (conj : K → K) (prm : Params K) (ip : Vec K → Vec K → K) (sqrt : K → K) (eps : K) (A : CRS K)
    (P : Vec K → Vec K) (ws : Work K) (f x0 : Vec K) : Except Err (Nat × K × Vec K × Work K) :=
  (runC conj prm ip sqrt eps A P ws f x0).toExcept

def callC (conj : K → K) (prm : Params K) (ip : Vec K → Vec K → K) (sqrt : K → K) (eps : K) (w : Work K)
    (c : Call K) : Obs K × Work K :=
  let r := runC conj prm ip sqrt eps c.A c.P w c.f c.x0
  (r.obs, r.ws)

end GMRES

namespace FGMRES
variable {K : Type} [Add K] [Mul K] [Sub K] [Neg K] [Zero K] [One K] [Div K] [DecidableEq K] [LT K] [DecidableLT K]

def stepC (conj : K → K) (ip : Vec K → Vec K → K) (sqrt : K → K) (A : CRS K) (P : Vec K → Vec K) (t : In K) : In K :=
  let w := t.w
  let j := t.j
  let zj := P (w.v j)
  let vnew := spmv 1 A zj 0 (w.v (j + 1))
  let hs := hessStepC conj ip sqrt w.v j w.h vnew
  { j := j + 1, iter := t.iter + 1, innerRes := hs.2.2,
    w := { h := hs.1, v := setF w.v (j + 1) hs.2.1, z := setF w.z j zj } }

def innerC (conj : K → K) (prm : Params K) (ip : Vec K → Vec K → K) (sqrt : K → K) (A : CRS K) (P : Vec K → Vec K)
    (epsT : K) (st : St K) : In K :=
  doWhile (cont prm.maxiter prm.M epsT) (stepC conj ip sqrt A P) prm.M (cycleStart st)

def cycleC (conj : K → K) (prm : Params K) (ip : Vec K → Vec K → K) (sqrt : K → K) (A : CRS K) (P : Vec K → Vec K)
    (epsT : K) (st : St K) : St K :=
  update st (innerC conj prm ip sqrt A P epsT st)

def outerC (conj : K → K) (prm : Params K) (ip : Vec K → Vec K → K) (sqrt : K → K) (A : CRS K) (P : Vec K → Vec K)
    (f : Vec K) (epsT : K) : Nat → St K → St K :=
  loopN (fun s => !stop prm.maxiter epsT s) (fun s => head ip sqrt A f (cycleC conj prm ip sqrt A P epsT s))

def runC (conj : K → K) (prm : Params K) (ip : Vec K → Vec K → K) (sqrt : K → K) (eps : K) (A : CRS K)
    (P : Vec K → Vec K) (ws : Work K) (f x0 : Vec K) : Run K (Work K) :=
  match prologueA prm.nsSearch ip sqrt eps f with
  | .trivial n => (.ok (0, n), vclear x0.size, ws)
  | .go normRhs =>
    let epsT := maxK (prm.tol * normRhs) prm.abstol
    let st := outerC conj prm ip sqrt A P f epsT prm.maxiter (init ip sqrt A ws f x0)
    (.ok (st.iter, st.normR / normRhs), st.x, st.w)

def solveC (conj : K → K) (prm : Params K) (ip : Vec K → Vec K → K) (sqrt : K → K) (eps : K) (A : CRS K)
    (P : Vec K → Vec K) (ws : Work K) (f x0 : Vec K) : Except Err (Nat × K × Vec K × Work K) :=
  (runC conj prm ip sqrt eps A P ws f x0).toExcept

def callC (conj : K → K) (prm : Params K) (ip : Vec K → Vec K → K) (sqrt : K → K) (eps : K) (w : Work K)
    (c : Call K) : Obs K × Work K :=
  let r := runC conj prm ip sqrt eps c.A c.P w c.f c.x0
  (r.obs, r.ws)

end FGMRES
end Amgcl.Solver
