import Amgcl.Model.Basic
/-!
# `amgcl::solver::skyline_lu<V, ordering>` (solver/skyline_lu.hpp:85-309) — core Lean only

The object state is `Skyline V R`: `n`, the ordering `perm`, the profile pointer array `ptr` (`n+1` entries), the
strictly lower rows `L`, the strictly upper columns `U` (both `ptr[n]` entries: row/column `i` occupies
`[ptr[i], ptr[i+1])` and ends next to the diagonal), the **inverted** pivots `D`, and the `mutable` scratch vector `y`.
`V` is the value type, `R = rhs_of<V>` the right-hand side type (`V = R` for scalars, `static_matrix<T,N,N>` /
`static_matrix<T,N,1>` for blocks); `isZero` is `math::is_zero`, `inv` is `math::inverse`.

* `build`      — the constructor (98-176) up to, not including, the call of `factorize()`.  The ordering
  (`ordering::get(A, perm)`, Cuthill–McKee by default) is an **input** `perm` of the model; everything else is as
  written: inverse permutation, the two traversals of the CRS rows in stored order (explicit zeros are skipped, a
  duplicated entry overwrites the earlier one), the prefix-sum transformation of `ptr`.
* `factorize`  — Crout's algorithm in place (247-308), outcome `none` = `precondition` failure (zero pivot).
* `solve`      — `operator()` (178-200) with the scratch `y` and the incoming content of the output `x` explicit.

C++ `int` index expressions such as `k + 1 - ptr[k+2] + ptr[k+1]` are written with the additions first
(`k + 1 + ptr[k+1] - ptr[k+2]`) so that natural-number subtraction does not truncate on any profile with
`ptr[j+1] - ptr[j] ≤ j` (which `build` always produces: `Properties/C16.lean`, `skyline_build_profile`).
The running indices `indexEntry`, `indexL`, `indexU` of the loops are given in closed form.
-/
namespace Amgcl

structure Skyline (V R : Type) where
  n    : Nat
  perm : Array Nat
  ptr  : Array Nat
  L    : Array V
  U    : Array V
  D    : Array V
  y    : Array R

/-- outcome of the constructor: `precondition` thrown by `factorize()` or the factorised object -/
inductive SkyOutcome (α : Type) where
  | precondition : SkyOutcome α
  | ok : α → SkyOutcome α

namespace Skyline
variable {V R : Type}

@[inline] def P (S : Skyline V R) (i : Nat) : Nat := S.ptr.getD i 0

section build
variable [Zero V] [Zero R]

/-- `for i < n: invperm[perm[i]] = i` on a zero-initialised `std::vector<int>(n)` -/
def invPerm (n : Nat) (perm : Array Nat) : Array Nat :=
  (List.range n).foldl (fun ip i => ip.setIfInBounds (perm.getD i 0) i) (Array.replicate n 0)

/-- first traversal (117-136): provisional `ptr[i]` = required length of row `i` / height of column `i` -/
def profileLens (isZero : V → Bool) (A : CRS V) (n : Nat) (invperm : Array Nat) : Array Nat :=
  (List.range n).foldl (fun ptr i =>
    (A.row i).foldl (fun ptr cv =>
      let newi := invperm.getD i 0
      let newj := invperm.getD cv.1 0
      if !isZero cv.2 then
        if newi > newj then
          (if ptr.getD newi 0 < newi - newj then ptr.setIfInBounds newi (newi - newj) else ptr)
        else if newi < newj then
          (if ptr.getD newj 0 < newj - newi then ptr.setIfInBounds newj (newj - newi) else ptr)
        else ptr
      else ptr) ptr) (Array.replicate (n + 1) 0)

/-- the transformation 138-147: `last = 0; for i = 1..n: tmp = ptr[i]; ptr[i] = ptr[i-1] + last; last = tmp` -/
def prefixPtr (n : Nat) (ptr : Array Nat) : Array Nat :=
  ((List.range' 1 n).foldl (fun (st : Array Nat × Nat) i =>
      let tmp := st.1.getD i 0
      (st.1.setIfInBounds i (st.1.getD (i - 1) 0 + st.2), tmp)) (ptr, 0)).1

/-- second traversal (153-173): copy the entries into `L`, `U`, `D` -/
def fillLUD (isZero : V → Bool) (A : CRS V) (n : Nat) (invperm ptr : Array Nat)
    (LUD : Array V × Array V × Array V) : Array V × Array V × Array V :=
  (List.range n).foldl (fun LUD i =>
    (A.row i).foldl (fun (LUD : Array V × Array V × Array V) cv =>
      let newi := invperm.getD i 0
      let newj := invperm.getD cv.1 0
      if !isZero cv.2 then
        if newi < newj then (LUD.1, LUD.2.1.setIfInBounds (ptr.getD (newj + 1) 0 + newi - newj) cv.2, LUD.2.2)
        else if newi = newj then (LUD.1, LUD.2.1, LUD.2.2.setIfInBounds newi cv.2)
        else (LUD.1.setIfInBounds (ptr.getD (newi + 1) 0 + newj - newi) cv.2, LUD.2.1, LUD.2.2)
      else LUD) LUD) LUD

/-- the constructor before `factorize()` -/
def build (isZero : V → Bool) (A : CRS V) (perm : Array Nat) : Skyline V R :=
  let n := A.nrows
  let invperm := invPerm n perm
  let ptr := prefixPtr n (profileLens isZero A n invperm)
  let len := ptr.getD n 0        -- ptr.back()
  let LUD := fillLUD isZero A n invperm ptr (Array.replicate len 0, Array.replicate len 0, Array.replicate n 0)
  { n := n, perm := perm, ptr := ptr, L := LUD.1, U := LUD.2.1, D := LUD.2.2, y := Array.replicate n 0 }

end build

section factorize
variable [Zero V] [Mul V] [Sub V]

/-- `sum -= L[indexL + t] * U[indexU + t]` for `t < cnt` -/
def dotSub (L U : Array V) (indexL indexU cnt : Nat) (sum : V) : V :=
  (List.range cnt).foldl (fun s t => s - L.getD (indexL + t) 0 * U.getD (indexU + t) 0) sum

/-- "Compute column k+1 of U" (257-275) -/
def factorColU (S : Skyline V R) (k : Nat) : Array V :=
  let iBeginCol := k + 1 + S.P (k + 1) - S.P (k + 2)
  (List.range' iBeginCol (k + 1 - iBeginCol)).foldl (fun U i =>
    if i = 0 then U else
    let indexEntry := S.P (k + 1) + (i - iBeginCol)
    let jBeginRow := i + S.P i - S.P (i + 1)
    let jBeginMult := max iBeginCol jBeginRow
    let indexL := S.P i + jBeginMult - jBeginRow
    let indexU := S.P (k + 1) + jBeginMult - iBeginCol
    let sum := dotSub S.L U indexL indexU (i - jBeginMult) (U.getD indexEntry 0)
    U.setIfInBounds indexEntry (S.D.getD i 0 * sum)) S.U

/-- "Compute row k+1 of L" (277-296); `U` is the already updated array -/
def factorRowL (S : Skyline V R) (U : Array V) (k : Nat) : Array V :=
  let iBeginCol := k + 1 + S.P (k + 1) - S.P (k + 2)
  let jBeginRow := iBeginCol
  (List.range' iBeginCol (k + 1 - iBeginCol)).foldl (fun L i =>
    if i = 0 then L else
    let indexEntry := S.P (k + 1) + (i - iBeginCol)
    let jBeginCol := i + S.P i - S.P (i + 1)
    let jBeginMult := max jBeginCol jBeginRow
    let indexL := S.P (k + 1) + jBeginMult - jBeginRow
    let indexU := S.P i + jBeginMult - jBeginCol
    let sum := dotSub L U indexL indexU (i - jBeginMult) (L.getD indexEntry 0)
    L.setIfInBounds indexEntry sum) S.L

/-- the pivot candidate of step `k` (298-301): `sum = D[k+1]; for j in [ptr[k+1], ptr[k+2]): sum -= L[j]*U[j]` -/
def pivotSum (S : Skyline V R) (k : Nat) : V :=
  dotSub S.L S.U (S.P (k + 1)) (S.P (k + 1)) (S.P (k + 2) - S.P (k + 1)) (S.D.getD (k + 1) 0)

/-- the part of one `k` iteration before the zero test: scaling of `U(0,k+1)`, column of `U`, row of `L` -/
def factorStepLU (S : Skyline V R) (k : Nat) : Skyline V R :=
  let S :=
    if S.P (k + 1) + k + 1 = S.P (k + 2)
    then { S with U := S.U.setIfInBounds (S.P (k + 1)) (S.D.getD 0 0 * S.U.getD (S.P (k + 1)) 0) }
    else S
  let U := factorColU S k
  let L := factorRowL S U k
  { S with L := L, U := U }

/-- one iteration `k` of the main loop of `factorize` -/
def factorStep (isZero : V → Bool) (inv : V → V) (S : Skyline V R) (k : Nat) : SkyOutcome (Skyline V R) :=
  let S := factorStepLU S k
  let sum := pivotSum S k
  if isZero sum then .precondition
  else .ok { S with D := S.D.setIfInBounds (k + 1) (inv sum) }

/-- the first `m` iterations of the main loop (stops at the first failed `precondition`) -/
def factorLoop (isZero : V → Bool) (inv : V → V) (S : Skyline V R) : Nat → SkyOutcome (Skyline V R)
  | 0 => .ok S
  | m + 1 =>
    match factorLoop isZero inv S m with
    | .precondition => .precondition
    | .ok S' => factorStep isZero inv S' m

/-- `factorize()` -/
def factorize (isZero : V → Bool) (inv : V → V) (S : Skyline V R) : SkyOutcome (Skyline V R) :=
  if S.n = 0 then .ok S                       -- `if (n == 0) return;` (fix of finding F42: `D[0]` does not exist)
  else if isZero (S.D.getD 0 0) then .precondition
  else factorLoop isZero inv { S with D := S.D.setIfInBounds 0 (inv (S.D.getD 0 0)) } (S.n - 1)

end factorize

section solve
variable [Zero V] [Zero R] [Sub R] [HMul V R R]

/-- forward substitution, row `i` (184-191) -/
def fwdStep (S : Skyline V R) (rhs : Array R) (y : Array R) (i : Nat) : Array R :=
  let sum := (List.range' (S.P i) (S.P (i + 1) - S.P i)).foldl
    (fun s k => s - S.L.getD k 0 * y.getD (i + k - S.P (i + 1)) 0) (rhs.getD (S.perm.getD i 0) 0)
  y.setIfInBounds i (S.D.getD i 0 * sum)

/-- backward substitution, column `j` (193-197) -/
def bwdStep (S : Skyline V R) (y : Array R) (j : Nat) : Array R :=
  (List.range' (S.P j) (S.P (j + 1) - S.P j)).foldl
    (fun y k =>
      let i := j + k - S.P (j + 1)
      y.setIfInBounds i (y.getD i 0 - S.U.getD k 0 * y.getD j 0)) y

/-- `operator()(rhs, x)`: returns the output vector (scattered into the incoming `x`) and the scratch `y` -/
def solve (S : Skyline V R) (rhs x : Array R) : Array R × Array R :=
  let y := (List.range S.n).foldl (fwdStep S rhs) S.y
  let y := (List.range S.n).reverse.foldl (bwdStep S) y
  let x := (List.range S.n).foldl (fun x i => x.setIfInBounds (S.perm.getD i 0) (y.getD i 0)) x
  (x, y)

end solve

/-- constructor + first call of `operator()`: `none` = `precondition` -/
def constructAndSolve [Zero V] [Zero R] [Mul V] [Sub V] [Sub R] [HMul V R R]
    (isZero : V → Bool) (inv : V → V) (A : CRS V) (perm : Array Nat) (y0 : Option (Array R)) (rhs x : Array R) :
    SkyOutcome (Skyline V R × Array R) :=
  match factorize isZero inv (build (R := R) isZero A perm) with
  | .precondition => .precondition
  | .ok S =>
    let S := match y0 with | some y => { S with y := y } | none => S
    let (x, y) := solve S rhs x
    .ok ({ S with y := y }, x)

end Skyline

/-- executable permutation predicate (V-grade checker for `cuthill_mckee::get`, hypothesis of the skyline theorems):
`perm` has `n` entries, all `< n`, pairwise distinct -/
def isPermB (n : Nat) (perm : Array Nat) : Bool :=
  perm.size == n && perm.toList.all (fun v => decide (v < n)) && decide perm.toList.Nodup

end Amgcl
