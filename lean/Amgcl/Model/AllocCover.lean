/-!
# Cover map for the uninitialised-allocation sites of the library (C10, DESIGN.md §3 C10)

`tools/alloc_sites.py` regenerates the table of sites (`Amgcl.Generated.AllocSites.sites`) from the sources on every
run; THIS file is hand-written and says, per site key (`file|struct::function|array[#k]`, no line numbers), HOW the site
is accounted for:

* `.thm name`     — a Lean definedness theorem (`Properties/C10.lean`, `Properties/C10c.lean`): for every well-formed
                    input every allocated cell is written before it is read and the result does not depend on the
                    initial heap contents;  the generated file checks that the named theorem exists;
* `.poison h`     — exercised under allocation poisoning by harness `h` of tools/checks/C10.json: `h_pipeline` runs
                    every case with the fresh heap filled with 0x00 / 0xFF / 0xAA / PRNG bytes and compares the results
                    bitwise (double); the `*_poison` harnesses are the exact-correspondence harnesses of other properties
                    re-run under a PRNG fill (comparison with the Lean model and the exact oracles).
                    `tools/alloc_cover.py` checks after every run that the allocation tracker (harness/poison.hpp) really
                    saw the site in that harness; a site with no theorem that no run exercised is reported under
                    `uncovered_sites` and fails the obligation.

A site may have both.  A NEW site in the sources (e.g. `numa_vector<T> t(n)` turned into `t(n, false)`) has no entry here,
so `Amgcl.Generated.AllocSites.alloc_sites_covered` fails.
-/
namespace Amgcl.AllocCover

structure Site where
  file : String
  func : String
  line : Nat
  array : String
  kind : String
  key : String
deriving DecidableEq, Repr

inductive Cover where
  | thm (name : String)
  | poison (harness : String)
deriving DecidableEq, Repr

/-- site key ↦ how it is covered -/
def cover : List (String × List Cover) := [
  ("amgcl/adapter/block_matrix.hpp|unblock_matrix|A.ptr", [.thm "Amgcl.C10d.unblock_ptr_defined", .poison "h_pipeline"]),
  ("amgcl/backend/builtin.hpp|crs::crs|col", [.thm "Amgcl.C10c.clone_defined", .poison "h_pipeline"]),
  ("amgcl/backend/builtin.hpp|crs::crs|col#2", [.thm "Amgcl.C10c.crs_copy_defined", .poison "h_pipeline"]),
  ("amgcl/backend/builtin.hpp|crs::crs|col#3", [.thm "Amgcl.C10c.clone_defined", .poison "h_pipeline"]),
  ("amgcl/backend/builtin.hpp|crs::crs|ptr", [.thm "Amgcl.C10c.clone_defined", .poison "h_pipeline"]),
  ("amgcl/backend/builtin.hpp|crs::crs|ptr#2", [.thm "Amgcl.C10c.crs_copy_defined", .poison "h_pipeline"]),
  ("amgcl/backend/builtin.hpp|crs::crs|ptr#3", [.thm "Amgcl.C10c.clone_defined", .poison "h_pipeline"]),
  ("amgcl/backend/builtin.hpp|crs::crs|val", [.thm "Amgcl.C10c.clone_defined", .poison "h_pipeline"]),
  ("amgcl/backend/builtin.hpp|crs::crs|val#2", [.thm "Amgcl.C10c.crs_copy_defined", .poison "h_pipeline"]),
  ("amgcl/backend/builtin.hpp|crs::crs|val#3", [.thm "Amgcl.C10c.clone_defined", .poison "h_pipeline"]),
  ("amgcl/backend/builtin.hpp|crs::operator=|col", [.thm "Amgcl.C10c.clone_defined", .poison "h_pipeline"]),
  ("amgcl/backend/builtin.hpp|crs::operator=|ptr", [.thm "Amgcl.C10c.clone_defined", .poison "h_pipeline"]),
  ("amgcl/backend/builtin.hpp|crs::operator=|val", [.thm "Amgcl.C10c.clone_defined", .poison "h_pipeline"]),
  ("amgcl/backend/builtin.hpp|crs::set_nonzeros|col", [.thm "Amgcl.C10c.two_pass_defined", .poison "h_pipeline"]),
  ("amgcl/backend/builtin.hpp|crs::set_nonzeros|this.col+val", [.thm "Amgcl.C10d.set_nonzeros_zero_defined", .thm "Amgcl.C10d.transpose_defined", .poison "h_pipeline"]),
  ("amgcl/backend/builtin.hpp|crs::set_nonzeros|val", [.thm "Amgcl.C10c.two_pass_defined", .poison "h_pipeline"]),
  ("amgcl/backend/builtin.hpp|crs::set_size|ptr", [.thm "Amgcl.C10c.two_pass_defined", .poison "h_pipeline"]),
  ("amgcl/backend/builtin.hpp|diagonal|dia", [.thm "Amgcl.C10.diagonal_always_defined", .poison "h_pipeline"]),
  ("amgcl/backend/builtin.hpp|numa_vector::numa_vector|p", [.thm "Amgcl.C10c.fill_vec_defined", .poison "h_pipeline"]),
  ("amgcl/backend/builtin.hpp|numa_vector::numa_vector|p#2", [.thm "Amgcl.C10c.fill_vec_defined", .poison "h_pipeline"]),
  ("amgcl/backend/builtin.hpp|numa_vector::numa_vector|p#3", [.thm "Amgcl.C10c.fill_vec_defined", .poison "h_pipeline"]),
  ("amgcl/backend/builtin.hpp|numa_vector::resize|p", [.thm "Amgcl.C10c.fill_vec_defined", .poison "h_pipeline"]),
  ("amgcl/backend/builtin.hpp|pointwise_matrix|Ap.col+val", [.thm "Amgcl.C10d.pointwise_matrix_defined", .poison "h_pipeline"]),
  ("amgcl/backend/builtin.hpp|spectral_radius|b0", [.thm "Amgcl.C10d.spectral_radius_power_defined", .poison "h_pipeline"]),
  ("amgcl/backend/builtin.hpp|spectral_radius|b1", [.thm "Amgcl.C10d.spectral_radius_power_defined", .poison "h_pipeline"]),
  ("amgcl/backend/builtin.hpp|sum|C.col+val", [.thm "Amgcl.C10.sum_cells_all_written", .poison "h_pipeline"]),
  ("amgcl/backend/builtin.hpp|sum|C.ptr", [.thm "Amgcl.C10.sum_cells_all_written", .poison "h_pipeline"]),
  ("amgcl/coarsening/ruge_stuben.hpp|ruge_stuben::connect|S.col", [.thm "Amgcl.C10b.connect_indep_heap", .poison "h_pipeline"]),
  ("amgcl/coarsening/ruge_stuben.hpp|ruge_stuben::connect|S.ptr", [.thm "Amgcl.C10b.connect_indep_heap", .poison "h_pipeline"]),
  ("amgcl/coarsening/ruge_stuben.hpp|ruge_stuben::connect|S.val", [.thm "Amgcl.C10.connect_defined", .thm "Amgcl.C10b.connect_flags_written", .poison "h_pipeline"]),
  ("amgcl/coarsening/ruge_stuben.hpp|ruge_stuben::operators|P.col+val", [.thm "Amgcl.C10b.prolongation_cells_all_written", .poison "h_pipeline"]),
  ("amgcl/coarsening/smoothed_aggr_emin.hpp|smoothed_aggr_emin::operators|Af.col+val", [.thm "Amgcl.C10d.emin_Af_defined", .poison "h_pipeline"]),
  ("amgcl/coarsening/smoothed_aggr_emin.hpp|smoothed_aggr_emin::operators|Af.ptr", [.thm "Amgcl.C10d.emin_Af_defined", .poison "h_pipeline"]),
  ("amgcl/coarsening/tentative_prolongation.hpp|tentative_prolongation|P.col+val", [.thm "Amgcl.C10c.tentative_prolongation_defined", .poison "h_pipeline"]),
  ("amgcl/coarsening/tentative_prolongation.hpp|tentative_prolongation|P.ptr", [.thm "Amgcl.C10d.tentative_ns_ptr_defined", .poison "h_pipeline"]),
  ("amgcl/coarsening/tentative_prolongation.hpp|tentative_prolongation|P.ptr#2", [.thm "Amgcl.C10c.tentative_prolongation_defined", .poison "h_pipeline"]),
  ("amgcl/detail/spgemm.hpp|spgemm_rmerge|C.col+val", [.thm "Amgcl.C10f.spgemm_rmerge_defined", .poison "h_pipeline"]),
  ("amgcl/detail/spgemm.hpp|spgemm_rmerge|C.ptr", [.thm "Amgcl.C10f.spgemm_rmerge_defined", .poison "h_pipeline"]),
  ("amgcl/detail/spgemm.hpp|spgemm_saad|C.col+val", [.thm "Amgcl.C10.product_cells_all_written", .poison "h_pipeline"]),
  ("amgcl/detail/spgemm.hpp|spgemm_saad|C.ptr", [.thm "Amgcl.C10.product_cells_all_written", .poison "h_pipeline"]),
  ("amgcl/mpi/coarsening/pmis.hpp|pmis::conn_strength|S_loc.col", [.thm "Amgcl.C10i.pmis_strength_col_defined", .poison "h_mpi_solve_poison"]),
  ("amgcl/mpi/coarsening/pmis.hpp|pmis::conn_strength|S_loc.val", [.thm "Amgcl.C10i.pmis_strength_val_defined", .poison "h_mpi_solve_poison"]),
  ("amgcl/mpi/coarsening/pmis.hpp|pmis::conn_strength|S_rem.col", [.thm "Amgcl.C10i.pmis_strength_col_defined", .poison "h_mpi_solve_poison"]),
  ("amgcl/mpi/coarsening/pmis.hpp|pmis::conn_strength|S_rem.val", [.thm "Amgcl.C10i.pmis_strength_val_defined", .poison "h_mpi_solve_poison"]),
  ("amgcl/mpi/coarsening/pmis.hpp|pmis::squared_interface|S_loc.col", [.poison "h_mpi_solve_poison"]),
  ("amgcl/mpi/coarsening/pmis.hpp|pmis::squared_interface|S_loc.ptr", [.poison "h_mpi_solve_poison"]),
  ("amgcl/mpi/coarsening/pmis.hpp|pmis::squared_interface|S_rem.col", [.poison "h_mpi_solve_poison"]),
  ("amgcl/mpi/coarsening/pmis.hpp|pmis::squared_interface|S_rem.ptr", [.poison "h_mpi_solve_poison"]),
  ("amgcl/mpi/coarsening/pmis.hpp|pmis::tentative_prolongation|P_loc.col+val#2", [.thm "Amgcl.C10i.pmis_tentative_defined", .poison "h_mpi_solve_poison"]),
  ("amgcl/mpi/coarsening/pmis.hpp|pmis::tentative_prolongation|P_rem.col+val#2", [.thm "Amgcl.C10i.pmis_tentative_defined", .poison "h_mpi_solve_poison"]),
  ("amgcl/mpi/coarsening/smoothed_aggregation.hpp|smoothed_aggregation::operators|Af_loc_val", [.thm "Amgcl.C10i.mpi_sa_filtered_val_defined", .poison "h_mpi_solve_poison"]),
  ("amgcl/mpi/coarsening/smoothed_aggregation.hpp|smoothed_aggregation::operators|Af_rem_val", [.thm "Amgcl.C10i.mpi_sa_filtered_val_defined", .poison "h_mpi_solve_poison"]),
  ("amgcl/mpi/coarsening/smoothed_aggregation.hpp|smoothed_aggregation::operators|Df", [.poison "h_mpi_solve_poison"]),
  ("amgcl/mpi/direct_solver/solver_base.hpp|solver_base::init|A.col+val", [.thm "Amgcl.C10g.solver_base_gather_defined", .poison "h_mpi_solve_poison"]),
  ("amgcl/mpi/direct_solver/solver_base.hpp|solver_base::init|A.ptr", [.thm "Amgcl.C10g.solver_base_gather_defined", .poison "h_mpi_solve_poison"]),
  ("amgcl/mpi/direct_solver/solver_base.hpp|solver_base::init|a.col+val", [.thm "Amgcl.C10g.solver_base_local_defined", .poison "h_mpi_solve_poison"]),
  ("amgcl/mpi/direct_solver/solver_base.hpp|solver_base::init|a.ptr", [.thm "Amgcl.C10g.solver_base_local_defined", .poison "h_mpi_solve_poison"]),
  ("amgcl/mpi/distributed_matrix.hpp|distributed_matrix::distributed_matrix|A_loc.col+val", [.thm "Amgcl.C10g.dist_matrix_split_defined", .poison "h_mpi_solve_poison"]),
  ("amgcl/mpi/distributed_matrix.hpp|distributed_matrix::distributed_matrix|A_rem.col+val", [.thm "Amgcl.C10g.dist_matrix_split_defined", .poison "h_mpi_solve_poison"]),
  ("amgcl/mpi/distributed_matrix.hpp|product|C_loc.col+val", [.poison "h_mpi_solve_poison"]),
  ("amgcl/mpi/distributed_matrix.hpp|product|C_loc.ptr", [.poison "h_mpi_solve_poison"]),
  ("amgcl/mpi/distributed_matrix.hpp|product|C_rem.col+val", [.poison "h_mpi_solve_poison"]),
  ("amgcl/mpi/distributed_matrix.hpp|product|C_rem.ptr", [.poison "h_mpi_solve_poison"]),
  ("amgcl/mpi/distributed_matrix.hpp|remote_rows|B_nbr.col+val", [.thm "Amgcl.C10g.remote_rows_nbr_defined", .poison "h_mpi_solve_poison"]),
  ("amgcl/mpi/distributed_matrix.hpp|remote_rows|B_nbr.ptr", [.thm "Amgcl.C10g.remote_rows_nbr_defined", .poison "h_mpi_solve_poison"]),
  ("amgcl/mpi/distributed_matrix.hpp|remote_rows|m.col+val", [.thm "Amgcl.C10i.remote_rows_send_defined", .poison "h_mpi_solve_poison"]),
  ("amgcl/mpi/distributed_matrix.hpp|remote_rows|m.ptr", [.thm "Amgcl.C10i.remote_rows_send_defined", .poison "h_mpi_solve_poison"]),
  ("amgcl/mpi/distributed_matrix.hpp|spectral_radius|b0", [.thm "Amgcl.C10g.mpi_spectral_radius_defined", .poison "h_mpi_poison"]),
  ("amgcl/mpi/distributed_matrix.hpp|spectral_radius|b1", [.thm "Amgcl.C10g.mpi_spectral_radius_defined", .poison "h_mpi_poison"]),
  ("amgcl/mpi/distributed_matrix.hpp|spectral_radius|rem_col", [.thm "Amgcl.C10g.mpi_rem_col_defined", .poison "h_mpi_poison"]),
  ("amgcl/mpi/partition/util.hpp|graph_perm_matrix|I_loc.col+val", [.thm "Amgcl.C10g.graph_perm_matrix_defined", .poison "h_mpi_solve_poison"]),
  ("amgcl/mpi/partition/util.hpp|graph_perm_matrix|I_loc.ptr", [.thm "Amgcl.C10g.graph_perm_matrix_defined", .poison "h_mpi_solve_poison"]),
  ("amgcl/mpi/partition/util.hpp|graph_perm_matrix|I_rem.col+val", [.thm "Amgcl.C10g.graph_perm_matrix_defined", .poison "h_mpi_solve_poison"]),
  ("amgcl/mpi/partition/util.hpp|graph_perm_matrix|I_rem.ptr", [.thm "Amgcl.C10g.graph_perm_matrix_defined", .poison "h_mpi_solve_poison"]),
  ("amgcl/mpi/relaxation/spai0.hpp|spai0::spai0|m", [.thm "Amgcl.C10g.mpi_spai0_defined", .poison "h_mpi_solve_poison"]),
  ("amgcl/preconditioner/cpr.hpp|cpr::first_scalar_pass|App.col+val", [.thm "Amgcl.C10j.cpr_App_scalar_defined", .poison "h_pipeline"]),
  ("amgcl/preconditioner/cpr.hpp|cpr::first_scalar_pass|fpp.col+val", [.thm "Amgcl.C10e.cpr_fpp_defined", .poison "h_pipeline"]),
  ("amgcl/preconditioner/cpr.hpp|cpr::first_scalar_pass|fpp.ptr", [.thm "Amgcl.C10e.cpr_fpp_defined", .poison "h_pipeline"]),
  ("amgcl/preconditioner/cpr.hpp|cpr::init|App.col+val", [.thm "Amgcl.C10e.cpr_App_block_defined", .poison "h_pipeline"]),
  ("amgcl/preconditioner/cpr.hpp|cpr::init|fpp.col+val", [.thm "Amgcl.C10e.cpr_fpp_defined", .poison "h_pipeline"]),
  ("amgcl/preconditioner/cpr.hpp|cpr::init|fpp.ptr", [.thm "Amgcl.C10e.cpr_fpp_defined", .poison "h_pipeline"]),
  ("amgcl/preconditioner/cpr.hpp|cpr::init|scatter.col+val", [.thm "Amgcl.C10e.cpr_scatter_defined", .poison "h_pipeline"]),
  ("amgcl/preconditioner/cpr.hpp|cpr::init|scatter.col+val#2", [.thm "Amgcl.C10e.cpr_scatter_defined", .poison "h_pipeline"]),
  ("amgcl/preconditioner/cpr.hpp|cpr::init|scatter.ptr", [.thm "Amgcl.C10e.cpr_scatter_defined", .poison "h_pipeline"]),
  ("amgcl/preconditioner/cpr.hpp|cpr::init|scatter.ptr#2", [.thm "Amgcl.C10e.cpr_scatter_defined", .poison "h_pipeline"]),
  ("amgcl/preconditioner/cpr.hpp|cpr::update_transfer|fpp.col+val", [.thm "Amgcl.C10e.cpr_fpp_defined", .poison "h_pipeline"]),
  ("amgcl/preconditioner/cpr.hpp|cpr::update_transfer|fpp.ptr", [.thm "Amgcl.C10e.cpr_fpp_defined", .poison "h_pipeline"]),
  ("amgcl/preconditioner/cpr_drs.hpp|cpr_drs::first_scalar_pass|App.col+val", [.thm "Amgcl.C10j.cpr_drs_App_scalar_defined", .poison "h_pipeline"]),
  ("amgcl/preconditioner/cpr_drs.hpp|cpr_drs::first_scalar_pass|fpp.col+val", [.thm "Amgcl.C10e.cpr_drs_fpp_defined", .poison "h_pipeline"]),
  ("amgcl/preconditioner/cpr_drs.hpp|cpr_drs::first_scalar_pass|fpp.ptr", [.thm "Amgcl.C10e.cpr_drs_fpp_defined", .poison "h_pipeline"]),
  ("amgcl/preconditioner/cpr_drs.hpp|cpr_drs::init|App.col+val", [.thm "Amgcl.C10e.cpr_App_block_defined", .poison "h_pipeline"]),
  ("amgcl/preconditioner/cpr_drs.hpp|cpr_drs::init|fpp.col+val", [.thm "Amgcl.C10e.cpr_drs_fpp_defined", .poison "h_pipeline"]),
  ("amgcl/preconditioner/cpr_drs.hpp|cpr_drs::init|fpp.ptr", [.thm "Amgcl.C10e.cpr_drs_fpp_defined", .poison "h_pipeline"]),
  ("amgcl/preconditioner/cpr_drs.hpp|cpr_drs::init|scatter.col+val", [.thm "Amgcl.C10e.cpr_scatter_defined", .poison "h_pipeline"]),
  ("amgcl/preconditioner/cpr_drs.hpp|cpr_drs::init|scatter.col+val#2", [.thm "Amgcl.C10e.cpr_scatter_defined", .poison "h_pipeline"]),
  ("amgcl/preconditioner/cpr_drs.hpp|cpr_drs::init|scatter.ptr", [.thm "Amgcl.C10e.cpr_scatter_defined", .poison "h_pipeline"]),
  ("amgcl/preconditioner/cpr_drs.hpp|cpr_drs::init|scatter.ptr#2", [.thm "Amgcl.C10e.cpr_scatter_defined", .poison "h_pipeline"]),
  ("amgcl/preconditioner/cpr_drs.hpp|cpr_drs::update_transfer|fpp.col+val", [.thm "Amgcl.C10e.cpr_drs_fpp_defined", .poison "h_pipeline"]),
  ("amgcl/preconditioner/cpr_drs.hpp|cpr_drs::update_transfer|fpp.ptr", [.thm "Amgcl.C10e.cpr_drs_fpp_defined", .poison "h_pipeline"]),
  ("amgcl/preconditioner/schur_pressure_correction.hpp|schur_pressure_correction::init|Kpp.col+val", [.thm "Amgcl.C10f.schur_block_defined", .poison "h_pipeline"]),
  ("amgcl/preconditioner/schur_pressure_correction.hpp|schur_pressure_correction::init|Kpu.col+val", [.thm "Amgcl.C10f.schur_block_defined", .poison "h_pipeline"]),
  ("amgcl/preconditioner/schur_pressure_correction.hpp|schur_pressure_correction::init|Kup.col+val", [.thm "Amgcl.C10f.schur_block_defined", .poison "h_pipeline"]),
  ("amgcl/preconditioner/schur_pressure_correction.hpp|schur_pressure_correction::init|Kuu.col+val", [.thm "Amgcl.C10f.schur_block_defined", .poison "h_pipeline"]),
  ("amgcl/preconditioner/schur_pressure_correction.hpp|schur_pressure_correction::init|L", [.thm "Amgcl.C10f.schur_L_defined", .poison "h_pipeline"]),
  ("amgcl/relaxation/ilu0.hpp|ilu0::ilu0|D", [.thm "Amgcl.C10c.ilu0_defined", .poison "h_pipeline"]),
  ("amgcl/relaxation/ilu0.hpp|ilu0::ilu0|L.col+val", [.thm "Amgcl.C10d.ilu0_LU_defined", .poison "h_pipeline"]),
  ("amgcl/relaxation/ilu0.hpp|ilu0::ilu0|L.ptr", [.thm "Amgcl.C10d.ilu0_LU_defined", .poison "h_pipeline"]),
  ("amgcl/relaxation/ilu0.hpp|ilu0::ilu0|U.col+val", [.thm "Amgcl.C10d.ilu0_LU_defined", .poison "h_pipeline"]),
  ("amgcl/relaxation/ilu0.hpp|ilu0::ilu0|U.ptr", [.thm "Amgcl.C10d.ilu0_LU_defined", .poison "h_pipeline"]),
  ("amgcl/relaxation/iluk.hpp|iluk::iluk|D", [.thm "Amgcl.C10d.iluk_D_defined", .poison "h_pipeline"]),
  ("amgcl/relaxation/ilup.hpp|ilup::ilup|P.val", [.thm "Amgcl.C10f.ilup_Pval_defined", .poison "h_pipeline"]),
  ("amgcl/relaxation/ilup.hpp|symb_product|C.col", [.thm "Amgcl.C10f.ilup_symb_product_defined", .poison "h_pipeline"]),
  ("amgcl/relaxation/ilup.hpp|symb_product|C.ptr", [.thm "Amgcl.C10f.ilup_symb_product_defined", .poison "h_pipeline"]),
  ("amgcl/relaxation/ilut.hpp|ilut::ilut|D", [.thm "Amgcl.C10d.ilut_D_defined", .poison "h_pipeline"]),
  ("amgcl/relaxation/ilut.hpp|ilut::ilut|L.col+val", [.thm "Amgcl.C10d.ilut_LU_defined", .poison "h_pipeline"]),
  ("amgcl/relaxation/ilut.hpp|ilut::ilut|L.ptr", [.thm "Amgcl.C10d.ilut_LU_defined", .poison "h_pipeline"]),
  ("amgcl/relaxation/ilut.hpp|ilut::ilut|U.col+val", [.thm "Amgcl.C10d.ilut_LU_defined", .poison "h_pipeline"]),
  ("amgcl/relaxation/ilut.hpp|ilut::ilut|U.ptr", [.thm "Amgcl.C10d.ilut_LU_defined", .poison "h_pipeline"]),
  ("amgcl/relaxation/spai0.hpp|spai0::spai0|m", [.thm "Amgcl.C10c.spai0_defined", .poison "h_pipeline"])]

def coveredKeys : List String := cover.map (·.1)

/-- certificate check used by the generated obligation: the translator supplies, for every site, the position of its
key in `coveredKeys`; the kernel only has to compare one pair of strings per site -/
def checkIdx (keys : List String) : List Site → List Nat → Bool
  | [], [] => true
  | s :: ss, i :: is => decide (keys[i]? = some s.key) && checkIdx keys ss is
  | _, _ => false

theorem checkIdx_sound (keys : List String) : ∀ (sites : List Site) (idx : List Nat),
    checkIdx keys sites idx = true → ∀ s ∈ sites, s.key ∈ keys
  | [], _, _, s, hs => by cases hs
  | s :: ss, [], h, _, _ => by simp [checkIdx] at h
  | s :: ss, i :: is, h, t, ht => by
    simp only [checkIdx, Bool.and_eq_true, decide_eq_true_eq] at h
    rcases List.mem_cons.mp ht with rfl | ht
    · exact List.mem_of_getElem? h.1
    · exact checkIdx_sound keys ss is h.2 t ht

end Amgcl.AllocCover
