/-!
# `amgcl::detail::QR<value_type>` for real scalars (detail/qr.hpp:89-465) — core Lean only

A loop-by-loop model of the Householder QR ported from LAPACK (`ZGEQR2`, `ZUNG2R`, `ZLARFG`, `ZLARF`) for a real scalar
`value_type` (`math::adjoint` is the identity, `math::norm` is `std::abs`, `detail::real` is the identity).  It is used
for the exact correspondence and is the subject of the theorems of `Properties/C16b.lean` (reflector lemma, `A = Q·R`,
least-squares / minimum-norm `solve`, under the hypothesis that `sqrt` returns exact roots); `sqrt` is a
parameter (DESIGN.md §2.1), the driver passes `Amgcl.rsqrt`.

All matrices live in flat buffers addressed with explicit strides, as in the C++ code:
`A[i*row_stride + j*col_stride]`.

The members `tau`, `f`, `q` of the object are `std::vector`s that are only ever `resize`d, so they carry values from one
call to the next.  The `…S` functions thread them explicitly (`Obj`); `compute` / `factorize` / `solve` are the calls on a
default-constructed object and `runSeq` is a sequence of calls on one object (op `direct_qr_seq`).
-/
namespace Amgcl
namespace QRModel

variable {K : Type} [Zero K] [One K] [Add K] [Sub K] [Mul K] [Div K] [Neg K] [LT K] [DecidableLT K] [DecidableEq K]

def absQ (x : K) : K := if x < 0 then -x else x
@[inline] def sqrQ (x : K) : K := x * x

/-- `gen_reflector(order, alpha = A[ai], x = A + xi, stride)` (ZLARFG): returns `tau` and the updated buffer -/
def genReflector (sqrt : K → K) (order : Nat) (A : Array K) (ai xi stride : Nat) : K × Array K :=
  if order ≤ 1 then (0, A) else
  let n := order - 1
  let xnorm2 : K := (List.range n).foldl (fun s i => s + sqrQ (absQ (A.getD (xi + i * stride) 0))) 0
  if xnorm2 = 0 then (0, A) else
  let alpha := A.getD ai 0
  let beta0 : K := - absQ (sqrt (sqrQ (absQ alpha) + xnorm2))
  let beta : K := if alpha < 0 then - beta0 else beta0
  let tau : K := 1 - (1 / beta) * alpha
  let alpha' : K := 1 / (alpha - beta * 1)
  let A := (List.range n).foldl (fun A i => A.setIfInBounds (xi + i * stride) (alpha' * A.getD (xi + i * stride) 0)) A
  (tau, A.setIfInBounds ai (beta * 1))

/-- `apply_reflector(m, n, v = V + vi, v_stride, tau, C + ci, row_stride, col_stride)` (ZLARF).  `V` is the buffer the
reflector vector is read from (its cells are never written by this call, also when `V` and `C` are the same array). -/
def applyReflector (m n : Nat) (V : Array K) (vi vs : Nat) (tau : K) (C : Array K) (ci rs cs : Nat) : Array K :=
  if tau = 0 then C else
  (List.range n).foldl (fun C i =>
    let ia := ci + i * cs
    let s : K := (List.range' 1 (m - 1)).foldl (fun s j => s + C.getD (ia + j * rs) 0 * V.getD (vi + j * vs) 0) (C.getD ia 0)
    let s := tau * s
    let C := C.setIfInBounds ia (C.getD ia 0 - s)
    (List.range' 1 (m - 1)).foldl (fun C j => C.setIfInBounds (ia + j * rs) (C.getD (ia + j * rs) 0 - V.getD (vi + j * vs) 0 * s)) C) C

/-- `std::vector<value_type>::resize(k)`: truncation, or growth by value-initialised (zero) elements; the surviving
elements keep their values -/
def resizeZ (a : Array K) (k : Nat) : Array K := Array.ofFn (n := k) (fun i => a.getD i.val 0)

/-- the members of a `QR` object that survive from one call to the next: `tau`, `f`, `q` (`std::vector`s that are only ever
`resize`d).  `r` points into the caller's buffer, which the model passes explicitly; `m`, `n` and the strides are only read by
the accessors `R(i,j)` / `Q(i,j)`, which the model takes as arguments. -/
structure Obj (K : Type) where
  tau : Array K
  f   : Array K
  q   : Array K

/-- a default-constructed object -/
def Obj.fresh : Obj K := ⟨#[], #[], #[]⟩

/-- `compute(rows, cols, row_stride, col_stride, A)` (ZGEQR2) on an object whose member `tau` holds `tau0`: returns the
buffer (R above, reflectors below the diagonal) and the member `tau` (`tau.resize(k)`, then `tau[i] = …` for `i < k`) -/
def computeS (sqrt : K → K) (m n rs cs : Nat) (A : Array K) (tau0 : Array K) : Array K × Array K :=
  let k := min m n
  if k = 0 then (A, tau0) else
  (List.range k).foldl (fun (st : Array K × Array K) i =>
    let ii := i * (rs + cs)
    let (t, A) := genReflector sqrt (m - i) st.1 ii (ii + rs) rs
    let tau := st.2.setIfInBounds i t
    let A := if i + 1 < n then applyReflector (m - i) (n - i - 1) A ii rs (tau.getD i 0) A (ii + cs) rs cs else A
    (A, tau)) (A, resizeZ tau0 k)

/-- `compute` on a fresh object -/
def compute (sqrt : K → K) (m n rs cs : Nat) (A : Array K) : Array K × Array K :=
  computeS sqrt m n rs cs A #[]

/-- `factorize(rows, cols, row_stride, col_stride, A)` (ZUNG2R) on the object `o`: returns the buffer and the object
(`q.resize(m*n)` keeps what an earlier call left in `q`) -/
def factorizeS (sqrt : K → K) (m n rs cs : Nat) (A : Array K) (o : Obj K) : Array K × Obj K :=
  let (A, tau) := computeS sqrt m n rs cs A o.tau
  let k := min m n
  let q : Array K := resizeZ o.q (m * n)
  -- columns k..n-1
  let q := (List.range m).foldl (fun q i =>
    (List.range' k (n - k)).foldl (fun q j => q.setIfInBounds (i * rs + j * cs) (if i = j then 1 else 0)) q) q
  let q := (List.range k).reverse.foldl (fun q i =>
    let ic := i * cs
    let ii := i * (rs + cs)
    let t := tau.getD i 0
    let q := if i + 1 < n then applyReflector (m - i) (n - i - 1) A ii rs t q (ii + cs) rs cs else q
    let q := (List.range i).foldl (fun q j => q.setIfInBounds (j * rs + ic) 0) q
    let q := q.setIfInBounds ii (1 - t)
    (List.range' (i + 1) (m - (i + 1))).foldl (fun q j => q.setIfInBounds (j * rs + ic) (- t * A.getD (j * rs + ic) 0)) q) q
  (A, { o with tau := tau, q := q })

/-- `factorize` on a fresh object: returns the buffer, `tau` and `q` -/
def factorize (sqrt : K → K) (m n rs cs : Nat) (A : Array K) : Array K × Array K × Array K :=
  let (A, o) := factorizeS sqrt m n rs cs A Obj.fresh
  (A, o.tau, o.q)

/-- `R(i,j)` -/
def getR (A : Array K) (rs cs i j : Nat) : K := if j < i then 0 else A.getD (i * rs + j * cs) 0
/-- `Q(i,j)` -/
def getQ (q : Array K) (rs cs i j : Nat) : K := q.getD (i * rs + j * cs) 0

/-- `solve(rows, cols, row_stride, col_stride, A, b, x, computed = false)` on the object `o`: returns `x` and the object
(`f.resize(rows); std::copy(b, b + rows, f.begin())`) -/
def solveS (sqrt : K → K) (rows cols rs cs : Nat) (A b : Array K) (o : Obj K) : Array K × Obj K :=
  let f : Array K := (List.range rows).foldl (fun f i => f.setIfInBounds i (b.getD i 0)) (resizeZ o.f rows)
  if rows ≥ cols then
    let (A, tau) := computeS sqrt rows cols rs cs A o.tau
    let f := (List.range cols).foldl (fun f i =>
      applyReflector (rows - i) 1 A (i * (rs + cs)) rs (tau.getD i 0) f i 1 1) f
    let x : Array K := Array.ofFn (n := cols) (fun i => f.getD i 0)
    let x := (List.range cols).reverse.foldl (fun x i =>
      let rii := A.getD (i * (rs + cs)) 0
      if rii = 0 then x else
      let x := x.setIfInBounds i ((1 / rii) * x.getD i 0)
      (List.range i).foldl (fun x j => x.setIfInBounds j (x.getD j 0 - A.getD (i * cs + j * rs) 0 * x.getD i 0)) x) x
    (x, { o with tau := tau, f := f })
  else
    -- A[i] = adjoint(A[i]) is the identity for real scalars; QR of the transposed matrix via swapped strides
    let (A, tau) := computeS sqrt cols rows cs rs A o.tau
    let f := (List.range rows).foldl (fun f i =>
      let rii := A.getD (i * (rs + cs)) 0
      if rii = 0 then f else
      let f := f.setIfInBounds i ((1 / rii) * f.getD i 0)
      (List.range' (i + 1) (rows - (i + 1))).foldl (fun f j =>
        f.setIfInBounds j (f.getD j 0 - A.getD (i * cs + j * rs) 0 * f.getD i 0)) f) f
    let x : Array K := Array.ofFn (n := cols) (fun i => if i.val < rows then f.getD i.val 0 else 0)
    let x := (List.range rows).reverse.foldl (fun x i =>
      applyReflector (cols - i) 1 A (i * (cs + rs)) cs (tau.getD i 0) x i 1 1) x
    (x, { o with tau := tau, f := f })

/-- `solve` on a fresh object: returns `x` -/
def solve (sqrt : K → K) (rows cols rs cs : Nat) (A b : Array K) : Array K :=
  (solveS sqrt rows cols rs cs A b Obj.fresh).1

/-- one call on a reused object: `factorize` (result: the factorised buffer and the member `q`) or `solve` (result: `x`) -/
inductive Call (K : Type) where
  | factorize (m n rs cs : Nat) (A : Array K)
  | solve (rows cols rs cs : Nat) (A b : Array K)

/-- a sequence of calls on ONE object, starting from a default-constructed one: the results in order.  For `factorize` the
result is `(buffer, q)`, for `solve` it is `(x, #[])`. -/
def runSeq (sqrt : K → K) (calls : List (Call K)) : List (Array K × Array K) :=
  (calls.foldl (fun (st : Obj K × List (Array K × Array K)) c =>
    match c with
    | .factorize m n rs cs A =>
      let (F, o) := factorizeS sqrt m n rs cs A st.1
      (o, (F, o.q) :: st.2)
    | .solve rows cols rs cs A b =>
      let (x, o) := solveS sqrt rows cols rs cs A b st.1
      (o, (x, #[]) :: st.2)) (Obj.fresh, [])).2.reverse

end QRModel
end Amgcl
