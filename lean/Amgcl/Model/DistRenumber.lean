import Amgcl.Model.PlainAggregates
/-!
# The renumbering step of `mpi::coarsening::pmis::aggregates` (pmis.hpp:628-703), as written

After the PMIS rounds some aggregates may have lost every member (a later seed on another rank takes its immediate
neighbours unconditionally, l.511-529 / l.608-609).  Each rank then drops its vanished aggregates and renumbers the
rest; ranks that hold unknowns of other ranks' aggregates are told the new numbers.

Global view used by the model: unknown `i` (global number) has `state[i]` (`≥ 0`: number of its aggregate in the
numbering of the OWNING rank, negative: deleted / none) and `owner[i]` (rank that created the aggregate, `-1` none).
Rank `r` can read the unknowns of `vis r` = its own rows followed by the columns of the receive list of the
squared-interface pattern `Sp` (`rem_state`, `rem_owner` are current copies: l.620-622, l.631-633).

* l.635-644  `new_id` (`naggr + 1` zeros); `new_id[state + 1] = 1` for every visible unknown with `owner = r`,
  `state ≥ 0` (own rows first, then the receive list)                                            — `marks`
* l.646      `std::partial_sum(new_id)`                                                          — `newIds`
* l.648      `comm.reduce(MPI_SUM, naggr - new_id.back()) > 0`                                   — `anyVanished`
* l.649      `naggr = new_id.back()`                                                             — `kept`
* l.651-655  own rows with `owner = r`, `state ≥ 0`: `state = new_id[state]`;
  l.661-694  receive-list unknowns with `rem_owner = r`, `rem_state ≥ 0`: `(c, new_id[rem_state])` is sent to the
  rank of `c`, which stores it in `loc_state[c]`                                                 — `applyRank`

All reads are of the state before the step: a rank renumbers in place only rows it owns AND whose aggregate it owns,
messages are computed from `rem_state`, and a received message overwrites a row whose aggregate belongs to the sender.
-/
namespace Amgcl
namespace DistRenumber
open Coarsening

/-- l.635-644 -/
def marks (naggr : Nat) (r : Int) (state owner : Array Int) (vis : List Nat) : Array Int :=
  vis.foldl (fun a i =>
    if owner.getD i (-1) = r ∧ state.getD i (-1) ≥ 0 then a.setIfInBounds ((state.getD i (-1)).toNat + 1) 1 else a)
    (Array.replicate (naggr + 1) 0)

/-- l.646 -/
def newIds (naggr : Nat) (r : Int) (state owner : Array Int) (vis : List Nat) : Array Int :=
  partialSum (marks naggr r state owner vis)

/-- `new_id.back()` -/
def kept (naggr : Nat) (r : Int) (state owner : Array Int) (vis : List Nat) : Int :=
  (newIds naggr r state owner vis).getD naggr 0

/-- l.648: the global number of vanished aggregates is positive -/
def vanished (naggr : List Nat) (state owner : Array Int) (vis : List (List Nat)) : Int :=
  naggr.zipIdx.foldl (fun s nr => s + ((nr.1 : Int) - kept nr.1 (nr.2 : Int) state owner (vis.getD nr.2 []))) 0

/-- the writes caused by rank `r` (l.651-655 on its own rows, l.661-694 through messages on other ranks' rows) -/
def applyRank (naggr : Nat) (r : Nat) (pre owner : Array Int) (vis : List Nat) (cur : Array Int) : Array Int :=
  let nid := newIds naggr (r : Int) pre owner vis
  vis.foldl (fun a i =>
    if owner.getD i (-1) = (r : Int) ∧ pre.getD i (-1) ≥ 0 then a.setIfInBounds i (nid.getD (pre.getD i (-1)).toNat 0)
    else a) cur

/-- l.628-703 -/
def renumberStep (naggr : List Nat) (state owner : Array Int) (vis : List (List Nat)) : List Nat × Array Int :=
  if 0 < vanished naggr state owner vis then
    (naggr.zipIdx.map (fun nr => (kept nr.1 (nr.2 : Int) state owner (vis.getD nr.2 [])).toNat),
     naggr.zipIdx.foldl (fun cur nr => applyRank nr.1 nr.2 state owner (vis.getD nr.2 []) cur) state)
  else (naggr, state)

/-- what the PMIS rounds guarantee on entry: shapes, aggregate numbers below the owner's count, every unknown of an
aggregate of rank `r` is visible to `r` -/
def inputOk (naggr : List Nat) (state owner : Array Int) (vis : List (List Nat)) : Bool :=
  owner.size == state.size && vis.length == naggr.length &&
  vis.all (fun v => v.all (fun i => decide (i < state.size))) &&
  (List.range state.size).all fun i =>
    let o := owner.getD i (-1)
    let s := state.getD i (-1)
    decide (o < (naggr.length : Int)) &&
    (decide (o < 0) || decide (s < 0) ||
      (decide (s < (naggr.getD o.toNat 0 : Int)) && (vis.getD o.toNat []).contains i))

end DistRenumber
end Amgcl
