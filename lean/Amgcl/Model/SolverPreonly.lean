import Amgcl.Model.SolverCommon
/-!
# `amgcl::solver::preonly::operator()(A, P, rhs, x)` — solver/preonly.hpp:95-101

`P.apply(rhs, x); return (0, 0);` — no parameters, no work vectors, the matrix is not used, the reported
residual is the constant `0` (preonly is not an iterative method; it is outside the truthfulness claim of C01).
-/
namespace Amgcl.Solver.Preonly
open Amgcl Amgcl.Solver

/-- preonly has no work vectors -/
abbrev Work (_K : Type) := Unit

variable {K : Type} [Zero K]

def run (_ip : Vec K → Vec K → K) (_sqrt : K → K) (_eps : K) (_A : CRS K) (P : Vec K → Vec K)
    (ws : Work K) (f _x0 : Vec K) : Run K (Work K) :=
  (.ok (0, 0), P f, ws)

def solve (ip : Vec K → Vec K → K) (sqrt : K → K) (eps : K) (A : CRS K) (P : Vec K → Vec K)
    (ws : Work K) (f x0 : Vec K) : Except Err (Nat × K × Vec K × Work K) :=
  (run ip sqrt eps A P ws f x0).toExcept

end Amgcl.Solver.Preonly
