import Amgcl.Model.SolverCommon
/-!
# `amgcl::solver::richardson::operator()(A, P, rhs, x)` — solver/richardson.hpp:144-180

No `pside`.  The residual is recomputed from `x` in every iteration (richardson.hpp:172).
-/
namespace Amgcl.Solver.Richardson
open Amgcl Amgcl.Solver

/-- the `mutable` members `r, s` (richardson.hpp:213-214) -/
structure Work (K : Type) where
  r : Vec K
  s : Vec K

def Work.fresh {K : Type} [Zero K] (n : Nat) : Work K := ⟨Array.replicate n 0, Array.replicate n 0⟩

/-- `richardson::params`: the common fields + `damping` -/
structure Params (K : Type) extends Amgcl.Solver.Params K where
  damping : K

variable {K : Type} [Add K] [Mul K] [Sub K] [Neg K] [Zero K] [One K] [Div K] [DecidableEq K] [LT K] [DecidableLT K]

/-- the map `x ↦ x + ω·P(f − A x)` exactly as the loop body computes it (richardson.hpp:170-171):
`P.apply(*r, *s); axpby(damping, *s, one, x)` with `r = residual(rhs, A, x)` -/
def step (damping : K) (A : CRS K) (P : Vec K → Vec K) (f x : Vec K) : Vec K :=
  axpby damping (P (residual f A x)) 1 x

/-- loop-carried variables, the caller's `x` and the work vectors -/
structure St (K : Type) where
  iter : Nat
  res  : K
  x    : Vec K
  w    : Work K

/-- one pass through the loop body, richardson.hpp:170-173, including the `++iter` -/
def body (damping : K) (ip : Vec K → Vec K → K) (sqrt : K → K) (A : CRS K) (P : Vec K → Vec K)
    (f : Vec K) (st : St K) : St K :=
  let s := P st.w.r                       -- P.apply(*r, *s);
  let x := axpby damping s 1 st.x         -- axpby(prm.damping, *s, one, x);
  let r := residual f A x                 -- residual(rhs, A, x, *r);
  { iter := st.iter + 1, res := nrm ip sqrt r, x := x, w := ⟨r, s⟩ }   -- res_norm = norm(*r);

/-- the second conjunct of the loop guard: `math::norm(res_norm) > eps` -/
def cond (epsT : K) (st : St K) : Bool := decide (epsT < absK st.res)

/-- `for(; iter < prm.maxiter && math::norm(res_norm) > eps; ++iter) body` with `fuel = maxiter - iter` -/
def loop (damping : K) (ip : Vec K → Vec K → K) (sqrt : K → K) (A : CRS K) (P : Vec K → Vec K) (f : Vec K)
    (epsT : K) : Nat → St K → St K :=
  loopN (cond epsT) (body damping ip sqrt A P f)

/-- the state on loop entry, richardson.hpp:164-165 -/
def init (ip : Vec K → Vec K → K) (sqrt : K → K) (A : CRS K) (ws : Work K) (f x0 : Vec K) : St K :=
  let r := residual f A x0                                -- residual(rhs, A, x, *r);
  { iter := 0, res := nrm ip sqrt r, x := x0, w := { ws with r := r } }   -- res_norm = norm(*r);

def run (prm : Params K) (ip : Vec K → Vec K → K) (sqrt : K → K) (eps : K) (A : CRS K) (P : Vec K → Vec K)
    (ws : Work K) (f x0 : Vec K) : Run K (Work K) :=
  match prologue prm.nsSearch ip sqrt eps f with
  | .trivial n => (.ok (0, n), vclear x0.size, ws)       -- clear(x); return (0, norm_rhs);
  | .go normRhs =>
    let epsT := maxK (prm.tol * normRhs) prm.abstol       -- eps = std::max(prm.tol * norm_rhs, prm.abstol);
    let st := loop prm.damping ip sqrt A P f epsT prm.maxiter (init ip sqrt A ws f x0)
    (.ok (st.iter, st.res / normRhs), st.x, st.w)         -- return (iter, res_norm / norm_rhs);

def solve (prm : Params K) (ip : Vec K → Vec K → K) (sqrt : K → K) (eps : K) (A : CRS K) (P : Vec K → Vec K)
    (ws : Work K) (f x0 : Vec K) : Except Err (Nat × K × Vec K × Work K) :=
  (run prm ip sqrt eps A P ws f x0).toExcept

/-- one call on a solver object in work-vector state `w`: the observable result and the next state -/
def call (prm : Params K) (ip : Vec K → Vec K → K) (sqrt : K → K) (eps : K) (w : Work K) (c : Call K) :
    Obs K × Work K :=
  let r := run prm ip sqrt eps c.A c.P w c.f c.x0
  (r.obs, r.ws)

end Amgcl.Solver.Richardson
