import Amgcl.Model.PointwiseMatrix
/-!
# V-grade (verified checker) predicates of C04 — executable, evaluated by the driver on the implementation's output

* Ruge–Stuben (`ruge_stuben.hpp`): the C/F splitting and the truncation bookkeeping are not modelled; instead
  `rsRowSumCheck A P` decides, on the `P` the real code returned, that every zero-row-sum row of `A` with a strong
  neighbour *in the sense of `connect()`* (`a_ij < eps_strong · min_k a_ik`, `|min| ≥ eps`) has a row of `P` summing
  to one.
* null-space branch of `tentative_prolongation.hpp:134-207` (`detail::QR<double>` on `std::vector<double>`
  whatever the value type): `ptentShape`, `reproducesB` (`P_tent · B_coarse = B` on aggregated rows, up to `tol`),
  `orthonormalCols` (`P_tentᵀ P_tent = I` on the columns of every aggregate, up to `tol`).

Soundness lemmas (predicate = true ⟹ the denotational statement): `Proofs/CoarseningChecks.lean`.
-/
namespace Amgcl
namespace Coarsening
section
variable {K : Type} [Add K] [Mul K] [Sub K] [Neg K] [Zero K] [One K] [DecidableEq K] [LT K] [DecidableLT K]

/-- sum of the stored values of a row -/
def rowSumList (r : Row K) : K := r.foldl (fun s cv => s + cv.2) 0

/-- `connect()` l.291-294: minimum over the off-diagonal entries, starting from zero -/
def rsAmin (i : Nat) (r : Row K) : K := r.foldl (fun m cv => if cv.1 != i then stdMin m cv.2 else m) 0

/-- row `i` has a strong connection in the sense of `connect()` l.296-306 -/
def rsHasStrong (norm : K → K) (tiny epsStrong : K) (i : Nat) (r : Row K) : Bool :=
  let amin := rsAmin i r
  if norm amin < tiny then false else r.any (fun cv => cv.1 != i && decide (cv.2 < amin * epsStrong))

/-- the rows the property speaks about: zero row sum and a strong neighbour -/
def rsCheckRows (norm : K → K) (tiny epsStrong : K) (A : CRS K) : List Nat :=
  (List.range A.nrows).filter fun i =>
    decide (rowSumList (A.row i) = 0) && rsHasStrong norm tiny epsStrong i (A.row i)

def rowSumOneOn (P : CRS K) (rows : List Nat) : Bool := rows.all fun i => decide (rowSumList (P.row i) = 1)

/-- verdict and number of rows checked -/
def rsRowSumCheck (norm : K → K) (tiny epsStrong : K) (A P : CRS K) : Bool × Nat :=
  let rows := rsCheckRows norm tiny epsStrong A
  (P.wfb && P.nrows == A.nrows && rowSumOneOn P rows, rows.length)

/-! ### null-space branch -/

/-- `|x| ≤ tol` without an absolute value -/
def within (tol x : K) : Bool := !decide (tol < x) && !decide (tol < -x)

/-- rows not in an aggregate are empty, the others hold `cols` entries in the columns of their (block) aggregate -/
def ptentShape (bs cols : Nat) (id : Array Int) (P : CRS K) : Bool :=
  P.nrows == id.size && (List.range id.size).all fun i =>
    let a := id.getD i (-1)
    if a < 0 then (P.row i).isEmpty
    else ((P.row i).map (·.1)) == (List.range cols).map (fun jj => (a.toNat / bs) * cols + jj)

/-- `(P_tent · B_coarse)[i,k]` with `B_coarse` stored row-major, `cols` columns -/
def ptentTimesB (cols : Nat) (Bc : Array K) (r : Row K) (k : Nat) : K :=
  r.foldl (fun s cv => s + cv.2 * Bc.getD (cv.1 * cols + k) 0) 0

/-- `P_tent · B_coarse = B` on aggregated rows, entrywise up to `tol` -/
def reproducesB (tol : K) (cols : Nat) (id : Array Int) (P : CRS K) (Bc B : Array K) : Bool :=
  (List.range id.size).all fun i =>
    id.getD i (-1) < 0 || (List.range cols).all fun k =>
      within tol (ptentTimesB cols Bc (P.row i) k - B.getD (i * cols + k) 0)

/-- entry `(c, c')` of `P_tentᵀ P_tent` -/
def gramEntry (P : CRS K) (c c' : Nat) : K :=
  (List.range P.nrows).foldl (fun s i => s + rowGet (P.row i) c * rowGet (P.row i) c') 0

/-- the columns of `P_tent` are orthonormal up to `tol` (all pairs of columns) -/
def orthonormalCols (tol : K) (P : CRS K) : Bool :=
  (List.range P.ncols).all fun c => (List.range P.ncols).all fun c' =>
    within tol (gramEntry P c c' - if c = c' then 1 else 0)

end
end Coarsening
end Amgcl
