import Amgcl.Model.DefinedTranspose
import Amgcl.Model.PointwiseMatrix
/-!
# Cell-level models, third batch (C10): two-pass constructions whose width pass is a separate computation

* `twoPassW`   — `set_size(n, m); ptr[0] = 0; for i: ptr[i+1] = w i; scan_row_sizes(); set_nonzeros(ptr[n]);` fill from
                 the loaded `ptr[i]`, where the width `w i` is computed by its own loop (not as the length of the row
                 that the fill loop will write): `smoothed_aggr_emin` (`Af`).
* `twoPassInc` — `set_size(n, m, true)` (ptr zero-filled by the allocating call — on top of the uninitialised `new[]`),
                 `for i: (w i times) ++ptr[i+1]` (each increment LOADS the cell), scan, `set_nonzeros(ptr[n])`, fill:
                 `pointwise_matrix` (`Ap`).
The definedness theorems need `w i = |row i|`: the counting loop and the filling loop agree (proved per kernel).
-/
namespace Amgcl
namespace Defined
variable {K : Type}

/-- two-pass construction with an explicit width function -/
def twoPassW (rows : Array (Row K)) (w : Nat → Nat) (jp : Array Nat) (jc : Nat → Array Nat) (jv : Nat → Array K) :
    CrsCells K :=
  let p0 := ptrPass rows.size w (alloc jp)
  let p1 := scanCells rows.size p0
  let nnz := rd p1.1 rows.size 0
  let f := fillRows (fun i => rd p1.1 i 0) rows { col := alloc (jc nnz.1), val := alloc (jv nnz.1), ok := p1.2 && nnz.2 }
  { ptr := p1.1, col := f.col, val := f.val, ok := f.ok }

/-- `++ptr[k]`, `cnt` times: every increment loads the cell -/
def incCell (cnt k : Nat) (st : Array (Cell Nat) × Bool) : Array (Cell Nat) × Bool :=
  (List.range cnt).foldl (fun (st : Array (Cell Nat) × Bool) _ =>
    let x := rd st.1 k 0
    (store st.1 k (x.1 + 1), st.2 && x.2)) st

/-- `for i < n: (w i times) ++ptr[i+1]` -/
def incPass (n : Nat) (w : Nat → Nat) (st : Array (Cell Nat) × Bool) : Array (Cell Nat) × Bool :=
  (List.range n).foldl (fun st i => incCell (w i) (i + 1) st) st

/-- two-pass construction with a zero-filled `ptr` and a counting pass made of increments -/
def twoPassInc (rows : Array (Row K)) (w : Nat → Nat) (jp : Array Nat) (jc : Nat → Array Nat) (jv : Nat → Array K) :
    CrsCells K :=
  let pz := ptrPass rows.size (fun _ => 0) (alloc jp)          -- set_size(n, m, true)
  let pc := incPass rows.size w (pz, true)
  let p1 := scanCells rows.size pc.1
  let nnz := rd p1.1 rows.size 0
  let f := fillRows (fun i => rd p1.1 i 0) rows
    { col := alloc (jc nnz.1), val := alloc (jv nnz.1), ok := pc.2 && p1.2 && nnz.2 }
  { ptr := p1.1, col := f.col, val := f.val, ok := f.ok }

/-! ## `smoothed_aggr_emin::transfer_operators`, the filtered matrix `Af` (smoothed_aggr_emin.hpp:107-158)

An entry of `A` together with its flag `aggr.strong_connection[j]`. -/

/-- l.113-133: `row_width = row_end - row_begin`, decremented for every weak off-diagonal entry -/
def eminWidth (i : Nat) (r : List ((Nat × K) × Bool)) : Nat :=
  r.foldl (fun w e => if e.1.1 = i then w else if !e.2 then w - 1 else w) r.length

/-- l.139-157: the entries stored by the fill loop: `(i, dia[i])` for a diagonal entry, `(c, v)` for a strong one -/
def eminFillRow (i : Nat) (dia : K) (r : List ((Nat × K) × Bool)) : Row K :=
  r.filterMap fun e => if e.1.1 = i then some (i, dia) else if e.2 then some e.1 else none

/-- `Af` at cell level; `dia i` = the filtered diagonal computed in the first loop -/
def eminAfCells (rowsS : Array (List ((Nat × K) × Bool))) (dia : Nat → K) (jp : Array Nat) (jc : Nat → Array Nat)
    (jv : Nat → Array K) : CrsCells K :=
  twoPassW (Array.ofFn (n := rowsS.size) fun i => eminFillRow i.val (dia i.val) (rowsS.getD i.val []))
    (fun i => eminWidth i (rowsS.getD i []))
    jp jc jv

/-! ## a diagonal array written row by row and read below the current row (`iluk::iluk`, `ilut::ilut`: `D`)

`D = numa_vector(n, false); for i < n: { … (*D)[k] for the columns k the elimination of row i visits …; (*D)[i] = … }`.
`reads i` = the indices loaded while row `i` is processed (the lower-triangular columns of the working row, taken
from the priority queue: all `< i`), `f i xs` = the value stored into `D[i]` as a function of the loaded values (and of
the inputs). -/

def triCells {α : Type} (n : Nat) (reads : Nat → List Nat) (f : Nat → List α → α) (d : α) (junk : Array α) :
    Array (Cell α) × Bool :=
  (List.range n).foldl (fun (st : Array (Cell α) × Bool) i =>
    let xs := (reads i).map fun k => rd st.1 k d
    (store st.1 i (f i (xs.map (·.1))), st.2 && xs.all (·.2))) (alloc junk, true)

/-! ## power iteration of `backend::spectral_radius` (builtin.hpp:826-917): `b0`, `b1 = numa_vector(n, false)`

```
for i: b0[i] = rnd                                  // fill
for i: b0[i] = b0_norm * b0[i]                      // in place, loads b0[i]
for (iter = 0; iter < power_iters;) {
    for i: b1[i] = (row i of A) · b0                // loads cells of b0
    if (++iter < power_iters) { if (b1_norm == 0) break;  for i: b0[i] = b1_norm * b1[i]; }   // loads b1[i]
}
```
The arithmetic is abstract (`init`, `scale0`, `rowop`, `renorm`, `stop`); a pass that may read any cell of an array is
flagged unless that array is completely written. -/

/-- in place `for i < n: a[i] = h i a[i]` -/
def updPass {α : Type} (n : Nat) (h : Nat → α → α) (d : α) (st : Array (Cell α) × Bool) : Array (Cell α) × Bool :=
  (List.range n).foldl (fun (st : Array (Cell α) × Bool) i =>
    let x := rd st.1 i d
    (store st.1 i (h i x.1), st.2 && x.2)) st

structure PowerState (α : Type) where
  b0 : Array (Cell α)
  b1 : Array (Cell α)
  ok : Bool

def powerLoop {α : Type} (n : Nat) (rowop : Nat → Array α → α) (renorm : Array α → Nat → α) (stop : Array α → Bool) :
    Nat → PowerState α → PowerState α
  | 0, st => st
  | k + 1, st =>
    let b1 := fillVec n (fun i => rowop i (erase st.b0)) st.b1
    let ok1 := st.ok && allWritten st.b0
    if k = 0 then { b0 := st.b0, b1 := b1, ok := ok1 }
    else if stop (erase b1) then { b0 := st.b0, b1 := b1, ok := ok1 }
    else powerLoop n rowop renorm stop k
      { b0 := fillVec n (fun i => renorm (erase b1) i) st.b0, b1 := b1, ok := ok1 && allWritten b1 }

def powerCells {α : Type} (n iters : Nat) (init : Nat → α) (scale0 : Nat → α → α) (rowop : Nat → Array α → α)
    (renorm : Array α → Nat → α) (stop : Array α → Bool) (d : α) (j0 j1 : Array α) : PowerState α :=
  let u := updPass n scale0 d (fillVec n init (alloc j0), true)
  powerLoop n rowop renorm stop iters { b0 := u.1, b1 := alloc j1, ok := u.2 }

/-! ## `backend::pointwise_matrix` (builtin.hpp:500-661): the counting pass as it is written (no values) -/
namespace PwC

/-- l.543-548 / 565-570 on the pair `(done, cur_col)` -/
@[inline] def see (s : Bool × Nat) (c : Nat) : Bool × Nat :=
  if s.1 then (false, c) else (false, Coarsening.stdMin s.2 c)

/-- l.561-576: the inner `while(beg < end)` of the counting pass -/
def scan (colEnd : Nat) : Row K → Bool × Nat → (Bool × Nat) × Row K
  | [], s => (s, [])
  | (c, v) :: t, s => if c ≥ colEnd then (see s c, (c, v) :: t) else scan colEnd t s

/-- l.557-579: the `for k` loop of one round -/
def roundRows (colEnd : Nat) (rows : List (Row K)) (s : Bool × Nat) : (Bool × Nat) × List (Row K) :=
  rows.foldl (fun (acc : (Bool × Nat) × List (Row K)) r =>
    let res := scan colEnd r acc.1
    (res.1, acc.2 ++ [res.2])) (s, [])

/-- l.551-580: `while(!done) { cur_col /= block_size; ++Ap.ptr[ip+1]; … }` — the number of increments -/
def countWhile (b : Nat) : Nat → Bool → Nat → List (Row K) → Nat → Nat
  | 0, _, _, _, acc => acc
  | fuel + 1, done, curCol, rows, acc =>
    if done then acc else
      let cc := curCol / b
      let res := roundRows ((cc + 1) * b) rows (true, cc)
      countWhile b fuel res.1.1 res.1.2 res.2 (acc + 1)

/-- l.535-549 -/
def init (rows : List (Row K)) : Bool × Nat :=
  rows.foldl (fun (s : Bool × Nat) r =>
    match r with
    | [] => s
    | (c, _) :: _ => see s c) (true, 0)

/-- number of increments of `Ap.ptr[ip+1]` for one block row -/
def countBlockRow (b : Nat) (rows : List (Row K)) : Nat :=
  let s0 := init rows
  let fuel := (rows.foldl (fun n r => n + r.length) 0) + 1
  countWhile b fuel s0.1 s0.2 rows 0

end PwC

/-- `pointwise_matrix(A, b)` at cell level (for `b > 0`, `np·b = n`): `Ap.set_size(np, mp, true)`, counting pass,
`Ap.set_nonzeros(Ap.scan_row_sizes())`, filling pass from the loaded `Ap.ptr[ip]` -/
def pointwiseCells [Zero K] [LT K] [DecidableLT K] (norm : K → K) (A : CRS K) (b : Nat) (jp : Array Nat)
    (jc : Nat → Array Nat) (jv : Nat → Array K) : CrsCells K :=
  let np := A.nrows / b
  let blk := fun ip => (List.range b).map fun k => A.row (ip * b + k)
  twoPassInc (Array.ofFn (n := np) fun ip => Coarsening.pwBlockRow norm b (blk ip.val))
    (fun ip => PwC.countBlockRow b (blk ip)) jp jc jv

end Defined
end Amgcl
