import Amgcl.Model.Kernels
import Amgcl.Model.RelaxCheb
/-!
# `backend::spectral_radius<scale>(A, power_iters)`, `power_iters > 0`: the power-method branch (builtin.hpp:826-915)

Modelled loop by loop at a scalar value type, executed by one thread.  The start vector is drawn by the code from
`std::mt19937 rng(omp_get_thread_num())` through `std::uniform_real_distribution<scalar_type>(-1, 1)`; here it is an INPUT
`b0raw` (the harness replays the generator and prints the vector into the op line).

```
b0_norm = 0;  for i: v = rnd(rng); b0[i] = v; loc_norm += norm(inner_product(v, v));   b0_norm += loc_norm
b0_norm = 1 / sqrt(b0_norm);  for i: b0[i] = b0_norm * b0[i]
for (iter = 0; iter < power_iters;) {
    b1_norm = 0; radius = 0; dia = identity
    for i: s = 0; for j in row i: { if (scale && c == i) dia = v; s += v * b0[c]; }
           if (scale) s = inverse(dia) * s;
           loc_norm += norm(inner_product(s, s)); loc_radi += norm(inner_product(s, b0[i])); b1[i] = s
    b1_norm += loc_norm; radius += loc_radi
    if (++iter < power_iters) { if (b1_norm == 0) break;          // guard of fix 714f66b (A*b0 vanished)
                                b1_norm = 1 / sqrt(b1_norm); for i: b0[i] = b1_norm * b1[i] }
}
return radius < 0 ? 2 : radius
```
At a scalar type `inner_product(x, y) = x * y`, `norm = abs`, `inverse(x) = 1 / x` (value_type/interface.hpp); `dia` is declared
outside the row loop (inside the parallel region), so a row without a diagonal entry re-uses the value of the previous row, as
in the Gershgorin branch.  Division is total (`x / 0 = 0`) on both sides; `sqrt` is a parameter.
-/
namespace Amgcl

section power
variable {K : Type} [Add K] [Mul K] [Neg K] [Zero K] [One K] [Div K] [LT K] [DecidableLT K] [DecidableEq K]

/-- `loc_norm += math::norm(math::inner_product(v, v))` over the vector, from `0` -/
def pmNormSq (b : Vec K) : K := b.foldl (fun s v => s + absK (v * v)) 0

/-- `b0[i] = c * b[i]` -/
def pmScale (c : K) (b : Vec K) : Vec K := b.map (fun v => c * v)

/-- the body of the row loop for row `i`, entered with `dia = dia0`: returns `(s, dia)` after
`if (scale) s = math::inverse(dia) * s` -/
def pmRow (scaled : Bool) (i : Nat) (r : Row K) (b0 : Vec K) (dia0 : K) : K × K :=
  let sd := r.foldl (fun (sd : K × K) cv =>
      (sd.1 + cv.2 * b0.getD cv.1 0, if scaled && cv.1 = i then cv.2 else sd.2)) ((0 : K), dia0)
  (if scaled then (1 / sd.2) * sd.1 else sd.1, sd.2)

/-- one pass of the `for(iter…)` body up to the `omp critical`: `(b1, b1_norm, radius)` -/
def pmSweep (scaled : Bool) (A : CRS K) (b0 : Vec K) : Vec K × K × K :=
  let r := (List.range A.nrows).foldl (fun (acc : Vec K × K × K × K) i =>      -- (b1, loc_norm, loc_radi, dia)
      let sd := pmRow scaled i (A.row i) b0 acc.2.2.2
      (acc.1.push sd.1, acc.2.1 + absK (sd.1 * sd.1), acc.2.2.1 + absK (sd.1 * b0.getD i 0), sd.2))
    ((#[] : Vec K), (0 : K), (0 : K), (1 : K))
  (r.1, 0 + r.2.1, 0 + r.2.2.1)

/-- the `for(iter = 0; iter < power_iters;)` loop; the first argument is `power_iters - iter`, the last the current value of
`radius` (returned untouched only when no pass is made, which `power_iters > 0` excludes) -/
def pmLoop (sqrt : K → K) (scaled : Bool) (A : CRS K) : Nat → Vec K → K → K
  | 0, _, radius => radius
  | rem + 1, b0, _ =>
    let sw := pmSweep scaled A b0
    if rem = 0 then sw.2.2                       -- `++iter < power_iters` is false: the loop ends
    else if sw.2.1 = 0 then sw.2.2               -- `if (b1_norm == 0) break;`
    else pmLoop sqrt scaled A rem (pmScale (1 / sqrt sw.2.1) sw.1) sw.2.2

/-- `spectral_radius<scale>(A, power_iters)` for `power_iters > 0` with the start vector `b0raw` the generator produced -/
def powerMethod (sqrt : K → K) (scaled : Bool) (A : CRS K) (iters : Nat) (b0raw : Vec K) : K :=
  let c := 1 / sqrt (0 + pmNormSq b0raw)
  let radius := pmLoop sqrt scaled A iters (pmScale c b0raw) 0
  if radius < 0 then 1 + 1 else radius

end power

namespace Relax
variable {K : Type} [Add K] [Mul K] [Sub K] [Neg K] [Zero K] [One K] [Div K] [Inv K] [LT K] [DecidableLT K] [DecidableEq K]

/-- the constructor of `relaxation::chebyshev` with `prm.power_iters > 0` (chebyshev.hpp:113-141): the same text as
`chebSetup`, the radius coming from the power method.  With `scale` the code then multiplies nothing else: `hi` is the
estimate of `rho(D^-1 A)`. -/
def chebSetupPower (sqrt : K → K) (prm : ChebParams K) (iters : Nat) (A : CRS K) (b0raw : Vec K) : ChebState K :=
  let hi₀ := powerMethod sqrt prm.scale A iters b0raw
  let lo := hi₀ * prm.lower
  let hi := hi₀ * prm.higher
  let half : K := 1 / (1 + 1)
  { degree := prm.degree, scale := prm.scale,
    M := if prm.scale then diagInv A else #[],
    d := half * (hi + lo), c := half * (hi - lo),
    p := vclear A.nrows, r := vclear A.nrows }

end Relax

end Amgcl
