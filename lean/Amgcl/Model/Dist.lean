import Amgcl.Model.Primitives
import Amgcl.Model.Kernels
/-!
# Distributed matrices (C11) — mirrors amgcl/mpi/distributed_matrix.hpp, mpi/util.hpp, mpi/inner_product.hpp

A run on `np` MPI ranks is modelled as ONE pure function on the list of per-rank states (index = rank).

* A **partition** is the list of per-rank sizes (zeros allowed), `dom part d = Σ_{d'<d} part[d']` is
  `communicator::exclusive_sum` (the `domain` array of the C++ code).
* A rank's block is `DistMat = (loc, rem)`: `loc` with LOCAL column numbers, `rem` with GLOBAL column numbers
  (as `a_loc`, `a_rem` before `move_to_backend`).
* Buffers that the C++ code keeps as a flat array plus a `ptr` array of per-neighbour offsets (`recv.val / recv.ptr`,
  `send.col / send.ptr`) are modelled as the list of per-neighbour *segments* `(neighbour rank, segment)`, in
  neighbour order; the flat array is the concatenation and `ptr` the running sum of the segment lengths (the same
  convention as `CRS` rows versus the C++ `ptr` array, `Model/Basic.lean`).
* **Message-passing assumption** (MPI non-overtaking + the code's use of one message per (destination, tag) and
  phase): a posted receive `(source, tag)` is matched by exactly the message that `source` sent to this rank with
  that tag.  A message is therefore *identified by (source, destination, tag)* and the receive is the function
  `lookup`: what rank `d` sends to rank `r` is read off `d`'s state.  The arrival ORDER of different messages never
  enters the model — each lands in the buffer segment of its own neighbour (`segsFrom`); theorem
  `C11.pattern_complete` proves that the segments tile the buffer and have exactly the posted lengths.
* `MPI_Allreduce(SUM / MAX)` is a fold over the ranks in rank order (exact arithmetic: the order is irrelevant);
  `MPI_Alltoall` on `rcounts` is the transposition `scounts_r[d] = rcounts_d[r]`.
-/
namespace Amgcl.Dist

/-- `communicator::exclusive_sum`: `domain[d]`, `d = 0..np` -/
def dom (part : List Nat) (d : Nat) : Nat := (scanWidths part).getD d 0

section split
variable {K : Type}

structure DistMat (K : Type) where
  /-- `a_loc`: local column numbers, `ncols = n_loc_cols` -/
  loc : CRS K
  /-- `a_rem`: GLOBAL column numbers.  (`ncols` holds the global column count in the model; the C++ field is
  overwritten with `recv.count()`, which the driver prints instead.) -/
  rem : CRS K

instance : Inhabited (DistMat K) := ⟨⟨⟨0, #[]⟩, ⟨0, #[]⟩⟩⟩

@[inline] def inRange (cb ce c : Nat) : Bool := decide (cb ≤ c) && decide (c < ce)

/-- the two passes of `distributed_matrix(comm, A, n_loc_cols)` (distributed_matrix.hpp:398-432) on one row:
entries with `loc_beg ≤ c < loc_end` go to `a_loc` with column `c - loc_beg`, the others to `a_rem` unchanged;
both keep the stored order. -/
def locPart (cb ce : Nat) (r : Row K) : Row K :=
  (r.filter (fun cv => inRange cb ce cv.1)).map (fun cv => (cv.1 - cb, cv.2))
def remPart (cb ce : Nat) (r : Row K) : Row K := r.filter (fun cv => !inRange cb ce cv.1)

/-- rows `[rb, re)` of the global matrix: the strip a rank passes to the constructor -/
def strip (A : CRS K) (rb re : Nat) : List (Row K) := (List.range (re - rb)).map (fun i => A.row (rb + i))

def splitRank (A : CRS K) (rowPart colPart : List Nat) (r : Nat) : DistMat K :=
  let rows := strip A (dom rowPart r) (dom rowPart (r + 1))
  let cb := dom colPart r
  let ce := dom colPart (r + 1)
  { loc := ⟨ce - cb, (rows.map (locPart cb ce)).toArray⟩,
    rem := ⟨A.ncols, (rows.map (remPart cb ce)).toArray⟩ }

/-- the distributed form of `A` for the row partition `rowPart` and column partition `colPart` -/
def split (A : CRS K) (rowPart colPart : List Nat) : List (DistMat K) :=
  (List.range rowPart.length).map (splitRank A rowPart colPart)

/-- the global row of a rank's local row: local entries shifted back, then the remote entries -/
def globalRow (cb : Nat) (l r : Row K) : Row K := l.map (fun cv => (cv.1 + cb, cv.2)) ++ r

/-- rows of rank `r`'s block in global numbering -/
def assembleRank (colPart : List Nat) (r : Nat) (D : DistMat K) : List (Row K) :=
  (List.range D.loc.nrows).map (fun i => globalRow (dom colPart r) (D.loc.row i) (D.rem.row i))

/-- gather all blocks to one global matrix (rank order) -/
def assemble (Ds : List (DistMat K)) (colPart : List Nat) : CRS K :=
  { ncols := colPart.sum,
    rows := (Ds.zipIdx.flatMap (fun Dr => assembleRank colPart Dr.2 Dr.1)).toArray }

/-- the part of a global vector owned by rank `r` -/
def vecPart (x : Vec K) (part : List Nat) (r : Nat) : Vec K := x.extract (dom part r) (dom part (r + 1))
def splitVec (x : Vec K) (part : List Nat) : List (Vec K) := (List.range part.length).map (vecPart x part)
def concatVec (xs : List (Vec K)) : Vec K := (xs.flatMap Array.toList).toArray

end split

/-! ## communication pattern (distributed_matrix.hpp:87-185) -/
section pattern

/-- insertion into a strictly increasing list, dropping a duplicate -/
def insertU (c : Nat) : List Nat → List Nat
  | [] => [c]
  | a :: t => if c < a then c :: a :: t else if c = a then a :: t else a :: insertU c t

/-- `std::sort` + `std::unique` (lines 102-103): the strictly increasing list of the distinct elements.  (The
result of sort+unique is determined by the SET of its input, so any algorithm producing a strictly increasing
list with the same members is extensionally the same function; `Proofs/DistPattern.lean: sortUnique_*`.) -/
def sortUnique (l : List Nat) : List Nat := l.foldr insertU []

/-- `while (rem_cols[i] >= domain[d + 1]) ++d;` (line 116), with the rank count as fuel.  (In the C++ code a
column `≥ domain[np]` runs off the `domain` array; the driver rejects such input as `bad-input`.) -/
def advance (domain : List Nat) (c : Nat) : Nat → Nat → Nat
  | 0, d => d
  | fuel + 1, d => if c ≥ domain.getD (d + 1) 0 then advance domain c fuel (d + 1) else d

/-- state of the loop in lines 115-127 -/
structure OwnLoop where
  d : Nat
  last : Int
  rnbr : Nat
  /-- `rcounts[d]`: how many of my remote columns rank `d` owns -/
  rcounts : List Nat
  /-- `idx`: global column ↦ (neighbour index `rnbr-1`, position `i` in `rem_cols` = slot in `recv.val`) -/
  idx : List (Nat × Nat × Nat)

def ownStep (domain : List Nat) (np : Nat) (st : OwnLoop) (ci : Nat × Nat) : OwnLoop :=
  let d := advance domain ci.1 np st.d
  let rnbr := if st.last < (d : Int) then st.rnbr + 1 else st.rnbr
  { d := d,
    last := if st.last < (d : Int) then (d : Int) else st.last,
    rnbr := rnbr,
    rcounts := st.rcounts.modify d (· + 1),
    idx := st.idx ++ [(ci.1, rnbr - 1, ci.2)] }

def ownLoop (domain : List Nat) (np : Nat) (remCols : List Nat) : OwnLoop :=
  remCols.zipIdx.foldl (ownStep domain np) ⟨0, -1, 0, List.replicate np 0, []⟩

/-- the loops `for d < size: if (cnt[d]) { nbr.push_back(d); ptr.push_back(ptr.back() + cnt[d]); }` (lines 135-140,
158-163) together with the use of `[ptr[k], ptr[k+1])` as the buffer segment of neighbour `k`: cut `buf` into the
consecutive segments of the neighbours with a non-zero count. -/
def segsFrom {α : Type} (cnt : Nat → Nat) : List α → List Nat → List (Nat × List α)
  | _, [] => []
  | buf, d :: t =>
    if cnt d = 0 then segsFrom cnt buf t else (d, buf.take (cnt d)) :: segsFrom cnt (buf.drop (cnt d)) t

/-- what a rank knows after lines 95-140, before `MPI_Alltoall` -/
structure RecvSide where
  /-- `rem_cols` after sort/unique; `recv.val` has this length -/
  remCols : List Nat
  idx : List (Nat × Nat × Nat)
  rcounts : List Nat
  /-- `(recv.nbr[k], rem_cols[recv.ptr[k] .. recv.ptr[k+1]))` -/
  recv : List (Nat × List Nat)

instance : Inhabited RecvSide := ⟨⟨[], [], [], []⟩⟩

def recvSide (colPart : List Nat) (rawRemCols : List Nat) : RecvSide :=
  let np := colPart.length
  let remCols := sortUnique rawRemCols
  let st := ownLoop (scanWidths colPart) np remCols
  { remCols := remCols, idx := st.idx, rcounts := st.rcounts,
    recv := segsFrom (fun d => st.rcounts.getD d 0) remCols (List.range np) }

structure CommPattern where
  remCols : List Nat
  idx : List (Nat × Nat × Nat)
  rcounts : List Nat
  recv : List (Nat × List Nat)
  /-- `scounts[d]` as delivered by `MPI_Alltoall` -/
  scounts : List Nat
  /-- `(send.nbr[k], send.col[send.ptr[k] .. send.ptr[k+1]))`, LOCAL column numbers (line 182) -/
  send : List (Nat × List Nat)

instance : Inhabited CommPattern := ⟨⟨[], [], [], [], [], []⟩⟩

/-- the message with tag `tag_exc_cols` from rank `d` to rank `r`: `d`'s remote columns owned by `r` -/
def colsMsg (rs : List RecvSide) (d r : Nat) : List Nat := ((rs.getD d default).recv.lookup r).getD []

/-- the patterns of all ranks; `rems[r]` is rank `r`'s `a_rem->col` array -/
def commPatterns (colPart : List Nat) (rems : List (List Nat)) : List CommPattern :=
  let np := colPart.length
  let rs := rems.map (recvSide colPart)
  (List.range np).map fun r =>
    let me := rs.getD r default
    let scounts := (List.range np).map (fun d => (rs.getD d default).rcounts.getD r 0)
    { remCols := me.remCols, idx := me.idx, rcounts := me.rcounts, recv := me.recv, scounts := scounts,
      send := ((List.range np).filter (fun d => scounts.getD d 0 ≠ 0)).map
                (fun d => (d, (colsMsg rs d r).map (· - dom colPart r))) }

namespace CommPattern
/-- `local_index(col)`: slot of a global remote column in the receive buffer (`idx.at(col)` throws if the column
is unknown; this cannot happen for the matrix the pattern was built from and is `0` here) -/
def localIndex (p : CommPattern) (c : Nat) : Nat := match p.idx.lookup c with | some e => e.2 | none => 0
/-- `domain(col)`: index of the owning neighbour in `recv.nbr` -/
def nbrIndex (p : CommPattern) (c : Nat) : Nat := match p.idx.lookup c with | some e => e.1 | none => 0
def recvNbr (p : CommPattern) : List Nat := p.recv.map (·.1)
def recvPtr (p : CommPattern) : List Nat := scanWidths (p.recvNbr.map (fun d => p.rcounts.getD d 0))
def sendNbr (p : CommPattern) : List Nat := p.send.map (·.1)
def sendPtr (p : CommPattern) : List Nat := scanWidths (p.sendNbr.map (fun d => p.scounts.getD d 0))
def sendCol (p : CommPattern) : List Nat := p.send.flatMap (·.2)
/-- offset `recv.ptr[k]` of the `k`-th receive segment -/
def recvOff (p : CommPattern) (k : Nat) : Nat := ((p.recv.take k).map (·.2.length)).sum
end CommPattern

variable {K : Type}

/-- `a_rem->col` of a block: the remote columns in storage order -/
def remColList (D : DistMat K) : List Nat := D.rem.rows.toList.flatMap (·.map (·.1))

/-- pattern of every rank for a distributed matrix -/
def patternsOf (Ds : List (DistMat K)) (colPart : List Nat) : List CommPattern :=
  commPatterns colPart (Ds.map remColList)

/-- `C->renumber(a_rem)` in `move_to_backend` (lines 238-242, 500-509): remote columns become buffer slots -/
def renumberRem (p : CommPattern) (rem : CRS K) : CRS K :=
  { ncols := p.remCols.length, rows := rem.rows.map (·.map (fun cv => (p.localIndex cv.1, cv.2))) }

end pattern

/-! ## ghost exchange, `mul`, `residual`, inner product (lines 248-273, 520-547; inner_product.hpp) -/
section exchange
variable {K : Type} [Zero K]

/-- `gather(x, send.val)` cut into the per-neighbour messages (tag `tag_exc_vals`) -/
def valMsgs (p : CommPattern) (x : Vec K) : List (Nat × List K) :=
  p.send.map (fun nc => (nc.1, nc.2.map (fun c => x.getD c 0)))

/-- `start_exchange` + `finish_exchange` on rank `r`: the receive buffer `recv.val` (= `x_rem`), the segment of
neighbour `d` being the message `d` sent to `r` -/
def exchange (pats : List CommPattern) (xs : List (Vec K)) (r : Nat) : List K :=
  (pats.getD r default).recv.flatMap
    (fun ds => ((valMsgs (pats.getD ds.1 default) (xs.getD ds.1 #[])).lookup r).getD [])

end exchange

section algebra
variable {K : Type} [Add K] [Mul K] [Sub K] [Neg K] [Zero K] [One K] [DecidableEq K]

/-- `distributed_matrix::mul` on one rank, `xrem` the received ghost values -/
def mulRank (α : K) (D : DistMat K) (p : CommPattern) (xrem : List K) (x : Vec K) (β : K) (y : Vec K) : Vec K :=
  let y1 := spmv α D.loc x β y
  if p.remCols.isEmpty then y1 else spmv α (renumberRem p D.rem) xrem.toArray 1 y1

/-- `distributed_matrix::residual` on one rank -/
def residualRank (f : Vec K) (D : DistMat K) (p : CommPattern) (xrem : List K) (x : Vec K) : Vec K :=
  let r1 := residual f D.loc x
  if p.remCols.isEmpty then r1 else spmv (-1) (renumberRem p D.rem) xrem.toArray 1 r1

/-- `backend::spmv(alpha, A, x, beta, y)` for a distributed matrix on every rank -/
def distSpmv (α : K) (Ds : List (DistMat K)) (colPart : List Nat) (xs : List (Vec K)) (β : K) (ys : List (Vec K)) :
    List (Vec K) :=
  let pats := patternsOf Ds colPart
  (List.range Ds.length).map fun r =>
    mulRank α (Ds.getD r default) (pats.getD r default) (exchange pats xs r) (xs.getD r #[]) β (ys.getD r #[])

/-- `backend::residual(f, A, x, r)` for a distributed matrix on every rank -/
def distResidual (fs : List (Vec K)) (Ds : List (DistMat K)) (colPart : List Nat) (xs : List (Vec K)) :
    List (Vec K) :=
  let pats := patternsOf Ds colPart
  (List.range Ds.length).map fun r =>
    residualRank (fs.getD r #[]) (Ds.getD r default) (pats.getD r default) (exchange pats xs r) (xs.getD r #[])

/-- `MPI_Allreduce(MPI_SUM)`: every rank gets the sum of the local values -/
def allreduceSum (locals : List K) : K := locals.foldl (· + ·) 0

/-- `mpi::inner_product`: local (Kahan) inner products, then `MPI_Allreduce(SUM)` -/
def distInnerProduct (conj : K → K) (xs ys : List (Vec K)) : K :=
  allreduceSum ((xs.zip ys).map (fun xy => innerProductSerial conj xy.1 xy.2))

/-- `mpi::scale(A, s)` -/
def distScale (Ds : List (DistMat K)) (s : K) : List (DistMat K) :=
  Ds.map (fun D => { loc := scale D.loc s, rem := scale D.rem s })

end algebra

section structural
variable {K : Type}

/-- `mpi::sort_rows(A)`: both parts are sorted by their (local resp. global) columns -/
def distSortRows (Ds : List (DistMat K)) : List (DistMat K) :=
  Ds.map (fun D => { loc := sortRows D.loc, rem := sortRows D.rem })

/-- `t_rem` of `mpi::transpose` on rank `d` (lines 590-608): the renumbered remote part transposed (row `i` = slot
`i` of the receive buffer), its columns (= my rows) shifted to global numbering -/
def tRem (adj : K → K) (rowPart : List Nat) (p : CommPattern) (D : DistMat K) (d : Nat) : CRS K :=
  let t := transpose adj (renumberRem p D.rem)
  { ncols := t.ncols, rows := t.rows.map (·.map (fun cv => (cv.1 + dom rowPart d, cv.2))) }

/-- the rows (tags 2001-2003: sizes, columns, values) that rank `d` sends to its receive-neighbour `r`: rows
`[recv.ptr[k], recv.ptr[k+1])` of `t_rem` -/
def tMsg (adj : K → K) (rowPart : List Nat) (pats : List CommPattern) (Ds : List (DistMat K)) (d r : Nat) :
    List (Row K) :=
  let p := pats.getD d default
  match p.recv.findIdx? (fun ds => ds.1 == r) with
  | none => []
  | some k =>
    let t := tRem adj rowPart p (Ds.getD d default) d
    (List.range ((p.recv.getD k default).2.length)).map (fun i => t.row (p.recvOff k + i))

/-- `mpi::transpose(A)` (lines 559-716) on rank `r`: the rows received for `send.col[i]` are appended to row
`send.col[i]` of `T_rem` in the order of `i`; `T_loc = transpose(A_loc)`. -/
def transposeRank (adj : K → K) (rowPart : List Nat) (pats : List CommPattern) (Ds : List (DistMat K)) (r : Nat) :
    DistMat K :=
  let p := pats.getD r default
  let D := Ds.getD r default
  let recvd : List (Nat × Row K) := p.send.flatMap (fun dc => dc.2.zip (tMsg adj rowPart pats Ds dc.1 r))
  let trem := recvd.foldl (fun (b : Array (Row K)) jr => b.modify jr.1 (· ++ jr.2)) (Array.replicate D.loc.ncols [])
  { loc := transpose adj D.loc, rem := ⟨rowPart.sum, trem⟩ }

/-- `mpi::transpose(A)`; the result is distributed with rows by `colPart` and columns by `rowPart` -/
def distTranspose (adj : K → K) (Ds : List (DistMat K)) (rowPart colPart : List Nat) : List (DistMat K) :=
  let pats := patternsOf Ds colPart
  (List.range Ds.length).map (transposeRank adj rowPart pats Ds)

/-- the full GLOBAL row `c` (local index) of `B` on its owner: `B_loc` shifted by `B_beg`, then `B_rem`
(lines 777-793) -/
def fullRow (colPartB : List Nat) (d : Nat) (D : DistMat K) (c : Nat) : Row K :=
  globalRow (dom colPartB d) (D.loc.row c) (D.rem.row c)

/-- `remote_rows(C, B)` (lines 718-854) on rank `r`: `B_nbr`, row `i` = the global row of `B` that slot `i` of
`C`'s receive buffer refers to; neighbour `d` ships the rows `send.col[send.ptr[k] ..)` of its block -/
def remoteRows (pats : List CommPattern) (Bs : List (DistMat K)) (colPartB : List Nat) (r : Nat) : List (Row K) :=
  (pats.getD r default).recv.flatMap fun ds =>
    (((pats.getD ds.1 default).send.lookup r).getD []).map (fullRow colPartB ds.1 (Bs.getD ds.1 default))

end structural

section product
variable {K : Type} [Add K] [Mul K]

/-- the marker technique of the product (`marker[c] < row_beg` → new entry, else accumulate): entries are kept in
first-occurrence order, later contributions to the same column are added.  (The literal marker arrays are
modelled and proved for the serial kernel in C08, `saad_get`; here the row-local effect is modelled directly.) -/
def accumInto (acc : Row K) (cv : Nat × K) : Row K :=
  match acc.findIdx? (fun e => e.1 == cv.1) with
  | some k => acc.modify k (fun e => (e.1, e.2 + cv.2))
  | none => acc ++ [cv]
def accumRow (l : Row K) : Row K := l.foldl accumInto []

/-- contributions to row `ia` of `C = A·B` in the order of the loops at lines 988-1062, with GLOBAL columns -/
def productContribs (colPartB : List Nat) (r : Nat) (A B : DistMat K) (pA : CommPattern) (Bnbr : List (Row K))
    (ia : Nat) : Row K :=
  (A.loc.row ia).flatMap (fun ca => (fullRow colPartB r B ca.1).map (fun cb => (cb.1, ca.2 * cb.2)))
  ++ (A.rem.row ia).flatMap (fun ca => (Bnbr.getD (pA.localIndex ca.1) []).map (fun cb => (cb.1, ca.2 * cb.2)))

/-- `mpi::product(A, B)` on rank `r`: columns inside `[B_beg, B_end)` accumulate into `C_loc` (local numbers),
the others into `C_rem` (global numbers) -/
def productRank (colPartB : List Nat) (patsA : List CommPattern) (As Bs : List (DistMat K)) (r : Nat) : DistMat K :=
  let A := As.getD r default
  let B := Bs.getD r default
  let pA := patsA.getD r default
  let Bnbr := remoteRows patsA Bs colPartB r
  let cb := dom colPartB r
  let ce := dom colPartB (r + 1)
  let rows := (List.range A.loc.nrows).map (productContribs colPartB r A B pA Bnbr)
  { loc := ⟨ce - cb, (rows.map (fun l => accumRow (locPart cb ce l))).toArray⟩,
    rem := ⟨colPartB.sum, (rows.map (fun l => accumRow (remPart cb ce l))).toArray⟩ }

/-- `mpi::product(A, B)`; `A`'s columns and `B`'s rows are distributed by `midPart` -/
def distProduct (As Bs : List (DistMat K)) (midPart colPartB : List Nat) : List (DistMat K) :=
  let patsA := patternsOf As midPart
  (List.range As.length).map (productRank colPartB patsA As Bs)

end product

section gershgorin
variable {K : Type} [Add K] [Mul K] [Neg K] [Zero K] [One K] [Inv K] [LT K] [DecidableLT K]

/-- the rank-local loop of `spectral_radius<scale>(distributed_matrix, 0)` (lines 1160-1188): `emax` over the
local rows of `Σ|loc| + Σ|rem|` (scaled by `|1/dia|`, `dia` found in the LOCAL part at `c == i` and, as in the
serial kernel, declared outside the row loop) -/
def gershLocal (scaled : Bool) (D : DistMat K) : K :=
  ((List.range D.loc.nrows).foldl (fun (acc : K × K) i =>
      let sd := (D.loc.row i).foldl (fun (sd : K × K) cv =>
          (sd.1 + absK cv.2, if scaled && cv.1 = i then cv.2 else sd.2)) ((0 : K), acc.2)
      let s1 := (D.rem.row i).foldl (fun s cv => s + absK cv.2) sd.1
      let s := if scaled then s1 * absK sd.2⁻¹ else s1
      (maxK acc.1 s, sd.2)) ((0 : K), (1 : K))).1

/-- `MPI_Allreduce(MPI_MAX)` -/
def allreduceMax (locals : List K) : K :=
  match locals with
  | [] => 0
  | a :: t => t.foldl maxK a

/-- `spectral_radius<scale>(A, 0)` for a distributed matrix: the rank-local maxima reduced with `MPI_MAX`
(/repo commit 21a55b8), then `radius < 0 ? 2 : radius`; every rank returns this value -/
def distGershgorin (scaled : Bool) (Ds : List (DistMat K)) : K :=
  let r := allreduceMax (Ds.map (gershLocal scaled))
  if r < 0 then 1 + 1 else r

end gershgorin

end Amgcl.Dist
