import Amgcl.Driver.Composite
import Amgcl.Model.CPRDrs
/-!
handlers for `preconditioner::cpr_drs` (C18).  Dense matrices `r c v₁₁ … v_rc` as in `Driver/Composite.lean`.

  cpr_drs       nt ctor B active_rows eps_dd eps_ps W K skind Smat Pmat f
  cpr_drs_upd   nt ctor B active_rows eps_dd eps_ps W K skind Smat Pmat f upd K2
  cpr_drsb      nt ctor B active_rows eps_dd eps_ps W Kb skind Smat Pmat f         (Kb: CRS of row-major B×B blocks)
  cpr_drsb_upd  nt ctor B active_rows eps_dd eps_ps W Kb skind Smat Pmat f upd Kb2

`nt` = OpenMP threads of the implementation run; the model does not depend on it (`C18b.cpr_drs_weights_indep_scratch`:
the per-thread scratch vectors are re-filled for every block row).

`ctor = 0`: the `shared_ptr<build_matrix>` constructor (input used as it is: rows must be sorted), `ctor = 1`: the
generic constructor (copy + `sort_rows`: any duplicate-free row order).  `eps_dd`, `eps_ps` and the entries of the
vector `W` (`weights`; size 0 = not set) are `double`s in the code: the op line carries their exact rational value and
anything that is not a binary64 (`isF64`) is `bad-input`.  Outcome `precondition`: `weights.size()` does not match.
-/
namespace Amgcl.Driver.CompositeDrs
open Amgcl Amgcl.Driver Amgcl.Driver.Composite

def isPow2 (n : Nat) : Bool := n > 0 && (n &&& (n - 1)) == 0

/-- a rational that is exactly a (sub)normal binary64 with an at most 53-bit numerator: `±m / 2^k`, `m < 2^53`, `k ≤ 1074` -/
def isF64 (q : Rat) : Bool := isPow2 q.den && q.den ≤ 2 ^ 1074 && q.num.natAbs < 2 ^ 53

structure Hdr where
  ctor : Nat
  p : CPRDrs.Params Rat

def pHdr : P Hdr := do
  let nt ← pNat; let ctor ← pNat; let B ← pNat; let act ← pNat; let edd ← pRat; let eps ← pRat; let W ← pVec
  if nt = 0 || nt > 64 || ctor > 1 || !(isF64 edd && isF64 eps && W.all isF64) then fail
  pure { ctor := ctor, p := { B := B, activeRows := act, epsDD := edd, epsPS := eps, weights := W } }

def scalarOk (h : Hdr) (A : CRS Rat) (skind : Nat) (Sm Pm : DenseM) (f : Vec Rat) : Bool :=
  let n := A.nrows
  let N := if h.p.activeRows = 0 then n else h.p.activeRows
  let B := h.p.B
  squareWF A && (if h.ctor = 0 then A.sortedb else A.nodupb) && B ≥ 1 && N ≤ n && N % B == 0 && f.size == n && skind ≤ 1 &&
    (skind == 1 || (Sm.r == n && Sm.c == n)) && Pm.r == N / B && Pm.c == N / B

def initS (h : Hdr) (A : CRS Rat) : Option (CPR.State Rat) :=
  if h.ctor = 0 then CPRDrs.initScalar A h.p else CPRDrs.initScalarCopy A h.p

def drsScalar (h : Hdr) (A : CRS Rat) (skind : Nat) (Sm Pm : DenseM) (f : Vec Rat) : String :=
  if !scalarOk h A skind Sm Pm f then badInput else
  match initS h A with
  | none => "precondition"
  | some st => joinSp (showState st ++ ["x", showVec (st.apply (mkS skind Sm) Pm.mulVec f)])

def drsScalarUpd (h : Hdr) (A : CRS Rat) (skind : Nat) (Sm Pm : DenseM) (f : Vec Rat) (upd : Bool) (A2 : CRS Rat) : String :=
  if !(scalarOk h A skind Sm Pm f && squareWF A2 && A2.nodupb && A2.nrows == A.nrows) then badInput else
  match initS h A with
  | none => "precondition"
  | some st =>
    let st2 := CPRDrs.partialUpdateScalar st A2 h.p upd
    joinSp ["x0", showVec (st.apply (mkS skind Sm) Pm.mulVec f), "Fpp", showCRS st2.Fpp,
            "x", showVec (st2.apply (mkS skind Sm) Pm.mulVec f)]

def blockOk (h : Hdr) (A : CRS (Array Rat)) (skind : Nat) (Sm Pm : DenseM) (f : Vec Rat) : Bool :=
  let n := A.nrows
  let N := if h.p.activeRows = 0 then n else h.p.activeRows
  let B := h.p.B
  A.wfb && A.nrows == A.ncols && (if h.ctor = 0 then A.sortedb else A.nodupb) && B ≥ 2 && B ≤ 4 && N ≤ n &&
    f.size == n * B && skind ≤ 1 && (skind == 1 || (Sm.r == n * B && Sm.c == n * B)) && Pm.r == N && Pm.c == N

def initB (h : Hdr) (A : CRS (Array Rat)) : Option (CPR.State Rat) :=
  if h.ctor = 0 then CPRDrs.initBlock A h.p else CPRDrs.initBlockCopy A h.p

/-- block construction versus scalar construction on the expanded matrix: the same rows of `Fpp` (the scalar form has
`n` columns, the block form `np·B`), the same `App`, the same rows of `Scatter` -/
def sameRows (a b : CPR.State Rat) : Bool :=
  a.np == b.np && a.Fpp.nrows == b.Fpp.nrows &&
  (List.range a.Fpp.nrows).all (fun i => showRowOf showRat (a.Fpp.row i) == showRowOf showRat (b.Fpp.row i)) &&
  showCRS a.App == showCRS b.App && a.appWidths == b.appWidths && a.Scatter.ncols == b.Scatter.ncols &&
  (List.range (max a.Scatter.nrows b.Scatter.nrows)).all (fun i => showRowOf showRat (a.Scatter.row i) == showRowOf showRat (b.Scatter.row i))

def drsBlock (h : Hdr) (A : CRS (Array Rat)) (skind : Nat) (Sm Pm : DenseM) (f : Vec Rat) : String :=
  if !blockOk h A skind Sm Pm f then badInput else
  match initB h A with
  | none => "precondition"
  | some st =>
    let x := st.apply (mkS skind Sm) Pm.mulVec f
    let hs : Hdr := { h with p := { h.p with activeRows := h.p.activeRows * h.p.B } }
    let eq := match initS hs (CPR.expand h.p.B A) with
      | none => false
      | some ss => sameRows st ss && showVec x == showVec (ss.apply (mkS skind Sm) Pm.mulVec f)
    joinSp (showState st ++ ["x", showVec x, "eq", showBool eq])

def drsBlockUpd (h : Hdr) (A : CRS (Array Rat)) (skind : Nat) (Sm Pm : DenseM) (f : Vec Rat) (upd : Bool)
    (A2 : CRS (Array Rat)) : String :=
  if !(blockOk h A skind Sm Pm f && A2.wfb && A2.nrows == A2.ncols && A2.nodupb && A2.nrows == A.nrows) then badInput else
  match initB h A with
  | none => "precondition"
  | some st =>
    match CPRDrs.partialUpdateBlock st A2 h.p upd with
    | none => "precondition"
    | some st2 =>
      joinSp ["x0", showVec (st.apply (mkS skind Sm) Pm.mulVec f), "Fpp", showCRS st2.Fpp,
              "x", showVec (st2.apply (mkS skind Sm) Pm.mulVec f)]

def handle (op : String) (args : List String) : Option String :=
  match op with
  | "cpr_drs" => withArgs (do
        let h ← pHdr; let A ← pCRS; let sk ← pNat; let Sm ← pDense; let Pm ← pDense; let f ← pVec
        pure (h, A, sk, Sm, Pm, f)) args
      fun (h, A, sk, Sm, Pm, f) => drsScalar h A sk Sm Pm f
  | "cpr_drs_upd" => withArgs (do
        let h ← pHdr; let A ← pCRS; let sk ← pNat; let Sm ← pDense; let Pm ← pDense; let f ← pVec
        let upd ← pBool; let A2 ← pCRS
        pure (h, A, sk, Sm, Pm, f, upd, A2)) args
      fun (h, A, sk, Sm, Pm, f, upd, A2) => drsScalarUpd h A sk Sm Pm f upd A2
  | "cpr_drsb" => withArgs (do
        let h ← pHdr
        if h.p.B = 0 || h.p.B > 4 then fail
        let A ← pBlkCRS h.p.B; let sk ← pNat; let Sm ← pDense; let Pm ← pDense; let f ← pVec
        pure (h, A, sk, Sm, Pm, f)) args
      fun (h, A, sk, Sm, Pm, f) => drsBlock h A sk Sm Pm f
  | "cpr_drsb_upd" => withArgs (do
        let h ← pHdr
        if h.p.B = 0 || h.p.B > 4 then fail
        let A ← pBlkCRS h.p.B; let sk ← pNat; let Sm ← pDense; let Pm ← pDense; let f ← pVec
        let upd ← pBool; let A2 ← pBlkCRS h.p.B
        pure (h, A, sk, Sm, Pm, f, upd, A2)) args
      fun (h, A, sk, Sm, Pm, f, upd, A2) => drsBlockUpd h A sk Sm Pm f upd A2
  | _ => none

end Amgcl.Driver.CompositeDrs
