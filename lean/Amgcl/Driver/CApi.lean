import Amgcl.Driver.Util
import Amgcl.Model.CApi
import Amgcl.Model.CApiParams
import Amgcl.Model.Kernels
import Amgcl.Model.CApiTable
import Amgcl.Generated.CApiTableData
/-! handlers for the model-expressible part of C20 (lib/amgcl.cpp): the iterator-range view and the handle
life cycle.

* `capi_view β n <ptr> <col> <val>` — raw caller arrays (vectors `k v₁ … v_k`; `ptr`, `col` integers, `val`
  rationals) with index base `β ∈ {0,1}`; answer: the system matrix the C API builds from them =
  rows seen through the view (`View.toRows`), copied by the `crs` constructor and row-sorted by the `amg`
  constructor (`sortRows`), as `n n` + rows.  `bad-input` when a read of the model fails (the arrays are too
  short for what `ptr` says / `ptr` decreases) or a column leaves `[0,n)`.
* `capi_script n <call>*` — handle life cycle on a fixed system of size `n`:
  `pcreate | pset h | pdestroy h | acreate β p | aapply h | areport h | adestroy h | screate β p | ssolve h |
  smtx β h | sreport h | sdestroy h` with `p` a handle number or `null`; answer `ok <#live> <kinds of the live
  handles>` or `error <index of the offending call> <unknown|dead|kind>`.
* `capi_params <call>*` — the CONTENT of parameter handles:
  `new | seti p path int | setf p path q | sets p path text | json p K (path i|f|s value)^K | del p`
  (`path` dotted, segments `[A-Za-z0-9_]+`; `int` within ±10^6; `q = m/2^k`, `k ≤ 6`, `|m| < 2^15`; `text` in
  `[A-Za-z0-9_]+`; the paths of one file pairwise not ancestors of each other; `K ≤ 64`, at most 400 calls);
  answer `ok` + per handle `dead` or the tree (`CApi.dump`).  `bad-input` for a call on a handle that does not
  exist / is destroyed and for values outside the stated ranges.
-/
namespace Amgcl.Driver.CApi
open Amgcl Amgcl.Driver Amgcl.CApi

/-! All three ops are answered FROM THE TABLE that `tools/capi_extract.py` regenerates from lib/amgcl.cpp on every
run (`Amgcl.Generated.capiTable`): `capi_view` reads the caller's arrays through the tuple extracted from
`amgcl_precond_create[_f]` (`TupleSpec.view`: transform amounts of `ptr` and `col` and range ends as extracted),
`capi_script` runs the handle state machine on the footprints extracted from the function bodies (`Table.call`),
`capi_params` takes the value type of `seti / setf / sets` from the extracted parameter lists and requires their
bodies to be `put(name, value)`.  So the correspondence run ties the TRANSLATOR to the code; the hand models
(`mkView`, the declared calls) are tied to the table by the theorems of `Properties/C20b.lean`. -/

def tbl : Table := Amgcl.Generated.capiTable

/-- the tuple of `amgcl_<family>_<verb>[_f]` as extracted -/
def tupleOf (family : Kind) (verb : String) (b : Int) : Option TupleSpec :=
  match tbl.entries.find? (fun e => e.family == family && e.verb == verb && e.fortran == (b == 1)) with
  | some e => (tbl.resolve e).tuple?
  | none => none

def suffixOf (b : Int) : String := if b == 1 then "_f" else ""

def pBase : P Int := do
  let b ← pNat
  if b = 0 then pure 0 else if b = 1 then pure 1 else fail

def pPrm : P (Option Nat) := do
  let t ← tok
  if t = "null" then pure none else
  match t.toNat? with
  | some n => pure (some n)
  | none => fail

/-- one step of a script = one call of an entry point by NAME; its effect on the handle state machine is the
footprint extracted from the body of that entry point (`Table.call`); a name the table does not have, or a
footprint that is not a call of the machine, is `bad-input` -/
def pCall : P Call := do
  let t ← tok
  let api : ApiCall ← (match t with
    | "pcreate" => pure ⟨"amgcl_params_create", []⟩
    | "pset" => do let h ← pNat; pure ⟨"amgcl_params_seti", [some h]⟩
    | "pdestroy" => do let h ← pNat; pure ⟨"amgcl_params_destroy", [some h]⟩
    | "acreate" => do let b ← pBase; let p ← pPrm; pure ⟨"amgcl_precond_create" ++ suffixOf b, [p]⟩
    | "aapply" => do let h ← pNat; pure ⟨"amgcl_precond_apply", [some h]⟩
    | "areport" => do let h ← pNat; pure ⟨"amgcl_precond_report", [some h]⟩
    | "adestroy" => do let h ← pNat; pure ⟨"amgcl_precond_destroy", [some h]⟩
    | "screate" => do let b ← pBase; let p ← pPrm; pure ⟨"amgcl_solver_create" ++ suffixOf b, [p]⟩
    | "ssolve" => do let h ← pNat; pure ⟨"amgcl_solver_solve", [some h]⟩
    | "smtx" => do let b ← pBase; let h ← pNat; pure ⟨"amgcl_solver_solve_mtx" ++ suffixOf b, [some h]⟩
    | "sreport" => do let h ← pNat; pure ⟨"amgcl_solver_report", [some h]⟩
    | "sdestroy" => do let h ← pNat; pure ⟨"amgcl_solver_destroy", [some h]⟩
    | _ => fail : P ApiCall)
  match tbl.call api with
  | some c => pure c
  | none => fail

/-- calls until the end of the line (`fuel` = number of tokens) -/
def pCalls : Nat → P (List Call)
  | 0 => fun s => match s with
    | [] => some ([], [])
    | _ => none
  | f + 1 => fun s => match s with
    | [] => some ([], [])
    | _ => (do let c ← pCall; let cs ← pCalls f; pure (c :: cs) : P (List Call)) s

def showKind : Kind → String
  | .params => "params"
  | .precond => "precond"
  | .solver => "solver"

def showErr : Err → String
  | .unknown => "unknown"
  | .dead => "dead"
  | .kind => "kind"

/-! ### capi_params -/

def okChar (c : Char) : Bool := c.isAlphanum || c == '_'

def parsePath (s : String) : Option (List String) :=
  let segs := s.splitOn "."
  if segs.all (fun g => !g.isEmpty && g.toList.all okChar) then some segs else none

def pPath : P (List String) := do
  let t ← tok
  match parsePath t with
  | some p => pure p
  | none => fail

/-- a value of the given type tag, as the text the setter stores -/
def pValue (ty : String) : P String := do
  match ty with
  | "i" => do
      let v ← pInt
      if v < -1000000 ∨ v > 1000000 then fail else pure (toString v)
  | "f" => do
      let q ← pRat
      match floatText q with
      | some t => pure t
      | none => fail
  | "s" => do
      let t ← tok
      if !t.isEmpty && t.toList.all okChar then pure t else fail
  | _ => fail

def pEntry : P (List String × String) := do
  let p ← pPath
  let ty ← tok
  let v ← pValue ty
  pure (p, v)

/-- `a` is `b` or an ancestor of `b` -/
def isPrefix : List String → List String → Bool
  | [], _ => true
  | _ :: _, [] => false
  | x :: xs, y :: ys => x == y && isPrefix xs ys

/-- no path of a file is (an ancestor of) another one -/
def fileOK (es : List (List String × String)) : Bool :=
  let idx := (List.range es.length).zip es
  idx.all (fun (i, e) => idx.all (fun (j, f) => i == j || !isPrefix e.1 f.1))

/-- type tag of the value parameter of the typed setter `amgcl_params_<verb>` AS EXTRACTED; `none` unless the
body of that entry point is `static_cast<Params*>(prm)->put(name, value)` -/
def setterTag (verb : String) : Option String :=
  match tbl.find? ("amgcl_params_" ++ verb) with
  | some e =>
    match e.body.pwrite (.inl ⟨[], ""⟩), e.types with
    | some (.set _ _), [.handle, .cstr, .int] => some "i"
    | some (.set _ _), [.handle, .cstr, .float] => some "f"
    | some (.set _ _), [.handle, .cstr, .cstr] => some "s"
    | _, _ => none
  | none => none

def pSetter (verb : String) : P PCall := do
  match setterTag verb with
  | none => fail
  | some tag => do let h ← pNat; let p ← pPath; let v ← pValue tag; pure (.write h (.set p v))

def pPCall : P PCall := do
  let t ← tok
  match t with
  | "new" => if tbl.call ⟨"amgcl_params_create", []⟩ == some .paramsCreate then pure .create else fail
  | "del" => do
      let h ← pNat
      if tbl.call ⟨"amgcl_params_destroy", [some h]⟩ == some (.destroy .params h) then pure (.destroy h) else fail
  | "seti" => pSetter "seti"
  | "setf" => pSetter "setf"
  | "sets" => pSetter "sets"
  | "json" => do
      if (tbl.pwrite "amgcl_params_read_json" (.inr [])).isNone then fail   -- body as extracted is `read_json(fname, *prm)`
      let h ← pNat
      let k ← pNat
      if k > 64 then fail
      let es ← pMany k pEntry
      if !fileOK es then fail
      pure (.write h (.file es))
  | _ => fail

def pPCalls : Nat → P (List PCall)
  | 0 => fun s => match s with
    | [] => some ([], [])
    | _ => none
  | f + 1 => fun s => match s with
    | [] => some ([], [])
    | _ => (do let c ← pPCall; let cs ← pPCalls f; pure (c :: cs) : P (List PCall)) s

def showHandle : Option Params.PTree → List String
  | none => ["dead"]
  | some t => dump t

def handle (op : String) (args : List String) : Option String :=
  match op with
  | "capi_view" => withArgs (do
        let b ← pBase; let n ← pNat
        if n = 0 then fail     -- amg on an empty matrix is outside C20
        let ptr ← pIntVec; let col ← pIntVec; let val ← pVec
        pure (b, n, ptr, col, val)) args
      fun (b, n, ptr, col, val) =>
        match (tupleOf .precond "create" b).bind (fun A => (A.view n ptr col val).bind View.toRows) with
        | none => badInput
        | some rows =>
          match rowsToCRS n rows with
          | none => badInput
          | some A => showCRS (sortRows A)
  | "capi_script" => withArgs (do
        let n ← pNat
        if n = 0 then fail
        let cs ← pCalls args.length
        pure cs) args
      fun cs =>
        match run cs with
        | .ok st => let l := liveHandles st
                    joinSp ("ok" :: toString l.length :: l.map showKind)
        | .error (i, e) => joinSp ["error", toString i, showErr e]
  | "capi_params" => withArgs (do
        let cs ← pPCalls args.length
        if cs.length > 400 then fail
        pure cs) args
      fun cs =>
        match runCalls [] cs with
        | none => badInput
        | some st => joinSp ("ok" :: (st.map showHandle).flatten)
  | _ => none

end Amgcl.Driver.CApi
