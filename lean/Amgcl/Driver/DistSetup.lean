import Amgcl.Driver.Util
import Amgcl.Driver.Dist
import Amgcl.Model.DistSetupChecks
import Amgcl.Model.DistRenumber
/-!
handlers for the C12 SETUP-phase certificates (`harness/h_mpi_setup.cpp`)

```
dsetup kind vb bs cols eps over relax esr part A B | gexact cpart T P R Ac Bc
        -> shape nonempty isolated ortho repro rt galerkin sa n nc      (V-grade predicates, `-` = not applicable)
dsetup kind vb bs cols eps over relax esr part A B                      -> needs-certificate
drenumber np naggr[] state[] owner[] vis_0[] .. vis_{np-1}[]            -> naggr'[] state'[]   (model of pmis.hpp:628-703)
```
`kind` 0 = `mpi::coarsening::aggregation`, 1 = `mpi::coarsening::smoothed_aggregation`; `vb` = block size of the VALUE
type (1: `double`, 2: `static_matrix<double,2,2>`; the matrices of the line are always scalar, `T` is given per block
row for `vb = 2`); `bs` = `aggr.block_size`; `cols` = `aggr.nullspace.cols`; `eps`, `over`, `relax` exact binary64
values; the part after `|` is what the real code produced, gathered over the ranks (arbitrary binary64 values as
exact rationals); `gexact` = every product and sum of `s·R·A·P` is exactly representable (small dyadic data).
-/
namespace Amgcl.Driver.DistSetup
open Amgcl Amgcl.Driver Amgcl.DistSetup Amgcl.Coarsening

def qabs (x : Rat) : Rat := if x < 0 then -x else x
def relTol : Rat := Rat.divInt 1 ((2 ^ 30 : Nat) : Int)

def pLit (s : String) : P Unit := do
  let t ← tok
  if t = s then pure () else fail

def pBool : P Bool := Dist.pBool

structure Inp where
  kind : Nat
  vb : Nat
  bs : Nat
  cols : Nat
  eps : Rat
  over : Rat
  relax : Rat
  esr : Bool
  part : List Nat
  A : CRS Rat
  B : Vec Rat

structure Cert where
  gexact : Bool
  cpart : List Nat
  T : CRS Rat
  P : CRS Rat
  R : CRS Rat
  Ac : CRS Rat
  Bc : Vec Rat

def pInp : P Inp := do
  let kind ← pNat; let vb ← pNat; let bs ← pNat; let cols ← pNat
  let eps ← Dist.pRat; let over ← Dist.pRat; let relax ← Dist.pRat; let esr ← pBool
  let part ← Dist.pPart; let A ← Dist.pCRS; let B ← Dist.pVec
  pure { kind, vb, bs, cols, eps, over, relax, esr, part, A, B }

def pCert : P Cert := do
  pLit "|"
  let gexact ← pBool; let cpart ← Dist.pPart
  let T ← pCRS; let P ← pCRS; let R ← pCRS; let Ac ← pCRS; let Bc ← pVec
  pure { gexact, cpart, T, P, R, Ac, Bc }

def inpOk (x : Inp) : Bool :=
  x.kind ≤ 1 && (x.vb == 1 || x.vb == 2) && x.bs ≥ 1 && x.bs ≤ 4 && x.cols ≤ 4 && (x.vb == 1 || x.bs == 1) &&
  x.A.wfb && x.A.nrows == x.A.ncols && x.part.sum == x.A.nrows && x.part.all (fun s => s % (x.vb * x.bs) == 0) &&
  x.B.size == (x.A.nrows / x.vb) * x.cols && decide (0 < x.eps) && decide (0 < x.over) && decide (0 < x.relax) &&
  (x.kind == 1 || !x.esr) && (x.vb == 1 || !x.esr)

def certOk (x : Inp) (c : Cert) : Bool :=
  let n := x.A.nrows
  let nc := c.cpart.sum
  c.cpart.length == x.part.length && c.T.nrows == n / x.vb && c.T.ncols * x.vb == nc &&
  c.P.nrows == n && c.P.ncols == nc && c.R.nrows == nc && c.R.ncols == n && c.Ac.nrows == nc && c.Ac.ncols == nc &&
  c.Bc.size == c.T.ncols * x.cols

def na : String := "-"

def maxAbs (v : Vec Rat) : Rat := v.foldl (fun m x => if m < qabs x then qabs x else m) 1

def verdicts (x : Inp) (c : Cert) : Option String := do
  let S ← if x.vb == 2 then some x.A else if x.bs == 1 then some x.A else
    match pointwiseMatrix qabs x.A x.bs with
    | .ok S => some S
    | _ => none
  let eps2 := x.eps * x.eps
  let shape := tentShape x.bs x.cols c.T
  let nonempty := noEmptyAgg x.bs x.cols c.T
  let isolated := if x.vb == 2 then na else showBool (isolatedOk eps2 x.bs S c.T)
  let tolB := relTol * maxAbs x.B
  let ortho := if x.cols == 0 then na else showBool (orthonormalCols relTol c.T)
  let repro := if x.cols == 0 then na else showBool (reproducesB tolB x.cols (aggFlags c.T) c.T c.Bc x.B)
  let rt := isTranspose c.R c.P
  let s : Rat := if x.kind == 0 then 1 / x.over else 1
  let gal := isGalerkin (if c.gexact then 0 else relTol) s c.R x.A c.P c.Ac
  let sa := if x.kind == 1 && x.vb == 1 then
      showBool (saCheck relTol (saOmega x.relax x.esr x.A (4 / 3) (2 / 3)) eps2 x.bs S x.A c.T c.P)
    else na
  pure (joinSp [showBool shape, showBool nonempty, isolated, ortho, repro, showBool rt, showBool gal, sa,
    toString x.A.nrows, toString c.P.ncols])

def pIntList : P (List Int) := do let v ← pIntVec; pure v.toList

def handle (op : String) (args : List String) : Option String :=
  match op with
  | "dsetup" =>
    match (do let x ← pInp; pure x : P Inp) args with
    | none => some badInput
    | some (x, rest) =>
      if !inpOk x then some badInput else
      match rest with
      | [] => some "needs-certificate"
      | _ =>
        match runP pCert rest with
        | none => some badInput
        | some c => if !certOk x c then some badInput else
          match verdicts x c with
          | some s => some s
          | none => some badInput
  | "drenumber" => withArgs (do
        let np ← pNat
        let naggr ← pNatVec; let state ← pIntVec; let owner ← pIntVec
        let vis ← pMany np pNatVec
        pure (np, naggr, state, owner, vis)) args
      fun (np, naggr, state, owner, vis) =>
        if np = 0 || np > 8 || naggr.size != np || owner.size != state.size
            || !(DistRenumber.inputOk naggr.toList state owner (vis.map (·.toList))) then badInput
        else
          let res := DistRenumber.renumberStep naggr.toList state owner (vis.map (·.toList))
          joinSp [showNatVec res.1.toArray, showIntVec res.2]
  | _ => none

end Amgcl.Driver.DistSetup
