import Amgcl.Driver.Amg
import Amgcl.Model.RelaxJacobi
import Amgcl.Model.RelaxGS
import Amgcl.Model.RelaxCheb
import Amgcl.Model.RelaxIlu
/-!
handlers for the cycle ops (C02):
  amg_apply <hdr as amg_build> rk <relax params> npre npost ncycle pre_cycles K (f)^K
applies the preconditioner K times in a row on ONE hierarchy object (the scratch left by each call is handed to the
next) and prints the K results.  rk: 0 damped_jacobi(damping) | 1 gauss_seidel | 2 spai0 | 3 ilu0(damping) |
4 chebyshev(degree higher lower scale).  The coarse direct solve is the exact solution (Gaussian elimination over
`Rat`), which is what skyline LU returns in exact arithmetic whenever it succeeds.
-/
namespace Amgcl.Driver.AmgApply
open Amgcl Amgcl.Driver Amgcl.Amg Amgcl.Driver.Amg Amgcl.Relax

/-- exact dense solve (Gauss–Jordan with row search); `f` unchanged on a singular matrix (never reached: the build
fails first) -/
def denseSolve (A : CRS Rat) (f : Vec Rat) : Vec Rat :=
  let n := A.nrows
  let M : Array (Array Rat) := Array.ofFn (n := n) (fun i => (Array.ofFn (n := n) (fun j => A.get i.val j.val)).push (f.getD i.val 0))
  let r := (List.range n).foldl (fun (st : Array (Array Rat) × Bool) k =>
    if !st.2 then st else
    match (List.range n).find? (fun i => i ≥ k && (st.1.getD i #[]).getD k 0 ≠ 0) with
    | none => (st.1, false)
    | some p =>
      let rowp := st.1.getD p #[]
      let rowk := st.1.getD k #[]
      let M1 := (st.1.setIfInBounds p rowk).setIfInBounds k rowp
      let piv := rowp.getD k 0
      let rown := rowp.map (· / piv)
      let M2 := (M1.setIfInBounds k rown).mapIdx (fun i row => if i ≠ k then
          let fct := row.getD k 0
          row.mapIdx (fun j v => v - fct * rown.getD j 0) else row)
      (M2, true)) (M, true)
  if r.2 then Array.ofFn (n := n) (fun i => (r.1.getD i.val #[]).getD n 0) else f

def rabs (q : Rat) : Rat := if q < 0 then -q else q

structure Tail where
  npre : Nat
  npost : Nat
  ncycle : Nat
  pre_cycles : Nat
  fs : List (Vec Rat)

/-- `bmat = false`: `K (f)^K a b` (the combination coefficients are checked by the harness only);
`bmat = true`: no vectors, the unit vectors are applied -/
def pTail (bmat : Bool) (n : Nat) : P Tail := do
  let npre ← pNat; let npost ← pNat; let ncycle ← pNat; let pc ← pNat
  if bmat then
    let fs := (List.range n).map (fun j => Array.ofFn (n := n) (fun i => if i.val = j then (1 : Rat) else 0))
    pure { npre, npost, ncycle, pre_cycles := pc, fs }
  else
    let k ← pNat
    let fs ← pMany k pVec
    let _ ← pRat; let _ ← pRat
    pure { npre, npost, ncycle, pre_cycles := pc, fs }

def runApply {S : Type} (h : Hdr) (sm : Smoother Rat S) (t : Tail) : String :=
  if !hdrOk h || !t.fs.all (fun f => f.size == h.A.nrows) then badInput else
  let prm := { h.prm with npre := t.npre, npost := t.npost, ncycle := t.ncycle, pre_cycles := t.pre_cycles }
  match build prm (policy h) sm nonsingular h.A with
  | .error e => showErr e
  | .ok ls =>
    let r := t.fs.foldl (fun (st : List (Scratch Rat) × List String) f =>
      let a := apply prm sm denseSolve ls st.1 f
      (a.2, st.2 ++ [showVec a.1])) (freshScratch ls, [toString ls.length])
    joinSp r.2

/-- `amg_cycle`: the PUBLIC `amg::cycle(rhs, x)` called three times on ONE object from the caller's `x`:
`(f, x0)`, `(g, y0)`, `(A x0, x0)`; tail `5 f x0 g y0 (A x0) a b` -/
def runCycle {S : Type} (h : Hdr) (sm : Smoother Rat S) (t : Tail) : String :=
  if !hdrOk h || !t.fs.all (fun f => f.size == h.A.nrows) then badInput else
  let prm := { h.prm with npre := t.npre, npost := t.npost, ncycle := t.ncycle, pre_cycles := t.pre_cycles }
  match build prm (policy h) sm nonsingular h.A with
  | .error e => showErr e
  | .ok ls =>
    match t.fs with
    | [f, x0, g, y0, fs] =>
      let r1 := Amg.cycle prm sm denseSolve ls (freshScratch ls) f x0
      let r2 := Amg.cycle prm sm denseSolve ls r1.2 g y0
      let r3 := Amg.cycle prm sm denseSolve ls r2.2 fs x0
      joinSp [toString ls.length, showVec r1.1, showVec r2.1, showVec r3.1]
    | _ => badInput

def handle (op : String) (args : List String) : Option String :=
  match op with
  | "amg_apply" | "amg_bmat" | "amg_cycle" =>
    let run {S : Type} (h : Hdr) (sm : Smoother Rat S) (t : Tail) : String :=
      if op == "amg_cycle" then runCycle h sm t else runApply h sm t
    match runP (do
        let h ← pHdr
        let rk ← pNat
        let pTail := pTail (op == "amg_bmat") h.A.nrows
        match rk with
        | 0 => do let w ← pRat; let t ← pTail; pure (run h (jacobi w) t)
        | 1 => do let t ← pTail; pure (run h (gaussSeidel : Smoother Rat Unit) t)
        | 2 => do let t ← pTail; pure (run h (spai0 rabs) t)
        | 3 => do let w ← pRat; let t ← pTail; pure (run h (ilu0 w) t)
        | 4 => do
            let deg ← pNat; let hi ← pRat; let lo ← pRat; let sc ← pBool; let t ← pTail
            pure (run h (chebyshev { degree := deg, higher := hi, lower := lo, scale := sc }) t)
        | _ => fail) args with
    | some s => some s
    | none => some badInput
  | _ => none

end Amgcl.Driver.AmgApply
