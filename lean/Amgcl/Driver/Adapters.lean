import Amgcl.Driver.Util
import Amgcl.Model.Adapters
import Amgcl.Model.RelaxIlu
import Amgcl.Model.Rsqrt
/-!
handlers for the adapter ops (C13, C17); result parts are separated by `|`

  ad_tuple     idx n ptr col val x              -> rows cols nnz | CRS | A*x          (idx names the C++ index type)
  ad_zero_copy kind A x                         -> rows cols nnz own | CRS | A*x
  ad_builder   A x                              -> rows cols | CRS | A*x
  ad_block     b A alpha x beta y               -> rows cols est | BCRS | alpha*B*x + beta*y   or `precondition`
  ad_block_eigen b A alpha x beta y             -> as ad_block (Eigen block value type, integer data)
  ad_hybrid    b A alpha x beta y               -> alpha*B*x + beta*y                          or `precondition`
  ad_unblock   b B                              -> CRS
  ad_complex   A z                              -> rows cols nnz | CRS | Â*ẑ | A*z
  ad_reorder   A perm f y x0                    -> iperm | CRS | forward f | inverse y into x0 | B*y
  ad_scaled    A s f                            -> CRS | s.*f
  ad_scale_diag A                               -> s
  ad_eigen / ad_ublas A x                       -> rows cols nnz | CRS | A*x
  ad_asprec    kind A m rhs^m                   -> CRS | apply(rhs)^m                 or `precondition`
  ad_amg_sort  A                                -> CRS of the system matrix kept by amg
-/
namespace Amgcl.Driver.Adapters
open Amgcl Amgcl.Driver Amgcl.Adapters

def bar : String := "|"

def pBlkRow (b : Nat) : P (Row (Blk Rat)) := do
  let k ← pNat
  pMany k (do let c ← pNat; let v ← pMany (b * b) pRat; pure (c, v.toArray))

def pBlkCRS (b : Nat) : P (CRS (Blk Rat)) := do
  let n ← pNat
  let m ← pNat
  let rows ← pMany n (pBlkRow b)
  pure { ncols := m, rows := rows.toArray }

def showBlk (v : Blk Rat) : String := joinSp (v.toList.map showRat)

def showBlkCRS (B : CRS (Blk Rat)) : String := showCRSOf showBlk B

def pCx : P (Cx Rat) := do
  let a ← pRat
  let b ← pRat
  pure ⟨a, b⟩

def showCx (z : Cx Rat) : String := showRat z.re ++ " " ++ showRat z.im

def sq (A : CRS Rat) : Bool := A.nrows == A.ncols

def fullDiag (A : CRS Rat) : Bool :=
  (List.range A.nrows).all (fun i => (A.row i).any (fun cv => cv.1 == i))

def showSetup {α : Type} (o : Relax.SetupOutcome α) (k : α → String) : String :=
  match o with
  | .ok a => k a
  | .precondition => "precondition"
  | .undefinedInput => badInput

def idxTypes : List String := ["int", "long", "unsigned", "size_t", "ptrdiff_t"]

def handle (op : String) (args : List String) : Option String :=
  match op with
  | "ad_tuple" => withArgs (do
        let idx ← tok; let n ← pNat; let ptr ← pIntVec; let col ← pIntVec; let val ← pVec; let x ← pVec
        pure (idx, n, ptr, col, val, x)) args
      fun (idx, n, ptr, col, val, x) =>
        if idxTypes.contains idx && tupleOk n ptr col val && x.size == n then
          let A := crsTuple n ptr col val
          joinSp [toString A.nrows, toString A.ncols, toString (tupleNonzeros n ptr), bar, showCRS (crsCopy A), bar,
            showVec (spmv 1 A x 0 #[])]
        else badInput
  | "ad_zero_copy" => withArgs (do let k ← pNat; let A ← pCRS; let x ← pVec; pure (k, A, x)) args
      fun (k, A, x) =>
        if k ≤ 1 && A.wfb && x.size == A.ncols then
          let h := zeroCopy A
          joinSp [toString h.A.nrows, toString h.A.ncols, toString h.A.nnz, showBool h.ownData, bar, showCRS h.A, bar,
            showVec (spmv 1 h.A x 0 #[]), bar, toString h.freed.length]
        else badInput
  | "ad_builder" => withArgs (do let A ← pCRS; let x ← pVec; pure (A, x)) args
      fun (A, x) =>
        if A.wfb && sq A && x.size == A.ncols then
          let M := matrixBuilder A.nrows A.row
          joinSp [toString M.nrows, toString M.ncols, bar, showCRS (crsCopy M), bar, showVec (spmv 1 M x 0 #[])]
        else badInput
  | "ad_block" => withArgs (do
        let b ← pNat; let A ← pCRS; let al ← pRat; let x ← pVec; let be ← pRat; let y ← pVec
        pure (b, A, al, x, be, y)) args
      fun (b, A, al, x, be, y) =>
        if 2 ≤ b && b ≤ 4 && A.wfb && x.size == A.ncols && y.size == A.nrows then
          match blockMatrix b A with
          | .precondition => "precondition"
          | .ok B =>
            joinSp [toString B.nrows, toString B.ncols, toString (blockNonzerosEstimate b A), bar,
              showBlkCRS (crsCopy B), bar, showVec (blockSpmv b al (crsCopy B) x be y)]
        else badInput
  | "ad_block_eigen" => withArgs (do
        let b ← pNat; let A ← pCRS; let al ← pRat; let x ← pVec; let be ← pRat; let y ← pVec
        pure (b, A, al, x, be, y)) args
      fun (b, A, al, x, be, y) =>
        let isInt := fun (q : Rat) => q.den == 1
        if 2 ≤ b && b ≤ 4 && A.wfb && x.size == A.ncols && y.size == A.nrows && isInt al && isInt be &&
            x.all isInt && y.all isInt && A.rows.all (fun r => r.all (fun cv => isInt cv.2)) then
          match blockMatrix b A with
          | .precondition => "precondition"
          | .ok B =>
            joinSp [toString B.nrows, toString B.ncols, toString (blockNonzerosEstimate b A), bar,
              showBlkCRS (crsCopy B), bar, showVec (blockSpmv b al (crsCopy B) x be y)]
        else badInput
  | "ad_hybrid" => withArgs (do
        let b ← pNat; let A ← pCRS; let al ← pRat; let x ← pVec; let be ← pRat; let y ← pVec
        pure (b, A, al, x, be, y)) args
      fun (b, A, al, x, be, y) =>
        if 2 ≤ b && b ≤ 4 && A.wfb && x.size == A.ncols && y.size == A.nrows then
          match blockMatrix b A with
          | .precondition => "precondition"
          | .ok B => showVec (blockSpmv b al (crsCopy B) x be y)
        else badInput
  | "ad_unblock" =>
      match args with
      | bs :: rest =>
        match bs.toNat? with
        | some b =>
          if 2 ≤ b && b ≤ 4 then
            withArgs (pBlkCRS b) rest fun B => if B.wfb then showCRS (unblock b B) else badInput
          else some badInput
        | none => some badInput
      | [] => some badInput
  | "ad_complex" => withArgs (do let A ← pCRSOf pCx; let z ← pVecOf pCx; pure (A, z)) args
      fun (A, z) =>
        if A.wfb && A.nrows == A.ncols && z.size == A.ncols then
          let R := complexMatrix A
          joinSp [toString R.nrows, toString R.ncols, toString (complexNonzeros A), bar, showCRS (crsCopy R), bar,
            showVec (spmv 1 R (complexRange z) 0 #[]), bar, showVecOf showCx (spmv 1 A z 0 #[])]
        else badInput
  | "ad_reorder" => withArgs (do
        let A ← pCRS; let perm ← pNatVec; let f ← pVec; let y ← pVec; let x0 ← pVec; pure (A, perm, f, y, x0)) args
      fun (A, perm, f, y, x0) =>
        let n := A.nrows
        if A.wfb && sq A && perm.size == n && perm.all (· < n) && perm.toList.Nodup && f.size == n && y.size == n && x0.size == n then
          let ip := mkIperm perm
          let B := reorderedMatrix A perm ip
          joinSp [showNatVec ip, bar, showCRS (crsCopy B), bar, showVec (reorderForward perm f), bar,
            showVec (reorderInverse perm y x0), bar, showVec (spmv 1 B y 0 #[])]
        else badInput
  | "ad_scaled" => withArgs (do let A ← pCRS; let s ← pVec; let f ← pVec; pure (A, s, f)) args
      fun (A, s, f) =>
        if A.wfb && sq A && s.size == A.nrows && f.size == A.nrows then
          joinSp [showCRS (crsCopy (scaledMatrix A s)), bar, showVec (scaleVec s f)]
        else badInput
  | "ad_scale_diag" => withArgs pCRS args fun A =>
      if A.wfb && sq A then showVec (scaleDiagonal rsqrt A) else badInput
  | "ad_eigen" | "ad_ublas" => withArgs (do let A ← pCRS; let x ← pVec; pure (A, x)) args
      fun (A, x) =>
        if A.wfb && x.size == A.ncols && (op == "ad_eigen" || (sq A && A.sortedb)) then
          joinSp [toString A.nrows, toString A.ncols, toString A.nnz, bar, showCRS (crsCopy A), bar,
            showVec (spmv 1 A x 0 #[])]
        else badInput
  | "ad_asprec" => withArgs (do
        let k ← pNat; let A ← pCRS; let m ← pNat; let rs ← pMany m pVec; pure (k, A, rs)) args
      fun (k, A, rs) =>
        if k ≤ 1 && A.wfb && sq A && fullDiag A && rs.all (·.size == A.nrows) then
          let sm := Relax.ilu0 (1 : Rat)
          showSetup (if k = 0 then asPrecond sm A else asPrecondShared sm A) fun p =>
            joinSp (showCRS p.A :: rs.flatMap (fun r => [bar, showVec (p.apply sm r)]))
        else badInput
  | "ad_amg_sort" => withArgs pCRS args fun A =>
      if A.wfb && sq A && fullDiag A then showCRS (sortRows (crsCopy A)) else badInput
  | _ => none

end Amgcl.Driver.Adapters
