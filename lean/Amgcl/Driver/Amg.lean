import Amgcl.Driver.Util
import Amgcl.Model.Amg
import Amgcl.Model.CoarseningPolicy
/-!
handlers for the hierarchy ops (C03):
  amg_build   kind s nt coarse_enough direct_coarse max_levels allow_rebuild A L (P R)^L
  amg_rebuild kind s nt coarse_enough direct_coarse max_levels allow_rebuild A L (P R)^L K (A')^K
`kind` 0 = plain aggregation (scaled Galerkin with factor `s`), otherwise plain Galerkin; the transfer operators
are the ones recorded from the implementation (the coarsening algorithms themselves are C04's models).
-/
namespace Amgcl.Driver.Amg
open Amgcl Amgcl.Driver Amgcl.Amg

def pBool : P Bool := do
  let n ← pNat
  if n = 0 then pure false else if n = 1 then pure true else fail

/-- a smoother whose construction always succeeds and which is never applied (hierarchy dumps only) -/
def dummySm : Relax.Smoother Rat Unit :=
  { setup := fun _ => .ok (), applyPre := fun _ _ _ x t => (x, t), applyPost := fun _ _ _ x t => (x, t),
    apply := fun _ _ f => f }

/-- is the dense matrix nonsingular? (Gaussian elimination with row search over `Rat`).  Interim stand-in for the
zero-pivot outcome of the skyline LU constructor: every elimination order hits a zero pivot on a singular matrix;
a non-singular matrix with a vanishing leading minor in Cuthill–McKee order is outside what the generators produce. -/
def nonsingular (A : CRS Rat) : Bool :=
  let n := A.nrows
  let M : Array (Array Rat) := Array.ofFn (n := n) (fun i => Array.ofFn (n := n) (fun j => A.get i.val j.val))
  let r := (List.range n).foldl (fun (st : Array (Array Rat) × Bool) k =>
    if !st.2 then st else
    match (List.range n).find? (fun i => i ≥ k && (st.1.getD i #[]).getD k 0 ≠ 0) with
    | none => (st.1, false)
    | some p =>
      let rowp := st.1.getD p #[]
      let rowk := st.1.getD k #[]
      let M1 := (st.1.setIfInBounds p rowk).setIfInBounds k rowp
      let piv := rowp.getD k 0
      let M2 := M1.mapIdx (fun i row => if i > k then
          let f := row.getD k 0 / piv
          row.mapIdx (fun j v => v - f * rowp.getD j 0) else row)
      (M2, true)) (M, true)
  r.2

structure Hdr where
  kind : Nat
  s : Rat
  nt : Nat
  prm : Params
  A : CRS Rat
  prs : List (CRS Rat × CRS Rat)

def pHdr : P Hdr := do
  let kind ← pNat; let s ← pRat; let nt ← pNat
  let ce ← pNat; let dc ← pBool; let ml ← pNat; let ar ← pBool
  let A ← pCRS
  let L ← pNat
  let prs ← pMany L (do let p ← pCRS; let r ← pCRS; pure (p, r))
  pure { kind, s, nt, A, prs,
         prm := { coarse_enough := ce, direct_coarse := dc, max_levels := ml, npre := 1, npost := 1, ncycle := 1,
                  pre_cycles := 1, allow_rebuild := ar } }

def policy (h : Hdr) : Policy Rat :=
  { transfer := fun l _ => h.prs[l]?,
    coarseOp := if h.kind = 0 then scaledGalerkin h.nt h.s else galerkin h.nt }

def showOpt (o : Option (CRS Rat)) : List String := match o with | some A => [showCRS A] | none => []

def showLevel {S : Type} (lv : Level Rat S) : String :=
  joinSp (["L", toString lv.rows, showBool lv.A.isSome, showBool lv.P.isSome, showBool lv.R.isSome,
    showBool lv.bP.isSome, showBool lv.bR.isSome, showBool lv.solve.isSome, showBool lv.relax.isSome]
    ++ showOpt lv.A ++ showOpt lv.P ++ showOpt lv.R)

def showLevels {S : Type} (ls : List (Level Rat S)) : String :=
  joinSp (toString ls.length :: ls.map showLevel)

def showErr : BuildErr → String
  | .precondition => "precondition"
  | .undefinedInput => "bad-input"
  | .fuel => "no-termination"

def hdrOk (h : Hdr) : Bool :=
  h.A.wfb && h.kind ≤ 3 && h.nt ≥ 1 && h.prm.max_levels ≥ 1 && h.prs.all (fun pr => pr.1.wfb && pr.2.wfb) &&
  -- `s = float(1/over_interp)`: plain aggregation with over_interp 1, 1.5 (scalar default; `1/1.5f = 11184811/2^24`) or 2 (block default); no such parameter otherwise
  (if h.kind = 0 then h.s == 1 || h.s == 11184811/16777216 || h.s == 1/2 else h.s == 1)

/-- END-TO-END policy: the transfer operators come from the coarsening MODELS of C04 (plain / smoothed aggregation
with the library's default parameters eps_strong = 0.08f, relax = 1.0f), not from a recording -/
def policyFull (h : Hdr) (epsStrong relax : Rat) : Policy Rat :=
  let p : ParamGlue.CoarseningParamsQ := { epsStrong := epsStrong, blockSize := 1, relax := relax }
  { transfer := Coarsening.toPolicyTransfer (if h.kind = 0 then Coarsening.transferAggregation p else Coarsening.transferSmoothedAggregation p),
    coarseOp := if h.kind = 0 then scaledGalerkin h.nt h.s else galerkin h.nt }

def handle (op : String) (args : List String) : Option String :=
  match op with
  | "amg_full" => withArgs (do let h ← pHdr; let e ← pRat; let r ← pRat; pure (h, e, r)) args fun (h, e, r) =>
      if !hdrOk h || h.kind > 1 || !h.prs.isEmpty then badInput else
      match build h.prm (policyFull h e r) dummySm nonsingular h.A with
      | .ok ls => showLevels ls
      | .error e => showErr e
  | "amg_build" => withArgs pHdr args fun h =>
      if !hdrOk h then badInput else
      match build h.prm (policy h) dummySm nonsingular h.A with
      | .ok ls => showLevels ls
      | .error e => showErr e
  | "amg_rebuild" => withArgs (do let h ← pHdr; let k ← pNat; let As ← pMany k pCRS; pure (h, As)) args fun (h, As) =>
      if !hdrOk h || !As.all (·.wfb) then badInput else
      match build h.prm (policy h) dummySm nonsingular h.A with
      | .error e => showErr e
      | .ok ls =>
        let step := fun (st : List (Level Rat Unit) × List String) (A' : CRS Rat) =>
          match rebuild h.prm (policy h) dummySm nonsingular st.1 A' with
          | .ok ls' => (ls', st.2 ++ ["|", showLevels ls'])
          | .error e => (st.1, st.2 ++ ["|", showErr e])
        joinSp (As.foldl step (ls, [showLevels ls])).2
  | _ => none

end Amgcl.Driver.Amg
