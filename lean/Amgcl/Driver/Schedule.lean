import Amgcl.Driver.Util
import Amgcl.Model.Schedule
import Amgcl.Model.ScheduleSort
import Amgcl.Model.ScheduleLocal
/-! handlers for the C09 schedule ops (harness/h_sched.cpp) -/
namespace Amgcl.Driver.Schedule
open Amgcl Amgcl.Driver Amgcl.Sched

def square (A : CRS Rat) : Bool := A.wfb && A.ncols == A.nrows
def flag (b : Nat) : Bool := b ≤ 1
def ntOk (nt : Nat) : Bool := 1 ≤ nt && nt ≤ 64

/-- one thread's storage as the hook dumps it: tasks (thread-local row ranges), `ord`, `ptr`, `col`, `val` and (upper
ILU solve only) `D` -/
def showLoc (hasD : Bool) (L : Loc Rat) : String :=
  joinSp (["t", toString L.tasks.length] ++ L.tasks.flatMap (fun be => [toString be.1, toString be.2])
    ++ ["o", showNatVec L.ord, "p", showNatVec L.ptr, "c", showNatVec L.col, "v", showVec L.val]
    ++ (if hasD then ["d", showVec L.D] else []))

def showTables (nt : Nat) (hasD : Bool) (Ls : List (Loc Rat)) : String :=
  joinSp (("nt " ++ toString nt) :: Ls.map (showLoc hasD))

/-- tables + the serial result; if the level function leaves a conflict (as-is variant on a non-symmetric
pattern) the harness prints the reverse-thread execution instead, and so does the model -/
def schedOut (fwd : Bool) (A : CRS Rat) (hasD : Bool) (Dv : Vec Rat) (ln : Array Nat × Nat) (nt : Nat)
    (upd : Vec Rat → Nat → Vec Rat) (locRun : List (Loc Rat) → List Ev → Vec Rat → Vec Rat)
    (serial : Vec Rat) (x : Vec Rat) : String :=
  let pat := pattern A
  -- `ln` = (level, nlev) as step 1 accumulates them; steps 2-4 executed statement by statement (counting sort,
  -- chunking, `ord[tid]` gathered through `order`).  `Amgcl.C09.constructor_literal_eq_spec` proves
  -- `constructorLit ln nt = tasks level nt`; the run-time comparisons below are cross-checks only
  let level := ln.1
  let tk := constructorLit ln nt
  let nl := nlev level
  if ln.2 != nl then "model-inconsistent: nlev" else
  let cs := countingSort level
  if cs.1 != order level || cs.2 != (List.range (nl + 1)).map (start level) then "model-inconsistent: counting sort" else
  if tk != tasks level nt then "model-inconsistent: literal schedule differs from its specification" else
  let adv := [reverseThreadSchedule tk nl, roundRobinSchedule tk nl, threadOrderSchedule tk nl]
  if !(adv.all (isExec gsExpectedSkeleton tk nl)) then "model-inconsistent: adversarial schedule not in Exec" else
  let cf := conflictFree fwd pat level
  -- tiny cases: EVERY execution the skeleton admits (all interleavings of every level) must give the serial result
  let allExecs : List (List Nat) :=
    if pat.size ≤ 4 then
      (List.range nl).foldl (fun acc lev =>
        acc.flatMap fun pre => (interleavings (pat.size + 1) (levelTasks tk lev)).map (pre ++ ·)) [[]]
    else []
  if cf && !(allExecs.all fun σ => isExec gsExpectedSkeleton tk nl σ && runRows upd σ x == serial) then
    "model-inconsistent: an admitted execution differs from serial" else
  if cf && !(adv.all fun σ => runRows upd σ x == serial) then "model-inconsistent: conflict-free schedule differs from serial" else
  -- step 4 statement by statement: the thread-local tables (`Model/ScheduleLocal.lean`); they are what is printed and
  -- compared with the dumped tables of the real constructor.  `Amgcl.C09b.local_tasks_eq_spec`,
  -- `local_copy_faithful` prove the relations that are re-evaluated here as cross-checks
  let Ls := constructorLoc A hasD Dv ln nt
  if Ls.map (·.tasks) != tk.map localTasks || Ls.map (·.ord.toList) != tk.map List.flatten then
    "model-inconsistent: thread-local tasks/ord" else
  if !(Ls.all fun L => (List.range L.ord.size).all fun r =>
        L.row r == A.row (L.ord.getD r 0) && (!hasD || L.D.getD r 0 == Dv.getD (L.ord.getD r 0) 0)) then
    "model-inconsistent: thread-local row copy" else
  let ev := evTable Ls
  let advE := [reverseThreadG ev (nlevLoc Ls), roundRobinScheduleG ev (nlevLoc Ls), threadOrderG ev (nlevLoc Ls)]
  if advE.map (·.map (rowOfEv Ls)) != adv then "model-inconsistent: event schedules" else
  -- the literal `sweep`/`solve` loops over the thread-local tables, in the three adversarial event orders
  if cf && !(advE.all fun σ => locRun Ls σ x == serial) then
    "model-inconsistent: literal sweep over the thread-local tables differs from serial" else
  let out := locRun Ls (if cf then threadOrderG ev (nlevLoc Ls) else reverseThreadG ev (nlevLoc Ls)) x
  showTables nt hasD Ls ++ " x " ++ showVec out

def strictTri (lower : Bool) (A : CRS Rat) : Bool :=
  (List.range A.nrows).all fun i => (A.row i).all fun cv => before lower cv.1 i

/-- the fixed values of the exhaustive batches (h_sched.cpp: exh_pattern); only the pattern matters here -/
def exhPattern (n code : Nat) (tri : Nat) : Pattern :=
  let cells := (List.range n).flatMap fun i => (List.range n).filterMap fun j =>
    if i == j then none else if tri == 1 && !(j < i) then none else if tri == 2 && !(j > i) then none else some (i, j)
  let on : List (Nat × Nat) := (cells.zipIdx.filter (fun ck => (code >>> ck.2) % 2 == 1)).map (·.1)
  Array.ofFn (n := n) fun i =>
    ((List.range n).filter fun j => (j == i.val && tri == 0) || on.contains (i.val, j))

def exhBits (n tri : Nat) : Nat := if tri == 0 then n * (n - 1) else n * (n - 1) / 2

def exhRun (levels : Pattern → Array Nat) (fwd : Bool) (n lo hi tri : Nat) : String :=
  let r := (List.range (hi - lo)).foldl (fun (acc : Nat × Nat) k =>
    let code := lo + k
    let pat := exhPattern n code tri
    let level := levels pat
    let s := (List.range n).foldl (fun s i => s + (level.getD i 0 + 1) * (i + 1)) 0
    (acc.1 + (if conflictFree fwd pat level then 0 else 1), (acc.2 + s * (code + 1)) % 2 ^ 64)) (0, 0)
  toString r.1 ++ " " ++ toString r.2

def rabs (q : Rat) : Rat := if q < 0 then -q else q

def handle (op : String) (args : List String) : Option String :=
  match op with
  | "sched_gs" | "sched_gs_asis" => withArgs (do let f ← pNat; let nt ← pNat; let A ← pCRS; let rhs ← pVec; let x ← pVec; pure (f, nt, A, rhs, x)) args
      fun (f, nt, A, rhs, x) =>
        if !(flag f && ntOk nt && square A && rhs.size == A.nrows && x.size == A.nrows) then badInput else
        let fwd := f == 1
        let pat := pattern A
        let ln := if op == "sched_gs_asis" then gsLevelsAsIsN fwd pat else gsLevelsN fwd pat
        let level := if op == "sched_gs_asis" then gsLevelsAsIs fwd pat else gsLevels fwd pat
        if ln.1 != level then "model-inconsistent: levels" else
        schedOut fwd A false #[] ln nt (gsRow A rhs) (fun Ls σ x => gsSweepLoc Ls rhs σ x) (gsSerialSweep fwd A rhs x) x
  | "sched_ilu" => withArgs (do let lo ← pNat; let nt ← pNat; let A ← pCRS; let D ← pVec; let x ← pVec; pure (lo, nt, A, D, x)) args
      fun (lo, nt, A, D, x) =>
        if !(flag lo && ntOk nt && square A && D.size == A.nrows && x.size == A.nrows && strictTri (lo == 1) A) then badInput else
        let lower := lo == 1
        let pat := pattern A
        let ln := iluLevelsN lower pat
        if ln.1 != iluLevels lower pat then "model-inconsistent: levels" else
        schedOut lower A (!lower) D ln nt (iluRow lower A D) (fun Ls σ x => iluSolveLoc lower Ls σ x)
          (iluSerialHalf lower A D x) x
  | "gs_apply" => withArgs (do let nt ← pNat; let w ← pNat; let A ← pCRS; let rhs ← pVec; let x ← pVec; pure (nt, w, A, rhs, x)) args
      fun (nt, w, A, rhs, x) =>
        if !(ntOk nt && w ≤ 2 && square A && rhs.size == A.nrows && x.size == A.nrows) then badInput else
        showVec (match w with
          | 0 => gsSerialSweep true A rhs x
          | 1 => gsSerialSweep false A rhs x
          | _ => gsSerialSweep false A rhs (gsSerialSweep true A rhs (vclear A.nrows)))
  | "ilu_solve" => withArgs (do let nt ← pNat; let L ← pCRS; let U ← pCRS; let D ← pVec; let x ← pVec; pure (nt, L, U, D, x)) args
      fun (nt, L, U, D, x) =>
        if !(ntOk nt && square L && square U && L.nrows == U.nrows && D.size == L.nrows && x.size == L.nrows
             && strictTri true L && strictTri false U) then badInput else
        showVec (iluSerialSolve L U D x)
  | "ilu0_threads" => withArgs (do let nt ← pNat; let A ← pCRS; let f ← pVec; pure (nt, A, f)) args
      fun (nt, A, f) =>
        if !(ntOk nt && square A && f.size == A.nrows && A.sortedb
             && (List.range A.nrows).all fun i => (A.row i).any fun cv => cv.1 == i && cv.2 != 0) then badInput else
        "same"     -- the model's prediction: ILU(0) application does not depend on the thread count
  | "sched_exh" | "sched_exh_asis" => withArgs (do let f ← pNat; let nt ← pNat; let n ← pNat; let lo ← pNat; let hi ← pNat; pure (f, nt, n, lo, hi)) args
      fun (f, nt, n, lo, hi) =>
        if !(flag f && ntOk nt && n ≤ 6 && exhBits n 0 ≤ 30 && lo ≤ hi && hi ≤ 2 ^ exhBits n 0) then badInput else
        let fwd := f == 1
        exhRun (if op == "sched_exh_asis" then gsLevelsAsIs fwd else gsLevels fwd) fwd n lo hi 0
  | "sched_exh_ilu" => withArgs (do let f ← pNat; let nt ← pNat; let n ← pNat; let lo ← pNat; let hi ← pNat; pure (f, nt, n, lo, hi)) args
      fun (f, nt, n, lo, hi) =>
        if !(flag f && ntOk nt && n ≤ 6 && lo ≤ hi && hi ≤ 2 ^ exhBits n 1) then badInput else
        let lower := f == 1
        exhRun (iluLevels lower) lower n lo hi (if lower then 1 else 2)
  | "sched_gershgorin" => withArgs (do let s ← pNat; let nt ← pNat; let A ← pCRS; pure (s, nt, A)) args
      fun (s, nt, A) =>
        if !(flag s && ntOk nt && square A
             && (s == 0 || (List.range A.nrows).all fun i => (A.row i).any fun cv => cv.1 == i)) then badInput else
        showRat (gershgorin (s == 1) rabs nt A)
  | _ => none

end Amgcl.Driver.Schedule
